/-
Multiplexer world, part J: `msg.app` / `msg.ins` (`Message.AppendSignal` / `InsertSignal`).
-/
import Acme.Proofs.MuxReg

namespace Acme.Mux
open Acme.Layout Acme.Arith

theorem nodupStr_iff (l : List String) : nodupStr l = true ↔ l.Nodup := by
  induction l with
  | nil => simp [nodupStr]
  | cons a rest ih =>
    simp only [nodupStr, Bool.and_eq_true, Bool.not_eq_true', List.nodup_cons, ih]
    constructor
    · rintro ⟨h1, h2⟩
      exact ⟨by intro hm; simp [List.contains_iff_mem, hm] at h1, h2⟩
    · rintro ⟨h1, h2⟩
      refine ⟨?_, h2⟩
      cases hc : rest.contains a with
      | false => rfl
      | true => exact absurd (by simpa using hc) h1

theorem insertAt_perm (x : Slot) : ∀ l : List Slot, (insertAt x l).Perm (x :: l)
  | [] => List.Perm.refl _
  | s :: rest => by
    simp only [insertAt]
    split
    · exact List.Perm.refl _
    · exact ((insertAt_perm x rest).cons s).trans (List.Perm.swap x s rest)

/-- what `childrenOf` and `Anc` read of a signal -/
def treeView (e : SigE) : Option Nat × List Nat :=
  (e.parentMux, match e.kind with | .mux _ _ => e.mx.signals | .leaf _ => [])

theorem TreeOK.congr {w w' : MW} (h : TreeOK w)
    (hv : ∀ i, (w'.sigs.get i).map treeView = (w.sigs.get i).map treeView) : TreeOK w' := by
  have hpm : ∀ i, (w'.sigs.get i).map (·.parentMux) = (w.sigs.get i).map (·.parentMux) := by
    intro i
    have := congrArg (Option.map Prod.fst) (hv i)
    simpa [Option.map_map, Function.comp_def, treeView] using this
  have hbw : ∀ i e', w'.sigs.get i = some e' → ∃ e, w.sigs.get i = some e ∧ e.parentMux = e'.parentMux := by
    intro i e' hi
    have := hpm i
    rw [hi] at this
    cases hg : w.sigs.get i with
    | none => rw [hg] at this; simp at this
    | some e => rw [hg] at this; simp at this; exact ⟨e, rfl, this.symm⟩
  have hfw : ∀ i e, w.sigs.get i = some e → ∃ e', w'.sigs.get i = some e' ∧ e'.parentMux = e.parentMux := by
    intro i e hi
    have := hpm i
    rw [hi] at this
    cases hg : w'.sigs.get i with
    | none => rw [hg] at this; simp at this
    | some e' => rw [hg] at this; simp at this; exact ⟨e', rfl, this⟩
  have hch : ∀ y, childrenOf w' y = childrenOf w y := by
    intro y
    have := congrArg (Option.map Prod.snd) (hv y)
    simp only [Option.map_map, Function.comp_def, treeView] at this
    unfold childrenOf
    cases h1 : w.sigs.get y with
    | none =>
      rw [h1] at this
      cases h2 : w'.sigs.get y with
      | none => rfl
      | some e' => rw [h2] at this; simp at this
    | some e =>
      rw [h1] at this
      cases h2 : w'.sigs.get y with
      | none => rw [h2] at this; simp at this
      | some e' =>
        rw [h2] at this
        simp only [Option.map_some, Option.some.injEq] at this
        cases hk : e.kind <;> cases hk' : e'.kind <;> simp only [hk, hk'] at this ⊢ <;> exact this
  refine ⟨?_, ?_, ?_⟩
  · intro s e' x hs hp
    obtain ⟨e, he, hpe⟩ := hbw s e' hs
    obtain ⟨xe, hx⟩ := h.parentStored s e x he (by rw [hpe, hp])
    obtain ⟨xe', hx', _⟩ := hfw x xe hx
    exact ⟨xe', hx'⟩
  · intro y c
    rw [hch, h.children]
    constructor
    · rintro ⟨e, he, hp⟩
      obtain ⟨e', he', hp'⟩ := hfw c e he
      exact ⟨e', he', by rw [hp', hp]⟩
    · rintro ⟨e', he', hp⟩
      obtain ⟨e, he, hpe⟩ := hbw c e' he'
      exact ⟨e, he, by rw [hpe, hp]⟩
  · obtain ⟨depth, hd⟩ := h.acyclic
    refine ⟨depth, ?_⟩
    intro s e' x hs hp
    obtain ⟨e, he, hpe⟩ := hbw s e' hs
    exact hd s e x he (by rw [hpe, hp])

/-- proper members of the subtree of `s` -/
def Below (w : MW) (t s : Nat) : Prop := ∃ k, Anc w (k + 1) t s

theorem msgPlace_spec (w : MW) (m : Nat) (msg : MsgE) (hmo : MsgOK w m msg) (s : Nat) (sz : Int) (hsz : 0 < sz)
    (st : Option Int) (r : Int) (lay : List Nat) (hok : msgPlace w msg s sz st = .ok (r, lay)) :
    ∃ L' : List Slot, WF msg.cap L' ∧ L'.map (·.id) = lay ∧
      (∀ sl ∈ L', sl = ⟨s, r, sz⟩ ∨ sl ∈ slotsOf w msg.layout) ∧ (⟨s, r, sz⟩ : Slot) ∈ L' ∧
      lay.Perm (s :: msg.layout) := by
  cases st with
  | none =>
    simp only [msgPlace] at hok
    split at hok
    · cases hok
    · rename_i hv
      simp only [Except.ok.injEq, Prod.mk.injEq] at hok
      obtain ⟨rfl, rfl⟩ := hok
      have happ : append msg.cap (slotsOf w msg.layout) s sz = .ok (slotsOf w msg.layout ++ [⟨s, lastEnd (slotsOf w msg.layout), sz⟩]) := by
        simp only [append, hv]
      obtain ⟨hw, _⟩ := append_wf msg.cap _ hmo.wf s sz hsz _ happ
      refine ⟨_, hw, ?_, ?_, by simp, ?_⟩
      · simp [hmo.slots_ids]
      · intro sl hsl
        simp only [List.mem_append, List.mem_singleton] at hsl
        rcases hsl with h1 | h1
        · exact Or.inr h1
        · exact Or.inl h1
      · exact List.perm_append_singleton s msg.layout
  | some st =>
    simp only [msgPlace] at hok
    split at hok
    · cases hok
    · rename_i hv
      simp only [Except.ok.injEq, Prod.mk.injEq] at hok
      obtain ⟨rfl, rfl⟩ := hok
      have hins : verifyAndInsert msg.cap (slotsOf w msg.layout) s sz st = .ok (Layout.insert (slotsOf w msg.layout) s sz st) := by
        simp only [verifyAndInsert, hv]
      obtain ⟨hw, hmem, _, _⟩ := insert_wf msg.cap _ hmo.wf s sz st hsz _ hins
      have hperm := insertAt_perm ⟨s, st, sz⟩ (slotsOf w msg.layout)
      refine ⟨_, hw, rfl, ?_, hmem, ?_⟩
      · intro sl hsl
        have := hperm.mem_iff.mp hsl
        simpa using this
      · have := hperm.map (·.id)
        simpa [Layout.insert, hmo.slots_ids] using this

theorem not_below_self (w : MW) (h : TreeOK w) (s : Nat) : ¬ Below w s s := by
  obtain ⟨depth, hd⟩ := h.acyclic
  have key : ∀ k t u, Anc w k t u → depth u ≤ depth t := by
    intro k
    induction k with
    | zero => intro t u ha; simp only [Anc] at ha; subst ha; exact Nat.le_refl _
    | succ k ih =>
      rintro t u ⟨e, p, he, hp, hr⟩
      have := hd t e p he hp
      have := ih p u hr
      omega
  rintro ⟨k, e, p, he, hp, hr⟩
  have h1 := hd s e p he hp
  have h2 := key k p s hr
  omega

theorem below_parent (w : MW) (t s : Nat) (e : SigE) (x : Nat) (ht : w.sigs.get t = some e)
    (hp : e.parentMux = some x) : Below w t s ↔ (x = s ∨ Below w x s) := by
  constructor
  · rintro ⟨k, e', p, he', hp', hr⟩
    rw [ht] at he'; cases he'
    rw [hp] at hp'; cases hp'
    cases k with
    | zero => simp only [Anc] at hr; exact Or.inl hr
    | succ k => exact Or.inr ⟨k, hr⟩
  · rintro (rfl | ⟨k, hr⟩)
    · exact ⟨0, e, x, ht, hp, rfl⟩
    · exact ⟨k + 1, e, x, ht, hp, hr⟩

theorem inv_attach (w : MW) (h : InvCore w) (m : Nat) (msg : MsgE) (hm : w.msgs.get m = some msg)
    (s : Nat) (se : SigE) (hs : w.sigs.get s = some se) (hpm : se.parentMsg = none) (hpx : se.parentMux = none)
    (hn1 : nmHas msg.signalNames se.name = false) (hn2 : nestedNamesOk w msg s = true)
    (r : Int) (lay : List Nat) (L' : List Slot) (hwf : WF msg.cap L') (hid : L'.map (·.id) = lay)
    (hsrc : ∀ sl ∈ L', sl = ⟨s, r, sigSize se⟩ ∨ sl ∈ slotsOf w msg.layout)
    (hperm : lay.Perm (s :: msg.layout)) :
    InvCore (msgAddSignal { sigs := setRel w.sigs s r, msgs := w.msgs.set m { msg with layout := lay } } m s) := by
  have hmo := h.msgOK hm
  generalize hw1 : ({ sigs := setRel w.sigs s r, msgs := w.msgs.set m { msg with layout := lay } } : MW) = w1
  have hm1 : w1.msgs.get m = some { msg with layout := lay } := by rw [← hw1]; simp
  have hmsgs1 : ∀ j, j ≠ m → w1.msgs.get j = w.msgs.get j := by
    intro j hj; rw [← hw1]; simp [hj]
  have hget1 : ∀ i, w1.sigs.get i = if i = s then some { se with rel := r } else w.sigs.get i := by
    intro i; rw [← hw1]; simp only; rw [setRel_get, hs]; rfl
  have ht1 : TreeOK w1 := by
    apply h.treeOK.congr
    intro i
    rw [hget1]
    by_cases his : i = s
    · subst his; simp [hs, treeView]
    · simp [his]
  have hname1 : ∀ i, nameOf w1 i = nameOf w i := by
    intro i
    unfold nameOf
    rw [hget1]
    by_cases his : i = s
    · subst his; simp [hs]
    · simp [his]
  obtain ⟨D, hDd⟩ : ∃ D, D = descendants w1 (fuelOf w1) s := ⟨_, rfl⟩
  have hD : ∀ t, t ∈ D ↔ Below w t s := by
    intro t
    rw [hDd, mem_descendants_iff w1 ht1]
    unfold Below
    have hc : ∀ i, (w1.sigs.get i).map (·.parentMux) = (w.sigs.get i).map (·.parentMux) := by
      intro i; rw [hget1]
      by_cases his : i = s
      · subst his; simp [hs]
      · simp [his]
    constructor
    · rintro ⟨k, hk⟩; exact ⟨k, (Anc_congr w w1 hc (k + 1) t s).mp hk⟩
    · rintro ⟨k, hk⟩; exact ⟨k, (Anc_congr w w1 hc (k + 1) t s).mpr hk⟩
  -- facts about the subtree
  have hDfacts : ∀ t, t ∈ D → ∃ e, w.sigs.get t = some e ∧ e.parentMsg = none ∧ e.parentMux ≠ none ∧ t ≠ s := by
    intro t ht
    obtain ⟨k, e, p, he, hp, hr⟩ := (hD t).mp ht
    obtain ⟨et, het, hmm⟩ := Anc_stored w h (k + 1) t s e he ⟨e, p, he, hp, hr⟩
    rw [hs] at het; cases het
    refine ⟨e, he, by rw [← hmm, hpm], by rw [hp]; simp, ?_⟩
    rintro rfl
    exact not_below_self w h.treeOK t ((hD t).mp ht)
  -- the final world, pointwise
  generalize hW : msgAddSignal w1 m s = W'
  have hgW : ∀ i, W'.sigs.get i =
      if i ∈ s :: D then (w1.sigs.get i).map (fun e => { e with parentMsg := some m }) else w1.sigs.get i := by
    intro i; rw [← hW, msgAddSignal_eq w1 m s _ hm1, ← hDd]; exact setParentMsgs_get _ _ _ _
  have hgM : ∀ j, W'.msgs.get j = if j = m then some
        { sizeByte := msg.sizeByte, cap := msg.cap, layout := lay,
          signals := sAddAll msg.signals (s :: D),
          signalNames := nmSetAll msg.signalNames ((nameOf w1 s, s) :: (s :: D).flatMap (childNamesOf w1)) }
      else w.msgs.get j := by
    intro j; rw [← hW, msgAddSignal_eq w1 m s _ hm1, ← hDd]; simp only [AMap.get_set]
    by_cases hj : j = m
    · simp [hj, nmSetAll]
    · simp [hj, hmsgs1 j hj]
  have hWs : W'.sigs.get s = some { se with rel := r, parentMsg := some m } := by
    rw [hgW, if_pos (List.mem_cons_self), hget1, if_pos rfl]; rfl
  have hWo : ∀ t e, t ≠ s → w.sigs.get t = some e →
      W'.sigs.get t = some { e with parentMsg := if t ∈ D then some m else e.parentMsg } := by
    intro t e hts he
    rw [hgW, hget1, if_neg hts, he]
    by_cases htd : t ∈ D
    · have : t ∈ s :: D := List.mem_cons_of_mem _ htd
      simp [this, htd]
    · have : t ∉ s :: D := by simp [hts, htd]
      simp [this, htd]
  have hbw : ∀ t e', W'.sigs.get t = some e' → ∃ e, w.sigs.get t = some e := by
    intro t e' ht
    by_cases hts : t = s
    · subst hts; exact ⟨se, hs⟩
    · cases hg : w.sigs.get t with
      | some e => exact ⟨e, rfl⟩
      | none =>
        rw [hgW, hget1, if_neg hts, hg] at ht
        split at ht <;> cases ht
  have hfw : ∀ t e, w.sigs.get t = some e → ∃ e', W'.sigs.get t = some e' ∧ e'.name = e.name ∧
      e'.parentMux = e.parentMux ∧ (e.parentMux ≠ none → e'.rel = e.rel) ∧ e'.kind = e.kind ∧ e'.mx = e.mx ∧
      e'.parentMsg = (if t ∈ s :: D then some m else e.parentMsg) := by
    intro t e he
    by_cases hts : t = s
    · subst hts
      rw [hs] at he; cases he
      exact ⟨_, hWs, rfl, rfl, fun hh => absurd hpx hh, rfl, rfl, by simp⟩
    · refine ⟨_, hWo t e hts he, rfl, rfl, fun _ => rfl, rfl, rfl, ?_⟩
      by_cases htd : t ∈ D
      · simp [htd]
      · simp [hts, htd]
  have hnameW : ∀ t, nameOf W' t = nameOf w t := by
    intro t
    cases hg : w.sigs.get t with
    | none =>
      have : W'.sigs.get t = none := by
        cases hg' : W'.sigs.get t with
        | none => rfl
        | some e' => obtain ⟨e, he⟩ := hbw t e' hg'; rw [hg] at he; cases he
      simp [nameOf, hg, this]
    | some e =>
      obtain ⟨e', he', hn, _⟩ := hfw t e hg
      simp [nameOf, hg, he', hn]
  have hclosed : ∀ t e x, w.sigs.get t = some e → e.parentMux = some x → (t ∈ s :: D ↔ x ∈ s :: D) := by
    intro t e x he hp
    have hts : t ≠ s := by rintro rfl; rw [hs] at he; cases he; rw [hpx] at hp; cases hp
    simp only [List.mem_cons, hts, false_or, hD]
    exact below_parent w t s e x he hp
  obtain ⟨p1, p2, p3⟩ := parts_reparent w W' h (s :: D) (some m) hfw hbw hclosed
    (fun m' hh => by cases hh; rw [hgM]; simp)
    (fun m' hh => by rw [hgM]; by_cases hj : m' = m <;> simp [hj, hh])
  have hsnl : s ∉ msg.layout := by
    intro hl
    obtain ⟨e, he, _, hp⟩ := (hmo.top s).mp hl
    rw [hs] at he; cases he; rw [hpm] at hp; cases hp
  apply InvCore.of_parts p1 _ p2 p3
  intro j msg' hj
  rw [hgM] at hj
  by_cases hjm : j = m
  · subst hjm
    simp only [↓reduceIte, Option.some.injEq] at hj
    subst hj
    -- names of the subtree
    have hexact := childNames_exact w1 (by
      intro x xe gc gs hx hk n i
      rw [hget1] at hx
      by_cases hxs : x = s
      · subst hxs
        simp only [↓reduceIte, Option.some.injEq] at hx
        subst hx
        have := (h.muxOK hs hk).names n i
        simpa [hname1] using this
      · rw [if_neg hxs] at hx
        have := (h.muxOK hx hk).names n i
        simpa [hname1] using this)
    have hP : ∀ n i, (n, i) ∈ ((nameOf w1 s, s) :: (s :: D).flatMap (childNamesOf w1)) ↔ i ∈ s :: D ∧ nameOf w i = n := by
      intro n i
      have := mem_subtreeNames w1 ht1 s hexact n i
      rw [← hDd] at this
      simp only [List.mem_cons, this, hname1, Prod.mk.injEq]
      constructor
      · rintro (⟨rfl, rfl⟩ | ⟨hi, hn⟩)
        · exact ⟨Or.inl rfl, rfl⟩
        · exact ⟨Or.inr hi, hn⟩
      · rintro ⟨rfl | hi, hn⟩
        · exact Or.inl ⟨hn.symm, rfl⟩
        · exact Or.inr ⟨hi, hn⟩
    -- the verified names
    unfold nestedNamesOk at hn2
    simp only [Bool.and_eq_true, List.all_eq_true, List.mem_map, forall_exists_index, and_imp,
      forall_apply_eq_imp_iff₂, Bool.not_eq_true'] at hn2
    obtain ⟨hn2a, hn2b⟩ := hn2
    have hD0 : ∀ t, t ∈ descendants w (fuelOf w) s ↔ t ∈ D := by
      intro t; rw [hD, mem_descendants_iff w h.treeOK]; rfl
    have hn2c : ((s :: descendants w (fuelOf w) s).map (nameOf w)).Nodup := by
      simpa using (nodupStr_iff _).mp hn2b
    have hinjl := List.inj_on_of_nodup_map hn2c
    have hinj : ∀ i j, i ∈ s :: D → j ∈ s :: D → nameOf w i = nameOf w j → i = j := by
      intro i j hi hj hij
      have hi' : i ∈ s :: descendants w (fuelOf w) s := by
        simp only [List.mem_cons] at hi ⊢; rcases hi with hi | hi
        · exact Or.inl hi
        · exact Or.inr ((hD0 i).mpr hi)
      have hj' : j ∈ s :: descendants w (fuelOf w) s := by
        simp only [List.mem_cons] at hj ⊢; rcases hj with hj | hj
        · exact Or.inl hj
        · exact Or.inr ((hD0 j).mpr hj)
      have := @hinjl i (by simpa using hi') j (by simpa using hj')
      exact this (by simpa using hij)
    have hdisj : ∀ i, i ∈ s :: D → ∀ j, (nameOf w i, j) ∉ msg.signalNames := by
      intro i hi j
      simp only [List.mem_cons] at hi
      rcases hi with rfl | hi
      · have : nameOf w i = se.name := by simp [nameOf, hs]
        rw [this]
        exact (nmHas_false_iff _ _).mp hn1 j
      · exact (nmHas_false_iff _ _).mp (hn2a i ((hD0 i).mpr hi)) j
    obtain ⟨r1, r2, r3⟩ := registry_add w W' j msg hmo (s :: D) ((nameOf w1 s, s) :: (s :: D).flatMap (childNamesOf w1))
      (by
        intro t ht
        simp only [List.mem_cons] at ht
        rcases ht with rfl | ht
        · exact ⟨_, hWs, rfl⟩
        · obtain ⟨e, he, _, _, hts⟩ := hDfacts t ht
          exact ⟨_, hWo t e hts he, by simp [ht]⟩)
      (by
        intro t ht
        simp only [List.mem_cons, not_or] at ht
        constructor
        · rintro ⟨e', he', hp⟩
          obtain ⟨e, he⟩ := hbw t e' he'
          rw [hWo t e ht.1 he] at he'
          cases he'
          exact ⟨e, he, by simpa [ht.2] using hp⟩
        · rintro ⟨e, he, hp⟩
          exact ⟨_, hWo t e ht.1 he, by simpa [ht.2] using hp⟩)
      (fun t _ => hnameW t) hP hinj hdisj
    have hlaymem : ∀ t, t ∈ lay ↔ t = s ∨ t ∈ msg.layout := by
      intro t; rw [hperm.mem_iff]; simp
    refine ⟨hmo.cap, ?_, ?_, ?_, r1, r2, r3⟩
    · -- the layout
      show WF msg.cap (slotsOf W' lay)
      rw [← hid, slotsOf_of_pointwise W' L']
      · exact hwf
      · intro sl hsl
        rcases hsrc sl hsl with rfl | hsl'
        · exact ⟨_, hWs, rfl, rfl⟩
        · obtain ⟨hmem, e, he, h1, h2⟩ := mem_slotsOf w msg.layout sl hsl'
          have hne : sl.id ≠ s := fun hh => hsnl (hh ▸ hmem)
          exact ⟨_, hWo sl.id e hne he, h1.symm, h2.symm⟩
    · show lay.Nodup
      rw [hperm.nodup_iff]
      exact List.nodup_cons.mpr ⟨hsnl, hmo.nodup⟩
    · intro t
      show t ∈ lay ↔ _
      rw [hlaymem]
      constructor
      · rintro (rfl | ht)
        · exact ⟨_, hWs, hpx, rfl⟩
        · obtain ⟨e, he, hp1, hp2⟩ := (hmo.top t).mp ht
          have hts : t ≠ s := fun hh => hsnl (hh ▸ ht)
          refine ⟨_, hWo t e hts he, hp1, ?_⟩
          by_cases htd : t ∈ D
          · simp [htd]
          · simp [htd, hp2]
      · rintro ⟨e', he', hp1, hp2⟩
        by_cases hts : t = s
        · exact Or.inl hts
        · right
          obtain ⟨e, he⟩ := hbw t e' he'
          rw [hWo t e hts he] at he'
          cases he'
          by_cases htd : t ∈ D
          · obtain ⟨e0, he0, _, hpn, _⟩ := hDfacts t htd
            rw [he] at he0; cases he0
            exact absurd hp1 hpn
          · exact (hmo.top t).mpr ⟨e, he, hp1, by simpa [htd] using hp2⟩
  · rw [if_neg hjm] at hj
    have hmo' := h.msgOK hj
    have hnot : ∀ t, t ∈ msg'.signals → t ∉ s :: D := by
      intro t ht hta
      obtain ⟨e, he, hp⟩ := (hmo'.reg t).mp ht
      simp only [List.mem_cons] at hta
      rcases hta with rfl | hta
      · rw [hs] at he; cases he; rw [hpm] at hp; cases hp
      · obtain ⟨e0, he0, hp0, _⟩ := hDfacts t hta
        rw [he] at he0; cases he0; rw [hp0] at hp; cases hp
    apply hmo'.frame
    · intro t ht
      obtain ⟨e, he, _⟩ := (hmo'.reg t).mp ht
      have hn := hnot t ht
      simp only [List.mem_cons, not_or] at hn
      refine ⟨e, _, he, hWo t e hn.1 he, ⟨rfl, rfl, by simp [hn.2]⟩, rfl⟩
    · intro t e' he' hp
      obtain ⟨e, he⟩ := hbw t e' he'
      by_cases hts : t = s
      · subst hts
        rw [hWs] at he'; cases he'
        simp only [Option.some.injEq] at hp
        exact absurd hp.symm hjm
      · rw [hWo t e hts he] at he'
        cases he'
        by_cases htd : t ∈ D
        · simp only [htd, ↓reduceIte, Option.some.injEq] at hp
          exact absurd hp.symm hjm
        · exact (hmo'.reg t).mpr ⟨e, he, by simpa [htd] using hp⟩

theorem calcSize_pos' (v : Int) : 0 < calcSize v := by
  unfold calcSize
  split
  · omega
  · split
    · simp [maxSize]
    · rename_i h0 h1
      have : v.toNat ≠ 0 := by omega
      simp [len64, this]

theorem sigSize_pos (w : MW) (h : InvCore w) (s : Nat) (e : SigE) (hs : w.sigs.get s = some e) :
    0 < sigSize e := by
  unfold sigSize
  cases hk : e.kind with
  | leaf z => exact h.sizesPos s e z hs hk
  | mux gc gs =>
    have := (h.muxOK hs hk).shape.2.2
    have := calcSize_pos' (gc - 1)
    simp only [muxSelWidth]
    omega

theorem scanInsert_ne_panic (st en : Int) : ∀ l : List Slot, scanInsert st en l ≠ .error .panic
  | [] => by simp [scanInsert]
  | s :: rest => by
    simp only [scanInsert]
    split
    · simp
    · split
      · exact scanInsert_ne_panic st en rest
      · split
        · simp
        · exact scanInsert_ne_panic st en rest

theorem verifyInsert_ne_panic (cap : Int) (l : List Slot) (sz st : Int) :
    verifyInsert cap l sz st ≠ .error .panic := by
  unfold verifyInsert
  split
  · simp
  · split
    · simp
    · split
      · simp
      · exact scanInsert_ne_panic _ _ l

theorem verifyAppend_ne_panic (cap : Int) (l : List Slot) (sz : Int) :
    verifyAppend cap l sz ≠ .error .panic := by
  unfold verifyAppend
  split <;> split <;> simp

theorem msgPlace_ne_panic (w : MW) (msg : MsgE) (s : Nat) (sz : Int) (st : Option Int) :
    msgPlace w msg s sz st ≠ .error .panic := by
  cases st with
  | none =>
    simp only [msgPlace]
    have := verifyAppend_ne_panic msg.cap (slotsOf w msg.layout) sz
    split
    · rename_i e he; intro hh; cases hh; exact this he
    · simp
  | some st =>
    simp only [msgPlace]
    have := verifyInsert_ne_panic msg.cap (slotsOf w msg.layout) sz st
    split
    · rename_i e he; intro hh; cases hh; exact this he
    · simp

theorem inv_msgAttach (w : MW) (h : InvCore w) (m s : Nat) (st : Option Int) :
    InvCore (doMsgAttach w m s st).1 ∧ (doMsgAttach w m s st).2 ≠ .panic := by
  unfold doMsgAttach
  cases hm : w.msgs.get m with
  | none => exact ⟨h, by simp⟩
  | some msg =>
    cases hs : w.sigs.get s with
    | none => exact ⟨h, by simp⟩
    | some se =>
      simp only
      by_cases h1 : (se.parentMsg.isSome || se.parentMux.isSome) = true
      · rw [if_pos h1]; exact ⟨h, by simp⟩
      · rw [if_neg h1]
        by_cases h2 : nmHas msg.signalNames se.name = true
        · rw [if_pos h2]; exact ⟨h, by simp⟩
        · rw [if_neg h2]
          by_cases h3 : (!nestedNamesOk w msg s) = true
          · rw [if_pos h3]; exact ⟨h, by simp⟩
          · rw [if_neg h3]
            cases hpl : msgPlace w msg s (sigSize se) st with
            | error e =>
              refine ⟨h, ?_⟩
              have := msgPlace_ne_panic w msg s (sigSize se) st
              cases e <;> simp [outOfLErr]
              exact this hpl
            | ok p =>
              obtain ⟨r, lay⟩ := p
              simp only
              have hpm : se.parentMsg = none := by
                cases hh : se.parentMsg with
                | none => rfl
                | some _ => simp [hh] at h1
              have hpx : se.parentMux = none := by
                cases hh : se.parentMux with
                | none => rfl
                | some _ => simp [hh] at h1
              have hmo := h.msgOK hm
              obtain ⟨L', hwf, hid, hsrc, _, hperm⟩ := msgPlace_spec w m msg hmo s (sigSize se)
                (sigSize_pos w h s se hs) st r lay hpl
              have hsnl : s ∉ msg.layout := by
                intro hl
                obtain ⟨e, he, _, hp⟩ := (hmo.top s).mp hl
                rw [hs] at he; cases he; rw [hpm] at hp; cases hp
              have hslots : slotsOf ({ sigs := setRel w.sigs s r, msgs := w.msgs.set m { msg with layout := lay } } : MW) lay = L' := by
                rw [← hid]
                apply slotsOf_of_pointwise
                intro sl hsl
                simp only [setRel_get, hs]
                rcases hsrc sl hsl with rfl | hsl'
                · simp; rfl
                · obtain ⟨hmem, e, he, a1, a2⟩ := mem_slotsOf w msg.layout sl hsl'
                  have hne : sl.id ≠ s := fun hh => hsnl (hh ▸ hmem)
                  rw [if_neg hne]
                  exact ⟨e, he, a1.symm, a2.symm⟩
              have hnp := genPanics_false _ msg.cap lay (by rw [hslots]; exact hwf)
              rw [hnp]
              simp only [Bool.false_eq_true, ↓reduceIte]
              refine ⟨?_, by simp⟩
              exact inv_attach w h m msg hm s se hs hpm hpx (by simpa using h2) (by simpa using h3)
                r lay L' hwf hid hsrc hperm

end Acme.Mux
