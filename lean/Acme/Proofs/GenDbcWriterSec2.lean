/-
Translator stage 11, sections 6-10 of dbc/writer.go: messages + signals, message transmitters,
environment variables, environment variable data, signal types.
-/
import Acme.Proofs.GenDbcWriterSec1

namespace Acme.GenW
open Acme.Dbc Acme.Dbc.Scan Acme.Gen

/-! ## generic: what may follow any fragment list -/

theorem okFrom_then_p (X : List Frag) (p : Option Token) (k : PunctKind) (hk : k ≠ .minus) (l : List Frag) :
    okFrom p (X ++ .tok (Token.p k) :: l) = (okFrom p X && okFrom (some (Token.p k)) l) := by
  rw [okFrom_append]
  cases endSt p X with
  | none => simp [okFrom]
  | some q => simp [okFrom, nm_p_right q k hk]

theorem okFrom_then_sp (X : List Frag) (p : Option Token) (s : String) (hb : isBlankStr s = true)
    (hne : s.isEmpty = false) (l : List Frag) :
    okFrom p (X ++ .sp s :: l) = (okFrom p X && okFrom none l) := by
  rw [okFrom_append]; simp [okFrom, hb, hne]

/-! ## separated lists: `for idx, x := range xs { if idx > 0 { print(sep) }; print(x) }` -/

def frTail {α : Type} (pre : List Frag) (f : α → List Frag) : List α → List Frag
  | [] => []
  | x :: xs => pre ++ f x ++ frTail pre f xs

def frSep {α : Type} (pre : List Frag) (f : α → List Frag) : List α → List Frag
  | [] => []
  | x :: xs => f x ++ frTail pre f xs

theorem toks_frSep {α : Type} (pre : List Frag) (f : α → List Frag) (g : α → List Token)
    (hpre : toks pre = [Token.p .comma]) (hf : ∀ x, toks (f x) = g x) (l : List α) :
    toks (frSep pre f l) = commaList g l := by
  have ht : ∀ l : List α, toks (frTail pre f l) = commaTail g l := by
    intro l; induction l with
    | nil => rfl
    | cons x xs ih => simp [frTail, commaTail, hpre, hf, ih]
  cases l with
  | nil => rfl
  | cons x xs => simp [frSep, commaList, hf, ht]

theorem text_sep_loop {α : Type} (pre : List Frag) (f : α → List Frag)
    (loop : Int → List α → String → String) (cond : Int → Prop) [DecidablePred cond]
    (hc0 : ¬ cond 0) (hcpos : ∀ i : Int, 0 < i → cond i)
    (S : String → String) (E : α → String → String)
    (hnil : ∀ i out, loop i [] out = out)
    (hcons : ∀ i x xs out, loop i (x :: xs) out = loop (i + 1) xs (E x (if cond i then S out else out)))
    (hS : ∀ out, S out = out ++ fragText pre) (hE : ∀ x out, E x out = out ++ fragText (f x))
    (l : List α) (out : String) : loop 0 l out = out ++ fragText (frSep pre f l) := by
  have ht : ∀ (l : List α) (i : Int) (out : String), 0 < i → loop i l out = out ++ fragText (frTail pre f l) := by
    intro l; induction l with
    | nil => intro i out _; simp [hnil, frTail]
    | cons x xs ih =>
      intro i out hi
      rw [hcons, if_pos (hcpos i hi), ih (i + 1) _ (by omega), hE, hS]
      simp [frTail, String.append_assoc]
  cases l with
  | nil => simp [hnil, frSep]
  | cons x xs =>
    rw [hcons, if_neg hc0, ht xs _ _ (by omega), hE]
    simp [frSep, String.append_assoc]

/-- an element that starts with a blank and a separator that ends in `,`: admissible behind anything -/
theorem ok_frSep {α : Type} (pre : List Frag) (g : α → Token)
    (hpre : pre = [.tok (Token.p .comma)] ∨ pre = [.sp " ", .tok (Token.p .comma)])
    (l : List α) (p : Option Token) :
    okFrom p (frSep pre (fun x => [.sp " ", .tok (g x)]) l) = true := by
  have ht : ∀ (l : List α) (q : Token), okFrom (some q) (frTail pre (fun x => [.sp " ", .tok (g x)]) l) = true := by
    intro l; induction l with
    | nil => intro q; rfl
    | cons x xs ih =>
      intro q
      rcases hpre with h | h <;> subst h <;>
        simp [frTail, okFrom, sp_blank1, sp_ne1, nm_p_right, ih]
  cases l with
  | nil => rfl
  | cons x xs => simp [frSep, okFrom, sp_blank1, sp_ne1, ht]

def frWord (w : String) : List Frag := [.sp " ", .tok (classifyWord w)]

theorem toks_frWord (w : String) : toks (frWord w) = wordToks w := rfl

/-! ## 6. messages and signals -/

def frMux (sig : Signal) : List Frag :=
  if sig.isMultiplexed = true ∧ sig.isMultiplexor = true then
    [.sp " ", .tok (.muxIndicator ("m" ++ formatUint sig.muxSwitchValue ++ "M"))]
  else if sig.isMultiplexed = true then [.sp " ", .tok (.muxIndicator ("m" ++ formatUint sig.muxSwitchValue))]
  else if sig.isMultiplexor = true then [.sp " ", .tok (.muxIndicator "M")]
  else []

theorem toks_frMux (sig : Signal) : toks (frMux sig) = writeMuxIndicator sig := by
  unfold frMux writeMuxIndicator
  cases sig.isMultiplexed <;> cases sig.isMultiplexor <;> simp

def frSignal (sig : Signal) : List Frag :=
  [.sp " ", .tok (Token.kw .signal), .sp " ", .tok (classifyWord sig.name)] ++ frMux sig ++
  [.sp " ", .tok (Token.p .colon), .sp " ", .tok (uintTok sig.startBit), .tok (Token.p .pipe),
   .tok (uintTok sig.size), .tok (Token.p .at), .tok (writeByteOrder sig.byteOrder),
   .tok (writeValueType sig.valueType), .sp " ", .tok (Token.p .leftParen)] ++
  frDouble sig.factor ++ [.tok (Token.p .comma)] ++ frDouble sig.offset ++
  [.tok (Token.p .rightParen), .sp " ", .tok (Token.p .leftSquareBrace)] ++
  frDouble sig.min ++ [.tok (Token.p .pipe)] ++ frDouble sig.max ++
  [.tok (Token.p .rightSquareBrace), .sp " ", .tok (.string sig.unit)] ++
  frSep [.tok (Token.p .comma)] frWord sig.receivers ++ [.sp "\n"]

theorem toks_frSignal (sig : Signal) : toks (frSignal sig) = Acme.Dbc.writeSignal sig := by
  simp [frSignal, Acme.Dbc.writeSignal, toks_frMux, toks_frDouble,
    toks_frSep [.tok (Token.p .comma)] _ wordToks rfl toks_frWord]

theorem text_signal (h : Bool) (sig : Signal) (out : String) :
    W.writeSignal h sig out = out ++ fragText (frSignal sig) := by
  unfold W.writeSignal
  have hl := text_sep_loop [.tok (Token.p .comma)] frWord (W.writeSignal_loop1 h sig) (fun i => i > 0)
    (by decide) (fun i hi => hi) (fun out => out ++ ",") (fun r out => out ++ " " ++ r)
    (fun _ _ => rfl) (fun _ _ _ _ => rfl) (by intro out; wtext []) (by intro x out; wtext [frWord])
  simp only [hl]
  unfold frSignal frMux
  cases h1 : sig.isMultiplexed <;> cases h2 : sig.isMultiplexor <;> cases sig.byteOrder <;> cases sig.valueType <;>
    wtext [text_frDouble, writeByteOrder, writeValueType]

theorem ok_signal (sig : Signal) (hs : signalOK finiteFloatText sig = true) : SecOK (frSignal sig) := by
  simp only [signalOK, Bool.and_eq_true] at hs
  obtain ⟨⟨⟨⟨⟨⟨⟨_, h1⟩, h2⟩, h3⟩, h4⟩, _⟩, _⟩, _⟩ := hs
  unfold frSignal frMux
  rw [frDouble_finite h1, frDouble_finite h2, frDouble_finite h3, frDouble_finite h4]
  have hr := ok_frSep [.tok (Token.p .comma)] classifyWord (Or.inl rfl) sig.receivers
  unfold frWord
  cases sig.isMultiplexed <;> cases sig.isMultiplexor <;> cases sig.byteOrder <;> cases sig.valueType <;>
    wok [hr, writeByteOrder, writeValueType, Token.kw]

def frSignals : List Signal → List Frag
  | [] => []
  | s :: ss => frSignal s ++ frSignals ss

theorem toks_frSignals (ss : List Signal) : toks (frSignals ss) = writeSignals ss := by
  induction ss with
  | nil => rfl
  | cons s ss ih => simp [frSignals, writeSignals, toks_frSignal, ih]

theorem ok_signals (ss : List Signal) (h : ∀ s ∈ ss, signalOK finiteFloatText s = true) : SecOK (frSignals ss) := by
  induction ss with
  | nil => exact secOK_nil
  | cons s ss ih =>
    exact secOK_append (ok_signal s (h s (by simp))) (ih (fun x hx => h x (by simp [hx])))

def frMessage (msg : Message) : List Frag :=
  [.tok (Token.kw .message), .sp " ", .tok (uintTok msg.id), .sp " ", .tok (classifyWord msg.name), .sp " ",
   .tok (Token.p .colon), .sp " ", .tok (uintTok msg.size), .sp " ", .tok (classifyWord msg.transmitter), .sp "\n"] ++
  frSignals msg.signals ++ [.sp "\n"]

theorem toks_frMessage (msg : Message) : toks (frMessage msg) = Acme.Dbc.writeMessage msg := by
  simp [frMessage, Acme.Dbc.writeMessage, toks_frSignals]

theorem text_message (h : Bool) (msg : Message) (out : String) :
    W.writeMessage h msg out = out ++ fragText (frMessage msg) := by
  unfold W.writeMessage
  have hl : ∀ (l : List Signal) (out : String), W.writeMessage_loop1 h msg l out = out ++ fragText (frSignals l) := by
    intro l; induction l with
    | nil => intro out; simp [W.writeMessage_loop1, frSignals]
    | cons s ss ih =>
      intro out
      rw [W.writeMessage_loop1]; simp only [text_signal, ih]
      simp [frSignals, String.append_assoc]
  simp only [hl]
  wtext [frMessage]

theorem ok_message (msg : Message) (hm : messageOK finiteFloatText msg = true) : SecOK (frMessage msg) := by
  simp only [messageOK, Bool.and_eq_true, List.all_eq_true] at hm
  have hs := ok_signals msg.signals hm.2
  unfold frMessage
  refine secOK_append (secOK_append ?_ hs) (by wok [])
  wok [Token.kw]

/-! ## 7. message transmitters -/

def frMessageTransmitter (mt : MessageTransmitter) : List Frag :=
  [.tok (Token.kw .messageTransmitter), .sp " ", .tok (uintTok mt.messageID), .sp " ", .tok (Token.p .colon)] ++
  frWords mt.transmitters ++ [.tok (Token.p .semicolon), .sp "\n"]

theorem toks_frMessageTransmitter (mt : MessageTransmitter) :
    toks (frMessageTransmitter mt) = Acme.Dbc.writeMessageTransmitter mt := by
  simp [frMessageTransmitter, Acme.Dbc.writeMessageTransmitter, toks_frWords]

theorem text_messageTransmitter (h : Bool) (mt : MessageTransmitter) (out : String) :
    W.writeMessageTransmitter h mt out = out ++ fragText (frMessageTransmitter mt) := by
  unfold W.writeMessageTransmitter
  have := text_words_loop (W.writeMessageTransmitter_loop1 h mt) (fun _ => rfl) (fun _ _ _ => rfl)
  simp only [this]
  wtext [frMessageTransmitter]

theorem ok_messageTransmitter (mt : MessageTransmitter) : SecOK (frMessageTransmitter mt) := by
  refine ⟨?_, ?_⟩
  · unfold frMessageTransmitter
    rw [List.append_assoc]
    simp only [List.cons_append, List.nil_append]
    rw [show ∀ (a b c d e : Frag) (X Y : List Frag), a :: b :: c :: d :: e :: (X ++ Y) = (a :: b :: c :: d :: e :: X) ++ Y
      from fun _ _ _ _ _ _ _ => rfl, okFrom_then_p _ _ _ (by decide)]
    wok [ok_frWords, Token.kw]
  · simp [frMessageTransmitter, endSt_append, endSt, sp_ne2]

/-! ## 8. environment variables -/

def frEnvVar (ev : EnvVar) : List Frag :=
  [.tok (Token.kw .envVar), .sp " ", .tok (classifyWord ev.name), .sp " ", .tok (Token.p .colon), .sp " ",
   .tok (writeEnvVarType ev.type), .sp " ", .tok (Token.p .leftSquareBrace)] ++
  frDouble ev.min ++ [.tok (Token.p .pipe)] ++ frDouble ev.max ++
  [.tok (Token.p .rightSquareBrace), .sp " ", .tok (.string ev.unit), .sp " "] ++ frDouble ev.initialValue ++
  [.sp " ", .tok (uintTok ev.id), .sp " ", .tok (.ident (accessTypeName ev.accessType))] ++
  frSep [.sp " ", .tok (Token.p .comma)] frWord ev.accessNodes ++ [.tok (Token.p .semicolon), .sp "\n"]

theorem toks_frEnvVar (ev : EnvVar) : toks (frEnvVar ev) = Acme.Dbc.writeEnvVar ev := by
  simp [frEnvVar, Acme.Dbc.writeEnvVar, toks_frDouble,
    toks_frSep [.sp " ", .tok (Token.p .comma)] _ wordToks rfl toks_frWord]

theorem text_envVar_access (h : Bool) (ev : EnvVar) (out : String) :
    W.writeEnvVar_loop1 h ev W.envVarAccessTypes out = out ++ accessTypeName ev.accessType := by
  unfold W.envVarAccessTypes
  simp only [W.writeEnvVar_loop1]
  cases hx : ev.accessType <;> simp [accessTypeName]

theorem text_envVar (h : Bool) (ev : EnvVar) (out : String) :
    W.writeEnvVar h ev out = out ++ fragText (frEnvVar ev) := by
  unfold W.writeEnvVar
  have hl := text_sep_loop [.sp " ", .tok (Token.p .comma)] frWord (W.writeEnvVar_loop2 h ev) (fun i => i > 0)
    (by decide) (fun i hi => hi) (fun out => out ++ " ,") (fun r out => out ++ " " ++ r)
    (fun _ _ => rfl) (fun _ _ _ _ => rfl) (by intro out; wtext []) (by intro x out; wtext [frWord])
  simp only [hl, text_envVar_access]
  unfold frEnvVar
  cases ev.type <;> wtext [text_frDouble, writeEnvVarType]

theorem ok_envVar (ev : EnvVar) (he : envVarOK finiteFloatText ev = true) : SecOK (frEnvVar ev) := by
  simp only [envVarOK, Bool.and_eq_true] at he
  obtain ⟨⟨⟨⟨⟨⟨⟨_, h1⟩, h2⟩, _⟩, h3⟩, _⟩, _⟩, _⟩ := he
  refine ⟨?_, ?_⟩
  · unfold frEnvVar
    rw [frDouble_finite h1, frDouble_finite h2, frDouble_finite h3, okFrom_then_p _ _ _ (by decide)]
    have hr := ok_frSep [.sp " ", .tok (Token.p .comma)] classifyWord (Or.inr rfl) ev.accessNodes
    unfold frWord
    cases ev.type <;> wok [hr, writeEnvVarType, Token.kw]
  · simp [frEnvVar, endSt_append, endSt, sp_ne2]

/-! ## 9. environment variable data -/

def frEnvVarData (d : EnvVarData) : List Frag :=
  [.tok (Token.kw .envVarData), .sp " ", .tok (classifyWord d.envVarName), .sp " ", .tok (Token.p .colon), .sp " ",
   .tok (uintTok d.dataSize), .sp " ", .tok (Token.p .semicolon), .sp "\n"]

theorem toks_frEnvVarData (d : EnvVarData) : toks (frEnvVarData d) = Acme.Dbc.writeEnvVarData d := rfl

theorem text_envVarData (h : Bool) (d : EnvVarData) (out : String) :
    W.writeEnvVarData h d out = out ++ fragText (frEnvVarData d) := by
  wtext [W.writeEnvVarData, frEnvVarData]

theorem ok_envVarData (d : EnvVarData) : SecOK (frEnvVarData d) := by wok [frEnvVarData, Token.kw]

/-! ## 10. signal types -/

def frSignalType (st : SignalType) : List Frag :=
  [.tok (Token.kw .signalType), .sp " ", .tok (classifyWord st.typeName), .sp " ", .tok (Token.p .colon), .sp " ",
   .tok (uintTok st.size), .tok (Token.p .at), .tok (writeByteOrder st.byteOrder), .sp " ",
   .tok (writeValueType st.valueType), .sp " ", .tok (Token.p .leftParen)] ++
  frDouble st.factor ++ [.tok (Token.p .comma)] ++ frDouble st.offset ++
  [.tok (Token.p .rightParen), .sp " ", .tok (Token.p .leftSquareBrace)] ++
  frDouble st.min ++ [.tok (Token.p .pipe)] ++ frDouble st.max ++
  [.tok (Token.p .rightSquareBrace), .sp " ", .tok (.string st.unit), .sp " "] ++ frDouble st.defaultValue ++
  [.sp " ", .tok (Token.p .comma), .sp " ", .tok (classifyWord st.valueTableName), .tok (Token.p .semicolon), .sp "\n"]

theorem toks_frSignalType (st : SignalType) : toks (frSignalType st) = Acme.Dbc.writeSignalType st := by
  simp [frSignalType, Acme.Dbc.writeSignalType, toks_frDouble]

theorem text_signalType (h : Bool) (st : SignalType) (out : String) :
    W.writeSignalType h st out = out ++ fragText (frSignalType st) := by
  unfold W.writeSignalType frSignalType
  cases st.byteOrder <;> cases st.valueType <;> wtext [text_frDouble, writeByteOrder, writeValueType]

theorem ok_signalType (st : SignalType) (hs : signalTypeOK finiteFloatText st = true) : SecOK (frSignalType st) := by
  simp only [signalTypeOK, Bool.and_eq_true] at hs
  obtain ⟨⟨⟨⟨⟨⟨⟨_, h1⟩, h2⟩, h3⟩, h4⟩, _⟩, h5⟩, _⟩ := hs
  unfold frSignalType
  rw [frDouble_finite h1, frDouble_finite h2, frDouble_finite h3, frDouble_finite h4, frDouble_finite h5]
  cases st.byteOrder <;> cases st.valueType <;> wok [writeByteOrder, writeValueType, Token.kw]

end Acme.GenW
