/-
Translator stage 13, node_iterface.go: the generated `AddSentMessage`, `RemoveSentMessage`,
`AddReceivedMessage`, `RemoveReceivedMessage` (and the four checks) against `Acme.Graph`.
-/
import Acme.Proofs.GenRegistryClosed
import Acme.Proofs.GenRegistryBus

namespace Acme.GenR
open Acme Acme.Graph Acme.RegSem Acme.Gen

theorem NI_verifyMessageName_eq (g : G) (i : Nat) (name : String) :
    R.NodeInterface_verifyMessageName (view g) i name = match g.ifaces.get i with
      | none => .dangling
      | some ifc => .val (if ifc.sentNames.has name then some dupErr else none) := by
  unfold R.NodeInterface_verifyMessageName
  simp only [view_ifaces]
  cases g.ifaces.get i with
  | none => rfl
  | some ifc =>
    simp only [Option.map_some, vIface, set_verifyKeyUnique_eq, dupErr]
    cases Reg.has ifc.sentNames name <;> rfl

theorem NI_verifyMessageID_eq (g : G) (i : Nat) (mid : Nat) :
    R.NodeInterface_verifyMessageID (view g) i mid = match g.ifaces.get i with
      | none => .dangling
      | some ifc => .val (if ifc.sentIDs.has mid then some dupErr else none) := by
  unfold R.NodeInterface_verifyMessageID
  simp only [view_ifaces]
  cases g.ifaces.get i with
  | none => rfl
  | some ifc =>
    simp only [Option.map_some, vIface, set_verifyKeyUnique_eq, dupErr]
    cases Reg.has ifc.sentIDs mid <;> rfl

theorem NI_verifyStaticCANID_eq (g : G) (i : Nat) (c : Nat) :
    R.NodeInterface_verifyStaticCANID (view g) i c = match g.ifaces.get i with
      | none => .dangling
      | some ifc =>
        if ifc.sentStatic.has c then .val (some dupErr)
        else match ifc.parentBus with
          | none => .val none
          | some b => match g.buses.get b with
            | none => .dangling
            | some bus => .val (if bus.staticIDs.has c then some dupErr else none) := by
  unfold R.NodeInterface_verifyStaticCANID
  simp only [view_ifaces]
  cases g.ifaces.get i with
  | none => rfl
  | some ifc =>
    simp only [Option.map_some, vIface, set_verifyKeyUnique_eq, dupErr, Bus_verifyStaticCANID_eq]
    cases Reg.has ifc.sentStatic c
    · simp only [Bool.false_eq_true, ↓reduceIte]
      cases ifc.parentBus with
      | none => rfl
      | some b => simp only; cases g.buses.get b <;> rfl
    · rfl

theorem NI_verifyMessageSize_eq (g : G) (i : Nat) (size : Int) :
    R.NodeInterface_verifyMessageSize (view g) i size = match g.ifaces.get i with
      | none => .dangling
      | some ifc => match ifc.parentBus with
        | none => .val none
        | some b => match g.buses.get b with
          | none => .dangling
          | some _ => .val (if busSizeOK size then none else some bigErr) := by
  unfold R.NodeInterface_verifyMessageSize
  simp only [view_ifaces]
  cases g.ifaces.get i with
  | none => rfl
  | some ifc =>
    simp only [Option.map_some, vIface, Bus_verifyMessageSize_eq]
    cases ifc.parentBus with
    | none => rfl
    | some b => simp only; cases g.buses.get b <;> rfl

theorem AddSent_main (g : G) (i m : Nat) (ifc : IfaceE) (msg : MsgE) (hc : Closed g)
    (hi : g.ifaces.get i = some ifc) (hm : g.msgs.get m = some msg) (hs : msg.sender = none) :
    ObsEq (obs (R.NodeInterface_AddSentMessage (view g) i (some m))) (obsG (stepIfaceAddSent g i m)) := by
  unfold R.NodeInterface_AddSentMessage stepIfaceAddSent
  simp only [view_msgs, view_ifaces, hi, hm, Option.map_some, hs, Option.isSome_none, Bool.false_eq_true, ↓reduceIte,
    NI_verifyMessageName_eq, NI_verifyMessageSize_eq, NI_verifyStaticCANID_eq, NI_verifyMessageID_eq,
    set_hasKey_eq, set_add_eq, vIface, vMsg]
  cases hpb : ifc.parentBus with
  | none =>
    cases hr : Reg.has ifc.received m <;> cases hn : Reg.has ifc.sentNames msg.name <;>
      cases hst : msg.static <;> (try cases hid : Reg.has ifc.sentIDs msg.mid) <;>
      (try rename_i c; cases hss : Reg.has ifc.sentStatic c) <;>
      simp [*, obs, obsG, ObsEq, outOf, ofCause, dupErr, bigErr, busStaticClash, updStatic, Heq.rfl']
    all_goals heq_fin
  | some pb =>
    obtain ⟨bus, hbus⟩ := Option.ne_none_iff_exists'.1 (hc.pbus i ifc pb hi hpb)
    cases hr : Reg.has ifc.received m <;> cases hn : Reg.has ifc.sentNames msg.name <;>
      cases hsz : busSizeOK msg.sizeByte <;>
      cases hst : msg.static <;> (try cases hid : Reg.has ifc.sentIDs msg.mid) <;>
      (try rename_i c; cases hss : Reg.has ifc.sentStatic c <;> cases hbs : Reg.has bus.staticIDs c) <;>
      simp [*, obs, obsG, ObsEq, outOf, ofCause, dupErr, bigErr, busStaticClash, updStatic, Heq.rfl']
    all_goals heq_fin

theorem AddSent_nil (g : G) (i m : Nat) (ifc : IfaceE) (hi : g.ifaces.get i = some ifc) (hm : g.msgs.get m = none) :
    ObsEq (obs (R.NodeInterface_AddSentMessage (view g) i none)) (obsG (stepIfaceAddSent g i m)) := by
  unfold R.NodeInterface_AddSentMessage stepIfaceAddSent
  simp [hi, hm, obs, obsG, ObsEq, outOf, ofCause, Heq.rfl']

theorem RemoveSent_main (g : G) (i m : Nat) (inv : Inv g) :
    ObsEq (obs (R.NodeInterface_RemoveSentMessage (view g) i m)) (obsG (stepIfaceRemoveSent g i m)) := by
  have hc := closed_of_inv inv
  unfold R.NodeInterface_RemoveSentMessage stepIfaceRemoveSent
  simp only [view_ifaces]
  cases hi : g.ifaces.get i with
  | none => simp [obs, obsG, ObsEq]
  | some ifc =>
    simp only [Option.map_some, vIface, set_getValue_eq, Reg.has_eq]
    cases hg : Reg.get ifc.sent m with
    | none => simp [obs, obsG, ObsEq, outOf, ofCause, Heq.rfl']
    | some v =>
      have hv : v = m := by
        have := (inv.sent.sent_get i m v).1 (by simp [ifaceSent, hi, hg])
        exact this.1
      subst hv
      simp only [view_msgs, Option.isSome_some, not_true_eq_false, ↓reduceIte]
      cases hm : g.msgs.get v with
      | none => simp [obs, obsG, ObsEq]
      | some msg =>
        cases hpb : ifc.parentBus with
        | none =>
          cases hst : msg.static <;>
            simp [*, vMsg, set_remove_eq, obs, obsG, ObsEq, outOf, updStatic]
          all_goals heq_fin
        | some pb =>
          obtain ⟨bus, hbus⟩ := Option.ne_none_iff_exists'.1 (hc.pbus i ifc pb hi hpb)
          cases hst : msg.static <;>
            simp [*, vMsg, vBus, set_remove_eq, obs, obsG, ObsEq, outOf, updStatic]
          all_goals heq_fin

theorem AddRecv_nil (g : G) (i m : Nat) (ifc : IfaceE) (hi : g.ifaces.get i = some ifc) (hm : g.msgs.get m = none) :
    ObsEq (obs (R.NodeInterface_AddReceivedMessage (view g) i none)) (obsG (stepIfaceAddRecv g i m)) := by
  unfold R.NodeInterface_AddReceivedMessage stepIfaceAddRecv
  simp [hi, hm, obs, obsG, ObsEq, outOf, ofCause, Heq.rfl']

theorem AddRecv_main (g : G) (i m : Nat) (msg : MsgE) (hm : g.msgs.get m = some msg) :
    ObsEq (obs (R.NodeInterface_AddReceivedMessage (view g) i (some m))) (obsG (stepIfaceAddRecv g i m)) := by
  unfold R.NodeInterface_AddReceivedMessage R.NodeInterface_addReceivedMessage stepIfaceAddRecv addRecvCore
  simp only [view_ifaces]
  cases hi : g.ifaces.get i with
  | none => simp [obs, obsG, ObsEq]
  | some ifc =>
    cases hs : Reg.has ifc.sent m <;>
      simp [*, vIface, vMsg, set_hasKey_eq, set_add_eq, obs, obsG, ObsEq, outOf, ofCause, Heq.rfl']
    all_goals heq_fin

theorem RemoveRecv_main (g : G) (i m : Nat) (inv : Inv g) :
    ObsEq (obs (R.NodeInterface_RemoveReceivedMessage (view g) i m)) (obsG (stepIfaceRemoveRecv g i m)) := by
  unfold R.NodeInterface_RemoveReceivedMessage R.NodeInterface_removeReceivedMessage stepIfaceRemoveRecv
  simp only [view_ifaces]
  cases hi : g.ifaces.get i with
  | none => simp [obs, obsG, ObsEq]
  | some ifc =>
    simp only [Option.map_some, vIface, set_getValue_eq, Reg.has_eq]
    cases hg : Reg.get ifc.received m with
    | none => simp [obs, obsG, ObsEq, outOf, ofCause, Heq.rfl']
    | some v =>
      have hv : v = m := inv.recv.recv_val i m v (by simp [ifaceRecv, hi, hg])
      subst hv
      cases hm : g.msgs.get v with
      | none => simp [*, vIface, obs, obsG, ObsEq]
      | some msg =>
        simp [*, vIface, vMsg, set_remove_eq, obs, obsG, ObsEq, outOf]
        heq_fin

end Acme.GenR
