/-
`assembleMux` (the loop of `loadMultiplexerSignal`) on the lists `saveBody` writes.
-/
import Acme.Proofs.SaveMux

namespace Acme.Save
open List

theorem checkTriples_ok (gc : Nat) (ids fixed : List Id) (all l : List (Nat × Id × Nat))
    (h : ∀ t ∈ l, ids.contains t.2.1 = true ∧ firstPos all t.2.1 = some t.2.2 ∧
      (fixed.contains t.2.1 = true ∨ t.1 < gc)) :
    checkTriples gc ids fixed all l = .ok () := by
  induction l with
  | nil => rfl
  | cons t r ih =>
    obtain ⟨k, id, pos⟩ := t
    obtain ⟨h1, h2, h3⟩ := h (k, id, pos) (by simp)
    simp only at h1 h2 h3
    simp only [checkTriples, h1, h2, Bool.not_true, Bool.false_eq_true, if_false, bne_self_eq_false]
    rw [if_neg]
    · exact ih (fun t ht => h t (by simp [ht]))
    · intro hc
      simp only [Bool.and_eq_true, Bool.not_eq_true', decide_eq_true_eq] at hc
      rcases h3 with h3 | h3
      · rw [h3] at hc
        exact absurd hc.1 (by simp)
      · omega

theorem checkPlaced_ok (ts : List (Nat × Id × Nat)) (ids : List Id)
    (h : ∀ id ∈ ids, (firstPos ts id).isSome = true) : checkPlaced ts ids = .ok () := by
  unfold checkPlaced
  have : ids.filter (fun id => (firstPos ts id).isNone) = [] := by
    rw [List.filter_eq_nil_iff]
    intro id hid hc
    have := h id hid
    cases hf : firstPos ts id <;> simp_all
  rw [this]

section
variable {α : Type}

theorem mem_muxSignals {gc : Nat} {ps : List (KH × α)} {a : α} (h : a ∈ muxSignals gc ps) :
    ∃ p ∈ ps, p.2 = a := by
  simp only [muxSignals, List.mem_flatMap, List.mem_map, List.mem_filter] at h
  obtain ⟨_, _, p, ⟨hp, _⟩, rfl⟩ := h
  exact ⟨p, (mem_groupOf.mp hp).1, rfl⟩

theorem mem_muxSignals_of_placed {gc : Nat} {ps : List (KH × α)} {p : KH × α} (hp : p ∈ ps)
    (hgc : 0 < gc) (hpl : p.1.placed gc) : p.2 ∈ muxSignals gc ps := by
  simp only [muxSignals, List.mem_flatMap, List.mem_map, List.mem_filter, List.mem_range]
  by_cases hf : p.1.fixed = true
  · refine ⟨0, hgc, p, ⟨mem_groupOf.mpr ⟨hp, ?_⟩, by simp⟩, rfl⟩
    simp only [KH.fixed, Option.isNone_iff_eq_none] at hf
    simp [KH.inGrp, hf]
  · obtain ⟨k, hk, hg⟩ := hpl
    exact ⟨k, hk, p, ⟨mem_groupOf.mpr ⟨hp, hg⟩, by simp [hf]⟩, rfl⟩

theorem mem_muxFixed {ps : List (KH × α)} {id : Id} :
    id ∈ muxFixed ps ↔ ∃ p ∈ ps, p.1.fixed = true ∧ p.1.id = id := by
  simp only [muxFixed, List.mem_map, List.mem_filter, mem_groupOf]
  constructor
  · rintro ⟨p, ⟨⟨hp, _⟩, hf⟩, rfl⟩
    exact ⟨p, hp, hf, rfl⟩
  · rintro ⟨p, hp, hf, rfl⟩
    refine ⟨p, ⟨⟨hp, ?_⟩, hf⟩, rfl⟩
    simp only [KH.fixed, Option.isNone_iff_eq_none] at hf
    simp [KH.inGrp, hf]

end

theorem placed_of_grpWf {gc : Nat} (hgc : 0 < gc) (h : KH) (hw : grpWf gc h.grp = true) : h.placed gc := by
  unfold KH.placed KH.inGrp
  cases hg : h.grp with
  | none => exact ⟨0, hgc, rfl⟩
  | some gs =>
    rw [hg] at hw
    simp only [grpWf, Bool.and_eq_true, Bool.not_eq_true', List.all_eq_true, decide_eq_true_eq] at hw
    cases gs with
    | nil => simp at hw
    | cons g r => exact ⟨g, hw.2 g (by simp), by simp⟩

/-- the children a saved multiplexer is loaded with: the kids in the order of their last
    appearance, each with its own position and groups -/
theorem assembleMux_saved (gc : Nat) (kids : List Kid) (f : Kid → Sig)
    (hf : ∀ k, (f k).id = k.sig.id)
    (hgc : 0 < gc)
    (hn : (kids.map (fun k => k.sig.id)).Nodup)
    (hw : ∀ k ∈ kids, grpWf gc k.grp = true)
    (hr : ∀ k ∈ kids, fits32 k.pos = true) :
    let ps := kids.map (fun k => (k.h, k))
    assembleMux gc (dedupLast Sig.id ((muxSignals gc ps).map f)) (muxFixed ps) (muxGroups gc ps) =
      .ok (dedupLast (fun k => k.sig.id) ((muxSignals gc ps).map fun k => Kid.mk (f k) k.pos k.grp)) := by
  intro ps
  have hps : ∀ p ∈ ps, p.2 ∈ kids ∧ p.1 = p.2.h := by
    intro p hp
    obtain ⟨k, hk, rfl⟩ := List.mem_map.mp hp
    exact ⟨hk, rfl⟩
  have hnp : (ps.map (·.1.id)).Nodup := by
    simpa [ps, List.map_map, Function.comp_def, Kid.h] using hn
  have hpl : ∀ p ∈ ps, p.1.placed gc := by
    intro p hp
    obtain ⟨hk, he⟩ := hps p hp
    rw [he]
    exact placed_of_grpWf hgc _ (hw _ hk)
  -- the loaded children
  have hD : dedupLast Sig.id ((muxSignals gc ps).map f) =
      (dedupLast (fun k => k.sig.id) (muxSignals gc ps)).map f :=
    dedupLast_map (fun k : Kid => k.sig.id) Sig.id f hf _
  have hD' : dedupLast (fun k : Kid => k.sig.id) ((muxSignals gc ps).map fun k => Kid.mk (f k) k.pos k.grp) =
      (dedupLast (fun k => k.sig.id) (muxSignals gc ps)).map fun k => Kid.mk (f k) k.pos k.grp :=
    dedupLast_map (fun k : Kid => k.sig.id) (fun k : Kid => k.sig.id)
      (fun k => Kid.mk (f k) k.pos k.grp) (fun k => hf k) _
  rw [hD, hD']
  generalize hDD : dedupLast (fun k : Kid => k.sig.id) (muxSignals gc ps) = D
  have hDk : ∀ k ∈ D, (k.h, k) ∈ ps := by
    intro k hk
    rw [← hDD] at hk
    obtain ⟨p, hp, rfl⟩ := mem_muxSignals (mem_of_mem_dedupLast hk)
    obtain ⟨_, he⟩ := hps p hp
    rw [← he]
    exact hp
  unfold assembleMux
  rw [triplesFrom_muxGroups hnp]
  dsimp only
  -- the loop over the group layouts accepts every entry
  have hct : checkTriples gc ((D.map f).map Sig.id) (muxFixed ps) (triplesOf gc ps) (triplesOf gc ps) = .ok () := by
    apply checkTriples_ok
    intro t ht
    obtain ⟨hk, p, hp, hg, hid, hpos⟩ := mem_triplesOf.mp ht
    refine ⟨?_, ?_, Or.inr hk⟩
    · have hm : p.2 ∈ muxSignals gc ps := mem_muxSignals_of_placed hp hgc (hpl p hp)
      have := key_mem_dedupLast (fun k : Kid => k.sig.id) _ _ hm
      rw [hDD] at this
      simp only [List.map_map, Function.comp_def, hf, List.contains_eq_mem, decide_eq_true_eq]
      rw [hid, (hps p hp).2]
      exact this
    · rw [hid, hpos]
      exact firstPos_triplesOf hnp hp (hpl p hp)
  rw [hct]
  simp only
  have hcp : checkPlaced (triplesOf gc ps) ((D.map f).map Sig.id) = .ok () := by
    apply checkPlaced_ok
    intro id hid
    simp only [List.map_map, Function.comp_def, hf, List.mem_map] at hid
    obtain ⟨k, hk, rfl⟩ := hid
    have hp := hDk k hk
    have := firstPos_triplesOf hnp hp (hpl _ hp)
    simp only [Kid.h] at this
    simp [this]
  rw [hcp]
  simp only [List.map_map, Function.comp_def, hf]
  congr 1
  apply List.map_congr_left
  intro k hk
  have hp := hDk k hk
  have hkk : k ∈ kids := (hps _ hp).1
  have h1 := firstPos_triplesOf hnp hp (hpl _ hp)
  simp only [Kid.h] at h1
  rw [h1, u32_of_fits (hr k hkk)]
  have h2 := groupsOf_triplesOf (gc := gc) hnp hp
  simp only [Kid.h] at h2
  rw [h2]
  have hfix : (muxFixed ps).contains k.sig.id = k.grp.isNone := by
    rw [Bool.eq_iff_iff]
    simp only [List.contains_eq_mem, decide_eq_true_eq, mem_muxFixed]
    constructor
    · rintro ⟨q, hq, hqf, hqid⟩
      have : q = (k.h, k) := eq_of_id_eq hnp hq hp hqid
      subst this
      exact hqf
    · intro hkf
      exact ⟨(k.h, k), hp, hkf, rfl⟩
  rw [hfix]
  cases hg : k.grp with
  | none => simp
  | some gs =>
    have hwk := hw k hkk
    rw [hg] at hwk
    simp only [grpWf, Bool.and_eq_true, Bool.not_eq_true', List.all_eq_true, decide_eq_true_eq, ascB_iff] at hwk
    simp only [Option.isNone_some, Bool.false_eq_true, if_false, KH.inGrp, Option.getD_some]
    rw [filter_range_contains gc gs hwk.1.2 hwk.2]

end Acme.Save
