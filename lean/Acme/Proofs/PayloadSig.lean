/-
Payload world, part F: `sigSetType` and `sigSetEnum` preserve the invariant.
-/
import Acme.Proofs.PayloadSize

namespace Acme.Payload
open Acme.Layout Acme.Bits Acme.Arith

/-- what `modifySize` leaves alone, attached or not -/
theorem modifySize_frame {w w1 : W} (hS : InvS w) (hw : WFAll w) {s : Nat} {sg : SigE}
    (hs : w.sigs.get s = some sg) (amount : Int) (hpos : 0 < sizeOf w sg + amount)
    (hmod : modifySize w s amount = .ok w1) :
    w1.types = w.types ∧ w1.vals = w.vals ∧ w1.enums = w.enums ∧ w1.msgs = w.msgs ∧
    ∀ i, (w1.sigs.get i).map SigE.core = (w.sigs.get i).map SigE.core := by
  cases hp : sg.parent with
  | none =>
    rw [modifySize_unattached hs hp] at hmod
    injection hmod with hmod; subst hmod
    exact ⟨rfl, rfl, rfl, rfl, fun _ => rfl⟩
  | some m =>
    obtain ⟨msg, hm, _⟩ := hS.parentLayout s sg m hs hp
    have := modifySize_attached hS hs hp hm (hw m msg hm) amount hpos w1 hmod
    exact ⟨this.types, this.vals, this.enums, this.msgs, this.core⟩

theorem core_get_some {a' a : Option SigE} (h : a'.map SigE.core = a.map SigE.core) {x : SigE}
    (hx : a = some x) : ∃ x', a' = some x' ∧ x'.name = x.name ∧ x'.kind = x.kind ∧
      x'.parent = x.parent ∧ x'.be = x.be := by
  obtain ⟨x', h1, h2⟩ := map_eq_some_right h hx
  exact ⟨x', h1, SigE.core_eq h2⟩

theorem core_get_some' {a' a : Option SigE} (h : a'.map SigE.core = a.map SigE.core) {x' : SigE}
    (hx : a' = some x') : ∃ x, a = some x ∧ x'.name = x.name ∧ x'.kind = x.kind ∧
      x'.parent = x.parent ∧ x'.be = x.be := by
  obtain ⟨x, h1, h2⟩ := map_eq_some_left h hx
  exact ⟨x, h1, SigE.core_eq h2⟩

/-- well-formedness and freshness after a size change followed by the kind update of `s`
    and `regenSig` -/
theorem wf_fresh_setKind {w w1 w2 : W} (hS : InvS w) (hw : WFAll w) (hf : FreshAll w)
    {s : Nat} {sg : SigE} (hs : w.sigs.get s = some sg) (amount : Int)
    (hmod : modifySize w s amount = .ok w1) (hpos : 0 < sizeOf w sg + amount)
    {sg1 : SigE} (hs1 : w1.sigs.get s = some sg1) (k : SigKind)
    (hsigs : w2.sigs = upd w1.sigs s { sg1 with kind := k }) (hmsgs : w2.msgs = w.msgs)
    (hsz : ∀ i sg', w.sigs.get i = some sg' → sizeOf w2 sg' = sizeOf w sg')
    (hk : sizeOf w2 { sg1 with kind := k } = sizeOf w sg + amount) :
    WFAll (regenSig w2 s) ∧ FreshAll (regenSig w2 s) := by
  obtain ⟨f1, f2, f3, f4, f5⟩ := modifySize_frame hS hw hs amount hpos hmod
  obtain ⟨_, hs1', _, _, hpar, _⟩ := core_get_some (f5 s) hs
  rw [hs1] at hs1'; injection hs1' with hs1'; subst hs1'
  have hs2 : w2.sigs.get s = some { sg1 with kind := k } := by rw [hsigs, upd_get, if_pos rfl]
  cases hp : sg.parent with
  | none =>
    rw [modifySize_unattached hs hp] at hmod
    injection hmod with hmod; subst hmod
    have hreg : regenSig w2 s = w2 := by
      unfold regenSig; rw [hs2]; simp only; rw [hpar, hp]
    rw [hreg]
    apply wf_fresh_frame hw hf
    intro m msg' h1
    left
    rw [hmsgs] at h1
    refine ⟨h1, fun i hi => ?_⟩
    have his : i ≠ s := by
      intro e; subst e
      exact hS.noparent_notin h1 hs (by rw [hp]; intro e; cases e) hi
    apply slotBeAt_of_get
    · rw [hsigs, upd_get, if_neg his]
    · intro sg' hg; exact hsz i sg' hg
  | some m =>
    obtain ⟨msg, hm, hin⟩ := hS.parentLayout s sg m hs hp
    have mod := modifySize_attached hS hs hp hm (hw m msg hm) amount hpos w1 hmod
    have hreg : regenSig w2 s = regen w2 m := by
      unfold regenSig; rw [hs2]; simp only; rw [hpar, hp]
    rw [hreg]
    apply wf_fresh_regen hS hw hf m hsz
    · intro i sg' m' hi hpi hne
      have hnot : i ∉ msg.layout :=
        hS.noparent_notin hm hi (by rw [hpi]; intro e; injection e with e; exact hne e)
      have his : i ≠ s := fun e => hnot (e ▸ hin)
      rw [hsigs, upd_get, if_neg his, mod.out i hnot]; exact hi
    · intro m' _; rw [hmsgs]
    · intro msg1 h1
      rw [hmsgs, hm] at h1; injection h1 with h1; subst h1
      have : slotsOf w2 msg.layout = setSize (slotsOf w1 msg.layout) s (sizeOf w sg + amount) := by
        apply slotsOf_resize
        · intro i _ his
          unfold slotAt
          rw [hsigs, upd_get, if_neg his]
          cases hg : w1.sigs.get i with
          | none => rfl
          | some sg' =>
            obtain ⟨sg0, hg0, _, hk0, _⟩ := core_get_some' (f5 i) hg
            have e1 : sizeOf w2 sg' = sizeOf w1 sg' := by
              rw [sizeOf_kind w2 sg0 sg' hk0, hsz i sg0 hg0, sizeOf_kind w1 sg0 sg' hk0,
                sizeOf_struct sg0 f1 f3]
            simp [e1]
        · unfold slotAt
          rw [hs2, hs1]
          simp only [Option.map_some]
          rw [hk]
      rw [this]
      exact mod.wf

/-- the structure group after the kind of `s` is replaced -/
theorem InvS.setKind {w w2 : W} (h : InvS w) {s : Nat} {sg sg2 : SigE} (hs : w.sigs.get s = some sg)
    (ht : w2.types = w.types) (hmsgs : w2.msgs = w.msgs)
    (hcore : ∀ i, i ≠ s → (w2.sigs.get i).map SigE.core = (w.sigs.get i).map SigE.core)
    (hs2 : w2.sigs.get s = some sg2) (hn : sg2.name = sg.name) (hpar : sg2.parent = sg.parent)
    (hbe : sg2.be = sg.be) (hk : KindOK w2 sg2.kind)
    (heIs : ∀ e, (w.enums.get e).isSome → (w2.enums.get e).isSome)
    (hrefs : ∀ e en, w2.enums.get e = some en → en.refs.Nodup ∧ ∀ i, i ∈ en.refs ↔ enumOf w2 i = some e)
    (hapart : ∀ m msg, w.msgs.get m = some msg → s ∈ msg.layout →
      (msg.layout.filterMap (enumOf w2)).Nodup) : InvS w2 := by
  have hname : ∀ i, sigName w2 i = sigName w i := by
    intro i
    apply sigName_congr
    by_cases his : i = s
    · subst his; rw [hs2, hs]; simp [hn]
    · have := congrArg (Option.map (·.name)) (hcore i his)
      simpa [Option.map_map, Function.comp_def, SigE.core] using this
  have henum : ∀ i, i ≠ s → enumOf w2 i = enumOf w i := by
    intro i his
    apply enumOf_congr
    have := congrArg (Option.map (·.kind)) (hcore i his)
    simpa [Option.map_map, Function.comp_def, SigE.core] using this
  obtain ⟨l1, l2, l3⟩ := h.links_congr (w' := w2) (by
      intro i
      by_cases his : i = s
      · subst his; rw [hs2, hs]; simp [hpar, hbe]
      · have := congrArg (Option.map (fun x : SigE => (x.parent, x.be))) (hcore i his)
        simpa [Option.map_map, Function.comp_def, SigE.core] using this)
    (fun m => by rw [hmsgs])
  refine ⟨?_, ?_, ?_, l1, l2, l3, ?_, hrefs, ?_⟩
  · intro t ty h1; rw [ht] at h1; exact h.typesPos t ty h1
  · apply h.kind_mono (fun t => by rw [ht]; exact id) heIs
    intro i sg' h1
    by_cases his : i = s
    · subst his; rw [hs2] at h1; injection h1 with h1; subst h1; exact Or.inr hk
    · obtain ⟨sg0, h2, _, h3, _⟩ := core_get_some' (hcore i his) h1
      exact Or.inl ⟨sg0, h2, h3⟩
  · exact h.cap_congr (fun m => by rw [hmsgs])
  · exact h.names_congr (fun m msg' h1 => ⟨msg', by rw [← hmsgs]; exact h1, rfl, fun i _ => hname i⟩)
  · intro m msg h1
    rw [hmsgs] at h1
    by_cases hin : s ∈ msg.layout
    · exact hapart m msg h1 hin
    · rw [List.filterMap_congr (g := enumOf w) (fun i hi => henum i (fun e => hin (e ▸ hi)))]
      exact h.refsApart m msg h1

theorem enumOf_std {w : W} {s : Nat} {sg : SigE} {t : Nat} (hs : w.sigs.get s = some sg)
    (hk : sg.kind = .std t) : enumOf w s = none := by
  unfold enumOf; rw [hs]; simp only [hk]

theorem enumOf_enm {w : W} {s : Nat} {sg : SigE} {e : Nat} (hs : w.sigs.get s = some sg)
    (hk : sg.kind = .enm e) : enumOf w s = some e := by
  unfold enumOf; rw [hs]; simp only [hk]

theorem inv_sigSetType (w : W) (s t : Nat) (h : Inv w) : Inv (step w (.sigSetType s t)).1 := by
  simp only [step]
  cases hs : w.sigs.get s with
  | none => exact h
  | some sg =>
    simp only
    cases hk : sg.kind with
    | enm _ => exact h
    | mux _ _ => exact h
    | std told =>
      simp only
      cases ht : w.types.get t with
      | none => exact h
      | some ty =>
        simp only
        cases hmod : modifySize w s (ty.size - sizeOf w sg) with
        | error e => exact h
        | ok w1 =>
          simp only
          cases hs1 : w1.sigs.get s with
          | none => exact h
          | some sg1 =>
            simp only
            have hS := h.toS
            have hpos : 0 < sizeOf w sg + (ty.size - sizeOf w sg) := by
              have := hS.typesPos t ty ht; omega
            obtain ⟨f1, f2, f3, f4, f5⟩ := modifySize_frame hS h.toWF hs _ hpos hmod
            obtain ⟨_, hs1', c1, c2, c3, c4⟩ := core_get_some (f5 s) hs
            rw [hs1] at hs1'; injection hs1' with hs1'; subst hs1'
            generalize hw2 : ({ w1 with sigs := upd w1.sigs s { sg1 with kind := .std t } } : W) = w2
            have g1 : w2.types = w.types := by rw [← hw2]; exact f1
            have g2 : w2.vals = w.vals := by rw [← hw2]; exact f2
            have g3 : w2.enums = w.enums := by rw [← hw2]; exact f3
            have g4 : w2.msgs = w.msgs := by rw [← hw2]; exact f4
            have g5 : w2.sigs = upd w1.sigs s { sg1 with kind := .std t } := by rw [← hw2]
            have hs2 : w2.sigs.get s = some { sg1 with kind := .std t } := by rw [g5, upd_get, if_pos rfl]
            have hcore : ∀ i, i ≠ s → (w2.sigs.get i).map SigE.core = (w.sigs.get i).map SigE.core := by
              intro i his; rw [g5, upd_get, if_neg his]; exact f5 i
            have henum : ∀ i, enumOf w2 i = enumOf w i := by
              intro i
              by_cases his : i = s
              · subst his; rw [enumOf_std hs2 rfl, enumOf_std hs hk]
              · apply enumOf_congr
                have := congrArg (Option.map (·.kind)) (hcore i his)
                simpa [Option.map_map, Function.comp_def, SigE.core] using this
            have hS2 : InvS w2 := by
              apply hS.setKind hs g1 g4 hcore hs2 c1 c3 c4
              · show (w2.types.get t).isSome = true
                rw [g1, ht]; rfl
              · intro e; rw [g3]; exact id
              · exact hS.refs_congr (fun e en' h1 => ⟨en', by rw [← g3]; exact h1, rfl⟩) henum
              · intro m msg h1 _
                rw [List.filterMap_congr (g := enumOf w) (fun i _ => henum i)]
                exact hS.refsApart m msg h1
            obtain ⟨hw, hf⟩ := wf_fresh_setKind hS h.toWF h.toFresh hs _ hmod hpos hs1 (.std t) g5 g4
              (fun i sg' _ => sizeOf_struct sg' g1 g3)
              (by
                unfold sizeOf
                simp only
                rw [g1, ht]
                simp only
                omega)
            exact Inv.ofParts ((InvV.congr (w' := w2) (fun _ => by rw [g2]) (fun _ => by rw [g3]) h.toV).regenSig s)
              (hS2.regenSig s) hw hf

/-- moving `s` to the front: the enums referenced from a layout stay pairwise different when
    `s` switches to an enum nobody else in the layout references -/
theorem nodup_filterMap_update {l : List Nat} {f f' : Nat → Option Nat} {s e : Nat} (hl : l.Nodup)
    (hs : s ∈ l) (hf : (l.filterMap f).Nodup) (hf' : ∀ i, i ≠ s → f' i = f i) (hs' : f' s = some e)
    (hne : e ∉ (l.filter (· ≠ s)).filterMap f) : (l.filterMap f').Nodup := by
  have hperm : l.Perm (s :: l.erase s) := List.perm_cons_erase hs
  rw [(hperm.filterMap f').nodup_iff, List.filterMap_cons, hs']
  have herase : l.erase s = l.filter (· ≠ s) := by
    rw [hl.erase_eq_filter s]
    apply List.filter_congr
    intro x _
    by_cases hx : x = s <;> simp [hx]
  have hcongr : (l.erase s).filterMap f' = (l.erase s).filterMap f := by
    apply List.filterMap_congr
    intro i hi
    apply hf'
    intro e'; subst e'
    exact (List.Nodup.not_mem_erase hl) hi
  rw [hcongr, List.nodup_cons]
  constructor
  · rw [herase]; exact hne
  · exact List.Nodup.sublist ((List.erase_sublist).filterMap f) hf

/-- the references list of an enum that gains `s` -/
theorem refs_gain {l : List Nat} (hl : l.Nodup) (s : Nat) :
    (l.erase s ++ [s]).Nodup ∧ ∀ i, i ∈ l.erase s ++ [s] ↔ (i ∈ l ∧ i ≠ s) ∨ i = s := by
  constructor
  · rw [List.nodup_append]
    refine ⟨hl.erase s, List.nodup_singleton s, ?_⟩
    intro a ha b hb
    rw [List.mem_singleton] at hb
    subst hb
    intro e; subst e
    exact (List.Nodup.not_mem_erase hl) ha
  · intro i
    rw [List.mem_append, List.mem_singleton, hl.mem_erase_iff]
    constructor
    · rintro (⟨h1, h2⟩ | h); exact Or.inl ⟨h2, h1⟩; exact Or.inr h
    · rintro (⟨h1, h2⟩ | h); exact Or.inl ⟨h2, h1⟩; exact Or.inr h

theorem inv_sigSetEnum (w : W) (s e : Nat) (h : Inv w) (hop : OpOK w (.sigSetEnum s e)) :
    Inv (step w (.sigSetEnum s e)).1 := by
  have hop2 := hop.2
  simp only at hop2
  clear hop
  simp only [step]
  cases hs : w.sigs.get s with
  | none => exact h
  | some sg =>
    simp only
    cases hk : sg.kind with
    | std _ => exact h
    | mux _ _ => exact h
    | enm old =>
      simp only
      cases he : w.enums.get e with
      | none => exact h
      | some en =>
        simp only
        cases hmod : modifySize w s (enumSizeOf en - sizeOf w sg) with
        | error er => exact h
        | ok w1 =>
          simp only
          have hS := h.toS
          have hpos : 0 < sizeOf w sg + (enumSizeOf en - sizeOf w sg) := by
            have := enumSizeOf_pos en; omega
          obtain ⟨f1, f2, f3, f4, f5⟩ := modifySize_frame hS h.toWF hs _ hpos hmod
          obtain ⟨sg1, hs1, c1, c2, c3, c4⟩ := core_get_some (f5 s) hs
          obtain ⟨oldEn, ho⟩ : ∃ oldEn, w.enums.get old = some oldEn := by
            have := hS.sigKind s sg hs
            rw [hk] at this
            exact Option.isSome_iff_exists.1 this
          rw [hs1, f3, ho]
          simp only
          -- the entry of `e` after the references of the old enum are updated
          have hen1 : (upd w.enums old { oldEn with refs := oldEn.refs.erase s }).get e =
              some { en with refs := if e = old then en.refs.erase s else en.refs } := by
            rw [upd_get]
            by_cases heo : e = old
            · subst heo
              rw [ho] at he; injection he with he; subst he
              simp
            · rw [if_neg heo, he]; simp [heo]
          rw [hen1]
          simp only
          generalize hr1 : (if e = old then en.refs.erase s else en.refs) = r1
          generalize hw2 : ({ w1 with
                                sigs := upd w1.sigs s { sg1 with kind := .enm e },
                                enums := upd (upd w.enums old { oldEn with refs := oldEn.refs.erase s }) e
                                  { en with refs := r1.erase s ++ [s] } } : W) = w2
          have g1 : w2.types = w.types := by rw [← hw2]; exact f1
          have g2 : w2.vals = w.vals := by rw [← hw2]; exact f2
          have g4 : w2.msgs = w.msgs := by rw [← hw2]; exact f4
          have g5 : w2.sigs = upd w1.sigs s { sg1 with kind := .enm e } := by rw [← hw2]
          have g3 : ∀ x, w2.enums.get x = (w.enums.get x).map (fun ex =>
              { ex with refs := if x = e then r1.erase s ++ [s] else if x = old then ex.refs.erase s else ex.refs }) := by
            intro x
            rw [← hw2]
            simp only [upd_get]
            by_cases hxe : x = e
            · subst hxe; rw [he]; simp
            · rw [if_neg hxe]
              by_cases hxo : x = old
              · subst hxo; rw [ho]; simp [hxe]
              · rw [if_neg hxo]
                cases w.enums.get x <;> simp [hxe, hxo]
          have hs2 : w2.sigs.get s = some { sg1 with kind := .enm e } := by rw [g5, upd_get, if_pos rfl]
          have hcore : ∀ i, i ≠ s → (w2.sigs.get i).map SigE.core = (w.sigs.get i).map SigE.core := by
            intro i his; rw [g5, upd_get, if_neg his]; exact f5 i
          have henumS : enumOf w2 s = some e := enumOf_enm hs2 rfl
          have henumS0 : enumOf w s = some old := enumOf_enm hs hk
          have henum : ∀ i, i ≠ s → enumOf w2 i = enumOf w i := by
            intro i his
            apply enumOf_congr
            have := congrArg (Option.map (·.kind)) (hcore i his)
            simpa [Option.map_map, Function.comp_def, SigE.core] using this
          have hr1nd : r1.Nodup ∧ ∀ i, i ∈ r1 ∧ i ≠ s ↔ i ∈ en.refs ∧ i ≠ s := by
            have hnd := (hS.enumRefs e en he).1
            rw [← hr1]
            split
            · refine ⟨hnd.erase s, fun i => ?_⟩
              rw [hnd.mem_erase_iff]
              constructor
              · rintro ⟨⟨_, h2⟩, h3⟩; exact ⟨h2, h3⟩
              · rintro ⟨h2, h3⟩; exact ⟨⟨h3, h2⟩, h3⟩
            · exact ⟨hnd, fun _ => Iff.rfl⟩
          have hS2 : InvS w2 := by
            apply hS.setKind hs g1 g4 hcore hs2 c1 c3 c4
            · show (w2.enums.get e).isSome = true
              rw [g3, he]; rfl
            · intro x; rw [g3]; cases w.enums.get x <;> simp
            · intro x enx h1
              rw [g3] at h1
              cases hx : w.enums.get x with
              | none => rw [hx] at h1; cases h1
              | some ex =>
                rw [hx] at h1
                simp only [Option.map_some, Option.some.injEq] at h1
                subst h1
                simp only
                have hrx := hS.enumRefs x ex hx
                by_cases hxe : x = e
                · subst hxe
                  rw [he] at hx; injection hx with hx; subst hx
                  rw [if_pos rfl]
                  obtain ⟨q1, q2⟩ := refs_gain hr1nd.1 s
                  refine ⟨q1, fun i => ?_⟩
                  rw [q2, hr1nd.2]
                  by_cases his : i = s
                  · subst his; simp [henumS]
                  · rw [henum i his, hrx.2]; simp [his]
                · rw [if_neg hxe]
                  by_cases hxo : x = old
                  · subst hxo
                    rw [if_pos rfl]
                    refine ⟨hrx.1.erase s, fun i => ?_⟩
                    rw [hrx.1.mem_erase_iff]
                    by_cases his : i = s
                    · subst his
                      rw [henumS]
                      simp only [ne_eq, not_true_eq_false, false_and, Option.some.injEq, false_iff]
                      exact fun e' => hxe e'.symm
                    · rw [henum i his, hrx.2]; simp [his]
                  · rw [if_neg hxo]
                    refine ⟨hrx.1, fun i => ?_⟩
                    by_cases his : i = s
                    · subst his
                      rw [hrx.2, henumS, henumS0]
                      simp only [Option.some.injEq]
                      exact ⟨fun e' => absurd e'.symm hxo, fun e' => absurd e'.symm hxe⟩
                    · rw [henum i his]; exact hrx.2 i
            · intro m msg h1 hin
              obtain ⟨sg', hsg', hp', _⟩ := hS.layoutParent m msg s h1 hin
              rw [hs] at hsg'; injection hsg' with hsg'; subst hsg'
              exact nodup_filterMap_update (hS.layoutNodup m msg h1) hin (hS.refsApart m msg h1)
                henum henumS (hop2 sg m msg hs hp' h1)
          obtain ⟨hw, hf⟩ := wf_fresh_setKind hS h.toWF h.toFresh hs _ hmod hpos hs1 (.enm e) g5 g4
            (by
              intro i sg' _
              apply sizeOf_congr
              · intro t _; rw [g1]
              · intro x _; rw [g3]; cases w.enums.get x <;> rfl)
            (by
              unfold sizeOf
              simp only
              rw [g3, he]
              simp only [Option.map_some]
              show enumSizeOf en = _
              omega)
          refine Inv.ofParts (InvV.regenSig ?_ s) (hS2.regenSig s) hw hf
          exact InvV.congr (w' := w2) (fun _ => by rw [g2])
            (fun x => by rw [g3]; cases w.enums.get x <;> rfl) h.toV

/-! ### acceptance and absence of panics -/

theorem modifySize_error' {w : W} (hS : InvS w) (hw : WFAll w) (s : Nat) (amount : Int) (e : LErr)
    (he : modifySize w s amount = .error e) : verifySizeAmount w s amount = .error e := by
  cases hv : verifySizeAmount w s amount with
  | error e' =>
    unfold modifySize at he
    rw [hv] at he; simp only at he
    injection he with he; rw [he]
  | ok u =>
    exfalso
    cases hs : w.sigs.get s with
    | none =>
      unfold modifySize at he
      rw [hv, hs] at he; cases he
    | some sg =>
      cases hp : sg.parent with
      | none => rw [modifySize_unattached hs hp] at he; cases he
      | some m =>
        obtain ⟨msg, hm, _⟩ := hS.parentLayout s sg m hs hp
        have := modifySize_error hS hs hp hm (hw m msg hm) amount e he
        rw [hv] at this; cases this

theorem modifySize_nopanic {w : W} (hS : InvS w) (hw : WFAll w) (s : Nat) (amount : Int) :
    modifySize w s amount ≠ .error .panic :=
  fun he => verifySizeAmount_nopanic w s amount (modifySize_error' hS hw s amount _ he)

theorem outOfLErr_eq_panic {e : LErr} (h : outOfLErr e = .panic) : e = .panic := by
  cases e <;> simp [outOfLErr] at h ⊢

theorem outOfLErr_neq_ok (e : LErr) (l : List Int) : outOfLErr e ≠ .ok l := by
  cases e <;> simp [outOfLErr]

theorem nopanic_sigSetType (w : W) (h : Inv w) (s t : Nat) : (step w (.sigSetType s t)).2 ≠ .panic := by
  simp only [step]
  repeat' split
  all_goals first
    | (intro hh; cases hh)
    | skip
  rename_i e heq
  intro hh
  have := outOfLErr_eq_panic hh
  subst this
  exact modifySize_nopanic h.toS h.toWF _ _ heq

theorem nopanic_sigSetEnum (w : W) (h : Inv w) (s e : Nat) : (step w (.sigSetEnum s e)).2 ≠ .panic := by
  simp only [step]
  repeat' split
  all_goals first
    | (intro hh; cases hh)
    | skip
  rename_i e heq
  intro hh
  have := outOfLErr_eq_panic hh
  subst this
  exact modifySize_nopanic h.toS h.toWF _ _ heq

/-- `SetType` of an attached standard signal is accepted exactly when the growth fits behind it -/
theorem setType_iff_inv (w : W) (h : Inv w) (s t m : Nat) (sg : SigE) (ty : TypeE) (msg : MsgE)
    (told : Nat) (hs : w.sigs.get s = some sg) (hk : sg.kind = .std told) (ht : w.types.get t = some ty)
    (hp : sg.parent = some m) (hm : w.msgs.get m = some msg) :
    ((step w (.sigSetType s t)).2 = .ok [] ↔
      ty.size - sizeOf w sg ≤ freeBehind msg.cap (slotsOf w msg.layout) s) := by
  have hS := h.toS
  have hwf := h.wf m msg hm
  have hpos : 0 < sizeOf w sg + (ty.size - sizeOf w sg) := by
    have := hS.typesPos t ty ht; omega
  rw [← verifySizeAmount_attached_iff hS hs hp hm hwf _ hpos]
  simp only [step, hs, hk, ht]
  cases hmod : modifySize w s (ty.size - sizeOf w sg) with
  | error e =>
    simp only
    constructor
    · intro hh; exact absurd hh (outOfLErr_neq_ok e [])
    · intro hv
      have := modifySize_error hS hs hp hm hwf _ e hmod
      rw [hv] at this; cases this
  | ok w1 =>
    simp only
    obtain ⟨_, _, _, _, f5⟩ := modifySize_frame hS h.toWF hs _ hpos hmod
    obtain ⟨sg1, hs1, _⟩ := core_get_some (f5 s) hs
    rw [hs1]
    simp only [true_iff]
    cases hv : verifySizeAmount w s (ty.size - sizeOf w sg) with
    | ok u => rfl
    | error e =>
      unfold modifySize at hmod
      rw [hv] at hmod; cases hmod

end Acme.Payload
