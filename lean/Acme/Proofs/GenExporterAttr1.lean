/-
Generated attribute functions of the exporter (Acme.Gen.X.exportsAsHex / exportAttribute /
exportAttributeAssignment_loop1) against the hand model Acme.Attr: the small lemmas.
-/
import Acme.Proofs.GenExporterAttrDefs

namespace Acme.GenX
open Acme.Attr Acme.XSem Acme.GoSem Acme.Gen Acme.Conv

theorem X_attr_u32 (i : Int) : Acme.XSem.u32 i = Acme.Attr.u32 i := by
  unfold Acme.XSem.u32 Acme.Attr.u32
  rw [BitVec.toNat_ofInt]
  rfl

theorem X_attr_exportsAsHex (n : String) (d mn mx : Int) (hex : Bool) :
    X.exportsAsHex { name := n, defValue := d, min := mn, max := mx, isHexFormat := hex } =
      Acme.Attr.exportsAsHex hex mn mx := by
  simp only [X.exportsAsHex, Acme.Attr.exportsAsHex, ge_iff_le]

theorem attr_name_view (a : AttrDef) : Attr.name (viewAttr a) = a.name := by
  unfold viewAttr
  cases a.ty <;> rfl

theorem attr_loop1 (s : String) (vs : List String) (k z : Int) :
    X.exportAttributeAssignment_loop1 s vs k z =
      match vs.findIdx? (· = s) with
      | some i => k + (i : Int)
      | none => z := by
  induction vs generalizing k with
  | nil => simp [X.exportAttributeAssignment_loop1]
  | cons v r ih =>
    unfold X.exportAttributeAssignment_loop1
    by_cases h : s = v
    · subst h; simp [List.findIdx?_cons]
    · have h' : ¬ v = s := fun e => h e.symm
      simp only [h, if_false, ih, List.findIdx?_cons, h', decide_false]
      cases List.findIdx? (fun x => decide (x = s)) r with
      | none => simp
      | some i => simp; rw [Int.add_assoc, Int.add_comm 1]

theorem attr_loop1_enumIndex (s : String) (vs : List String) :
    X.exportAttributeAssignment_loop1 s vs 0 0 = (enumIndex vs s : Int) := by
  rw [attr_loop1]
  unfold enumIndex
  cases List.findIdx? (fun x => decide (x = s)) vs <;> simp

theorem attr_mapGet2_mapSet (m : List (String × Bool)) (a b : String) :
    (mapGet2 (mapSet m a true) b false).2 = (decide (b = a) || (mapGet2 m b false).2) := by
  induction m with
  | nil =>
    by_cases h : b = a
    · subst h; simp [mapSet, mapGet2]
    · have : ¬ a = b := fun e => h e.symm
      simp [mapSet, mapGet2, h, this]
  | cons p r ih =>
    unfold mapSet
    by_cases hp : p.1 = a
    · by_cases hb : b = a
      · subst hb; simp [mapGet2, hp]
      · have : ¬ a = b := fun e => hb e.symm
        have hpb : ¬ p.1 = b := fun e => hb (e.symm.trans hp)
        simp [mapGet2, hp, hb, this, hpb, List.find?_cons]
    · simp only [hp, if_false]
      by_cases hb : p.1 = b
      · simp [mapGet2, hb, List.find?_cons]
      · simp only [mapGet2, List.find?_cons, hb, decide_false] at ih ⊢
        exact ih

/-- `exportAttribute`: one definition and one default are appended -/
theorem X_attr_exportAttribute (k : Kind) (a : AttrDef) (st : Acme.XSem.St) :
    ∃ d dd, X.exportAttribute id (viewAttr a) { kind := kindOf k } st =
        { st with attributes := st.attributes ++ [d], attributeDefaults := st.attributeDefaults ++ [dd] } ∧
      dattrOf d = (exportDef k a).1 ∧ ddefaultOf dd = (exportDef k a).2 := by
  obtain ⟨n, ty⟩ := a
  have hk : dkindOf (kindOf k) = k := by cases k <;> rfl
  cases ty with
  | str d =>
    refine ⟨_, _, rfl, ?_, ?_⟩ <;> simp [dattrOf, ddefaultOf, dvalOf, exportDef, hk, Attr.name, viewAttr]
  | int d mn mx hex =>
    by_cases hx : Acme.Attr.exportsAsHex hex mn mx = true
    · have hx' := hx
      rw [← X_attr_exportsAsHex n d mn mx hex] at hx'
      refine ⟨{ kind := kindOf k, name := n, type := .hex, minHex := Acme.XSem.u32 mn, maxHex := Acme.XSem.u32 mx },
        { attributeName := n, type := .hex, valueHex := Acme.XSem.u32 d }, ?_, ?_, ?_⟩
      · simp only [X.exportAttribute, viewAttr, hx', ↓reduceIte]; rfl
      · simp [dattrOf, exportDef, hk, Attr.name, viewAttr, hx, X_attr_u32]
      · simp [ddefaultOf, dvalOf, exportDef, Attr.name, viewAttr, hx, X_attr_u32]
    · have hx' := hx
      rw [← X_attr_exportsAsHex n d mn mx hex] at hx'
      refine ⟨{ kind := kindOf k, name := n, type := .int, minInt := mn, maxInt := mx },
        { attributeName := n, type := .int, valueInt := d }, ?_, ?_, ?_⟩
      · simp only [X.exportAttribute, viewAttr, hx', ↓reduceIte]; rfl
      · simp [dattrOf, exportDef, hk, Attr.name, viewAttr, hx]
      · simp [ddefaultOf, dvalOf, exportDef, Attr.name, viewAttr, hx]
  | float d mn mx =>
    refine ⟨_, _, rfl, ?_, ?_⟩ <;> simp [dattrOf, ddefaultOf, dvalOf, exportDef, hk, Attr.name, viewAttr]
  | enum vs d =>
    refine ⟨_, _, rfl, ?_, ?_⟩ <;> simp [dattrOf, ddefaultOf, dvalOf, exportDef, hk, Attr.name, viewAttr]

end Acme.GenX
