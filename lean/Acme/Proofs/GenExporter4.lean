/-
The generated exporter against the hand model, part 4: `exportMultiplexerSignal` through
`exportSignal`, by induction on the depth, against `exportMuxN`; `exportMessage` against `exportMsgN`.
-/
import Acme.Proofs.GenExporter3
import Acme.Proofs.GenExporterRanges
import Acme.Proofs.GenExporterFlat

namespace Acme.GenX
open Acme.Import Acme.XSem Acme.Conv Acme.Gen Acme.GoSem

/-- what the hand model writes for one child (`rec` = the nested multiplexers) -/
def outOf (be : Bool) (N : List MuxNode) (rec : MuxNode → List DSig × List DExt) (n : MuxNode) (c : Child) :
    List DSig × List DExt :=
  if c.isMux then
    match findNode N c.name with
    | some sub => rec sub
    | none => ([], [])
  else ([leafD be c.name (n.start + n.selW + c.rel) c.size true], [])

theorem patchLast_snoc (v : Nat) (sigs : List DSig) (s : DSig) :
    patchLast v (sigs ++ [s]) = sigs ++ [{ s with muxSwitch := v }] := by
  rw [patchLast_append _ _ _ (by simp)]
  rfl

theorem kidsAcc_eq (be : Bool) (N : List MuxNode) (rec : MuxNode → List DSig × List DExt) (n : MuxNode) :
    ∀ (seen : List (Child × Int)) (sigs : List DSig) (exts : List DExt),
      (∀ p ∈ seen, U32 p.2 ∧ (p.1.isMux = true → findNode N p.1.name ≠ none)) →
      kidsAcc (outOf be N rec n) seen sigs exts = exportKidsN be N rec n seen sigs exts
  | [], _, _, _ => rfl
  | (c, id) :: r, sigs, exts, h => by
    have hr : ∀ p ∈ r, U32 p.2 ∧ (p.1.isMux = true → findNode N p.1.name ≠ none) :=
      fun p hp => h p (List.mem_cons_of_mem _ hp)
    obtain ⟨hu, hf⟩ := h (c, id) (List.mem_cons_self ..)
    unfold kidsAcc exportKidsN outOf
    rw [u32_eq hu]
    by_cases hm : c.isMux = true
    · cases hfn : findNode N c.name with
      | none => exact absurd hfn (hf hm)
      | some sub =>
        simp only [hm, if_true]
        exact kidsAcc_eq be N rec n r _ _ hr
    · simp only [hm, Bool.false_eq_true, if_false, List.append_nil]
      rw [patchLast_snoc]
      exact kidsAcc_eq be N rec n r _ _ hr

/-- the Go object of a child -/
def kidView (P : Pay) (N : List MuxNode) (fuel : Nat) (n : MuxNode) (c : Child) : Sig :=
  if c.isMux then
    match findNode N c.name with
    | some sub => viewMux P N fuel true sub
    | none => leafSig P c.name (n.start + n.selW + c.rel) c.size true
  else leafSig P c.name (n.start + n.selW + c.rel) c.size true

theorem viewMux_succ (P : Pay) (N : List MuxNode) (fuel : Nat) (muxed : Bool) (n : MuxNode) :
    viewMux P N (fuel + 1) muxed n =
      .mux { b := { name := n.name, desc := P.muxDesc n.name, startBit := n.start, hasParentMux := muxed },
             groupCount := n.groupCount, groupCountSize := n.selW }
        (((List.range' 0 n.groupCount.toNat).map (fun (j : Nat) => groupOf n.children (j : Int))).map
          (fun g => g.map (kidView P N fuel n))) := by
  rw [viewMux, List.map_map, List.range_eq_range']
  rfl

theorem findNode_name {N : List MuxNode} {a : String} {sub : MuxNode} (h : findNode N a = some sub) : sub.name = a := by
  unfold findNode at h
  have := List.find?_some h
  simpa using this

/-- the head signal of a multiplexer in the hand model -/
def headD (be : Bool) (muxed : Bool) (n : MuxNode) : DSig :=
  { name := n.name, start := fileStart be n.start, size := n.selW.toNat, bigEndian := be,
    isMultiplexor := true, isMultiplexed := muxed }

theorem exportKidsN_ne (be : Bool) (N : List MuxNode) (rec : MuxNode → List DSig × List DExt) (n : MuxNode) :
    ∀ (seen : List (Child × Int)) (sigs : List DSig) (exts : List DExt), sigs ≠ [] →
      (exportKidsN be N rec n seen sigs exts).1 ≠ []
  | [], _, _, h => h
  | (c, id) :: r, sigs, exts, h => by
    unfold exportKidsN
    split
    · split
      · exact exportKidsN_ne be N rec n r _ _ h
      · apply exportKidsN_ne
        apply patchLast_ne_nil
        simp [h]
    · apply exportKidsN_ne
      simp

theorem exportMuxN_ne (be : Bool) (N : List MuxNode) (fuel : Nat) (muxed : Bool) (n : MuxNode) :
    (exportMuxN be N (fuel + 1) muxed n).1 ≠ [] := by
  unfold exportMuxN
  exact exportKidsN_ne be N _ n _ _ _ (by simp)

/-! ### `exportSignal` on a multiplexer and `exportMultiplexerSignal`, with their local variables named -/

/-- the `dbcSig` that `exportSignal` hands to `exportMultiplexerSignal` -/
def sigD (pm : ParentMsg) (b : SigBase) : DbcSignal :=
  let dbcSig : DbcSignal := { name := b.name }
  let dbcSig :=
    if ((pm.receivers.length : Int) = 0) then { dbcSig with receivers := ["Vector__XXX"] }
    else { dbcSig with receivers := X.exportSignal_loop1 id pm.receivers [] }
  if (b.hasParentMux = true) then { dbcSig with isMultiplexed := true } else dbcSig

theorem sigD_props (pm : ParentMsg) (b : SigBase) :
    (sigD pm b).name = b.name ∧ (sigD pm b).isMultiplexed = b.hasParentMux ∧ (sigD pm b).muxSwitchValue = 0 := by
  unfold sigD
  dsimp only
  cases h : b.hasParentMux <;> simp <;> split <;> simp

/-- the state after the comment of the signal -/
def cmtSt (b : SigBase) (mid : Nat) (st : St) : St :=
  if (b.desc ≠ "") then
    X.addDBCComment { kind := Acme.Dbc.CommentKind.signal, text := b.desc, messageID := mid, signalName := b.name } st
  else st

theorem cmtSt_props (b : SigBase) (mid : Nat) (st : St) :
    (cmtSt b mid st).curSignals = st.curSignals ∧ (cmtSt b mid st).extendedMuxes = st.extendedMuxes ∧
    (cmtSt b mid st).messages = st.messages := by
  unfold cmtSt
  split <;> exact ⟨rfl, rfl, rfl⟩

theorem X_exportSignal_mux_eq (pm : ParentMsg) (ms : MuxSig) (groups : List (List Sig)) (mid : Nat) (st : St) :
    X.exportSignal id pm (.mux ms groups) mid st =
      bind (X.exportMultiplexerSignal id pm ms groups mid (sigD pm ms.b) (cmtSt ms.b mid st)) (fun st => .val st) := by
  rw [X.exportSignal]
  rfl

/-- the multiplexor signal -/
def headOf (pm : ParentMsg) (ms : MuxSig) (d : DbcSignal) : DbcSignal :=
  { d with size := u32 ms.groupCountSize, startBit := (X.getStartBit ms.b.startBit pm.byteOrder).1,
           byteOrder := (X.getStartBit ms.b.startBit pm.byteOrder).2, isMultiplexor := true,
           valueType := Acme.Dbc.ValueType.unsigned, min := 0, max := (((ms.groupCount - 1) : Int) : Rat),
           offset := 0, factor := 1 }

def muxBody (pm : ParentMsg) (ms : MuxSig) (groups : List (List Sig)) (mid : Nat) (D : DbcSignal) (nm0 : Bool)
    (st : St) : Res St :=
  bind (X.exportMultiplexerSignal_loop1 id pm mid groups 0 false nm0 [] []
      { st with curSignals := st.curSignals ++ [D] }) fun r =>
    if (¬ (r.1 = true) ∧ ¬ (r.2.1 = true)) then .val r.2.2.2.2
    else bind (X.exportMultiplexerSignal_loop3 id ms mid r.2.1 r.2.2.2.1 r.2.2.1 r.2.2.2.2) fun st => .val st

theorem X_exportMux_eq (pm : ParentMsg) (ms : MuxSig) (groups : List (List Sig)) (mid : Nat) (d : DbcSignal) (st : St) :
    X.exportMultiplexerSignal id pm ms groups mid d st = muxBody pm ms groups mid (headOf pm ms d) d.isMultiplexed st := by
  rw [X.exportMultiplexerSignal]
  rfl

theorem sigView_headOf (pm : ParentMsg) (be : Bool) (hpm : pm.byteOrder = bo be) (ms : MuxSig) (d : DbcSignal)
    (hs : U32 (wpos be ms.b.startBit)) (hw : U32 ms.groupCountSize) (hsw : d.muxSwitchValue = 0) :
    sigView (headOf pm ms d) =
      { name := d.name, start := fileStart be ms.b.startBit, size := ms.groupCountSize.toNat, bigEndian := be,
        isMultiplexor := true, isMultiplexed := d.isMultiplexed } := by
  unfold headOf sigView
  simp only [hpm, X_getStartBit, u32_eq hs, u32_eq hw, fileStart_eq, hsw]
  cases be <;> simp

theorem bInv_init (cs : List Child) (muxed : Bool) (h : DSig) (out : Child → List DSig × List DExt) :
    BInv cs muxed [h] out { e := false, nm := muxed, seen := [], m := [], sigs := [h], exts := [] } (idsUpTo cs 0) := by
  refine ⟨⟨by simp, by simp⟩, ?_, ?_, ?_, ?_, rfl⟩
  · intro a; simp [idsUpTo, mapGet2]
  · intro a; simp [idsUpTo]
  · simp
  · simp

theorem X_exportSignal_mux (P : Pay) (pm : ParentMsg) (be : Bool) (hpm : pm.byteOrder = bo be)
    (N : List MuxNode) (mid : Nat) :
    ∀ (fuel : Nat) (muxed : Bool) (n : MuxNode), NodeOK be N fuel n →
      Exports pm mid (viewMux P N fuel muxed n) (exportMuxN be N fuel muxed n).1 (exportMuxN be N fuel muxed n).2
  | 0, _, _, h => absurd h (by simp [NodeOK])
  | fuel + 1, muxed, n, h => by
    obtain ⟨hs, hw, hgc, hinj, hkids⟩ := h
    have hK : ∀ c ∈ n.children, KidOK pm mid (kidView P N fuel n)
        (outOf be N (exportMuxN be N fuel true) n) c := by
      intro c hc
      have hk := hkids c hc
      by_cases hm : c.isMux = true
      · simp only [hm, if_true] at hk
        cases hfn : findNode N c.name with
        | none => rw [hfn] at hk; exact absurd hk (by simp [optAll])
        | some sub =>
          rw [hfn] at hk
          have hsub : NodeOK be N fuel sub := hk
          have hname := findNode_name hfn
          cases fuel with
          | zero => exact absurd hsub (by simp [NodeOK])
          | succ f =>
            have ih := X_exportSignal_mux P pm be hpm N mid (f + 1) true sub hsub
            refine ⟨?_, ?_, ?_, ?_⟩
            · simp only [kidView, hm, if_true, hfn, viewMux_succ, Sig.base, hname]
            · simp only [kidView, hm, if_true, hfn, viewMux_succ, Sig.kind]
            · simp only [kidView, outOf, hm, if_true, hfn]
              exact ih
            · simp only [outOf, hm, if_true, hfn]
              exact exportMuxN_ne be N f true sub
      · simp only [hm, Bool.false_eq_true, if_false] at hk
        refine ⟨?_, ?_, ?_, ?_⟩
        · simp only [kidView, hm, Bool.false_eq_true, if_false, leafSig_base_name]
        · simp only [kidView, hm, Bool.false_eq_true, if_false, iff_false]
          exact leafSig_kind _ _ _ _ _
        · simp only [kidView, outOf, hm, Bool.false_eq_true, if_false]
          exact X_exportSignal_leaf P pm be hpm _ _ _ true hk.1 hk.2 mid
        · simp [outOf, hm]
    intro st
    -- names
    let ms : MuxSig := { b := { name := n.name, desc := P.muxDesc n.name, startBit := n.start, hasParentMux := muxed },
                         groupCount := n.groupCount, groupCountSize := n.selW }
    let gs : List (List Child) := (List.range' 0 n.groupCount.toNat).map (fun (j : Nat) => groupOf n.children (j : Int))
    let out := outOf be N (exportMuxN be N fuel true) n
    let s0 : BK := { e := false, nm := muxed, seen := [], m := [], sigs := [headD be muxed n], exts := [] }
    obtain ⟨hd1, hd2, hd3⟩ := sigD_props pm ms.b
    obtain ⟨hc1, hc2, hc3⟩ := cmtSt_props ms.b mid st
    have hD : sigView (headOf pm ms (sigD pm ms.b)) = headD be muxed n := by
      rw [sigView_headOf pm be hpm ms _ hs hw hd3, hd1, hd2]
      rfl
    -- the walk
    have hKg : ∀ g ∈ gs, ∀ c ∈ g, KidOK pm mid (kidView P N fuel n) out c := by
      intro g hg c hc
      obtain ⟨j, _, rfl⟩ := List.mem_map.1 hg
      exact hK c (groupOf_sub _ _ c hc)
    have hrel0 : Rel mid st.curSignals st.extendedMuxes st.messages
        { cmtSt ms.b mid st with curSignals := (cmtSt ms.b mid st).curSignals ++ [headOf pm ms (sigD pm ms.b)] }
        s0.sigs s0.exts :=
      ⟨[headOf pm ms (sigD pm ms.b)], [], by simp only [hc1], by simp only [List.map_cons, List.map_nil, hD]; rfl,
        by simp only [hc2, List.append_nil], rfl, by simp, hc3⟩
    obtain ⟨st2, h1, L, XE, r1, r2, r3, r4, r5, r6⟩ := X_loop1 pm mid (kidView P N fuel n) out st.curSignals st.extendedMuxes
      st.messages gs 0 s0 _ hKg (by simp [s0]) hrel0
    obtain ⟨inv, hseen⟩ := bk1_inv (muxed := muxed) (h0 := [headD be muxed n]) (out := out) hinj n.groupCount.toNat 0 s0
      (bInv_init n.children muxed _ out)
    rw [Nat.zero_add] at inv
    generalize hsdef : bk1 out gs 0 s0 = s at h1 r2 r4 inv hseen
    rw [← List.range_eq_range'] at hseen
    have hseen' : s.seen = walkGroups n.children (List.range n.groupCount.toNat) [] := hseen
    have hids : ∀ a, idsUpTo n.children n.groupCount.toNat a = idsOfName n.children n.groupCount a := fun a => rfl
    have hmget : ∀ a, mapGet s.m a [] = idsOfName n.children n.groupCount a := by
      intro a
      unfold mapGet
      rw [inv.rep a, hids]
    -- facts about the children seen
    have hspec := (walkGroups_spec hinj (List.range n.groupCount.toNat) [] ⟨by simp, by simp⟩).2.2
    have hseenOK : ∀ p ∈ s.seen, U32 p.2 ∧ (p.1.isMux = true → findNode N p.1.name ≠ none) := by
      intro p hp
      have hpc : p.1 ∈ n.children := inv.si.sub p hp
      rw [hseen'] at hp
      rcases hspec p hp with h | ⟨k, hk, hk2, _⟩
      · simp at h
      · refine ⟨?_, ?_⟩
        · rw [hk2]
          have := List.mem_range.1 hk
          unfold U32
          constructor <;> omega
        · intro hm hnone
          have := hkids p.1 hpc
          simp only [hm, if_true, hnone, optAll] at this
    have hacc : exportKidsN be N (exportMuxN be N fuel true) n s.seen [headD be muxed n] [] = (s.sigs, s.exts) := by
      rw [← kidsAcc_eq be N _ n s.seen _ _ hseenOK]
      exact inv.acc
    -- the hand model
    have hE : exportMuxN be N (fuel + 1) muxed n =
        ((exportKidsN be N (exportMuxN be N fuel true) n s.seen [headD be muxed n] []).1,
         (exportKidsN be N (exportMuxN be N fuel true) n s.seen [headD be muxed n] []).2 ++
          (if (!s.seen.any (fun q => decide ((idsOfName n.children n.groupCount q.1.name).length ≥ 2)) &&
                !(muxed || s.seen.any (fun q => q.1.isMux))) then []
           else s.seen.filterMap (fun q =>
              if (!(muxed || s.seen.any (fun q => q.1.isMux)) &&
                  (idsOfName n.children n.groupCount q.1.name).length = 1) then none
              else some ⟨n.name, q.1.name, toNatRanges ((compress (idsOfName n.children n.groupCount q.1.name)).getD [])⟩))) := by
      rw [hseen']
      rfl
    rw [hE, hacc]
    have he : s.seen.any (fun q => decide ((idsOfName n.children n.groupCount q.1.name).length ≥ 2)) = s.e := by
      rw [inv.e]
      rfl
    rw [he, ← inv.nm]
    -- the generated code
    rw [viewMux_succ, X_exportSignal_mux_eq, X_exportMux_eq]
    unfold muxBody
    have h1' : X.exportMultiplexerSignal_loop1 id pm mid (gs.map (fun g => g.map (kidView P N fuel n))) 0 false
        (sigD pm ms.b).isMultiplexed [] []
        { cmtSt ms.b mid st with curSignals := (cmtSt ms.b mid st).curSignals ++ [headOf pm ms (sigD pm ms.b)] }
        = .val (s.e, s.nm, s.seen.map (·.1.name), s.m, st2) := by
      rw [hd2]
      exact h1
    rw [h1']
    simp only [bind_val]
    by_cases hcond : ¬ (s.e = true) ∧ ¬ (s.nm = true)
    · rw [if_pos hcond]
      have hb : (!s.e && !s.nm) = true := by
        obtain ⟨a, b⟩ := hcond
        simp [a, b]
      rw [if_pos hb]
      exact ⟨L, XE, st2, rfl, r1, r2, r3, by simpa using r4, r5, r6⟩
    · rw [if_neg hcond]
      have hb : ¬ ((!s.e && !s.nm) = true) := by
        intro hb
        apply hcond
        simp only [Bool.and_eq_true, Bool.not_eq_true', ] at hb
        simp [hb.1, hb.2]
      rw [if_neg hb]
      have hpre : ∀ a ∈ s.seen.map (·.1.name), mapGet s.m a [] ≠ [] ∧ ∀ x ∈ mapGet s.m a [], 0 ≤ x ∧ x < 2 ^ 32 := by
        intro a ha
        obtain ⟨p, hp, rfl⟩ := List.mem_map.1 ha
        refine ⟨?_, ?_⟩
        · intro hnil
          have hk := inv.key p.1.name
          have : (idsUpTo n.children n.groupCount.toNat p.1.name) = [] := by
            rw [hids, ← hmget]; exact hnil
          rw [this] at hk
          simp only [List.isEmpty_nil, Bool.not_true] at hk
          have := List.any_eq_false.1 hk p hp
          simp at this
        · intro x hx
          rw [hmget] at hx
          unfold idsOfName at hx
          obtain ⟨j, hj, rfl⟩ := List.mem_map.1 hx
          have := List.mem_range.1 (List.mem_filter.1 hj).1
          constructor <;> omega
      obtain ⟨xs, e3, x1, x2⟩ := X_loop3 ms mid s.nm s.m (s.seen.map (·.1.name)) st2 hpre
      rw [e3]
      simp only [bind_val]
      refine ⟨L, XE ++ xs, _, rfl, r1, r2, ?_, ?_, ?_, r6⟩
      · show st2.extendedMuxes ++ xs = _
        rw [r3, List.append_assoc]
      · rw [List.map_append, r4, x2, List.filterMap_map]
        congr 1
        apply List.filterMap_congr
        intro q _
        simp only [Function.comp, hmget]
        rfl
      · intro e he
        rcases List.mem_append.1 he with h | h
        · exact r5 e h
        · exact x1 e h
termination_by fuel => fuel

end Acme.GenX
