/-
Multiplexer world, part H: operations that change the owning message of a set of signals
(`setParentMsgs`): the common part, and `msg.clear` (`RemoveAllSignals`).
-/
import Acme.Proofs.MuxName

namespace Acme.Mux
open Acme.Layout Acme.Arith

theorem setParentMsgs_get (sigs : AMap SigE) (p : Option Nat) (l : List Nat) (i : Nat) :
    (setParentMsgs sigs p l).get i =
      if i ∈ l then (sigs.get i).map (fun e => { e with parentMsg := p }) else sigs.get i := by
  induction l generalizing sigs with
  | nil => simp [setParentMsgs]
  | cons a rest ih =>
    simp only [setParentMsgs]
    cases ha : sigs.get a with
    | none =>
      simp only
      rw [ih]
      by_cases hir : i ∈ rest
      · simp [hir]
      · by_cases hia : i = a
        · subst hia; simp [hir, ha]
        · simp [hir, hia]
    | some e =>
      simp only
      rw [ih]
      simp only [AMap.get_set]
      by_cases hia : i = a
      · subst hia
        by_cases hir : i ∈ rest
        · simp [hir, ha]
        · simp [hir, ha]
      · by_cases hir : i ∈ rest
        · simp [hir, hia]
        · simp [hir, hia]

/-- The parts of the invariant that do not depend on the message records, after the owning
    message of a parent-closed set `S` of signals changed to `p` (and free-standing signals
    possibly moved). -/
theorem parts_reparent (w w' : MW) (h : InvCore w) (S : List Nat) (p : Option Nat)
    (hfw : ∀ t e, w.sigs.get t = some e → ∃ e', w'.sigs.get t = some e' ∧ e'.name = e.name ∧
      e'.parentMux = e.parentMux ∧ (e.parentMux ≠ none → e'.rel = e.rel) ∧ e'.kind = e.kind ∧ e'.mx = e.mx ∧
      e'.parentMsg = (if t ∈ S then p else e.parentMsg))
    (hbw : ∀ t e', w'.sigs.get t = some e' → ∃ e, w.sigs.get t = some e)
    (hclosed : ∀ t e x, w.sigs.get t = some e → e.parentMux = some x → (t ∈ S ↔ x ∈ S))
    (hp : ∀ m, p = some m → (w'.msgs.get m).isSome)
    (hmsgs : ∀ m, (w.msgs.get m).isSome → (w'.msgs.get m).isSome) :
    (∀ x xe gc gs, w'.sigs.get x = some xe → xe.kind = .mux gc gs → MuxOK w' x xe gc gs) ∧
    (∀ s e, w'.sigs.get s = some e → LinkOK w' s e) ∧ Acyclic w' := by
  refine ⟨?_, ?_, ?_⟩
  · intro y ye' gc gs hy hk
    obtain ⟨ye, hye⟩ := hbw y ye' hy
    obtain ⟨ye'', hy'', _, _, _, hkind, hmx, _⟩ := hfw y ye hye
    rw [hy] at hy''; cases hy''
    have hyo := h.muxOK hye (by rw [← hkind]; exact hk)
    apply hyo.frame hmx
    · intro t ht
      obtain ⟨e, he, hpe⟩ := (hyo.child t).mp ht
      obtain ⟨e', he', a1, a2, a3, a4, _⟩ := hfw t e he
      refine ⟨e, e', he, he', a1, a2, ?_⟩
      have := a3 (by rw [hpe]; simp)
      simp [geo, sigSize, this, a4]
    · intro t e' he' hpp
      obtain ⟨e, he⟩ := hbw t e' he'
      obtain ⟨e'', he'', _, a2, _⟩ := hfw t e he
      rw [he'] at he''; cases he''
      exact (hyo.child t).mpr ⟨e, he, by rw [← a2]; exact hpp⟩
  · intro t e' ht
    obtain ⟨e, he⟩ := hbw t e' ht
    obtain ⟨e'', he'', _, a2, _, a4, _, a6⟩ := hfw t e he
    rw [ht] at he''; cases he''
    have hl := h.linkOK he
    refine ⟨fun z hz => hl.size z (by rw [← a4]; exact hz), ?_, ?_⟩
    · intro x hx
      have hx0 : e.parentMux = some x := by rw [← a2]; exact hx
      obtain ⟨xe, gc, gs, b1, b2, b3⟩ := hl.parent x hx0
      obtain ⟨xe', c1, _, _, _, c4, _, c6⟩ := hfw x xe b1
      refine ⟨xe', gc, gs, c1, by rw [c4]; exact b2, ?_⟩
      rw [c6, a6]
      have := hclosed t e x he hx0
      by_cases hts : t ∈ S
      · simp [hts, this.mp hts]
      · have hxs : x ∉ S := fun hh => hts (this.mpr hh)
        simp [hts, hxs, b3]
    · intro m hm
      rw [a6] at hm
      by_cases hts : t ∈ S
      · rw [if_pos hts] at hm
        exact hp m hm
      · rw [if_neg hts] at hm
        exact hmsgs m (hl.msg m hm)
  · obtain ⟨depth, hd⟩ := h.acyclic
    refine ⟨depth, ?_⟩
    intro t e' x ht hpp
    obtain ⟨e, he⟩ := hbw t e' ht
    obtain ⟨e'', he'', _, a2, _⟩ := hfw t e he
    rw [ht] at he''; cases he''
    exact hd t e x he (by rw [← a2]; exact hpp)

theorem parts_setParentMsgs (w : MW) (h : InvCore w) (S : List Nat) (p : Option Nat) (msgs' : AMap MsgE)
    (hclosed : ∀ t e x, w.sigs.get t = some e → e.parentMux = some x → (t ∈ S ↔ x ∈ S))
    (hp : ∀ m, p = some m → (msgs'.get m).isSome)
    (hmsgs : ∀ m, (w.msgs.get m).isSome → (msgs'.get m).isSome) :
    let w' : MW := { sigs := setParentMsgs w.sigs p S, msgs := msgs' }
    (∀ x xe gc gs, w'.sigs.get x = some xe → xe.kind = .mux gc gs → MuxOK w' x xe gc gs) ∧
    (∀ s e, w'.sigs.get s = some e → LinkOK w' s e) ∧ Acyclic w' := by
  intro w'
  have hget : ∀ i, w'.sigs.get i =
      if i ∈ S then (w.sigs.get i).map (fun e => { e with parentMsg := p }) else w.sigs.get i :=
    fun i => setParentMsgs_get w.sigs p S i
  apply parts_reparent w w' h S p _ _ hclosed hp hmsgs
  · intro t e ht
    rw [hget]
    by_cases hts : t ∈ S
    · rw [if_pos hts, ht]
      exact ⟨_, rfl, rfl, rfl, fun _ => rfl, rfl, rfl, by simp [hts]⟩
    · rw [if_neg hts]
      exact ⟨e, ht, rfl, rfl, fun _ => rfl, rfl, rfl, by simp [hts]⟩
  · intro t e' ht
    rw [hget] at ht
    by_cases hts : t ∈ S
    · rw [if_pos hts] at ht
      cases hg : w.sigs.get t with
      | none => rw [hg] at ht; cases ht
      | some e => exact ⟨e, rfl⟩
    · rw [if_neg hts] at ht; exact ⟨e', ht⟩

theorem inv_msgClear (w : MW) (h : InvCore w) (m : Nat)
    (hns : (doMsgClear w m).2 ≠ .unsupported) :
    InvCore (doMsgClear w m).1 ∧ (doMsgClear w m).2 ≠ .panic := by
  unfold doMsgClear at hns ⊢
  cases hm : w.msgs.get m with
  | none => simp [hm] at hns
  | some msg =>
    simp only
    refine ⟨?_, by simp⟩
    have hmo := h.msgOK hm
    have hclosed : ∀ t e x, w.sigs.get t = some e → e.parentMux = some x → (t ∈ msg.signals ↔ x ∈ msg.signals) := by
      intro t e x ht hp
      obtain ⟨xe, _, _, hx, _, hpm⟩ := h.parentIsMux t e x ht hp
      rw [hmo.reg, hmo.reg]
      constructor
      · rintro ⟨e1, h1, h2⟩
        rw [ht] at h1; cases h1
        exact ⟨xe, hx, by rw [hpm, h2]⟩
      · rintro ⟨e1, h1, h2⟩
        rw [hx] at h1; cases h1
        exact ⟨e, ht, by rw [← hpm, h2]⟩
    have hgetm : ∀ j, (w.msgs.set m { msg with layout := [], signals := [], signalNames := [] }).get j =
        if j = m then some { msg with layout := [], signals := [], signalNames := [] } else w.msgs.get j :=
      fun j => AMap.get_set _ _ _ _
    obtain ⟨p1, p2, p3⟩ := parts_setParentMsgs w h msg.signals none
      (w.msgs.set m { msg with layout := [], signals := [], signalNames := [] }) hclosed
      (fun m' hh => by cases hh)
      (fun m' hh => by rw [hgetm]; by_cases hj : m' = m <;> simp [hj, hh])
    have hget : ∀ i, (setParentMsgs w.sigs none msg.signals).get i =
        if i ∈ msg.signals then (w.sigs.get i).map (fun e => { e with parentMsg := none }) else w.sigs.get i :=
      fun i => setParentMsgs_get _ _ _ _
    apply InvCore.of_parts p1 _ p2 p3
    intro j msg' hj
    simp only at hj
    rw [hgetm] at hj
    by_cases hjm : j = m
    · subst hjm
      simp only [↓reduceIte, Option.some.injEq] at hj
      subst hj
      have hnone : ∀ t e', (setParentMsgs w.sigs none msg.signals).get t = some e' → e'.parentMsg ≠ some j := by
        intro t e' ht hpp
        rw [hget] at ht
        by_cases hts : t ∈ msg.signals
        · rw [if_pos hts] at ht
          cases hg : w.sigs.get t with
          | none => rw [hg] at ht; cases ht
          | some e => rw [hg] at ht; simp at ht; subst ht; cases hpp
        · rw [if_neg hts] at ht
          exact hts ((hmo.reg t).mpr ⟨e', ht, hpp⟩)
      refine ⟨hmo.cap, ?_, List.nodup_nil, ?_, ?_, List.nodup_nil, ?_⟩
      · simp only [slotsOf, WF, WFfrom]
        have := hmo.cap; omega
      · intro t
        simp only [List.not_mem_nil, false_iff]
        rintro ⟨e', he', _, hpp⟩
        exact hnone t e' he' hpp
      · intro t
        simp only [List.not_mem_nil, false_iff]
        rintro ⟨e', he', hpp⟩
        exact hnone t e' he' hpp
      · intro n i; simp
    · rw [if_neg hjm] at hj
      have hmo' := h.msgOK hj
      have hdis : ∀ t, t ∈ msg'.signals → t ∉ msg.signals := by
        intro t ht hts
        obtain ⟨e1, h1, h2⟩ := (hmo'.reg t).mp ht
        obtain ⟨e2, h3, h4⟩ := (hmo.reg t).mp hts
        rw [h1] at h3; cases h3
        rw [h2] at h4; cases h4
        exact hjm rfl
      apply hmo'.frame
      · intro t ht
        obtain ⟨e, he, _⟩ := (hmo'.reg t).mp ht
        refine ⟨e, e, he, ?_, ⟨rfl, rfl, rfl⟩, rfl⟩
        show (setParentMsgs w.sigs none msg.signals).get t = some e
        rw [hget, if_neg (hdis t ht), he]
      · intro t e' he' hpp
        have he'' : (setParentMsgs w.sigs none msg.signals).get t = some e' := he'
        rw [hget] at he''
        by_cases hts : t ∈ msg.signals
        · rw [if_pos hts] at he''
          cases hg : w.sigs.get t with
          | none => rw [hg] at he''; cases he''
          | some e => rw [hg] at he''; simp at he''; subst he''; cases hpp
        · rw [if_neg hts] at he''
          exact (hmo'.reg t).mpr ⟨e', he'', hpp⟩

end Acme.Mux
