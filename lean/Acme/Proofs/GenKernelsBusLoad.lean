/-
Translator stage 10: the GENERATED `Acme.Gen.BusLoadK.calculateBusLoad` (CalculateBusLoad of
/repo/utils.go, regenerated on every run) equals the hand model `Acme.BusLoad`.

Names used by Acme.Props.GenBusLoad: pairs, toEntry, view, causeOf, Hdr, hdrOf, busLoadH,
calculateBusLoad_eq_spec, view_calculateBusLoad, calculateBusLoad_err, … (see that file).
-/
import Acme.Proofs.BusLoad
import Acme.Gen.BusLoadK

set_option linter.unusedTactic false
set_option linter.unreachableTactic false

namespace Acme.GenBusLoad
open Acme.BusLoad
open Acme.Gen.BusLoadK
open Acme.GoSem (cmpCompareRat SortFuncSpec mergeSortFunc)

abbrev KRes := Rat × List MessageLoad × Option (Acme.Gen.K.Cause × String)
abbrev SortFn := (MessageLoad → MessageLoad → Int) → List MessageLoad → List MessageLoad

/-! ### the projection between the hand model's vocabulary and the generated function's -/

/-- the projection of the specification: the messages sent on the bus, in the order the two nested
    map iterations yield them, as the (sizeByte, cycleTime) pairs the generated function reads -/
def pairs (msgs : List Msg) : List (Int × Int) := msgs.map (fun m => (m.size, m.cycle))

/-- a generated entry (index of the message, rate, share) as an entry of the hand model -/
def toEntry (msgs : List Msg) (e : MessageLoad) : Entry :=
  { msg := msgs.getD e.message default, bps := e.bitsPerSec, pct := e.percentage }

/-- the hand model's refusal causes as the Go sentinels -/
def causeOf : Err → Acme.Gen.K.Cause
  | .negative => .ErrIsNegative
  | .zero => .ErrIsZero

/-- The result triple of the generated function read as a result of the hand model.  `none`: the
    triple has no counterpart (a message index out of range, an error that is not an ArgumentError
    on `defCycleTime` with one of the two causes, an error next to a non-zero load or a non-empty
    list). -/
def view (msgs : List Msg) : KRes → Option (Except Err (Rat × List Entry))
  | (l, ls, none) =>
      if ls.all (fun e => decide (e.message < msgs.length)) then some (.ok (l, ls.map (toEntry msgs)))
      else none
  | (l, ls, some (c, n)) =>
      if l = 0 ∧ ls = [] ∧ n = "defCycleTime" then
        match c with
        | .ErrIsNegative => some (.error .negative)
        | .ErrIsZero => some (.error .zero)
        | _ => none
      else none

/-! ### the hand model with the three frame constants as parameters -/

/-- header, trailer and header-stuffing bits of a bus type -/
structure Hdr where
  header : Int
  trailer : Int
  stuffing : Int
  deriving Repr, DecidableEq

/-- the constants of the hand model (CAN 2.0A) -/
def can2a : Hdr := ⟨headerBits, trailerBits, headerStuffingBits⟩

/-- What the CODE does with the bus type: the value of `BusTypeCAN2A` (0) selects the CAN 2.0A
    constants, every other value leaves the three variables at their zero value. -/
def hdrOf (typ : Int) : Hdr := if typ = 0 then can2a else ⟨0, 0, 0⟩

def frameBitsH (h : Hdr) (size : Int) : Int :=
  size * 8 + h.header + h.trailer + Int.tdiv (h.stuffing + size * 8 - 1) 4

def bpsOfH (h : Hdr) (m : Msg) (d : Int) : Rat :=
  (frameBitsH h m.size : Rat) / (cycleOf m d : Rat) * 1000

def totalH (h : Hdr) (msgs : List Msg) (d : Int) : Rat :=
  msgs.foldl (fun acc m => acc + bpsOfH h m d) 0

theorem frameBitsH_can2a (s : Int) : frameBitsH can2a s = frameBits s := rfl
theorem bpsOfH_can2a (m : Msg) (d : Int) : bpsOfH can2a m d = bpsOf m d := rfl
theorem totalH_can2a (msgs : List Msg) (d : Int) : totalH can2a msgs d = Acme.BusLoad.total msgs d := rfl

/-- the entry the code builds for message `m` at index `i` once the total is known -/
def kEntry (h : Hdr) (d : Int) (tot : Rat) (p : Msg × Nat) : MessageLoad :=
  { message := p.2, bitsPerSec := bpsOfH h p.1 d, percentage := bpsOfH h p.1 d / tot * 100 }

/-- the entries before the sort -/
def kEntries (h : Hdr) (msgs : List Msg) (d : Int) : List MessageLoad :=
  msgs.zipIdx.map (kEntry h d (totalH h msgs d))

/-- `CalculateBusLoad` in the generated function's own result shape, written with the functions of
    the hand model (frame constants as a parameter, the sort routine as a parameter). -/
def specK (h : Hdr) (sf : SortFn) (baud : Int) (msgs : List Msg) (d : Int) : KRes :=
  if d < 0 then (0, [], some (.ErrIsNegative, "defCycleTime"))
  else if d = 0 then (0, [], some (.ErrIsZero, "defCycleTime"))
  else if baud = 0 then (0, [], none)
  else (totalH h msgs d / (baud : Rat) * 100, sf calculateBusLoad_cmp1 (kEntries h msgs d), none)

/-! ### the generated loop -/

theorem loop_eq (h : Hdr) (d : Int) (msgs : List Msg) (i : Nat) (acc : List MessageLoad) (tot : Rat) :
    calculateBusLoad_loop1 d h.header h.trailer h.stuffing (pairs msgs) i acc tot =
      (acc ++ (msgs.zipIdx i).map (fun p =>
          ({ message := p.2, bitsPerSec := bpsOfH h p.1 d, percentage := 0 } : MessageLoad)),
       msgs.foldl (fun a m => a + bpsOfH h m d) tot) := by
  induction msgs generalizing i acc tot with
  | nil => simp [pairs, calculateBusLoad_loop1]
  | cons m ms ih =>
    have ih' := ih (i + 1)
    unfold pairs at ih' ⊢
    simp only [List.map_cons, calculateBusLoad_loop1, ih', List.zipIdx_cons, List.foldl_cons,
      List.append_assoc, List.singleton_append]
    -- `rfl` on the current source; the alternatives absorb commuted operands in a rewritten source
    first
      | rfl
      | (simp only [bpsOfH, frameBitsH, cycleOf, eq_comm (a := (0 : Int))] <;> ring_nf)
      | ring_nf

/-- one iteration of the generated loop, for the CAN 2.0A constants: the entry's rate is the hand
    model's frame length per effective cycle time · 1000, and it is added to the total -/
theorem loop_step (d s c : Int) (rest : List (Int × Int)) (i : Nat) (acc : List MessageLoad)
    (tot : Rat) :
    calculateBusLoad_loop1 d 19 25 34 ((s, c) :: rest) i acc tot =
      calculateBusLoad_loop1 d 19 25 34 rest (i + 1)
        (acc ++ [{ message := i,
                   bitsPerSec := (frameBits s : Rat) / ((if c = 0 then d else c : Int) : Rat) * 1000,
                   percentage := 0 }])
        (tot + (frameBits s : Rat) / ((if c = 0 then d else c : Int) : Rat) * 1000) := by
  simp only [calculateBusLoad_loop1]
  first
    | rfl
    | (simp only [frameBits, headerBits, trailerBits, headerStuffingBits,
        eq_comm (a := (0 : Int))] <;> ring_nf)
    | ring_nf

/-! ### the generated function = the hand model in its own shape, for ALL arguments -/

theorem calculateBusLoad_eq_spec (sf : SortFn) (typ baud : Int) (msgs : List Msg) (d : Int) :
    calculateBusLoad sf typ baud (pairs msgs) d = specK (hdrOf typ) sf baud msgs d := by
  unfold calculateBusLoad specK
  by_cases h1 : d < 0
  · simp only [h1, if_true]
  by_cases h2 : d = 0
  · simp only [h2, if_true]
  by_cases h3 : baud = 0
  · simp only [h1, h2, h3, if_true, if_false]
  simp only [h1, h2, h3, if_false]
  have hh : (if typ = 0 then ((19 : Int), (25 : Int), (34 : Int)) else ((0 : Int), (0 : Int), (0 : Int))) =
      ((hdrOf typ).header, (hdrOf typ).trailer, (hdrOf typ).stuffing) := by
    unfold hdrOf
    split <;> rfl
  rw [hh]
  simp only [loop_eq, List.nil_append, List.map_map]
  unfold kEntries totalH kEntry
  rfl

/-- the refusals and the zero baud rate do not depend on the message list at all -/
theorem calculateBusLoad_neg (sf : SortFn) (typ baud : Int) (ps : List (Int × Int)) (d : Int)
    (h : d < 0) :
    calculateBusLoad sf typ baud ps d = (0, [], some (.ErrIsNegative, "defCycleTime")) := by
  unfold calculateBusLoad
  simp only [h, if_true]

theorem calculateBusLoad_zero (sf : SortFn) (typ baud : Int) (ps : List (Int × Int)) :
    calculateBusLoad sf typ baud ps 0 = (0, [], some (.ErrIsZero, "defCycleTime")) := by
  unfold calculateBusLoad
  simp only [Int.lt_irrefl, if_true, if_false]

theorem calculateBusLoad_zero_baud (sf : SortFn) (typ : Int) (ps : List (Int × Int)) (d : Int)
    (h : 0 < d) :
    calculateBusLoad sf typ 0 ps d = (0, [], none) := by
  unfold calculateBusLoad
  have h1 : ¬ d < 0 := by omega
  have h2 : ¬ d = 0 := by omega
  simp only [h1, h2, if_true, if_false]

/-! ### entries -/

theorem mem_kEntries {h : Hdr} {msgs : List Msg} {d : Int} {e : MessageLoad}
    (he : e ∈ kEntries h msgs d) :
    ∃ (hi : e.message < msgs.length), e.bitsPerSec = bpsOfH h msgs[e.message] d ∧
      e.percentage = e.bitsPerSec / totalH h msgs d * 100 := by
  unfold kEntries at he
  obtain ⟨⟨m, i⟩, hp, rfl⟩ := List.mem_map.mp he
  have h2 := List.mem_zipIdx' hp
  have hi : i < msgs.length := h2.1
  have hm : m = msgs[i]'hi := h2.2
  subst hm
  exact ⟨hi, rfl, rfl⟩

theorem kEntries_message (h : Hdr) (msgs : List Msg) (d : Int) :
    (kEntries h msgs d).map (·.message) = List.range msgs.length := by
  unfold kEntries
  rw [List.map_map]
  have : ((fun e : MessageLoad => e.message) ∘ kEntry h d (totalH h msgs d)) = Prod.snd := by
    funext p; rfl
  rw [this, List.zipIdx_map_snd, List.range_eq_range']

theorem kEntries_toEntry (h : Hdr) (msgs : List Msg) (d : Int) :
    (kEntries h msgs d).map (toEntry msgs) =
      msgs.map (fun m => ({ msg := m, bps := bpsOfH h m d, pct := bpsOfH h m d / totalH h msgs d * 100 } : Entry)) := by
  unfold kEntries
  rw [List.map_map]
  have h1 : ∀ p ∈ msgs.zipIdx, ((toEntry msgs) ∘ kEntry h d (totalH h msgs d)) p =
      ((fun m => ({ msg := m, bps := bpsOfH h m d, pct := bpsOfH h m d / totalH h msgs d * 100 } : Entry)) ∘ Prod.fst) p := by
    rintro ⟨m, i⟩ hp
    have h2 := List.mem_zipIdx' hp
    have hi : i < msgs.length := h2.1
    have hm : m = msgs[i]'hi := h2.2
    subst hm
    simp only [Function.comp, toEntry, kEntry, List.getD_eq_getElem?_getD, List.getElem?_eq_getElem hi,
      Option.getD_some]
  refine (List.map_congr_left h1).trans ?_
  rw [← List.map_map, List.zipIdx_map_fst]

/-! ### the comparator -/

theorem cmp1_le_iff (a b : MessageLoad) :
    calculateBusLoad_cmp1 a b ≤ 0 ↔ b.bitsPerSec ≤ a.bitsPerSec := by
  unfold calculateBusLoad_cmp1 cmpCompareRat
  constructor
  · intro h
    by_contra hc
    have hlt : a.bitsPerSec < b.bitsPerSec := lt_of_not_ge hc
    have hn : ¬ b.bitsPerSec < a.bitsPerSec := not_lt.mpr (le_of_lt hlt)
    simp only [hn, hlt, if_true, if_false] at h
    omega
  · intro h
    have hn : ¬ a.bitsPerSec < b.bitsPerSec := not_lt.mpr h
    rw [if_neg hn]
    split <;> omega

/-- merge sort with the generated comparator meets the guarantee of `slices.SortFunc` -/
theorem mergeSortFunc_spec : SortFuncSpec (mergeSortFunc (α := MessageLoad)) calculateBusLoad_cmp1 := by
  intro l
  refine ⟨List.mergeSort_perm _ _, ?_⟩
  unfold mergeSortFunc
  refine (List.pairwise_mergeSort ?_ ?_ l).imp ?_
  · intro a b c h1 h2
    simp only [decide_eq_true_eq, cmp1_le_iff] at *
    exact le_trans h2 h1
  · intro a b
    simp only [Bool.or_eq_true, decide_eq_true_eq, cmp1_le_iff]
    exact le_total _ _
  · intro a b h
    simpa using h

/-! ### the view of the generated result is the hand model's result -/

theorem busLoadH_ok (baud : Int) (msgs : List Msg) (d : Int) (h1 : ¬ d < 0) (h2 : ¬ d = 0)
    (h3 : ¬ baud = 0) :
    busLoad baud msgs d = .ok (Acme.BusLoad.total msgs d / (baud : Rat) * 100,
      (msgs.map (fun m => ({ msg := m, bps := bpsOf m d, pct := bpsOf m d / Acme.BusLoad.total msgs d * 100 } : Entry))).mergeSort entryLe) := by
  unfold busLoad
  simp only [h1, h2, h3, if_false]

theorem view_calculateBusLoad (baud : Int) (msgs : List Msg) (d : Int) :
    view msgs (calculateBusLoad mergeSortFunc 0 baud (pairs msgs) d) = some (busLoad baud msgs d) := by
  rw [calculateBusLoad_eq_spec]
  unfold specK
  by_cases h1 : d < 0
  · simp only [h1, if_true, view, busLoad, and_self]
  by_cases h2 : d = 0
  · subst h2
    simp only [Int.lt_irrefl, if_true, if_false, view, busLoad, and_self]
  by_cases h3 : baud = 0
  · subst h3
    simp only [h1, h2, if_true, if_false, view, busLoad, List.all_nil, List.map_nil]
  simp only [h1, h2, h3, if_false, view]
  have hh : hdrOf 0 = can2a := rfl
  rw [hh]
  have hall : (mergeSortFunc calculateBusLoad_cmp1 (kEntries can2a msgs d)).all
      (fun e => decide (e.message < msgs.length)) = true := by
    rw [List.all_eq_true]
    intro e he
    have he' : e ∈ kEntries can2a msgs d := (List.mergeSort_perm _ _).mem_iff.mp he
    obtain ⟨hi, _⟩ := mem_kEntries he'
    simpa using hi
  rw [if_pos hall, busLoadH_ok baud msgs d h1 h2 h3]
  congr 3
  unfold mergeSortFunc
  rw [List.map_mergeSort (s := entryLe), kEntries_toEntry]
  · rfl
  · intro a _ b _
    unfold entryLe toEntry
    simp only [cmp1_le_iff]

/-! ### any sort routine with the guarantee of slices.SortFunc -/

theorem sum_bpsOfH_can2a (msgs : List Msg) (d : Int) :
    totalH can2a msgs d = (msgs.map (fun m => bpsOf m d)).sum := by
  rw [totalH_can2a, total_eq]

theorem calculateBusLoad_spec_any (sf : SortFn) (hs : SortFuncSpec sf calculateBusLoad_cmp1)
    (baud : Int) (hb : baud ≠ 0) (msgs : List Msg) (d : Int) (hd : 0 < d) :
    ∃ ls, calculateBusLoad sf 0 baud (pairs msgs) d =
        ((msgs.map (fun m => bpsOf m d)).sum / (baud : Rat) * 100, ls, none) ∧
      ls.Perm (kEntries can2a msgs d) ∧
      ls.Pairwise (fun a b => b.bitsPerSec ≤ a.bitsPerSec) := by
  refine ⟨sf calculateBusLoad_cmp1 (kEntries can2a msgs d), ?_, (hs _).1, ?_⟩
  · rw [calculateBusLoad_eq_spec]
    unfold specK
    have h1 : ¬ d < 0 := by omega
    have h2 : ¬ d = 0 := by omega
    simp only [h1, h2, hb, if_false]
    have hh : hdrOf 0 = can2a := rfl
    rw [hh, sum_bpsOfH_can2a]
  · exact (hs _).2.imp (fun {a b} h => (cmp1_le_iff a b).mp h)

theorem shares_any (ls : List MessageLoad) (msgs : List Msg) (d : Int) (hd : 0 < d)
    (hne : msgs ≠ []) (hok : ∀ m ∈ msgs, MsgOK m) (hp : ls.Perm (kEntries can2a msgs d)) :
    (ls.map (·.percentage)).sum = 100 := by
  rw [(hp.map (·.percentage)).sum_eq]
  have hpos := total_pos msgs d hd hne hok
  have he : (kEntries can2a msgs d).map (·.percentage) =
      (msgs.map (fun m => bpsOf m d)).map
        (fun b => b / (msgs.map (fun m => bpsOf m d)).sum * 100) := by
    unfold kEntries
    rw [List.map_map, List.map_map, sum_bpsOfH_can2a]
    have h1 : ∀ p ∈ msgs.zipIdx,
        ((fun e : MessageLoad => e.percentage) ∘
          kEntry can2a d (msgs.map (fun m => bpsOf m d)).sum) p =
        (((fun b => b / (msgs.map (fun m => bpsOf m d)).sum * 100) ∘ (fun m => bpsOf m d)) ∘
          Prod.fst) p := by
      intro p _; rfl
    refine (List.map_congr_left h1).trans ?_
    rw [← List.map_map, List.zipIdx_map_fst]
  rw [he, sum_map_div_mul, div_self (ne_of_gt hpos)]
  norm_num

/-! ### refusals, both directions -/

theorem calculateBusLoad_err_iff (sf : SortFn) (typ baud : Int) (msgs : List Msg) (d : Int) (e : Err) :
    busLoad baud msgs d = .error e ↔
      calculateBusLoad sf typ baud (pairs msgs) d = (0, [], some (causeOf e, "defCycleTime")) := by
  by_cases h1 : d < 0
  · rw [calculateBusLoad_neg sf typ baud _ d h1, (refused baud msgs d).1 h1]
    cases e <;> simp [causeOf]
  by_cases h2 : d = 0
  · subst h2
    rw [calculateBusLoad_zero, (refused baud msgs 0).2 rfl]
    cases e <;> simp [causeOf]
  rw [calculateBusLoad_eq_spec]
  unfold specK busLoad
  by_cases h3 : baud = 0 <;> simp [h1, h2, h3]

/-- with a positive default cycle time the generated function never reports an error -/
theorem calculateBusLoad_no_err (sf : SortFn) (typ baud : Int) (msgs : List Msg) (d : Int)
    (hd : 0 < d) : (calculateBusLoad sf typ baud (pairs msgs) d).2.2 = none := by
  rw [calculateBusLoad_eq_spec]
  unfold specK
  have h1 : ¬ d < 0 := by omega
  have h2 : ¬ d = 0 := by omega
  by_cases h3 : baud = 0 <;> simp [h1, h2, h3]

/-! ### one message: the frame length -/

theorem calculateBusLoad_single (sf : SortFn) (baud : Int) (hb : baud ≠ 0) (d : Int) (hd : 0 < d)
    (s c : Int) :
    (calculateBusLoad sf 0 baud [(s, c)] d).1 =
      (frameBits s : Rat) / ((if c = 0 then d else c : Int) : Rat) * 1000 / (baud : Rat) * 100 := by
  have h := calculateBusLoad_eq_spec sf 0 baud [⟨0, s, c⟩] d
  have hp : pairs [⟨0, s, c⟩] = [(s, c)] := rfl
  rw [hp] at h
  rw [h]
  unfold specK
  have h1 : ¬ d < 0 := by omega
  have h2 : ¬ d = 0 := by omega
  simp only [h1, h2, hb, if_false]
  have hh : hdrOf 0 = can2a := rfl
  rw [hh, totalH_can2a]
  unfold total bpsOf cycleOf
  simp only [List.foldl_cons, List.foldl_nil, Rat.zero_add]

end Acme.GenBusLoad
