/-
Multiplexer world, part Q: the invariant after a signal was inserted into a multiplexer.
-/
import Acme.Proofs.MuxIns3

namespace Acme.Mux
open Acme.Layout Acme.Arith

/-- The registry clauses after an already registered subtree was registered again. -/
theorem registry_readd (w w' : MW) (m : Nat) (msg : MsgE) (hmo : MsgOK w m msg) (all : List Nat) (P : Names)
    (hsub : ∀ t ∈ all, t ∈ msg.signals)
    (hpm : ∀ t, (∃ e', w'.sigs.get t = some e' ∧ e'.parentMsg = some m) ↔
        (∃ e, w.sigs.get t = some e ∧ e.parentMsg = some m))
    (hname : ∀ t, t ∈ msg.signals → nameOf w' t = nameOf w t)
    (hP : ∀ n i, (n, i) ∈ P ↔ i ∈ all ∧ nameOf w i = n) :
    (∀ t, t ∈ sAddAll msg.signals all ↔ ∃ e', w'.sigs.get t = some e' ∧ e'.parentMsg = some m) ∧
    KeysNodup (nmSetAll msg.signalNames P) ∧
    (∀ n i, (n, i) ∈ nmSetAll msg.signalNames P ↔ i ∈ sAddAll msg.signals all ∧ nameOf w' i = n) := by
  have hinjm : ∀ i j n, (n, i) ∈ msg.signalNames → (n, j) ∈ msg.signalNames → i = j := by
    intro i j n h1 h2
    have e1 := (nmGet_eq_some_iff _ hmo.namesNodup _ _).mpr h1
    have e2 := (nmGet_eq_some_iff _ hmo.namesNodup _ _).mpr h2
    rw [e1] at e2
    exact Option.some.inj e2
  have hPin : ∀ n i, (n, i) ∈ P → (n, i) ∈ msg.signalNames := by
    intro n i hp
    obtain ⟨hi, hn⟩ := (hP n i).mp hp
    exact (hmo.names n i).mpr ⟨hsub i hi, hn⟩
  have hfun : Functional P := fun n i j h1 h2 => hinjm i j n (hPin n i h1) (hPin n j h2)
  have hset : ∀ t, t ∈ sAddAll msg.signals all ↔ t ∈ msg.signals := by
    intro t
    rw [mem_sAddAll]
    constructor
    · rintro (h1 | h1)
      · exact hsub t h1
      · exact h1
    · exact fun h1 => Or.inr h1
  refine ⟨?_, keysNodup_nmSetAll _ _ hmo.namesNodup, ?_⟩
  · intro t
    rw [hset, hpm, hmo.reg]
  · intro n i
    rw [mem_nmSetAll _ _ hfun, hset]
    constructor
    · rintro (hp | ⟨hm, _⟩)
      · obtain ⟨hi, hn⟩ := (hmo.names n i).mp (hPin n i hp)
        exact ⟨hi, by rw [hname i hi, hn]⟩
      · obtain ⟨hi, hn⟩ := (hmo.names n i).mp hm
        exact ⟨hi, by rw [hname i hi, hn]⟩
    · rintro ⟨hi, hn⟩
      have hm : (n, i) ∈ msg.signalNames := (hmo.names n i).mpr ⟨hi, by rw [← hname i hi, hn]⟩
      by_cases hex : ∃ j, (n, j) ∈ P
      · obtain ⟨j, hj⟩ := hex
        have : i = j := hinjm i j n hm (hPin n j hj)
        left; rw [this]; exact hj
      · right
        exact ⟨hm, fun j hj => hex ⟨j, hj⟩⟩

open Classical in
theorem inv_ins (w : MW) (h : InvCore w) (x s : Nat) (xe se : SigE) (gc gs : Int)
    (hx : w.sigs.get x = some xe) (hk : xe.kind = .mux gc gs)
    (hs : w.sigs.get s = some se) (hxs : x ≠ s) (hnot : ∀ k, ¬ Anc w k x s)
    (hpar : se.parentMux = none ∨ se.parentMux = some x)
    (hsmsg : se.parentMsg = none ∨ se.parentMsg = xe.parentMsg)
    (hfreeA : se.parentMux = none → se.parentMsg = none)
    (st : Int) (hrelB : se.parentMux = some x → st = se.rel)
    (W' : MW) (xe' : SigE)
    (hxe' : xe'.name = xe.name ∧ xe'.kind = xe.kind ∧ xe'.rel = xe.rel ∧ xe'.parentMux = xe.parentMux ∧ xe'.parentMsg = xe.parentMsg)
    (hmuxx : MuxOK W' x xe' gc gs)
    (c1 : W'.sigs.get x = some xe')
    (c2 : W'.sigs.get s = some { se with rel := st, parentMux := some x, parentMsg := xe.parentMsg })
    (c3 : ∀ t, Below w t s → W'.sigs.get t = (w.sigs.get t).map (fun e => { e with parentMsg := xe.parentMsg }))
    (c4 : ∀ t, t ≠ x → t ≠ s → ¬ Below w t s → W'.sigs.get t = w.sigs.get t)
    (c5 : xe.parentMsg = none → W'.msgs = w.msgs)
    (c6 : ∀ m, xe.parentMsg = some m → ∃ msg P D, w.msgs.get m = some msg ∧ (∀ t, t ∈ D ↔ Below w t s) ∧
         (∀ n i, (n, i) ∈ P ↔ i ∈ s :: D ∧ nameOf w i = n) ∧
         ∀ j, W'.msgs.get j = if j = m then some { msg with signals := sAddAll msg.signals (s :: D), signalNames := nmSetAll msg.signalNames P } else w.msgs.get j)
    (hreg : ∀ m msg, xe.parentMsg = some m → w.msgs.get m = some msg →
        ((∀ i j, (i = s ∨ Below w i s) → (j = s ∨ Below w j s) → nameOf w i = nameOf w j → i = j) ∧
         (∀ i, (i = s ∨ Below w i s) → ∀ j, (nameOf w i, j) ∉ msg.signalNames) ∧ se.parentMsg = none) ∨
        (se.parentMsg = some m)) :
    InvCore W' := by
  have hnbx : ¬ Below w x s := fun ⟨k, hk'⟩ => hnot (k + 1) hk'
  have hbf : ∀ t, Below w t s → ∃ e, w.sigs.get t = some e ∧ e.parentMsg = se.parentMsg ∧ e.parentMux ≠ none ∧ t ≠ s ∧ t ≠ x := by
    intro t hb
    obtain ⟨e, he, a1, a2, a3⟩ := below_registered w h s t se hs hb
    exact ⟨e, he, a1, a2, a3, by rintro rfl; exact hnbx hb⟩
  have hfw : ∀ t e, w.sigs.get t = some e → ∃ e', W'.sigs.get t = some e' ∧ e'.name = e.name ∧
      e'.kind = e.kind ∧ (t ≠ s → geo e' = geo e) ∧ (t ≠ x → e'.mx = e.mx) ∧
      e'.parentMux = (if t = s then some x else e.parentMux) ∧
      e'.parentMsg = (if t = s ∨ Below w t s then xe.parentMsg else e.parentMsg) := by
    intro t e he
    by_cases hts : t = s
    · subst hts
      rw [hs] at he; cases he
      exact ⟨_, c2, rfl, rfl, fun hh => absurd rfl hh, fun _ => rfl, by simp, by simp⟩
    · by_cases htx : t = x
      · subst htx
        rw [hx] at he; cases he
        refine ⟨xe', c1, hxe'.1, hxe'.2.1, fun _ => ?_, fun hh => absurd rfl hh, by simp [hts, hxe'.2.2.2.1], by simp [hts, hnbx, hxe'.2.2.2.2]⟩
        simp [geo, sigSize, hxe'.2.1, hxe'.2.2.1]
      · by_cases hb : Below w t s
        · refine ⟨{ e with parentMsg := xe.parentMsg }, by rw [c3 t hb, he]; rfl, rfl, rfl, fun _ => rfl, fun _ => rfl, by simp [hts], by simp [hb]⟩
        · exact ⟨e, by rw [c4 t htx hts hb]; exact he, rfl, rfl, fun _ => rfl, fun _ => rfl, by simp [hts], by simp [hts, hb]⟩
  have hbw : ∀ t e', W'.sigs.get t = some e' → ∃ e, w.sigs.get t = some e := by
    intro t e' ht
    by_cases hts : t = s
    · exact ⟨se, by rw [hts]; exact hs⟩
    · by_cases htx : t = x
      · exact ⟨xe, by rw [htx]; exact hx⟩
      · by_cases hb : Below w t s
        · obtain ⟨e, he, _⟩ := hbf t hb; exact ⟨e, he⟩
        · rw [c4 t htx hts hb] at ht; exact ⟨e', ht⟩
  have hnameW : ∀ t, nameOf W' t = nameOf w t := by
    intro t
    cases hg : w.sigs.get t with
    | none =>
      have : W'.sigs.get t = none := by
        cases hg' : W'.sigs.get t with
        | none => rfl
        | some e' => obtain ⟨e, he⟩ := hbw t e' hg'; rw [hg] at he; cases he
      simp [nameOf, hg, this]
    | some e =>
      obtain ⟨e', he', hn, _⟩ := hfw t e hg
      simp [nameOf, hg, he', hn]
  have hcondmsg : ∀ t e, w.sigs.get t = some e → (t = s ∨ Below w t s) → e.parentMsg = se.parentMsg := by
    intro t e he hor
    rcases hor with rfl | hb
    · rw [hs] at he; cases he; rfl
    · obtain ⟨e0, he0, a1, _⟩ := hbf t hb
      rw [he] at he0; cases he0; exact a1
  have hmsgdom : ∀ m, (w.msgs.get m).isSome → (W'.msgs.get m).isSome := by
    intro m hm
    cases hp : xe.parentMsg with
    | none => rw [c5 hp]; exact hm
    | some m0 =>
      obtain ⟨msg, P, D, _, _, _, hj⟩ := c6 m0 hp
      rw [hj]
      by_cases hmm : m = m0 <;> simp [hmm, hm]
  apply InvCore.of_parts
  · -- multiplexers
    intro y ye' gc' gs' hy hky
    by_cases hyx : y = x
    · subst hyx
      rw [c1] at hy
      simp only [Option.some.injEq] at hy
      subst hy
      have hk' : xe.kind = .mux gc' gs' := by rw [← hxe'.2.1]; exact hky
      rw [hk] at hk'
      simp only [SKind.mux.injEq] at hk'
      obtain ⟨rfl, rfl⟩ := hk'
      exact hmuxx
    · obtain ⟨ye, hye⟩ := hbw y ye' hy
      obtain ⟨ye'', hy'', _, hkind, _, hmx, _⟩ := hfw y ye hye
      rw [hy] at hy''; cases hy''
      have hyo := h.muxOK hye (by rw [← hkind]; exact hky)
      have hchs : ∀ t, t ∈ ye.mx.signals → t ≠ s := by
        rintro t ht rfl
        obtain ⟨e, he, hp⟩ := (hyo.child t).mp ht
        rw [hs] at he; cases he
        rcases hpar with hh | hh
        · rw [hh] at hp; cases hp
        · rw [hh] at hp; cases hp; exact hyx rfl
      apply hyo.frame (hmx hyx)
      · intro t ht
        obtain ⟨e, he, hp⟩ := (hyo.child t).mp ht
        have hts := hchs t ht
        obtain ⟨e', he', a1, _, a3, _, a5, _⟩ := hfw t e he
        exact ⟨e, e', he, he', a1, by rw [a5, if_neg hts], a3 hts⟩
      · intro t e' he' hp
        have hts : t ≠ s := by
          rintro rfl
          rw [c2] at he'; cases he'
          simp only [Option.some.injEq] at hp
          exact hyx hp.symm
        obtain ⟨e, he⟩ := hbw t e' he'
        obtain ⟨e'', he'', _, _, _, _, a5, _⟩ := hfw t e he
        rw [he'] at he''; cases he''
        rw [if_neg hts] at a5
        exact (hyo.child t).mpr ⟨e, he, by rw [← a5, hp]⟩
  · -- messages
    intro j msg' hj
    have hframe : ∀ (msg : MsgE), w.msgs.get j = some msg → xe.parentMsg ≠ some j → MsgOK W' j msg := by
      intro msg hjm hne
      have hmo := h.msgOK hjm
      have hnot' : ∀ t e, w.sigs.get t = some e → e.parentMsg = some j → ¬ (t = s ∨ Below w t s) := by
        intro t e he hp hor
        have := hcondmsg t e he hor
        rw [hp] at this
        rcases hsmsg with hh | hh
        · rw [hh] at this; cases this
        · rw [hh] at this; exact hne this.symm
      apply hmo.frame
      · intro t ht
        obtain ⟨e, he, hp⟩ := (hmo.reg t).mp ht
        have hn := hnot' t e he hp
        have hts : t ≠ s := fun hh => hn (Or.inl hh)
        obtain ⟨e', he', a1, _, a3, _, a5, a6⟩ := hfw t e he
        exact ⟨e, e', he, he', ⟨a1, by rw [a5, if_neg hts], by rw [a6, if_neg hn]⟩, a3 hts⟩
      · intro t e' he' hp
        obtain ⟨e, he⟩ := hbw t e' he'
        obtain ⟨e'', he'', _, _, _, _, _, a6⟩ := hfw t e he
        rw [he'] at he''; cases he''
        by_cases hor : t = s ∨ Below w t s
        · rw [if_pos hor] at a6; rw [a6] at hp; exact absurd hp hne
        · rw [if_neg hor] at a6
          exact (hmo.reg t).mpr ⟨e, he, by rw [← a6, hp]⟩
    by_cases hpj : xe.parentMsg = some j
    · obtain ⟨msg, P, D, hmsg, hD, hP, hget⟩ := c6 j hpj
      rw [hget, if_pos rfl] at hj
      simp only [Option.some.injEq] at hj
      subst hj
      have hmo := h.msgOK hmsg
      have hmemall : ∀ t, t ∈ s :: D ↔ (t = s ∨ Below w t s) := by
        intro t; simp only [List.mem_cons, hD]
      have hstl : ∀ i ∈ msg.layout, (w.sigs.get i).isSome := by
        intro i hi; obtain ⟨e, he, _⟩ := (hmo.top i).mp hi; simp [he]
      have hlay_not : ∀ t, t ∈ msg.layout → t ≠ s ∧ ¬ Below w t s := by
        intro t ht
        obtain ⟨e, he, hp1, hp2⟩ := (hmo.top t).mp ht
        constructor
        · rintro rfl
          rw [hs] at he; cases he
          have := hfreeA hp1
          rw [this] at hp2; cases hp2
        · intro hb
          obtain ⟨e0, he0, _, a2, _⟩ := hbf t hb
          rw [he] at he0; cases he0; exact a2 hp1
      have hregfacts : (∀ t, t ∈ sAddAll msg.signals (s :: D) ↔ ∃ e', W'.sigs.get t = some e' ∧ e'.parentMsg = some j) ∧
          KeysNodup (nmSetAll msg.signalNames P) ∧
          (∀ n i, (n, i) ∈ nmSetAll msg.signalNames P ↔ i ∈ sAddAll msg.signals (s :: D) ∧ nameOf W' i = n) := by
        rcases hreg j msg hpj hmsg with ⟨hinj, hdisj, hsen⟩ | hsej
        · apply registry_add w W' j msg hmo (s :: D) P
          · intro t ht
            have hor := (hmemall t).mp ht
            have hst : ∃ e, w.sigs.get t = some e := by
              rcases hor with rfl | hb
              · exact ⟨se, hs⟩
              · obtain ⟨e, he, _⟩ := hbf t hb; exact ⟨e, he⟩
            obtain ⟨e, he⟩ := hst
            obtain ⟨e', he', _, _, _, _, _, a6⟩ := hfw t e he
            exact ⟨e', he', by rw [a6, if_pos hor, hpj]⟩
          · intro t ht
            have hor : ¬ (t = s ∨ Below w t s) := fun hh => ht ((hmemall t).mpr hh)
            constructor
            · rintro ⟨e', he', hp⟩
              obtain ⟨e, he⟩ := hbw t e' he'
              obtain ⟨e'', he'', _, _, _, _, _, a6⟩ := hfw t e he
              rw [he'] at he''; cases he''
              rw [if_neg hor] at a6
              exact ⟨e, he, by rw [← a6, hp]⟩
            · rintro ⟨e, he, hp⟩
              obtain ⟨e', he', _, _, _, _, _, a6⟩ := hfw t e he
              exact ⟨e', he', by rw [a6, if_neg hor, hp]⟩
          · exact fun t _ => hnameW t
          · exact hP
          · intro i j' hi hj' hij
            exact hinj i j' ((hmemall i).mp hi) ((hmemall j').mp hj') hij
          · intro i hi j'
            exact hdisj i ((hmemall i).mp hi) j'
        · apply registry_readd w W' j msg hmo (s :: D) P
          · intro t ht
            have hor := (hmemall t).mp ht
            have hst : ∃ e, w.sigs.get t = some e := by
              rcases hor with rfl | hb
              · exact ⟨se, hs⟩
              · obtain ⟨e, he, _⟩ := hbf t hb; exact ⟨e, he⟩
            obtain ⟨e, he⟩ := hst
            exact (hmo.reg t).mpr ⟨e, he, by rw [hcondmsg t e he hor, hsej]⟩
          · intro t
            constructor
            · rintro ⟨e', he', hp⟩
              obtain ⟨e, he⟩ := hbw t e' he'
              obtain ⟨e'', he'', _, _, _, _, _, a6⟩ := hfw t e he
              rw [he'] at he''; cases he''
              by_cases hor : t = s ∨ Below w t s
              · exact ⟨e, he, by rw [hcondmsg t e he hor, hsej]⟩
              · rw [if_neg hor] at a6
                exact ⟨e, he, by rw [← a6, hp]⟩
            · rintro ⟨e, he, hp⟩
              obtain ⟨e', he', _, _, _, _, _, a6⟩ := hfw t e he
              refine ⟨e', he', ?_⟩
              rw [a6]
              by_cases hor : t = s ∨ Below w t s
              · rw [if_pos hor, hpj]
              · rw [if_neg hor, hp]
          · exact fun t _ => hnameW t
          · exact hP
      obtain ⟨r1, r2, r3⟩ := hregfacts
      refine ⟨hmo.cap, ?_, hmo.nodup, ?_, r1, r2, r3⟩
      · show WF msg.cap (slotsOf W' msg.layout)
        rw [slotsOf_congr w W' msg.layout]
        · exact hmo.wf
        · intro i hi
          obtain ⟨e, he, _⟩ := (hmo.top i).mp hi
          obtain ⟨e', he', _, _, a3, _⟩ := hfw i e he
          simp [he, he', a3 (hlay_not i hi).1]
      · intro t
        show t ∈ msg.layout ↔ _
        constructor
        · intro ht
          obtain ⟨e, he, hp1, hp2⟩ := (hmo.top t).mp ht
          obtain ⟨hts, hnb⟩ := hlay_not t ht
          obtain ⟨e', he', _, _, _, _, a5, a6⟩ := hfw t e he
          exact ⟨e', he', by rw [a5, if_neg hts, hp1], by rw [a6, if_neg (by simp [hts, hnb]), hp2]⟩
        · rintro ⟨e', he', hp1, hp2⟩
          obtain ⟨e, he⟩ := hbw t e' he'
          obtain ⟨e'', he'', _, _, _, _, a5, a6⟩ := hfw t e he
          rw [he'] at he''; cases he''
          have hts : t ≠ s := by rintro rfl; rw [if_pos rfl] at a5; rw [a5] at hp1; cases hp1
          rw [if_neg hts] at a5
          have hnb : ¬ Below w t s := by
            intro hb
            obtain ⟨e0, he0, _, a2, _⟩ := hbf t hb
            rw [he] at he0; cases he0
            exact a2 (by rw [← a5, hp1])
          rw [if_neg (by simp [hts, hnb])] at a6
          exact (hmo.top t).mpr ⟨e, he, by rw [← a5, hp1], by rw [← a6, hp2]⟩
    · have hjw : w.msgs.get j = some msg' := by
        cases hp : xe.parentMsg with
        | none => rw [c5 hp] at hj; exact hj
        | some m0 =>
          obtain ⟨msg, P, D, _, _, _, hget⟩ := c6 m0 hp
          rw [hget] at hj
          have : j ≠ m0 := by rintro rfl; exact hpj hp
          rw [if_neg this] at hj; exact hj
      exact hframe msg' hjw hpj
  · -- links
    intro t e' ht
    obtain ⟨e, he⟩ := hbw t e' ht
    obtain ⟨e'', he'', _, a2, _, _, a5, a6⟩ := hfw t e he
    rw [ht] at he''; cases he''
    have hl := h.linkOK he
    refine ⟨fun z hz => hl.size z (by rw [← a2]; exact hz), ?_, ?_⟩
    · intro p hp
      by_cases hts : t = s
      · subst hts
        rw [if_pos rfl] at a5
        rw [a5] at hp
        simp only [Option.some.injEq] at hp
        subst hp
        refine ⟨xe', gc, gs, c1, by rw [hxe'.2.1]; exact hk, ?_⟩
        rw [a6, if_pos (Or.inl rfl), hxe'.2.2.2.2]
      · rw [if_neg hts] at a5
        have hp0 : e.parentMux = some p := by rw [← a5, hp]
        obtain ⟨pe, gc', gs', b1, b2, b3⟩ := hl.parent p hp0
        obtain ⟨pe', c1', _, c3', _, _, _, c7⟩ := hfw p pe b1
        refine ⟨pe', gc', gs', c1', by rw [c3']; exact b2, ?_⟩
        rw [c7, a6]
        have hiff := below_parent w t s e p he hp0
        by_cases hb : Below w t s
        · have := hiff.mp hb
          simp [hb, this]
        · have hnp : ¬ (p = s ∨ Below w p s) := fun hh => hb (hiff.mpr hh)
          simp [hts, hb, hnp, b3]
    · intro m hm
      rw [a6] at hm
      by_cases hor : t = s ∨ Below w t s
      · rw [if_pos hor] at hm
        exact hmsgdom m (h.parentMsgExists x xe m hx hm)
      · rw [if_neg hor] at hm
        exact hmsgdom m (hl.msg m hm)
  · apply acyclic_add_edge w W' h.acyclic s x _ hnot
    intro t e' p ht hp
    obtain ⟨e, he⟩ := hbw t e' ht
    obtain ⟨e'', he'', _, _, _, _, a5, _⟩ := hfw t e he
    rw [ht] at he''; cases he''
    by_cases hts : t = s
    · rw [if_pos hts] at a5
      rw [a5] at hp
      simp only [Option.some.injEq] at hp
      exact Or.inl ⟨hts, hp.symm⟩
    · rw [if_neg hts] at a5
      exact Or.inr ⟨e, he, by rw [← a5, hp]⟩

end Acme.Mux
