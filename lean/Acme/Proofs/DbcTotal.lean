/-
C09 (parser part): the token-level parser is total — its structural fuel never runs out.

`GoodR ts r`: the parser result `r`, obtained on the input `ts`, is either `ok (x, ts')` with
`ts'` a suffix of `ts`, or an error other than `fuel`.  Every parser function is `GoodR`; the two
fuelled loops therefore never run out of fuel when started with `length + 1`.
-/
import Acme.Core.Dbc
import Acme.Core.DbcParse

set_option linter.unusedSimpArgs false
set_option linter.unusedVariables false

namespace Acme.Dbc

/-- result with remaining tokens -/
def GoodR {α : Type} (ts : List Token) : PRes α → Prop
  | .ok (_, ts') => ts' <:+ ts
  | .error e => e ≠ .fuel

/-- result that is the remaining tokens -/
def GoodT (ts : List Token) : Except PErr (List Token) → Prop
  | .ok ts' => ts' <:+ ts
  | .error e => e ≠ .fuel

/-- plain result -/
def GoodV {α : Type} : Except PErr α → Prop
  | .ok _ => True
  | .error e => e ≠ .fuel

theorem GoodR.ok_self {α : Type} (x : α) (ts : List Token) : GoodR ts (.ok (x, ts)) :=
  List.suffix_refl ts

theorem GoodR.pure_self {α : Type} (x : α) (ts : List Token) :
    GoodR ts (pure (x, ts) : PRes α) := List.suffix_refl ts

theorem GoodR.perr {α : Type} (m : String) (ts : List Token) : GoodR ts (perr m : PRes α) := by
  simp [GoodR, Acme.Dbc.perr]

theorem GoodR.ok_tail {α : Type} (x : α) (t : Token) (ts : List Token) :
    GoodR (t :: ts) (.ok (x, ts)) := List.suffix_cons t ts

theorem GoodV.perr {α : Type} (m : String) : GoodV (perr m : Except PErr α) := by
  simp [GoodV, Acme.Dbc.perr]

theorem GoodT.perr (m : String) (ts : List Token) : GoodT ts (perr m) := by
  simp [GoodT, Acme.Dbc.perr]

theorem GoodR.mono {α : Type} {ts1 ts : List Token} {r : PRes α} (h : GoodR ts1 r)
    (hs : ts1 <:+ ts) : GoodR ts r := by
  cases r with
  | error e => exact h
  | ok p => exact List.IsSuffix.trans h hs

theorem GoodR.bind {α β : Type} {ts : List Token} {r : PRes α} {k : α × List Token → PRes β}
    (hr : GoodR ts r) (hk : ∀ a ts1, ts1 <:+ ts → GoodR ts1 (k (a, ts1))) :
    GoodR ts (r >>= k) := by
  cases r with
  | error e => exact hr
  | ok p =>
    obtain ⟨a, ts1⟩ := p
    exact (hk a ts1 hr).mono hr

theorem GoodT.bind {β : Type} {ts : List Token} {r : Except PErr (List Token)}
    {k : List Token → PRes β}
    (hr : GoodT ts r) (hk : ∀ ts1, ts1 <:+ ts → GoodR ts1 (k ts1)) : GoodR ts (r >>= k) := by
  cases r with
  | error e => exact hr
  | ok ts1 => exact (hk ts1 hr).mono hr

theorem GoodV.bind {α β : Type} {ts : List Token} {r : Except PErr α} {k : α → PRes β}
    (hr : GoodV r) (hk : ∀ a, GoodR ts (k a)) : GoodR ts (r >>= k) := by
  cases r with
  | error e => exact hr
  | ok a => exact hk a

/-- `match r with | .ok (x, r) => .ok (g x, r) | .error e => .error e` -/
theorem GoodR.map {α β : Type} {ts : List Token} {r : PRes α} (g : α → β) (hr : GoodR ts r) :
    GoodR ts (match r with
      | .ok (x, rest) => (.ok (g x, rest) : PRes β)
      | .error e => .error e) := by
  cases r with
  | error e => exact hr
  | ok p => exact hr

theorem GoodR.cons {α : Type} {t : Token} {ts : List Token} {r : PRes α} (h : GoodR ts r) :
    GoodR (t :: ts) r := h.mono (List.suffix_cons _ _)

theorem good_pure_bind {ε α β : Type} (a : α) (f : α → Except ε β) :
    ((pure a : Except ε α) >>= f) = f a := rfl

theorem good_perr_bind {α β : Type} (m : String) (f : α → Except PErr β) :
    (perr m >>= f) = perr m := rfl

/-! ## automation -/

/-- known `GoodR` facts, found by instance resolution (indexed by the parser function) -/
class GoodC {α : Type} (r : PRes α) (ts : outParam (List Token)) : Prop where
  out : GoodR ts r

class GoodTC (r : Except PErr (List Token)) (ts : outParam (List Token)) : Prop where
  out : GoodT ts r

class GoodVC {α : Type} (r : Except PErr α) : Prop where
  out : GoodV r

theorem GoodR.bindC {α β : Type} {ts : List Token} {r : PRes α} {k : α × List Token → PRes β}
    [hr : GoodC r ts] (hk : ∀ a ts1, ts1 <:+ ts → GoodR ts1 (k (a, ts1))) :
    GoodR ts (r >>= k) := GoodR.bind hr.out hk

theorem GoodT.bindC {β : Type} {ts : List Token} {r : Except PErr (List Token)}
    {k : List Token → PRes β} [hr : GoodTC r ts]
    (hk : ∀ ts1, ts1 <:+ ts → GoodR ts1 (k ts1)) : GoodR ts (r >>= k) := GoodT.bind hr.out hk

theorem GoodV.bindC {α β : Type} {ts : List Token} {r : Except PErr α} {k : α → PRes β}
    [hr : GoodVC r] (hk : ∀ a, GoodR ts (k a)) : GoodR ts (r >>= k) := GoodV.bind hr.out hk

/-- walks through a `do` block -/
macro "good" : tactic => `(tactic| repeat' (first
  | with_reducible exact GoodR.ok_self _ _
  | with_reducible exact GoodR.pure_self _ _
  | with_reducible exact GoodR.perr _ _
  | rw [good_pure_bind]
  | rw [good_perr_bind]
  | intro _
  | with_reducible exact GoodC.out
  | with_reducible refine GoodR.bindC ?_
  | with_reducible refine GoodT.bindC ?_
  | with_reducible refine GoodV.bindC ?_
  | dsimp only
  | split
  | refine GoodR.bind ?_ ?_
  | refine GoodR.cons ?_))

/-! ## primitives -/

theorem expectPunct_good (k : PunctKind) (ts : List Token) : GoodT ts (expectPunct k ts) := by
  unfold expectPunct
  split
  · split
    · exact List.suffix_cons _ _
    · exact GoodT.perr _ _
  · exact GoodT.perr _ _
instance (k : PunctKind) (ts : List Token) : GoodTC (expectPunct k ts) ts := ⟨expectPunct_good k ts⟩

theorem scanNumber_good (m : String) (ts : List Token) : GoodR ts (scanNumber m ts) := by
  unfold scanNumber
  split
  · exact GoodR.ok_tail _ _ _
  · exact GoodR.perr _ _
instance (m : String) (ts : List Token) : GoodC (scanNumber m ts) ts := ⟨scanNumber_good m ts⟩

theorem scanIdent_good (m : String) (ts : List Token) : GoodR ts (scanIdent m ts) := by
  unfold scanIdent
  split
  · exact GoodR.ok_tail _ _ _
  · exact GoodR.perr _ _
instance (m : String) (ts : List Token) : GoodC (scanIdent m ts) ts := ⟨scanIdent_good m ts⟩

theorem scanString_good (m : String) (ts : List Token) : GoodR ts (scanString m ts) := by
  unfold scanString
  split
  · exact GoodR.ok_tail _ _ _
  · exact GoodR.perr _ _
instance (m : String) (ts : List Token) : GoodC (scanString m ts) ts := ⟨scanString_good m ts⟩

theorem uintOf_good (m v : String) : GoodV (uintOf m v) := by
  unfold uintOf
  split
  · trivial
  · exact GoodV.perr _
instance (m v : String) : GoodVC (uintOf m v) := ⟨uintOf_good m v⟩

theorem intOf_good (m v : String) : GoodV (intOf m v) := by
  unfold intOf
  split
  · trivial
  · exact GoodV.perr _
instance (m v : String) : GoodVC (intOf m v) := ⟨intOf_good m v⟩

theorem hexOf_good (hex : Bool) (m v : String) : GoodV (hexOf hex m v) := by
  unfold hexOf
  split
  · trivial
  · exact GoodV.perr _
instance (hex : Bool) (m v : String) : GoodVC (hexOf hex m v) := ⟨hexOf_good hex m v⟩

theorem doubleOf_good (m v : String) : GoodV (doubleOf m v) := by
  unfold doubleOf
  split
  · trivial
  · exact GoodV.perr _
instance (m v : String) : GoodVC (doubleOf m v) := ⟨doubleOf_good m v⟩

theorem scanUint_good (m1 m2 : String) (ts : List Token) : GoodR ts (scanUint m1 m2 ts) := by
  unfold scanUint
  good
instance (m1 m2 : String) (ts : List Token) : GoodC (scanUint m1 m2 ts) ts := ⟨scanUint_good m1 m2 ts⟩

theorem scanDouble_good (m1 m2 : String) (ts : List Token) : GoodR ts (scanDouble m1 m2 ts) := by
  unfold scanDouble
  good
instance (m1 m2 : String) (ts : List Token) : GoodC (scanDouble m1 m2 ts) ts := ⟨scanDouble_good m1 m2 ts⟩

theorem parseNodeName_good (ts : List Token) : GoodR ts (parseNodeName ts) := scanIdent_good _ _
instance (ts : List Token) : GoodC (parseNodeName ts) ts := ⟨parseNodeName_good ts⟩
theorem parseSignalName_good (ts : List Token) : GoodR ts (parseSignalName ts) := scanIdent_good _ _
instance (ts : List Token) : GoodC (parseSignalName ts) ts := ⟨parseSignalName_good ts⟩
theorem parseEnvVarName_good (ts : List Token) : GoodR ts (parseEnvVarName ts) := scanIdent_good _ _
instance (ts : List Token) : GoodC (parseEnvVarName ts) ts := ⟨parseEnvVarName_good ts⟩
theorem parseMessageID_good (ts : List Token) : GoodR ts (parseMessageID ts) := scanUint_good _ _ _
instance (ts : List Token) : GoodC (parseMessageID ts) ts := ⟨parseMessageID_good ts⟩

/-! ## loops over simple tokens -/

theorem parseIdents_suffix (ts : List Token) : (parseIdents ts).2 <:+ ts := by
  fun_induction parseIdents ts with
  | case1 v ts r ih => exact List.IsSuffix.trans ih (List.suffix_cons _ _)
  | case2 ts h => exact List.suffix_refl _

theorem parseCommaIdents_good (m : String) (ts : List Token) :
    GoodR ts (parseCommaIdents m ts) := by
  fun_induction parseCommaIdents m ts <;>
    first
    | exact GoodR.ok_self _ _
    | exact GoodR.perr _ _
    | skip
  all_goals
    rename_i ih
    simp only [*] at ih ⊢
    first
    | exact ih.cons.cons
    | exact ih
instance (m : String) (ts : List Token) : GoodC (parseCommaIdents m ts) ts := ⟨parseCommaIdents_good m ts⟩

theorem parseCommaStrings_good (m : String) (ts : List Token) :
    GoodR ts (parseCommaStrings m ts) := by
  fun_induction parseCommaStrings m ts <;>
    first
    | exact GoodR.ok_self _ _
    | exact GoodR.perr _ _
    | skip
  all_goals
    rename_i ih
    simp only [*] at ih ⊢
    first
    | exact ih.cons.cons
    | exact ih
instance (m : String) (ts : List Token) : GoodC (parseCommaStrings m ts) ts := ⟨parseCommaStrings_good m ts⟩

/-! ## sections -/

theorem parseVersion_good (fl : PFlags) (ts : List Token) : GoodR ts (parseVersion fl ts) := by
  unfold parseVersion
  split
  · exact GoodR.perr _ _
  · split
    · exact GoodR.ok_tail _ _ _
    · exact GoodR.perr _ _
instance (fl : PFlags) (ts : List Token) : GoodC (parseVersion fl ts) ts := ⟨parseVersion_good fl ts⟩

theorem parseNewSymbolsLoop_good (ts : List Token) : GoodR ts (parseNewSymbolsLoop ts) := by
  fun_induction parseNewSymbolsLoop ts <;>
    first
    | exact GoodR.ok_self _ _
    | exact GoodR.ok_tail _ _ _
    | exact GoodR.perr _ _
    | skip
  all_goals
    rename_i ih
    try simp only [*] at ih ⊢
    first
    | exact ih.cons
    | exact ih
instance (ts : List Token) : GoodC (parseNewSymbolsLoop ts) ts := ⟨parseNewSymbolsLoop_good ts⟩

theorem parseNewSymbols_good (fl : PFlags) (ts : List Token) :
    GoodR ts (parseNewSymbols fl ts) := by
  unfold parseNewSymbols
  good
instance (fl : PFlags) (ts : List Token) : GoodC (parseNewSymbols fl ts) ts := ⟨parseNewSymbols_good fl ts⟩

theorem parseBitTiming_good (fl : PFlags) (ts : List Token) : GoodR ts (parseBitTiming fl ts) := by
  unfold parseBitTiming
  good
instance (fl : PFlags) (ts : List Token) : GoodC (parseBitTiming fl ts) ts := ⟨parseBitTiming_good fl ts⟩

theorem GoodR.ok_suffix {α : Type} (x : α) {ts' ts : List Token} (h : ts' <:+ ts) :
    GoodR ts (.ok (x, ts')) := h

theorem parseNodes_good (fl : PFlags) (ts : List Token) : GoodR ts (parseNodes fl ts) := by
  unfold parseNodes
  split
  · exact GoodR.perr _ _
  · refine GoodT.bind (expectPunct_good _ _) ?_
    intro ts1 _
    exact GoodR.ok_suffix _ (parseIdents_suffix ts1)
instance (fl : PFlags) (ts : List Token) : GoodC (parseNodes fl ts) ts := ⟨parseNodes_good fl ts⟩

theorem parseValueDescriptions_good (ts : List Token) : GoodR ts (parseValueDescriptions ts) := by
  fun_induction parseValueDescriptions ts <;>
    first
    | exact GoodR.ok_self _ _
    | exact GoodR.perr _ _
    | skip
  all_goals
    rename_i ih
    simp only [*] at ih ⊢
    first
    | exact ih.cons.cons
    | exact ih
instance (ts : List Token) : GoodC (parseValueDescriptions ts) ts := ⟨parseValueDescriptions_good ts⟩

theorem parseValueTable_good (ts : List Token) : GoodR ts (parseValueTable ts) := by
  unfold parseValueTable
  good
instance (ts : List Token) : GoodC (parseValueTable ts) ts := ⟨parseValueTable_good ts⟩

theorem parseMuxIndicator_good (v : String) : GoodV (parseMuxIndicator v) := by
  unfold parseMuxIndicator
  simp only
  split
  · exact GoodV.perr _
  · split
    · trivial
    · exact GoodV.perr _
  · trivial

theorem parseOptMux_good (ts : List Token) : GoodR ts (parseOptMux ts) := by
  unfold parseOptMux
  split
  · rename_i v ts'
    have := parseMuxIndicator_good v
    split
    · exact GoodR.ok_tail _ _ _
    · rename_i e he
      rw [he] at this
      exact this
  · exact GoodR.ok_self _ _
instance (ts : List Token) : GoodC (parseOptMux ts) ts := ⟨parseOptMux_good ts⟩

theorem parseByteOrder_good (ts : List Token) : GoodR ts (parseByteOrder ts) := by
  unfold parseByteOrder
  good
instance (ts : List Token) : GoodC (parseByteOrder ts) ts := ⟨parseByteOrder_good ts⟩

theorem parseValueType_good (ts : List Token) : GoodR ts (parseValueType ts) := by
  unfold parseValueType
  split
  · split
    · exact GoodR.ok_tail _ _ _
    · exact GoodR.perr _ _
  · exact GoodR.perr _ _
instance (ts : List Token) : GoodC (parseValueType ts) ts := ⟨parseValueType_good ts⟩

theorem parseScaling_good (ts : List Token) : GoodR ts (parseScaling ts) := by
  unfold parseScaling
  good
instance (ts : List Token) : GoodC (parseScaling ts) ts := ⟨parseScaling_good ts⟩

theorem parseSignal_good (ts : List Token) : GoodR ts (parseSignal ts) := by
  unfold parseSignal
  good
instance (ts : List Token) : GoodC (parseSignal ts) ts := ⟨parseSignal_good ts⟩

theorem parseSignals_good (n : Nat) : ∀ ts : List Token, ts.length < n →
    GoodR ts (parseSignals n ts) := by
  induction n with
  | zero => intro ts h; exact absurd h (Nat.not_lt_zero _)
  | succ n ih =>
    intro ts hlen
    unfold parseSignals
    split
    · contradiction
    · rename_i n' v ts' heq
      have hn : n' = n := by omega
      subst hn
      split
      · have hsig := parseSignal_good ts'
        split
        · rename_i e he
          rw [he] at hsig
          exact hsig
        · rename_i sig ts'' he
          rw [he] at hsig
          have hsuf : ts'' <:+ ts' := hsig
          have hlen' : ts''.length < n' := by
            have := hsuf.length_le
            simp only [List.length_cons] at hlen
            omega
          have hrec := ih ts'' hlen'
          have : GoodR (Token.keyword v :: ts') (parseSignals n' ts'') :=
            (hrec.mono hsuf).cons
          split
          · rename_i sigs r hr
            rw [hr] at this
            exact this
          · rename_i e hr
            rw [hr] at this
            exact this
      · exact GoodR.ok_self _ _
    · exact GoodR.ok_self _ _

theorem parseSignals_good' (ts : List Token) : GoodR ts (parseSignals (ts.length + 1) ts) :=
  parseSignals_good _ ts (Nat.lt_succ_self _)
instance (ts : List Token) : GoodC (parseSignals (ts.length + 1) ts) ts := ⟨parseSignals_good' ts⟩

theorem parseMessage_good (ts : List Token) : GoodR ts (parseMessage ts) := by
  unfold parseMessage
  good
instance (ts : List Token) : GoodC (parseMessage ts) ts := ⟨parseMessage_good ts⟩

theorem parseMessageTransmitter_good (ts : List Token) :
    GoodR ts (parseMessageTransmitter ts) := by
  unfold parseMessageTransmitter
  refine GoodR.bind (parseMessageID_good _) ?_
  intro id ts1 _
  refine GoodT.bind (expectPunct_good _ _) ?_
  intro ts2 _
  dsimp only
  refine GoodR.mono ?_ (parseIdents_suffix ts2)
  good
instance (ts : List Token) : GoodC (parseMessageTransmitter ts) ts := ⟨parseMessageTransmitter_good ts⟩

theorem parseEnvVar_good (ts : List Token) : GoodR ts (parseEnvVar ts) := by
  unfold parseEnvVar
  good
instance (ts : List Token) : GoodC (parseEnvVar ts) ts := ⟨parseEnvVar_good ts⟩

theorem parseEnvVarData_good (ts : List Token) : GoodR ts (parseEnvVarData ts) := by
  unfold parseEnvVarData
  good
instance (ts : List Token) : GoodC (parseEnvVarData ts) ts := ⟨parseEnvVarData_good ts⟩

theorem parseSignalTypeDef_good (ts : List Token) : GoodR ts (parseSignalTypeDef ts) := by
  unfold parseSignalTypeDef
  good
instance (ts : List Token) : GoodC (parseSignalTypeDef ts) ts := ⟨parseSignalTypeDef_good ts⟩

theorem parseSignalTypeRef_good (ts : List Token) : GoodR ts (parseSignalTypeRef ts) := by
  unfold parseSignalTypeRef
  good
instance (ts : List Token) : GoodC (parseSignalTypeRef ts) ts := ⟨parseSignalTypeRef_good ts⟩

theorem parseSignalType_good (ts : List Token) : GoodR ts (parseSignalType ts) := by
  unfold parseSignalType
  split
  · rename_i v tl
    have h := parseSignalTypeDef_good (Token.ident v :: tl)
    split <;> rename_i he <;> rw [he] at h <;> exact h
  · rename_i v tl
    have h := parseSignalTypeRef_good (Token.number v :: tl)
    split <;> rename_i he <;> rw [he] at h <;> exact h
  · exact GoodR.perr _ _
instance (ts : List Token) : GoodC (parseSignalType ts) ts := ⟨parseSignalType_good ts⟩

theorem parseComment_good (ts : List Token) : GoodR ts (parseComment ts) := by
  unfold parseComment
  good
instance (ts : List Token) : GoodC (parseComment ts) ts := ⟨parseComment_good ts⟩

theorem parseAttributeName_good (ts : List Token) : GoodR ts (parseAttributeName ts) := by
  unfold parseAttributeName
  split
  · split
    · exact GoodR.perr _ _
    · exact GoodR.ok_tail _ _ _
  · exact GoodR.perr _ _
instance (ts : List Token) : GoodC (parseAttributeName ts) ts := ⟨parseAttributeName_good ts⟩

theorem parseAttributeKind_good (ts : List Token) : GoodR ts (parseAttributeKind ts) := by
  unfold parseAttributeKind
  split
  · exact GoodR.ok_self _ _
  · split <;> first | exact GoodR.ok_tail _ _ _ | exact GoodR.perr _ _
  · exact GoodR.perr _ _
instance (ts : List Token) : GoodC (parseAttributeKind ts) ts := ⟨parseAttributeKind_good ts⟩

theorem parseAttribute_good (hex : Bool) (ts : List Token) : GoodR ts (parseAttribute hex ts) := by
  unfold parseAttribute
  good
instance (hex : Bool) (ts : List Token) : GoodC (parseAttribute hex ts) ts := ⟨parseAttribute_good hex ts⟩

theorem parseAttrVal_good (hex : Bool) (what : String) (ts : List Token) :
    GoodR ts (parseAttrVal hex what ts) := by
  unfold parseAttrVal
  repeat' (first
    | exact GoodR.ok_tail _ _ _
    | exact GoodR.perr _ _
    | split)
instance (hex : Bool) (what : String) (ts : List Token) : GoodC (parseAttrVal hex what ts) ts := ⟨parseAttrVal_good hex what ts⟩

theorem parseAttributeDefault_good (hex : Bool) (ts : List Token) :
    GoodR ts (parseAttributeDefault hex ts) := by
  unfold parseAttributeDefault
  good
instance (hex : Bool) (ts : List Token) : GoodC (parseAttributeDefault hex ts) ts := ⟨parseAttributeDefault_good hex ts⟩

theorem parseAttributeValueObject_good (ts : List Token) :
    GoodR ts (parseAttributeValueObject ts) := by
  unfold parseAttributeValueObject
  good
instance (ts : List Token) : GoodC (parseAttributeValueObject ts) ts := ⟨parseAttributeValueObject_good ts⟩

theorem parseAttributeValue_good (hex : Bool) (ts : List Token) :
    GoodR ts (parseAttributeValue hex ts) := by
  unfold parseAttributeValue
  good
instance (hex : Bool) (ts : List Token) : GoodC (parseAttributeValue hex ts) ts := ⟨parseAttributeValue_good hex ts⟩

theorem parseValueEncoding_good (ts : List Token) : GoodR ts (parseValueEncoding ts) := by
  unfold parseValueEncoding
  good
instance (ts : List Token) : GoodC (parseValueEncoding ts) ts := ⟨parseValueEncoding_good ts⟩

theorem parseSignalGroup_good (ts : List Token) : GoodR ts (parseSignalGroup ts) := by
  unfold parseSignalGroup
  refine GoodR.bind (parseMessageID_good _) ?_
  intro id ts1 _
  refine GoodR.bind (scanIdent_good _ _) ?_
  intro name ts2 _
  refine GoodR.bind (scanUint_good _ _ _) ?_
  intro reps ts3 _
  refine GoodT.bind (expectPunct_good _ _) ?_
  intro ts4 _
  dsimp only
  refine GoodR.mono ?_ (parseIdents_suffix ts4)
  good
instance (ts : List Token) : GoodC (parseSignalGroup ts) ts := ⟨parseSignalGroup_good ts⟩

theorem parseSignalExtValueType_good (ts : List Token) :
    GoodR ts (parseSignalExtValueType ts) := by
  unfold parseSignalExtValueType
  good
instance (ts : List Token) : GoodC (parseSignalExtValueType ts) ts := ⟨parseSignalExtValueType_good ts⟩

theorem parseRangeText_good (v : String) : GoodV (parseRangeText v) := by
  unfold parseRangeText
  simp only
  split
  · exact GoodV.perr _
  · split
    · trivial
    · exact GoodV.perr _

theorem parseExtendedMuxRange_good (ts : List Token) : GoodR ts (parseExtendedMuxRange ts) := by
  unfold parseExtendedMuxRange
  split
  · rename_i v ts'
    have := parseRangeText_good v
    split
    · exact GoodR.ok_tail _ _ _
    · rename_i e he
      rw [he] at this
      exact this
  · exact GoodR.perr _ _
instance (ts : List Token) : GoodC (parseExtendedMuxRange ts) ts := ⟨parseExtendedMuxRange_good ts⟩

theorem parseCommaRanges_good (ts : List Token) : GoodR ts (parseCommaRanges ts) := by
  fun_induction parseCommaRanges ts <;>
    first
    | exact GoodR.ok_self _ _
    | exact GoodR.perr _ _
    | skip
  · rename_i e he
    have := parseRangeText_good ‹String›
    simp only [he] at this ⊢
    exact this
  all_goals
    rename_i ih
    try simp only [*] at ih ⊢
    first
    | exact ih.cons.cons
    | exact ih
instance (ts : List Token) : GoodC (parseCommaRanges ts) ts := ⟨parseCommaRanges_good ts⟩

theorem parseExtendedMux_good (ts : List Token) : GoodR ts (parseExtendedMux ts) := by
  unfold parseExtendedMux
  good
instance (ts : List Token) : GoodC (parseExtendedMux ts) ts := ⟨parseExtendedMux_good ts⟩

/-! ## the top-level loop -/

theorem parseSection_good (hex : Bool) (k : KeywordKind) (fl : PFlags) (ast : File)
    (ts : List Token) : GoodR ts (parseSection hex k fl ast ts) := by
  cases k <;> (simp only [parseSection]; good)

theorem parseLoop_ne_fuel (hex : Bool) (n : Nat) : ∀ (fl : PFlags) (ast : File) (ts : List Token),
    ts.length < n → parseLoop hex n fl ast ts ≠ .error .fuel := by
  induction n with
  | zero => intro fl ast ts h; exact absurd h (Nat.not_lt_zero _)
  | succ n ih =>
    intro fl ast ts hlen
    cases ts with
    | nil => simp [parseLoop]
    | cons t ts' =>
      cases t with
      | keyword v =>
        have hsec := parseSection_good hex (getKeywordKind v) fl ast ts'
        show (match parseSection hex (getKeywordKind v) fl ast ts' with
          | Except.error e => Except.error e
          | Except.ok ((ast', fl'), ts') => parseLoop hex n fl' ast' ts') ≠ Except.error PErr.fuel
        cases he : parseSection hex (getKeywordKind v) fl ast ts' with
        | error e =>
          rw [he] at hsec
          intro h
          injection h with h
          exact hsec h
        | ok p =>
          obtain ⟨⟨ast'', fl''⟩, ts''⟩ := p
          rw [he] at hsec
          have hsuf : ts'' <:+ ts' := hsec
          apply ih
          have := hsuf.length_le
          simp only [List.length_cons] at hlen
          omega
      | _ => simp [parseLoop, perr]

/-- the fuel `length + 1` of `parseToks` never runs out -/
theorem parseToks_ne_fuel (hex : Bool) (ts : List Token) : parseToks hex ts ≠ .error .fuel :=
  parseLoop_ne_fuel hex _ _ _ ts (Nat.lt_succ_self _)

end Acme.Dbc
