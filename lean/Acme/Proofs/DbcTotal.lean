/-
C09 (parser part): the token-level parser is total — its structural fuel never runs out.

`GoodR ts r`: the parser result `r`, obtained on the input `ts`, is either `ok (x, ts')` with
`ts'` a suffix of `ts`, or an error other than `fuel`.  Every parser function is `GoodR`; the two
fuelled loops therefore never run out of fuel when started with `length + 1`.
-/
import Acme.Core.Dbc
import Acme.Core.DbcParse

set_option linter.unusedSimpArgs false
set_option linter.unusedVariables false

namespace Acme.Dbc
set_option profiler true
set_option profiler.threshold 300

/-- result with remaining tokens -/
def GoodR {α : Type} (ts : List Token) : PRes α → Prop
  | .ok (_, ts') => ts' <:+ ts
  | .error e => e ≠ .fuel

/-- result that is the remaining tokens -/
def GoodT (ts : List Token) : Except PErr (List Token) → Prop
  | .ok ts' => ts' <:+ ts
  | .error e => e ≠ .fuel

/-- plain result -/
def GoodV {α : Type} : Except PErr α → Prop
  | .ok _ => True
  | .error e => e ≠ .fuel

theorem GoodR.ok_self {α : Type} (x : α) (ts : List Token) : GoodR ts (.ok (x, ts)) :=
  List.suffix_refl ts

theorem GoodR.pure_self {α : Type} (x : α) (ts : List Token) :
    GoodR ts (pure (x, ts) : PRes α) := List.suffix_refl ts

theorem GoodR.perr {α : Type} (m : String) (ts : List Token) : GoodR ts (perr m : PRes α) := by
  simp [GoodR, Acme.Dbc.perr]

theorem GoodR.ok_tail {α : Type} (x : α) (t : Token) (ts : List Token) :
    GoodR (t :: ts) (.ok (x, ts)) := List.suffix_cons t ts

theorem GoodV.perr {α : Type} (m : String) : GoodV (perr m : Except PErr α) := by
  simp [GoodV, Acme.Dbc.perr]

theorem GoodT.perr (m : String) (ts : List Token) : GoodT ts (perr m) := by
  simp [GoodT, Acme.Dbc.perr]

theorem GoodR.mono {α : Type} {ts1 ts : List Token} {r : PRes α} (h : GoodR ts1 r)
    (hs : ts1 <:+ ts) : GoodR ts r := by
  cases r with
  | error e => exact h
  | ok p => exact List.IsSuffix.trans h hs

theorem GoodR.bind {α β : Type} {ts : List Token} {r : PRes α} {k : α × List Token → PRes β}
    (hr : GoodR ts r) (hk : ∀ a ts1, ts1 <:+ ts → GoodR ts1 (k (a, ts1))) :
    GoodR ts (r >>= k) := by
  cases r with
  | error e => exact hr
  | ok p =>
    obtain ⟨a, ts1⟩ := p
    exact (hk a ts1 hr).mono hr

theorem GoodT.bind {β : Type} {ts : List Token} {r : Except PErr (List Token)}
    {k : List Token → PRes β}
    (hr : GoodT ts r) (hk : ∀ ts1, ts1 <:+ ts → GoodR ts1 (k ts1)) : GoodR ts (r >>= k) := by
  cases r with
  | error e => exact hr
  | ok ts1 => exact (hk ts1 hr).mono hr

theorem GoodV.bind {α β : Type} {ts : List Token} {r : Except PErr α} {k : α → PRes β}
    (hr : GoodV r) (hk : ∀ a, GoodR ts (k a)) : GoodR ts (r >>= k) := by
  cases r with
  | error e => exact hr
  | ok a => exact hk a

/-- `match r with | .ok (x, r) => .ok (g x, r) | .error e => .error e` -/
theorem GoodR.map {α β : Type} {ts : List Token} {r : PRes α} (g : α → β) (hr : GoodR ts r) :
    GoodR ts (match r with
      | .ok (x, rest) => (.ok (g x, rest) : PRes β)
      | .error e => .error e) := by
  cases r with
  | error e => exact hr
  | ok p => exact hr

theorem GoodR.cons {α : Type} {t : Token} {ts : List Token} {r : PRes α} (h : GoodR ts r) :
    GoodR (t :: ts) r := h.mono (List.suffix_cons _ _)

/-! ## automation -/

/-- closes `GoodR/GoodT/GoodV` goals for the primitive at the head of a bind; extended below -/
syntax "good_prim" : tactic

macro_rules | `(tactic| good_prim) => `(tactic| fail "no Good lemma")

/-- walks through a `do` block -/
macro "good" : tactic => `(tactic| repeat' (first
  | exact GoodR.ok_self _ _
  | exact GoodR.pure_self _ _
  | exact GoodR.perr _ _
  | (refine GoodR.bind (by good_prim) ?_; intro _ _ _; try dsimp only)
  | (refine GoodT.bind (by good_prim) ?_; intro _ _; try dsimp only)
  | (refine GoodV.bind (by good_prim) ?_; intro _; try dsimp only)
  | split
  | refine GoodR.cons ?_))

/-! ## primitives -/

theorem expectPunct_good (k : PunctKind) (ts : List Token) : GoodT ts (expectPunct k ts) := by
  unfold expectPunct
  split
  · split
    · exact List.suffix_cons _ _
    · exact GoodT.perr _ _
  · exact GoodT.perr _ _
macro_rules | `(tactic| good_prim) => `(tactic| exact expectPunct_good _ _)

theorem scanNumber_good (m : String) (ts : List Token) : GoodR ts (scanNumber m ts) := by
  unfold scanNumber
  split
  · exact GoodR.ok_tail _ _ _
  · exact GoodR.perr _ _
macro_rules | `(tactic| good_prim) => `(tactic| exact scanNumber_good _ _)

theorem scanIdent_good (m : String) (ts : List Token) : GoodR ts (scanIdent m ts) := by
  unfold scanIdent
  split
  · exact GoodR.ok_tail _ _ _
  · exact GoodR.perr _ _
macro_rules | `(tactic| good_prim) => `(tactic| exact scanIdent_good _ _)

theorem scanString_good (m : String) (ts : List Token) : GoodR ts (scanString m ts) := by
  unfold scanString
  split
  · exact GoodR.ok_tail _ _ _
  · exact GoodR.perr _ _
macro_rules | `(tactic| good_prim) => `(tactic| exact scanString_good _ _)

theorem uintOf_good (m v : String) : GoodV (uintOf m v) := by
  unfold uintOf
  split
  · trivial
  · exact GoodV.perr _
macro_rules | `(tactic| good_prim) => `(tactic| exact uintOf_good _ _)

theorem intOf_good (m v : String) : GoodV (intOf m v) := by
  unfold intOf
  split
  · trivial
  · exact GoodV.perr _
macro_rules | `(tactic| good_prim) => `(tactic| exact intOf_good _ _)

theorem hexOf_good (hex : Bool) (m v : String) : GoodV (hexOf hex m v) := by
  unfold hexOf
  split
  · trivial
  · exact GoodV.perr _
macro_rules | `(tactic| good_prim) => `(tactic| exact hexOf_good _ _ _)

theorem doubleOf_good (m v : String) : GoodV (doubleOf m v) := by
  unfold doubleOf
  split
  · trivial
  · exact GoodV.perr _
macro_rules | `(tactic| good_prim) => `(tactic| exact doubleOf_good _ _)

theorem scanUint_good (m1 m2 : String) (ts : List Token) : GoodR ts (scanUint m1 m2 ts) := by
  unfold scanUint
  good
macro_rules | `(tactic| good_prim) => `(tactic| exact scanUint_good _ _ _)

theorem scanDouble_good (m1 m2 : String) (ts : List Token) : GoodR ts (scanDouble m1 m2 ts) := by
  unfold scanDouble
  good
macro_rules | `(tactic| good_prim) => `(tactic| exact scanDouble_good _ _ _)

theorem parseNodeName_good (ts : List Token) : GoodR ts (parseNodeName ts) := scanIdent_good _ _
macro_rules | `(tactic| good_prim) => `(tactic| exact parseNodeName_good _)
theorem parseSignalName_good (ts : List Token) : GoodR ts (parseSignalName ts) := scanIdent_good _ _
macro_rules | `(tactic| good_prim) => `(tactic| exact parseSignalName_good _)
theorem parseEnvVarName_good (ts : List Token) : GoodR ts (parseEnvVarName ts) := scanIdent_good _ _
macro_rules | `(tactic| good_prim) => `(tactic| exact parseEnvVarName_good _)
theorem parseMessageID_good (ts : List Token) : GoodR ts (parseMessageID ts) := scanUint_good _ _ _
macro_rules | `(tactic| good_prim) => `(tactic| exact parseMessageID_good _)

/-! ## loops over simple tokens -/

theorem parseIdents_suffix (ts : List Token) : (parseIdents ts).2 <:+ ts := by
  fun_induction parseIdents ts with
  | case1 v ts r ih => exact List.IsSuffix.trans ih (List.suffix_cons _ _)
  | case2 ts h => exact List.suffix_refl _

theorem parseCommaIdents_good (m : String) (ts : List Token) :
    GoodR ts (parseCommaIdents m ts) := by
  fun_induction parseCommaIdents m ts <;>
    first
    | exact GoodR.ok_self _ _
    | exact GoodR.perr _ _
    | skip
  all_goals
    rename_i ih
    simp only [*] at ih ⊢
    first
    | exact ih.cons.cons
    | exact ih
macro_rules | `(tactic| good_prim) => `(tactic| exact parseCommaIdents_good _ _)

theorem parseCommaStrings_good (m : String) (ts : List Token) :
    GoodR ts (parseCommaStrings m ts) := by
  fun_induction parseCommaStrings m ts <;>
    first
    | exact GoodR.ok_self _ _
    | exact GoodR.perr _ _
    | skip
  all_goals
    rename_i ih
    simp only [*] at ih ⊢
    first
    | exact ih.cons.cons
    | exact ih
macro_rules | `(tactic| good_prim) => `(tactic| exact parseCommaStrings_good _ _)

/-! ## sections -/

theorem parseVersion_good (fl : PFlags) (ts : List Token) : GoodR ts (parseVersion fl ts) := by
  unfold parseVersion
  split
  · exact GoodR.perr _ _
  · split
    · exact GoodR.ok_tail _ _ _
    · exact GoodR.perr _ _
macro_rules | `(tactic| good_prim) => `(tactic| exact parseVersion_good _ _)

theorem parseNewSymbolsLoop_good (ts : List Token) : GoodR ts (parseNewSymbolsLoop ts) := by
  fun_induction parseNewSymbolsLoop ts <;>
    first
    | exact GoodR.ok_self _ _
    | exact GoodR.ok_tail _ _ _
    | exact GoodR.perr _ _
    | skip
  all_goals
    rename_i ih
    try simp only [*] at ih ⊢
    first
    | exact ih.cons
    | exact ih
macro_rules | `(tactic| good_prim) => `(tactic| exact parseNewSymbolsLoop_good _)

theorem parseNewSymbols_good (fl : PFlags) (ts : List Token) :
    GoodR ts (parseNewSymbols fl ts) := by
  unfold parseNewSymbols
  good
macro_rules | `(tactic| good_prim) => `(tactic| exact parseNewSymbols_good _ _)

theorem parseBitTiming_good (fl : PFlags) (ts : List Token) : GoodR ts (parseBitTiming fl ts) := by
  unfold parseBitTiming
  good
macro_rules | `(tactic| good_prim) => `(tactic| exact parseBitTiming_good _ _)

theorem GoodR.ok_suffix {α : Type} (x : α) {ts' ts : List Token} (h : ts' <:+ ts) :
    GoodR ts (.ok (x, ts')) := h

theorem parseNodes_good (fl : PFlags) (ts : List Token) : GoodR ts (parseNodes fl ts) := by
  unfold parseNodes
  split
  · exact GoodR.perr _ _
  · refine GoodT.bind (expectPunct_good _ _) ?_
    intro ts1 _
    exact GoodR.ok_suffix _ (parseIdents_suffix ts1)
macro_rules | `(tactic| good_prim) => `(tactic| exact parseNodes_good _ _)

theorem parseValueDescriptions_good (ts : List Token) : GoodR ts (parseValueDescriptions ts) := by
  fun_induction parseValueDescriptions ts <;>
    first
    | exact GoodR.ok_self _ _
    | exact GoodR.perr _ _
    | skip
  all_goals
    rename_i ih
    simp only [*] at ih ⊢
    first
    | exact ih.cons.cons
    | exact ih
macro_rules | `(tactic| good_prim) => `(tactic| exact parseValueDescriptions_good _)

theorem parseValueTable_good (ts : List Token) : GoodR ts (parseValueTable ts) := by
  unfold parseValueTable
  good
macro_rules | `(tactic| good_prim) => `(tactic| exact parseValueTable_good _)

theorem parseMuxIndicator_good (v : String) : GoodV (parseMuxIndicator v) := by
  unfold parseMuxIndicator
  simp only
  split
  · exact GoodV.perr _
  · split
    · trivial
    · exact GoodV.perr _
  · trivial

theorem parseOptMux_good (ts : List Token) : GoodR ts (parseOptMux ts) := by
  unfold parseOptMux
  split
  · rename_i v ts'
    have := parseMuxIndicator_good v
    split
    · exact GoodR.ok_tail _ _ _
    · rename_i e he
      rw [he] at this
      exact this
  · exact GoodR.ok_self _ _
macro_rules | `(tactic| good_prim) => `(tactic| exact parseOptMux_good _)

theorem parseByteOrder_good (ts : List Token) : GoodR ts (parseByteOrder ts) := by
  unfold parseByteOrder
  good
macro_rules | `(tactic| good_prim) => `(tactic| exact parseByteOrder_good _)

theorem parseValueType_good (ts : List Token) : GoodR ts (parseValueType ts) := by
  unfold parseValueType
  split
  · split
    · exact GoodR.ok_tail _ _ _
    · exact GoodR.perr _ _
  · exact GoodR.perr _ _
macro_rules | `(tactic| good_prim) => `(tactic| exact parseValueType_good _)

theorem parseScaling_good (ts : List Token) : GoodR ts (parseScaling ts) := by
  unfold parseScaling
  good
macro_rules | `(tactic| good_prim) => `(tactic| exact parseScaling_good _)

theorem parseSignal_good (ts : List Token) : GoodR ts (parseSignal ts) := by
  unfold parseSignal
  good
macro_rules | `(tactic| good_prim) => `(tactic| exact parseSignal_good _)

theorem parseSignals_good (n : Nat) : ∀ ts : List Token, ts.length < n →
    GoodR ts (parseSignals n ts) := by
  induction n with
  | zero => intro ts h; exact absurd h (Nat.not_lt_zero _)
  | succ n ih =>
    intro ts hlen
    unfold parseSignals
    split
    · contradiction
    · rename_i n' v ts' heq
      have hn : n' = n := by omega
      subst hn
      split
      · have hsig := parseSignal_good ts'
        split
        · rename_i e he
          rw [he] at hsig
          exact hsig
        · rename_i sig ts'' he
          rw [he] at hsig
          have hsuf : ts'' <:+ ts' := hsig
          have hlen' : ts''.length < n' := by
            have := hsuf.length_le
            simp only [List.length_cons] at hlen
            omega
          have hrec := ih ts'' hlen'
          have : GoodR (Token.keyword v :: ts') (parseSignals n' ts'') :=
            (hrec.mono hsuf).cons
          split
          · rename_i sigs r hr
            rw [hr] at this
            exact this
          · rename_i e hr
            rw [hr] at this
            exact this
      · exact GoodR.ok_self _ _
    · exact GoodR.ok_self _ _

theorem parseSignals_good' (ts : List Token) : GoodR ts (parseSignals (ts.length + 1) ts) :=
  parseSignals_good _ ts (Nat.lt_succ_self _)
macro_rules | `(tactic| good_prim) => `(tactic| exact parseSignals_good' _)

theorem parseMessage_good (ts : List Token) : GoodR ts (parseMessage ts) := by
  unfold parseMessage
  good
macro_rules | `(tactic| good_prim) => `(tactic| exact parseMessage_good _)

theorem parseMessageTransmitter_good (ts : List Token) :
    GoodR ts (parseMessageTransmitter ts) := by
  unfold parseMessageTransmitter
  refine GoodR.bind (parseMessageID_good _) ?_
  intro id ts1 _
  refine GoodT.bind (expectPunct_good _ _) ?_
  intro ts2 _
  dsimp only
  refine GoodR.mono ?_ (parseIdents_suffix ts2)
  good
macro_rules | `(tactic| good_prim) => `(tactic| exact parseMessageTransmitter_good _)

theorem parseEnvVar_good (ts : List Token) : GoodR ts (parseEnvVar ts) := by
  unfold parseEnvVar
  good
macro_rules | `(tactic| good_prim) => `(tactic| exact parseEnvVar_good _)

theorem parseEnvVarData_good (ts : List Token) : GoodR ts (parseEnvVarData ts) := by
  unfold parseEnvVarData
  good
macro_rules | `(tactic| good_prim) => `(tactic| exact parseEnvVarData_good _)

theorem parseSignalTypeDef_good (ts : List Token) : GoodR ts (parseSignalTypeDef ts) := by
  unfold parseSignalTypeDef
  good
macro_rules | `(tactic| good_prim) => `(tactic| exact parseSignalTypeDef_good _)

theorem parseSignalTypeRef_good (ts : List Token) : GoodR ts (parseSignalTypeRef ts) := by
  unfold parseSignalTypeRef
  good
macro_rules | `(tactic| good_prim) => `(tactic| exact parseSignalTypeRef_good _)

theorem parseSignalType_good (ts : List Token) : GoodR ts (parseSignalType ts) := by
  unfold parseSignalType
  split
  · rename_i v tl
    have h := parseSignalTypeDef_good (Token.ident v :: tl)
    split <;> rename_i he <;> rw [he] at h <;> exact h
  · rename_i v tl
    have h := parseSignalTypeRef_good (Token.number v :: tl)
    split <;> rename_i he <;> rw [he] at h <;> exact h
  · exact GoodR.perr _ _
macro_rules | `(tactic| good_prim) => `(tactic| exact parseSignalType_good _)

end Acme.Dbc
