/-
Lemma for Props/C13Geom: a message of the saved tree that lists one signal id twice is refused by
`loadFull` — the structural loader gives both entries the position of the id (the payload map),
the layout cannot hold two signals at one position.
-/
import Acme.Proofs.LoadGeom

namespace Acme.LoadGeom
open Acme.Save Acme.Layout

theorem loadSig_id (T : Tbl) (o : Owner) (sn sn' : Seen) (p : PSig) (s : Sig)
    (h : loadSig T o sn p = .ok (s, sn')) : s.id = p.id := by
  cases p with
  | mk e asg kind body =>
    simp only [loadSig] at h
    split at h
    · cases h
    · split at h
      · cases h
      · split at h
        · cases h
        · injection h with h; injection h with h1 h2; subst h1; rfl

def posOf (refs : List (Id × Nat)) (id : Id) : Nat := (lookupLast refs id).getD 0

theorem loadTop_shape (T : Tbl) (refs : List (Id × Nat)) (o : Owner) : ∀ (l : List PSig) (sn sn' : Seen)
    (ss : List (Sig × Nat)), loadTop T refs o sn l = .ok (ss, sn') →
    ss.map (fun x => (x.1.id, x.2)) = l.map (fun q => (q.id, posOf refs q.id))
  | [], _, _, ss, h => by
    simp only [loadTop] at h
    injection h with h; injection h with h1 h2; subst h1; rfl
  | p :: rest, sn, sn', ss, h => by
    simp only [loadTop] at h
    split at h
    · cases h
    · rename_i s sn1 hs
      split at h
      · cases h
      · rename_i pos hpos
        split at h
        · cases h
        · rename_i ss' sn2 hss
          injection h with h; injection h with h1 h2; subst h1
          simp only [List.map_cons, loadTop_shape T refs o rest sn1 sn2 ss' hss, loadSig_id T o sn sn1 p s hs,
            posOf, hpos, Option.getD_some]

theorem loadMsg_shape (T : Tbl) (st st' : St) (p : PMsg) (m : Msg) (h : loadMsg T st p = .ok (m, st')) :
    m.sigs.map (fun x => (x.1.id, x.2)) = p.sigs.map (fun q => (q.id, posOf p.refs q.id)) := by
  simp only [loadMsg] at h
  split at h
  · cases h
  · split at h
    · cases h
    · rename_i sigs sn hs
      split at h
      · cases h
      · split at h
        · cases h
        · injection h with h; injection h with h1 h2; subst h1
          exact loadTop_shape T p.refs _ p.sigs _ _ sigs hs

theorem loadMsgs_mem (T : Tbl) (key : Id × Nat) : ∀ (l : List PMsg) (st : St) (ms : List Msg) (st' : St),
    loadMsgs T key st l = .ok (ms, st') → ∀ pm ∈ l, ∃ m ∈ ms, ∃ s s', loadMsg T s pm = .ok (m, s')
  | [], _, _, _, _, pm, hpm => by cases hpm
  | p :: r, st, ms, st', h, pm, hpm => by
    simp only [loadMsgs] at h
    split at h
    · cases h
    · rename_i m st1 hm
      split at h
      · cases h
      · split at h
        · cases h
        · split at h
          · cases h
          · rename_i ms' st2 hr
            injection h with h; injection h with h1 h2; subst h1
            rcases List.mem_cons.1 hpm with rfl | hpm
            · exact ⟨m, List.mem_cons_self .., st, st1, hm⟩
            · obtain ⟨m', hm', x⟩ := loadMsgs_mem T key r _ ms' st2 hr pm hpm
              exact ⟨m', List.mem_cons_of_mem _ hm', x⟩

theorem loadIface_mem (T : Tbl) (st : St) (p : PIface) (i : Iface) (st' : St) (h : loadIface T st p = .ok (i, st')) :
    ∀ pm ∈ p.msgs, ∃ m ∈ i.msgs, ∃ s s', loadMsg T s pm = .ok (m, s') := by
  simp only [loadIface] at h
  split at h
  · cases h
  · split at h
    · cases h
    · split at h
      · cases h
      · split at h
        · cases h
        · split at h
          · cases h
          · rename_i ms st1 hms
            injection h with h; injection h with h1 h2; subst h1
            exact loadMsgs_mem T _ p.msgs st ms st1 hms

theorem loadIfaces_mem (T : Tbl) : ∀ (l : List PIface) (st : St) (is : List Iface) (st' : St),
    loadIfaces T st l = .ok (is, st') → ∀ f ∈ l, ∃ i ∈ is, ∃ s s', loadIface T s f = .ok (i, s')
  | [], _, _, _, _, f, hf => by cases hf
  | p :: r, st, is, st', h, f, hf => by
    simp only [loadIfaces] at h
    split at h
    · cases h
    · rename_i i st1 hi
      split at h
      · cases h
      · rename_i is' st2 hr
        injection h with h; injection h with h1 h2; subst h1
        rcases List.mem_cons.1 hf with rfl | hf
        · exact ⟨i, List.mem_cons_self .., st, st1, hi⟩
        · obtain ⟨i', hi', x⟩ := loadIfaces_mem T r _ is' st2 hr f hf
          exact ⟨i', List.mem_cons_of_mem _ hi', x⟩

theorem loadBus_mem (T : Tbl) (st : St) (p : PBus) (b : Bus) (st' : St) (h : loadBus T st p = .ok (b, st')) :
    ∀ f ∈ p.ifaces, ∃ i ∈ b.ifaces, ∃ s s', loadIface T s f = .ok (i, s') := by
  simp only [loadBus] at h
  split at h
  · cases h
  · split at h
    · cases h
    · rename_i is st1 his
      split at h
      · cases h
      · injection h with h; injection h with h1 h2; subst h1
        exact loadIfaces_mem T p.ifaces st is st1 his

theorem loadBuses_mem (T : Tbl) : ∀ (l : List PBus) (st : St) (seen : List Id) (bs : List Bus),
    loadBuses T st seen l = .ok bs → ∀ pb ∈ l, ∃ b ∈ bs, ∃ s s', loadBus T s pb = .ok (b, s')
  | [], _, _, _, _, pb, hpb => by cases hpb
  | p :: r, st, seen, bs, h, pb, hpb => by
    simp only [loadBuses] at h
    split at h
    · cases h
    · rename_i b st1 hb
      split at h
      · cases h
      · split at h
        · cases h
        · rename_i bs' hr
          injection h with h; subst h
          rcases List.mem_cons.1 hpb with rfl | hpb
          · exact ⟨b, List.mem_cons_self .., st, st1, hb⟩
          · obtain ⟨b', hb', x⟩ := loadBuses_mem T r _ _ bs' hr pb hpb
            exact ⟨b', List.mem_cons_of_mem _ hb', x⟩

/-- every message of the saved tree has its loaded counterpart among the messages of the network -/
theorem load_msg_mem (p : PNet) (n : Net) (h : load p = .ok n)
    (b : PBus) (hb : b ∈ p.buses) (f : PIface) (hf : f ∈ b.ifaces) (pm : PMsg) (hpm : pm ∈ f.msgs) :
    ∃ m ∈ allMsgs n, ∃ s s', loadMsg n.t s pm = .ok (m, s') := by
  simp only [load] at h
  split at h
  · cases h
  · split at h
    · cases h
    · split at h
      · cases h
      · rename_i buses hbs
        injection h with h; subst h
        obtain ⟨b', hb', s1, s1', h1⟩ := loadBuses_mem _ p.buses _ _ buses hbs b hb
        obtain ⟨i', hi', s2, s2', h2⟩ := loadBus_mem _ s1 b b' s1' h1 f hf
        obtain ⟨m, hm, s3, s3', h3⟩ := loadIface_mem _ s2 f i' s2' h2 pm hpm
        refine ⟨m, ?_, s3, s3', h3⟩
        simp only [allMsgs, List.mem_flatMap]
        exact ⟨b', hb', i', hi', hm⟩

theorem loadFull_dup (z : Sizes) (p : PNet)
    (b : PBus) (hb : b ∈ p.buses) (f : PIface) (hf : f ∈ b.ifaces) (pm : PMsg) (hpm : pm ∈ f.msgs)
    (i j : Nat) (hi : i < pm.sigs.length) (hj : j < pm.sigs.length) (hij : i ≠ j)
    (hid : pm.sigs[i].id = pm.sigs[j].id) :
    ∃ e, loadFull z p = .error e := by
  cases hl : load p with
  | error e => exact ⟨.struct e, by unfold loadFull; simp only [hl]⟩
  | ok n =>
    rcases loadFull_cases z p n hl with ⟨e, he⟩ | ⟨g, _, hg⟩
    · exact ⟨_, he⟩
    · exfalso
      obtain ⟨m, hm, s, s', hms⟩ := load_msg_mem p n hl b hb f hf pm hpm
      have sh := loadMsg_shape n.t s s' pm m hms
      have hlen : m.sigs.length = pm.sigs.length := by
        have := congrArg List.length sh
        simpa using this
      have hi' : i < m.sigs.length := by omega
      have hj' : j < m.sigs.length := by omega
      have e1 : (m.sigs[i].1.id, m.sigs[i].2) = (pm.sigs[i].id, posOf pm.refs pm.sigs[i].id) := by
        have := congrArg (fun l => l[i]?) sh
        simpa [hi', hi] using this
      have e2 : (m.sigs[j].1.id, m.sigs[j].2) = (pm.sigs[j].id, posOf pm.refs pm.sigs[j].id) := by
        have := congrArg (fun l => l[j]?) sh
        simpa [hj', hj] using this
      have hpos : m.sigs[i].2 = m.sigs[j].2 := by
        have a := congrArg Prod.snd e1
        have c := congrArg Prod.snd e2
        simp only at a c
        rw [a, c, hid]
      obtain ⟨hn, hall⟩ := loadGeom_ok hg
      obtain ⟨gm, _, hgm⟩ := forall₂_mem hall m hm
      obtain ⟨⟨w, _⟩, _, _, sl⟩ := msgGeom_wf z n.t m gm hgm
      have d := WFfrom_disjoint w _ (sl i hi') _ (sl j hj') (by intro h; injection h with h; exact hij h)
      have p1 := WFfrom_mem w _ (sl i hi')
      have p2 := WFfrom_mem w _ (sl j hj')
      simp only at d p1 p2
      rw [hpos] at d p1
      omega

end Acme.LoadGeom
