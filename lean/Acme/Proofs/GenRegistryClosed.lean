/-
Translator stage 13: the heap-closure hypothesis `Closed g` of the model equalities follows from
the model's own invariant `Inv g` (clauses used: NodeI.node_exists / ifaces_node, SentI.sent_nodup /
sent_get, RecvI.recv_nodup / recv_val / recv_get, BusI.ints_nodup / ints_get, NetI.buses_get).
-/
import Acme.Proofs.GenRegistry

namespace Acme.GenR
open Acme Acme.Graph Acme.RegSem Acme.Gen

theorem ifaceNode_of_get {g : G} {i : Nat} {ifc : IfaceE} (h : g.ifaces.get i = some ifc) :
    ifaceNode g.ifaces i = some ifc.node := by simp [ifaceNode, h]

theorem get_of_ifaceNode {I : AMap IfaceE} {i n : Nat} (h : ifaceNode I i = some n) : I.get i ≠ none := by
  unfold ifaceNode at h
  cases hi : I.get i with
  | none => simp [hi] at h
  | some e => simp

theorem closed_of_inv {g : G} (inv : Inv g) : Closed g where
  node := by
    intro i ifc hi
    exact inv.node.node_exists i ifc.node (ifaceNode_of_get hi)
  sent := by
    intro i ifc hi m hm
    have hnd : (ifaceSent g.ifaces i).keys.Nodup := inv.sent.sent_nodup i
    have hs : ifaceSent g.ifaces i = ifc.sent := by simp [ifaceSent, hi]
    rw [hs] at hnd
    obtain ⟨k, hk⟩ := (Reg.mem_vals hnd m).1 hm
    have := (inv.sent.sent_get i k m).1 (by rw [hs]; exact hk)
    obtain ⟨rfl, hsend⟩ := this
    unfold msgSender at hsend
    cases hm' : g.msgs.get m with
    | none => simp [hm'] at hsend
    | some e => simp
  recv := by
    intro i ifc hi m hm
    have hnd : (ifaceRecv g.ifaces i).keys.Nodup := inv.recv.recv_nodup i
    have hs : ifaceRecv g.ifaces i = ifc.received := by simp [ifaceRecv, hi]
    rw [hs] at hnd
    obtain ⟨k, hk⟩ := (Reg.mem_vals hnd m).1 hm
    have hv : m = k := inv.recv.recv_val i k m (by rw [hs]; exact hk)
    subst hv
    have := (inv.recv.recv_get i ifc.node m (ifaceNode_of_get hi)).1 (by rw [hs]; exact hk)
    unfold msgReceivers at this
    cases hm' : g.msgs.get m with
    | none => simp [hm'] at this
    | some e => simp
  ints := by
    intro b bus hb i hi
    have hnd : (busNodeInts g.buses b).keys.Nodup := inv.bus.ints_nodup b
    have hs : busNodeInts g.buses b = bus.nodeInts := by simp [busNodeInts, hb]
    rw [hs] at hnd
    obtain ⟨k, hk⟩ := (Reg.mem_vals hnd i).1 hi
    have := (inv.bus.ints_get b k i).1 (by rw [hs]; exact hk)
    exact get_of_ifaceNode this.1
  nifs := by
    intro n nd hn i hi
    have : i ∈ nodeIfaces g.nodes n := by simp [nodeIfaces, hn, hi]
    exact get_of_ifaceNode (inv.node.ifaces_node n i this)
  pbus := by
    intro i ifc b hi hp
    have h1 : ifaceBus g.ifaces i = some b := by simp [ifaceBus, hi, hp]
    have := (inv.bus.ints_get b ifc.node i).2 ⟨ifaceNode_of_get hi, h1⟩
    unfold busNodeInts at this
    cases hb : g.buses.get b with
    | none => simp [hb] at this
    | some e => simp
  pnet := by
    intro b bus n hb hp
    have h1 : busParent g.buses b = some n := by simp [busParent, hb, hp]
    have := (inv.net.buses_get n b b).2 ⟨rfl, h1⟩
    unfold netBuses at this
    cases hn : g.nets.get n with
    | none => simp [hn] at this
    | some e => simp

end Acme.GenR
