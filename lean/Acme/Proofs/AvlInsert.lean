/-
`insertNode` preserves the invariant and adds exactly one element (C19).
-/
import Acme.Proofs.AvlBasic

namespace Acme.Avl
open Tree

theorem perm_middle_cons {α : Type} (L R : List α) (n a : α) :
    (L ++ n :: a :: R).Perm (a :: (L ++ n :: R)) := by
  have := @List.perm_middle _ a (L ++ [n]) R
  simpa using this

theorem insertNode_spec (t : Tree) (lo hi : Int)
    (hb : IsBst t) (hh : HeightOK t) (hbal : Balanced t) (hm : MaxOK t) :
    ∃ t', insertNode t lo hi = some t' ∧ IsBst t' ∧ HeightOK t' ∧ Balanced t' ∧ MaxOK t' ∧
      (inorder t').Perm ((lo, hi) :: inorder t) ∧
      realHeight t ≤ realHeight t' ∧ realHeight t' ≤ realHeight t + 1 := by
  induction t with
  | nil =>
    refine ⟨node nil lo hi hi 1 nil, rfl, ?_, ?_, ?_, ?_, ?_, ?_, ?_⟩
    · simp [IsBst, inorder]
    · simp [HeightOK, realHeight]
    · simp [Balanced, realHeight]
    · simp [MaxOK, realMax]
    · simp [inorder]
    · simp [realHeight]
    · simp [realHeight]
  | node l nlo nhi mx h r ihl ihr =>
    obtain ⟨hbl, hbr, hbL, hbR⟩ := hb
    obtain ⟨hhl, hhr, _⟩ := hh
    obtain ⟨hball, hbalr, hd1, hd2⟩ := hbal
    obtain ⟨hml, hmr, _⟩ := hm
    by_cases hlt : lessThan lo hi nlo nhi = true
    · obtain ⟨l', e1, hbl', hhl', hball', hml', hp, hlo, hup⟩ := ihl hbl hhl hball hml
      obtain ⟨t', e2, hin, hht', hbalt', hmt', b1, b2, b3⟩ :=
        rebalance_mk_spec nlo nhi hhl' hhr hball' hbalr hml' hmr (by omega) (by omega)
      refine ⟨t', ?_, ?_, hht', hbalt', hmt', ?_, ?_, ?_⟩
      · simp [insertNode, hlt, e1, e2]
      · refine isBst_of_inorder_eq (t := mk l' nlo nhi r) (by simpa using hin)
          ⟨hbl', hbr, ?_, hbR⟩
        intro x hx
        rcases List.mem_cons.1 (hp.mem_iff.1 hx) with rfl | hx
        · exact le2_of_lessThan hlt
        · exact hbL x hx
      · rw [hin]
        exact hp.append_right _
      · simp only [realHeight]; omega
      · simp only [realHeight]; omega
    · obtain ⟨r', e1, hbr', hhr', hbalr', hmr', hp, hlo, hup⟩ := ihr hbr hhr hbalr hmr
      obtain ⟨t', e2, hin, hht', hbalt', hmt', b1, b2, b3⟩ :=
        rebalance_mk_spec nlo nhi hhl hhr' hball hbalr' hml hmr' (by omega) (by omega)
      refine ⟨t', ?_, ?_, hht', hbalt', hmt', ?_, ?_, ?_⟩
      · simp [insertNode, hlt, e1, e2]
      · refine isBst_of_inorder_eq (t := mk l nlo nhi r') (by simpa using hin)
          ⟨hbl, hbr', hbL, ?_⟩
        intro x hx
        rcases List.mem_cons.1 (hp.mem_iff.1 hx) with rfl | hx
        · exact le2_of_not_lessThan hlt
        · exact hbR x hx
      · rw [hin]
        exact ((hp.cons _).append_left _).trans (perm_middle_cons _ _ _ _)
      · simp only [realHeight]; omega
      · simp only [realHeight]; omega

end Acme.Avl
