/-
Bus-level importer model, part 3: `importMessage`, `importMessages`, and the decomposition of an
accepted `importBus`.
Core Lean only.
-/
import Acme.Proofs.ImportBusSig

namespace Acme.ImportBus
open Acme.Arith
open Acme.Import (sortBy insBy)

theorem All2.imp_mem {α β : Type} {R R' : α → β → Prop} {l : List α} {l' : List β}
    (h : All2 R l l') (himp : ∀ a b, a ∈ l → b ∈ l' → R a b → R' a b) : All2 R' l l' := by
  induction h with
  | nil => exact .nil
  | cons hr _ ih =>
    refine .cons (himp _ _ (List.mem_cons_self ..) (List.mem_cons_self ..) hr) (ih ?_)
    intro a b ha hb
    exact himp a b (List.mem_cons_of_mem _ ha) (List.mem_cons_of_mem _ hb)

theorem firstLoop_spec {cap : Nat} : ∀ (l : List DSignal) {seen : List String},
    firstLoop cap seen l = .ok () → (l.map (·.name)).Nodup ∧ ∀ s ∈ l, s.name ∉ seen
  | [], _, _ => by simp
  | s :: r, seen, h => by
    unfold firstLoop at h
    split at h
    · cases h
    · rename_i hc
      split at h
      · cases h
      · obtain ⟨hnd, hns⟩ := firstLoop_spec r h
        have hs : s.name ∉ seen := fun hm => hc (List.contains_iff_mem.mpr hm)
        refine ⟨?_, ?_⟩
        · rw [List.map_cons, List.nodup_cons]
          refine ⟨?_, hnd⟩
          intro hm
          obtain ⟨x, hx, hxn⟩ := List.mem_map.mp hm
          exact hns x hx (by rw [hxn]; exact List.mem_cons_self ..)
        · intro x hx
          rcases List.mem_cons.mp hx with rfl | hx
          · exact hs
          · intro hm
            exact hns x hx (List.mem_cons_of_mem _ hm)

/-- what `importMessage` establishes for one message -/
def MsgOK (nn : List String) (cs : List DComment) (st : St) (m : DMessage) (im : IMessage) : Prop :=
  im.id = m.id ∧ im.name = m.name ∧ im.size = m.size ∧ im.sender = m.transmitter ∧
  im.desc = descOf (selMsg m.id) cs ∧ im.receivers = receiversOf (sortedSigs m) ∧
  (∀ r ∈ im.receivers, r ∈ nn) ∧ (m.transmitter = placeholder ∨ m.transmitter ∈ nn) ∧
  m.transmitter ∉ im.receivers ∧ m.size ≤ 8 ∧ ((sortedSigs m).map (·.name)).Nodup ∧
  All2 (SigOK cs m.id st) (sortedSigs m) im.sigs

theorem MsgOK.mono {nn : List String} {cs : List DComment} {st st' : St} {m : DMessage} {im : IMessage}
    (hle : StLe st st') (h : MsgOK nn cs st m im) : MsgOK nn cs st' m im := by
  obtain ⟨h1, h2, h3, h4, h5, h6, h7, h8, h9, h10, h11, h12⟩ := h
  exact ⟨h1, h2, h3, h4, h5, h6, h7, h8, h9, h10, h11, h12.imp (fun _ _ hs => hs.mono hle)⟩

theorem importMessage_spec {nn : List String} {cs : List DComment} {st st' : St} {done : List IMessage}
    {m : DMessage} {im : IMessage} (hw : WF st) (h : importMessage nn cs st done m = .ok (st', im)) :
    WF st' ∧ StLe st st' ∧ MsgOK nn cs st' m im ∧ ∀ d ∈ done, d.id ≠ m.id := by
  unfold importMessage at h
  simp only at h
  split at h
  · cases h
  · rename_i hfirst
    split at h
    · cases h
    · rename_i hrecv
      split at h
      · cases h
      · rename_i htx
        split at h
        · cases h
        · rename_i hris
          split at h
          · cases h
          · split at h
            · cases h
            · rename_i hsize
              split at h
              · cases h
              · rename_i hid
                split at h
                · cases h
                · rename_i st1 isigs hsigs
                  cases h
                  obtain ⟨hw1, hle1, hall⟩ := importSignals_spec _ hw hsigs
                  obtain ⟨hnd, _⟩ := firstLoop_spec _ hfirst
                  refine ⟨hw1, hle1, ⟨rfl, rfl, rfl, rfl, rfl, rfl, ?_, ?_, ?_, ?_, hnd, hall⟩, ?_⟩
                  · intro r hr
                    simp only [List.any_eq_true, Bool.not_eq_eq_eq_not, Bool.not_true, not_exists, not_and,
                      Bool.not_eq_false] at hrecv
                    exact List.contains_iff_mem.mp (hrecv r hr)
                  · by_cases hp : m.transmitter = placeholder
                    · exact Or.inl hp
                    · right
                      simp only [hp, ne_eq, not_false_eq_true, true_and, Bool.not_eq_eq_eq_not, Bool.not_true,
                        Bool.not_eq_false] at htx
                      exact List.contains_iff_mem.mp htx
                  · intro hm
                    exact hris (List.contains_iff_mem.mpr hm)
                  · exact Nat.le_of_not_lt hsize
                  · intro d hd heq
                    apply hid
                    simp only [List.any_eq_true, decide_eq_true_eq]
                    exact ⟨d, hd, heq⟩

theorem importMessages_spec {nn : List String} {cs : List DComment} : ∀ (l : List DMessage) {st st' : St}
    {done out : List IMessage}, WF st → (done.map (·.id)).Nodup →
    importMessages nn cs st done l = .ok (st', out) →
    WF st' ∧ StLe st st' ∧ ∃ new, out = done ++ new ∧ All2 (MsgOK nn cs st') l new ∧ (out.map (·.id)).Nodup
  | [], st, st', done, out, hw, hnd, h => by
    unfold importMessages at h
    cases h
    exact ⟨hw, StLe.refl _, [], by simp, .nil, hnd⟩
  | m :: r, st, st', done, out, hw, hnd, h => by
    unfold importMessages at h
    split at h
    · cases h
    · rename_i st1 im h1
      obtain ⟨hw1, hle1, hmsg, hids⟩ := importMessage_spec hw h1
      have hnd1 : ((done ++ [im]).map (·.id)).Nodup := by
        rw [List.map_append, List.nodup_append]
        refine ⟨hnd, by simp, ?_⟩
        intro a ha b hb
        simp only [List.map_cons, List.map_nil, List.mem_singleton] at hb
        subst hb
        obtain ⟨d, hd, rfl⟩ := List.mem_map.mp ha
        rw [hmsg.1]
        exact hids d hd
      obtain ⟨hw2, hle2, new, hout, hall, hnd2⟩ := importMessages_spec r hw1 hnd1 h
      refine ⟨hw2, hle1.trans hle2, im :: new, by rw [hout]; simp, .cons (hmsg.mono hle2) hall, hnd2⟩

/-! ### an accepted import, taken apart -/

theorem importBus_ok {f : DFile} {b : IBus} (h : importBus f = .ok b) :
    ∃ reg enums se ns st,
      importEncs reg reg [] f.encs = .ok (enums, se) ∧
      importNodes f.comments f.nodes = .ok ns ∧
      importMessages (ns.map (·.name)) f.comments (initSt enums se) [] f.msgs = .ok (st, b.msgs) ∧
      b.desc = descOf selGeneral f.comments ∧
      b.nodes = finalNodes ns (b.msgs.any (fun m => m.sender = placeholder)) ∧
      b.types = st.types.map (·.2) ∧ b.units = st.units ∧ b.enums = st.enums := by
  unfold importBus at h
  split at h
  · cases h
  · rename_i reg _
    split at h
    · cases h
    · rename_i enums se h2
      split at h
      · cases h
      · rename_i ns h3
        split at h
        · cases h
        · rename_i st msgs h4
          cases h
          exact ⟨reg, enums, se, ns, st, h2, h3, h4, rfl, rfl, rfl, rfl, rfl⟩

/-! ### the fields of the expected type -/

theorem isFlag_fields {d : DSignal} (h : isFlag d = true) :
    d.size = 1 ∧ d.signed = false ∧ d.factor = 1 ∧ d.offset = 0 ∧ d.min = 0 ∧ d.max = 1 := by
  simpa [isFlag] using h

theorem expType_fields (d : DSignal) :
    (expType d).kind = kindSel d ∧ (expType d).size = d.size ∧ (expType d).signed = d.signed ∧
    (expType d).min = d.min ∧ (expType d).max = d.max ∧ (expType d).scale = d.factor ∧
    (expType d).offset = d.offset := by
  by_cases hf : isFlag d = true
  · obtain ⟨h1, h2, h3, h4, h5, h6⟩ := isFlag_fields hf
    simp [expType, kindSel, hf, flagType, h1, h2, h3, h4, h5, h6]
  · simp [expType, kindSel, hf, typeOf, typeOfKey, kindOfKey, keyOf]

end Acme.ImportBus
