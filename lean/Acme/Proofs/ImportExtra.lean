/-
Message-level model, extras: (1) a strictly ascending list of `gc` ids inside `[0, gc)` is all
of `[0, gc)` (so "the ranges cover every group" is what the importer's length test means);
(2) an expressible tree is its own `build` (the API calls of stream `imp` reproduce it).
-/
import Acme.Spec.ExportImport
import Acme.Proofs.ExportRound2

namespace Acme.Import
open Acme.Layout Acme.Conv Acme.Arith
open Acme.Mux (sortInts compactAdj)

/-! ### pigeonhole on ascending ids -/

theorem ascending_cover : ∀ (l : List Int) (a b : Int), l.Pairwise (· < ·) → (∀ x ∈ l, a ≤ x ∧ x < b) →
    (l.length : Int) ≤ b - a ∨ l = []
  | [], _, _, _, _ => Or.inr rfl
  | x :: r, a, b, hp, hb => by
    left
    obtain ⟨h1, h2⟩ := List.pairwise_cons.1 hp
    have hx := hb x (List.mem_cons_self ..)
    have := ascending_cover r (x + 1) b h2 (fun y hy => ⟨by have := h1 y hy; omega, (hb y (List.mem_cons_of_mem _ hy)).2⟩)
    rcases this with h | h
    · simp only [List.length_cons]; push_cast; omega
    · subst h; simp; omega

theorem ascending_full : ∀ (l : List Int) (a b : Int), l.Pairwise (· < ·) → (∀ x ∈ l, a ≤ x ∧ x < b) →
    (l.length : Int) = b - a → ∀ g, a ≤ g → g < b → g ∈ l
  | [], a, b, _, _, hl, g, h1, h2 => by simp at hl; omega
  | x :: r, a, b, hp, hb, hl, g, hg1, hg2 => by
    obtain ⟨h1, h2⟩ := List.pairwise_cons.1 hp
    have hx := hb x (List.mem_cons_self ..)
    have hbr : ∀ y ∈ r, x + 1 ≤ y ∧ y < b :=
      fun y hy => ⟨by have := h1 y hy; omega, (hb y (List.mem_cons_of_mem _ hy)).2⟩
    have hlen : ((r.length : Nat) : Int) = b - a - 1 := by
      simp only [List.length_cons] at hl; push_cast at hl; omega
    have hxa : x = a := by
      rcases ascending_cover r (x + 1) b h2 hbr with h | h
      · omega
      · subst h; simp at hlen; omega
    subst hxa
    by_cases hgx : g = x
    · subst hgx; exact List.mem_cons_self ..
    · exact List.mem_cons_of_mem _ (ascending_full r (x + 1) b h2 hbr (by omega) g (by omega) hg2)

/-- if the compacted, sorted expansion of the ranges has `gc` elements, every group is in it -/
theorem expand_all_groups (gc : Int) (rs : List (Nat × Nat)) (xs : List Int)
    (hx : expand gc (natRanges rs) = some xs)
    (hl : ((compactAdj (sortInts xs)).length : Int) = gc) : ∀ g, 0 ≤ g → g < gc → g ∈ xs := by
  intro g h0 h1
  have hb : ∀ x ∈ compactAdj (sortInts xs), 0 ≤ x ∧ x < gc := by
    intro x hxm
    have hxm' := (mem_compactSort xs x).1 hxm
    have : ∀ (rs : List (Int × Int)) (xs : List Int), expand gc rs = some xs → (∀ r ∈ rs, 0 ≤ r.1) →
        ∀ x ∈ xs, 0 ≤ x ∧ x < gc := by
      intro rs
      induction rs with
      | nil => intro xs h _ x hx; simp only [expand, Option.some.injEq] at h; subst h; cases hx
      | cons r rest ih =>
        intro xs h hr x hx
        obtain ⟨f, t⟩ := r
        unfold expand at h
        split at h
        · cases h
        · rename_i hc
          split at h
          · cases h
          · rename_i ys hy
            injection h with h
            subst h
            rcases List.mem_append.1 hx with hx | hx
            · have := (Acme.Conv.mem_expandRange f t x).1 hx
              have := hr (f, t) (List.mem_cons_self ..)
              simp only at this
              omega
            · exact ih ys hy (fun r hr' => hr r (List.mem_cons_of_mem _ hr')) x hx
    refine this (natRanges rs) xs hx ?_ x hxm'
    intro r hr
    unfold natRanges at hr
    obtain ⟨q, _, rfl⟩ := List.mem_map.1 hr
    simp
  have := ascending_full _ 0 gc (compactSort_strict xs) hb (by omega) g h0 h1
  exact (mem_compactSort xs g).1 this

/-! ### an expressible tree is its own `build` -/

theorem addChildren_ok (gc gs : Int) : ∀ (r acc : List Child), KidsInv gc gs acc →
    (acc ++ r).Pairwise (GroupDisj gc) → ((acc ++ r).map (·.name)).Nodup →
    (∀ c ∈ r, (∀ g ∈ c.gids, 0 ≤ g ∧ g < gc) ∧ c.gids.Pairwise (· < ·) ∧ 0 < c.size ∧ 0 ≤ c.rel ∧ c.rel + c.size ≤ gs) →
    addChildren gc gs acc r = .ok (acc ++ r)
  | [], acc, _, _, _, _ => by simp [addChildren]
  | c :: r, acc, hinv, hpw, hnd, hc => by
    obtain ⟨c1, c2, c3, c4, c5⟩ := hc c (List.mem_cons_self ..)
    have hfresh : ∀ d ∈ acc, d.name ≠ c.name := by
      intro d hd hn
      rw [List.map_append, List.nodup_append] at hnd
      exact hnd.2.2 d.name (List.mem_map.2 ⟨d, hd, rfl⟩) c.name (by simp) hn
    have hdisj : ∀ d ∈ acc, GroupDisj gc d c :=
      fun d hd => (List.pairwise_append.1 hpw).2.2 d hd c (List.mem_cons_self ..)
    have hins := muxInsert_ok gc gs acc c hinv c3 hfresh ⟨c1, c2⟩ c4 c5 hdisj
    obtain ⟨_, _, _, _, _, _, _, hw', hi', hn'⟩ := muxInsert_spec gc gs acc _ c hins c3 hinv.wf hinv.ids hinv.names
    have hinv' : KidsInv gc gs (acc ++ [c]) := by
      refine ⟨hw', hi', hn', ?_⟩
      intro d hd
      rcases List.mem_append.1 hd with h1 | h1
      · exact hinv.sizes d h1
      · rw [List.mem_singleton] at h1; subst h1; exact c3
    have ih := addChildren_ok gc gs r (acc ++ [c]) hinv'
      (by simpa [List.append_assoc] using hpw) (by simpa [List.append_assoc] using hnd)
      (fun d hd => hc d (List.mem_cons_of_mem _ hd))
    unfold addChildren
    rw [if_neg (by omega), hins]
    simp only [ih, List.append_assoc, List.singleton_append]

theorem buildMux_ok (n : MuxNode) (h : MuxOK n) : buildMux n = .ok n := by
  have hnew : newMux n.groupCount n.groupSize = .ok () := by
    unfold newMux
    have := h.gc2; have := h.gsPos
    rw [if_neg (by omega), if_neg (by omega), if_neg (by omega), if_neg (by omega)]
  have hsel : calcSize (n.groupCount - 1) = n.selW := by
    rw [h.gc]; exact Acme.Conv.selector_roundtrip n.selW h.w1 h.w62
  have hadd := addChildren_ok n.groupCount n.groupSize n.children [] (kidsInv_nil _ _ (by have := h.gsPos; omega))
    (by rw [List.nil_append]; exact groupsWF_pairwise _ _ _ h.wf)
    (by rw [List.nil_append]; exact h.names)
    (fun c hc => by
      obtain ⟨a, b, _, d⟩ := h.ids c hc
      obtain ⟨e, f⟩ := child_bounds n h c hc
      exact ⟨a, b, d, e, f⟩)
  unfold buildMux
  rw [hnew]
  simp only [hadd, List.nil_append, hsel]

theorem buildTop_eq (cap : Int) : ∀ (xs top : List Item), (∀ n, Item.mux n ∈ xs → MuxOK n) →
    (∀ x ∈ xs, 0 < x.size) → buildTop cap top xs = insertAll cap top xs
  | [], _, _, _ => rfl
  | .sig l :: r, top, hm, hs => by
    have := hs (.sig l) (List.mem_cons_self ..)
    have e : (Item.sig l).size = l.size := rfl
    simp only [buildTop, insertAll, if_neg (by omega : ¬ l.size ≤ 0)]
    cases hins : insertTop cap top (.sig l) with
    | error e => rfl
    | ok top' =>
      dsimp only
      exact buildTop_eq cap r top' (fun n hn => hm n (List.mem_cons_of_mem _ hn)) (fun x hx => hs x (List.mem_cons_of_mem _ hx))
  | .mux n :: r, top, hm, hs => by
    simp only [buildTop, insertAll, buildMux_ok n (hm n (List.mem_cons_self ..))]
    cases hins : insertTop cap top (.mux n) with
    | error e => rfl
    | ok top' =>
      dsimp only
      exact buildTop_eq cap r top' (fun n hn => hm n (List.mem_cons_of_mem _ hn)) (fun x hx => hs x (List.mem_cons_of_mem _ hx))

/-- the API calls of `imp export` applied to an expressible tree reproduce it -/
theorem build_expressible (t : ITree) (h : Expressible t) : build t = .ok t := by
  have c := ctx_of t h
  unfold build
  rw [if_neg (by have := c.size8; omega)]
  rw [buildTop_eq _ _ _ c.muxOK (fun x hx => (c.comp.bounds x hx).2.2)]
  obtain ⟨top', h1, h2, h3⟩ := insertAll_ok (8 * t.sizeByte) t.top []
    (by rw [List.append_nil]; exact c.comp) (topWF_nil _ (by have := c.size0; omega))
  rw [h1]
  rw [List.append_nil] at h2
  have : top' = t.top := perm_sorted_eq Item.start _ _ h2 (wf_sorted_top _ _ h3) (wf_sorted_top _ _ c.wf)
  rw [this]

end Acme.Import
