/-
Lemmas for C17.  Names used by Acme.Props.C17: frameBits_eq, busLoad_spec, shares_sum,
zero_baud, refused, mono_size, mono_cycle.
-/
import Mathlib.Algebra.Order.Field.Rat
import Mathlib.Algebra.BigOperators.Group.List.Basic
import Mathlib.Algebra.Order.BigOperators.Group.List
import Mathlib.Tactic.Ring
import Mathlib.Tactic.Linarith
import Mathlib.Tactic.Positivity
import Mathlib.Tactic.FieldSimp
import Mathlib.Tactic.GCongr
import Acme.Core.BusLoad
import Acme.Spec.BusLoad

namespace Acme.BusLoad

/-- `MsgOK` is a conjunction of integer comparisons (used by `decide` in the Props file). -/
instance (m : Msg) : Decidable (MsgOK m) := by
  unfold MsgOK; infer_instance

/-! ### frame bits -/

theorem frameBits_eq (s : Int) (h : 0 ≤ s) :
    frameBits s = 8 * s + 19 + 25 + (34 + 8 * s - 1) / 4 := by
  unfold frameBits headerBits trailerBits headerStuffingBits
  rw [Int.tdiv_eq_ediv_of_nonneg (by omega)]
  omega

theorem frameBits_pos (s : Int) (h : 0 ≤ s) : 0 < frameBits s := by
  rw [frameBits_eq s h]; omega

theorem frameBits_mono (s s' : Int) (h : 0 ≤ s) (hs : s ≤ s') : frameBits s ≤ frameBits s' := by
  rw [frameBits_eq s h, frameBits_eq s' (by omega)]; omega

theorem cycleOf_pos (m : Msg) (d : Int) (hd : 0 < d) (hc : 0 ≤ m.cycle) : 0 < cycleOf m d := by
  unfold cycleOf
  split <;> omega

theorem bpsOf_pos (m : Msg) (d : Int) (hd : 0 < d) (hm : MsgOK m) : 0 < bpsOf m d := by
  obtain ⟨h1, _, h3⟩ := hm
  unfold bpsOf
  have hf : (0 : Rat) < (frameBits m.size : Rat) := by exact_mod_cast frameBits_pos _ h1
  have hc : (0 : Rat) < (cycleOf m d : Rat) := by exact_mod_cast cycleOf_pos m d hd h3
  positivity

/-! ### total = Σ -/

theorem foldl_total (msgs : List Msg) (d : Int) (a : Rat) :
    msgs.foldl (fun acc m => acc + bpsOf m d) a = a + (msgs.map (fun m => bpsOf m d)).sum := by
  induction msgs generalizing a with
  | nil => simp
  | cons m ms ih => simp only [List.foldl_cons, List.map_cons, List.sum_cons, ih]; ring

theorem total_eq (msgs : List Msg) (d : Int) :
    total msgs d = (msgs.map (fun m => bpsOf m d)).sum := by
  unfold total
  rw [foldl_total]; simp

theorem total_pos (msgs : List Msg) (d : Int) (hd : 0 < d) (hne : msgs ≠ [])
    (hok : ∀ m ∈ msgs, MsgOK m) : 0 < (msgs.map (fun m => bpsOf m d)).sum := by
  apply List.sum_pos
  · intro x hx
    obtain ⟨m, hm, rfl⟩ := List.mem_map.mp hx
    exact bpsOf_pos m d hd (hok m hm)
  · simpa using hne

/-! ### the result of `busLoad` -/

/-- the unsorted entry list -/
def entriesOf (msgs : List Msg) (d : Int) : List Entry :=
  msgs.map (fun m =>
    ({ msg := m, bps := bpsOf m d,
       pct := bpsOf m d / (msgs.map (fun m => bpsOf m d)).sum * 100 } : Entry))

theorem busLoad_eq (baud : Int) (hb : baud ≠ 0) (msgs : List Msg) (d : Int) (hd : 0 < d) :
    busLoad baud msgs d =
      .ok ((msgs.map (fun m => bpsOf m d)).sum / (baud : Rat) * 100,
        (entriesOf msgs d).mergeSort entryLe) := by
  unfold busLoad entriesOf
  rw [if_neg (by omega), if_neg (by omega), if_neg hb]
  simp only [total_eq]

theorem entryLe_trans (a b c : Entry) (h1 : entryLe a b = true) (h2 : entryLe b c = true) :
    entryLe a c = true := by
  unfold entryLe at *
  simp only [decide_eq_true_eq] at *
  exact le_trans h2 h1

theorem entryLe_total (a b : Entry) : (entryLe a b || entryLe b a) = true := by
  unfold entryLe
  simp only [Bool.or_eq_true, decide_eq_true_eq]
  exact le_total _ _

theorem busLoad_spec (baud : Int) (hb : baud ≠ 0) (msgs : List Msg) (d : Int) (hd : 0 < d) :
    ∃ es, busLoad baud msgs d =
        .ok ((msgs.map (fun m => bpsOf m d)).sum / (baud : Rat) * 100, es) ∧
      (es.map (·.msg)).Perm msgs ∧
      (∀ e ∈ es, e.bps = bpsOf e.msg d ∧
          e.pct = e.bps / (msgs.map (fun m => bpsOf m d)).sum * 100) ∧
      es.Pairwise (fun a b => b.bps ≤ a.bps) := by
  refine ⟨(entriesOf msgs d).mergeSort entryLe, busLoad_eq baud hb msgs d hd, ?_, ?_, ?_⟩
  · have hp := (List.mergeSort_perm (entriesOf msgs d) entryLe).map (·.msg)
    have he : (entriesOf msgs d).map (·.msg) = msgs := by
      unfold entriesOf
      simp [List.map_map, Function.comp_def]
    rwa [he] at hp
  · intro e he
    have he' : e ∈ entriesOf msgs d := (List.mergeSort_perm _ entryLe).mem_iff.mp he
    unfold entriesOf at he'
    obtain ⟨m, _, rfl⟩ := List.mem_map.mp he'
    exact ⟨rfl, rfl⟩
  · refine (List.pairwise_mergeSort entryLe_trans entryLe_total (entriesOf msgs d)).imp ?_
    intro a b h
    unfold entryLe at h
    simpa using h

theorem sum_map_div_mul (l : List Rat) (t c : Rat) :
    (l.map (fun b => b / t * c)).sum = l.sum / t * c := by
  induction l with
  | nil => simp
  | cons x xs ih => simp only [List.map_cons, List.sum_cons, ih]; ring

theorem shares_sum (baud : Int) (hb : baud ≠ 0) (msgs : List Msg) (d : Int) (hd : 0 < d)
    (hne : msgs ≠ []) (hok : ∀ m ∈ msgs, MsgOK m) (l : Rat) (es : List Entry)
    (h : busLoad baud msgs d = .ok (l, es)) :
    (es.map (·.pct)).sum = 100 := by
  rw [busLoad_eq baud hb msgs d hd] at h
  injection h with h
  injection h with _ h
  subst h
  have hp := (List.mergeSort_perm (entriesOf msgs d) entryLe).map (·.pct)
  rw [hp.sum_eq]
  have hpos := total_pos msgs d hd hne hok
  have he : (entriesOf msgs d).map (·.pct) =
      (msgs.map (fun m => bpsOf m d)).map
        (fun b => b / (msgs.map (fun m => bpsOf m d)).sum * 100) := by
    unfold entriesOf
    simp [List.map_map, Function.comp_def]
  rw [he, sum_map_div_mul, div_self (ne_of_gt hpos)]
  norm_num

theorem zero_baud (msgs : List Msg) (d : Int) (hd : 0 < d) :
    busLoad 0 msgs d = .ok (0, []) := by
  unfold busLoad
  rw [if_neg (by omega), if_neg (by omega), if_pos rfl]

theorem refused (baud : Int) (msgs : List Msg) (d : Int) :
    (d < 0 → busLoad baud msgs d = .error .negative) ∧
    (d = 0 → busLoad baud msgs d = .error .zero) := by
  constructor
  · intro h
    unfold busLoad
    rw [if_pos h]
  · intro h
    unfold busLoad
    rw [if_neg (by omega), if_pos h]

/-! ### monotonicity -/

theorem loadOf_mono_one (baud : Int) (hb : 0 < baud) (pre post : List Msg) (m m' : Msg)
    (d : Int) (h : bpsOf m d ≤ bpsOf m' d) :
    loadOf baud (pre ++ m :: post) d ≤ loadOf baud (pre ++ m' :: post) d := by
  unfold loadOf
  have hbq : (0 : Rat) < (baud : Rat) := by exact_mod_cast hb
  simp only [List.map_append, List.map_cons, List.sum_append, List.sum_cons]
  gcongr

theorem mono_size (baud : Int) (hb : 0 < baud) (pre post : List Msg) (m : Msg) (s' : Int)
    (d : Int) (hd : 0 < d) (hm : MsgOK m) (hs : m.size ≤ s') :
    loadOf baud (pre ++ m :: post) d ≤ loadOf baud (pre ++ { m with size := s' } :: post) d := by
  apply loadOf_mono_one baud hb
  obtain ⟨h1, _, h3⟩ := hm
  unfold bpsOf
  have hc : (0 : Rat) < (cycleOf m d : Rat) := by exact_mod_cast cycleOf_pos m d hd h3
  have hc' : cycleOf { m with size := s' } d = cycleOf m d := rfl
  have hf : (frameBits m.size : Rat) ≤ (frameBits s' : Rat) := by
    exact_mod_cast frameBits_mono _ _ h1 hs
  rw [hc']
  gcongr

theorem mono_cycle (baud : Int) (hb : 0 < baud) (pre post : List Msg) (m : Msg) (c' : Int)
    (d : Int) (_hd : 0 < d) (hm : MsgOK m) (hc0 : 0 < c') (hc : c' ≤ cycleOf m d) :
    loadOf baud (pre ++ m :: post) d ≤ loadOf baud (pre ++ { m with cycle := c' } :: post) d := by
  apply loadOf_mono_one baud hb
  obtain ⟨h1, _, _⟩ := hm
  unfold bpsOf
  have hc' : cycleOf { m with cycle := c' } d = c' := by
    unfold cycleOf
    simp only
    rw [if_neg (by omega)]
  have hf : (0 : Rat) ≤ (frameBits m.size : Rat) := by
    exact_mod_cast le_of_lt (frameBits_pos _ h1)
  have hcq0 : (0 : Rat) < (c' : Rat) := by exact_mod_cast hc0
  have hcq : (c' : Rat) ≤ (cycleOf m d : Rat) := by exact_mod_cast hc
  rw [hc']
  gcongr

end Acme.BusLoad
