/-
GenBstInsert — the generated `insertNode` / `Insert` (Acme/Gen/Bst.lean, translated from
/repo/internal/interval_bst.go) are the model's, for ALL trees and arguments.
-/
import Acme.Proofs.GenBst

namespace Acme.GenBst
open Acme.GoSem (Res)
open Acme.Gen.Bst

theorem insertNode_eq (t : Tree) (s lo hi : Int) :
    absP (insertNode s t lo hi) = (Acme.Avl.insertNode (abs t) lo hi).map (fun u => (u, s + 1)) := by
  induction t with
  | leaf => simp [insertNode, Acme.Avl.insertNode]
  | node nlo nhi mx l r h ihl ihr =>
    rw [insertNode]
    simp only [lessThan_node, abs_node, Acme.Avl.insertNode]
    by_cases hc : Acme.Avl.lessThan lo hi nlo nhi = true
    · simp only [hc, if_true]
      rw [res_eq_of_absP ihl]
      cases Acme.Avl.insertNode (abs l) lo hi with
      | none => simp [liftP]
      | some u =>
        obtain ⟨l', rfl⟩ : ∃ l', u = abs l' := ⟨conc u, by simp⟩
        simp only [liftP, Option.map, updateHeight_node, updateMax_node, balanceFactor_node, rotateRight_lift, rotateLeft_lift, conc_abs,
          bind, Option.bind]
        tail_tac l' r
    · simp only [hc]
      rw [res_eq_of_absP ihr]
      cases Acme.Avl.insertNode (abs r) lo hi with
      | none => simp [liftP]
      | some u =>
        obtain ⟨r', rfl⟩ : ∃ r', u = abs r' := ⟨conc u, by simp⟩
        simp only [liftP, Option.map, updateHeight_node, updateMax_node, balanceFactor_node, rotateRight_lift, rotateLeft_lift, conc_abs,
          bind, Option.bind]
        tail_tac l r'

theorem Insert_eq (root : Tree) (size lo hi : Int) :
    absP (Acme.Gen.Bst.Insert root size lo hi) =
      (Acme.Avl.step { root := abs root, size := size } (.insert lo hi)).map (fun t => (t.root, t.size)) := by
  unfold Acme.Gen.Bst.Insert
  by_cases hgt : lo > hi
  · simp [hgt, Acme.Avl.step]
  · simp only [hgt, if_false, Acme.Avl.step]
    rw [res_eq_of_absP (insertNode_eq root size lo hi)]
    cases Acme.Avl.insertNode (abs root) lo hi <;> simp [liftP]

end Acme.GenBst
