/-
Proofs about the Markdown export model (`Acme.Core.Md`) against the vocabulary of
`Acme.Spec.Md`; the property-level statements are in `Acme.Props.C16`.
-/
import Acme.Spec.Md

namespace Acme.Md

/-- the map after `m[key x] = x` for every `x` of `xs`, in order -/
def putAll {α : Type} (key : α → String) (xs : List α) (l : List (String × α)) : List (String × α) :=
  xs.foldl (fun l x => put (key x) x l) l

/-! ### `put`: a map insert -/
section put
variable {α : Type}

theorem mem_keys_put (k : String) (v : α) (l : List (String × α)) (k' : String) :
    k' ∈ (put k v l).map (·.1) ↔ k' = k ∨ k' ∈ l.map (·.1) := by
  induction l with
  | nil => simp [put]
  | cons p r ih =>
    obtain ⟨pk, pv⟩ := p
    by_cases h : pk = k
    · subst h; simp [put]
    · simp only [put, h, ↓reduceIte, List.map_cons, List.mem_cons, ih]
      constructor
      · rintro (h1 | h1 | h1) <;> simp [h1]
      · rintro (h1 | h1 | h1) <;> simp [h1]

theorem nodup_keys_put (k : String) (v : α) (l : List (String × α)) (h : (l.map (·.1)).Nodup) :
    ((put k v l).map (·.1)).Nodup := by
  induction l with
  | nil => simp [put]
  | cons p r ih =>
    obtain ⟨pk, pv⟩ := p
    simp only [List.map_cons, List.nodup_cons] at h
    by_cases hk : pk = k
    · subst hk; simpa [put] using h
    · simp only [put, hk, ↓reduceIte, List.map_cons, List.nodup_cons]
      refine ⟨?_, ih h.2⟩
      intro hm
      rcases (mem_keys_put k v r pk).1 hm with h1 | h1
      · exact hk h1
      · exact h.1 h1

theorem wf_put (key : α → String) (v : α) (l : List (String × α)) (h : ∀ p ∈ l, p.1 = key p.2) :
    ∀ p ∈ put (key v) v l, p.1 = key p.2 := by
  induction l with
  | nil => simp [put]
  | cons q r ih =>
    obtain ⟨qk, qv⟩ := q
    by_cases hk : qk = key v
    · simp only [put, hk, ↓reduceIte, List.mem_cons]
      rintro p (hp | hp)
      · subst hp; rfl
      · exact h p (List.mem_cons_of_mem _ hp)
    · simp only [put, hk, ↓reduceIte, List.mem_cons]
      rintro p (hp | hp)
      · subst hp; exact h _ List.mem_cons_self
      · exact ih (fun p hp => h p (List.mem_cons_of_mem _ hp)) p hp

theorem putAll_spec (key : α → String) (xs : List α) (l : List (String × α))
    (hn : (l.map (·.1)).Nodup) (hw : ∀ p ∈ l, p.1 = key p.2) :
    ((putAll key xs l).map (·.1)).Nodup ∧ (∀ p ∈ putAll key xs l, p.1 = key p.2) ∧
    ∀ k, k ∈ (putAll key xs l).map (·.1) ↔ k ∈ xs.map key ∨ k ∈ l.map (·.1) := by
  induction xs generalizing l with
  | nil => exact ⟨by simpa [putAll] using hn, by simpa [putAll] using hw, by simp [putAll]⟩
  | cons x r ih =>
    have := ih (put (key x) x l) (nodup_keys_put _ _ _ hn) (wf_put key x l hw)
    refine ⟨this.1, this.2.1, fun k => ?_⟩
    have h3 := this.2.2 k
    simp only [putAll, List.foldl_cons] at h3 ⊢
    rw [h3, mem_keys_put]
    simp only [List.map_cons, List.mem_cons]
    constructor
    · rintro (h | h | h) <;> simp [h]
    · rintro ((h | h) | h) <;> simp [h]

end put

/-! ### insertion sort is a permutation -/
theorem insertBy_perm {α : Type} (le : α → α → Bool) (x : α) (l : List α) : (insertBy le x l).Perm (x :: l) := by
  induction l with
  | nil => simp [insertBy]
  | cons y r ih =>
    by_cases h : le x y
    · simp [insertBy, h]
    · simp only [insertBy, h]
      exact ((List.Perm.cons y ih).trans (List.Perm.swap x y r))

theorem sortBy_perm {α : Type} (le : α → α → Bool) (l : List α) : (sortBy le l).Perm l := by
  induction l with
  | nil => simp [sortBy]
  | cons x r ih => exact (insertBy_perm le x _).trans (List.Perm.cons x ih)

theorem count_of_nodup (l : List String) (h : l.Nodup) (a : String) : l.count a = if a ∈ l then 1 else 0 := by
  induction l with
  | nil => simp
  | cons x r ih =>
    simp only [List.nodup_cons] at h
    by_cases hx : x = a
    · subst hx
      have : ¬ x ∈ r := h.1
      simp [ih h.2, this]
    · have hx' : ¬ a = x := fun e => hx e.symm
      simp [ih h.2, hx, hx']

/-- every key inserted occurs exactly once in the sorted listing, and nothing else occurs -/
theorem listing_once {α : Type} (key : α → String) (le : α → α → Bool) (xs : List α) (id : String) :
    ((sortBy le ((putAll key xs []).map (·.2))).map key).count id = if id ∈ xs.map key then 1 else 0 := by
  obtain ⟨hn, hw, hm⟩ := putAll_spec key xs [] (by simp) (by simp)
  have hkeys : ((putAll key xs []).map (·.2)).map key = (putAll key xs []).map (·.1) := by
    rw [List.map_map]
    apply List.map_congr_left
    intro p hp
    exact (hw p hp).symm
  have hp : ((sortBy le ((putAll key xs []).map (·.2))).map key).Perm ((putAll key xs []).map (·.1)) := by
    rw [← hkeys]
    exact (sortBy_perm le _).map key
  rw [hp.count_eq, count_of_nodup _ hn]
  have := hm id
  simp only [List.map_nil, List.not_mem_nil, or_false] at this
  simp only [this]


/-! ### rows do not depend on the collector state -/
mutual
  theorem exportSignal_rows : ∀ (s : Sig) (c : Coll), (exportSignal s c).1 = s.rows
    | .std .., _ => by simp [exportSignal, Sig.rows]
    | .enm .., _ => by simp [exportSignal, Sig.rows]
    | .mux _ _ _ _ gs, c => by simp [exportSignal, Sig.rows, exportGroups_rows gs 0 c]
  theorem exportSigs_rows : ∀ (ss : Sigs) (c : Coll), (exportSigs ss c).1 = ss.rows
    | .nil, _ => by simp [exportSigs, Sigs.rows]
    | .cons s r, c => by simp [exportSigs, Sigs.rows, exportSignal_rows s c, exportSigs_rows r]
  theorem exportGroups_rows : ∀ (gs : Groups) (k : Nat) (c : Coll), (exportGroups k gs c).1 = gs.rows k
    | .nil, _, _ => by simp [exportGroups, Groups.rows]
    | .cons g r, k, c => by simp [exportGroups, Groups.rows, exportSigs_rows g c, exportGroups_rows r]
end

theorem stdCells_length (ty : TypeRef) (u : Option UnitRef) (d : String) : (stdCells ty u d).length = 5 := by
  simp [stdCells]
theorem enumCells_length (e : EnumRef) (d : String) : (enumCells e d).length = 5 := by simp [enumCells]
theorem muxCells_length (k : Nat) (d : String) : (muxCells k d).length = 5 := by simp [muxCells]

mutual
  theorem Sig.rows_width : ∀ (s : Sig), ∀ r ∈ s.rows, r.cells.length = 8
    | .std .., r, h => by
      simp [Sig.rows] at h; subst h; simp [Row.cells, stdCells_length]
    | .enm .., r, h => by
      simp [Sig.rows] at h; subst h; simp [Row.cells, enumCells_length]
    | .mux _ _ _ _ gs, r, h => by
      simp [Sig.rows] at h
      rcases h with h | h
      · subst h; simp [Row.cells, muxCells_length]
      · exact Groups.rows_width gs 0 r h
  theorem Sigs.rows_width : ∀ (ss : Sigs), ∀ r ∈ ss.rows, r.cells.length = 8
    | .nil, r, h => by simp [Sigs.rows] at h
    | .cons s rest, r, h => by
      simp [Sigs.rows] at h
      rcases h with h | h
      · exact Sig.rows_width s r h
      · exact Sigs.rows_width rest r h
  theorem Groups.rows_width : ∀ (gs : Groups) (k : Nat), ∀ r ∈ gs.rows k, r.cells.length = 8
    | .nil, _, r, h => by simp [Groups.rows] at h
    | .cons g rest, k, r, h => by
      simp [Groups.rows] at h
      rcases h with h | h | h
      · subst h; simp [Row.cells]
      · exact Sigs.rows_width g r h
      · exact Groups.rows_width rest (k+1) r h
end

/-! ### signal rows ↔ occurrences; separator rows ↔ groups -/
mutual
  theorem Sig.rows_info : ∀ (s : Sig), s.rows.filterMap Row.info = s.occs
    | .std .. => by simp [Sig.rows, Sig.occs, Row.info]
    | .enm .. => by simp [Sig.rows, Sig.occs, Row.info]
    | .mux _ _ _ _ gs => by simp [Sig.rows, Sig.occs, Row.info, Groups.rows_info gs 0]
  theorem Sigs.rows_info : ∀ (ss : Sigs), ss.rows.filterMap Row.info = ss.occs
    | .nil => by simp [Sigs.rows, Sigs.occs]
    | .cons s r => by simp [Sigs.rows, Sigs.occs, List.filterMap_append, Sig.rows_info s, Sigs.rows_info r]
  theorem Groups.rows_info : ∀ (gs : Groups) (k : Nat), (gs.rows k).filterMap Row.info = gs.occs
    | .nil, _ => by simp [Groups.rows, Groups.occs]
    | .cons g r, k => by
      rw [Groups.rows, Groups.occs, List.cons_append, List.filterMap_cons_none (by rfl), List.filterMap_append,
        Sigs.rows_info g, Groups.rows_info r]
end

mutual
  theorem Sig.rows_seps : ∀ (s : Sig), (s.rows.filter Row.isSep).length = s.nGroups
    | .std .. => by simp [Sig.rows, Sig.nGroups, Row.isSep]
    | .enm .. => by simp [Sig.rows, Sig.nGroups, Row.isSep]
    | .mux _ _ _ _ gs => by simp [Sig.rows, Sig.nGroups, Row.isSep, Groups.rows_seps gs 0]
  theorem Sigs.rows_seps : ∀ (ss : Sigs), (ss.rows.filter Row.isSep).length = ss.nGroups
    | .nil => by simp [Sigs.rows, Sigs.nGroups]
    | .cons s r => by simp [Sigs.rows, Sigs.nGroups, List.filter_append, Sig.rows_seps s, Sigs.rows_seps r]
  theorem Groups.rows_seps : ∀ (gs : Groups) (k : Nat), ((gs.rows k).filter Row.isSep).length = gs.nGroups
    | .nil, _ => by simp [Groups.rows, Groups.nGroups]
    | .cons g r, k => by
      rw [Groups.rows, Groups.nGroups, List.cons_append, List.filter_cons_of_pos (by rfl), List.filter_append,
        List.length_cons, List.length_append, Sigs.rows_seps g, Groups.rows_seps r]
      omega
end

/-- the separator rows carry the group ids 0, 1, 2, … of their multiplexer, in order -/
theorem Groups.rows_sep_ids_head : ∀ (gs : Groups) (k : Nat), gs ≠ .nil → (gs.rows k).head? = some (.sep k)
  | .nil, _, h => absurd rfl h
  | .cons _ _, _, _ => by simp [Groups.rows]

/-! ### the collector -/

theorem putAll_append {α : Type} (key : α → String) (xs ys : List α) (l : List (String × α)) :
    putAll key (xs ++ ys) l = putAll key ys (putAll key xs l) := by
  simp [putAll, List.foldl_append]

mutual
  theorem exportSignal_types : ∀ (s : Sig) (c : Coll),
      (exportSignal s c).2.types = putAll (·.id) s.typeRefs c.types
    | .std _ _ _ _ ty u, c => by
      cases u <;> simp [exportSignal, Sig.typeRefs, putAll, Coll.addType, Coll.addUnit?, Coll.addUnit]
    | .enm .., c => by simp [exportSignal, Sig.typeRefs, putAll, Coll.addEnum]
    | .mux _ _ _ _ gs, c => by simp [exportSignal, Sig.typeRefs, exportGroups_types gs 0 c]
  theorem exportSigs_types : ∀ (ss : Sigs) (c : Coll),
      (exportSigs ss c).2.types = putAll (·.id) ss.typeRefs c.types
    | .nil, c => by simp [exportSigs, Sigs.typeRefs, putAll]
    | .cons s r, c => by
      simp [exportSigs, Sigs.typeRefs, putAll_append, exportSigs_types r, exportSignal_types s c]
  theorem exportGroups_types : ∀ (gs : Groups) (k : Nat) (c : Coll),
      (exportGroups k gs c).2.types = putAll (·.id) gs.typeRefs c.types
    | .nil, _, c => by simp [exportGroups, Groups.typeRefs, putAll]
    | .cons g r, k, c => by
      simp [exportGroups, Groups.typeRefs, putAll_append, exportGroups_types r, exportSigs_types g c]
end

mutual
  theorem exportSignal_units : ∀ (s : Sig) (c : Coll),
      (exportSignal s c).2.units = putAll (·.id) s.unitRefs c.units
    | .std _ _ _ _ ty u, c => by
      cases u <;> simp [exportSignal, Sig.unitRefs, putAll, Coll.addType, Coll.addUnit?, Coll.addUnit]
    | .enm .., c => by simp [exportSignal, Sig.unitRefs, putAll, Coll.addEnum]
    | .mux _ _ _ _ gs, c => by simp [exportSignal, Sig.unitRefs, exportGroups_units gs 0 c]
  theorem exportSigs_units : ∀ (ss : Sigs) (c : Coll),
      (exportSigs ss c).2.units = putAll (·.id) ss.unitRefs c.units
    | .nil, c => by simp [exportSigs, Sigs.unitRefs, putAll]
    | .cons s r, c => by
      simp [exportSigs, Sigs.unitRefs, putAll_append, exportSigs_units r, exportSignal_units s c]
  theorem exportGroups_units : ∀ (gs : Groups) (k : Nat) (c : Coll),
      (exportGroups k gs c).2.units = putAll (·.id) gs.unitRefs c.units
    | .nil, _, c => by simp [exportGroups, Groups.unitRefs, putAll]
    | .cons g r, k, c => by
      simp [exportGroups, Groups.unitRefs, putAll_append, exportGroups_units r, exportSigs_units g c]
end

mutual
  theorem exportSignal_enums : ∀ (s : Sig) (c : Coll),
      (exportSignal s c).2.enums = putAll (·.id) s.enumRefs c.enums
    | .std _ _ _ _ ty u, c => by
      cases u <;> simp [exportSignal, Sig.enumRefs, putAll, Coll.addType, Coll.addUnit?, Coll.addUnit]
    | .enm .., c => by simp [exportSignal, Sig.enumRefs, putAll, Coll.addEnum]
    | .mux _ _ _ _ gs, c => by simp [exportSignal, Sig.enumRefs, exportGroups_enums gs 0 c]
  theorem exportSigs_enums : ∀ (ss : Sigs) (c : Coll),
      (exportSigs ss c).2.enums = putAll (·.id) ss.enumRefs c.enums
    | .nil, c => by simp [exportSigs, Sigs.enumRefs, putAll]
    | .cons s r, c => by
      simp [exportSigs, Sigs.enumRefs, putAll_append, exportSigs_enums r, exportSignal_enums s c]
  theorem exportGroups_enums : ∀ (gs : Groups) (k : Nat) (c : Coll),
      (exportGroups k gs c).2.enums = putAll (·.id) gs.enumRefs c.enums
    | .nil, _, c => by simp [exportGroups, Groups.enumRefs, putAll]
    | .cons g r, k, c => by
      simp [exportGroups, Groups.enumRefs, putAll_append, exportGroups_enums r, exportSigs_enums g c]
end


/-! ### the document body: items and collector state, level by level -/

/-- the collector state after a list of references has been written into it -/
def Coll.after (c : Coll) (ts : List TypeRef) (us : List UnitRef) (es : List EnumRef) : Coll :=
  { types := putAll (·.id) ts c.types, units := putAll (·.id) us c.units, enums := putAll (·.id) es c.enums }

theorem Coll.after_nil (c : Coll) : c.after [] [] [] = c := by simp [Coll.after, putAll]

theorem Coll.after_after (c : Coll) (t1 t2 : List TypeRef) (u1 u2 : List UnitRef) (e1 e2 : List EnumRef) :
    (c.after t1 u1 e1).after t2 u2 e2 = c.after (t1 ++ t2) (u1 ++ u2) (e1 ++ e2) := by
  simp [Coll.after, putAll_append]

theorem exportSigs_coll (ss : Sigs) (c : Coll) :
    (exportSigs ss c).2 = c.after ss.typeRefs ss.unitRefs ss.enumRefs := by
  have h1 := exportSigs_types ss c
  have h2 := exportSigs_units ss c
  have h3 := exportSigs_enums ss c
  cases h : (exportSigs ss c).2
  simp only [h] at h1 h2 h3
  simp [Coll.after, h1, h2, h3]

theorem Sigs.refs_of_isEmpty (ss : Sigs) (h : ss.isEmpty = true) :
    ss.typeRefs = [] ∧ ss.unitRefs = [] ∧ ss.enumRefs = [] := by
  cases ss with
  | nil => simp [Sigs.typeRefs, Sigs.unitRefs, Sigs.enumRefs]
  | cons _ _ => simp [Sigs.isEmpty] at h

theorem exportMessage_spec (m : Msg) (c : Coll) :
    exportMessage m c = (msgItems m, c.after m.sigs.typeRefs m.sigs.unitRefs m.sigs.enumRefs) := by
  unfold exportMessage msgItems
  by_cases h : m.sigs.isEmpty = true
  · obtain ⟨h1, h2, h3⟩ := Sigs.refs_of_isEmpty _ h
    simp [h, h1, h2, h3, Coll.after_nil]
  · simp [h, exportSigs_rows, exportSigs_coll]

theorem exportMessages_spec (ms : List Msg) (c : Coll) :
    exportMessages ms c = (ms.flatMap msgItems,
      c.after (ms.flatMap (·.sigs.typeRefs)) (ms.flatMap (·.sigs.unitRefs)) (ms.flatMap (·.sigs.enumRefs))) := by
  induction ms generalizing c with
  | nil => simp [exportMessages, Coll.after_nil]
  | cons m r ih => simp [exportMessages, exportMessage_spec, ih, Coll.after_after]

def Iface.typeRefs (i : Iface) : List TypeRef := i.msgs.flatMap (·.sigs.typeRefs)
def Iface.unitRefs (i : Iface) : List UnitRef := i.msgs.flatMap (·.sigs.unitRefs)
def Iface.enumRefs (i : Iface) : List EnumRef := i.msgs.flatMap (·.sigs.enumRefs)

theorem exportIface_spec (i : Iface) (c : Coll) :
    exportIface i c = (ifaceItems i, c.after i.typeRefs i.unitRefs i.enumRefs) := by
  simp [exportIface, ifaceItems, exportMessages_spec, Iface.typeRefs, Iface.unitRefs, Iface.enumRefs]

theorem exportIfaces_spec (is : List Iface) (c : Coll) :
    exportIfaces is c = (is.flatMap ifaceItems,
      c.after (is.flatMap (·.typeRefs)) (is.flatMap (·.unitRefs)) (is.flatMap (·.enumRefs))) := by
  induction is generalizing c with
  | nil => simp [exportIfaces, Coll.after_nil]
  | cons i r ih => simp [exportIfaces, exportIface_spec, ih, Coll.after_after]

def Bus.typeRefs (b : Bus) : List TypeRef := b.ifaces.flatMap (·.typeRefs)
def Bus.unitRefs (b : Bus) : List UnitRef := b.ifaces.flatMap (·.unitRefs)
def Bus.enumRefs (b : Bus) : List EnumRef := b.ifaces.flatMap (·.enumRefs)

theorem exportBus_spec (b : Bus) (c : Coll) :
    exportBus b c = (busItems b, c.after b.typeRefs b.unitRefs b.enumRefs) := by
  simp [exportBus, busItems, exportIfaces_spec, Bus.typeRefs, Bus.unitRefs, Bus.enumRefs]

theorem exportBuses_spec (bs : List Bus) (c : Coll) :
    exportBuses bs c = (bs.flatMap busItems,
      c.after (bs.flatMap (·.typeRefs)) (bs.flatMap (·.unitRefs)) (bs.flatMap (·.enumRefs))) := by
  induction bs generalizing c with
  | nil => simp [exportBuses, Coll.after_nil]
  | cons b r ih => simp [exportBuses, exportBus_spec, ih, Coll.after_after]

theorem Net.typeRefs_eq (n : Net) : n.typeRefs = n.buses.flatMap (·.typeRefs) := by
  simp [Net.typeRefs, Net.msgs, Bus.typeRefs, Iface.typeRefs, List.flatMap_assoc]
theorem Net.unitRefs_eq (n : Net) : n.unitRefs = n.buses.flatMap (·.unitRefs) := by
  simp [Net.unitRefs, Net.msgs, Bus.unitRefs, Iface.unitRefs, List.flatMap_assoc]
theorem Net.enumRefs_eq (n : Net) : n.enumRefs = n.buses.flatMap (·.enumRefs) := by
  simp [Net.enumRefs, Net.msgs, Bus.enumRefs, Iface.enumRefs, List.flatMap_assoc]

theorem collected_eq (n : Net) :
    collected n = { types := putAll (·.id) n.typeRefs [], units := putAll (·.id) n.unitRefs [],
                    enums := putAll (·.id) n.enumRefs [] } := by
  simp [collected, exportBuses_spec, Coll.after, Net.typeRefs_eq, Net.unitRefs_eq, Net.enumRefs_eq]

theorem exportNetwork_eq (n : Net) :
    exportNetwork n = .h 1 n.name :: n.buses.flatMap busItems ++ appendix (collected n) := by
  simp [exportNetwork, exportBuses_spec]


/-! ### headings -/

theorem flatMap_single {α β : Type} (f : α → β) (l : List α) : l.flatMap (fun x => [f x]) = l.map f := by
  induction l with
  | nil => rfl
  | cons x r ih => simp [List.flatMap_cons, ih]

@[simp] theorem headings_nil : headings [] = [] := rfl
@[simp] theorem headings_cons_h (l : Nat) (t : String) (r : List Item) :
    headings (.h l t :: r) = (l, t) :: headings r := by
  simp [headings, List.filterMap_cons, Item.heading?]
@[simp] theorem headings_cons_table (a : List String) (b : List (List String)) (r : List Item) :
    headings (.table a b :: r) = headings r := by
  simp [headings, List.filterMap_cons, Item.heading?]

theorem headings_append (a b : List Item) : headings (a ++ b) = headings a ++ headings b := by
  simp [headings, List.filterMap_append]

theorem headings_flatMap {α : Type} (f : α → List Item) (l : List α) :
    headings (l.flatMap f) = l.flatMap (fun x => headings (f x)) := by
  induction l with
  | nil => simp [headings]
  | cons x r ih => simp [List.flatMap_cons, headings_append, ih]

theorem headings_msgItems (m : Msg) : headings (msgItems m) = [(4, m.name)] := by
  unfold msgItems
  by_cases h : m.sigs.isEmpty = true <;> simp [h]

theorem headings_ifaceItems (i : Iface) :
    headings (ifaceItems i) = (3, i.node) :: i.msgs.map (fun m => (4, m.name)) := by
  have : headings (ifaceItems i) = (3, i.node) :: headings (i.msgs.flatMap msgItems) := by
    simp [ifaceItems]
  rw [this, headings_flatMap]
  simp only [headings_msgItems]
  rw [flatMap_single (fun m : Msg => ((4 : Nat), m.name))]

theorem headings_busItems (b : Bus) :
    headings (busItems b) =
      (2, b.name) :: b.ifaces.flatMap (fun i => (3, i.node) :: i.msgs.map (fun m => (4, m.name))) := by
  have : headings (busItems b) = (2, b.name) :: headings (b.ifaces.flatMap ifaceItems) := by
    simp [busItems]
  rw [this, headings_flatMap]
  simp [headings_ifaceItems]

theorem headings_appendix (c : Coll) :
    headings (appendix c) = [(2, "Signal Types"), (2, "Signal Units"), (2, "Signal Enums")] ++
      c.enumList.map (fun e => (4, e.name)) := by
  have h : headings (c.enumList.flatMap exportEnum) = c.enumList.map (fun e => (4, e.name)) := by
    rw [headings_flatMap]
    simp only [exportEnum, headings_cons_h, headings_cons_table, headings_nil]
    rw [flatMap_single (fun e : EnumRef => ((4 : Nat), e.name))]
  simp only [appendix, headings_append, h]
  simp

theorem headings_exportNetwork (n : Net) :
    headings (exportNetwork n) = (1, n.name) :: n.bodyHeadings ++
      ([(2, "Signal Types"), (2, "Signal Units"), (2, "Signal Enums")] ++
        (collected n).enumList.map (fun e => (4, e.name))) := by
  rw [exportNetwork_eq]
  have : headings (Item.h 1 n.name :: n.buses.flatMap busItems ++ appendix (collected n)) =
      (1, n.name) :: (headings (n.buses.flatMap busItems) ++ headings (appendix (collected n))) := by
    simp [headings_append]
  rw [this, headings_flatMap, headings_appendix]
  simp [Net.bodyHeadings, headings_busItems]

/-! ### every table of the document is one of the four kinds and every row has the header's width -/

def Item.tableOK : Item → Prop
  | .h .. => True
  | .table hdr rows =>
    (hdr = sigHeader ∨ hdr = typeHeader ∨ hdr = unitHeader ∨ hdr = valueHeader) ∧
      ∀ r ∈ rows, r.length = hdr.length

theorem msgItems_ok (m : Msg) : ∀ it ∈ msgItems m, it.tableOK := by
  unfold msgItems
  by_cases h : m.sigs.isEmpty = true
  · simp [h, Item.tableOK]
  · simp only [h, Bool.false_eq_true, ↓reduceIte, List.mem_cons, List.not_mem_nil, or_false]
    rintro it (rfl | rfl)
    · trivial
    · refine ⟨Or.inl rfl, ?_⟩
      intro r hr
      obtain ⟨row, hrow, rfl⟩ := List.mem_map.1 hr
      rw [Sigs.rows_width _ row hrow]; rfl

theorem ifaceItems_ok (i : Iface) : ∀ it ∈ ifaceItems i, it.tableOK := by
  intro it hit
  simp only [ifaceItems, List.mem_cons, List.mem_flatMap] at hit
  rcases hit with rfl | ⟨m, _, hm⟩
  · trivial
  · exact msgItems_ok m it hm

theorem busItems_ok (b : Bus) : ∀ it ∈ busItems b, it.tableOK := by
  intro it hit
  simp only [busItems, List.mem_cons, List.mem_flatMap] at hit
  rcases hit with rfl | ⟨i, _, hi⟩
  · trivial
  · exact ifaceItems_ok i it hi

theorem appendix_ok (c : Coll) : ∀ it ∈ appendix c, it.tableOK := by
  intro it hit
  simp only [appendix, List.mem_append, List.mem_cons, List.not_mem_nil, or_false, List.mem_flatMap,
    exportEnum] at hit
  rcases hit with (rfl | rfl | rfl | rfl | rfl) | ⟨e, _, (rfl | rfl)⟩
  · trivial
  · refine ⟨Or.inr (Or.inl rfl), ?_⟩
    intro r hr
    obtain ⟨t, _, rfl⟩ := List.mem_map.1 hr
    rfl
  · trivial
  · refine ⟨Or.inr (Or.inr (Or.inl rfl)), ?_⟩
    intro r hr
    obtain ⟨t, _, rfl⟩ := List.mem_map.1 hr
    rfl
  · trivial
  · trivial
  · refine ⟨Or.inr (Or.inr (Or.inr rfl)), ?_⟩
    intro r hr
    obtain ⟨t, _, rfl⟩ := List.mem_map.1 hr
    rfl

theorem exportNetwork_ok (n : Net) : ∀ it ∈ exportNetwork n, it.tableOK := by
  intro it hit
  rw [exportNetwork_eq] at hit
  simp only [List.cons_append, List.mem_cons, List.mem_append, List.mem_flatMap] at hit
  rcases hit with rfl | ⟨b, _, hb⟩ | h
  · trivial
  · exact busItems_ok b it hb
  · exact appendix_ok _ it h

theorem validTable_of_ok (it : Item) (h : it.tableOK) : validTable it = true := by
  cases it with
  | h _ _ => rfl
  | table hdr rows =>
    simp only [validTable, List.all_eq_true, beq_iff_eq]
    exact h.2

theorem exportToMarkdown_ok (n : Net) : exportToMarkdown n = .ok (exportNetwork n) := by
  have : (exportNetwork n).all validTable = true := by
    rw [List.all_eq_true]
    exact fun it hit => validTable_of_ok it (exportNetwork_ok n it hit)
  simp [exportToMarkdown, build, this]


/-! ### the headings of one level -/

def pickLevel (lvl : Nat) (hs : List (Nat × String)) : List String :=
  (hs.filter (fun p => p.1 == lvl)).map (·.2)

theorem headingsAt_eq (lvl : Nat) (items : List Item) : headingsAt lvl items = pickLevel lvl (headings items) := rfl

theorem pickLevel_append (lvl : Nat) (a b : List (Nat × String)) :
    pickLevel lvl (a ++ b) = pickLevel lvl a ++ pickLevel lvl b := by
  simp [pickLevel, List.filter_append]

theorem pickLevel_cons (lvl k : Nat) (s : String) (r : List (Nat × String)) :
    pickLevel lvl ((k, s) :: r) = if k = lvl then s :: pickLevel lvl r else pickLevel lvl r := by
  by_cases h : k = lvl <;> simp [pickLevel, List.filter_cons, h]

theorem pickLevel_flatMap {α : Type} (lvl : Nat) (f : α → List (Nat × String)) (l : List α) :
    pickLevel lvl (l.flatMap f) = l.flatMap (fun x => pickLevel lvl (f x)) := by
  induction l with
  | nil => simp [pickLevel]
  | cons x r ih => simp [List.flatMap_cons, pickLevel_append, ih]

theorem pickLevel_map {α : Type} (lvl k : Nat) (f : α → String) (l : List α) :
    pickLevel lvl (l.map (fun x => (k, f x))) = if k = lvl then l.map f else [] := by
  induction l with
  | nil => simp [pickLevel]
  | cons x r ih =>
    rw [List.map_cons, pickLevel_cons, ih]
    by_cases h : k = lvl <;> simp [h]

theorem flatMap_nil' {α β : Type} (l : List α) : l.flatMap (fun _ => ([] : List β)) = [] := by
  induction l with
  | nil => rfl
  | cons x r ih => simp [List.flatMap_cons, ih]

@[simp] theorem pickLevel_nil (lvl : Nat) : pickLevel lvl [] = [] := rfl

theorem pickLevel_iface (lvl : Nat) (i : Iface) :
    pickLevel lvl ((3, i.node) :: i.msgs.map (fun m => (4, m.name))) =
      (if 3 = lvl then [i.node] else []) ++ (if 4 = lvl then i.msgs.map (·.name) else []) := by
  rw [pickLevel_cons, pickLevel_map]
  by_cases h : 3 = lvl <;> simp [h]

theorem pickLevel_body (lvl : Nat) (n : Net) :
    pickLevel lvl n.bodyHeadings = n.buses.flatMap (fun b =>
      (if 2 = lvl then [b.name] else []) ++ b.ifaces.flatMap (fun i =>
        (if 3 = lvl then [i.node] else []) ++ (if 4 = lvl then i.msgs.map (·.name) else []))) := by
  rw [Net.bodyHeadings, pickLevel_flatMap]
  congr 1
  funext b
  rw [pickLevel_cons, pickLevel_flatMap]
  simp only [pickLevel_iface]
  by_cases h : 2 = lvl <;> simp [h]

theorem pickLevel_tail (lvl : Nat) (es : List EnumRef) :
    pickLevel lvl ([(2, "Signal Types"), (2, "Signal Units"), (2, "Signal Enums")] ++ es.map (fun e => (4, e.name))) =
      (if 2 = lvl then ["Signal Types", "Signal Units", "Signal Enums"] else []) ++
      (if 4 = lvl then es.map (·.name) else []) := by
  rw [pickLevel_append, pickLevel_map]
  simp only [pickLevel_cons, pickLevel_nil]
  by_cases h : 2 = lvl <;> simp [h]

theorem headingsAt_exportNetwork (lvl : Nat) (n : Net) :
    headingsAt lvl (exportNetwork n) =
      (if 1 = lvl then [n.name] else []) ++ pickLevel lvl n.bodyHeadings ++
      ((if 2 = lvl then ["Signal Types", "Signal Units", "Signal Enums"] else []) ++
       (if 4 = lvl then (collected n).enumList.map (·.name) else [])) := by
  rw [headingsAt_eq, headings_exportNetwork, List.cons_append, pickLevel_cons, pickLevel_append, pickLevel_tail]
  by_cases h : 1 = lvl <;> simp [h]

theorem headingsAt_1 (n : Net) : headingsAt 1 (exportNetwork n) = [n.name] := by
  rw [headingsAt_exportNetwork, pickLevel_body]
  simp [flatMap_nil']

theorem headingsAt_2 (n : Net) :
    headingsAt 2 (exportNetwork n) =
      n.buses.map (·.name) ++ ["Signal Types", "Signal Units", "Signal Enums"] := by
  rw [headingsAt_exportNetwork, pickLevel_body]
  simp [flatMap_nil', flatMap_single]

theorem headingsAt_3 (n : Net) :
    headingsAt 3 (exportNetwork n) = n.buses.flatMap (fun b => b.ifaces.map (·.node)) := by
  rw [headingsAt_exportNetwork, pickLevel_body]
  simp [flatMap_nil', flatMap_single]

theorem headingsAt_4 (n : Net) :
    headingsAt 4 (exportNetwork n) = n.msgs.map (·.name) ++ (collected n).enumList.map (·.name) := by
  rw [headingsAt_exportNetwork, pickLevel_body]
  simp [flatMap_nil', Net.msgs, List.map_flatMap]


end Acme.Md
