/-
The generated exportAttributeAssignment against the hand model Acme.Attr: one call, for any state.
-/
import Acme.Proofs.GenExporterAttr1

namespace Acme.GenX
open Acme.Attr Acme.XSem Acme.GoSem Acme.Gen Acme.Conv

/-- the name set of an object kind -/
def attr_names (k : Kind) (st : Acme.XSem.St) : List (String × Bool) :=
  match k with
  | .general => st.attNames
  | .node => st.nodeAttNames
  | .message => st.msgAttNames
  | .signal => st.sigAttNames
  | .envVar => []

def attr_setName (k : Kind) (n : String) (st : Acme.XSem.St) : Acme.XSem.St :=
  match k with
  | .general => { st with attNames := mapSet st.attNames n true }
  | .node => { st with nodeAttNames := mapSet st.nodeAttNames n true }
  | .message => { st with msgAttNames := mapSet st.msgAttNames n true }
  | .signal => { st with sigAttNames := mapSet st.sigAttNames n true }
  | .envVar => st

/-- the object part of the written value: the kind set by the call, the fields set by the caller -/
def attr_target (k : Kind) (v : DbcAttributeValue) : Target :=
  match k with
  | .general => .general
  | .node => .node v.nodeName
  | .message => .msg v.messageID
  | .signal => .sig v.messageID v.signalName
  | .envVar => .envVar v.envVarName

theorem attr_step_core (a : AttrDef) (val : Val) (ht : Typed ⟨a, val⟩) (k : Kind) (hk : k ≠ .envVar)
    (tv : DbcAttributeValue) (st : Acme.XSem.St) :
    ∃ v, X.exportAttributeAssignment id (viewAsg ⟨a, val⟩) (kindOf k) tv st =
        .val (v, if (mapGet2 (attr_names k st) a.name false).2 = true then st
                 else X.exportAttribute id (viewAttr a) { kind := kindOf k } (attr_setName k a.name st)) ∧
      dvalueOf v = ⟨a.name, attr_target k tv, exportVal a.ty val⟩ := by
  obtain ⟨n, ty⟩ := a
  cases ty with
  | int d mn mx hex =>
    have hx' := X_attr_exportsAsHex n d mn mx hex
    cases val with
    | int i =>
      cases hx : Acme.Attr.exportsAsHex hex mn mx <;> rw [hx] at hx' <;>
      by_cases hs : (mapGet2 (attr_names k st) n false).2 = true <;>
      cases k <;> (try exact absurd rfl hk) <;>
      simp only [attr_names] at hs <;>
      simp [X.exportAttributeAssignment, viewAsg, viewAttr, viewVal, kindOf, Attr.name, attr_names,
        attr_setName, hs, hx, hx', asInt, dvalueOf, dvalOf, attr_target, exportVal, X_attr_u32]
    | _ => simp [Typed] at ht
  | str d =>
    cases val with
    | str s =>
      by_cases hs : (mapGet2 (attr_names k st) n false).2 = true <;>
      cases k <;> (try exact absurd rfl hk) <;>
      simp only [attr_names] at hs <;>
      simp [X.exportAttributeAssignment, viewAsg, viewAttr, viewVal, kindOf, Attr.name, attr_names,
        attr_setName, hs, asStr, dvalueOf, dvalOf, attr_target, exportVal]
    | _ => simp [Typed] at ht
  | float d mn mx =>
    cases val with
    | float q =>
      by_cases hs : (mapGet2 (attr_names k st) n false).2 = true <;>
      cases k <;> (try exact absurd rfl hk) <;>
      simp only [attr_names] at hs <;>
      simp [X.exportAttributeAssignment, viewAsg, viewAttr, viewVal, kindOf, Attr.name, attr_names,
        attr_setName, hs, asFloat, dvalueOf, dvalOf, attr_target, exportVal]
    | _ => simp [Typed] at ht
  | enum vs d =>
    cases val with
    | str s =>
      by_cases hs : (mapGet2 (attr_names k st) n false).2 = true <;>
      cases k <;> (try exact absurd rfl hk) <;>
      simp only [attr_names] at hs <;>
      simp [X.exportAttributeAssignment, viewAsg, viewAttr, viewVal, kindOf, Attr.name, attr_names,
        attr_setName, hs, asStr, dvalueOf, dvalOf, attr_target, exportVal, attr_loop1_enumIndex]
    | _ => simp [Typed] at ht

end Acme.GenX
