/-
Exactness of the pruned overlap queries (`intersectsNode`, `checkOther`) on trees that
satisfy the invariant and hold pairwise-disjoint intervals (C19).
-/
import Acme.Proofs.AvlBasic

namespace Acme.Avl
open Tree

/-! ### `realMax` dominates every high endpoint in the subtree -/

theorem realMax_node_bounds (l : Tree) (lo hi mx h : Int) (r : Tree) :
    hi ≤ realMax (node l lo hi mx h r) ∧
    (l ≠ nil → realMax l ≤ realMax (node l lo hi mx h r)) ∧
    (r ≠ nil → realMax r ≤ realMax (node l lo hi mx h r)) := by
  cases l <;> cases r <;> simp [realMax] <;> omega

theorem le_realMax (t : Tree) : ∀ x ∈ inorder t, x.2 ≤ realMax t := by
  induction t with
  | nil => simp [inorder]
  | node l lo hi mx h r ihl ihr =>
    obtain ⟨b1, b2, b3⟩ := realMax_node_bounds l lo hi mx h r
    intro x hx
    rw [inorder, List.mem_append, List.mem_cons] at hx
    rcases hx with hx | rfl | hx
    · have hne : l ≠ nil := by rintro rfl; simp [inorder] at hx
      exact Int.le_trans (ihl x hx) (b2 hne)
    · exact b1
    · have hne : r ≠ nil := by rintro rfl; simp [inorder] at hx
      exact Int.le_trans (ihr x hx) (b3 hne)

/-! ### generic pruned query -/

/-- The common shape of `intersectsNode` and `checkOther`: `q` is the per-node test. -/
def qn (q : Int → Int → Bool) : Tree → Int → Bool
  | nil, _ => false
  | node l nlo nhi mx _ r, lo =>
    if mx < lo then false
    else if q nlo nhi then true
    else if lo < nlo ∧ qn q l lo then true
    else qn q r lo

def Disjoint (xs : List (Int × Int)) : Prop :=
  xs.Pairwise (fun a b => a.2 < b.1 ∨ b.2 < a.1)

theorem qn_exact (q : Int → Int → Bool) (lo : Int) (hq : ∀ a b, q a b = true → lo ≤ b)
    (t : Tree) (hb : IsBst t) (hm : MaxOK t) (hp : Proper t) (hd : Disjoint (inorder t)) :
    qn q t lo = (inorder t).any (fun x => q x.1 x.2) := by
  induction t with
  | nil => simp [qn, inorder]
  | node l nlo nhi mx h r ihl ihr =>
    obtain ⟨hbl, hbr, hbL, hbR⟩ := hb
    obtain ⟨hml, hmr, hmx⟩ := hm
    have hpl : Proper l := fun x hx => hp x (by simp [inorder, hx])
    have hpr : Proper r := fun x hx => hp x (by simp [inorder, hx])
    have hpn : nlo ≤ nhi := hp (nlo, nhi) (by simp [inorder])
    unfold Disjoint at hd
    rw [inorder, List.pairwise_append, List.pairwise_cons] at hd
    obtain ⟨hdl, ⟨_, hdr⟩, hdLn⟩ := hd
    have el := ihl hbl hml hpl hdl
    have er := ihr hbr hmr hpr hdr
    simp only [qn, el, er, inorder, List.any_append, List.any_cons]
    by_cases h1 : mx < lo
    · -- max pruning: nothing below reaches `lo`
      have hall : ∀ x ∈ inorder (node l nlo nhi mx h r), q x.1 x.2 = false := by
        intro x hx
        have h2 := le_realMax _ x hx
        rw [← hmx] at h2
        cases hqx : q x.1 x.2 with
        | false => rfl
        | true => have := hq _ _ hqx; omega
      have hn := hall (nlo, nhi) (by simp [inorder])
      have hL : (inorder l).any (fun x => q x.1 x.2) = false :=
        List.any_eq_false.2 fun x hx => by
          simp [hall x (by simp [inorder, hx])]
      have hR : (inorder r).any (fun x => q x.1 x.2) = false :=
        List.any_eq_false.2 fun x hx => by
          simp [hall x (by simp [inorder, hx])]
      simp only at hn
      simp [h1, hn, hL, hR]
    · by_cases h2 : q nlo nhi = true
      · simp [h1, h2]
      · by_cases h3 : lo < nlo
        · cases (inorder l).any (fun x => q x.1 x.2) <;> simp [h1, h2, h3]
        · -- left pruning: every interval on the left ends before `nlo ≤ lo`
          have hL : (inorder l).any (fun x => q x.1 x.2) = false :=
            List.any_eq_false.2 fun x hx => by
              have h4 := hbL x hx
              have h5 := hdLn x hx (nlo, nhi) (by simp)
              have h6 := hpl x hx
              unfold le2 at h4
              simp only at h4 h5
              cases hqx : q x.1 x.2 with
              | false => simp
              | true => have := hq _ _ hqx; omega
          simp [h1, h2, h3, hL]

/-! ### the two concrete queries are instances of `qn` -/

theorem intersectsNode_eq_qn (t : Tree) (lo hi : Int) :
    intersectsNode t lo hi = qn (fun a b => decide (a ≤ hi ∧ lo ≤ b)) t lo := by
  induction t with
  | nil => rfl
  | node l nlo nhi mx h r ihl ihr =>
    simp only [intersectsNode, qn, ihl, ihr, decide_eq_true_eq]

theorem checkOther_eq_qn (t : Tree) (lo hi slo shi : Int) :
    checkOther t lo hi slo shi =
      qn (fun a b => decide (¬ (a = slo ∧ b = shi) ∧ a ≤ hi ∧ lo ≤ b)) t lo := by
  induction t with
  | nil => rfl
  | node l nlo nhi mx h r ihl ihr =>
    simp only [checkOther, qn, ihl, ihr, decide_eq_true_eq]

theorem intersectsNode_exact (t : Tree) (hb : IsBst t) (hm : MaxOK t) (hp : Proper t)
    (hd : Disjoint (inorder t)) (lo hi : Int) :
    intersectsNode t lo hi = anyOverlap (inorder t) lo hi := by
  rw [intersectsNode_eq_qn, qn_exact _ lo _ t hb hm hp hd]
  · rfl
  · intro a b h; simp at h; exact h.2

theorem checkOther_exact (t : Tree) (hb : IsBst t) (hm : MaxOK t) (hp : Proper t)
    (hd : Disjoint (inorder t)) (lo hi slo shi : Int) :
    checkOther t lo hi slo shi = anyOtherOverlap (inorder t) slo shi lo hi := by
  rw [checkOther_eq_qn, qn_exact _ lo _ t hb hm hp hd]
  · rfl
  · intro a b h; simp at h; exact h.2.2

end Acme.Avl
