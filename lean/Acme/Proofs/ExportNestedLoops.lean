/-
C11 at message level, nested multiplexers, part 4: the two loops of the importer's case "several
multiplexors", evaluated forward on ANY input that satisfies what each step needs
(`splitMany_eval`: the groups are filters of the sorted signals; `placeMuxes_eval`: the
multiplexors from the last to the first, the first one at the top level, the others nested).
-/
import Acme.Proofs.ExportNestedOwn
import Acme.Proofs.ImportNested

namespace Acme.Import
open Acme.Layout Acme.Conv Acme.Arith

/-- index of the multiplexor the extended entry of `s` names -/
def ownIdx (exts : List DExt) (muxes : List DSig) (s : DSig) : Option Nat :=
  match findExt exts s.name with
  | some e => muxIdx muxes e.muxor
  | none => none

theorem appendAt_mapIdx (groups : List (List DSig)) (i : Nat) (s : DSig) (F G : Nat → List DSig → List DSig)
    (h1 : ∀ g, F i (g ++ [s]) = G i g) (h2 : ∀ j g, j ≠ i → F j g = G j g) :
    (appendAt groups i s).mapIdx F = groups.mapIdx G := by
  apply List.ext_getElem?
  intro j
  simp only [appendAt, List.getElem?_mapIdx, List.getElem?_modify]
  by_cases hj : i = j
  · subst hj
    simp only [if_true]
    cases groups[i]? with
    | none => rfl
    | some g => simp [h1]
  · simp only [if_neg hj]
    cases groups[j]? with
    | none => rfl
    | some g => simp [h2 j g (fun h => hj h.symm)]

theorem splitMany_eval (cap : Int) (exts : List DExt) (muxes : List DSig) :
    ∀ (l : List DSig) (top : List Item) (groups : List (List DSig)) (top' : List Item),
    (∀ s ∈ l, isMuxName muxes s = false → checkSig s = .ok () ∧
      (s.isMultiplexed = true → (ownIdx exts muxes s).isSome = true)) →
    insertAll cap top ((l.filter (fun s => !isMuxName muxes s && !s.isMultiplexed)).map leafOf) = .ok top' →
    splitMany cap exts muxes l top groups =
      .ok (top', groups.mapIdx (fun i g => g ++ l.filter (fun s =>
        !isMuxName muxes s && s.isMultiplexed && (ownIdx exts muxes s == some i))))
  | [], top, groups, top', _, hins => by
    simp only [List.filter_nil, List.map_nil, insertAll] at hins
    injection hins with hins
    subst hins
    simp only [splitMany, List.filter_nil, List.append_nil]
    congr 2
    apply List.ext_getElem?
    intro j
    simp [List.getElem?_mapIdx]
  | s :: r, top, groups, top', h, hins => by
    have hr := fun x hx => h x (List.mem_cons_of_mem _ hx)
    unfold splitMany
    cases hn : isMuxName muxes s with
    | true =>
      have hn' : (muxes.any fun x => x.name == s.name) = true := hn
      rw [if_pos hn']
      rw [List.filter_cons] at hins
      simp only [hn, Bool.not_true, Bool.false_and, Bool.false_eq_true, if_false] at hins
      rw [splitMany_eval cap exts muxes r top groups top' hr hins]
      simp [List.filter_cons, hn]
    | false =>
      have hn' : ¬ (muxes.any fun x => x.name == s.name) = true := by
        intro hc
        have : isMuxName muxes s = true := hc
        rw [hn] at this
        cases this
      obtain ⟨hchk, hown⟩ := h s (List.mem_cons_self ..) hn
      rw [if_neg hn', hchk]
      cases hm : s.isMultiplexed with
      | true =>
        have hsome := hown hm
        cases hf : findExt exts s.name with
        | none => simp [ownIdx, hf] at hsome
        | some e =>
          cases hi : muxIdx muxes e.muxor with
          | none => simp [ownIdx, hf, hi] at hsome
          | some i =>
            rw [List.filter_cons] at hins
            simp only [hn, hm, Bool.not_false, Bool.not_true, Bool.and_false, Bool.false_eq_true, if_false] at hins
            simp only [if_true, hi]
            rw [splitMany_eval cap exts muxes r top (appendAt groups i s) top' hr hins]
            congr 2
            have hoi : ownIdx exts muxes s = some i := by simp [ownIdx, hf, hi]
            apply appendAt_mapIdx
            · intro g
              simp [List.filter_cons, hn, hm, hoi]
            · intro j g hj
              have : (some i == some j) = false := by
                simp only [beq_eq_false_iff_ne, ne_eq, Option.some.injEq]
                exact fun h => hj h.symm
              simp [List.filter_cons, hn, hm, hoi, this]
      | false =>
        rw [List.filter_cons] at hins
        simp only [hn, hm, Bool.not_false, Bool.and_self, if_true, List.map_cons, insertAll] at hins
        simp only [Bool.false_eq_true, if_false]
        cases hit : insertTop cap top (leafOf s) with
        | error e => rw [hit] at hins; cases hins
        | ok top1 =>
          rw [hit] at hins
          simp only
          rw [splitMany_eval cap exts muxes r top1 groups top' hr hins]
          simp [List.filter_cons, hn, hm]

/-! ### the second loop -/

/-- one multiplexor of the second loop: its signal, the signals collected for it, the node it
    becomes, the index of its parent -/
structure PRec where
  mx : DSig
  kids : List DSig
  nd : MuxNode
  par : Nat

def PRec.pr (r : PRec) : DSig × List DSig := (r.mx, r.kids)

def exOf (e : PRec × Nat) : Nat × DSig := (e.1.par, nestedKid e.1.mx e.1.nd)

theorem placeMuxes_eval (cap : Int) (exts : List DExt) (muxes : List DSig) (r0 : PRec) (top top' : List Item)
    (R : List PRec)
    (hroot : findExt exts r0.mx.name = none)
    (hins : insertTop cap top (.mux r0.nd) = .ok top')
    (himp0 : importMux exts r0.mx (r0.kids ++ pendingFor (((R.zipIdx 1).reverse).map exOf) 0) = .ok r0.nd)
    (himp : ∀ e ∈ R.zipIdx 1,
      importMux exts e.1.mx (e.1.kids ++ pendingFor (((R.zipIdx 1).reverse).map exOf) e.2) = .ok e.1.nd ∧
      ∃ x, findExt exts e.1.mx.name = some x ∧ muxIdx muxes x.muxor = some e.1.par ∧ e.1.par < e.2) :
    ∀ (Pr Sx : List PRec), R = Pr.reverse ++ Sx →
    placeMuxes cap exts muxes (((r0 :: Pr.reverse).map PRec.pr).zipIdx.reverse) top
      (Sx.reverse.map (·.nd)) (((Sx.zipIdx (Pr.length + 1)).reverse).map exOf) =
      .ok (top', R.reverse.map (·.nd))
  | [], Sx, hR => by
    simp only [List.reverse_nil, List.nil_append] at hR
    subst hR
    simp only [List.reverse_nil, List.map_cons, List.map_nil, List.zipIdx_cons, List.zipIdx_nil,
      List.reverse_cons, List.nil_append, List.length_nil, Nat.zero_add, PRec.pr]
    unfold placeMuxes
    simp only [himp0, hroot, hins]
    simp [placeMuxes]
  | a :: Pr0, Sx, hR => by
    have hR' : R = Pr0.reverse ++ (a :: Sx) := by
      rw [hR]; simp [List.reverse_cons, List.append_assoc]
    have ih := placeMuxes_eval cap exts muxes r0 top top' R hroot hins himp0 himp Pr0 (a :: Sx) hR'
    have hwork : ((r0 :: (a :: Pr0).reverse).map PRec.pr).zipIdx.reverse =
        ((a.mx, a.kids), Pr0.length + 1) :: ((r0 :: Pr0.reverse).map PRec.pr).zipIdx.reverse := by
      simp only [List.reverse_cons, ← List.cons_append, List.map_append, List.zipIdx_append,
        List.reverse_append, List.map_cons, List.map_nil, List.zipIdx_cons, List.zipIdx_nil,
        List.reverse_nil, List.nil_append, List.cons_append, PRec.pr]
      simp
      omega
    rw [hwork]
    have hmem : (a, Pr0.length + 1) ∈ R.zipIdx 1 := by
      rw [hR', List.zipIdx_append]
      apply List.mem_append_right
      simp only [List.length_reverse, List.zipIdx_cons]
      rw [Nat.add_comm]
      exact List.mem_cons_self ..
    obtain ⟨hi, x, hx1, hx2, hx3⟩ := himp _ hmem
    have hE : ((R.zipIdx 1).reverse).map exOf =
        ((Sx.zipIdx (Pr0.length + 1 + 1)).reverse).map exOf ++
          (exOf (a, Pr0.length + 1) :: ((Pr0.reverse.zipIdx 1).reverse).map exOf) := by
      rw [hR', List.zipIdx_append]
      simp only [List.length_reverse, List.zipIdx_cons, List.reverse_append, List.reverse_cons,
        List.map_append, List.map_cons, List.map_nil, List.append_assoc, List.cons_append, List.nil_append]
      rw [Nat.add_comm 1 Pr0.length]
    have hpend : pendingFor (((R.zipIdx 1).reverse).map exOf) (Pr0.length + 1) =
        pendingFor (((Sx.zipIdx (Pr0.length + 1 + 1)).reverse).map exOf) (Pr0.length + 1) := by
      rw [hE, pendingFor_append]
      rw [pendingFor_nil_of (exOf (a, Pr0.length + 1) :: _), List.append_nil]
      intro p hp
      have hp' : p ∈ ((a, Pr0.length + 1) :: (Pr0.reverse.zipIdx 1).reverse).map exOf := by
        simpa using hp
      obtain ⟨e, he, rfl⟩ := List.mem_map.1 hp'
      have he' : e ∈ R.zipIdx 1 ∧ e.2 ≤ Pr0.length + 1 := by
        rcases List.mem_cons.1 he with rfl | he
        · exact ⟨hmem, Nat.le_refl _⟩
        · have he2 := List.mem_reverse.1 he
          constructor
          · rw [hR', List.zipIdx_append]
            exact List.mem_append_left _ he2
          · have := List.mem_zipIdx he2
            simp only [List.length_reverse] at this
            omega
      obtain ⟨_, y, _, _, hy⟩ := himp e he'.1
      have hle := he'.2
      show e.1.par ≠ Pr0.length + 1
      generalize e.1.par = q at hy ⊢
      generalize e.2 = q2 at hy hle
      omega
    simp only [List.length_cons] at hi ⊢
    rw [hpend] at hi
    unfold placeMuxes
    simp only [hi, hx1, hx2]
    have hx3' : a.par < Pr0.length + 1 := hx3
    rw [if_neg (by omega)]
    have h1 : List.map (fun x => x.nd) Sx.reverse ++ [a.nd] = List.map (fun x => x.nd) (a :: Sx).reverse := by
      simp
    have h2 : List.map exOf (Sx.zipIdx (Pr0.length + 1 + 1)).reverse ++ [(a.par, nestedKid a.mx a.nd)] =
        List.map exOf ((a :: Sx).zipIdx (Pr0.length + 1)).reverse := by
      simp [List.zipIdx_cons, exOf]
    rw [h1, h2]
    exact ih

end Acme.Import
