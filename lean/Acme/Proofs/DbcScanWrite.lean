/-
The writer's tokens are in the image of the scanner: `DbcWF h f → ScanWF (writeFile h f)`
(`writeFile_scanWF`), section by section.  No hypothesis beyond `DbcWF` is needed: identifiers are
`identOK`, strings `strOK`, float texts `finiteFloatText` (hence `isFloatShape`), hex attribute
values `u32`; decimal integers and multiplexer indicators are in the image for every value.
-/
import Acme.Proofs.DbcMain
import Acme.Proofs.DbcScanImage

namespace Acme.Dbc.Scan


/-! ## `ScanWF` bookkeeping -/

theorem scanWF_nil : ScanWF [] := by intro t ht; simp at ht

theorem scanWF_cons {t : Token} {ts : List Token} (h1 : lexAlone t = true) (h2 : ScanWF ts) :
    ScanWF (t :: ts) := by
  intro u hu
  rcases List.mem_cons.mp hu with rfl | hu
  · exact h1
  · exact h2 u hu

theorem scanWF_append {a b : List Token} (h1 : ScanWF a) (h2 : ScanWF b) : ScanWF (a ++ b) := by
  intro u hu
  rcases List.mem_append.mp hu with hu | hu
  · exact h1 u hu
  · exact h2 u hu

theorem scanWF_single {t : Token} (h : lexAlone t = true) : ScanWF [t] := scanWF_cons h scanWF_nil

theorem scanWF_slice {α : Type} (f : α → List Token) (xs : List α) (h : ∀ x ∈ xs, ScanWF (f x)) :
    ScanWF (writeSlice f xs) := by
  induction xs with
  | nil => exact scanWF_nil
  | cons x xs ih =>
    exact scanWF_append (h x (by simp)) (ih (fun y hy => h y (by simp [hy])))

/-! ## token classes -/

theorem la_kw (k : KeywordKind) : lexAlone (Token.kw k) = true := by cases k <;> decide

theorem la_p (k : PunctKind) : lexAlone (Token.p k) = true := by cases k <;> decide

theorem la_word {w : String} (h : identOK w = true) : lexAlone (classifyWord w) = true := by
  rw [classifyWord_of_identOK h]
  exact lexAlone_of_tokenOK _ h rfl (by simp) (by simp)

theorem la_digits (v : String) (n : Nat) (h : v.toList = Nat.toDigits 10 n) :
    lexAlone (.number v) = true := by
  apply lexAlone_floatShape
  rw [h]
  exact isFloatShape_digits _ Nat.toDigits_ne_nil
    (fun c hc => Nat.isDigit_of_mem_toDigits (by decide) (by decide) hc)

theorem la_uint (n : Nat) : lexAlone (uintTok n) = true := la_digits _ n (toList_formatUint n)

theorem la_int (i : Int) : lexAlone (intTok i) = true := by
  cases i with
  | ofNat n => exact la_digits _ n (toList_formatInt_ofNat n)
  | negSucc n =>
    apply lexAlone_floatShape
    rw [toList_formatInt_negSucc, isFloatShape_eq]
    show bodyShape (Nat.toDigits 10 (n + 1)) = true
    have := isFloatShape_digits (Nat.toDigits 10 (n + 1)) Nat.toDigits_ne_nil
      (fun c hc => Nat.isDigit_of_mem_toDigits (by decide) (by decide) hc)
    rw [isFloatShape_eq] at this
    have hs : stripMinus (Nat.toDigits 10 (n + 1)) = Nat.toDigits 10 (n + 1) := by
      cases hd : Nat.toDigits 10 (n + 1) with
      | nil => rfl
      | cons c r =>
        apply stripMinus_of_ne
        intro he
        have : c.isDigit = true :=
          Nat.isDigit_of_mem_toDigits (b := 10) (n := n + 1) (by decide) (by decide) (by rw [hd]; simp)
        rw [he] at this; revert this; decide
    rwa [hs] at this

theorem la_hex (hex : Bool) (n : Nat) (h : u32 n = true) : lexAlone (hexTok hex n) = true :=
  lexAlone_writerNum _ rfl (writerNumOK_formatHexInt hex n (by simpa [u32] using h))

theorem la_double {x : String} (h : finiteFloatText x = true) : ScanWF (doubleToks x) := by
  rw [doubleToks_of_accepted (accepted_of_finite h)]
  simp only [finiteFloatText, Bool.and_eq_true] at h
  exact scanWF_single (lexAlone_floatShape x h.1)



theorem foldl_muxStep_digits (ds : List Char) (h : ∀ c ∈ ds, c.isDigit = true) (hne : ds ≠ []) (b : Bool) :
    ds.foldl muxStep (true, b) = (true, true) := by
  induction ds generalizing b with
  | nil => exact absurd rfl hne
  | cons d ds ih =>
    have hd := h d (by simp)
    rw [List.foldl_cons]
    have : muxStep (true, b) d = (true, true) := by simp [muxStep, hd]
    rw [this]
    cases ds with
    | nil => rfl
    | cons e es => exact ih (fun c hc => h c (by simp [hc])) (by simp) true

theorem classify_mux (v : String) (ds suffix : List Char) (hv : v.toList = 'm' :: (ds ++ suffix))
    (h : ∀ c ∈ ds, c.isDigit = true) (hne : ds ≠ []) (hs : suffix = [] ∨ suffix = ['M']) :
    classifyWord v = .muxIndicator v := by
  unfold classifyWord
  rw [hv]
  simp only []
  have hf : (ds ++ suffix).foldl muxStep ('m' == 'm', false) = (true, true) := by
    rw [List.foldl_append, show ('m' == 'm') = true by decide, foldl_muxStep_digits ds h hne]
    rcases hs with rfl | rfl
    · rfl
    · simp [muxStep]
  rw [hf]
  have : (ds ++ suffix).isEmpty = false := by
    cases ds with
    | nil => exact absurd rfl hne
    | cons a b => rfl
  simp [this]

theorem la_mux_m (n : Nat) : lexAlone (.muxIndicator ("m" ++ formatUint n)) = true := by
  apply lexAlone_of_tokenOK _ _ rfl (by simp) (by simp)
  simp only [tokenOK, decide_eq_true_eq]
  apply classify_mux _ (Nat.toDigits 10 n) [] _ _ Nat.toDigits_ne_nil (Or.inl rfl)
  · simp [toList_formatUint]
  · exact fun c hc => Nat.isDigit_of_mem_toDigits (by decide) (by decide) hc

theorem la_mux_mM (n : Nat) : lexAlone (.muxIndicator ("m" ++ formatUint n ++ "M")) = true := by
  apply lexAlone_of_tokenOK _ _ rfl (by simp) (by simp)
  simp only [tokenOK, decide_eq_true_eq]
  apply classify_mux _ (Nat.toDigits 10 n) ['M'] _ _ Nat.toDigits_ne_nil (Or.inr rfl)
  · simp [toList_formatUint]
  · exact fun c hc => Nat.isDigit_of_mem_toDigits (by decide) (by decide) hc

theorem la_mux_M : lexAlone (.muxIndicator "M") = true := by decide

theorem la_range (a b : Nat) :
    lexAlone (.numberRange (formatUint a ++ "-" ++ formatUint b)) = true := by
  apply lexAlone_rangeShape
  have ht : (formatUint a ++ "-" ++ formatUint b).toList =
      Nat.toDigits 10 a ++ '-' :: Nat.toDigits 10 b := by
    simp [toList_formatUint]
  rw [ht]
  have ha : ∀ c ∈ Nat.toDigits 10 a, c.isDigit = true :=
    fun c hc => Nat.isDigit_of_mem_toDigits (by decide) (by decide) hc
  have hb : ∀ c ∈ Nat.toDigits 10 b, c.isDigit = true :=
    fun c hc => Nat.isDigit_of_mem_toDigits (by decide) (by decide) hc
  have htw := tw_append Char.isDigit (Nat.toDigits 10 a) ('-' :: Nat.toDigits 10 b) ha
    (by intro x hx; simp at hx; subst hx; decide)
  unfold rangeShape
  rw [htw.2, htw.1]
  simp only [Bool.and_eq_true, Bool.not_eq_true', List.isEmpty_eq_false_iff, List.all_eq_true]
  exact ⟨⟨Nat.toDigits_ne_nil, Nat.toDigits_ne_nil⟩, hb⟩

/-! ## sections -/

theorem la_byteOrder (b : ByteOrder) : lexAlone (writeByteOrder b) = true := by cases b <;> decide
theorem la_valueType (v : ValueType) : lexAlone (writeValueType v) = true := by cases v <;> decide
theorem la_envVarType (v : EnvVarType) : lexAlone (writeEnvVarType v) = true := by cases v <;> decide
theorem la_extValueType (v : ExtValueType) : lexAlone (writeExtValueType v) = true := by
  cases v <;> decide
theorem la_accessType (a : AccessType) : lexAlone (.ident (accessTypeName a)) = true := by
  cases a <;> decide
theorem la_str {s : String} (h : strOK s = true) : lexAlone (.string s) = true := lexAlone_string s h

theorem la_newSymbol : ∀ s ∈ newSymbolsValues, lexAlone (classifyWord s) = true := by decide

theorem la_underscore : lexAlone (.string "_") = true := by decide

-- from here on `lexAlone` is opaque: the unifier must not evaluate the scanner
attribute [local irreducible] lexAlone

/-- splits a `ScanWF` goal along `++` / `::` and closes the token goals by the class lemmas or by
an assumption -/
macro "scanwf" : tactic =>
  `(tactic| repeat' first
      | exact scanWF_nil
      | exact la_kw _
      | exact la_p _
      | exact la_uint _
      | exact la_int _
      | exact la_byteOrder _
      | exact la_valueType _
      | exact la_envVarType _
      | exact la_extValueType _
      | exact la_accessType _
      | assumption
      | apply scanWF_append
      | apply scanWF_cons)

theorem scanWF_words (names : List String) (h : ∀ x ∈ names, identOK x = true) :
    ScanWF (names.map classifyWord) := by
  intro t ht
  obtain ⟨w, hw, rfl⟩ := List.mem_map.mp ht
  exact la_word (h w hw)

theorem scanWF_commaTail {α : Type} (f : α → List Token) (xs : List α) (h : ∀ x ∈ xs, ScanWF (f x)) :
    ScanWF (commaTail f xs) := by
  induction xs with
  | nil => exact scanWF_nil
  | cons x xs ih =>
    exact scanWF_cons (la_p _) (scanWF_append (h x (by simp)) (ih (fun y hy => h y (by simp [hy]))))

theorem scanWF_commaList {α : Type} (f : α → List Token) (xs : List α) (h : ∀ x ∈ xs, ScanWF (f x)) :
    ScanWF (commaList f xs) := by
  cases xs with
  | nil => exact scanWF_nil
  | cons x xs =>
    exact scanWF_append (h x (by simp)) (scanWF_commaTail f xs (fun y hy => h y (by simp [hy])))

theorem scanWF_commaWords (names : List String) (h : ∀ x ∈ names, identOK x = true) :
    ScanWF (commaList wordToks names) :=
  scanWF_commaList _ _ (fun x hx => scanWF_single (la_word (h x hx)))

theorem scanWF_valueDescriptions (vds : List ValueDescription)
    (h : ∀ x ∈ vds, valueDescriptionOK x = true) : ScanWF (writeValueDescriptions vds) := by
  induction vds with
  | nil => exact scanWF_nil
  | cons vd vds ih =>
    have hvd := h vd (by simp)
    simp only [valueDescriptionOK, Bool.and_eq_true] at hvd
    have hs := la_str hvd.2
    have := ih (fun y hy => h y (by simp [hy]))
    unfold writeValueDescriptions writeValueDescription
    scanwf

theorem scanWF_valueTable (vt : ValueTable) (h : valueTableOK vt = true) :
    ScanWF (writeValueTable vt) := by
  simp only [valueTableOK, Bool.and_eq_true, List.all_eq_true] at h
  have h1 := la_word h.1
  have h2 := scanWF_valueDescriptions _ h.2
  unfold writeValueTable
  scanwf

theorem scanWF_muxIndicator (s : Signal) : ScanWF (writeMuxIndicator s) := by
  unfold writeMuxIndicator
  split
  · exact scanWF_single (la_mux_mM _)
  · split
    · exact scanWF_single (la_mux_m _)
    · split
      · exact scanWF_single la_mux_M
      · exact scanWF_nil

theorem scanWF_signal (s : Signal) (h : signalOK finiteFloatText s = true) :
    ScanWF (writeSignal s) := by
  simp only [signalOK, Bool.and_eq_true, List.all_eq_true] at h
  obtain ⟨⟨⟨⟨⟨⟨⟨⟨⟨⟨⟨hn, _⟩, _⟩, _⟩, _⟩, hf⟩, ho⟩, hmi⟩, hma⟩, hu⟩, _⟩, hr⟩ := h
  have h1 := la_word hn
  have h2 := scanWF_muxIndicator s
  have h3 := la_double hf
  have h4 := la_double ho
  have h5 := la_double hmi
  have h6 := la_double hma
  have h7 := la_str hu
  have h8 := scanWF_commaWords _ hr
  unfold writeSignal
  scanwf

theorem scanWF_signals (ss : List Signal) (h : ∀ x ∈ ss, signalOK finiteFloatText x = true) :
    ScanWF (writeSignals ss) := by
  induction ss with
  | nil => exact scanWF_nil
  | cons s ss ih =>
    exact scanWF_append (scanWF_signal s (h s (by simp))) (ih (fun y hy => h y (by simp [hy])))

theorem scanWF_message (m : Message) (h : messageOK finiteFloatText m = true) :
    ScanWF (writeMessage m) := by
  simp only [messageOK, Bool.and_eq_true, List.all_eq_true] at h
  obtain ⟨⟨⟨⟨_, hn⟩, _⟩, ht⟩, hs⟩ := h
  have h1 := la_word hn
  have h2 := la_word ht
  have h3 := scanWF_signals _ hs
  unfold writeMessage
  scanwf

theorem scanWF_messageTransmitter (t : MessageTransmitter) (h : messageTransmitterOK t = true) :
    ScanWF (writeMessageTransmitter t) := by
  simp only [messageTransmitterOK, Bool.and_eq_true, List.all_eq_true] at h
  have h1 := scanWF_words _ h.2
  unfold writeMessageTransmitter
  scanwf

theorem scanWF_envVar (e : EnvVar) (h : envVarOK finiteFloatText e = true) :
    ScanWF (writeEnvVar e) := by
  simp only [envVarOK, Bool.and_eq_true, List.all_eq_true] at h
  obtain ⟨⟨⟨⟨⟨⟨⟨hn, hmi⟩, hma⟩, hu⟩, hi⟩, _⟩, _⟩, ha⟩ := h
  have h1 := la_word hn
  have h2 := la_double hmi
  have h3 := la_double hma
  have h4 := la_str hu
  have h5 := la_double hi
  have h6 := scanWF_commaWords _ ha
  unfold writeEnvVar
  scanwf

theorem scanWF_envVarData (d : EnvVarData) (h : envVarDataOK d = true) :
    ScanWF (writeEnvVarData d) := by
  simp only [envVarDataOK, Bool.and_eq_true] at h
  have h1 := la_word h.1
  unfold writeEnvVarData
  scanwf

theorem scanWF_signalType (t : SignalType) (h : signalTypeOK finiteFloatText t = true) :
    ScanWF (writeSignalType t) := by
  simp only [signalTypeOK, Bool.and_eq_true] at h
  obtain ⟨⟨⟨⟨⟨⟨⟨⟨hn, _⟩, hf⟩, ho⟩, hmi⟩, hma⟩, hu⟩, hd⟩, hv⟩ := h
  have h1 := la_word hn
  have h2 := la_double hf
  have h3 := la_double ho
  have h4 := la_double hmi
  have h5 := la_double hma
  have h6 := la_str hu
  have h7 := la_double hd
  have h8 := la_word hv
  unfold writeSignalType
  scanwf

theorem scanWF_comment (c : Comment) (h : commentOK c = true) : ScanWF (writeComment c) := by
  simp only [commentOK, Bool.and_eq_true] at h
  obtain ⟨⟨ht, _⟩, hk⟩ := h
  have h1 := la_str ht
  unfold writeComment
  cases hkind : c.kind <;> rw [hkind] at hk <;> simp only [] at hk ⊢
  · scanwf
  · have := la_word hk; scanwf
  · scanwf
  · simp only [Bool.and_eq_true] at hk; have := la_word hk.2; scanwf
  · have := la_word hk; scanwf

theorem scanWF_attributeKind (k : AttributeKind) : ScanWF (writeAttributeKind k) := by
  cases k <;> unfold writeAttributeKind <;> scanwf

theorem attrName_str {s : String} (h : attrNameOK s = true) : strOK s = true := by
  simp only [attrNameOK, Bool.and_eq_true] at h; exact h.1

theorem scanWF_attribute (hex : Bool) (a : Attribute) (h : attributeOK finiteFloatText a = true) :
    ScanWF (writeAttribute hex a) := by
  simp only [attributeOK, Bool.and_eq_true] at h
  obtain ⟨⟨hn, _⟩, ht⟩ := h
  have h1 := la_str (attrName_str hn)
  have h2 := scanWF_attributeKind a.kind
  unfold writeAttribute
  cases htype : a.type <;> rw [htype] at ht <;> simp only [] at ht ⊢
  · scanwf
  · simp only [Bool.and_eq_true] at ht
    have := la_double ht.1; have := la_double ht.2; scanwf
  · scanwf
  · simp only [List.all_eq_true] at ht
    have := scanWF_commaList stringToks a.enumValues (fun x hx => scanWF_single (la_str (ht x hx)))
    scanwf
  · simp only [Bool.and_eq_true] at ht
    have := la_hex hex _ ht.1; have := la_hex hex _ ht.2; scanwf

theorem scanWF_attrValue (hex : Bool) (v : TaggedVal) (h : taggedValOK finiteFloatText v = true) :
    ScanWF (writeAttrValue hex v.type v.valueInt v.valueHex v.valueFloat v.valueString) := by
  simp only [taggedValOK, Bool.and_eq_true] at h
  obtain ⟨_, ht⟩ := h
  unfold writeAttrValue
  cases htype : v.type <;> rw [htype] at ht <;> simp only [] at ht ⊢
  · scanwf
  · exact scanWF_single (la_str ht)
  · exact la_double ht
  · exact scanWF_single (la_hex hex _ ht)

theorem scanWF_attributeDefault (hex : Bool) (d : AttributeDefault)
    (h : attributeDefaultOK finiteFloatText d = true) : ScanWF (writeAttributeDefault hex d) := by
  simp only [attributeDefaultOK, Bool.and_eq_true] at h
  have h1 := la_str (attrName_str h.1)
  have h2 : ScanWF (writeAttrValue hex d.type d.valueInt d.valueHex d.valueFloat d.valueString) :=
    scanWF_attrValue hex d.val h.2
  unfold writeAttributeDefault
  scanwf

theorem scanWF_attributeValue (hex : Bool) (v : AttributeValue)
    (h : attributeValueOK finiteFloatText v = true) : ScanWF (writeAttributeValue hex v) := by
  simp only [attributeValueOK, Bool.and_eq_true] at h
  obtain ⟨⟨⟨hn, hv⟩, _⟩, hk⟩ := h
  have h1 := la_str hn
  have h2 : ScanWF (writeAttrValue hex v.type v.valueInt v.valueHex v.valueFloat v.valueString) :=
    scanWF_attrValue hex v.val hv
  unfold writeAttributeValue
  cases hkind : v.attributeKind <;> rw [hkind] at hk <;> simp only [] at hk ⊢
  · scanwf
  · have := la_word hk; scanwf
  · scanwf
  · simp only [Bool.and_eq_true] at hk; have := la_word hk.2; scanwf
  · have := la_word hk; scanwf

theorem scanWF_valueEncoding (e : ValueEncoding) (h : valueEncodingOK e = true) :
    ScanWF (writeValueEncoding e) := by
  simp only [valueEncodingOK, Bool.and_eq_true, List.all_eq_true] at h
  obtain ⟨⟨_, hv⟩, hk⟩ := h
  have h1 := scanWF_valueDescriptions _ hv
  unfold writeValueEncoding
  cases hkind : e.kind <;> rw [hkind] at hk <;> simp only [] at hk ⊢
  · simp only [Bool.and_eq_true] at hk; have := la_word hk.2; scanwf
  · have := la_word hk; scanwf

theorem scanWF_signalTypeRef (r : SignalTypeRef) (h : signalTypeRefOK r = true) :
    ScanWF (writeSignalTypeRef r) := by
  simp only [signalTypeRefOK, Bool.and_eq_true] at h
  have h1 := la_word h.1.1
  have h2 := la_word h.2
  unfold writeSignalTypeRef
  scanwf

theorem scanWF_signalGroup (g : SignalGroup) (h : signalGroupOK g = true) :
    ScanWF (writeSignalGroup g) := by
  simp only [signalGroupOK, Bool.and_eq_true, List.all_eq_true] at h
  have h1 := la_word h.1.1.2
  have h2 := scanWF_words _ h.2
  unfold writeSignalGroup
  scanwf

theorem scanWF_signalExtValueType (t : SignalExtValueType) (h : signalExtValueTypeOK t = true) :
    ScanWF (writeSignalExtValueType t) := by
  simp only [signalExtValueTypeOK, Bool.and_eq_true] at h
  have h1 := la_word h.2
  unfold writeSignalExtValueType
  scanwf

theorem scanWF_extendedMux (m : ExtendedMux) (h : extendedMuxOK m = true) :
    ScanWF (writeExtendedMux m) := by
  simp only [extendedMuxOK, Bool.and_eq_true] at h
  have h1 := la_word h.1.1.1.2
  have h2 := la_word h.1.1.2
  have h3 := scanWF_commaList writeExtendedMuxRange m.ranges
    (fun r _ => scanWF_single (la_range r.from_ r.to))
  unfold writeExtendedMux
  scanwf

/-! ## the whole file -/

theorem scanWF_newSymbols (syms : List String)
    (h : syms.all (fun s => newSymbolsValues.contains s) = true) : ScanWF (writeNewSymbols syms) := by
  unfold writeNewSymbols
  refine scanWF_append (by scanwf) ?_
  intro t ht
  obtain ⟨w, hw, rfl⟩ := List.mem_map.mp ht
  simp only [List.all_eq_true, List.contains_eq_mem, decide_eq_true_eq] at h
  exact la_newSymbol w (h w hw)

theorem scanWF_bitTiming (bt : BitTiming) : ScanWF (writeBitTiming bt) := by
  unfold writeBitTiming
  split <;> scanwf

/-- every token the writer prints for a well-formed document is in the image of the scanner -/
theorem writeFile_scanWF (hex : Bool) (f : File) (h : DbcWF hex f) : ScanWF (writeFile hex f) := by
  have h : fileOK finiteFloatText f = true := h
  simp only [fileOK, Bool.and_eq_true, List.all_eq_true] at h
  obtain ⟨⟨⟨⟨⟨⟨⟨⟨⟨⟨⟨⟨⟨⟨⟨⟨⟨⟨hver, hsyms⟩, _⟩, hnodes⟩, h1⟩, h2⟩, h3⟩, h4⟩, h5⟩, h6⟩, h7⟩, h8⟩, h9⟩,
    h10⟩, h11⟩, h12⟩, h13⟩, h14⟩, h15⟩ := h
  rw [writeFile_eq]
  have hv : ScanWF (writeVersion (if f.version ≠ "" then f.version else "_")) := by
    unfold writeVersion
    have : lexAlone (.string (if f.version ≠ "" then f.version else "_")) = true := by
      split
      · exact la_str hver
      · exact la_underscore
    scanwf
  have hns : ScanWF (writeNewSymbols (f.newSymbols.getD newSymbolsValues)) := by
    apply scanWF_newSymbols
    cases hs : f.newSymbols with
    | none => exact all_newSymbolsValues
    | some syms => rw [hs] at hsyms; simpa using hsyms
  have hbt := scanWF_bitTiming (f.bitTiming.getD {})
  have hnd : ScanWF (nodesToks f.nodes) := by
    cases hn : f.nodes with
    | none => exact scanWF_nil
    | some ns =>
      rw [hn] at hnodes
      simp only [List.all_eq_true] at hnodes
      have := scanWF_words ns hnodes
      simp only [nodesToks, writeNodes]
      scanwf
  have s1 := scanWF_slice writeValueTable _ (fun x hx => scanWF_valueTable x (h1 x hx))
  have s2 := scanWF_slice writeMessage _ (fun x hx => scanWF_message x (h2 x hx))
  have s3 := scanWF_slice writeMessageTransmitter _ (fun x hx => scanWF_messageTransmitter x (h3 x hx))
  have s4 := scanWF_slice writeEnvVar _ (fun x hx => scanWF_envVar x (h4 x hx))
  have s5 := scanWF_slice writeEnvVarData _ (fun x hx => scanWF_envVarData x (h5 x hx))
  have s6 := scanWF_slice writeSignalType _ (fun x hx => scanWF_signalType x (h6 x hx))
  have s7 := scanWF_slice writeComment _ (fun x hx => scanWF_comment x (h7 x hx))
  have s8 := scanWF_slice (writeAttribute hex) _ (fun x hx => scanWF_attribute hex x (h8 x hx))
  have s9 := scanWF_slice (writeAttributeDefault hex) _
    (fun x hx => scanWF_attributeDefault hex x (h9 x hx))
  have s10 := scanWF_slice (writeAttributeValue hex) _
    (fun x hx => scanWF_attributeValue hex x (h10 x hx))
  have s11 := scanWF_slice writeValueEncoding _ (fun x hx => scanWF_valueEncoding x (h11 x hx))
  have s12 := scanWF_slice writeSignalTypeRef _ (fun x hx => scanWF_signalTypeRef x (h12 x hx))
  have s13 := scanWF_slice writeSignalGroup _ (fun x hx => scanWF_signalGroup x (h13 x hx))
  have s14 := scanWF_slice writeSignalExtValueType _
    (fun x hx => scanWF_signalExtValueType x (h14 x hx))
  have s15 := scanWF_slice writeExtendedMux _ (fun x hx => scanWF_extendedMux x (h15 x hx))
  exact scanWF_append (scanWF_append (scanWF_append (scanWF_append (scanWF_append (scanWF_append (scanWF_append (scanWF_append (scanWF_append (scanWF_append (scanWF_append (scanWF_append (scanWF_append (scanWF_append (scanWF_append (scanWF_append (scanWF_append (scanWF_append hv hns) hbt) hnd) s1) s2) s3) s4) s5) s6) s7) s8) s9) s10) s11) s12) s13) s14) s15

end Acme.Dbc.Scan
