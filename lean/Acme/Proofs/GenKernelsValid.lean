/-
The generated validation kernels (constructor checks of signal types and attributes, the enum
value checks) equal the functions of the hand models that re-implement them:
Acme.Payload.step (.typeNew ..), Acme.Attr.newInt / newFloat, Acme.Payload.hasValName /
verifyValueIndex.
-/
import Acme.Gen.Kernels
import Acme.Core.Payload
import Acme.Core.Attr
import Acme.Proofs.GenKernelsEnum

namespace Acme.GenK

open Acme.Gen Acme.GoSem

/-! ### `newSignalTypeFromEntity` -/

/-- the outcome of the model's `typeNew` step as the constructor's result -/
def typeOut : Option KSigType × Option (K.VCause × String) → Acme.Payload.Out
  | (some _, none) => .ok []
  | (_, some (.ErrIsNegative, _)) => .err .negative
  | (_, some (.ErrIsZero, _)) => .err .zero
  | _ => .unsupported

/-- the constructor as a function of its arguments -/
theorem newSignalType_eq (kind size : Int) (signed : Bool) (mn mx sc off : Rat) :
    K.newSignalTypeFromEntity kind size signed mn mx sc off =
      if size < 0 then (none, some (.ErrIsNegative, "size"))
      else if size = 0 then (none, some (.ErrIsZero, "size"))
      else (some ⟨kind, size, signed, mn, mx, sc, off⟩, none) := rfl

/-- signal_type.go `newSignalTypeFromEntity` accepts exactly when the model's `typeNew` step does,
    with the same cause, and the created type has the given size -/
theorem newSignalType_step (w : Acme.Payload.W) (t : Nat) (ht : (w.types.get t).isSome = false)
    (kind size : Int) (signed : Bool) (mn mx sc off : Rat) :
    (Acme.Payload.step w (.typeNew t size)).2 =
      typeOut (K.newSignalTypeFromEntity kind size signed mn mx sc off) ∧
    ∀ ty, (K.newSignalTypeFromEntity kind size signed mn mx sc off).1 = some ty →
      (Acme.Payload.step w (.typeNew t size)).1.types.get t = some ⟨ty.size⟩ := by
  rw [newSignalType_eq]
  simp only [Acme.Payload.step, ht]
  by_cases h1 : size < 0
  · simp [h1, typeOut]
  · by_cases h2 : size = 0
    · simp [h2, typeOut]
    · simp [h1, h2, typeOut, Acme.Payload.upd]

/-! ### `newIntegerAttributeFromBase`, `newFloatAttributeFromBase` -/

open Acme.Attr in
/-- the model's error as (cause, argument, target) -/
def attrErr : ImpErr → Option (K.VCause × String × String)
  | .minGreaterThanMax => some (.ErrGreaterThen, "min", "max")
  | .defGreaterThanMax => some (.ErrGreaterThen, "defValue", "max")
  | .defLowerThanMin => some (.ErrLowerThen, "defValue", "min")
  | _ => none

open Acme.Attr in
/-- attribute.go `newIntegerAttributeFromBase` = `Acme.Attr.newInt` (the name is the `base`
    attribute's, which is not translated; a new attribute is not hex) -/
theorem newIntegerAttribute_eq (name : String) (d mn mx : Int) :
    K.newIntegerAttribute d mn mx =
      match newInt name d mn mx false with
      | .ok _ => (some ⟨d, mn, mx, false⟩, none)
      | .error e => (none, attrErr e) := by
  unfold K.newIntegerAttribute newInt
  by_cases h1 : mn > mx
  · simp [h1, attrErr]
  · by_cases h2 : d > mx
    · simp [h1, h2, attrErr]
    · by_cases h3 : d < mn <;> simp [h1, h2, h3, attrErr]

open Acme.Attr in
theorem newIntegerAttribute_ok (name : String) (d mn mx : Int) (a : AttrDef)
    (h : newInt name d mn mx false = .ok a) : a = ⟨name, .int d mn mx false⟩ := by
  unfold newInt at h
  split at h <;> try cases h
  split at h <;> try cases h
  split at h <;> cases h
  rfl

open Acme.Attr in
/-- attribute.go `newFloatAttributeFromBase` = `Acme.Attr.newFloat`, the floats as the exact
    rationals they denote (comparisons only) -/
theorem newFloatAttribute_eq (name : String) (d mn mx : Rat) :
    K.newFloatAttribute d mn mx =
      match newFloat name d mn mx with
      | .ok _ => (some ⟨d, mn, mx⟩, none)
      | .error e => (none, attrErr e) := by
  unfold K.newFloatAttribute newFloat
  by_cases h1 : mn > mx
  · simp [h1, attrErr]
  · by_cases h2 : d > mx
    · simp [h1, h2, attrErr]
    · by_cases h3 : d < mn <;> simp [h1, h2, h3, attrErr]

/-! ### `verifyValueName`, `verifyValueIndex` -/

theorem verifyValueName_eq (names : List String) (name : String) :
    K.verifyValueName names name = if names.contains name then some .ErrIsDuplicated else none := by
  unfold K.verifyValueName
  cases names.contains name <;> simp

open Acme.Payload in
/-- signal_enum.go `verifyValueName` refuses exactly the names the model's `hasValName` finds -/
theorem verifyValueName_model (w : W) (values : List Nat) (name : String) :
    K.verifyValueName (values.map (valName w)) name =
      if hasValName w values name then some .ErrIsDuplicated else none := by
  rw [verifyValueName_eq]
  have : (values.map (valName w)).contains name = hasValName w values name := by
    unfold hasValName
    induction values with
    | nil => rfl
    | cons v rest ih =>
      simp only [List.map_cons, List.contains_cons, List.any_cons, ih]
      congr 1
      by_cases h : valName w v = name
      · simp [h]
      · have h' : ¬ name = valName w v := fun e => h e.symm
        simp [h, h']
  rw [this]

open Acme.Payload in
/-- the causes of the enum checks as the model's -/
def vexc : Option K.VCause → Except Cause Unit
  | none => .ok ()
  | some .ErrIsNegative => .error .negative
  | some .ErrIsZero => .error .zero
  | some .ErrIsDuplicated => .error .duplicated
  | some .ErrOutOfBounds => .error .outOfBounds
  | some .ErrNoSpaceLeft => .error .noSpaceLeft
  | some .ErrIntersect => .error .intersect
  | some .ErrTooSmall => .error .tooSmall
  | some _ => .error .nil

open Acme.Payload in
/-- a layout error of `verifySize` as the cause the enum check reports -/
def lexc : Except Acme.Layout.LErr Unit → Except Cause Unit
  | .error e => .error (lerrCause e)
  | .ok () => .ok ()

open Acme.Payload in
theorem contains_indexes (w : W) (values : List Nat) (i : Int) :
    (values.map (valIndex w)).contains i = hasIndex w values i := by
  unfold hasIndex
  induction values with
  | nil => rfl
  | cons v rest ih =>
    simp only [List.map_cons, List.contains_cons, List.any_cons, ih]
    congr 1
    by_cases h : valIndex w v = i
    · simp [h]
    · have h' : ¬ i = valIndex w v := fun e => h e.symm
      simp [h, h']

open Acme.Payload in
/-- signal_enum.go `verifyValueIndex` = `Acme.Payload.verifyValueIndex`: negative index, then an
    index already taken (the keys of `se.valueIndexes` ↦ the indexes of the enum's values), then
    `verifySize` of the size the enum would get (`calcEnumSize` ∘ `getMaxIndexWith`, both generated).
    `vs` is the opaque `se.verifySize`; `hvs` says it is the model's `enumVerifySize`. -/
theorem verifyValueIndex_eq (w : W) (en : EnumE) (v : Nat) (index : Int) (vs : Int → Option K.VCause)
    (hvs : ∀ n, vexc (vs n) = lexc (enumVerifySize w en n))
    (hmax : maxIndexWith w en.values v index < 2 ^ 64) :
    vexc (K.verifyValueIndex (en.values.map (valIndex w)) vs en.minSize (viewVals w en.values) v index) =
      verifyValueIndex w en v index := by
  unfold K.verifyValueIndex verifyValueIndex
  rw [contains_indexes, getMaxIndexWith_eq, calcEnumSize_eq _ _ hmax]
  by_cases h1 : index < 0
  · simp [h1, vexc]
  · by_cases h2 : hasIndex w en.values index = true
    · simp [h1, h2, vexc]
    · simp only [h1, h2, if_false, Bool.false_eq_true]
      have := hvs (Acme.Arith.enumSize en.minSize (maxIndexWith w en.values v index))
      cases he : enumVerifySize w en (Acme.Arith.enumSize en.minSize (maxIndexWith w en.values v index)) with
      | error e =>
        rw [he] at this
        cases hv : vs (Acme.Arith.enumSize en.minSize (maxIndexWith w en.values v index)) with
        | none => rw [hv] at this; simpa [lexc] using this
        | some c => rw [hv] at this; simpa [lexc] using this
      | ok u =>
        rw [he] at this
        cases hv : vs (Acme.Arith.enumSize en.minSize (maxIndexWith w en.values v index)) with
        | none => rw [hv] at this; simpa [lexc] using this
        | some c => rw [hv] at this; simpa [lexc] using this

end Acme.GenK
