/-
The invariant groups of `Acme.Spec.Graph` as forward rules for `grind`: each direction
of every "index agrees with contents" equivalence is one rule, triggered by the facts in
its premises.
-/
import Acme.Proofs.GraphHelpers

namespace Acme.Graph

section
variable {N : AMap NetE} {B : AMap BusE} {I : AMap IfaceE} {D : AMap NodeE} {M : AMap MsgE}
  {C : AMap BuilderE} {A : AMap AttrE} {S : AMap SigE} {T U : AMap DefE}

/-! network ↔ bus -/
theorem NetI.b1 (h : NetI N B) {n b v : Nat} (h1 : (netBuses N n).get b = some v) :
    v = b ∧ busParent B b = some n := (h.buses_get n b v).1 h1
theorem NetI.b2 (h : NetI N B) {n b : Nat} (h1 : busParent B b = some n) :
    (netBuses N n).get b = some b := (h.buses_get n b b).2 ⟨rfl, h1⟩
theorem NetI.n1 (h : NetI N B) {n b : Nat} {name : String} (h1 : (netBusNames N n).get name = some b) :
    busParent B b = some n ∧ busName B b = some name :=
  ⟨(h.b1 ((h.names_get n name b).1 h1).1).2, ((h.names_get n name b).1 h1).2⟩
theorem NetI.n2 (h : NetI N B) {n b : Nat} {name : String} (h1 : busParent B b = some n)
    (h2 : busName B b = some name) : (netBusNames N n).get name = some b :=
  (h.names_get n name b).2 ⟨h.b2 h1, h2⟩

/-! bus ↔ interface -/
theorem BusI.i1 (h : BusI B I D) {b nd i : Nat} (h1 : (busNodeInts B b).get nd = some i) :
    ifaceNode I i = some nd ∧ ifaceBus I i = some b := (h.ints_get b nd i).1 h1
theorem BusI.i2 (h : BusI B I D) {b nd i : Nat} (h1 : ifaceNode I i = some nd) (h2 : ifaceBus I i = some b) :
    (busNodeInts B b).get nd = some i := (h.ints_get b nd i).2 ⟨h1, h2⟩
theorem BusI.n1 (h : BusI B I D) {b nd : Nat} {name : String} (h1 : (busNodeNames B b).get name = some nd) :
    (∃ i, (busNodeInts B b).get nd = some i) ∧ nodeNameC D nd = name := by
  have := (h.names_get b name nd).1 h1
  refine ⟨?_, this.2⟩
  cases hh : (busNodeInts B b).get nd with
  | none => exact absurd hh this.1
  | some i => exact ⟨i, rfl⟩
theorem BusI.n2 (h : BusI B I D) {b nd i : Nat} (h1 : (busNodeInts B b).get nd = some i) :
    (busNodeNames B b).get (nodeNameC D nd) = some nd :=
  (h.names_get b _ nd).2 ⟨by rw [h1]; simp, rfl⟩
theorem BusI.d1 (h : BusI B I D) {b nd nid : Nat} (h1 : (busNodeIDs B b).get nid = some nd) :
    (∃ i, (busNodeInts B b).get nd = some i) ∧ nodeNidC D nd = nid := by
  have := (h.ids_get b nid nd).1 h1
  refine ⟨?_, this.2⟩
  cases hh : (busNodeInts B b).get nd with
  | none => exact absurd hh this.1
  | some i => exact ⟨i, rfl⟩
theorem BusI.d2 (h : BusI B I D) {b nd i : Nat} (h1 : (busNodeInts B b).get nd = some i) :
    (busNodeIDs B b).get (nodeNidC D nd) = some nd :=
  (h.ids_get b _ nd).2 ⟨by rw [h1]; simp, rfl⟩

/-- the bus of an attached interface exists -/
theorem BusI.bus_exists (h : BusI B I D) {b nd i : Nat} (h1 : ifaceNode I i = some nd) (h2 : ifaceBus I i = some b) :
    B.get b ≠ none := by
  intro hn
  have := h.i2 h1 h2
  rw [busNodeInts_of_none hn] at this
  cases this

/-! bus static CAN-IDs -/
theorem StaticI.s1 (h : StaticI B I M) {b c m : Nat} (h1 : (busStaticIDs B b).get c = some m) :
    msgStatic M m = some c ∧ ∃ i, msgSender M m = some i ∧ ifaceBus I i = some b := (h.static_get b c m).1 h1
theorem StaticI.s2 (h : StaticI B I M) {b c m i : Nat} (h1 : msgStatic M m = some c)
    (h2 : msgSender M m = some i) (h3 : ifaceBus I i = some b) : (busStaticIDs B b).get c = some m :=
  (h.static_get b c m).2 ⟨h1, i, h2, h3⟩

/-! interface ↔ sent message -/
theorem SentI.s1 (h : SentI I M) {i m v : Nat} (h1 : (ifaceSent I i).get m = some v) :
    v = m ∧ msgSender M m = some i := (h.sent_get i m v).1 h1
theorem SentI.s2 (h : SentI I M) {i m : Nat} (h1 : msgSender M m = some i) :
    (ifaceSent I i).get m = some m := (h.sent_get i m m).2 ⟨rfl, h1⟩
theorem SentI.n1 (h : SentI I M) {i m : Nat} {name : String} (h1 : (ifaceSentNames I i).get name = some m) :
    msgSender M m = some i ∧ msgName M m = some name :=
  ⟨(h.s1 ((h.names_get i name m).1 h1).1).2, ((h.names_get i name m).1 h1).2⟩
theorem SentI.n2 (h : SentI I M) {i m : Nat} {name : String} (h1 : msgSender M m = some i)
    (h2 : msgName M m = some name) : (ifaceSentNames I i).get name = some m :=
  (h.names_get i name m).2 ⟨h.s2 h1, h2⟩
theorem SentI.i1 (h : SentI I M) {i m mid : Nat} (h1 : (ifaceSentIDs I i).get mid = some m) :
    msgSender M m = some i ∧ msgMid M m = some mid ∧ msgStatic M m = none :=
  ⟨(h.s1 ((h.ids_get i mid m).1 h1).1).2, ((h.ids_get i mid m).1 h1).2⟩
theorem SentI.i2 (h : SentI I M) {i m mid : Nat} (h1 : msgSender M m = some i)
    (h2 : msgMid M m = some mid) (h3 : msgStatic M m = none) : (ifaceSentIDs I i).get mid = some m :=
  (h.ids_get i mid m).2 ⟨h.s2 h1, h2, h3⟩
theorem SentI.t1 (h : SentI I M) {i m c : Nat} (h1 : (ifaceSentStatic I i).get c = some m) :
    msgSender M m = some i ∧ msgStatic M m = some c :=
  ⟨(h.s1 ((h.static_get i c m).1 h1).1).2, ((h.static_get i c m).1 h1).2⟩
theorem SentI.t2 (h : SentI I M) {i m c : Nat} (h1 : msgSender M m = some i)
    (h2 : msgStatic M m = some c) : (ifaceSentStatic I i).get c = some m :=
  (h.static_get i c m).2 ⟨h.s2 h1, h2⟩

/-! interface ↔ received message -/
theorem RecvI.v (h : RecvI I M) {i m v : Nat} (h1 : (ifaceRecv I i).get m = some v) : v = m :=
  h.recv_val i m v h1
theorem RecvI.r1 (h : RecvI I M) {i nd m v : Nat} (h0 : ifaceNode I i = some nd)
    (h1 : (ifaceRecv I i).get m = some v) : (msgReceivers M m).get nd = some i := by
  have hv := h.recv_val i m v h1; rw [hv] at h1; exact (h.recv_get i nd m h0).1 h1
theorem RecvI.r2 (h : RecvI I M) {i nd m : Nat} (h1 : (msgReceivers M m).get nd = some i) :
    ifaceNode I i = some nd ∧ (ifaceRecv I i).get m = some m :=
  ⟨h.receivers_node m nd i h1, (h.recv_get i nd m (h.receivers_node m nd i h1)).2 h1⟩

/-! node ↔ interfaces -/
theorem NodeI.nd (h : NodeI D I) {n i : Nat} (h1 : i ∈ nodeIfaces D n) : ifaceNode I i = some n :=
  h.ifaces_node n i h1
theorem NodeI.num (h : NodeI D I) {n k i : Nat} (h1 : (nodeIfaces D n)[k]? = some i) :
    ifaceNumber I i = (k : Int) := h.ifaces_num n k i h1
theorem NodeI.ex (h : NodeI D I) {n i : Nat} (h1 : ifaceNode I i = some n) : ∃ e, D.get n = some e := by
  have := h.node_exists i n h1
  cases hh : D.get n with
  | none => exact absurd hh this
  | some e => exact ⟨e, rfl⟩
theorem NodeI.live (h : NodeI D I) {n i b : Nat} (h1 : ifaceNode I i = some n) (h2 : ifaceBus I i = some b) :
    i ∈ nodeIfaces D n := h.attached_live i n b h1 h2

/-! references -/
theorem BuilderI.m1 (h : BuilderI C B) {c b : Nat} (h1 : b ∈ builderRefs C c) : busBuilder B b = some c :=
  (h.refs_mem c b).1 h1
theorem BuilderI.m2 (h : BuilderI C B) {c b : Nat} (h1 : busBuilder B b = some c) : b ∈ builderRefs C c :=
  (h.refs_mem c b).2 h1
theorem TypeI.m1 (h : TypeI T S) {t s : Nat} (h1 : s ∈ defRefs T t) : sigTyp S s = some t :=
  (h.refs_mem t s).1 h1
theorem TypeI.m2 (h : TypeI T S) {t s : Nat} (h1 : sigTyp S s = some t) : s ∈ defRefs T t :=
  (h.refs_mem t s).2 h1
theorem UnitI.m1 (h : UnitI U S) {u s : Nat} (h1 : s ∈ defRefs U u) : sigUnit S s = some u :=
  (h.refs_mem u s).1 h1
theorem UnitI.m2 (h : UnitI U S) {u s : Nat} (h1 : sigUnit S s = some u) : s ∈ defRefs U u :=
  (h.refs_mem u s).2 h1
theorem AttrI.m1 (h : AttrI A B D M S) {a x : Nat} (h1 : x ∈ attrRefs A a) :
    (busAttrs B x).get a ≠ none ∨ (nodeAttrs D x).get a ≠ none ∨
    (msgAttrs M x).get a ≠ none ∨ (sigAttrs S x).get a ≠ none := (h.refs_mem a x).1 h1
theorem AttrI.mb (h : AttrI A B D M S) {a x v : Nat} (h1 : (busAttrs B x).get a = some v) : x ∈ attrRefs A a :=
  (h.refs_mem a x).2 (Or.inl (by rw [h1]; simp))
theorem AttrI.md (h : AttrI A B D M S) {a x v : Nat} (h1 : (nodeAttrs D x).get a = some v) : x ∈ attrRefs A a :=
  (h.refs_mem a x).2 (Or.inr (Or.inl (by rw [h1]; simp)))
theorem AttrI.mm (h : AttrI A B D M S) {a x v : Nat} (h1 : (msgAttrs M x).get a = some v) : x ∈ attrRefs A a :=
  (h.refs_mem a x).2 (Or.inr (Or.inr (Or.inl (by rw [h1]; simp))))
theorem AttrI.ms (h : AttrI A B D M S) {a x v : Nat} (h1 : (sigAttrs S x).get a = some v) : x ∈ attrRefs A a :=
  (h.refs_mem a x).2 (Or.inr (Or.inr (Or.inr (by rw [h1]; simp))))
end

end Acme.Graph
