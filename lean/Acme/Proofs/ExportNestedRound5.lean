/-
C11 at message level, nested multiplexers, part 10: indices of the multiplexors, the nested
multiplexers handed to their parent, one multiplexer rebuilt.
-/
import Acme.Proofs.ExportNestedRound4

namespace Acme.Import
open Acme.Layout Acme.Conv Acme.Arith

theorem muxIdx_name (H : List DSig) (nm : String) (i : Nat) (h : muxIdx H nm = some i) :
    H[i]?.map (·.name) = some nm := by
  unfold muxIdx at h
  dsimp only at h
  obtain ⟨ys, hys⟩ := List.getLast?_eq_some_iff.1 h
  have : i ∈ (List.range H.length).filter (fun i => (H[i]?.map (·.name)) == some nm) := by
    rw [hys]; simp
  simpa using (List.mem_filter.1 this).2

theorem muxIdx_of_mem (H : List DSig) (hnd : (H.map (·.name)).Nodup) (nm : String) (h : nm ∈ H.map (·.name)) :
    ∃ i, muxIdx H nm = some i := by
  obtain ⟨x, hx, rfl⟩ := List.mem_map.1 h
  obtain ⟨i, hi⟩ := List.getElem?_of_mem hx
  exact ⟨i, muxIdx_of_nodup H hnd i x hi⟩

theorem zipIdx_map_exOf : ∀ (R : List PRec) (k : Nat),
    (R.zipIdx k).map exOf = R.map (fun r => (r.par, nestedKid r.mx r.nd))
  | [], _ => rfl
  | a :: rest, k => by
    simp only [List.zipIdx_cons, List.map_cons, zipIdx_map_exOf rest (k + 1)]
    rfl

theorem filter_reverse' {α : Type} (p : α → Bool) : ∀ l : List α, l.reverse.filter p = (l.filter p).reverse
  | [] => rfl
  | a :: r => by
    rw [List.reverse_cons, List.filter_append, filter_reverse' p r]
    cases h : p a <;> simp [List.filter_cons, h]

section
variable {t : ITree} {r : MuxNode} (c : NCtx t r)
include c

theorem NCtx.hxNodup : ((Hx t).map (·.name)).Nodup := by
  unfold Hx Sx
  exact (List.Sublist.map _ List.filter_sublist).nodup c.sortedNodup

theorem NCtx.node_name_mem (m : MuxNode) (hm : m ∈ r :: reach t r) : m.name ∈ (Hx t).map (·.name) := by
  rw [c.hxNames]
  rcases List.mem_cons.1 hm with rfl | hm
  · exact List.mem_cons_self ..
  · apply List.mem_cons_of_mem
    rw [c.below_eq] at hm
    obtain ⟨d, hd, hs⟩ := List.mem_filterMap.1 hm
    obtain ⟨hd1, hd2⟩ := List.mem_filter.1 hd
    obtain ⟨g, _⟩ := c.good d hd1
    rw [(g.link m hs).2.2.2.2.2]
    refine List.mem_map.2 ⟨d, ?_, rfl⟩
    exact (sortBy_perm _ _).mem_iff.2 hd

theorem NCtx.node_idx (m : MuxNode) (hm : m ∈ r :: reach t r) : ∃ i, muxIdx (Hx t) m.name = some i :=
  muxIdx_of_mem _ c.hxNodup _ (c.node_name_mem m hm)

/-- the nested multiplexers handed to the multiplexor of index `j` (the node `m`) -/
theorem NCtx.pendCore (Z : List (DSig × DEntry))
    (hZ1 : ∀ z ∈ Z, eraseSw z.1 = sigOfD t.bigEndian t.nested z.2) (hZ2 : Z.map (·.2) = Ds t r)
    (m : MuxNode) (hm : m ∈ r :: reach t r) (j : Nat) (hj : muxIdx (Hx t) m.name = some j) :
    (pendingFor ((((Z.map (mkRec t)).zipIdx 1).reverse).map exOf) j).map sigCore =
      (((sortBy (kidKey t.bigEndian m) ((seenChildren m).filter (fun p => p.1.isMux))).reverse).map (·.1)).map
        (kidCore m) := by
  have hzmem : ∀ z ∈ Z, z.2 ∈ Ds t r := by
    intro z hz
    rw [← hZ2]
    exact List.mem_map.2 ⟨z, hz, rfl⟩
  unfold pendingFor
  rw [List.map_reverse, zipIdx_map_exOf, filter_reverse', List.map_reverse, List.map_reverse,
    List.map_reverse, List.map_reverse]
  congr 1
  simp only [List.map_map, List.filter_map, Function.comp_def]
  have h1 : Z.filter (fun x => (mkRec t x).par == j) =
      Z.filter (fun z => z.2.1.name == m.name) := by
    apply List.filter_congr
    intro z hz
    obtain ⟨hd1, _⟩ := c.ds_mem z.2 (hzmem z hz)
    obtain ⟨_, hown⟩ := c.good z.2 hd1
    obtain ⟨i, hi⟩ := c.node_idx z.2.1 hown
    simp only [mkRec, hi, Option.getD_some]
    by_cases he : z.2.1.name = m.name
    · rw [he] at hi
      rw [hi] at hj
      injection hj with hj
      simp [he, hj]
    · have : i ≠ j := by
        intro hij
        rw [hij] at hi
        have h3 := muxIdx_name _ _ _ hi
        have h4 := muxIdx_name _ _ _ hj
        rw [h3] at h4
        injection h4 with h4
        exact he h4
      simp [he, this]
  rw [h1]
  have h2 : (Z.filter (fun z => z.2.1.name == m.name)).map
      (fun x => sigCore (nestedKid (mkRec t x).mx (mkRec t x).nd)) =
      ((Z.filter (fun z => z.2.1.name == m.name)).map (·.2)).map (fun d => kidCore d.1 d.2.1) := by
    rw [List.map_map]
    apply List.map_congr_left
    intro z hz
    have hzZ := (List.mem_filter.1 hz).1
    obtain ⟨hd1, hd2⟩ := c.ds_mem z.2 (hzmem z hzZ)
    obtain ⟨g, _⟩ := c.good z.2 hd1
    have he := hZ1 z hzZ
    unfold isSub at hd2
    cases hsub : subOf t.nested z.2.2.1 with
    | none => rw [hsub] at hd2; cases hd2
    | some sub =>
      obtain ⟨k1, k2, k3, _, hoks, k6⟩ := g.link sub hsub
      have hsig : eraseSw z.1 = headSig t.bigEndian true sub := by
        rw [he]; unfold sigOfD; rw [hsub]
      have hn : z.1.name = sub.name := congrArg DSig.name hsig
      have hs : z.1.start = fileStart t.bigEndian sub.start := congrArg DSig.start hsig
      have hb : z.1.bigEndian = t.bigEndian := congrArg DSig.bigEndian hsig
      have hmr : z.1.isMultiplexor = true := congrArg DSig.isMultiplexor hsig
      have hc := (seen_invN z.2.1 g.ok).sub z.2.2 g.seen
      obtain ⟨r0, _⟩ := child_boundsN z.2.1 g.ok z.2.2.1 hc
      have := g.ok.w1
      have := g.start0
      have hpos : sigPos (nestedKid z.1 (normNodeN t.bigEndian (subNode t.nested z.2))) = sub.start :=
        sigPos_of t.bigEndian _ (by omega) _ hs hb
      have hsn : subNode t.nested z.2 = sub := by unfold subNode; rw [hsub]; rfl
      have hpos' : sigPos (nestedKid (mkRec t z).mx (mkRec t z).nd) = sub.start := hpos
      simp only [Function.comp, sigCore, kidCore, Prod.mk.injEq]
      refine ⟨?_, ?_, ?_, ?_⟩
      · show z.1.name = _
        rw [hn, k6]
      · rw [hpos', k3]
      · show (((normNodeN t.bigEndian (subNode t.nested z.2)).groupSize +
            (normNodeN t.bigEndian (subNode t.nested z.2)).selW).toNat : Int) = _
        rw [hsn, k2]
        have := hoks.w1; have := hoks.gsPos
        exact Int.toNat_of_nonneg (by show 0 ≤ sub.groupSize + sub.selW; omega)
      · show z.1.isMultiplexor = _
        rw [hmr, k1]
  rw [h2]
  have h3 : (Z.filter (fun z => z.2.1.name == m.name)).map (·.2) =
      (Z.map (·.2)).filter (fun d => d.1.name == m.name) := by
    rw [List.filter_map]
    rfl
  rw [h3, hZ2, c.subsOf m hm, List.map_map]
  rfl

/-- one multiplexer of the tree, rebuilt by `importMuxSignal` -/
theorem NCtx.node_import (m : MuxNode) (hm : m ∈ r :: reach t r) (mx : DSig) (h1 : mx.name = m.name)
    (h2 : sigPos mx = m.start) (h3 : (mx.size : Int) = m.selW) (pend : List DSig)
    (hp : pend.map sigCore =
      (((sortBy (kidKey t.bigEndian m) ((seenChildren m).filter (fun p => p.1.isMux))).reverse).map (·.1)).map
        (kidCore m)) :
    importMux (exportMsgN t).exts mx ((Sx t).filter (Pn t m.name) ++ pend) = .ok (normNodeN t.bigEndian m) := by
  obtain ⟨hok, h0, _⟩ := c.nodeOK m hm
  have hE : ∀ ch ∈ m.children, findExt (exportMsgN t).exts ch.name = some (extN m ch) := by
    intro ch hch
    obtain ⟨p, hp, rfl⟩ := List.mem_map.1 ((seen_memN m hok ch).2 hch)
    exact c.ext_found (m, p) (c.entry_of m hm p hp)
  have hperm : (normNodeN t.bigEndian m).children.Perm m.children := by
    simp only [normNodeN]
    refine List.Perm.trans ?_ (seen_permN m hok)
    rw [← List.map_append]
    apply List.Perm.map
    refine (List.Perm.append (sortBy_perm _ _) ((List.reverse_perm _).trans (sortBy_perm _ _))).trans ?_
    have := List.filter_append_perm (fun p : Child × Int => p.1.isMux) (seenChildren m)
    exact (List.perm_append_comm).trans this
  have := importMux_nested (exportMsgN t).exts m hok h0 hE mx h1 h2 h3 (normNodeN t.bigEndian m).children
    ((Sx t).filter (Pn t m.name) ++ pend)
    (by
      rw [List.map_append, c.kidsCore m hm, hp]
      simp only [normNodeN, List.map_append])
    hperm
  rw [this]
  rfl

end

end Acme.Import
