/-
`Inv` is preserved by the network / bus-naming operations:
netNew, netAddBus, netRemoveBus, netRemoveAllBuses, busNew, busRename.
-/
import Acme.Proofs.GraphTac

namespace Acme.Graph

theorem stepNetNew_inv {g : G} (h : Inv g) (n : Nat) (name : String) : Inv (stepNetNew g n name).1 := by
  unfold stepNetNew
  split
  · exact h
  · inv_groups h []

theorem stepNetAddBus_inv {g : G} (h : Inv g) (n b : Nat) : Inv (stepNetAddBus g n b).1 := by
  unfold stepNetAddBus
  repeat' split
  all_goals first | exact h | skip
  inv_groups h []

/-- a bus listed by a network: the ground facts about it -/
theorem NetI.listed {N : AMap NetE} {B : AMap BusE} (h : NetI N B) {n b : Nat} {net : NetE} {bus : BusE}
    (hn : N.get n = some net) (hb : B.get b = some bus) (hhas : net.buses.get b ≠ none) :
    busParent B b = some n ∧ (netBuses N n).get b = some b ∧ (netBusNames N n).get bus.name = some b := by
  have s0 : netBuses N n = net.buses := netBuses_of_get hn
  obtain ⟨v, hv⟩ : ∃ v, (netBuses N n).get b = some v := by
    rw [s0]; cases hh : net.buses.get b with
    | none => exact absurd hh hhas
    | some v => exact ⟨v, rfl⟩
  have s1 := h.b1 hv
  exact ⟨s1.2, h.b2 s1.2, h.n2 s1.2 (busName_of_get hb)⟩

theorem stepNetRemoveBus_inv {g : G} (h : Inv g) (n b : Nat) : Inv (stepNetRemoveBus g n b).1 := by
  unfold stepNetRemoveBus
  repeat' split
  all_goals first | exact h | skip
  rename_i _ net hn hhas _ bus hb
  inv_norm
  have s := h.net.listed hn hb hhas
  inv_groups h []

theorem stepBusNew_inv {g : G} (h : Inv g) (b : Nat) (name : String)
    (hx : g.nodes.get b = none ∧ g.msgs.get b = none ∧ g.sigs.get b = none) : Inv (stepBusNew g b name).1 := by
  unfold stepBusNew
  repeat' split
  all_goals first | exact h | skip
  inv_groups h []

theorem stepBusRename_inv {g : G} (h : Inv g) (b : Nat) (name : String) : Inv (stepBusRename g b name).1 := by
  unfold stepBusRename
  repeat' split
  all_goals first | exact h | skip
  · inv_groups h []
  · rename_i _ bus hb hne _ n hp _ net hn hfree
    have s1 : busParent g.buses b = some n := by rw [busParent_of_get hb]; exact hp
    have s2 := h.net.b2 s1
    have s3 := h.net.n2 s1 (busName_of_get hb)
    inv_groups h []

/-- the values of a network's `buses` registry are exactly the buses reporting it as parent -/
theorem NetI.mem_vals {N : AMap NetE} {B : AMap BusE} (h : NetI N B) {n : Nat} {net : NetE}
    (hn : N.get n = some net) (b : Nat) : b ∈ net.buses.vals ↔ busParent B b = some n := by
  have s0 : netBuses N n = net.buses := netBuses_of_get hn
  rw [← s0, Reg.mem_vals (h.buses_nodup n)]
  constructor
  · rintro ⟨k, hk⟩
    have := h.b1 hk
    have h2 := this.1; subst h2
    exact (h.b1 hk).2
  · intro hp; exact ⟨b, h.b2 hp⟩

theorem stepNetRemoveAllBuses_inv {g : G} (h : Inv g) (n : Nat) : Inv (stepNetRemoveAllBuses g n).1 := by
  unfold stepNetRemoveAllBuses
  repeat' split
  all_goals first | exact h | skip
  rename_i _ net hn
  have hv := h.net.mem_vals hn
  inv_groups h []

end Acme.Graph
