/-
The attribute round trip assembled: the exported `BA_` lines of one entity resolve to the actions
of that entity, the actions of all entities are selected back by key, and the folds rebuild the
sorted assignment lists and the dedicated fields.
-/
import Acme.Proofs.AttrVals

namespace Acme.Attr
open Acme.Conv

/-! ## the actions an entity's lines resolve to -/

def msgFieldActs (f : MsgF) : List Action :=
  (if f.cycle ≠ 0 then [Action.cycle f.cycle] else []) ++
  (if f.delay ≠ 0 then [Action.delay f.delay] else []) ++
  (if f.startDelay ≠ 0 then [Action.startDelay f.startDelay] else []) ++
  (if f.send ≠ .unset then [Action.msgSend f.send] else [])

def sigFieldActs (f : SigF) : List Action :=
  (if f.start ≠ 0 then [Action.sigStart f.start] else []) ++
  (if f.send ≠ .unset then [Action.sigSend f.send] else [])

def entActList : Ent → List Action
  | .node _ a => (normAsgs a).map Action.assign
  | .msg _ f a => (normAsgs a).map Action.assign ++ msgFieldActs f
  | .sig _ _ f a => (normAsgs a).map Action.assign ++ sigFieldActs f

def entActs (e : Ent) : List (Key × Action) := (entActList e).map (fun x => (e.key, x))

def busActs (asgs : List Asg) : List (Key × Action) :=
  (normAsgs asgs).map (fun a => (Key.bus, Action.assign a))

theorem mapE_ite {c : Prop} [Decidable c] {F : DValue → Except ImpErr (Option (Key × Action))}
    {x : Asg} {mk : Asg → Item} {y : Action} {pk : Action → Key × Action}
    (h : c → F (exportItem (mk x)) = .ok (some (pk y))) :
    mapE F (((if c then [x] else []).map mk).map exportItem) =
      .ok (((if c then [y] else []).map pk).map some) := by
  by_cases hc : c
  · simp only [hc, if_true, List.map_cons, List.map_nil, mapE, h hc]
  · simp only [hc, if_false, List.map_nil, mapE]

theorem mem_msgSpecials_cycle (f : MsgF) (h : f.cycle ≠ 0) :
    (⟨msgCycleTimeAtt, .int f.cycle⟩ : Asg) ∈ msgSpecials f := by simp [msgSpecials, h]
theorem mem_msgSpecials_delay (f : MsgF) (h : f.delay ≠ 0) :
    (⟨msgDelayTimeAtt, .int f.delay⟩ : Asg) ∈ msgSpecials f := by simp [msgSpecials, h]
theorem mem_msgSpecials_startDelay (f : MsgF) (h : f.startDelay ≠ 0) :
    (⟨msgStartDelayTimeAtt, .int f.startDelay⟩ : Asg) ∈ msgSpecials f := by simp [msgSpecials, h]
theorem mem_msgSpecials_send (f : MsgF) (h : f.send ≠ .unset) :
    (⟨msgSendTypeAtt, .str (msgSendToDBC f.send)⟩ : Asg) ∈ msgSpecials f := by simp [msgSpecials, h]
theorem mem_sigSpecials_start (f : SigF) (h : f.start ≠ 0) :
    (⟨sigStartValueAtt, .float f.start⟩ : Asg) ∈ sigSpecials f := by simp [sigSpecials, h]
theorem mem_sigSpecials_send (f : SigF) (h : f.send ≠ .unset) :
    (⟨sigSendTypeAtt, .str (sigSendToDBC f.send)⟩ : Asg) ∈ sigSpecials f := by simp [sigSpecials, h]

theorem user_resolve (keys : List Key) (table : List Entry) (l : List Asg) (mk : Asg → Item) (k : Key)
    (h : ∀ a ∈ l, resolve keys table (exportItem (mk a)) = .ok (some (k, .assign (normAsg a)))) :
    mapE (resolve keys table) ((l.map mk).map exportItem) =
      .ok ((((l.map normAsg).map Action.assign).map (fun x => (k, x))).map some) := by
  rw [List.map_map, List.map_map, List.map_map, List.map_map]
  exact mapE_map_ok_of_forall l h

theorem ent_resolve (keys : List Key) (table : List Entry) (e : Ent) (hk : e.key ∈ keys)
    (hl : ∀ it ∈ entItems e, lookupEntry table it.asg.att.name = some (entryOf (normAtt it.asg.att)))
    (hok : ∀ a ∈ e.asgs, DefOK a.att.ty ∧ ValOK a ∧ special? a.att.name = none) :
    mapE (resolve keys table) ((entItems e).map exportItem) = .ok ((entActs e).map some) := by
  have asgOK : ∀ (mk : Asg → Item), (∀ a ∈ sortAsgs e.asgs, mk a ∈ entItems e) →
      (∀ a, (mk a).asg = a) → ∀ a ∈ sortAsgs e.asgs, AsgOK table a := by
    intro mk hmk hasg a ha
    obtain ⟨h1, h3, h4⟩ := hok a (mem_sortAsgs.1 ha)
    have := hl (mk a) (hmk a ha)
    rw [hasg a] at this
    exact ⟨this, h1, h3, h4⟩
  cases e with
  | node n asgs =>
    simp only [Ent.key] at hk
    simp only [entItems, entActs, entActList, Ent.key, normAsgs]
    apply user_resolve
    intro a ha
    exact resolve_node keys table n hk a
      (asgOK (⟨.node, .node n, ·⟩) (fun a ha => List.mem_map_of_mem ha) (fun _ => rfl) a ha)
  | msg id f asgs =>
    simp only [Ent.key] at hk
    have hmem : ∀ x ∈ msgSpecials f, (⟨.message, .msg id, x⟩ : Item) ∈ entItems (.msg id f asgs) := by
      intro x hx
      exact List.mem_map_of_mem (List.mem_append_right _ hx)
    simp only [entItems, entActs, entActList, Ent.key, List.map_append, msgSpecials, msgFieldActs, normAsgs]
    refine mapE_append_ok _ _ _ _ ?_ (mapE_append_ok _ _ _ _ (mapE_append_ok _ _ _ _ (mapE_append_ok _ _ _ _ ?_ ?_) ?_) ?_)
    · apply user_resolve
      intro a ha
      exact resolve_msg keys table id hk a
        (asgOK (⟨.message, .msg id, ·⟩) (fun a ha => List.mem_map_of_mem (List.mem_append_left _ ha))
          (fun _ => rfl) a ha)
    · apply mapE_ite
      intro hc
      exact resolve_cycle keys table id hk _ (hl _ (hmem _ (mem_msgSpecials_cycle f hc)))
    · apply mapE_ite
      intro hc
      exact resolve_delay keys table id hk _ (hl _ (hmem _ (mem_msgSpecials_delay f hc)))
    · apply mapE_ite
      intro hc
      exact resolve_startDelay keys table id hk _ (hl _ (hmem _ (mem_msgSpecials_startDelay f hc)))
    · apply mapE_ite
      intro hc
      exact resolve_msgSend keys table id hk _ (hl _ (hmem _ (mem_msgSpecials_send f hc)))
  | sig id n f asgs =>
    simp only [Ent.key] at hk
    have hmem : ∀ x ∈ sigSpecials f, (⟨.signal, .sig id n, x⟩ : Item) ∈ entItems (.sig id n f asgs) := by
      intro x hx
      exact List.mem_map_of_mem (List.mem_append_right _ hx)
    simp only [entItems, entActs, entActList, Ent.key, List.map_append, sigSpecials, sigFieldActs, normAsgs]
    refine mapE_append_ok _ _ _ _ ?_ (mapE_append_ok _ _ _ _ ?_ ?_)
    · apply user_resolve
      intro a ha
      exact resolve_sig keys table id n hk a
        (asgOK (⟨.signal, .sig id n, ·⟩) (fun a ha => List.mem_map_of_mem (List.mem_append_left _ ha))
          (fun _ => rfl) a ha)
    · apply mapE_ite
      intro hc
      exact resolve_sigStart keys table id n hk _ (hl _ (hmem _ (mem_sigSpecials_start f hc)))
    · apply mapE_ite
      intro hc
      exact resolve_sigSend keys table id n hk _ (hl _ (hmem _ (mem_sigSpecials_send f hc)))

theorem bus_resolve (keys : List Key) (table : List Entry) (asgs : List Asg)
    (hl : ∀ it ∈ busItems asgs, lookupEntry table it.asg.att.name = some (entryOf (normAtt it.asg.att)))
    (hok : ∀ a ∈ asgs, DefOK a.att.ty ∧ ValOK a ∧ special? a.att.name = none) :
    mapE (resolve keys table) ((busItems asgs).map exportItem) = .ok ((busActs asgs).map some) := by
  simp only [busItems, busActs, normAsgs]
  rw [List.map_map, List.map_map, List.map_map]
  apply mapE_map_ok_of_forall
  intro a ha
  obtain ⟨h1, h3, h4⟩ := hok a (mem_sortAsgs.1 ha)
  have := hl ⟨.general, .general, a⟩ (List.mem_map_of_mem ha)
  exact resolve_bus keys table a ⟨this, h1, h3, h4⟩

/-! ## the folds -/

theorem mem_ite_singleton {α : Type} {c : Prop} [Decidable c] {a x : α}
    (h : x ∈ (if c then [a] else [])) : x = a := by
  split at h
  · exact List.mem_singleton.1 h
  · cases h

theorem msgFieldActs_isField (f : MsgF) : ∀ x ∈ msgFieldActs f, x.isField := by
  intro x hx
  simp only [msgFieldActs, List.mem_append] at hx
  rcases hx with ((hx | hx) | hx) | hx <;> (rw [mem_ite_singleton hx]; trivial)

theorem sigFieldActs_isField (f : SigF) : ∀ x ∈ sigFieldActs f, x.isField := by
  intro x hx
  simp only [sigFieldActs, List.mem_append] at hx
  rcases hx with hx | hx <;> (rw [mem_ite_singleton hx]; trivial)

theorem foldl_msgFieldActs (f : MsgF) : (msgFieldActs f).foldl stepMsgF {} = f := by
  obtain ⟨c, d, sd, s⟩ := f
  simp only [msgFieldActs]
  by_cases h1 : c = 0 <;> by_cases h2 : d = 0 <;> by_cases h3 : sd = 0 <;> by_cases h4 : s = .unset <;>
    simp [stepMsgF, h1, h2, h3, h4]

theorem foldl_sigFieldActs (f : SigF) : (sigFieldActs f).foldl stepSigF {} = f := by
  obtain ⟨q, s⟩ := f
  simp only [sigFieldActs]
  by_cases h1 : q = 0 <;> by_cases h4 : s = .unset <;> simp [stepSigF, h1, h4]

theorem entActList_asgs (e : Ent) (hn : (names e.asgs).Nodup) :
    (entActList e).foldl stepAsgs [] = normAsgs e.asgs := by
  have hs : (names ([] ++ normAsgs e.asgs)).Nodup := by simpa using names_normAsgs_nodup hn
  cases e with
  | node n a =>
    simp only [entActList, Ent.asgs] at hs ⊢
    simpa using foldl_assign (normAsgs a) [] hs
  | msg id f a =>
    simp only [entActList, Ent.asgs, List.foldl_append] at hs ⊢
    rw [foldl_assign (normAsgs a) [] hs, foldl_stepAsgs_fields _ _ (msgFieldActs_isField f)]
    simp
  | sig id n f a =>
    simp only [entActList, Ent.asgs, List.foldl_append] at hs ⊢
    rw [foldl_assign (normAsgs a) [] hs, foldl_stepAsgs_fields _ _ (sigFieldActs_isField f)]
    simp

/-! ## selecting by key -/

theorem optList_flatMap_some {α β : Type} (f : α → List β) :
    ∀ l : List α, optList (l.flatMap (fun e => (f e).map some)) = l.flatMap f
  | [] => rfl
  | a :: r => by
    simp only [List.flatMap_cons, optList_append, optList_map_some, optList_flatMap_some f r]

theorem entActs_key (e : Ent) : ∀ x ∈ entActs e, x.1 = e.key := by
  intro x hx
  obtain ⟨y, _, rfl⟩ := List.mem_map.1 hx
  rfl

/-- all actions of an exported model -/
def allActs (A : ModelAttrs) : List (Key × Action) := busActs A.bus ++ A.ents.flatMap entActs

theorem actsOf_bus (A : ModelAttrs) : actsOf (allActs A) .bus = (normAsgs A.bus).map Action.assign := by
  unfold actsOf allActs
  rw [List.filter_append, filter_flatMap_other entActs entActs_key .bus A.ents (fun e _ => e.key_ne_bus),
    List.append_nil, filter_key_all]
  · simp only [busActs, List.map_map]; rfl
  · intro x hx
    obtain ⟨y, _, rfl⟩ := List.mem_map.1 hx
    rfl

theorem actsOf_ent (A : ModelAttrs) (hnd : (A.ents.map Ent.key).Nodup) (e : Ent) (he : e ∈ A.ents) :
    actsOf (allActs A) e.key = entActList e := by
  unfold actsOf allActs
  rw [List.filter_append, filter_flatMap_key entActs entActs_key A.ents hnd e he, filter_key_none, List.nil_append]
  · simp only [entActs, List.map_map]
    conv => rhs; rw [← List.map_id (entActList e)]
    rfl
  · intro x hx
    obtain ⟨y, _, rfl⟩ := List.mem_map.1 hx
    exact fun h => e.key_ne_bus h.symm

theorem entOf_ent (A : ModelAttrs) (hnd : (A.ents.map Ent.key).Nodup) (e : Ent) (he : e ∈ A.ents)
    (hn : (names e.asgs).Nodup) : entOf (allActs A) e.key = some e.norm := by
  have h1 := actsOf_ent A hnd e he
  have h2 := entActList_asgs e hn
  cases e with
  | node n a =>
    simp only [Ent.key] at h1
    simp only [Ent.key, entOf, asgsOf, h1, h2, sortAsgs_normAsgs, Ent.norm, Ent.asgs]
  | msg id f a =>
    simp only [Ent.key] at h1
    simp only [Ent.key, entOf, asgsOf, h1, h2, sortAsgs_normAsgs, Ent.norm, Ent.asgs]
    simp only [entActList, List.foldl_append, foldl_stepMsgF_assign, foldl_msgFieldActs]
  | sig id n f a =>
    simp only [Ent.key] at h1
    simp only [Ent.key, entOf, asgsOf, h1, h2, sortAsgs_normAsgs, Ent.norm, Ent.asgs]
    simp only [entActList, List.foldl_append, foldl_stepSigF_assign, foldl_sigFieldActs]

theorem ents_back (A : ModelAttrs) (hnd : (A.ents.map Ent.key).Nodup)
    (hn : ∀ e ∈ A.ents, (names e.asgs).Nodup) :
    optList ((A.ents.map Ent.key).map (entOf (allActs A))) = A.ents.map Ent.norm := by
  have : (A.ents.map Ent.key).map (entOf (allActs A)) = (A.ents.map Ent.norm).map some := by
    rw [List.map_map, List.map_map]
    apply List.map_congr_left
    intro e he
    exact entOf_ent A hnd e he (hn e he)
  rw [this, optList_map_some]

theorem bus_back (A : ModelAttrs) (hn : (names A.bus).Nodup) : asgsOf (allActs A) .bus = normAsgs A.bus := by
  have hs : (names ([] ++ normAsgs A.bus)).Nodup := by simpa using names_normAsgs_nodup hn
  unfold asgsOf
  rw [actsOf_bus, foldl_assign _ [] hs]
  simpa using sortAsgs_normAsgs A.bus

/-! ## the items of a well-formed model -/

/-- the six attributes of special_attributes.go -/
def IsSpecialAtt (a : AttrDef) : Prop :=
  a = msgCycleTimeAtt ∨ a = msgDelayTimeAtt ∨ a = msgStartDelayTimeAtt ∨ a = msgSendTypeAtt ∨
  a = sigStartValueAtt ∨ a = sigSendTypeAtt

theorem msgSpecials_special (f : MsgF) : ∀ x ∈ msgSpecials f, IsSpecialAtt x.att := by
  intro x hx
  simp only [msgSpecials, List.mem_append] at hx
  rcases hx with ((hx | hx) | hx) | hx <;> (rw [mem_ite_singleton hx]; simp [IsSpecialAtt])

theorem sigSpecials_special (f : SigF) : ∀ x ∈ sigSpecials f, IsSpecialAtt x.att := by
  intro x hx
  simp only [sigSpecials, List.mem_append] at hx
  rcases hx with hx | hx <;> (rw [mem_ite_singleton hx]; simp [IsSpecialAtt])

theorem items_mem (A : ModelAttrs) (it : Item) (h : it ∈ items A) :
    it.asg ∈ allAsgs A ∨ IsSpecialAtt it.asg.att := by
  simp only [items, List.mem_append] at h
  rcases h with h | h
  · obtain ⟨a, ha, rfl⟩ := List.mem_map.1 h
    exact Or.inl (List.mem_append_left _ (mem_sortAsgs.1 ha))
  · obtain ⟨e, he, hit⟩ := List.mem_flatMap.1 h
    have huser : ∀ a ∈ sortAsgs e.asgs, a ∈ allAsgs A := fun a ha =>
      List.mem_append_right _ (List.mem_flatMap.2 ⟨e, he, mem_sortAsgs.1 ha⟩)
    cases e with
    | node n asgs =>
      obtain ⟨a, ha, rfl⟩ := List.mem_map.1 hit
      exact Or.inl (huser a ha)
    | msg id f asgs =>
      obtain ⟨a, ha, rfl⟩ := List.mem_map.1 hit
      rcases List.mem_append.1 ha with ha | ha
      · exact Or.inl (huser a ha)
      · exact Or.inr (msgSpecials_special f a ha)
    | sig id n f asgs =>
      obtain ⟨a, ha, rfl⟩ := List.mem_map.1 hit
      rcases List.mem_append.1 ha with ha | ha
      · exact Or.inl (huser a ha)
      · exact Or.inr (sigSpecials_special f a ha)

theorem special_defOK {a : AttrDef} (h : IsSpecialAtt a) : DefOK a.ty := by
  rcases h with rfl | rfl | rfl | rfl | rfl | rfl <;> decide

theorem special_name {a : AttrDef} (h : IsSpecialAtt a) : special? a.name ≠ none := by
  rcases h with rfl | rfl | rfl | rfl | rfl | rfl <;> decide

theorem special_oneName {a b : AttrDef} (ha : IsSpecialAtt a) (hb : IsSpecialAtt b) (hn : a.name = b.name) :
    a = b := by
  rcases ha with rfl | rfl | rfl | rfl | rfl | rfl <;> rcases hb with rfl | rfl | rfl | rfl | rfl | rfl <;>
    first | rfl | (exfalso; revert hn; decide)

theorem items_ok (A : ModelAttrs) (wf : AttrWF A) (ll : Lossless A) : ItemsOK (items A) where
  defs := by
    intro it hit
    rcases items_mem A it hit with h | h
    · exact wf.defs _ h
    · exact special_defOK h
  oneName := by
    intro a ha b hb hn
    rcases items_mem A a ha with h1 | h1 <;> rcases items_mem A b hb with h2 | h2
    · exact wf.oneName _ h1 _ h2 hn
    · exact absurd (hn ▸ ll.noReserved _ h1) (special_name h2)
    · exact absurd (hn ▸ ll.noReserved _ h2) (special_name h1)
    · exact special_oneName h1 h2 hn

/-! ## the round trip -/

theorem roundtrip (A : ModelAttrs) (wf : AttrWF A) (ll : Lossless A) :
    importAttrs (exportAttrs A) = .ok (normA A) := by
  have ok := items_ok A wf ll
  have htable := table_export ok
  have hlook : ∀ it ∈ items A,
      lookupEntry (tableOf (items A)) it.asg.att.name = some (entryOf (normAtt it.asg.att)) :=
    fun it hit => lookupEntry_export ok it hit
  have husr : ∀ a ∈ allAsgs A, DefOK a.att.ty ∧ ValOK a ∧ special? a.att.name = none :=
    fun a ha => ⟨wf.defs a ha, wf.vals a ha, ll.noReserved a ha⟩
  have hvals : mapE (resolve (A.ents.map Ent.key) (tableOf (items A))) ((items A).map exportItem) =
      .ok ((busActs A.bus).map some ++ A.ents.flatMap (fun e => (entActs e).map some)) := by
    simp only [items, List.map_append, List.map_flatMap]
    apply mapE_append_ok
    · exact bus_resolve _ _ A.bus (fun it hit => hlook it (List.mem_append_left _ hit))
        (fun a ha => husr a (List.mem_append_left _ ha))
    · apply mapE_flatMap_ok
      intro e he
      exact ent_resolve _ _ e (List.mem_map_of_mem he)
        (fun it hit => hlook it (List.mem_append_right _ (List.mem_flatMap.2 ⟨e, he, hit⟩)))
        (fun a ha => husr a (List.mem_append_right _ (List.mem_flatMap.2 ⟨e, he, ha⟩)))
  have hacts : optList ((busActs A.bus).map some ++ A.ents.flatMap (fun e => (entActs e).map some)) =
      allActs A := by
    rw [optList_append, optList_map_some, optList_flatMap_some]
    rfl
  unfold importAttrs
  simp only [exportAttrs, htable, hvals, hacts, bus_back A wf.busNames, ents_back A wf.keys wf.entNames, normA]

end Acme.Attr
