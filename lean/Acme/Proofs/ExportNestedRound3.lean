/-
C11 at message level, nested multiplexers, part 8: every exported signal is acceptable (byte
order, bounds, size), the names are pairwise different, the multiplexors in sorted order.
-/
import Acme.Proofs.ExportNestedRound2

namespace Acme.Import
open Acme.Layout Acme.Conv Acme.Arith

theorem below_extent (be : Bool) (N : List MuxNode) : ∀ (f : Nat) (n : MuxNode), Tree be N f n →
    ∀ m ∈ below N f n, m.start + m.selW + m.groupSize ≤ n.start + n.selW + n.groupSize
  | 0, _, h, _, _ => h.elim
  | f + 1, n, h, m, hm => by
    simp only [below, List.mem_flatMap] at hm
    obtain ⟨p, hp, hm⟩ := hm
    obtain ⟨_, hlk⟩ := subOf_tree be N f n h p hp
    cases hs : subOf N p.1 with
    | none => rw [hs] at hm; cases hm
    | some sub =>
      rw [hs] at hm
      obtain ⟨_, e1, e2, _, g, _⟩ := hlk sub hs
      have hc := (seen_invN n h.1).sub p hp
      obtain ⟨b0, b1⟩ := child_boundsN n h.1 p.1 hc
      have hsub : sub.start + sub.selW + sub.groupSize ≤ n.start + n.selW + n.groupSize := by omega
      rcases List.mem_cons.1 hm with rfl | hm
      · exact hsub
      · have := below_extent be N f sub g m hm
        omega

theorem sigOK_erase (be : Bool) (cap : Int) (s : DSig) (h : SigOK be cap (eraseSw s)) : SigOK be cap s :=
  ⟨h.be, h.pos0, h.bound, h.check⟩

section
variable {t : ITree} {r : MuxNode} (c : NCtx t r)
include c

theorem NCtx.topBounds (x : Item) (hx : x ∈ t.top) :
    0 ≤ x.start ∧ x.start + x.size ≤ 8 * t.sizeByte ∧ 0 < x.size := by
  have hm : x.slot ∈ topSlots t.top := List.mem_map.2 ⟨x, hx, rfl⟩
  have := WFfrom_mem c.wf x.slot hm
  exact ⟨this.1, this.2.2, this.2.1⟩

theorem NCtx.nodeExtent (m : MuxNode) (hm : m ∈ r :: reach t r) :
    m.start + m.selW + m.groupSize ≤ 8 * t.sizeByte := by
  obtain ⟨_, b1, _⟩ := c.topBounds (.mux r) c.rtop
  have e1 : (Item.mux r).start = r.start := rfl
  have e2 : (Item.mux r).size = r.groupSize + r.selW := rfl
  rcases List.mem_cons.1 hm with rfl | hm
  · omega
  · have := below_extent _ _ _ _ c.tree m hm
    omega

theorem NCtx.sigOK (s : DSig) (hs : s ∈ Lc t) : SigOK t.bigEndian (8 * t.sizeByte) s := by
  have hcap : 8 * t.sizeByte ≤ 64 := by have := c.size8; omega
  rcases c.mem_Lc s hs with ⟨l, hl, rfl⟩ | rfl | ⟨d, hd, rfl⟩
  · obtain ⟨b0, b1, b2⟩ := c.topBounds (.sig l) hl
    have hp := leafSig_pos t.bigEndian l b0
    have e1 : (Item.sig l).start = l.start := rfl
    have e2 : (Item.sig l).size = l.size := rfl
    have hz : (((leafSig t.bigEndian l).size : Nat) : Int) = l.size := by
      show ((l.size.toNat : Nat) : Int) = l.size
      exact Int.toNat_of_nonneg (by omega)
    exact ⟨rfl, by rw [hp]; omega, by rw [hp, hz]; omega, checkSig_of _ (by omega) (by omega)⟩
  · obtain ⟨hok, h0, _⟩ := c.nodeOK r (List.mem_cons_self ..)
    have hext := c.nodeExtent r (List.mem_cons_self ..)
    have hp : sigPos (headSig t.bigEndian false r) = r.start := sigPos_of _ _ h0 _ rfl rfl
    have hz : (((headSig t.bigEndian false r).size : Nat) : Int) = r.selW := by
      show ((r.selW.toNat : Nat) : Int) = r.selW
      exact Int.toNat_of_nonneg (by have := hok.w1; omega)
    have := hok.w1; have := hok.gsPos
    exact ⟨rfl, by rw [hp]; omega, by rw [hp, hz]; omega, checkSig_of _ (by omega) (by omega)⟩
  · obtain ⟨g, hown⟩ := c.good d hd
    have hext := c.nodeExtent d.1 hown
    have hc := (seen_invN d.1 g.ok).sub d.2 g.seen
    obtain ⟨r0, r1⟩ := child_boundsN d.1 g.ok d.2.1 hc
    have hsz := (g.ok.ids d.2.1 hc).2.2.2
    have := g.ok.w1
    have := g.start0
    unfold sigOfD
    cases hsub : subOf t.nested d.2.1 with
    | some sub =>
      obtain ⟨_, e1, e2, _, hoks, _⟩ := g.link sub hsub
      have hp : sigPos (headSig t.bigEndian true sub) = sub.start := sigPos_of _ _ (by omega) _ rfl rfl
      have hz : (((headSig t.bigEndian true sub).size : Nat) : Int) = sub.selW := by
        show ((sub.selW.toNat : Nat) : Int) = sub.selW
        exact Int.toNat_of_nonneg (by have := hoks.w1; omega)
      have := hoks.w1; have := hoks.gsPos
      show SigOK _ _ (headSig t.bigEndian true sub)
      exact ⟨rfl, by rw [hp]; omega, by rw [hp, hz]; omega, checkSig_of _ (by omega) (by omega)⟩
    | none =>
      have hp : sigPos (kidSig0 t.bigEndian d.1 d.2.1) = d.1.start + d.1.selW + d.2.1.rel :=
        sigPos_of _ _ (by omega) _ rfl rfl
      have hz : (((kidSig0 t.bigEndian d.1 d.2.1).size : Nat) : Int) = d.2.1.size := by
        show ((d.2.1.size.toNat : Nat) : Int) = d.2.1.size
        exact Int.toNat_of_nonneg (by omega)
      show SigOK _ _ (kidSig0 t.bigEndian d.1 d.2.1)
      exact ⟨rfl, by rw [hp]; omega, by rw [hp, hz]; omega, checkSig_of _ (by omega) (by omega)⟩

/-- the names of the signals of the message -/
theorem NCtx.lcNames : ((Lc t).map (·.name)).Perm
    ((leavesOf t.top).map (·.name) ++ r.name :: (Dt t r).map (fun d => d.2.1.name)) := by
  have hsplit := top_perm_split t.top
  rw [c.mux] at hsplit
  have h1 : (Lc t).Perm (((leavesOf t.top).map Item.sig ++ [Item.mux r]).flatMap (itemSigsN t.bigEndian t.nested)) :=
    List.Perm.flatMap_right _ hsplit
  refine (h1.map _).trans ?_
  rw [List.flatMap_append, List.map_append]
  refine List.Perm.append ?_ ?_
  · rw [List.flatMap_map]
    have : ∀ ls : List Leaf, (ls.flatMap (fun l => itemSigsN t.bigEndian t.nested (Item.sig l))).map (·.name) =
        ls.map (·.name) := by
      intro ls
      induction ls with
      | nil => rfl
      | cons a rest ih => rw [List.flatMap_cons, List.map_append, ih]; rfl
    rw [this]
  · simp only [List.flatMap_cons, List.flatMap_nil, List.append_nil, itemSigsN, List.map_cons, List.map_map]
    refine List.Perm.cons _ ?_
    have : (Dt t r).map ((fun s : DSig => s.name) ∘ sigOfD t.bigEndian t.nested) =
        (Dt t r).map (fun d => d.2.1.name) := by
      apply List.map_congr_left
      intro d hd
      exact c.sigName d hd
    unfold Dt at this ⊢
    rw [this]

theorem NCtx.lcNodup : ((Lc t).map (·.name)).Nodup := by
  apply (c.lcNames.nodup_iff).2
  rw [List.nodup_append]
  have hn := c.names
  unfold sigNamesN at hn
  rw [List.nodup_append] at hn
  refine ⟨hn.1, c.dnames, ?_⟩
  intro a ha b hb
  obtain ⟨l, hl, rfl⟩ := List.mem_map.1 ha
  obtain ⟨h1, h2⟩ := c.leafNames l hl
  rcases List.mem_cons.1 hb with rfl | hb
  · exact h1
  · intro he
    exact h2 (he ▸ hb)

theorem NCtx.sortedNodup : ((sortSigs (exportMsgN t).sigs).map (·.name)).Nodup := by
  have : (sortSigs (exportMsgN t).sigs).map (·.name) = ((sortSigs (exportMsgN t).sigs).map eraseSw).map (·.name) := by
    rw [List.map_map]; rfl
  rw [this, c.sorted]
  exact ((((sortBy_perm _ _).map _)).nodup_iff).2 c.lcNodup

/-- the key of an entry in the sorted file: the written start bit -/
def dKey (be : Bool) (N : List MuxNode) (d : DEntry) : Nat := (sigOfD be N d).start

/-- the multiplexors of the file in sorted order: the top-level one first -/
theorem NCtx.heads : ((sortSigs (exportMsgN t).sigs).filter (·.isMultiplexor)).map eraseSw =
    headSig t.bigEndian false r ::
      (sortBy (dKey t.bigEndian t.nested) ((Dt t r).filter (isSub t.nested))).map (sigOfD t.bigEndian t.nested) := by
  rw [filter_erase _ (fun _ => rfl), c.sorted, filter_sortBy]
  unfold Lc
  rw [sigsN_filter_mux, c.mux]
  simp only [List.flatMap_cons, List.flatMap_nil, List.append_nil]
  rw [sortBy, sortBy_map]
  apply insBy_head
  intro b hb
  obtain ⟨d, hd, rfl⟩ := List.mem_map.1 hb
  have hd' := (List.mem_filter.1 ((sortBy_perm _ _).mem_iff.1 hd))
  obtain ⟨g, _⟩ := c.good d hd'.1
  have hs := hd'.2
  unfold isSub at hs
  cases hsub : subOf t.nested d.2.1 with
  | none => rw [hsub] at hs; cases hs
  | some sub =>
    have hsr : sub ∈ reach t r := by
      rw [c.below_eq]
      exact List.mem_filterMap.2 ⟨d, List.mem_filter.2 hd', hsub⟩
    obtain ⟨_, _, hlt⟩ := c.nodeOK sub (List.mem_cons_of_mem _ hsr)
    have hstart : (sigOfD t.bigEndian t.nested d).start = fileStart t.bigEndian sub.start := by
      unfold sigOfD; rw [hsub]; rfl
    show (headSig t.bigEndian false r).start ≤ (sigOfD t.bigEndian t.nested d).start
    rw [hstart]
    show fileStart t.bigEndian r.start ≤ _
    rcases hlt with rfl | hlt
    · exact Nat.le_refl _
    · omega

end

end Acme.Import
