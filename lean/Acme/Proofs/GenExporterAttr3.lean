/-
The generated exportAttributeAssignment: the step with the name-set invariant.
-/
import Acme.Proofs.GenExporterAttr2

namespace Acme.GenX
open Acme.Attr Acme.XSem Acme.GoSem Acme.Gen Acme.Conv

/-- the four name sets hold exactly the (kind, name) pairs met so far -/
def attr_Inv (seen : List (Kind × String)) (st : Acme.XSem.St) : Prop :=
  ∀ k n, k ≠ .envVar → ((k, n) ∈ seen ↔ (mapGet2 (attr_names k st) n false).2 = true)

theorem attr_Inv_empty : attr_Inv [] {} := by
  intro k n _
  cases k <;> simp [attr_names, mapGet2]

theorem attr_names_setName (k k' : Kind) (n : String) (st : Acme.XSem.St) (hk : k ≠ .envVar) :
    attr_names k' (attr_setName k n st) =
      if k' = k then mapSet (attr_names k st) n true else attr_names k' st := by
  cases k <;> cases k' <;> simp [attr_names, attr_setName] at hk ⊢

theorem X_attr_exportAttributeAssignment (it : Item) (ht : Typed it.asg) (hk : it.kind ≠ .envVar)
    (tv : DbcAttributeValue) (st : Acme.XSem.St) (seen : List (Kind × String)) (hinv : attr_Inv seen st) :
    ∃ v st', X.exportAttributeAssignment id (viewAsg it.asg) (kindOf it.kind) tv st = .val (v, st') ∧
      dvalueOf v = ⟨it.asg.att.name, attr_target it.kind tv, exportVal it.asg.att.ty it.asg.val⟩ ∧
      attr_Inv ((it.kind, it.asg.att.name) :: seen) st' ∧
      st'.attributeValues = st.attributeValues ∧
      st'.attributes.map dattrOf = st.attributes.map dattrOf ++
        (if seen.contains (it.kind, it.asg.att.name) then [] else [(exportDef it.kind it.asg.att).1]) ∧
      st'.attributeDefaults.map ddefaultOf = st.attributeDefaults.map ddefaultOf ++
        (if seen.contains (it.kind, it.asg.att.name) then [] else [(exportDef it.kind it.asg.att).2]) := by
  obtain ⟨k, tg, ⟨a, val⟩⟩ := it
  simp only at ht hk ⊢
  obtain ⟨v, hv, hd⟩ := attr_step_core a val ht k hk tv st
  have hc : seen.contains (k, a.name) = (mapGet2 (attr_names k st) a.name false).2 := by
    rw [Bool.eq_iff_iff, List.contains_iff_mem]
    exact hinv k a.name hk
  by_cases hs : (mapGet2 (attr_names k st) a.name false).2 = true
  · rw [if_pos hs] at hv
    refine ⟨v, st, hv, hd, ?_, rfl, ?_, ?_⟩
    · intro k' n' hk'
      rw [List.mem_cons, ← hinv k' n' hk']
      constructor
      · rintro (h | h)
        · cases h; exact (hinv k a.name hk).2 hs
        · exact h
      · exact Or.inr
    · rw [hc, hs]; simp
    · rw [hc, hs]; simp
  · rw [if_neg hs] at hv
    obtain ⟨d, dd, he, h1, h2⟩ := X_attr_exportAttribute k a (attr_setName k a.name st)
    rw [he] at hv
    refine ⟨v, _, hv, hd, ?_, ?_, ?_, ?_⟩
    · intro k' n' hk'
      have : attr_names k' { attr_setName k a.name st with
          attributes := (attr_setName k a.name st).attributes ++ [d],
          attributeDefaults := (attr_setName k a.name st).attributeDefaults ++ [dd] } =
          attr_names k' (attr_setName k a.name st) := by cases k' <;> rfl
      rw [this, attr_names_setName k k' a.name st hk, List.mem_cons, hinv k' n' hk']
      by_cases hkk : k' = k
      · subst hkk
        simp only [if_true, attr_mapGet2_mapSet, Bool.or_eq_true, decide_eq_true_eq, Prod.mk.injEq, true_and]
      · simp [hkk]
    · cases k <;> first | rfl | exact absurd rfl hk
    · have : (attr_setName k a.name st).attributes = st.attributes := by cases k <;> rfl
      rw [hc]; simp [hs, this, h1]
    · have : (attr_setName k a.name st).attributeDefaults = st.attributeDefaults := by cases k <;> rfl
      rw [hc]; simp [hs, this, h2]

end Acme.GenX
