/-
Bus level of the generated exporter, part 2: the generated `exportSignal` on the Go object of a model
signal (`X_exportSignal_leafB`): the FULL written `DbcSignal` is the hand model's `exportSig`, the
comment / value encoding / registered enum are the hand model's.
-/
import Acme.Proofs.GenExporterBus1
namespace Acme.GenX
open Acme.ImportBus Acme.ExportBus Acme.XSem Acme.Gen

/-- the `VAL_` of one signal -/
def encOfSig (b : MBus) (mid : Nat) (s : ISignal) : List DEnc :=
  ((enumIdx s).map (fun e => ({ msgId := mid, sigName := s.name, values := (b.enums.getD e default).values } : DEnc))).toList

/-- the state after the comment of a description -/
def cmtStB (desc : String) (c : Acme.Dbc.Comment) (st : XSem.St) : XSem.St :=
  if desc ≠ "" then X.addDBCComment c st else st

theorem X_exportSignal_std_eq (pm : ParentMsg) (s : StdSig) (h : s.b.hasParentMux = false) (mid : Nat) (st : XSem.St) :
    X.exportSignal id pm (.standard s) mid st =
      .val { cmtStB s.b.desc { kind := .signal, text := s.b.desc, messageID := mid, signalName := s.b.name } st with
             curSignals := (cmtStB s.b.desc { kind := .signal, text := s.b.desc, messageID := mid, signalName := s.b.name } st).curSignals ++
               [X.exportStandardSignal pm s { name := s.b.name, receivers := rxOf pm }] } := by
  rw [X.exportSignal]
  simp only [Sig.base, h, Bool.false_eq_true, if_false]
  unfold rxOf cmtStB
  by_cases h1 : (pm.receivers.length : Int) = 0
  · simp only [h1, if_true]; rfl
  · simp only [h1, if_false]; rfl

theorem X_exportSignal_enum_eq (pm : ParentMsg) (s : EnumSig) (h : s.b.hasParentMux = false) (mid : Nat) (st : XSem.St) :
    X.exportSignal id pm (.enum s) mid st =
      .val { (X.exportEnumSignal id pm s mid { name := s.b.name, receivers := rxOf pm }
               (cmtStB s.b.desc { kind := .signal, text := s.b.desc, messageID := mid, signalName := s.b.name } st)).2 with
             curSignals := (cmtStB s.b.desc { kind := .signal, text := s.b.desc, messageID := mid, signalName := s.b.name } st).curSignals ++
               [(X.exportEnumSignal id pm s mid { name := s.b.name, receivers := rxOf pm }
               (cmtStB s.b.desc { kind := .signal, text := s.b.desc, messageID := mid, signalName := s.b.name } st)).1] } := by
  rw [X.exportSignal]
  simp only [Sig.base, h, Bool.false_eq_true, if_false]
  unfold rxOf cmtStB
  by_cases h1 : (pm.receivers.length : Int) = 0
  · simp only [h1, if_true]; rfl
  · simp only [h1, if_false]; rfl

theorem cmtSt_comments (d : String) (c : Acme.Dbc.Comment) (st : XSem.St) :
    (cmtStB d c st).comments.map dcommentOf = st.comments.map dcommentOf ++ cmIf d (dcommentOf c) := by
  unfold cmtStB cmIf X.addDBCComment
  by_cases h : d = "" <;> simp [h]

theorem cmtSt_rest (d : String) (c : Acme.Dbc.Comment) (st : XSem.St) :
    (cmtStB d c st).valueEncodings = st.valueEncodings ∧ (cmtStB d c st).curSignals = st.curSignals ∧
    (cmtStB d c st).sigEnums = st.sigEnums ∧ (cmtStB d c st).messages = st.messages ∧
    (cmtStB d c st).extendedMuxes = st.extendedMuxes ∧ (cmtStB d c st).valueTables = st.valueTables ∧
    (cmtStB d c st).nodes = st.nodes := by
  unfold cmtStB; split <;> exact ⟨rfl, rfl, rfl, rfl, rfl, rfl, rfl⟩

def stdOf (b : MBus) (base : SigBase) (t : Nat) (u : Option Nat) : StdSig :=
  { b := base, size := ((b.types.getD t default).size : Nat),
    typ := { signed := (b.types.getD t default).signed, min := (b.types.getD t default).min, max := (b.types.getD t default).max,
             offset := (b.types.getD t default).offset, scale := (b.types.getD t default).scale },
    unit := u.map (fun i => { symbol := b.units.getD i "" }) }

/-- the standard signal the generated code writes, seen as the hand model's -/
theorem dsig_std (b : MBus) (m : IMessage) (name : String) (start : Nat) (desc : String) (t : Nat) (u : Option Nat)
    (hok : SigOK32 b ⟨name, start, desc, .standard t u⟩) (base : SigBase) (hb : base.startBit = (start : Nat)) (hn : base.name = name) :
    dsigOf (X.exportStandardSignal (viewIMsg b m).parent (stdOf b base t u) { name := base.name, receivers := rxOf (viewIMsg b m).parent })
      = exportSig b (recvOf m) ⟨name, start, desc, .standard t u⟩ ∧
    PlainSig (X.exportStandardSignal (viewIMsg b m).parent (stdOf b base t u) { name := base.name, receivers := rxOf (viewIMsg b m).parent }) := by
  obtain ⟨h1, h2⟩ := hok
  simp only at h1 h2
  have hpm : (viewIMsg b m).parent.byteOrder = .littleEndian := rfl
  simp only [stdOf, exportSig]
  generalize b.types.getD t default = ty at *
  simp only [X.exportStandardSignal, X.getStartBit, hpm, if_true, hb, hn, u32_nat _ h1, u32_nat _ h2, rxOf_view,
    dsigOf, PlainSig]
  cases u <;> cases hsg : ty.signed <;> simp [unitSym]

def enumOf (b : MBus) (base : SigBase) (e : Nat) : EnumSig :=
  { b := base, size := (b.enums.getD e default).size, enum := viewEnum b e }

theorem dsig_enum (b : MBus) (m : IMessage) (name : String) (start : Nat) (desc : String) (e : Nat)
    (hok : SigOK32 b ⟨name, start, desc, .enum e⟩) (base : SigBase) (hb : base.startBit = (start : Nat)) (hn : base.name = name)
    (st : XSem.St) (r : DbcSignal × XSem.St)
    (hr : r = X.exportEnumSignal id (viewIMsg b m).parent (enumOf b base e) m.id
      { name := base.name, receivers := rxOf (viewIMsg b m).parent } st) :
    dsigOf r.1 = exportSig b (recvOf m) ⟨name, start, desc, .enum e⟩ ∧ PlainSig r.1 ∧
    r.2.valueEncodings.map dencOf = st.valueEncodings.map dencOf ++
      [{ msgId := m.id, sigName := name, values := (b.enums.getD e default).values }] ∧
    r.2.sigEnums = mapSet st.sigEnums e (viewEnum b e) ∧
    r.2.comments = st.comments ∧ r.2.curSignals = st.curSignals ∧ r.2.messages = st.messages ∧
    r.2.extendedMuxes = st.extendedMuxes ∧ r.2.valueTables = st.valueTables ∧ r.2.nodes = st.nodes := by
  obtain ⟨h1, h2, h3, h4⟩ := hok
  simp only at h1 h2 h3 h4
  have hpm : (viewIMsg b m).parent.byteOrder = .littleEndian := rfl
  have hsz : u32 (b.enums.getD e default).size = (b.enums.getD e default).size.toNat := u32_of_range _ h2 h3
  have hv := dvals_view _ h4
  subst hr
  simp only [X.exportEnumSignal, enumOf, X.getStartBit, hpm, if_true, hb, hn, u32_nat _ h1, hsz, rxOf_view,
    dsigOf, PlainSig, exportSig, List.map_append, List.map_cons, List.map_nil, dencOf, id]
  have hvv : dvalsOf (X.getDBCValueDescription (viewEnum b e).values) = (b.enums.getD e default).values := hv
  rw [hvv]
  exact ⟨rfl, ⟨trivial, trivial, trivial, trivial⟩, rfl, rfl, trivial, trivial, trivial, trivial, trivial, trivial⟩

theorem plain_append {l : List DbcSignal} {d : DbcSignal} (hd : PlainSig d) (h : ∀ s ∈ l, PlainSig s) :
    ∀ s ∈ l ++ [d], PlainSig s := by
  intro s hs
  rcases List.mem_append.mp hs with h' | h'
  · exact h s h'
  · rw [List.mem_singleton.mp h']; exact hd

/-- the generated `exportSignal` on the Go object of a model signal -/
theorem X_exportSignal_leafB (b : MBus) (m : IMessage) (s : ISignal) (hok : SigOK32 b s) (st : XSem.St) :
    ∃ st', X.exportSignal id (viewIMsg b m).parent (viewISig b s) m.id st = .val st' ∧
      AdvS b st st' (sigComments m.id s) (encOfSig b m.id s) [exportSig b (recvOf m) s] (enumIdx s).toList := by
  obtain ⟨name, start, desc, kind⟩ := s
  cases kind with
  | standard t u =>
    have hv : viewISig b ⟨name, start, desc, .standard t u⟩ =
        .standard (stdOf b { name := name, desc := desc, startBit := (start : Nat), hasParentMux := false } t u) := rfl
    rw [hv, X_exportSignal_std_eq _ _ rfl]
    refine ⟨_, rfl, ?_⟩
    obtain ⟨hd, hp⟩ := dsig_std b m name start desc t u hok
      { name := name, desc := desc, startBit := (start : Nat), hasParentMux := false } rfl rfl
    have cR := fun c => cmtSt_rest desc c st
    refine ⟨cmtSt_comments _ _ _, ?_, ?_, ?_, (cR _).2.2.1, (cR _).2.2.2.1, (cR _).2.2.2.2.1, (cR _).2.2.2.2.2.1,
      (cR _).2.2.2.2.2.2⟩
    · show List.map dencOf (cmtStB desc _ st).valueEncodings = _
      rw [(cR _).1]; simp [encOfSig, enumIdx]
    · show List.map dsigOf ((cmtStB desc _ st).curSignals ++ [_]) = _
      rw [(cR _).2.1, List.map_append]; exact congrArg _ (congrArg (· :: []) hd)
    · intro h
      show ∀ s ∈ (cmtStB desc _ st).curSignals ++ [_], PlainSig s
      rw [(cR _).2.1]; exact plain_append hp h
  | enum e =>
    have hv : viewISig b ⟨name, start, desc, .enum e⟩ =
        .enum (enumOf b { name := name, desc := desc, startBit := (start : Nat), hasParentMux := false } e) := rfl
    rw [hv, X_exportSignal_enum_eq _ _ rfl]
    refine ⟨_, rfl, ?_⟩
    have cR := fun c => cmtSt_rest desc c st
    obtain ⟨hd, hp, e1, e2, e3, e4, e5, e6, e7, e8⟩ := dsig_enum b m name start desc e hok
      { name := name, desc := desc, startBit := (start : Nat), hasParentMux := false } rfl rfl
      (cmtStB desc { kind := .signal, text := desc, messageID := m.id, signalName := name } st) _ rfl
    refine ⟨?_, ?_, ?_, ?_, ?_, e5.trans (cR _).2.2.2.1, e6.trans (cR _).2.2.2.2.1, e7.trans (cR _).2.2.2.2.2.1,
      e8.trans (cR _).2.2.2.2.2.2⟩
    · exact (congrArg _ e3).trans (cmtSt_comments _ _ _)
    · refine e1.trans ?_
      rw [(cR _).1]; rfl
    · show List.map dsigOf ((cmtStB desc _ st).curSignals ++ [_]) = _
      rw [(cR _).2.1, List.map_append]; exact congrArg _ (congrArg (· :: []) hd)
    · intro h
      show ∀ s ∈ (cmtStB desc _ st).curSignals ++ [_], PlainSig s
      rw [(cR _).2.1]; exact plain_append hp h
    · refine e2.trans ?_
      rw [(cR _).2.2.1]; rfl
end Acme.GenX
