/-
Tactics shared by the per-operation invariant proofs of `Acme.Graph`.

`inv_groups h` proves `Inv g'` from `h : Inv g` group by group: a group whose stores are
untouched closes by `exact` (up to projection reduction); otherwise its fields are proved
by `grind` from the old facts OF THAT GROUP plus whatever is in the context (branch
conditions, seed facts about the touched entities, cross-group facts added by hand).
Keeping the context small matters: all ids are `Nat`, so E-matching instantiates every
fact with every id in sight.
-/
import Acme.Proofs.GraphFacts

namespace Acme.Graph

/-- `grind` with the toolbox facts that are not registered globally -/
macro "inv_grind" : tactic =>
  `(tactic| grind (splits := 30) [Reg.nodup_add, Reg.nodup_remove, Reg.nodup_nil, HasAttr, MsgOnBus,
      nodup_eraseRef, nodup_addRef])

/-- rewrite every view of an updated store into the views of the old store: afterwards no
record literal is left in the goal -/
macro "views_simp" : tactic =>
  `(tactic| try simp only [MsgOnBus, HasAttr, netBuses_set, netBusNames_set, busName_set, busParent_set, busBuilder_set, busNodeInts_set,
      busNodeNames_set, busNodeIDs_set, busStaticIDs_set, busAttrs_set, nodeNameC_set, nodeNidC_set,
      nodeIfaces_set, nodeIfaceCount_set, nodeAttrs_set, ifaceNode_set, ifaceNumber_set, ifaceBus_set,
      ifaceSent_set, ifaceSentNames_set, ifaceSentIDs_set, ifaceSentStatic_set, ifaceRecv_set,
      msgName_set, msgMid_set, msgStatic_set, msgSender_set, msgReceivers_set, msgAttrs_set,
      builderRefs_set, attrRefs_set, defRefs_set, sigTyp_set, sigUnit_set, sigAttrs_set,
      clearBusParents_busName, clearBusParents_busParent, clearBusParents_busBuilder,
      clearBusParents_busNodeInts, clearBusParents_busNodeNames, clearBusParents_busNodeIDs,
      clearBusParents_busStaticIDs, clearBusParents_busAttrs, clearIfaceBus_ifaceNode,
      clearIfaceBus_ifaceNumber, clearIfaceBus_ifaceBus, clearIfaceBus_ifaceSent,
      clearIfaceBus_ifaceSentNames, clearIfaceBus_ifaceSentIDs, clearIfaceBus_ifaceSentStatic,
      clearIfaceBus_ifaceRecv, clearSenders_msgName, clearSenders_msgMid, clearSenders_msgStatic,
      clearSenders_msgSender, clearSenders_msgReceivers, clearSenders_msgAttrs, dropReceiver_msgName,
      dropReceiver_msgMid, dropReceiver_msgStatic, dropReceiver_msgSender, dropReceiver_msgReceivers,
      dropReceiver_msgAttrs, dropAttrRefs_attrRefs, renameNodeInBuses_busName,
      renameNodeInBuses_busParent, renameNodeInBuses_busBuilder, renameNodeInBuses_busNodeInts,
      renameNodeInBuses_busNodeNames, renameNodeInBuses_busNodeIDs, renameNodeInBuses_busStaticIDs,
      renameNodeInBuses_busAttrs, renumberNodeInBuses_busName, renumberNodeInBuses_busParent,
      renumberNodeInBuses_busBuilder, renumberNodeInBuses_busNodeInts, renumberNodeInBuses_busNodeNames,
      renumberNodeInBuses_busNodeIDs, renumberNodeInBuses_busStaticIDs, renumberNodeInBuses_busAttrs,
      updStatic_busName, updStatic_busParent, updStatic_busBuilder, updStatic_busNodeInts,
      updStatic_busNodeNames, updStatic_busNodeIDs, updStatic_busStaticIDs, updStatic_busAttrs,
      dropBuilderRef_builderRefs, dropDefRef_defRefs, renumber_ifaceNode, renumber_ifaceNumber,
      renumber_ifaceBus, renumber_ifaceSent, renumber_ifaceSentNames, renumber_ifaceSentIDs,
      renumber_ifaceSentStatic, renumber_ifaceRecv,
      busStaticClash_none, busStaticClash_some])

/-- normalise the branch conditions (`isSome`, Boolean negations) for `grind` -/
macro "inv_norm" : tactic =>
  `(tactic| try simp only [Option.isSome_iff_ne_none, Option.not_isSome_iff_eq_none, ne_eq, Bool.not_eq_true,
      Option.isSome_eq_false_iff, Option.isNone_iff_eq_none, Decidable.not_not, Classical.not_not,
      Bool.not_eq_false, Reg.has_true, Reg.has_false] at *)

macro "o_net " h:ident : tactic => `(tactic| obtain ⟨net_bn, net_nn, net_bg, net_ng⟩ := ($h).net)
macro "o_bus " h:ident : tactic => `(tactic| obtain ⟨bus_in, bus_nn, bus_dn, bus_ig, bus_ng, bus_dg⟩ := ($h).bus)
macro "o_static " h:ident : tactic => `(tactic| obtain ⟨st_n, st_g⟩ := ($h).static)
macro "o_sent " h:ident : tactic => `(tactic| obtain ⟨se_sn, se_nn, se_in, se_tn, se_sg, se_ng, se_ig, se_tg⟩ := ($h).sent)
macro "o_recv " h:ident : tactic => `(tactic| obtain ⟨re_rn, re_mn, re_v, re_g, re_nd⟩ := ($h).recv)
macro "o_node " h:ident : tactic => `(tactic| obtain ⟨nd_n, nd_nd, nd_num, nd_c, nd_ex, nd_live⟩ := ($h).node)
macro "o_builder " h:ident : tactic => `(tactic| obtain ⟨bl_n, bl_m⟩ := ($h).builder)
macro "o_attr " h:ident : tactic => `(tactic| obtain ⟨at_n, at_m, at_bd, at_bm, at_bs, at_dm, at_ds, at_ms⟩ := ($h).attr)
macro "o_typ " h:ident : tactic => `(tactic| obtain ⟨ty_n, ty_m⟩ := ($h).typ)
macro "o_unit " h:ident : tactic => `(tactic| obtain ⟨un_n, un_m⟩ := ($h).unit)

macro "g_net " h:ident : tactic =>
  `(tactic| first | exact ($h).net | (o_net $h; refine ⟨?_, ?_, ?_, ?_⟩ <;> (first | assumption | (views_simp; inv_grind))))
macro "g_bus " h:ident : tactic =>
  `(tactic| first | exact ($h).bus | (o_bus $h; refine ⟨?_, ?_, ?_, ?_, ?_, ?_⟩ <;> (first | assumption | (views_simp; inv_grind))))
macro "g_static " h:ident : tactic =>
  `(tactic| first | exact ($h).static | (o_static $h; refine ⟨?_, ?_⟩ <;> (first | assumption | (views_simp; inv_grind))))
macro "g_sent " h:ident : tactic =>
  `(tactic| first | exact ($h).sent | (o_sent $h; refine ⟨?_, ?_, ?_, ?_, ?_, ?_, ?_, ?_⟩ <;> (first | assumption | (views_simp; inv_grind))))
macro "g_recv " h:ident : tactic =>
  `(tactic| first | exact ($h).recv | (o_recv $h; refine ⟨?_, ?_, ?_, ?_, ?_⟩ <;> (first | assumption | (views_simp; inv_grind))))
macro "g_node " h:ident : tactic =>
  `(tactic| first | exact ($h).node | (o_node $h; refine ⟨?_, ?_, ?_, ?_, ?_, ?_⟩ <;> (first | assumption | (views_simp; inv_grind))))
macro "g_builder " h:ident : tactic =>
  `(tactic| first | exact ($h).builder | (o_builder $h; refine ⟨?_, ?_⟩ <;> (first | assumption | (views_simp; inv_grind))))
macro "g_attr " h:ident : tactic =>
  `(tactic| first | exact ($h).attr | (o_attr $h; refine ⟨?_, ?_, ?_, ?_, ?_, ?_, ?_, ?_⟩ <;> (first | assumption | (views_simp; inv_grind))))
macro "g_typ " h:ident : tactic =>
  `(tactic| first | exact ($h).typ | (o_typ $h; refine ⟨?_, ?_⟩ <;> (first | assumption | (views_simp; inv_grind))))
macro "g_unit " h:ident : tactic =>
  `(tactic| first | exact ($h).unit | (o_unit $h; refine ⟨?_, ?_⟩ <;> (first | assumption | (views_simp; inv_grind))))

/-- split `Inv g'` into its ten groups (goals tagged `net`, `bus`, …) -/
macro "inv_split" : tactic =>
  `(tactic| refine ⟨?net, ?bus, ?static, ?sent, ?recv, ?node, ?builder, ?attr, ?typ, ?unit⟩)

macro "inv_groups " h:ident : tactic =>
  `(tactic| (
      inv_norm
      inv_split
      case net => g_net $h
      case bus => g_bus $h
      case static => g_static $h
      case sent => g_sent $h
      case recv => g_recv $h
      case node => g_node $h
      case builder => g_builder $h
      case attr => g_attr $h
      case typ => g_typ $h
      case unit => g_unit $h))

end Acme.Graph
