/-
Tactics shared by the per-operation invariant proofs of `Acme.Graph`.

`inv_groups h [h₁, …]` proves `Inv g'` from `h : Inv g` group by group.  A group whose
stores are untouched closes by `exact` (up to projection reduction).  Otherwise, field by
field: (1) `frame [h₁, …]` rewrites every view of an updated store whose record field is
unchanged back into the old view, using the look-ups `hᵢ : store.get k = some e` of the
updated records — a field that only needed framing is then literally an old fact;
(2) what remains goes to `grind` after the remaining views have been rewritten into
`if k = x then … else old view` (`views_simp`), with the old facts OF THAT GROUP plus
whatever is in the context (branch conditions, seed facts about the touched entities,
cross-group facts added by hand).  Keeping the context small matters: all ids are `Nat`,
so E-matching instantiates every fact with every id in sight.
-/
import Acme.Proofs.GraphFacts

namespace Acme.Graph

/-- `grind` with the toolbox facts that are not registered globally -/
macro "inv_grind" : tactic =>
  `(tactic| grind (splits := 12) [Reg.nodup_add, Reg.nodup_remove, Reg.nodup_nil, HasAttr, MsgOnBus,
      nodup_eraseRef, nodup_addRef])

/-- rewrite every view of an updated store into the views of the old store: afterwards no
record literal is left in the goal -/
syntax "views_simp" ("[" Lean.Parser.Tactic.simpLemma,* "]")? : tactic
macro_rules
  | `(tactic| views_simp) => `(tactic| views_simp [])
macro_rules
  | `(tactic| views_simp [$hs,*]) =>
  `(tactic| try simp only [MsgOnBus, HasAttr, netBuses_set, netBusNames_set, busName_set, busParent_set, busBuilder_set, busNodeInts_set,
      busNodeNames_set, busNodeIDs_set, busStaticIDs_set, busAttrs_set, nodeNameC_set, nodeNidC_set,
      nodeIfaces_set, nodeIfaceCount_set, nodeAttrs_set, ifaceNode_set, ifaceNumber_set, ifaceBus_set,
      ifaceSent_set, ifaceSentNames_set, ifaceSentIDs_set, ifaceSentStatic_set, ifaceRecv_set,
      msgName_set, msgMid_set, msgStatic_set, msgSender_set, msgReceivers_set, msgAttrs_set,
      builderRefs_set, attrRefs_set, defRefs_set, sigTyp_set, sigUnit_set, sigAttrs_set,
      clearBusParents_busName, clearBusParents_busParent, clearBusParents_busBuilder,
      clearBusParents_busNodeInts, clearBusParents_busNodeNames, clearBusParents_busNodeIDs,
      clearBusParents_busStaticIDs, clearBusParents_busAttrs, clearIfaceBus_ifaceNode,
      clearIfaceBus_ifaceNumber, clearIfaceBus_ifaceBus, clearIfaceBus_ifaceSent,
      clearIfaceBus_ifaceSentNames, clearIfaceBus_ifaceSentIDs, clearIfaceBus_ifaceSentStatic,
      clearIfaceBus_ifaceRecv, clearSenders_msgName, clearSenders_msgMid, clearSenders_msgStatic,
      clearSenders_msgSender, clearSenders_msgReceivers, clearSenders_msgAttrs, dropReceiver_msgName,
      dropReceiver_msgMid, dropReceiver_msgStatic, dropReceiver_msgSender, dropReceiver_msgReceivers,
      dropReceiver_msgAttrs, dropAttrRefs_attrRefs, renameNodeInBuses_busName,
      renameNodeInBuses_busParent, renameNodeInBuses_busBuilder, renameNodeInBuses_busNodeInts,
      renameNodeInBuses_busNodeNames, renameNodeInBuses_busNodeIDs, renameNodeInBuses_busStaticIDs,
      renameNodeInBuses_busAttrs, renumberNodeInBuses_busName, renumberNodeInBuses_busParent,
      renumberNodeInBuses_busBuilder, renumberNodeInBuses_busNodeInts, renumberNodeInBuses_busNodeNames,
      renumberNodeInBuses_busNodeIDs, renumberNodeInBuses_busStaticIDs, renumberNodeInBuses_busAttrs,
      updStatic_busName, updStatic_busParent, updStatic_busBuilder, updStatic_busNodeInts,
      updStatic_busNodeNames, updStatic_busNodeIDs, updStatic_busStaticIDs, updStatic_busAttrs,
      dropBuilderRef_builderRefs, dropDefRef_defRefs, renumber_ifaceNode, renumber_ifaceNumber,
      renumber_ifaceBus, renumber_ifaceSent, renumber_ifaceSentNames, renumber_ifaceSentIDs,
      renumber_ifaceSentStatic, renumber_ifaceRecv,
      busStaticClash_none, busStaticClash_some, $hs,*])

/-- views whose record field is untouched by a `set`: back to the old view -/
syntax "frame" "[" Lean.Parser.Tactic.simpLemma,* "]" : tactic
macro_rules
  | `(tactic| frame [$hs,*]) =>
    `(tactic| try simp only [MsgOnBus, HasAttr, netBuses_set_keep, netBusNames_set_keep, busName_set_keep, busParent_set_keep, busBuilder_set_keep,
      busNodeInts_set_keep, busNodeNames_set_keep, busNodeIDs_set_keep, busStaticIDs_set_keep,
      busAttrs_set_keep, nodeNameC_set_keep, nodeNidC_set_keep, nodeIfaces_set_keep,
      nodeIfaceCount_set_keep, nodeAttrs_set_keep, ifaceNode_set_keep, ifaceNumber_set_keep,
      ifaceBus_set_keep, ifaceSent_set_keep, ifaceSentNames_set_keep, ifaceSentIDs_set_keep,
      ifaceSentStatic_set_keep, ifaceRecv_set_keep, msgName_set_keep, msgMid_set_keep, msgStatic_set_keep,
      msgSender_set_keep, msgReceivers_set_keep, msgAttrs_set_keep, builderRefs_set_keep,
      attrRefs_set_keep, defRefs_set_keep, sigTyp_set_keep, sigUnit_set_keep, sigAttrs_set_keep, $hs,*])

/-- normalise the branch conditions (`isSome`, Boolean negations) for `grind` -/
macro "inv_norm" : tactic =>
  `(tactic| try simp only [Option.isSome_iff_ne_none, Option.not_isSome_iff_eq_none, ne_eq, Bool.not_eq_true,
      Option.isSome_eq_false_iff, Option.isNone_iff_eq_none, Decidable.not_not, Classical.not_not,
      Bool.not_eq_false, Reg.has_true, Reg.has_false] at *)

/-- one field of a touched group -/
syntax "inv_field" "[" Lean.Parser.Tactic.simpLemma,* "]" : tactic
macro_rules
  | `(tactic| inv_field [$hs,*]) =>
    `(tactic| first
      | assumption
      | (frame [$hs,*]; assumption)
      | (frame [$hs,*]; views_simp [$hs,*]; intros; repeat' split
         all_goals (subst_vars; try simp only [Reg.get_add, Reg.get_remove, Option.some.injEq, ↓reduceIte])
         all_goals inv_grind))

set_option hygiene false in
macro "o_net " h:ident : tactic => `(tactic| obtain ⟨net_bn, net_nn, net_bg, net_ng⟩ := ($h).net)
set_option hygiene false in
macro "o_bus " h:ident : tactic => `(tactic| obtain ⟨bus_in, bus_nn, bus_dn, bus_ig, bus_ng, bus_dg⟩ := ($h).bus)
set_option hygiene false in
macro "o_static " h:ident : tactic => `(tactic| obtain ⟨st_n, st_g⟩ := ($h).static)
set_option hygiene false in
macro "o_sent " h:ident : tactic => `(tactic| obtain ⟨se_sn, se_nn, se_in, se_tn, se_sg, se_ng, se_ig, se_tg⟩ := ($h).sent)
set_option hygiene false in
macro "o_recv " h:ident : tactic => `(tactic| obtain ⟨re_rn, re_mn, re_v, re_g, re_nd⟩ := ($h).recv)
set_option hygiene false in
macro "o_node " h:ident : tactic => `(tactic| obtain ⟨nd_n, nd_nd, nd_num, nd_c, nd_ex, nd_live⟩ := ($h).node)
set_option hygiene false in
macro "o_builder " h:ident : tactic => `(tactic| obtain ⟨bl_n, bl_m⟩ := ($h).builder)
set_option hygiene false in
macro "o_attr " h:ident : tactic => `(tactic| obtain ⟨at_n, at_m, at_bd, at_bm, at_bs, at_dm, at_ds, at_ms⟩ := ($h).attr)
set_option hygiene false in
macro "o_typ " h:ident : tactic => `(tactic| obtain ⟨ty_n, ty_m⟩ := ($h).typ)
set_option hygiene false in
macro "o_unit " h:ident : tactic => `(tactic| obtain ⟨un_n, un_m⟩ := ($h).unit)

syntax "g_net " ident "[" Lean.Parser.Tactic.simpLemma,* "]" : tactic
macro_rules
  | `(tactic| g_net $h:ident [$hs,*]) =>
    `(tactic| first | exact ($h).net | (have hgrp := ($h).net; o_net $h; refine ⟨?_, ?_, ?_, ?_⟩ <;> inv_field [$hs,*]))
syntax "g_bus " ident "[" Lean.Parser.Tactic.simpLemma,* "]" : tactic
macro_rules
  | `(tactic| g_bus $h:ident [$hs,*]) =>
    `(tactic| first | exact ($h).bus | (have hgrp := ($h).bus; o_bus $h; refine ⟨?_, ?_, ?_, ?_, ?_, ?_⟩ <;> inv_field [$hs,*]))
syntax "g_static " ident "[" Lean.Parser.Tactic.simpLemma,* "]" : tactic
macro_rules
  | `(tactic| g_static $h:ident [$hs,*]) =>
    `(tactic| first | exact ($h).static | (have hgrp := ($h).static; o_static $h; refine ⟨?_, ?_⟩ <;> inv_field [$hs,*]))
syntax "g_sent " ident "[" Lean.Parser.Tactic.simpLemma,* "]" : tactic
macro_rules
  | `(tactic| g_sent $h:ident [$hs,*]) =>
    `(tactic| first | exact ($h).sent | (have hgrp := ($h).sent; o_sent $h; refine ⟨?_, ?_, ?_, ?_, ?_, ?_, ?_, ?_⟩ <;> inv_field [$hs,*]))
syntax "g_recv " ident "[" Lean.Parser.Tactic.simpLemma,* "]" : tactic
macro_rules
  | `(tactic| g_recv $h:ident [$hs,*]) =>
    `(tactic| first | exact ($h).recv | (have hgrp := ($h).recv; o_recv $h; refine ⟨?_, ?_, ?_, ?_, ?_⟩ <;> inv_field [$hs,*]))
syntax "g_node " ident "[" Lean.Parser.Tactic.simpLemma,* "]" : tactic
macro_rules
  | `(tactic| g_node $h:ident [$hs,*]) =>
    `(tactic| first | exact ($h).node | (have hgrp := ($h).node; o_node $h; refine ⟨?_, ?_, ?_, ?_, ?_, ?_⟩ <;> inv_field [$hs,*]))
syntax "g_builder " ident "[" Lean.Parser.Tactic.simpLemma,* "]" : tactic
macro_rules
  | `(tactic| g_builder $h:ident [$hs,*]) =>
    `(tactic| first | exact ($h).builder | (have hgrp := ($h).builder; o_builder $h; refine ⟨?_, ?_⟩ <;> inv_field [$hs,*]))
syntax "g_attr " ident "[" Lean.Parser.Tactic.simpLemma,* "]" : tactic
macro_rules
  | `(tactic| g_attr $h:ident [$hs,*]) =>
    `(tactic| first | exact ($h).attr | (have hgrp := ($h).attr; o_attr $h; refine ⟨?_, ?_, ?_, ?_, ?_, ?_, ?_, ?_⟩ <;> inv_field [$hs,*]))
syntax "g_typ " ident "[" Lean.Parser.Tactic.simpLemma,* "]" : tactic
macro_rules
  | `(tactic| g_typ $h:ident [$hs,*]) =>
    `(tactic| first | exact ($h).typ | (have hgrp := ($h).typ; o_typ $h; refine ⟨?_, ?_⟩ <;> inv_field [$hs,*]))
syntax "g_unit " ident "[" Lean.Parser.Tactic.simpLemma,* "]" : tactic
macro_rules
  | `(tactic| g_unit $h:ident [$hs,*]) =>
    `(tactic| first | exact ($h).unit | (have hgrp := ($h).unit; o_unit $h; refine ⟨?_, ?_⟩ <;> inv_field [$hs,*]))

/-- split `Inv g'` into its ten groups (goals tagged `net`, `bus`, …) -/
macro "inv_split" : tactic =>
  `(tactic| refine ⟨?net, ?bus, ?static, ?sent, ?recv, ?node, ?builder, ?attr, ?typ, ?unit⟩)

/-- the groups not yet closed (dispatch by trying each group tactic) -/
syntax "inv_rest " ident "[" Lean.Parser.Tactic.simpLemma,* "]" : tactic
macro_rules
  | `(tactic| inv_rest $h:ident [$hs,*]) =>
    `(tactic| all_goals first
      | g_net $h [$hs,*] | g_bus $h [$hs,*] | g_static $h [$hs,*] | g_sent $h [$hs,*] | g_recv $h [$hs,*]
      | g_node $h [$hs,*] | g_builder $h [$hs,*] | g_attr $h [$hs,*] | g_typ $h [$hs,*] | g_unit $h [$hs,*])

syntax "inv_groups " ident "[" Lean.Parser.Tactic.simpLemma,* "]" : tactic
macro_rules
  | `(tactic| inv_groups $h:ident [$hs,*]) =>
    `(tactic| (
      inv_norm
      inv_split
      case net => g_net $h [$hs,*]
      case bus => g_bus $h [$hs,*]
      case static => g_static $h [$hs,*]
      case sent => g_sent $h [$hs,*]
      case recv => g_recv $h [$hs,*]
      case node => g_node $h [$hs,*]
      case builder => g_builder $h [$hs,*]
      case attr => g_attr $h [$hs,*]
      case typ => g_typ $h [$hs,*]
      case unit => g_unit $h [$hs,*]))

end Acme.Graph
