/-
Views of the worlds produced by the list-driven helpers (generated from
/verif/build/gen/helpers.py): every view of `helper m l` in terms of the views of `m`.
-/
import Acme.Proofs.GraphFold

namespace Acme.Graph

/-! views of `clearBusParents` -/

theorem clearBusParents_get_none (B : AMap BusE) (l : List Nat) (k : Nat) : (clearBusParents B l).get k = none ↔ B.get k = none := by
  rw [clearBusParents_get B l]; cases B.get k <;> simp

@[simp, grind =] theorem clearBusParents_busName (B : AMap BusE) (l : List Nat) (k : Nat) :
    busName (clearBusParents B l) k = busName B k := by
  unfold busName; rw [clearBusParents_get B l]
  cases B.get k with
  | none => rfl
  | some e => simp only [Option.map_some]; split <;> rfl

@[simp, grind =] theorem clearBusParents_busParent (B : AMap BusE) (l : List Nat) (k : Nat) :
    busParent (clearBusParents B l) k = if k ∈ l then none else busParent B k := by
  unfold busParent; rw [clearBusParents_get B l]
  cases B.get k with
  | none => simp <;> (intros; rfl)
  | some e => simp only [Option.map_some]; split <;> simp_all <;> grind

@[simp, grind =] theorem clearBusParents_busBuilder (B : AMap BusE) (l : List Nat) (k : Nat) :
    busBuilder (clearBusParents B l) k = busBuilder B k := by
  unfold busBuilder; rw [clearBusParents_get B l]
  cases B.get k with
  | none => rfl
  | some e => simp only [Option.map_some]; split <;> rfl

@[simp, grind =] theorem clearBusParents_busNodeInts (B : AMap BusE) (l : List Nat) (k : Nat) :
    busNodeInts (clearBusParents B l) k = busNodeInts B k := by
  unfold busNodeInts; rw [clearBusParents_get B l]
  cases B.get k with
  | none => rfl
  | some e => simp only [Option.map_some]; split <;> rfl

@[simp, grind =] theorem clearBusParents_busNodeNames (B : AMap BusE) (l : List Nat) (k : Nat) :
    busNodeNames (clearBusParents B l) k = busNodeNames B k := by
  unfold busNodeNames; rw [clearBusParents_get B l]
  cases B.get k with
  | none => rfl
  | some e => simp only [Option.map_some]; split <;> rfl

@[simp, grind =] theorem clearBusParents_busNodeIDs (B : AMap BusE) (l : List Nat) (k : Nat) :
    busNodeIDs (clearBusParents B l) k = busNodeIDs B k := by
  unfold busNodeIDs; rw [clearBusParents_get B l]
  cases B.get k with
  | none => rfl
  | some e => simp only [Option.map_some]; split <;> rfl

@[simp, grind =] theorem clearBusParents_busStaticIDs (B : AMap BusE) (l : List Nat) (k : Nat) :
    busStaticIDs (clearBusParents B l) k = busStaticIDs B k := by
  unfold busStaticIDs; rw [clearBusParents_get B l]
  cases B.get k with
  | none => rfl
  | some e => simp only [Option.map_some]; split <;> rfl

@[simp, grind =] theorem clearBusParents_busAttrs (B : AMap BusE) (l : List Nat) (k : Nat) :
    busAttrs (clearBusParents B l) k = busAttrs B k := by
  unfold busAttrs; rw [clearBusParents_get B l]
  cases B.get k with
  | none => rfl
  | some e => simp only [Option.map_some]; split <;> rfl

/-! views of `clearIfaceBus` -/

theorem clearIfaceBus_get_none (I : AMap IfaceE) (l : List Nat) (k : Nat) : (clearIfaceBus I l).get k = none ↔ I.get k = none := by
  rw [clearIfaceBus_get I l]; cases I.get k <;> simp

@[simp, grind =] theorem clearIfaceBus_ifaceNode (I : AMap IfaceE) (l : List Nat) (k : Nat) :
    ifaceNode (clearIfaceBus I l) k = ifaceNode I k := by
  unfold ifaceNode; rw [clearIfaceBus_get I l]
  cases I.get k with
  | none => rfl
  | some e => simp only [Option.map_some]; split <;> rfl

@[simp, grind =] theorem clearIfaceBus_ifaceNumber (I : AMap IfaceE) (l : List Nat) (k : Nat) :
    ifaceNumber (clearIfaceBus I l) k = ifaceNumber I k := by
  unfold ifaceNumber; rw [clearIfaceBus_get I l]
  cases I.get k with
  | none => rfl
  | some e => simp only [Option.map_some]; split <;> rfl

@[simp, grind =] theorem clearIfaceBus_ifaceBus (I : AMap IfaceE) (l : List Nat) (k : Nat) :
    ifaceBus (clearIfaceBus I l) k = if k ∈ l then none else ifaceBus I k := by
  unfold ifaceBus; rw [clearIfaceBus_get I l]
  cases I.get k with
  | none => simp <;> (intros; rfl)
  | some e => simp only [Option.map_some]; split <;> simp_all <;> grind

@[simp, grind =] theorem clearIfaceBus_ifaceSent (I : AMap IfaceE) (l : List Nat) (k : Nat) :
    ifaceSent (clearIfaceBus I l) k = ifaceSent I k := by
  unfold ifaceSent; rw [clearIfaceBus_get I l]
  cases I.get k with
  | none => rfl
  | some e => simp only [Option.map_some]; split <;> rfl

@[simp, grind =] theorem clearIfaceBus_ifaceSentNames (I : AMap IfaceE) (l : List Nat) (k : Nat) :
    ifaceSentNames (clearIfaceBus I l) k = ifaceSentNames I k := by
  unfold ifaceSentNames; rw [clearIfaceBus_get I l]
  cases I.get k with
  | none => rfl
  | some e => simp only [Option.map_some]; split <;> rfl

@[simp, grind =] theorem clearIfaceBus_ifaceSentIDs (I : AMap IfaceE) (l : List Nat) (k : Nat) :
    ifaceSentIDs (clearIfaceBus I l) k = ifaceSentIDs I k := by
  unfold ifaceSentIDs; rw [clearIfaceBus_get I l]
  cases I.get k with
  | none => rfl
  | some e => simp only [Option.map_some]; split <;> rfl

@[simp, grind =] theorem clearIfaceBus_ifaceSentStatic (I : AMap IfaceE) (l : List Nat) (k : Nat) :
    ifaceSentStatic (clearIfaceBus I l) k = ifaceSentStatic I k := by
  unfold ifaceSentStatic; rw [clearIfaceBus_get I l]
  cases I.get k with
  | none => rfl
  | some e => simp only [Option.map_some]; split <;> rfl

@[simp, grind =] theorem clearIfaceBus_ifaceRecv (I : AMap IfaceE) (l : List Nat) (k : Nat) :
    ifaceRecv (clearIfaceBus I l) k = ifaceRecv I k := by
  unfold ifaceRecv; rw [clearIfaceBus_get I l]
  cases I.get k with
  | none => rfl
  | some e => simp only [Option.map_some]; split <;> rfl

/-! views of `clearSenders` -/

theorem clearSenders_get_none (M : AMap MsgE) (l : List Nat) (k : Nat) : (clearSenders M l).get k = none ↔ M.get k = none := by
  rw [clearSenders_get M l]; cases M.get k <;> simp

@[simp, grind =] theorem clearSenders_msgName (M : AMap MsgE) (l : List Nat) (k : Nat) :
    msgName (clearSenders M l) k = msgName M k := by
  unfold msgName; rw [clearSenders_get M l]
  cases M.get k with
  | none => rfl
  | some e => simp only [Option.map_some]; split <;> rfl

@[simp, grind =] theorem clearSenders_msgMid (M : AMap MsgE) (l : List Nat) (k : Nat) :
    msgMid (clearSenders M l) k = msgMid M k := by
  unfold msgMid; rw [clearSenders_get M l]
  cases M.get k with
  | none => rfl
  | some e => simp only [Option.map_some]; split <;> rfl

@[simp, grind =] theorem clearSenders_msgStatic (M : AMap MsgE) (l : List Nat) (k : Nat) :
    msgStatic (clearSenders M l) k = msgStatic M k := by
  unfold msgStatic; rw [clearSenders_get M l]
  cases M.get k with
  | none => rfl
  | some e => simp only [Option.map_some]; split <;> rfl

@[simp, grind =] theorem clearSenders_msgSender (M : AMap MsgE) (l : List Nat) (k : Nat) :
    msgSender (clearSenders M l) k = if k ∈ l then none else msgSender M k := by
  unfold msgSender; rw [clearSenders_get M l]
  cases M.get k with
  | none => simp <;> (intros; rfl)
  | some e => simp only [Option.map_some]; split <;> simp_all <;> grind

@[simp, grind =] theorem clearSenders_msgReceivers (M : AMap MsgE) (l : List Nat) (k : Nat) :
    msgReceivers (clearSenders M l) k = msgReceivers M k := by
  unfold msgReceivers; rw [clearSenders_get M l]
  cases M.get k with
  | none => rfl
  | some e => simp only [Option.map_some]; split <;> rfl

@[simp, grind =] theorem clearSenders_msgAttrs (M : AMap MsgE) (l : List Nat) (k : Nat) :
    msgAttrs (clearSenders M l) k = msgAttrs M k := by
  unfold msgAttrs; rw [clearSenders_get M l]
  cases M.get k with
  | none => rfl
  | some e => simp only [Option.map_some]; split <;> rfl

/-! views of `dropReceiver` -/

theorem dropReceiver_get_none (M : AMap MsgE) (nd : Nat) (l : List Nat) (k : Nat) : (dropReceiver M nd l).get k = none ↔ M.get k = none := by
  rw [dropReceiver_get M nd l]; cases M.get k <;> simp

@[simp, grind =] theorem dropReceiver_msgName (M : AMap MsgE) (nd : Nat) (l : List Nat) (k : Nat) :
    msgName (dropReceiver M nd l) k = msgName M k := by
  unfold msgName; rw [dropReceiver_get M nd l]
  cases M.get k with
  | none => rfl
  | some e => simp only [Option.map_some]; split <;> rfl

@[simp, grind =] theorem dropReceiver_msgMid (M : AMap MsgE) (nd : Nat) (l : List Nat) (k : Nat) :
    msgMid (dropReceiver M nd l) k = msgMid M k := by
  unfold msgMid; rw [dropReceiver_get M nd l]
  cases M.get k with
  | none => rfl
  | some e => simp only [Option.map_some]; split <;> rfl

@[simp, grind =] theorem dropReceiver_msgStatic (M : AMap MsgE) (nd : Nat) (l : List Nat) (k : Nat) :
    msgStatic (dropReceiver M nd l) k = msgStatic M k := by
  unfold msgStatic; rw [dropReceiver_get M nd l]
  cases M.get k with
  | none => rfl
  | some e => simp only [Option.map_some]; split <;> rfl

@[simp, grind =] theorem dropReceiver_msgSender (M : AMap MsgE) (nd : Nat) (l : List Nat) (k : Nat) :
    msgSender (dropReceiver M nd l) k = msgSender M k := by
  unfold msgSender; rw [dropReceiver_get M nd l]
  cases M.get k with
  | none => rfl
  | some e => simp only [Option.map_some]; split <;> rfl

@[simp, grind =] theorem dropReceiver_msgReceivers (M : AMap MsgE) (nd : Nat) (l : List Nat) (k : Nat) :
    msgReceivers (dropReceiver M nd l) k = if k ∈ l then (msgReceivers M k).remove nd else msgReceivers M k := by
  unfold msgReceivers; rw [dropReceiver_get M nd l]
  cases M.get k with
  | none => simp <;> (intros; rfl)
  | some e => simp only [Option.map_some]; split <;> simp_all <;> grind

@[simp, grind =] theorem dropReceiver_msgAttrs (M : AMap MsgE) (nd : Nat) (l : List Nat) (k : Nat) :
    msgAttrs (dropReceiver M nd l) k = msgAttrs M k := by
  unfold msgAttrs; rw [dropReceiver_get M nd l]
  cases M.get k with
  | none => rfl
  | some e => simp only [Option.map_some]; split <;> rfl

/-! views of `dropAttrRefs` -/

theorem dropAttrRefs_get_none (A : AMap AttrE) (x : Nat) (l : List Nat) (k : Nat) : (dropAttrRefs A x l).get k = none ↔ A.get k = none := by
  rw [dropAttrRefs_get A x l]; cases A.get k <;> simp

@[simp, grind =] theorem dropAttrRefs_attrRefs (A : AMap AttrE) (x : Nat) (l : List Nat) (k : Nat) :
    attrRefs (dropAttrRefs A x l) k = if k ∈ l then eraseRef (attrRefs A k) x else attrRefs A k := by
  unfold attrRefs; rw [dropAttrRefs_get A x l]
  cases A.get k with
  | none => simp <;> (intros; rfl)
  | some e => simp only [Option.map_some]; split <;> simp_all <;> grind

/-! views of `renameNodeInBuses` -/

theorem renameNodeInBuses_get_none (B : AMap BusE) (old new : String) (n : Nat) (l : List Nat) (hl : l.Nodup) (k : Nat) : (renameNodeInBuses B old new n l).get k = none ↔ B.get k = none := by
  rw [renameNodeInBuses_get B old new n l hl]; cases B.get k <;> simp

@[simp, grind =] theorem renameNodeInBuses_busName (B : AMap BusE) (old new : String) (n : Nat) (l : List Nat) (hl : l.Nodup) (k : Nat) :
    busName (renameNodeInBuses B old new n l) k = busName B k := by
  unfold busName; rw [renameNodeInBuses_get B old new n l hl]
  cases B.get k with
  | none => rfl
  | some e => simp only [Option.map_some]; split <;> rfl

@[simp, grind =] theorem renameNodeInBuses_busParent (B : AMap BusE) (old new : String) (n : Nat) (l : List Nat) (hl : l.Nodup) (k : Nat) :
    busParent (renameNodeInBuses B old new n l) k = busParent B k := by
  unfold busParent; rw [renameNodeInBuses_get B old new n l hl]
  cases B.get k with
  | none => rfl
  | some e => simp only [Option.map_some]; split <;> rfl

@[simp, grind =] theorem renameNodeInBuses_busBuilder (B : AMap BusE) (old new : String) (n : Nat) (l : List Nat) (hl : l.Nodup) (k : Nat) :
    busBuilder (renameNodeInBuses B old new n l) k = busBuilder B k := by
  unfold busBuilder; rw [renameNodeInBuses_get B old new n l hl]
  cases B.get k with
  | none => rfl
  | some e => simp only [Option.map_some]; split <;> rfl

@[simp, grind =] theorem renameNodeInBuses_busNodeInts (B : AMap BusE) (old new : String) (n : Nat) (l : List Nat) (hl : l.Nodup) (k : Nat) :
    busNodeInts (renameNodeInBuses B old new n l) k = busNodeInts B k := by
  unfold busNodeInts; rw [renameNodeInBuses_get B old new n l hl]
  cases B.get k with
  | none => rfl
  | some e => simp only [Option.map_some]; split <;> rfl

@[simp, grind =] theorem renameNodeInBuses_busNodeNames (B : AMap BusE) (old new : String) (n : Nat) (l : List Nat) (hl : l.Nodup) (k : Nat) :
    busNodeNames (renameNodeInBuses B old new n l) k = if k ∈ l ∧ B.get k ≠ none then ((busNodeNames B k).remove old).add new n else busNodeNames B k := by
  unfold busNodeNames; rw [renameNodeInBuses_get B old new n l hl]
  cases B.get k with
  | none => simp <;> (intros; rfl)
  | some e => simp only [Option.map_some]; split <;> simp_all <;> grind

@[simp, grind =] theorem renameNodeInBuses_busNodeIDs (B : AMap BusE) (old new : String) (n : Nat) (l : List Nat) (hl : l.Nodup) (k : Nat) :
    busNodeIDs (renameNodeInBuses B old new n l) k = busNodeIDs B k := by
  unfold busNodeIDs; rw [renameNodeInBuses_get B old new n l hl]
  cases B.get k with
  | none => rfl
  | some e => simp only [Option.map_some]; split <;> rfl

@[simp, grind =] theorem renameNodeInBuses_busStaticIDs (B : AMap BusE) (old new : String) (n : Nat) (l : List Nat) (hl : l.Nodup) (k : Nat) :
    busStaticIDs (renameNodeInBuses B old new n l) k = busStaticIDs B k := by
  unfold busStaticIDs; rw [renameNodeInBuses_get B old new n l hl]
  cases B.get k with
  | none => rfl
  | some e => simp only [Option.map_some]; split <;> rfl

@[simp, grind =] theorem renameNodeInBuses_busAttrs (B : AMap BusE) (old new : String) (n : Nat) (l : List Nat) (hl : l.Nodup) (k : Nat) :
    busAttrs (renameNodeInBuses B old new n l) k = busAttrs B k := by
  unfold busAttrs; rw [renameNodeInBuses_get B old new n l hl]
  cases B.get k with
  | none => rfl
  | some e => simp only [Option.map_some]; split <;> rfl

/-! views of `renumberNodeInBuses` -/

theorem renumberNodeInBuses_get_none (B : AMap BusE) (old new : Nat) (n : Nat) (l : List Nat) (hl : l.Nodup) (k : Nat) : (renumberNodeInBuses B old new n l).get k = none ↔ B.get k = none := by
  rw [renumberNodeInBuses_get B old new n l hl]; cases B.get k <;> simp

@[simp, grind =] theorem renumberNodeInBuses_busName (B : AMap BusE) (old new : Nat) (n : Nat) (l : List Nat) (hl : l.Nodup) (k : Nat) :
    busName (renumberNodeInBuses B old new n l) k = busName B k := by
  unfold busName; rw [renumberNodeInBuses_get B old new n l hl]
  cases B.get k with
  | none => rfl
  | some e => simp only [Option.map_some]; split <;> rfl

@[simp, grind =] theorem renumberNodeInBuses_busParent (B : AMap BusE) (old new : Nat) (n : Nat) (l : List Nat) (hl : l.Nodup) (k : Nat) :
    busParent (renumberNodeInBuses B old new n l) k = busParent B k := by
  unfold busParent; rw [renumberNodeInBuses_get B old new n l hl]
  cases B.get k with
  | none => rfl
  | some e => simp only [Option.map_some]; split <;> rfl

@[simp, grind =] theorem renumberNodeInBuses_busBuilder (B : AMap BusE) (old new : Nat) (n : Nat) (l : List Nat) (hl : l.Nodup) (k : Nat) :
    busBuilder (renumberNodeInBuses B old new n l) k = busBuilder B k := by
  unfold busBuilder; rw [renumberNodeInBuses_get B old new n l hl]
  cases B.get k with
  | none => rfl
  | some e => simp only [Option.map_some]; split <;> rfl

@[simp, grind =] theorem renumberNodeInBuses_busNodeInts (B : AMap BusE) (old new : Nat) (n : Nat) (l : List Nat) (hl : l.Nodup) (k : Nat) :
    busNodeInts (renumberNodeInBuses B old new n l) k = busNodeInts B k := by
  unfold busNodeInts; rw [renumberNodeInBuses_get B old new n l hl]
  cases B.get k with
  | none => rfl
  | some e => simp only [Option.map_some]; split <;> rfl

@[simp, grind =] theorem renumberNodeInBuses_busNodeNames (B : AMap BusE) (old new : Nat) (n : Nat) (l : List Nat) (hl : l.Nodup) (k : Nat) :
    busNodeNames (renumberNodeInBuses B old new n l) k = busNodeNames B k := by
  unfold busNodeNames; rw [renumberNodeInBuses_get B old new n l hl]
  cases B.get k with
  | none => rfl
  | some e => simp only [Option.map_some]; split <;> rfl

@[simp, grind =] theorem renumberNodeInBuses_busNodeIDs (B : AMap BusE) (old new : Nat) (n : Nat) (l : List Nat) (hl : l.Nodup) (k : Nat) :
    busNodeIDs (renumberNodeInBuses B old new n l) k = if k ∈ l ∧ B.get k ≠ none then ((busNodeIDs B k).remove old).add new n else busNodeIDs B k := by
  unfold busNodeIDs; rw [renumberNodeInBuses_get B old new n l hl]
  cases B.get k with
  | none => simp <;> (intros; rfl)
  | some e => simp only [Option.map_some]; split <;> simp_all <;> grind

@[simp, grind =] theorem renumberNodeInBuses_busStaticIDs (B : AMap BusE) (old new : Nat) (n : Nat) (l : List Nat) (hl : l.Nodup) (k : Nat) :
    busStaticIDs (renumberNodeInBuses B old new n l) k = busStaticIDs B k := by
  unfold busStaticIDs; rw [renumberNodeInBuses_get B old new n l hl]
  cases B.get k with
  | none => rfl
  | some e => simp only [Option.map_some]; split <;> rfl

@[simp, grind =] theorem renumberNodeInBuses_busAttrs (B : AMap BusE) (old new : Nat) (n : Nat) (l : List Nat) (hl : l.Nodup) (k : Nat) :
    busAttrs (renumberNodeInBuses B old new n l) k = busAttrs B k := by
  unfold busAttrs; rw [renumberNodeInBuses_get B old new n l hl]
  cases B.get k with
  | none => rfl
  | some e => simp only [Option.map_some]; split <;> rfl

/-! views of `updStatic` -/

theorem updStatic_get_none (B : AMap BusE) (pb : Option Nat) (f : Reg Nat → Reg Nat) (k : Nat) : (updStatic B pb f).get k = none ↔ B.get k = none := by
  rw [updStatic_get B pb f]; cases B.get k <;> simp

@[simp, grind =] theorem updStatic_busName (B : AMap BusE) (pb : Option Nat) (f : Reg Nat → Reg Nat) (k : Nat) :
    busName (updStatic B pb f) k = busName B k := by
  unfold busName; rw [updStatic_get B pb f]
  cases B.get k with
  | none => rfl
  | some e => simp only [Option.map_some]; split <;> rfl

@[simp, grind =] theorem updStatic_busParent (B : AMap BusE) (pb : Option Nat) (f : Reg Nat → Reg Nat) (k : Nat) :
    busParent (updStatic B pb f) k = busParent B k := by
  unfold busParent; rw [updStatic_get B pb f]
  cases B.get k with
  | none => rfl
  | some e => simp only [Option.map_some]; split <;> rfl

@[simp, grind =] theorem updStatic_busBuilder (B : AMap BusE) (pb : Option Nat) (f : Reg Nat → Reg Nat) (k : Nat) :
    busBuilder (updStatic B pb f) k = busBuilder B k := by
  unfold busBuilder; rw [updStatic_get B pb f]
  cases B.get k with
  | none => rfl
  | some e => simp only [Option.map_some]; split <;> rfl

@[simp, grind =] theorem updStatic_busNodeInts (B : AMap BusE) (pb : Option Nat) (f : Reg Nat → Reg Nat) (k : Nat) :
    busNodeInts (updStatic B pb f) k = busNodeInts B k := by
  unfold busNodeInts; rw [updStatic_get B pb f]
  cases B.get k with
  | none => rfl
  | some e => simp only [Option.map_some]; split <;> rfl

@[simp, grind =] theorem updStatic_busNodeNames (B : AMap BusE) (pb : Option Nat) (f : Reg Nat → Reg Nat) (k : Nat) :
    busNodeNames (updStatic B pb f) k = busNodeNames B k := by
  unfold busNodeNames; rw [updStatic_get B pb f]
  cases B.get k with
  | none => rfl
  | some e => simp only [Option.map_some]; split <;> rfl

@[simp, grind =] theorem updStatic_busNodeIDs (B : AMap BusE) (pb : Option Nat) (f : Reg Nat → Reg Nat) (k : Nat) :
    busNodeIDs (updStatic B pb f) k = busNodeIDs B k := by
  unfold busNodeIDs; rw [updStatic_get B pb f]
  cases B.get k with
  | none => rfl
  | some e => simp only [Option.map_some]; split <;> rfl

@[simp, grind =] theorem updStatic_busStaticIDs (B : AMap BusE) (pb : Option Nat) (f : Reg Nat → Reg Nat) (k : Nat) :
    busStaticIDs (updStatic B pb f) k = if pb = some k ∧ B.get k ≠ none then f (busStaticIDs B k) else busStaticIDs B k := by
  unfold busStaticIDs; rw [updStatic_get B pb f]
  cases B.get k with
  | none => simp <;> (intros; rfl)
  | some e => simp only [Option.map_some]; split <;> simp_all <;> grind

@[simp, grind =] theorem updStatic_busAttrs (B : AMap BusE) (pb : Option Nat) (f : Reg Nat → Reg Nat) (k : Nat) :
    busAttrs (updStatic B pb f) k = busAttrs B k := by
  unfold busAttrs; rw [updStatic_get B pb f]
  cases B.get k with
  | none => rfl
  | some e => simp only [Option.map_some]; split <;> rfl

/-! views of `dropBuilderRef` -/

theorem dropBuilderRef_get_none (C : AMap BuilderE) (o : Option Nat) (x : Nat) (k : Nat) : (dropBuilderRef C o x).get k = none ↔ C.get k = none := by
  rw [dropBuilderRef_get C o x]; cases C.get k <;> simp

@[simp, grind =] theorem dropBuilderRef_builderRefs (C : AMap BuilderE) (o : Option Nat) (x : Nat) (k : Nat) :
    builderRefs (dropBuilderRef C o x) k = if o = some k then eraseRef (builderRefs C k) x else builderRefs C k := by
  unfold builderRefs; rw [dropBuilderRef_get C o x]
  cases C.get k with
  | none => simp <;> (intros; rfl)
  | some e => simp only [Option.map_some]; split <;> simp_all <;> grind

/-! views of `dropDefRef` -/

theorem dropDefRef_get_none (T : AMap DefE) (o : Option Nat) (x : Nat) (k : Nat) : (dropDefRef T o x).get k = none ↔ T.get k = none := by
  rw [dropDefRef_get T o x]; cases T.get k <;> simp

@[simp, grind =] theorem dropDefRef_defRefs (T : AMap DefE) (o : Option Nat) (x : Nat) (k : Nat) :
    defRefs (dropDefRef T o x) k = if o = some k then eraseRef (defRefs T k) x else defRefs T k := by
  unfold defRefs; rw [dropDefRef_get T o x]
  cases T.get k with
  | none => simp <;> (intros; rfl)
  | some e => simp only [Option.map_some]; split <;> simp_all <;> grind

/-! views of `renumber` -/

theorem renumber_get_none (I : AMap IfaceE) (c : Int) (l : List Nat) (hl : l.Nodup) (k : Nat) : (renumber I c l).get k = none ↔ I.get k = none := by
  rw [renumber_get I c l hl]; cases I.get k <;> simp

@[simp, grind =] theorem renumber_ifaceNode (I : AMap IfaceE) (c : Int) (l : List Nat) (hl : l.Nodup) (k : Nat) :
    ifaceNode (renumber I c l) k = ifaceNode I k := by
  unfold ifaceNode; rw [renumber_get I c l hl]
  cases I.get k with
  | none => rfl
  | some e => simp only [Option.map_some]; split <;> rfl

@[simp, grind =] theorem renumber_ifaceNumber (I : AMap IfaceE) (c : Int) (l : List Nat) (hl : l.Nodup) (k : Nat) :
    ifaceNumber (renumber I c l) k = if k ∈ l ∧ I.get k ≠ none ∧ ifaceNumber I k > c then ifaceNumber I k - 1 else ifaceNumber I k := by
  unfold ifaceNumber; rw [renumber_get I c l hl]
  cases I.get k with
  | none => simp <;> (intros; rfl)
  | some e => simp only [Option.map_some]; split <;> simp_all <;> grind

@[simp, grind =] theorem renumber_ifaceBus (I : AMap IfaceE) (c : Int) (l : List Nat) (hl : l.Nodup) (k : Nat) :
    ifaceBus (renumber I c l) k = ifaceBus I k := by
  unfold ifaceBus; rw [renumber_get I c l hl]
  cases I.get k with
  | none => rfl
  | some e => simp only [Option.map_some]; split <;> rfl

@[simp, grind =] theorem renumber_ifaceSent (I : AMap IfaceE) (c : Int) (l : List Nat) (hl : l.Nodup) (k : Nat) :
    ifaceSent (renumber I c l) k = ifaceSent I k := by
  unfold ifaceSent; rw [renumber_get I c l hl]
  cases I.get k with
  | none => rfl
  | some e => simp only [Option.map_some]; split <;> rfl

@[simp, grind =] theorem renumber_ifaceSentNames (I : AMap IfaceE) (c : Int) (l : List Nat) (hl : l.Nodup) (k : Nat) :
    ifaceSentNames (renumber I c l) k = ifaceSentNames I k := by
  unfold ifaceSentNames; rw [renumber_get I c l hl]
  cases I.get k with
  | none => rfl
  | some e => simp only [Option.map_some]; split <;> rfl

@[simp, grind =] theorem renumber_ifaceSentIDs (I : AMap IfaceE) (c : Int) (l : List Nat) (hl : l.Nodup) (k : Nat) :
    ifaceSentIDs (renumber I c l) k = ifaceSentIDs I k := by
  unfold ifaceSentIDs; rw [renumber_get I c l hl]
  cases I.get k with
  | none => rfl
  | some e => simp only [Option.map_some]; split <;> rfl

@[simp, grind =] theorem renumber_ifaceSentStatic (I : AMap IfaceE) (c : Int) (l : List Nat) (hl : l.Nodup) (k : Nat) :
    ifaceSentStatic (renumber I c l) k = ifaceSentStatic I k := by
  unfold ifaceSentStatic; rw [renumber_get I c l hl]
  cases I.get k with
  | none => rfl
  | some e => simp only [Option.map_some]; split <;> rfl

@[simp, grind =] theorem renumber_ifaceRecv (I : AMap IfaceE) (c : Int) (l : List Nat) (hl : l.Nodup) (k : Nat) :
    ifaceRecv (renumber I c l) k = ifaceRecv I k := by
  unfold ifaceRecv; rw [renumber_get I c l hl]
  cases I.get k with
  | none => rfl
  | some e => simp only [Option.map_some]; split <;> rfl

end Acme.Graph
