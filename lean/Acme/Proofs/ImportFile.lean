/-
Whole-file importer model (`Acme.ImportFile`), lemmas: the message step splits into the bus-level
step and the message-level import; the folds; the decomposition of an accepted import; what the
bus-level pass establishes (in the vocabulary of `Acme.Proofs.ImportBus*`).
Core Lean only.
-/
import Acme.Core.ImportFile
import Acme.Proofs.ImportBusMsg
import Acme.Proofs.ImportMany

namespace Acme.ImportFile
open Acme.ImportBus (DTable DEnc DComment DSignal DMessage DFile St IMessage ISignal IBus INode IEnum SigEnums
  receiversOf placeholder descOf selSig selMsg selGeneral All2 WF StLe SigOK importSignal_spec initSt wf_init)
open Acme.Import (sortBy)

/-! ## the thin wrapper `header` is what `Acme.ImportBus.importMessage` does -/

theorem importMessage_eq_header (nn : List String) (cs : List DComment) (st : St) (done : List IMessage)
    (m : DMessage) :
    ImportBus.importMessage nn cs st done m =
      match ImportBus.firstLoop (m.size * 8) [] (sortBy (·.start) m.sigs) with
      | .error e => .error e
      | .ok () =>
        match header nn done m (receiversOf (sortBy (·.start) m.sigs)) with
        | some e => .error e
        | none =>
          match ImportBus.importSignals cs m.id st 0 (sortBy (·.start) m.sigs) with
          | .error e => .error e
          | .ok (st', isigs) =>
            .ok (st', { id := m.id, name := m.name, size := m.size, sender := m.transmitter,
                        receivers := receiversOf (sortBy (·.start) m.sigs),
                        desc := descOf (selMsg m.id) cs, sigs := isigs }) := by
  unfold ImportBus.importMessage header
  dsimp only
  cases ImportBus.firstLoop (m.size * 8) [] (sortBy (·.start) m.sigs) with
  | error e => rfl
  | ok u =>
    dsimp only
    repeat (first | rfl | split)

/-! ## the message step -/

theorem importMsg_firstLoop {m : Import.DMsg} {t : Import.ITree} (h : Import.importMsg m = .ok t) :
    Import.firstLoop (8 * (m.size : Int)) (Import.headBE (Import.sortSigs m.sigs)) [] (Import.sortSigs m.sigs)
      = .ok () := by
  unfold Import.importMsg at h
  dsimp only at h
  split at h
  · cases h
  · rename_i hf; exact hf

theorem msgStep_ok_iff {d : DDoc} {nn : List String} {st st' : St} {done : List IMessage} {m : DMsg}
    {im : IMessage} {t : Import.ITree} :
    msgStep d nn st done m = .ok (st', im, t) ↔
      busMsgStep d nn st done m = .ok (st', im) ∧ Import.importMsg (msgView d m) = .ok t := by
  unfold msgStep busMsgStep
  dsimp only
  constructor
  · intro h
    split at h
    · cases h
    · cases hh : header nn done (busMsg m) (recvOf m) with
      | some e => rw [hh] at h; cases h
      | none =>
        rw [hh] at h
        dsimp only at h ⊢
        cases hb : busSignals d.comments m.id st ((plainSigs m).map busSig) with
        | error p =>
          rw [hb] at h
          obtain ⟨name, e⟩ := p
          dsimp only at h
          split at h <;> cases h
        | ok p =>
          rw [hb] at h
          obtain ⟨st1, isigs⟩ := p
          dsimp only at h ⊢
          cases hi : Import.importMsg (msgView d m) with
          | error e => rw [hi] at h; cases h
          | ok t' =>
            rw [hi] at h
            cases h
            exact ⟨rfl, rfl⟩
  · rintro ⟨hb, hi⟩
    have hf := importMsg_firstLoop hi
    have hf' : Import.firstLoop (8 * (m.size : Int)) (Import.headBE (Import.sortSigs (msgView d m).sigs)) []
        (Import.sortSigs (msgView d m).sigs) = .ok () := hf
    rw [hf']
    dsimp only
    cases hh : header nn done (busMsg m) (recvOf m) with
    | some e => rw [hh] at hb; cases hb
    | none =>
      rw [hh] at hb
      dsimp only at hb ⊢
      cases hbs : busSignals d.comments m.id st ((plainSigs m).map busSig) with
      | error p =>
        rw [hbs] at hb
        obtain ⟨name, e⟩ := p
        cases hb
      | ok p =>
        rw [hbs] at hb
        obtain ⟨st1, isigs⟩ := p
        dsimp only at hb ⊢
        cases hb
        rw [hi]

/-- a message-level refusal of the document's message is reported as such -/
theorem msgStep_bus_error {d : DDoc} {nn : List String} {st : St} {done : List IMessage} {m : DMsg}
    {e : ImportBus.ImpErr} (h : msgStep d nn st done m = .error (.bus e)) :
    busMsgStep d nn st done m = .error e := by
  unfold msgStep at h
  unfold busMsgStep
  dsimp only at h ⊢
  split at h
  · cases h
  · cases hh : header nn done (busMsg m) (recvOf m) with
    | some e' => rw [hh] at h; cases h; rfl
    | none =>
      rw [hh] at h
      dsimp only at h ⊢
      cases hb : busSignals d.comments m.id st ((plainSigs m).map busSig) with
      | error p =>
        rw [hb] at h
        obtain ⟨name, e'⟩ := p
        dsimp only at h ⊢
        split at h <;> cases h <;> rfl
      | ok p =>
        rw [hb] at h
        obtain ⟨st1, isigs⟩ := p
        dsimp only at h
        split at h <;> cases h

/-! ## the folds -/

/-- position-wise: the tree of every message is its message-level import -/
def TreesOf (d : DDoc) (l : List DMsg) (ts : List Import.ITree) : Prop :=
  All2 (fun m t => Import.importMsg (msgView d m) = .ok t) l ts

theorem msgsFold_ok_iff {d : DDoc} {nn : List String} : ∀ (l : List DMsg) {st st' : St} {done out : List IMessage}
    {trees trees' : List Import.ITree} {i : Nat},
    msgsFold d nn st done trees i l = .ok (st', out, trees') ↔
      busFold d nn st done l = .ok (st', out) ∧ ∃ ts, trees' = trees ++ ts ∧ TreesOf d l ts
  | [], st, st', done, out, trees, trees', i => by
    unfold msgsFold busFold
    constructor
    · intro h; cases h; exact ⟨rfl, [], by simp, .nil⟩
    · rintro ⟨h, ts, rfl, hall⟩
      cases h; cases hall; simp
  | m :: r, st, st', done, out, trees, trees', i => by
    unfold msgsFold busFold
    constructor
    · intro h
      cases hs : msgStep d nn st done m with
      | error c => rw [hs] at h; cases h
      | ok p =>
        rw [hs] at h
        obtain ⟨st1, im, t⟩ := p
        dsimp only at h
        obtain ⟨hb, hi⟩ := msgStep_ok_iff.mp hs
        rw [hb]
        dsimp only
        obtain ⟨h1, ts, h2, h3⟩ := (msgsFold_ok_iff r).mp h
        exact ⟨h1, t :: ts, by rw [h2]; simp, .cons hi h3⟩
    · rintro ⟨hb, ts, rfl, hall⟩
      cases hall with
      | cons hi hrest =>
        rename_i t ts'
        cases hs : busMsgStep d nn st done m with
        | error e => rw [hs] at hb; cases hb
        | ok p =>
          rw [hs] at hb
          obtain ⟨st1, im⟩ := p
          dsimp only at hb
          rw [msgStep_ok_iff.mpr ⟨hs, hi⟩]
          dsimp only
          exact (msgsFold_ok_iff r).mpr ⟨hb, ts', by simp, hrest⟩

/-- a refused message loop: the messages before the refusing one were accepted (bus level and
    message level), the refusing one is message number `i + pre.length`, and the messages after it
    (and the attributes) were never looked at -/
theorem msgsFold_error {d : DDoc} {nn : List String} : ∀ (l : List DMsg) {st : St} {done : List IMessage}
    {trees : List Import.ITree} {i : Nat} {e : DocErr},
    msgsFold d nn st done trees i l = .error e →
      ∃ pre m post st1 done1 ts c, l = pre ++ m :: post ∧
        busFold d nn st done pre = .ok (st1, done1) ∧ TreesOf d pre ts ∧
        msgStep d nn st1 done1 m = .error c ∧ e = ⟨.msg (i + pre.length), c⟩
  | [], _, _, _, _, _, h => by unfold msgsFold at h; cases h
  | m :: r, st, done, trees, i, e, h => by
    unfold msgsFold at h
    cases hs : msgStep d nn st done m with
    | error c =>
      rw [hs] at h
      cases h
      exact ⟨[], m, r, st, done, [], c, rfl, by unfold busFold; rfl, .nil, hs, by simp⟩
    | ok p =>
      rw [hs] at h
      obtain ⟨st1, im, t⟩ := p
      dsimp only at h
      obtain ⟨pre, m', post, st2, done2, ts, c, hl, hb, ht, hstep, he⟩ := msgsFold_error r h
      obtain ⟨hb1, hi⟩ := msgStep_ok_iff.mp hs
      refine ⟨m :: pre, m', post, st2, done2, t :: ts, c, by rw [hl]; rfl, ?_, .cons hi ht, hstep, ?_⟩
      · unfold busFold
        rw [hb1]
        exact hb
      · rw [he]
        simp only [List.length_cons]
        congr 2
        omega

/-! ## what the bus-level pass establishes -/

theorem busSignals_spec {cs : List DComment} {id : Nat} : ∀ (l : List DSignal) {st st' : St} {ss : List ISignal},
    WF st → busSignals cs id st l = .ok (st', ss) →
    WF st' ∧ StLe st st' ∧ All2 (SigOK cs id st') l ss
  | [], st, st', ss, hw, h => by
    unfold busSignals at h
    cases h
    exact ⟨hw, StLe.refl _, .nil⟩
  | x :: r, st, st', ss, hw, h => by
    unfold busSignals at h
    cases h1 : ImportBus.importSignal cs id st x with
    | error e => rw [h1] at h; cases h
    | ok p =>
      rw [h1] at h
      obtain ⟨st1, s⟩ := p
      dsimp only at h
      cases h2 : busSignals cs id st1 r with
      | error e => rw [h2] at h; cases h
      | ok q =>
        rw [h2] at h
        obtain ⟨st2, ss'⟩ := q
        cases h
        obtain ⟨hw1, hle1, hs⟩ := importSignal_spec hw h1
        obtain ⟨hw2, hle2, hall⟩ := busSignals_spec r hw1 h2
        exact ⟨hw2, hle1.trans hle2, .cons (hs.mono hle2) hall⟩

/-- what `busMsgStep` establishes for one message (`Acme.ImportBus.MsgOK` with the signals that
    go through `importSignal`: the sorted signals that are no multiplexor) -/
def DocMsgOK (nn : List String) (cs : List DComment) (st : St) (m : DMsg) (im : IMessage) : Prop :=
  im.id = m.id ∧ im.name = m.name ∧ im.size = m.size ∧ im.sender = m.transmitter ∧
  im.desc = descOf (selMsg m.id) cs ∧ im.receivers = recvOf m ∧
  (∀ r ∈ im.receivers, r ∈ nn) ∧ (m.transmitter = placeholder ∨ m.transmitter ∈ nn) ∧
  m.transmitter ∉ im.receivers ∧ m.size ≤ 8 ∧
  All2 (SigOK cs m.id st) ((plainSigs m).map busSig) im.sigs

theorem DocMsgOK.mono {nn : List String} {cs : List DComment} {st st' : St} {m : DMsg} {im : IMessage}
    (hle : StLe st st') (h : DocMsgOK nn cs st m im) : DocMsgOK nn cs st' m im := by
  obtain ⟨h1, h2, h3, h4, h5, h6, h7, h8, h9, h10, h11⟩ := h
  exact ⟨h1, h2, h3, h4, h5, h6, h7, h8, h9, h10, h11.imp (fun _ _ hs => hs.mono hle)⟩

theorem header_none {nn : List String} {done : List IMessage} {m : DMessage} {recv : List String}
    (h : header nn done m recv = none) :
    (∀ r ∈ recv, r ∈ nn) ∧ (m.transmitter = placeholder ∨ m.transmitter ∈ nn) ∧ m.transmitter ∉ recv ∧
    m.size ≤ 8 ∧ ∀ d ∈ done, d.id ≠ m.id := by
  unfold header at h
  split at h
  · cases h
  · rename_i hrecv
    split at h
    · cases h
    · rename_i htx
      split at h
      · cases h
      · rename_i hris
        split at h
        · cases h
        · split at h
          · cases h
          · rename_i hsize
            split at h
            · cases h
            · rename_i hid
              refine ⟨?_, ?_, ?_, Nat.le_of_not_lt hsize, ?_⟩
              · intro r hr
                simp only [List.any_eq_true, Bool.not_eq_eq_eq_not, Bool.not_true, not_exists, not_and,
                  Bool.not_eq_false] at hrecv
                exact List.contains_iff_mem.mp (hrecv r hr)
              · by_cases hp : m.transmitter = placeholder
                · exact Or.inl hp
                · right
                  simp only [hp, ne_eq, not_false_eq_true, true_and, Bool.not_eq_eq_eq_not, Bool.not_true,
                    Bool.not_eq_false] at htx
                  exact List.contains_iff_mem.mp htx
              · intro hm
                exact hris (List.contains_iff_mem.mpr hm)
              · intro x hx heq
                apply hid
                simp only [List.any_eq_true, decide_eq_true_eq]
                exact ⟨x, hx, heq⟩

theorem busMsgStep_spec {d : DDoc} {nn : List String} {st st' : St} {done : List IMessage} {m : DMsg}
    {im : IMessage} (hw : WF st) (h : busMsgStep d nn st done m = .ok (st', im)) :
    WF st' ∧ StLe st st' ∧ DocMsgOK nn d.comments st' m im ∧ ∀ x ∈ done, x.id ≠ m.id := by
  unfold busMsgStep at h
  cases hh : header nn done (busMsg m) (recvOf m) with
  | some e => rw [hh] at h; cases h
  | none =>
    rw [hh] at h
    dsimp only at h
    cases hb : busSignals d.comments m.id st ((plainSigs m).map busSig) with
    | error p => rw [hb] at h; obtain ⟨_, _⟩ := p; cases h
    | ok p =>
      rw [hb] at h
      obtain ⟨st1, isigs⟩ := p
      cases h
      obtain ⟨hw1, hle1, hall⟩ := busSignals_spec _ hw hb
      obtain ⟨a1, a2, a3, a4, a5⟩ := header_none hh
      exact ⟨hw1, hle1, ⟨rfl, rfl, rfl, rfl, rfl, rfl, a1, a2, a3, a4, hall⟩, a5⟩

theorem busFold_spec {d : DDoc} {nn : List String} : ∀ (l : List DMsg) {st st' : St} {done out : List IMessage},
    WF st → (done.map (·.id)).Nodup → busFold d nn st done l = .ok (st', out) →
    WF st' ∧ StLe st st' ∧ ∃ new, out = done ++ new ∧ All2 (DocMsgOK nn d.comments st') l new ∧
      (out.map (·.id)).Nodup
  | [], st, st', done, out, hw, hnd, h => by
    unfold busFold at h
    cases h
    exact ⟨hw, StLe.refl _, [], by simp, .nil, hnd⟩
  | m :: r, st, st', done, out, hw, hnd, h => by
    unfold busFold at h
    cases h1 : busMsgStep d nn st done m with
    | error e => rw [h1] at h; cases h
    | ok p =>
      rw [h1] at h
      obtain ⟨st1, im⟩ := p
      dsimp only at h
      obtain ⟨hw1, hle1, hmsg, hids⟩ := busMsgStep_spec hw h1
      have hnd1 : ((done ++ [im]).map (·.id)).Nodup := by
        rw [List.map_append, List.nodup_append]
        refine ⟨hnd, by simp, ?_⟩
        intro a ha b hb
        simp only [List.map_cons, List.map_nil, List.mem_singleton] at hb
        subst hb
        obtain ⟨x, hx, rfl⟩ := List.mem_map.mp ha
        rw [hmsg.1]
        exact hids x hx
      obtain ⟨hw2, hle2, new, hout, hall, hnd2⟩ := busFold_spec r hw1 hnd1 h
      exact ⟨hw2, hle1.trans hle2, im :: new, by rw [hout]; simp, .cons (hmsg.mono hle2) hall, hnd2⟩

/-- an accepted bus-level pass, taken apart -/
theorem busPass_ok {d : DDoc} {b : IBus} (h : busPass d = .ok b) :
    ∃ reg enums se ns st,
      ImportBus.importTables d.tables = .ok reg ∧
      ImportBus.importEncs reg reg [] d.encs = .ok (enums, se) ∧
      ImportBus.importNodes d.comments d.nodes = .ok ns ∧
      busFold d (ns.map (·.name)) (initSt enums se) [] d.msgs = .ok (st, b.msgs) ∧
      b.desc = descOf selGeneral d.comments ∧
      b.nodes = ImportBus.finalNodes ns (b.msgs.any (fun m => m.sender = placeholder)) ∧
      b.types = st.types.map (·.2) ∧ b.units = st.units ∧ b.enums = st.enums := by
  unfold busPass at h
  split at h
  · cases h
  · rename_i reg h1
    split at h
    · cases h
    · rename_i enums se h2
      split at h
      · cases h
      · rename_i ns h3
        split at h
        · cases h
        · rename_i st msgs h4
          cases h
          exact ⟨reg, enums, se, ns, st, h1, h2, h3, h4, rfl, rfl, rfl, rfl, rfl⟩

/-- an accepted whole-file import, taken apart: the bus is the bus-level pass, the trees are the
    message-level imports, the attributes are the attribute import -/
theorem importDoc_ok_iff {d : DDoc} {r : IDoc} :
    importDoc d = .ok r ↔
      busPass d = .ok r.bus ∧ TreesOf d d.msgs r.trees ∧ r.muxors = d.msgs.map (muxorDescs d) ∧
      Attr.importAttrs (attrView d) = .ok r.attrs := by
  unfold importDoc busPass
  cases h1 : ImportBus.importTables d.tables with
  | error e => simp
  | ok reg =>
    dsimp only
    cases h2 : ImportBus.importEncs reg reg [] d.encs with
    | error e => simp
    | ok p =>
      obtain ⟨enums, se⟩ := p
      dsimp only
      cases h3 : ImportBus.importNodes d.comments d.nodes with
      | error e => simp
      | ok ns =>
        dsimp only
        constructor
        · intro h
          cases h4 : msgsFold d (ns.map (·.name)) (initSt enums se) [] [] 0 d.msgs with
          | error e => rw [h4] at h; cases h
          | ok q =>
            rw [h4] at h
            obtain ⟨st, msgs, trees⟩ := q
            dsimp only at h
            obtain ⟨hb, ts, hts, hall⟩ := (msgsFold_ok_iff d.msgs).mp h4
            simp only [List.nil_append] at hts
            subst hts
            rw [hb]
            dsimp only
            cases h5 : Attr.importAttrs (attrView d) with
            | error e => rw [h5] at h; cases h
            | ok a =>
              rw [h5] at h
              cases h
              exact ⟨rfl, hall, rfl, rfl⟩
        · rintro ⟨hb, hall, hmx, ha⟩
          cases h4 : busFold d (ns.map (·.name)) (initSt enums se) [] d.msgs with
          | error e => rw [h4] at hb; cases hb
          | ok q =>
            rw [h4] at hb
            obtain ⟨st, msgs⟩ := q
            dsimp only at hb
            have hf := (msgsFold_ok_iff (i := 0) (trees := []) (trees' := r.trees) d.msgs).mpr ⟨h4, r.trees, by simp, hall⟩
            rw [hf]
            dsimp only
            rw [ha]
            dsimp only
            cases r
            simp only at hb hmx ⊢
            cases hb
            subst hmx
            rfl

end Acme.ImportFile
