/-
Bus-level exporter model, part 3: the round trip.  The exported document of a well-formed bus is
accepted (`export_fileOK`, `importBus_accepts`); the faithfulness theorems of C10 (Props/C10Bus)
then describe the imported bus in terms of the document, and the look-up lemmas of part 2 turn
this into a statement about the original bus: `view ib = normB b`.
Core Lean only.
-/
import Acme.Proofs.ExportBusFile
import Acme.Props.C10Bus

namespace Acme.ExportBus
open Acme.ImportBus Acme.Arith Acme.Props.C10Bus
open Acme.Import (sortBy insBy)

theorem All2.of_map_left {α β γ : Type} {R : β → γ → Prop} {g : α → β} : ∀ {l : List α} {l' : List γ},
    All2 R (l.map g) l' → All2 (fun a c => R (g a) c) l l'
  | [], _, h => by cases h; exact .nil
  | _ :: _, _, h => by
    cases h with
    | cons hr ht => exact .cons hr (All2.of_map_left ht)

/-! ### one signal -/

theorem reKind_eq (b : IBus) (rx : List String) (s : ISignal) (t : Nat) (u : Option Nat)
    (hk : s.kind = .standard t u) : kindSel (exportSig b rx s) = reKind (b.types.getD t default) := by
  simp [kindSel, reKind, isFlag, exportSig, hk]

theorem viewSig_eq {b ib : IBus} (h : BusWF b) {m : IMessage} (hm : m ∈ exportOrder b) {s s' : ISignal}
    (hs : s ∈ m.sigs) (hf : SigFaithful (exportBus b) ib m.id (exportSig b (recvOf m) s) s') :
    viewSig ib s' = normSig b s := by
  obtain ⟨hn, hst, hsz, hd, hkind⟩ := hf
  simp only [exportSig_name, exportSig_start] at hn hst hd hkind
  rw [show (exportBus b).comments = comments b from rfl, desc_sig h hm hs] at hd
  rw [encOf_export h hm hs] at hkind
  cases hk : s.kind with
  | enum e =>
    simp only [enumIdx, hk, Option.map_some] at hkind
    obtain ⟨e', en, hk', hget, hvals⟩ := hkind
    have hsw := (wf_order h hm).2.2.2.2.2.2.2.2 s hs
    simp only [SigWF, hk] at hsw
    rw [sortVals_of_wf hsw] at hvals
    simp only [IBus.sigSize, hk', hget, Option.map_some, Option.some.injEq, exportSig, hk] at hsz
    have hgd : ib.enums.getD e' default = en := by simp [List.getD_eq_getElem?_getD, hget]
    simp only [viewSig, normSig, hk, hk', hgd, hn, hst, hd, hvals]
    congr 2
    omega
  | standard t u =>
    simp only [enumIdx, hk, Option.map_none] at hkind
    obtain ⟨t', u', ty, hk', hget, a1, a2, a3, a4, a5, a6, a7, hunit⟩ := hkind
    rw [reKind_eq b _ s t u hk] at a1
    simp only [exportSig, hk] at a2 a3 a4 a5 a6 a7 hunit
    have hgd : ib.types.getD t' default = ty := by simp [List.getD_eq_getElem?_getD, hget]
    have hty : ty = { b.types.getD t default with kind := reKind (b.types.getD t default) } := by
      cases ty
      simp only at a1 a2 a3 a4 a5 a6 a7
      simp [a1, a2, a3, a4, a5, a6, a7]
    have hu : unitSym ib u' = unitSym b u := by
      rcases hunit with ⟨he, hnone⟩ | ⟨_, i, hi, hg⟩
      · rw [hnone, he]; rfl
      · rw [hi]
        simp [unitSym, List.getD_eq_getElem?_getD, hg]
    simp only [viewSig, normSig, hk, hk', hgd, hn, hst, hd, hty, hu]

/-! ### one message -/

theorem recvOf_nodup {b : IBus} {m : IMessage} (hw : MsgWF b m) : (recvOf m).Nodup := by
  unfold recvOf
  split
  · simp
  · exact ((sortStr_perm id m.receivers).nodup_iff).mpr hw.2.2.1

theorem receivers_export {b : IBus} {m : IMessage} (hw : MsgWF b m) :
    receiversOf (exportMsg b m).sigs
      = if m.sigs = [] then [] else (sortStr id m.receivers).filter (fun r => r ≠ placeholder) := by
  unfold receiversOf
  have hflat : (exportMsg b m).sigs.flatMap (·.receivers) = m.sigs.flatMap (fun _ => recvOf m) := by
    simp only [exportMsg, List.flatMap_map, exportSig_receivers]
  rw [hflat]
  split
  · rename_i he
    simp [he, dedup]
  · rename_i hne
    rw [dedup_repeat _ (recvOf_nodup hw) _ hne]
    unfold recvOf
    split
    · rename_i hr
      simp [hr, sortStr]
    · rfl

theorem viewMsg_eq {b ib : IBus} (h : BusWF b) {reg enums : List IEnum} {se : SigEnums} {st : St}
    {nn : List String} {m : IMessage} {im : IMessage} (hm : m ∈ exportOrder b)
    (henc : importEncs reg reg [] (exportBus b).encs = .ok (enums, se)) (hle : StLe (initSt enums se) st)
    (ht : ib.types = st.types.map (·.2)) (hu : ib.units = st.units) (he : ib.enums = st.enums)
    (hok : MsgOK nn (exportBus b).comments st (exportMsg b m) im) : viewMsg ib im = normMsg b m := by
  have hw := (wf_order h hm).2
  obtain ⟨h1, h2, h3, h4, h5, h6, _, _, _, _, _, hsigs⟩ := hok
  rw [sortedSigs_exportMsg hw] at h6 hsigs
  rw [receivers_export hw] at h6
  rw [show (exportBus b).comments = comments b from rfl] at h5
  simp only [exportMsg] at h1 h2 h3 h4 h5
  rw [desc_msg h hm] at h5
  have hsf : All2 (fun s s' => normSig b s = viewSig ib s') m.sigs im.sigs := by
    have := All2.of_map_left (g := exportSig b (recvOf m)) hsigs
    refine this.imp_mem (fun s s' hs _ hso => ?_)
    exact (viewSig_eq h hm hs (sigFaithful_of_ok henc hle ht hu he hso)).symm
  have hmap : m.sigs.map (normSig b) = im.sigs.map (viewSig ib) := hsf.map_eq (fun _ _ hr => hr)
  simp only [viewMsg, normMsg, h1, h2, h3, h4, h5, h6, hmap]

/-! ### the nodes -/

theorem fileNodes_export {b : IBus} (h : BusWF b) :
    fileNodes (exportBus b)
      = ((sortedNodes b).zipIdx.filter (fun p => p.1.name ≠ placeholder)).map (fun p => { p.1 with id := p.2 }) := by
  unfold fileNodes nodesOf
  simp only [exportBus, List.zipIdx_map, List.filter_map, List.map_map]
  apply List.map_congr_left
  intro p hp
  have hp' := (List.mem_filter.mp hp).1
  have hmem : p.1 ∈ b.nodes := by
    have := List.mem_zipIdx (x := p.1) (i := p.2) hp'
    rw [← mem_sortedNodes, List.mem_iff_getElem]
    exact ⟨p.2, by omega, by simpa using this.2.2.symm⟩
  simp only [Function.comp, Prod.map, id]
  rw [show comments b = comments b from rfl, desc_node h hmem]

theorem usesPlaceholder_export {b : IBus} (h : BusWF b) :
    usesPlaceholder (exportBus b) = b.msgs.any (fun m => m.sender = placeholder) := by
  unfold usesPlaceholder
  simp only [exportBus, List.any_map]
  rw [Bool.eq_iff_iff, List.any_eq_true, List.any_eq_true]
  constructor
  · rintro ⟨m, hm, hp⟩
    exact ⟨m, (order_perm h).mem_iff.mp hm, hp⟩
  · rintro ⟨m, hm, hp⟩
    exact ⟨m, (order_perm h).mem_iff.mpr hm, hp⟩

/-! ### the bus -/

theorem roundtrip {b : IBus} (h : BusWF b) :
    ∃ ib, importBus (exportBus b) = .ok ib ∧ view ib = normB b := by
  obtain ⟨ib, hib⟩ := importBus_accepts (export_fileOK h)
  refine ⟨ib, hib, ?_⟩
  obtain ⟨_, _, _, _, _, _, _, _, hdesc, _⟩ := importBus_ok hib
  obtain ⟨reg, enums, se, ns, st, henc, _, _, hle, hall, _, _, ht, hu, he⟩ := msgs_ok hib
  have hnodes := nodes_faithful_small hib (by
    simp only [exportBus, List.length_map]
    rw [(sortedNodes_perm b).length_eq]
    exact h.2.1)
  have hmsgs : ib.msgs.map (viewMsg ib) = (exportOrder b).map (normMsg b) := by
    have h1 : All2 (fun m im => MsgOK (ns.map (·.name)) (exportBus b).comments st (exportMsg b m) im)
        (exportOrder b) ib.msgs := All2.of_map_left (g := exportMsg b) hall
    have h2 : All2 (fun m im => normMsg b m = viewMsg ib im) (exportOrder b) ib.msgs :=
      h1.imp_mem (fun m im hm _ hok => (viewMsg_eq h hm henc hle ht hu he hok).symm)
    exact (h2.map_eq (fun _ _ hr => hr)).symm
  simp only [view, normB, normNodes, hmsgs, hnodes, fileNodes_export h, usesPlaceholder_export h, hdesc]
  rw [show (exportBus b).comments = comments b from rfl, desc_general]

end Acme.ExportBus
