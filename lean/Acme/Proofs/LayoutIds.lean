/-
Layout algebra, part B: facts about ids (`IdsNodup`, `find`, `followers`, `setSize`).
-/
import Acme.Proofs.LayoutBasic

namespace Acme.Layout

theorem IdsNodup_cons {s : Slot} {rest : List Slot} :
    IdsNodup (s :: rest) ↔ (∀ x ∈ rest, x.id ≠ s.id) ∧ IdsNodup rest := by
  unfold IdsNodup
  rw [List.map_cons, List.nodup_cons]
  constructor
  · rintro ⟨h1, h2⟩
    refine ⟨fun x hx he => h1 ?_, h2⟩
    rw [← he]; exact List.mem_map_of_mem hx
  · rintro ⟨h1, h2⟩
    refine ⟨fun hm => ?_, h2⟩
    rcases List.mem_map.1 hm with ⟨x, hx, he⟩
    exact h1 x hx he

theorem find_nil (id : Nat) : find id [] = none := rfl

theorem find_cons_eq {id : Nat} {s : Slot} (rest : List Slot) (h : s.id = id) :
    find id (s :: rest) = some s := by
  simp [find, h]

theorem find_cons_ne {id : Nat} {s : Slot} (rest : List Slot) (h : s.id ≠ id) :
    find id (s :: rest) = find id rest := by
  simp [find, h]

theorem find_none_of_noid {id : Nat} : ∀ {l : List Slot}, (∀ x ∈ l, x.id ≠ id) → find id l = none
  | [], _ => rfl
  | s :: rest, h => by
    rw [find_cons_ne rest (h s (by simp))]
    exact find_none_of_noid (fun x hx => h x (List.mem_cons_of_mem _ hx))

theorem find_some_mem {id : Nat} {s : Slot} : ∀ {l : List Slot}, find id l = some s → s ∈ l ∧ s.id = id
  | [], h => by cases h
  | t :: rest, h => by
    by_cases ht : t.id = id
    · rw [find_cons_eq rest ht] at h
      injection h with h; subst h
      exact ⟨by simp, ht⟩
    · rw [find_cons_ne rest ht] at h
      have := find_some_mem h
      exact ⟨List.mem_cons_of_mem _ this.1, this.2⟩

theorem map_if_noid {id : Nat} (f : Slot → Slot) : ∀ {l : List Slot}, (∀ x ∈ l, x.id ≠ id) →
    l.map (fun x => if x.id = id then f x else x) = l
  | [], _ => rfl
  | s :: rest, h => by
    rw [List.map_cons, if_neg (h s (by simp)),
      map_if_noid f (fun x hx => h x (List.mem_cons_of_mem _ hx))]

theorem setSize_noid {id : Nat} {sz : Int} {l : List Slot} (h : ∀ x ∈ l, x.id ≠ id) :
    setSize l id sz = l :=
  map_if_noid (fun s => { s with size := sz }) h

theorem setSize_cons_eq {id : Nat} {s : Slot} (rest : List Slot) (sz : Int) (h : s.id = id) :
    setSize (s :: rest) id sz = { s with size := sz } :: setSize rest id sz := by
  simp [setSize, h]

theorem setSize_cons_ne {id : Nat} {s : Slot} (rest : List Slot) (sz : Int) (h : s.id ≠ id) :
    setSize (s :: rest) id sz = s :: setSize rest id sz := by
  simp [setSize, h]

/-- lists with the same (id, size) projection have the same ids -/
theorem noid_of_map_eq {id : Nat} {l l' : List Slot}
    (hm : l'.map (fun x => (x.id, x.size)) = l.map (fun x => (x.id, x.size)))
    (h : ∀ x ∈ l, x.id ≠ id) : ∀ x ∈ l', x.id ≠ id := by
  intro x hx
  have hmem : (x.id, x.size) ∈ l'.map (fun x => (x.id, x.size)) :=
    List.mem_map_of_mem (f := fun x : Slot => (x.id, x.size)) hx
  rw [hm] at hmem
  rcases List.mem_map.1 hmem with ⟨y, hy, he⟩
  have : y.id = x.id := congrArg Prod.fst he
  rw [← this]; exact h y hy

theorem forall₂_le_refl : ∀ l : List Slot, List.Forall₂ (fun a b : Slot => a.start ≤ b.start) l l
  | [] => List.Forall₂.nil
  | _ :: rest => List.Forall₂.cons (Int.le_refl _) (forall₂_le_refl rest)

end Acme.Layout
