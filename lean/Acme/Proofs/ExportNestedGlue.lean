/-
C11 at message level, nested multiplexers, part 5: small facts used by the composition —
sorting with keys that agree on the members, positions in a sorted list, `muxIdx` on distinct
names, lists related through `map`, and the three classes of signals the exporter writes.
-/
import Acme.Proofs.ExportNestedLoops
import Acme.Proofs.ExportRound

namespace Acme.Import
open Acme.Layout Acme.Conv Acme.Arith

theorem insBy_congr {α : Type} (k1 k2 : α → Nat) (x : α) (hx : k1 x = k2 x) : ∀ l : List α,
    (∀ a ∈ l, k1 a = k2 a) → insBy k1 x l = insBy k2 x l
  | [], _ => rfl
  | y :: r, h => by
    simp only [insBy, hx, h y (List.mem_cons_self ..)]
    rw [insBy_congr k1 k2 x hx r (fun a ha => h a (List.mem_cons_of_mem _ ha))]

theorem sortBy_congr {α : Type} (k1 k2 : α → Nat) : ∀ l : List α, (∀ a ∈ l, k1 a = k2 a) →
    sortBy k1 l = sortBy k2 l
  | [], _ => rfl
  | x :: r, h => by
    have hr := fun a ha => h a (List.mem_cons_of_mem _ ha)
    simp only [sortBy]
    rw [sortBy_congr k1 k2 r hr]
    apply insBy_congr k1 k2 x (h x (List.mem_cons_self ..))
    intro a ha
    exact hr a ((sortBy_perm k2 r).mem_iff.1 ha)

theorem sorted_idx_lt {α : Type} (key : α → Nat) (l : List α) (h : l.Pairwise (fun a b => key a ≤ key b))
    (i j : Nat) (a b : α) (hi : l[i]? = some a) (hj : l[j]? = some b) (hk : key a < key b) : i < j := by
  apply Classical.byContradiction
  intro hn
  have hji : j ≤ i := by omega
  obtain ⟨hi1, hi2⟩ := List.getElem?_eq_some_iff.1 hi
  obtain ⟨hj1, hj2⟩ := List.getElem?_eq_some_iff.1 hj
  rcases Nat.lt_or_ge j i with hlt | hge
  · have := (List.pairwise_iff_getElem.1 h) j i hj1 hi1 hlt
    rw [hi2, hj2] at this
    omega
  · have : i = j := by omega
    subst this
    rw [hi2] at hj2
    subst hj2
    omega

theorem range_filter_single (p : Nat → Bool) (n i : Nat) (hi : i < n) (hp : ∀ j, j < n → (p j = true ↔ j = i)) :
    (List.range n).filter p = [i] := by
  apply List.perm_singleton.1
  apply (List.perm_ext_iff_of_nodup (List.Nodup.filter _ List.nodup_range) (List.nodup_singleton i)).2
  intro j
  rw [List.mem_filter, List.mem_range, List.mem_singleton]
  constructor
  · rintro ⟨h1, h2⟩; exact (hp j h1).1 h2
  · intro h; subst h; exact ⟨hi, (hp j hi).2 rfl⟩

theorem muxIdx_of_nodup (H : List DSig) (hnd : (H.map (·.name)).Nodup) (i : Nat) (m : DSig)
    (hi : H[i]? = some m) : muxIdx H m.name = some i := by
  obtain ⟨hi1, hi2⟩ := List.getElem?_eq_some_iff.1 hi
  unfold muxIdx
  dsimp only
  rw [range_filter_single _ H.length i hi1]
  · rfl
  · intro j hj
    have hjm : H[j]? = some H[j] := List.getElem?_eq_getElem hj
    rw [hjm]
    simp only [Option.map_some, beq_iff_eq, Option.some.injEq]
    constructor
    · intro hn
      have h1 : (H.map (·.name))[j]? = some m.name := by rw [List.getElem?_map, hjm]; simp [hn]
      have h2 : (H.map (·.name))[i]? = some m.name := by rw [List.getElem?_map, hi]; rfl
      have hj' : j < (H.map (·.name)).length := by simpa using hj
      have hi' : i < (H.map (·.name)).length := by simpa using hi1
      have e1 := (List.getElem?_eq_some_iff.1 h1).2
      have e2 := (List.getElem?_eq_some_iff.1 h2).2
      exact (List.Nodup.getElem_inj_iff hnd).1 (e1.trans e2.symm)
    · intro he
      subst he
      rw [hi2]

theorem zip_of_map_eq {α β γ : Type} (f : α → γ) (g : β → γ) : ∀ (l1 : List α) (l2 : List β),
    l1.map f = l2.map g →
    (∀ z ∈ l1.zip l2, f z.1 = g z.2) ∧ (l1.zip l2).map (·.1) = l1 ∧ (l1.zip l2).map (·.2) = l2
  | [], [], _ => ⟨fun _ h => (by simp at h), rfl, rfl⟩
  | [], _ :: _, h => by simp at h
  | _ :: _, [], h => by simp at h
  | a :: r1, b :: r2, h => by
    simp only [List.map_cons, List.cons.injEq] at h
    obtain ⟨ih1, ih2, ih3⟩ := zip_of_map_eq f g r1 r2 h.2
    refine ⟨?_, ?_, ?_⟩
    · intro z hz
      simp only [List.zip_cons_cons, List.mem_cons] at hz
      rcases hz with rfl | hz
      · exact h.1
      · exact ih1 z hz
    · simp [ih2]
    · simp [ih3]

/-! ### what is written for the whole message -/

def itemSigsN (be : Bool) (N : List MuxNode) : Item → List DSig
  | .sig l => [leafSig be l]
  | .mux n => headSig be false n :: (Dn N (N.length + 1) n).map (sigOfD be N)

def itemExtsN (N : List MuxNode) : Item → List DExt
  | .sig _ => []
  | .mux n => XS N (N.length + 1) n

theorem exportItemsN_eq (be : Bool) (N : List MuxNode) : ∀ top : List Item,
    (∀ n, Item.mux n ∈ top → Tree be N (N.length + 1) n ∧ (seenChildren n).any (fun q => q.1.isMux) = true) →
    (exportItemsN be N top).1.map eraseSw = top.flatMap (itemSigsN be N) ∧
    (exportItemsN be N top).2 = top.flatMap (itemExtsN N)
  | [], _ => ⟨rfl, rfl⟩
  | .sig l :: r, h => by
    obtain ⟨a, b⟩ := exportItemsN_eq be N r (fun n hn => h n (List.mem_cons_of_mem _ hn))
    simp only [exportItemsN, List.map_cons, List.flatMap_cons, itemSigsN, itemExtsN, List.nil_append,
      List.cons_append, a, b]
    exact ⟨rfl, trivial⟩
  | .mux n :: r, h => by
    obtain ⟨a, b⟩ := exportItemsN_eq be N r (fun n hn => h n (List.mem_cons_of_mem _ hn))
    obtain ⟨ht, hany⟩ := h n (List.mem_cons_self ..)
    obtain ⟨c, d⟩ := exportMuxN_eq be N (N.length + 1) false n ht
    simp only [exportItemsN, List.map_append, List.flatMap_cons, itemSigsN, itemExtsN, a, b, c,
      d (by simp [hany])]
    exact ⟨trivial, trivial⟩

def isSub (N : List MuxNode) (d : DEntry) : Bool := (subOf N d.2.1).isSome

theorem sigOfD_mr (be : Bool) (N : List MuxNode) (d : DEntry) : (sigOfD be N d).isMultiplexor = isSub N d := by
  unfold sigOfD isSub
  cases subOf N d.2.1 <;> rfl

theorem sigOfD_md (be : Bool) (N : List MuxNode) (d : DEntry) : (sigOfD be N d).isMultiplexed = true := by
  unfold sigOfD
  cases subOf N d.2.1 <;> rfl

theorem flatMap_leaves {β : Type} (f : Leaf → β) : ∀ top : List Item,
    top.flatMap (fun x => match x with
      | .sig l => [f l]
      | .mux _ => []) = (leavesOf top).map f
  | [] => rfl
  | .sig l :: r => by simp [leavesOf, flatMap_leaves f r]
  | .mux _ :: r => by simp [leavesOf, flatMap_leaves f r]

theorem flatMap_muxes {β : Type} (g : MuxNode → List β) : ∀ top : List Item,
    top.flatMap (fun x => match x with
      | .sig _ => []
      | .mux n => g n) = (muxesOf top).flatMap g
  | [] => rfl
  | .sig _ :: r => by simp [muxesOf, flatMap_muxes g r]
  | .mux _ :: r => by simp [muxesOf, flatMap_muxes g r]

theorem sigsN_filter_mux (be : Bool) (N : List MuxNode) (top : List Item) :
    (top.flatMap (itemSigsN be N)).filter (·.isMultiplexor) =
      (muxesOf top).flatMap (fun n => headSig be false n ::
        ((Dn N (N.length + 1) n).filter (isSub N)).map (sigOfD be N)) := by
  rw [List.filter_flatMap, ← flatMap_muxes]
  apply List.flatMap_congr
  intro x _
  cases x with
  | sig l => rfl
  | mux n =>
    simp only [itemSigsN, List.filter_cons, headSig, if_true, List.filter_map]
    congr 2
    apply List.filter_congr
    intro d _
    exact sigOfD_mr be N d

theorem sigsN_filter_kids (be : Bool) (N : List MuxNode) (top : List Item) :
    (top.flatMap (itemSigsN be N)).filter (fun s => !s.isMultiplexor && s.isMultiplexed) =
      (muxesOf top).flatMap (fun n =>
        ((Dn N (N.length + 1) n).filter (fun d => !isSub N d)).map (sigOfD be N)) := by
  rw [List.filter_flatMap, ← flatMap_muxes]
  apply List.flatMap_congr
  intro x _
  cases x with
  | sig l => rfl
  | mux n =>
    simp only [itemSigsN, List.filter_cons, headSig, Bool.not_true, Bool.false_and, Bool.false_eq_true,
      if_false, List.filter_map]
    congr 1
    apply List.filter_congr
    intro d _
    simp [Function.comp, sigOfD_mr, sigOfD_md]

theorem sigsN_filter_leaves (be : Bool) (N : List MuxNode) (top : List Item) :
    (top.flatMap (itemSigsN be N)).filter (fun s => !s.isMultiplexor && !s.isMultiplexed) =
      (leavesOf top).map (leafSig be) := by
  rw [List.filter_flatMap, ← flatMap_leaves]
  apply List.flatMap_congr
  intro x _
  cases x with
  | sig l => rfl
  | mux n =>
    simp only [itemSigsN, List.filter_cons, headSig, Bool.not_true, Bool.false_and, Bool.false_eq_true,
      if_false, List.filter_map]
    rw [List.map_eq_nil_iff, List.filter_eq_nil_iff]
    intro d _
    simp [Function.comp, sigOfD_md]

end Acme.Import
