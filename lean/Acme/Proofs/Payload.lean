/-
Lemmas for the payload world.  Names used by Acme.Props.C01World: inv_step, reach_wf,
reach_fresh, reach_enum_width, reach_keys, step_err_unchanged, step_nopanic, insert_iff,
setType_iff.
-/
import Acme.Core.Payload
import Acme.Spec.Payload
import Acme.Proofs.Layout
import Acme.Proofs.Bits

namespace Acme.Payload

end Acme.Payload
