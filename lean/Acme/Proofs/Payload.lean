/-
Lemmas for the payload world.  Names used by Acme.Props.C01World: inv_step, reach_wf,
reach_fresh, reach_enum_width, reach_keys, step_err_unchanged, step_nopanic, insert_iff,
setType_iff.

The proofs are split over
  Acme.Proofs.PayloadBasic  (stores, pointwise view of slotsOf/slotsBe, setStarts/setParents/setBe, regen*)
  Acme.Proofs.PayloadErr    (step_err_unchanged)
  Acme.Proofs.PayloadInv    (the invariant in groups InvV / InvS / WFAll / FreshAll, congruences, frames)
  Acme.Proofs.PayloadMsg, PayloadMsg2  (message operations, insert_iff)
  Acme.Proofs.PayloadNew    (constructors, sigRename)
  Acme.Proofs.PayloadVal    (value group: max index arithmetic, valNew, valRename)
  Acme.Proofs.PayloadSize   (verifySizeAmount / modifySize of one signal)
  Acme.Proofs.PayloadSig    (sigSetType, sigSetEnum, setType_iff)
  Acme.Proofs.PayloadRefs   (verifyRefs / modifyRefs / enumModifySize over all referencing signals)
  Acme.Proofs.PayloadEnum   (enum operations, valSetIndex)
  Acme.Proofs.PayloadMain   (inv_step, Reach corollaries, step_nopanic)
-/
import Acme.Core.Payload
import Acme.Spec.Payload
import Acme.Proofs.Layout
import Acme.Proofs.Bits
import Acme.Proofs.PayloadMain
