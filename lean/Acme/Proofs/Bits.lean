/-
Lemmas for C02 (kernel).  Names used by Acme.Props.C02: decode_le, decode_be, sawtooth,
masks_le, masks_be, masks_disjoint, d08_witness, d08_masks_witness.

  BitsBasic   masks, chunks, rawLE/rawBE arithmetic
  BitsChain   the filters of one signal cover it byte by byte (`Chain`)
  BitsDecode  decode loop over the chains: decode_le, decode_be
  BitsMasks   sawtooth, masks_le, masks_be, masks_disjoint, D08 witnesses
-/
import Acme.Proofs.BitsBasic
import Acme.Proofs.BitsChain
import Acme.Proofs.BitsDecode
import Acme.Proofs.BitsMasks
