/-
Multiplexer world, part U: `leaf.size` — the final step and the cases without a parent
multiplexer.
-/
import Acme.Proofs.MuxSize

namespace Acme.Mux
open Acme.Layout Acme.Arith

theorem setSize_same (l : List Slot) (id : Nat) (sz : Int) (h : ∀ x ∈ l, x.id = id → x.size = sz) :
    setSize l id sz = l := by
  unfold setSize
  conv => rhs; rw [← List.map_id l]
  apply List.map_congr_left
  intro x hx
  split
  · rename_i hid
    have := h x hx hid
    cases x; simp_all
  · rfl

theorem setLeaf_get (w1 : MW) (s : Nat) (n : Int) (i : Nat) :
    (setLeaf w1 s n).sigs.get i =
      if i = s then (w1.sigs.get s).map (fun e => { e with kind := .leaf n }) else w1.sigs.get i := by
  unfold setLeaf
  cases hs : w1.sigs.get s with
  | none =>
    by_cases hi : i = s
    · subst hi; simp [hs]
    · simp [hi]
  | some e =>
    simp only [AMap.get_set]
    by_cases hi : i = s <;> simp [hi]

theorem setLeaf_msgs (w1 : MW) (s : Nat) (n : Int) : (setLeaf w1 s n).msgs = w1.msgs := by
  unfold setLeaf; split <;> rfl

/-- the last step of `SetType`: the new size is stored and the filters are regenerated -/
theorem inv_leafSize_final (w w1 : MW) (h : InvCore w) (s : Nat) (se : SigE) (z n : Int)
    (hs : w.sigs.get s = some se) (hkz : se.kind = .leaf z) (hn : 0 < n)
    (hm1 : w1.msgs = w.msgs)
    (hrel : ∀ i, ∃ r, w1.sigs.get i = (w.sigs.get i).map (fun e => { e with rel := r }))
    (hG : ∀ y ye gc gs, w.sigs.get y = some ye → ye.kind = .mux gc gs → ∀ g ∈ ye.mx.groups,
        WF gs (setSize (slotsOf w1 g) s n))
    (hM : ∀ m msg, w.msgs.get m = some msg → WF msg.cap (setSize (slotsOf w1 msg.layout) s n)) :
    InvCore (setLeaf w1 s n) ∧ regenPanics (setLeaf w1 s n) (parentMsgOf w1 s) = false := by
  have hslots : ∀ ids, slotsOf (setLeaf w1 s n) ids = setSize (slotsOf w1 ids) s n := by
    intro ids
    apply slotsOf_setKind
    · rw [setLeaf_get, if_pos rfl]
    · intro i hi; rw [setLeaf_get, if_neg hi]
  have hinv : InvCore (setLeaf w1 s n) := by
    apply inv_geo w _ h (by rw [setLeaf_msgs, hm1])
    · intro i
      obtain ⟨r, hr⟩ := hrel i
      rw [setLeaf_get]
      cases hi : w.sigs.get i with
      | none =>
        rw [hi] at hr
        simp only [Option.map_none] at hr
        by_cases his : i = s
        · subst his; rw [hs] at hi; cases hi
        · rw [if_neg his]; exact hr
      | some e =>
        rw [hi] at hr
        simp only [Option.map_some] at hr
        by_cases his : i = s
        · subst his
          rw [hs] at hi; cases hi
          rw [if_pos rfl, hr]
          refine ⟨_, rfl, rfl, rfl, rfl, rfl, ?_, ?_⟩
          · intro gc gs
            simp only [hkz]
            constructor <;> (intro hh; cases hh)
          · intro z' hz'
            simp only [SKind.leaf.injEq] at hz'
            omega
        · rw [if_neg his, hr]
          exact ⟨_, rfl, rfl, rfl, rfl, rfl, fun _ _ => Iff.rfl, fun z' hz' => h.sizesPos i e z' hi hz'⟩
    · intro y ye gc gs hy hk g hg
      rw [hslots]; exact hG y ye gc gs hy hk g hg
    · intro m msg hm
      rw [hslots]; exact hM m msg hm
  refine ⟨hinv, ?_⟩
  unfold regenPanics
  cases hp : parentMsgOf w1 s with
  | none => rfl
  | some m =>
    simp only
    cases hm : (setLeaf w1 s n).msgs.get m with
    | none => rfl
    | some msg =>
      simp only
      exact genPanics_false _ msg.cap _ (hinv.msgOK hm).wf

/-- a slice that neither holds `s` nor a moved signal keeps its slot view -/
theorem setSize_unmoved (w w1 : MW) (s : Nat) (n : Int) (g : List Nat) (hsg : s ∉ g)
    (hst : ∀ t ∈ g, (w.sigs.get t).isSome)
    (hun : ∀ t ∈ g, ∀ e, w.sigs.get t = some e → w1.sigs.get t = some e) :
    setSize (slotsOf w1 g) s n = slotsOf w g := by
  rw [slotsOf_unchanged w w1 g hun hst]
  apply setSize_noid
  intro x hx
  have := (mem_slotsOf w g x hx).1
  rintro rfl
  exact hsg this

end Acme.Mux
