/-
The typing table of `importAttributes` on one-line files (C10): a file with one definition, its
default and one `BA_` line for the bus.
-/
import Acme.Proofs.AttrBasic

namespace Acme.Attr
open Acme.Conv

theorem mem_dedupAux {x : String} : ∀ (l seen : List String), x ∈ dedupAux seen l ↔ x ∈ l ∧ x ∉ seen
  | [], _ => by simp [dedupAux]
  | a :: r, seen => by
    unfold dedupAux
    cases hc : seen.contains a with
    | true =>
      have ha : a ∈ seen := List.contains_iff_mem.1 hc
      simp only [if_true, mem_dedupAux r seen, List.mem_cons]
      constructor
      · exact fun ⟨h1, h2⟩ => ⟨Or.inr h1, h2⟩
      · rintro ⟨h1 | h1, h2⟩
        · exact absurd (h1 ▸ ha) h2
        · exact ⟨h1, h2⟩
    | false =>
      have ha : a ∉ seen := fun h => by
        have := List.contains_iff_mem.2 h
        rw [hc] at this
        cases this
      simp only [Bool.false_eq_true, if_false, List.mem_cons, mem_dedupAux r (a :: seen), not_or]
      constructor
      · rintro (h | ⟨h1, h2, h3⟩)
        · exact ⟨Or.inl h, h ▸ ha⟩
        · exact ⟨Or.inr h1, h3⟩
      · rintro ⟨h1 | h1, h2⟩
        · exact Or.inl h1
        · by_cases hxa : x = a
          · exact Or.inl hxa
          · exact Or.inr ⟨h1, hxa, h2⟩

theorem mem_dedup {x : String} {l : List String} : x ∈ dedup l ↔ x ∈ l := by
  simp [dedup, mem_dedupAux]

theorem nodup_dedupAux : ∀ (l seen : List String), (dedupAux seen l).Nodup
  | [], _ => List.nodup_nil
  | a :: r, seen => by
    unfold dedupAux
    split
    · exact nodup_dedupAux r seen
    · refine List.nodup_cons.2 ⟨?_, nodup_dedupAux r (a :: seen)⟩
      intro hm
      exact ((mem_dedupAux r (a :: seen)).1 hm).2 (List.mem_cons_self ..)

/-- the constructors only make attributes that satisfy `DefOK` -/
theorem newInt_defOK {n : String} {d mn mx : Int} {hex : Bool} {a : AttrDef}
    (h : newInt n d mn mx hex = .ok a) : DefOK a.ty ∧ a = ⟨n, .int d mn mx hex⟩ := by
  unfold newInt at h
  split at h
  · cases h
  · split at h
    · cases h
    · split at h
      · cases h
      · cases h
        exact ⟨by simp only [DefOK]; omega, rfl⟩

theorem newFloat_defOK {n : String} {d mn mx : Rat} {a : AttrDef}
    (h : newFloat n d mn mx = .ok a) : DefOK a.ty ∧ a = ⟨n, .float d mn mx⟩ := by
  unfold newFloat at h
  split at h
  · cases h
  · split at h
    · cases h
    · rename_i h2
      split at h
      · cases h
      · rename_i h3
        cases h
        exact ⟨⟨Rat.not_lt.1 h3, Rat.not_lt.1 h2⟩, rfl⟩

theorem newEnum_defOK {n : String} {vs : List String} {a : AttrDef}
    (h : newEnum n vs = .ok a) : DefOK a.ty := by
  unfold newEnum at h
  cases vs with
  | nil => cases h
  | cons v r =>
    cases h
    refine ⟨nodup_dedupAux _ _, ?_⟩
    simp [dedup, dedupAux]

/-- the import of a one-line file, once its definition is accepted: the value is typed, checked
    by `AssignAttribute`, and lands on the bus -/
theorem import_single (d : DAttr) (dflt v : DVal) (e : Entry)
    (he : importDef [⟨d.name, dflt⟩] d = .ok e) (hn : e.att.name = d.name) :
    importAttrs (single d dflt v) =
      match resolveVal e v with
      | .error err => .error err
      | .ok val =>
        match checkAssign e.att.ty val with
        | .error err => .error err
        | .ok () => .ok (busOnly e.att val) := by
  have hl : lookupEntry [e] d.name = some e := by simp [lookupEntry, hn]
  unfold importAttrs
  simp only [single, mapE, he, resolve, hl]
  cases hr : resolveVal e v with
  | error err => rfl
  | ok val =>
    simp only [assignAct]
    cases hc : checkAssign e.att.ty val with
    | error err => rfl
    | ok u =>
      cases u
      simp [optList, asgsOf, actsOf, stepAsgs, upsert, sortAsgs, insAsg, busOnly]

theorem import_single_refused (d : DAttr) (dflt v : DVal) (err : ImpErr)
    (he : importDef [⟨d.name, dflt⟩] d = .error err) : importAttrs (single d dflt v) = .error err := by
  unfold importAttrs
  simp only [single, mapE, he]

theorem lookupDefault_single (n : String) (v : DVal) : lookupDefault [⟨n, v⟩] n = some ⟨n, v⟩ := by
  simp [lookupDefault]

theorem floatToInt_eq (q : Rat) :
    floatToInt q = if q.den = 1 ∧ inInt64 q.num then some q.num else none := rfl

theorem floatToInt_intCast (i : Int) (h : inInt64 i) : floatToInt (i : Rat) = some i := by
  have h' : -9223372036854775808 ≤ i ∧ i < 9223372036854775808 := h
  simp [floatToInt, h'.1, h'.2]

end Acme.Attr
