/-
Multiplexer world: `InsertSignal` refuses bad group ids.
-/
import Acme.Proofs.MuxErr

namespace Acme.Mux
open Acme.Layout Acme.Arith

theorem verifyIds_err_not_ok (w : MW) (gc gs : Int) (groups : List (List Nat)) (prev : List Int) (sz st : Int) :
    ∀ (ids : List Int) (o : Out), verifyIds w gc gs groups prev sz st ids = .error o → ∀ v, o ≠ .ok v
  | [], o, h => by simp [verifyIds] at h
  | g :: rest, o, h => by
    simp only [verifyIds] at h
    split at h
    · cases h; intro v; simp
    · split at h
      · cases h; intro v; simp
      · split at h
        · cases h; intro v; simp
        · split at h
          · rename_i e he
            cases h
            intro v
            cases e <;> simp [outOfLErr]
          · exact verifyIds_err_not_ok w gc gs groups prev sz st rest o h

/-- some id fails one of the three checks: the loop does not accept -/
theorem verifyIds_refuses (w : MW) (gc gs : Int) (groups : List (List Nat)) (prev : List Int) (sz st : Int)
    (ids : List Int) (g : Int) (hg : g ∈ ids) (hbad : g < 0 ∨ g ≥ gc ∨ g ∈ prev) :
    ∃ o, verifyIds w gc gs groups prev sz st ids = .error o := by
  cases hv : verifyIds w gc gs groups prev sz st ids with
  | error o => exact ⟨o, rfl⟩
  | ok u =>
    exfalso
    obtain ⟨a1, a2, a3, _⟩ := verifyIds_ok w gc gs groups prev sz st ids hv g hg
    rcases hbad with hh | hh | hh
    · omega
    · omega
    · exact a3 hh

/-- a negative id is reported first: the ids are checked in ascending order -/
theorem verifyIds_negative (w : MW) (gc gs : Int) (groups : List (List Nat)) (prev : List Int) (sz st : Int)
    (ids : List Int) (hsorted : ids.Pairwise (· < ·)) (g : Int) (hg : g ∈ ids) (hneg : g < 0) :
    verifyIds w gc gs groups prev sz st ids = .error (.err .negative) := by
  cases ids with
  | nil => cases hg
  | cons a rest =>
    have ha : a < 0 := by
      simp only [List.mem_cons] at hg
      rcases hg with rfl | hg
      · exact hneg
      · have := (List.pairwise_cons.mp hsorted).1 g hg
        omega
    simp only [verifyIds, ha, ↓reduceIte]

/-- The insertion with group ids, once the names are fine: a bad id refuses it and nothing
    changes; a negative id is reported as such. -/
theorem insert_refuses (w : MW) (x s : Nat) (st : Int) (gids : List Int) (xe se : SigE) (gc gs : Int)
    (hx : w.sigs.get x = some xe) (hk : xe.kind = .mux gc gs) (hs : w.sigs.get s = some se)
    (hsup : (insForeign x se || selfOrAncestor w s (fuelOf w + 1) x) = false)
    (hvn : verifyMuxName w xe s se.name = true) (hnest : insNestedOk w xe s = true)
    (g : Int) (hg : g ∈ gids) (hbad : g < 0 ∨ g ≥ gc ∨ g ∈ prevIds xe s) :
    (doMuxIns w x s st gids).1 = w ∧ (∀ v, (doMuxIns w x s st gids).2 ≠ .ok v) ∧
    (g < 0 → (doMuxIns w x s st gids).2 = .err .negative) := by
  have hne : gids.isEmpty = false := by
    cases gids with
    | nil => cases hg
    | cons _ _ => rfl
  obtain ⟨hstrict, hmem⟩ := insIds_spec gids
  have hgi : g ∈ compactAdj (sortInts gids) := (hmem g).mpr hg
  obtain ⟨o, ho⟩ := verifyIds_refuses w gc gs xe.mx.groups (prevIds xe s) (sigSize se) st _ g hgi hbad
  have hver : insVerify w xe gc gs s (sigSize se) st gids = .error o := by
    unfold insVerify
    simp only [hne, Bool.false_eq_true, ↓reduceIte, ho]
  have hres : doMuxIns w x s st gids = (w, o) := by
    simp only [doMuxIns, hx, hk, hs, hsup, hvn, hnest, hver, Bool.false_eq_true, ↓reduceIte, Bool.not_true]
  rw [hres]
  refine ⟨rfl, verifyIds_err_not_ok w gc gs _ _ _ st _ o ho, ?_⟩
  intro hneg
  have := verifyIds_negative w gc gs xe.mx.groups (prevIds xe s) (sigSize se) st _ hstrict g hgi hneg
  rw [this] at ho
  cases ho
  rfl

theorem sortInts_singleton (g : Int) : compactAdj (sortInts [g]) = [g] := by
  simp [sortInts, insInt, compactAdj]

/-- a single group id: the exact causes -/
theorem insert_refuses_single (w : MW) (x s : Nat) (st : Int) (g : Int) (xe se : SigE) (gc gs : Int)
    (hx : w.sigs.get x = some xe) (hk : xe.kind = .mux gc gs) (hs : w.sigs.get s = some se)
    (hsup : (insForeign x se || selfOrAncestor w s (fuelOf w + 1) x) = false)
    (hvn : verifyMuxName w xe s se.name = true) (hnest : insNestedOk w xe s = true) :
    (g < 0 → doMuxIns w x s st [g] = (w, .err .negative)) ∧
    (0 ≤ g → g ≥ gc → doMuxIns w x s st [g] = (w, .err .outOfBounds)) ∧
    (0 ≤ g → g < gc → g ∈ prevIds xe s → doMuxIns w x s st [g] = (w, .err .duplicated)) := by
  have hbase : ∀ o, verifyIds w gc gs xe.mx.groups (prevIds xe s) (sigSize se) st [g] = .error o →
      doMuxIns w x s st [g] = (w, o) := by
    intro o ho
    have hver : insVerify w xe gc gs s (sigSize se) st [g] = .error o := by
      unfold insVerify
      simp only [List.isEmpty_cons, Bool.false_eq_true, ↓reduceIte, sortInts_singleton, ho]
    simp only [doMuxIns, hx, hk, hs, hsup, hvn, hnest, hver, Bool.false_eq_true, ↓reduceIte, Bool.not_true]
  refine ⟨?_, ?_, ?_⟩
  · intro h1
    apply hbase
    simp only [verifyIds, h1, ↓reduceIte]
  · intro h0 h1
    apply hbase
    have : ¬ g < 0 := by omega
    simp only [verifyIds, this, h1, ↓reduceIte]
  · intro h0 h1 h2
    apply hbase
    have a : ¬ g < 0 := by omega
    have b : ¬ g ≥ gc := by omega
    have c : (prevIds xe s).contains g = true := by simpa using h2
    simp only [verifyIds, a, b, c, ↓reduceIte]

end Acme.Mux
