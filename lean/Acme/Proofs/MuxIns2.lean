/-
Multiplexer world, part O: `mux.ins` — the new parent link and the registration
(`MultiplexerSignal.addSignal`).
-/
import Acme.Proofs.MuxIns

namespace Acme.Mux
open Acme.Layout Acme.Arith

theorem selfOrAncestor_false (w : MW) (a : Nat) (f x : Nat) (h : selfOrAncestor w a f x = false) :
    ∀ k, ¬ Anc w k x a := by
  induction f generalizing x with
  | zero => simp [selfOrAncestor] at h
  | succ f ih =>
    simp only [selfOrAncestor] at h
    by_cases hxa : x = a
    · simp [hxa] at h
    · rw [if_neg hxa] at h
      intro k
      cases k with
      | zero => simp only [Anc]; exact hxa
      | succ k =>
        rintro ⟨e, p, he, hp, hr⟩
        rw [he] at h
        simp only [hp] at h
        exact ih p h k hr

open Classical in
/-- adding the parent link `s → x` keeps the parent relation well-founded when `x` is not in
    the subtree of `s` -/
theorem acyclic_add_edge (w w' : MW) (hacy : Acyclic w) (s x : Nat)
    (hedges : ∀ t e' p, w'.sigs.get t = some e' → e'.parentMux = some p →
      (t = s ∧ p = x) ∨ (∃ e, w.sigs.get t = some e ∧ e.parentMux = some p))
    (hnot : ∀ k, ¬ Anc w k x s) : Acyclic w' := by
  obtain ⟨depth, hd⟩ := hacy
  have hmono : ∀ k t u, Anc w k t u → depth u ≤ depth t := by
    intro k
    induction k with
    | zero => intro t u ha; simp only [Anc] at ha; subst ha; exact Nat.le_refl _
    | succ k ih =>
      rintro t u ⟨e, p, he, hp, hr⟩
      have := hd t e p he hp
      have := ih p u hr
      omega
  refine ⟨fun i => if (∃ k, Anc w k i s) then depth i + depth x + 1 else depth i, ?_⟩
  intro t e' p ht hp
  simp only
  rcases hedges t e' p ht hp with ⟨rfl, rfl⟩ | ⟨e, he, hpe⟩
  · have h1 : ∃ k, Anc w k t t := ⟨0, rfl⟩
    have h2 : ¬ ∃ k, Anc w k p t := fun ⟨k, hk⟩ => hnot k hk
    rw [if_pos h1, if_neg h2]
    omega
  · have hlt := hd t e p he hpe
    by_cases hin : ∃ k, Anc w k t s
    · rw [if_pos hin]
      obtain ⟨k, hk⟩ := hin
      cases k with
      | zero =>
        simp only [Anc] at hk
        subst hk
        -- the old parent of `s` is not in the subtree of `s`
        by_cases hpin : ∃ j, Anc w j p t
        · obtain ⟨j, hj⟩ := hpin
          have := hmono j p t hj
          omega
        · rw [if_neg hpin]; omega
      | succ k =>
        obtain ⟨e0, p0, he0, hp0, hr⟩ := hk
        rw [he] at he0; cases he0
        rw [hpe] at hp0; cases hp0
        rw [if_pos ⟨k, hr⟩]
        omega
    · rw [if_neg hin]
      have hpin : ¬ ∃ j, Anc w j p s := by
        rintro ⟨j, hj⟩
        exact hin ⟨j + 1, e, p, he, hpe, hj⟩
      rw [if_neg hpin]
      exact hlt

/-- ancestor chains below `s` only depend on the parent links of the other signals -/
theorem Anc_below_congr' (w w' : MW) (hacy : TreeOK w) (hacy' : TreeOK w') (s : Nat)
    (hsame : ∀ i, i ≠ s → (w'.sigs.get i).map (·.parentMux) = (w.sigs.get i).map (·.parentMux))
    (k : Nat) (t : Nat) : Anc w' (k + 1) t s ↔ Anc w (k + 1) t s := by
  induction k generalizing t with
  | zero =>
    by_cases hts : t = s
    · subst hts
      constructor
      · intro ha; exact absurd ⟨0, ha⟩ (not_below_self w' hacy' t)
      · intro ha; exact absurd ⟨0, ha⟩ (not_below_self w hacy t)
    · have := hsame t hts
      simp only [Anc]
      constructor
      · rintro ⟨e', p, he', hp, hps⟩
        rw [he'] at this
        cases hg : w.sigs.get t with
        | none => rw [hg] at this; simp at this
        | some e =>
          rw [hg] at this; simp only [Option.map_some, Option.some.injEq] at this
          exact ⟨e, p, rfl, by rw [← this, hp], hps⟩
      · rintro ⟨e, p, he, hp, hps⟩
        rw [he] at this
        cases hg : w'.sigs.get t with
        | none => rw [hg] at this; simp at this
        | some e' =>
          rw [hg] at this; simp only [Option.map_some, Option.some.injEq] at this
          exact ⟨e', p, rfl, by rw [this, hp], hps⟩
  | succ k ih =>
    by_cases hts : t = s
    · subst hts
      constructor
      · intro ha; exact absurd ⟨k + 1, ha⟩ (not_below_self w' hacy' t)
      · intro ha; exact absurd ⟨k + 1, ha⟩ (not_below_self w hacy t)
    · have := hsame t hts
      constructor
      · rintro ⟨e', p, he', hp, hr⟩
        rw [he'] at this
        cases hg : w.sigs.get t with
        | none => rw [hg] at this; simp at this
        | some e =>
          rw [hg] at this; simp only [Option.map_some, Option.some.injEq] at this
          exact ⟨e, p, hg, by rw [← this, hp], (ih p).mp hr⟩
      · rintro ⟨e, p, he, hp, hr⟩
        rw [he] at this
        cases hg : w'.sigs.get t with
        | none => rw [hg] at this; simp at this
        | some e' =>
          rw [hg] at this; simp only [Option.map_some, Option.some.injEq] at this
          exact ⟨e', p, hg, by rw [this, hp], (ih p).mpr hr⟩

/-- the tail of `InsertSignal`: bookkeeping, then `ms.addSignal(signal)` -/
def insTail (w1 : MW) (x s : Nat) (book : MuxD → MuxD) : MW := muxAddSignal (updMux w1 x book) x s

theorem insTail_spec (w : MW) (h : InvCore w) (x s : Nat) (xe se : SigE) (gc gs : Int)
    (hx : w.sigs.get x = some xe) (hk : xe.kind = .mux gc gs)
    (hs : w.sigs.get s = some se) (hxs : x ≠ s) (hnot : ∀ k, ¬ Anc w k x s)
    (hpar : se.parentMux = none ∨ se.parentMux = some x)
    (hsm : xe.parentMsg = none → se.parentMsg = none)
    (st : Int) (w1 : MW) (G' : List (List Nat)) (hm1 : w1.msgs = w.msgs)
    (hg1 : ∀ i, w1.sigs.get i = if i = s then some { se with rel := st }
      else if i = x then some { xe with mx := { xe.mx with groups := G' } } else w.sigs.get i)
    (book : MuxD → MuxD) (hbs : ∀ d, (book d).signals = d.signals) (hbn : ∀ d, (book d).signalNames = d.signalNames) :
    (insTail w1 x s book).sigs.get x = some { xe with mx := { book { xe.mx with groups := G' } with signals := sAdd xe.mx.signals s, signalNames := nmSet xe.mx.signalNames se.name s } } ∧
    (insTail w1 x s book).sigs.get s = some { se with rel := st, parentMux := some x, parentMsg := xe.parentMsg } ∧
    (∀ t, Below w t s → (insTail w1 x s book).sigs.get t = (w.sigs.get t).map (fun e => { e with parentMsg := xe.parentMsg })) ∧
    (∀ t, t ≠ x → t ≠ s → ¬ Below w t s → (insTail w1 x s book).sigs.get t = w.sigs.get t) ∧
    (xe.parentMsg = none → (insTail w1 x s book).msgs = w.msgs) ∧
    (∀ m, xe.parentMsg = some m → ∃ msg P D, w.msgs.get m = some msg ∧ (∀ t, t ∈ D ↔ Below w t s) ∧
         (∀ n i, (n, i) ∈ P ↔ i ∈ s :: D ∧ nameOf w i = n) ∧
         ∀ j, (insTail w1 x s book).msgs.get j = if j = m then some { msg with signals := sAddAll msg.signals (s :: D), signalNames := nmSetAll msg.signalNames P } else w.msgs.get j) := by
  have hsx' : s ≠ x := fun e => hxs e.symm
  have hnbx : ¬ Below w x s := fun ⟨k, hk'⟩ => hnot (k + 1) hk'
  -- the world before the message registry is touched
  have hname2 : nameOf (updMux w1 x book) s = se.name := by
    unfold nameOf; rw [updMux_get, if_neg hsx', hg1, if_pos rfl]
  generalize hw4 : setParentMux (updMux (updMux w1 x book) x (fun d => { d with signals := sAdd d.signals s, signalNames := nmSet d.signalNames (nameOf (updMux w1 x book) s) s })) s (some x) = w4
  have hg4 : ∀ i, w4.sigs.get i =
      if i = s then some { se with rel := st, parentMux := some x }
      else if i = x then some { xe with mx := { book { xe.mx with groups := G' } with signals := sAdd xe.mx.signals s, signalNames := nmSet xe.mx.signalNames se.name s } }
      else w.sigs.get i := by
    have hA : ∀ i, (updMux w1 x book).sigs.get i =
        if i = s then some { se with rel := st }
        else if i = x then some { xe with mx := book { xe.mx with groups := G' } }
        else w.sigs.get i := by
      intro i
      rw [updMux_get, hg1, hg1, if_neg hxs, if_pos rfl]
      by_cases his : i = s
      · subst his; simp [hsx']
      · by_cases hix : i = x
        · subst hix; simp [his]
        · simp [his, hix]
    have hB : ∀ i, (updMux (updMux w1 x book) x (fun d => { d with signals := sAdd d.signals s, signalNames := nmSet d.signalNames (nameOf (updMux w1 x book) s) s })).sigs.get i =
        if i = s then some { se with rel := st }
        else if i = x then some { xe with mx := { book { xe.mx with groups := G' } with signals := sAdd xe.mx.signals s, signalNames := nmSet xe.mx.signalNames se.name s } }
        else w.sigs.get i := by
      intro i
      rw [updMux_get, hA, hA, if_neg hxs, if_pos rfl, hname2]
      by_cases his : i = s
      · subst his; simp [hsx']
      · by_cases hix : i = x
        · subst hix; simp [his, hbs, hbn]
        · simp [his, hix]
    intro i
    rw [← hw4, setParentMux_get, hB, hB, if_pos rfl]
    by_cases his : i = s
    · subst his; simp
    · simp [his]
  have hm4 : w4.msgs = w.msgs := by
    rw [← hw4, setParentMux_msgs, updMux_msgs, updMux_msgs, hm1]
  have hpm4 : parentMsgOf w4 x = xe.parentMsg := by
    unfold parentMsgOf; rw [hg4, if_neg hxs, if_pos rfl]
  have htail_none : xe.parentMsg = none → insTail w1 x s book = w4 := by
    intro hpm
    unfold insTail muxAddSignal
    simp only
    rw [hw4, hpm4, hpm]
  have htail_some : ∀ m, xe.parentMsg = some m → insTail w1 x s book = msgAddSignal w4 m s := by
    intro m hpm
    unfold insTail muxAddSignal
    simp only
    rw [hw4, hpm4, hpm]
  have hbelow_facts : ∀ t, Below w t s → ∃ e, w.sigs.get t = some e ∧ e.parentMsg = se.parentMsg ∧ t ≠ s ∧ t ≠ x := by
    intro t hb
    obtain ⟨e, he, a1, _, a3⟩ := below_registered w h s t se hs hb
    exact ⟨e, he, a1, a3, by rintro rfl; exact hnbx hb⟩
  by_cases hpmn : xe.parentMsg = none
  · have hsenone := hsm hpmn
    rw [htail_none hpmn]
    refine ⟨?_, ?_, ?_, ?_, ?_, ?_⟩
    · rw [hg4, if_neg hxs, if_pos rfl]
    · rw [hg4, if_pos rfl]
      congr 1
      cases se; simp_all
    · intro t hb
      obtain ⟨e, he, a1, a2, a3⟩ := hbelow_facts t hb
      rw [hg4, if_neg a2, if_neg a3, he]
      simp only [Option.map_some, Option.some.injEq]
      have : e.parentMsg = xe.parentMsg := by rw [a1, hsenone, hpmn]
      cases e; simp_all
    · intro t h1 h2 _
      rw [hg4, if_neg h2, if_neg h1]
    · intro _; exact hm4
    · intro m hpm; rw [hpmn] at hpm; cases hpm
  · obtain ⟨m, hpm⟩ : ∃ m, xe.parentMsg = some m := by
      cases hh : xe.parentMsg with
      | none => exact absurd hh hpmn
      | some m => exact ⟨m, rfl⟩
    rw [htail_some m hpm]
    obtain ⟨msg, hmsg⟩ : ∃ msg, w.msgs.get m = some msg := by
      have := h.parentMsgExists x xe m hx hpm
      cases hg : w.msgs.get m with
      | none => rw [hg] at this; simp at this
      | some msg => exact ⟨msg, rfl⟩
    have hmsg4 : w4.msgs.get m = some msg := by rw [hm4]; exact hmsg
    rw [msgAddSignal_eq w4 m s msg hmsg4]
    have hxo := h.muxOK hx hk
    -- the tree of w4
    have ht4 : TreeOK w4 := by
      refine ⟨?_, ?_, ?_⟩
      · intro t e' p ht hp
        have : ∃ pe, w.sigs.get p = some pe := by
          rw [hg4] at ht
          by_cases hts : t = s
          · rw [if_pos hts] at ht; cases ht
            simp only [Option.some.injEq] at hp
            exact ⟨xe, by rw [← hp]; exact hx⟩
          · rw [if_neg hts] at ht
            by_cases htx : t = x
            · rw [if_pos htx] at ht; cases ht
              exact h.treeOK.parentStored x xe p hx hp
            · rw [if_neg htx] at ht
              exact h.treeOK.parentStored t e' p ht hp
        obtain ⟨pe, hpe⟩ := this
        rw [hg4]
        by_cases hps : p = s
        · simp [hps]
        · by_cases hpx : p = x
          · simp [hpx, hxs]
          · simp [hps, hpx, hpe]
      · intro y c
        have hch : childrenOf w4 y = if y = x then sAdd xe.mx.signals s else childrenOf w y := by
          unfold childrenOf
          rw [hg4]
          by_cases hys : y = s
          · subst hys; simp [hsx', hs]
          · by_cases hyx : y = x
            · subst hyx; simp [hys, hk, hx]
            · simp [hys, hyx]
        rw [hch]
        by_cases hyx : y = x
        · subst hyx
          simp only [↓reduceIte, mem_sAdd]
          constructor
          · rintro (rfl | hc)
            · exact ⟨_, by rw [hg4, if_pos rfl], rfl⟩
            · obtain ⟨e, he, hp⟩ := (hxo.child c).mp hc
              by_cases hcs : c = s
              · subst hcs; exact ⟨_, by rw [hg4, if_pos rfl], rfl⟩
              · have hcx : c ≠ y := by rintro rfl; exact self_not_parent w h c e he hp
                exact ⟨e, by rw [hg4, if_neg hcs, if_neg hcx]; exact he, hp⟩
          · rintro ⟨e', he', hp⟩
            rw [hg4] at he'
            by_cases hcs : c = s
            · exact Or.inl hcs
            · rw [if_neg hcs] at he'
              by_cases hcx : c = y
              · rw [if_pos hcx] at he'; cases he'
                exact absurd hp (self_not_parent w h y xe hx)
              · rw [if_neg hcx] at he'
                exact Or.inr ((hxo.child c).mpr ⟨e', he', hp⟩)
        · rw [if_neg hyx, h.treeOK.children]
          constructor
          · rintro ⟨e, he, hp⟩
            have hcs : c ≠ s := by
              rintro rfl
              rw [hs] at he; cases he
              rcases hpar with hh | hh
              · rw [hh] at hp; cases hp
              · rw [hh] at hp; cases hp; exact hyx rfl
            by_cases hcx : c = x
            · subst hcx
              rw [hx] at he; cases he
              exact ⟨{ xe with mx := { book { xe.mx with groups := G' } with signals := sAdd xe.mx.signals s, signalNames := nmSet xe.mx.signalNames se.name s } }, by rw [hg4, if_neg hcs, if_pos rfl], hp⟩
            · exact ⟨e, by rw [hg4, if_neg hcs, if_neg hcx]; exact he, hp⟩
          · rintro ⟨e', he', hp⟩
            rw [hg4] at he'
            by_cases hcs : c = s
            · rw [if_pos hcs] at he'; cases he'
              simp only [Option.some.injEq] at hp
              exact absurd hp.symm hyx
            · rw [if_neg hcs] at he'
              by_cases hcx : c = x
              · rw [if_pos hcx] at he'; cases he'
                exact ⟨xe, by rw [hcx]; exact hx, hp⟩
              · rw [if_neg hcx] at he'
                exact ⟨e', he', hp⟩
      · apply acyclic_add_edge w w4 h.acyclic s x _ hnot
        intro t e' p ht hp
        rw [hg4] at ht
        by_cases hts : t = s
        · rw [if_pos hts] at ht; cases ht
          simp only [Option.some.injEq] at hp
          exact Or.inl ⟨hts, hp.symm⟩
        · rw [if_neg hts] at ht
          by_cases htx : t = x
          · rw [if_pos htx] at ht; cases ht
            exact Or.inr ⟨xe, by rw [htx]; exact hx, hp⟩
          · rw [if_neg htx] at ht
            exact Or.inr ⟨e', ht, hp⟩
    obtain ⟨D, hDd⟩ : ∃ D, D = descendants w4 (fuelOf w4) s := ⟨_, rfl⟩
    rw [← hDd]
    have hpmx : ∀ i, i ≠ s → (w4.sigs.get i).map (·.parentMux) = (w.sigs.get i).map (·.parentMux) := by
      intro i his
      rw [hg4, if_neg his]
      by_cases hix : i = x
      · simp [hix, hx]
      · simp [hix]
    have hD : ∀ t, t ∈ D ↔ Below w t s := by
      intro t
      rw [hDd, mem_descendants_iff w4 ht4]
      unfold Below
      constructor
      · rintro ⟨k, hk'⟩; exact ⟨k, (Anc_below_congr' w w4 h.treeOK ht4 s hpmx k t).mp hk'⟩
      · rintro ⟨k, hk'⟩; exact ⟨k, (Anc_below_congr' w w4 h.treeOK ht4 s hpmx k t).mpr hk'⟩
    have hxD : x ∉ s :: D := by
      simp only [List.mem_cons, hxs, false_or, hD]
      exact hnbx
    have hname4 : ∀ i, nameOf w4 i = nameOf w i := by
      intro i
      unfold nameOf
      rw [hg4]
      by_cases his : i = s
      · simp [his, hs]
      · by_cases hix : i = x
        · subst hix; simp [hxs, hx]
        · simp [his, hix]
    refine ⟨?_, ?_, ?_, ?_, ?_, ?_⟩
    · simp only
      rw [setParentMsgs_get, if_neg hxD, hg4, if_neg hxs, if_pos rfl]
    · simp only
      rw [setParentMsgs_get, if_pos List.mem_cons_self, hg4, if_pos rfl, hpm]
      rfl
    · intro t hb
      obtain ⟨e, he, a1, a2, a3⟩ := hbelow_facts t hb
      simp only
      rw [setParentMsgs_get, if_pos (List.mem_cons_of_mem _ ((hD t).mpr hb)), hg4, if_neg a2, if_neg a3, hpm]
    · intro t h1 h2 h3
      simp only
      have : t ∉ s :: D := by simp [h2, hD, h3]
      rw [setParentMsgs_get, if_neg this, hg4, if_neg h2, if_neg h1]
    · intro hh; rw [hpm] at hh; cases hh
    · intro m' hpm'
      rw [hpm] at hpm'; cases hpm'
      refine ⟨msg, (nameOf w4 s, s) :: (s :: D).flatMap (childNamesOf w4), D, hmsg, hD, ?_, ?_⟩
      · intro n i
        have hex : ∀ y, (y = s ∨ y ∈ descendants w4 (fuelOf w4) s) →
            ∀ n i, (n, i) ∈ childNamesOf w4 y ↔ i ∈ childrenOf w4 y ∧ nameOf w4 i = n := by
          intro y hy n i
          have hyx : y ≠ x := by
            rintro rfl
            apply hxD
            rw [hDd]
            simpa using hy
          have hcn : childNamesOf w4 y = childNamesOf w y ∧ childrenOf w4 y = childrenOf w y := by
            unfold childNamesOf childrenOf
            rw [hg4]
            by_cases hys : y = s
            · subst hys; simp [hs]
            · simp [hys, hyx]
          rw [hcn.1, hcn.2, hname4]
          exact childNames_exact w (fun x xe gc gs hx hk => (h.muxOK hx hk).names) y n i
        have := mem_subtreeNames' w4 ht4 s hex n i
        rw [← hDd, hname4] at this
        simp only [List.mem_cons, Prod.mk.injEq, this, hname4]
        constructor
        · rintro (⟨rfl, rfl⟩ | ⟨hi, hn⟩)
          · exact ⟨Or.inl rfl, rfl⟩
          · exact ⟨Or.inr hi, hn⟩
        · rintro ⟨rfl | hi, hn⟩
          · exact Or.inl ⟨hn.symm, rfl⟩
          · exact Or.inr ⟨hi, hn⟩
      · intro j
        simp only [AMap.get_set, hm4]
        by_cases hj : j = m
        · simp [hj, nmSetAll]
        · simp [hj]

end Acme.Mux
