/-
GenBstDelete — the generated `deleteNode` / `Delete` / `Clear` (Acme/Gen/Bst.lean, translated from
/repo/internal/interval_bst.go) are the model's, for ALL trees and arguments.
-/
import Acme.Proofs.GenBstInsert

namespace Acme.GenBst
open Acme.GoSem (Res)
open Acme.Gen.Bst

theorem map_bind_pure (o : Option Acme.Avl.Tree) (d s : Int) :
    Option.map (fun p => (p.1, s + p.2)) (o.bind fun t => some (t, d)) = o.map (fun t => (t, s + d)) := by
  cases o <;> rfl

theorem deleteNode_eq (t : Tree) (s lo hi : Int) :
    absP (deleteNode s t lo hi) = (Acme.Avl.deleteNode (abs t) lo hi).map (fun p => (p.1, s + p.2)) := by
  induction t generalizing s lo hi with
  | leaf => simp [deleteNode, Acme.Avl.deleteNode]
  | node nlo nhi mx l r h ihl ihr =>
    rw [deleteNode]
    simp only [lessThan_node, abs_node, Acme.Avl.deleteNode]
    by_cases hc : Acme.Avl.lessThan lo hi nlo nhi = true
    · simp only [hc, if_true]
      rw [res_eq_of_absP (ihl s lo hi)]
      cases Acme.Avl.deleteNode (abs l) lo hi with
      | none => simp [liftP]
      | some p =>
        obtain ⟨u, d⟩ := p
        obtain ⟨l', rfl⟩ : ∃ l', u = abs l' := ⟨conc u, by simp⟩
        simp only [liftP, updateHeight_node, updateMax_node, balanceFactor_node, rotateRight_lift, rotateLeft_lift, conc_abs,
          bind, pure, Option.bind_some, Option.map_some, map_bind_pure]
        tail_tac l' r
    · simp only [hc]
      by_cases hne : lo ≠ nlo ∨ hi ≠ nhi
      · simp only [hne, if_true]
        rw [res_eq_of_absP (ihr s lo hi)]
        cases Acme.Avl.deleteNode (abs r) lo hi with
        | none => simp [liftP]
        | some p =>
          obtain ⟨u, d⟩ := p
          obtain ⟨r', rfl⟩ : ∃ r', u = abs r' := ⟨conc u, by simp⟩
          simp only [liftP, updateHeight_node, updateMax_node, balanceFactor_node, rotateRight_lift, rotateLeft_lift, conc_abs,
            bind, pure, Option.bind_some, Option.map_some, map_bind_pure]
          tail_tac l r'
      · have hc' : Acme.Avl.lessThan lo hi nlo nhi = false := by simpa using hc
        simp only [hc', hne, if_false, Bool.false_eq_true]
        cases l with
        | leaf => simp; omega
        | node llo lhi lmx ll lr lh =>
          cases r with
          | leaf => simp; omega
          | node rlo rhi rmx rl rr rh =>
            have hf := findMin_eq (.node rlo rhi rmx rl rr rh)
            cases hfm : findMin (.node rlo rhi rmx rl rr rh) with
            | panic => rw [hfm] at hf; simp at hf; simp [← hf]
            | val succ =>
              rw [hfm] at hf
              cases succ with
              | leaf => simp [rootItem] at hf; simp [← hf]
              | node slo shi smx sl sr sh =>
                simp only [toOpt_val, Option.bind_some, rootItem] at hf
                have hf' : Acme.Avl.findMin (Acme.Avl.Tree.node (abs rl) rlo rhi rmx rh (abs rr)) = some (slo, shi) := hf.symm
                simp only [abs_node, hf']
                rw [res_eq_of_absP (ihr (s - 1 + 1) slo shi)]
                simp only [abs_node]
                rw [← abs_node llo lhi lmx ll lr lh]
                cases Acme.Avl.deleteNode (Acme.Avl.Tree.node (abs rl) rlo rhi rmx rh (abs rr)) slo shi with
                | none => simp [liftP]
                | some p =>
                  obtain ⟨u, d⟩ := p
                  obtain ⟨r', rfl⟩ : ∃ r', u = abs r' := ⟨conc u, by simp⟩
                  generalize Tree.node llo lhi lmx ll lr lh = L
                  simp only [liftP, updateHeight_node, updateMax_node, balanceFactor_node, rotateRight_lift, rotateLeft_lift, conc_abs,
                    bind, pure, Option.bind_some, Option.map_some, map_bind_pure]
                  rw [show s - 1 + 1 + d = s + (-1 + 1 + d) by omega]
                  tail_tac L r'

theorem Delete_eq (root : Tree) (size lo hi : Int) :
    absP (Delete root size lo hi) =
      (Acme.Avl.step { root := abs root, size := size } (.delete lo hi)).map (fun t => (t.root, t.size)) := by
  unfold Delete
  simp only [Acme.Avl.step]
  rw [res_eq_of_absP (deleteNode_eq root size lo hi)]
  cases Acme.Avl.deleteNode (abs root) lo hi <;> simp [liftP]

theorem Clear_eq (root : Tree) (size : Int) :
    some ((abs (Clear root size).1, (Clear root size).2)) =
      (Acme.Avl.step { root := abs root, size := size } .clear).map (fun t => (t.root, t.size)) := by
  simp [Clear, Acme.Avl.step]

theorem Intersects_eq (root : Tree) (size lo hi : Int) :
    Intersects root size lo hi = Acme.Avl.intersects { root := abs root, size := size } lo hi := by
  simp [Intersects, IsEmpty, Acme.Avl.intersects, intersectsNode_eq]

theorem CanUpdateInterval_eq (root : Tree) (size slo shi lo hi : Int) :
    CanUpdateInterval root size slo shi lo hi =
      Acme.Avl.canUpdate { root := abs root, size := size } slo shi lo hi := by
  simp [CanUpdateInterval, Acme.Avl.canUpdate, checkOtherIntervals_eq]

theorem GetAllIntervals_eq (root : Tree) (size : Int) :
    GetAllIntervals root size = Acme.Avl.inorder (abs root) := by
  simp [GetAllIntervals, inOrderTraversal_eq]

end Acme.GenBst
