/-
Layout algebra, part D: verifyGrow / growStarts.
-/
import Acme.Proofs.LayoutIds

namespace Acme.Layout

/-! ### auxiliary specification functions -/

/-- the gaps in front of each slot, the first one measured from `lo` -/
def gapsFrom : Int → List Slot → List Int
  | _, [] => []
  | lo, f :: rest => (f.start - lo) :: gapsFrom (f.start + f.size) rest

/-- end of the last slot, `lo` for the empty list -/
def lastEndFrom : Int → List Slot → Int
  | lo, [] => lo
  | _, f :: rest => lastEndFrom (f.start + f.size) rest

/-- the prefix of the list up to and including the (first) slot with id `id` -/
def upto (id : Nat) : List Slot → List Slot
  | [] => []
  | s :: rest => if s.id = id then [s] else s :: upto id rest

theorem sizeSum_nil : sizeSum [] = 0 := rfl

theorem sizeSum_cons (s : Slot) (rest : List Slot) : sizeSum (s :: rest) = s.size + sizeSum rest := rfl

theorem followers_cons_eq {id : Nat} {s : Slot} (rest : List Slot) (h : s.id = id) :
    followers id (s :: rest) = rest := by
  simp [followers, h]

theorem followers_cons_ne {id : Nat} {s : Slot} (rest : List Slot) (h : s.id ≠ id) :
    followers id (s :: rest) = followers id rest := by
  simp [followers, h]

theorem upto_cons_eq {id : Nat} {s : Slot} (rest : List Slot) (h : s.id = id) :
    upto id (s :: rest) = [s] := by
  simp [upto, h]

theorem upto_cons_ne {id : Nat} {s : Slot} (rest : List Slot) (h : s.id ≠ id) :
    upto id (s :: rest) = s :: upto id rest := by
  simp [upto, h]

theorem upto_append_followers (id : Nat) : ∀ l : List Slot, upto id l ++ followers id l = l
  | [] => rfl
  | s :: rest => by
    by_cases h : s.id = id
    · rw [upto_cons_eq rest h, followers_cons_eq rest h]; rfl
    · rw [upto_cons_ne rest h, followers_cons_ne rest h, List.cons_append,
        upto_append_followers id rest]

theorem followers_wf {id : Nat} {s : Slot} {cap : Int} : ∀ {l : List Slot} {lo : Int},
    WFfrom lo cap l → find id l = some s → WFfrom (s.start + s.size) cap (followers id l)
  | [], _, _, hf => by cases hf
  | t :: rest, lo, h, hf => by
    rw [WFfrom_cons] at h
    by_cases ht : t.id = id
    · rw [find_cons_eq rest ht] at hf
      injection hf with hf; subst hf
      rw [followers_cons_eq rest ht]; exact h.2.2
    · rw [find_cons_ne rest ht] at hf
      rw [followers_cons_ne rest ht]
      exact followers_wf h.2.2 hf

/-! ### verifyGrow -/

theorem growScan_true (id : Nat) : ∀ (l : List Slot) (avail pe : Int),
    (growScan id l avail pe true).1 - (growScan id l avail pe true).2 = avail - pe - sizeSum l
  | [], avail, pe => by
    simp only [growScan, sizeSum_nil]; omega
  | s :: rest, avail, pe => by
    rw [growScan, if_pos rfl, growScan_true id rest, sizeSum_cons]
    omega

theorem growScan_false (id : Nat) (s : Slot) : ∀ (l : List Slot) (avail pe : Int),
    find id l = some s →
    (growScan id l avail pe false).1 - (growScan id l avail pe false).2 =
      avail - (s.start + s.size) - sizeSum (followers id l)
  | [], _, _, hf => by cases hf
  | t :: rest, avail, pe, hf => by
    rw [growScan, if_neg (by simp)]
    by_cases ht : t.id = id
    · rw [find_cons_eq rest ht] at hf
      injection hf with hf; subst hf
      have hd : decide (t.id = id) = true := by simp [ht]
      rw [hd, growScan_true id rest, followers_cons_eq rest ht]
    · rw [find_cons_ne rest ht] at hf
      have hd : decide (t.id = id) = false := by simp [ht]
      rw [hd, growScan_false id s rest _ _ hf, followers_cons_ne rest ht]

theorem freeBehind_eq {cap : Int} {l : List Slot} {id : Nat} {s : Slot} (hs : find id l = some s) :
    freeBehind cap l id = cap - (s.start + s.size) - sizeSum (followers id l) := by
  unfold freeBehind; rw [hs]

theorem verifyGrow_eq (cap : Int) (l : List Slot) (id : Nat) (s : Slot) (hs : find id l = some s)
    (amount : Int) :
    verifyGrow cap l id amount =
      if amount < 0 then .error .negative
      else if amount > freeBehind cap l id then .error .noSpaceLeft else .ok () := by
  unfold verifyGrow
  by_cases h1 : amount < 0
  · rw [if_pos h1, if_pos h1]
  · rw [if_neg h1, if_neg h1]
    have hsc := growScan_false id s l 0 0 hs
    rw [freeBehind_eq hs]
    generalize growScan id l 0 0 false = r at hsc
    obtain ⟨av, pe⟩ := r
    simp only at hsc ⊢
    have e : av + (cap - pe) = cap - (s.start + s.size) - sizeSum (followers id l) := by omega
    rw [e]

theorem verifyGrow_spec (cap : Int) (l : List Slot) (_h : WF cap l) (_hn : IdsNodup l)
    (id : Nat) (hid : (find id l).isSome) (amount : Int) :
    (verifyGrow cap l id amount = .ok () ↔ 0 ≤ amount ∧ amount ≤ freeBehind cap l id) ∧
    (amount < 0 → verifyGrow cap l id amount = .error .negative) ∧
    (freeBehind cap l id < amount → 0 ≤ amount → verifyGrow cap l id amount = .error .noSpaceLeft) := by
  obtain ⟨s, hs⟩ := Option.isSome_iff_exists.1 hid
  rw [verifyGrow_eq cap l id s hs amount]
  by_cases h1 : amount < 0
  · rw [if_pos h1]
    refine ⟨⟨fun hh => (by cases hh), fun hh => (by omega)⟩, fun _ => rfl, fun _ _ => (by omega)⟩
  · rw [if_neg h1]
    by_cases h2 : amount > freeBehind cap l id
    · rw [if_pos h2]
      refine ⟨⟨fun hh => (by cases hh), fun hh => (by omega)⟩, fun _ => (by omega), fun _ _ => rfl⟩
    · rw [if_neg h2]
      refine ⟨⟨fun _ => (by omega), fun _ => rfl⟩, fun _ => (by omega), fun _ _ => (by omega)⟩

/-! ### growSpaces -/

theorem growSpaces_true (id : Nat) : ∀ (l : List Slot) (idx : Nat) (spaces : List Int)
    (nextIdx : Nat) (pe : Int),
    growSpaces id l idx spaces nextIdx pe true =
      some (spaces ++ gapsFrom pe l, nextIdx, lastEndFrom pe l)
  | [], idx, spaces, nextIdx, pe => by
    simp [growSpaces, gapsFrom, lastEndFrom]
  | s :: rest, idx, spaces, nextIdx, pe => by
    rw [growSpaces, if_pos rfl, growSpaces_true id rest]
    simp [gapsFrom, lastEndFrom]

theorem growSpaces_false (id : Nat) (s : Slot) : ∀ (l : List Slot) (idx : Nat) (spaces : List Int)
    (nextIdx : Nat) (pe : Int), find id l = some s →
    (followers id l = [] ∧ growSpaces id l idx spaces nextIdx pe false = none) ∨
    (∃ n k pe', growSpaces id l idx spaces nextIdx pe false =
        some (spaces ++ gapsFrom (s.start + s.size) (followers id l), n, pe') ∧
      n = idx + k ∧ l.take k = upto id l ∧ l.drop k = followers id l)
  | [], _, _, _, _, hf => by cases hf
  | t :: rest, idx, spaces, nextIdx, pe, hf => by
    rw [growSpaces, if_neg (by simp)]
    by_cases ht : t.id = id
    · rw [find_cons_eq rest ht] at hf
      injection hf with hf; subst hf
      rw [if_pos ht, followers_cons_eq rest ht, upto_cons_eq rest ht]
      cases rest with
      | nil => left; exact ⟨rfl, rfl⟩
      | cons r rest' =>
        right
        rw [if_neg (by simp), growSpaces_true]
        exact ⟨idx + 1, 1, _, rfl, rfl, rfl, rfl⟩
    · rw [find_cons_ne rest ht] at hf
      rw [if_neg ht, followers_cons_ne rest ht, upto_cons_ne rest ht]
      rcases growSpaces_false id s rest (idx + 1) spaces nextIdx (t.start + t.size) hf with
        ⟨h1, h2⟩ | ⟨n, k, pe', h1, h2, h3, h4⟩
      · left; exact ⟨h1, h2⟩
      · right
        refine ⟨n, k + 1, pe', h1, by omega, ?_, ?_⟩
        · rw [List.take_succ_cons, h3]
        · rw [List.drop_succ_cons, h4]

/-! ### growPush -/

theorem growPush_nil (spaces : List Int) (acc : Int) : growPush [] spaces acc = .ok [] := by
  rw [growPush]

theorem growPush_cons (f : Slot) (rest : List Slot) (sp : Int) (spaces : List Int) (acc : Int) :
    growPush (f :: rest) (sp :: spaces) acc =
      if sp ≥ acc then .ok (f :: rest)
      else match growPush rest spaces (acc - sp) with
        | .error e => .error e
        | .ok rest' => .ok ({ f with start := f.start + (acc - sp) } :: rest') := by
  rw [growPush]; rfl

theorem growPush_spec (cap : Int) : ∀ (fs : List Slot) (lo acc : Int) (extra : List Int),
    WFfrom lo cap fs → acc ≤ cap - lo - sizeSum fs →
    ∃ fs', growPush fs (gapsFrom lo fs ++ extra) acc = .ok fs' ∧
      WFfrom (lo + acc) cap fs' ∧
      fs'.map (fun x => (x.id, x.size)) = fs.map (fun x => (x.id, x.size)) ∧
      List.Forall₂ (fun a b : Slot => a.start ≤ b.start) fs fs'
  | [], lo, acc, extra, _, hacc => by
    refine ⟨[], growPush_nil _ _, ?_, rfl, List.Forall₂.nil⟩
    rw [sizeSum_nil] at hacc
    rw [WFfrom_nil]; omega
  | f :: rest, lo, acc, extra, h, hacc => by
    rw [WFfrom_cons] at h
    rw [sizeSum_cons] at hacc
    rw [gapsFrom, List.cons_append, growPush_cons]
    by_cases hc : f.start - lo ≥ acc
    · rw [if_pos hc]
      refine ⟨f :: rest, rfl, ?_, rfl, forall₂_le_refl _⟩
      rw [WFfrom_cons]; exact ⟨by omega, h.2.1, h.2.2⟩
    · rw [if_neg hc]
      obtain ⟨rest', h1, h2, h3, h4⟩ :=
        growPush_spec cap rest (f.start + f.size) (acc - (f.start - lo)) extra h.2.2 (by omega)
      rw [h1]
      refine ⟨_, rfl, ?_, ?_, ?_⟩
      · rw [WFfrom_cons]
        refine ⟨by simp only; omega, h.2.1, WFfrom_mono h2 (by simp only; omega)⟩
      · rw [List.map_cons, List.map_cons, h3]
      · exact List.Forall₂.cons (by simp only; omega) h4

/-! ### growStarts -/

theorem grow_core (cap : Int) (id : Nat) (s : Slot) (amount : Int) (ha : 0 ≤ amount) :
    ∀ (l : List Slot) (lo : Int), WFfrom lo cap l → IdsNodup l → find id l = some s →
    ∀ tail : List Slot, WFfrom (s.start + s.size + amount) cap tail →
    tail.map (fun x => (x.id, x.size)) = (followers id l).map (fun x => (x.id, x.size)) →
    List.Forall₂ (fun a b : Slot => a.start ≤ b.start) (followers id l) tail →
    WFfrom lo cap (setSize (upto id l ++ tail) id (s.size + amount)) ∧
    (upto id l ++ tail).map (fun x => (x.id, x.size)) = l.map (fun x => (x.id, x.size)) ∧
    List.Forall₂ (fun a b : Slot => a.start ≤ b.start) l (upto id l ++ tail) ∧
    find id (upto id l ++ tail) = some s ∧
    (∀ x ∈ l, x.start < s.start → x ∈ upto id l ++ tail)
  | [], _, _, _, hf, _, _, _, _ => by cases hf
  | t :: rest, lo, h, hn, hf, tail, htw, htm, htf => by
    rw [WFfrom_cons] at h
    rw [IdsNodup_cons] at hn
    by_cases ht : t.id = id
    · rw [find_cons_eq rest ht] at hf
      injection hf with hf; subst hf
      rw [followers_cons_eq rest ht] at htm htf
      rw [upto_cons_eq rest ht]
      have hno : ∀ x ∈ tail, x.id ≠ id :=
        noid_of_map_eq htm (fun x hx => by rw [← ht]; exact hn.1 x hx)
      simp only [List.cons_append, List.nil_append]
      refine ⟨?_, ?_, ?_, find_cons_eq _ ht, ?_⟩
      · rw [setSize_cons_eq _ _ ht, setSize_noid hno, WFfrom_cons]
        exact ⟨h.1, by simp only; omega, WFfrom_mono htw (by simp only; omega)⟩
      · rw [List.map_cons, List.map_cons, htm]
      · exact List.Forall₂.cons (Int.le_refl _) htf
      · intro x hx hlt
        rcases List.mem_cons.1 hx with rfl | hx
        · simp
        · have := WFfrom_mem h.2.2 x hx
          omega
    · rw [find_cons_ne rest ht] at hf
      rw [followers_cons_ne rest ht] at htm htf
      rw [upto_cons_ne rest ht]
      obtain ⟨i1, i2, i3, i4, i5⟩ :=
        grow_core cap id s amount ha rest _ h.2.2 hn.2 hf tail htw htm htf
      simp only [List.cons_append]
      refine ⟨?_, ?_, ?_, ?_, ?_⟩
      · rw [setSize_cons_ne _ _ ht, WFfrom_cons]; exact ⟨h.1, h.2.1, i1⟩
      · rw [List.map_cons, List.map_cons, i2]
      · exact List.Forall₂.cons (Int.le_refl _) i3
      · rw [find_cons_ne _ ht]; exact i4
      · intro x hx hlt
        rcases List.mem_cons.1 hx with rfl | hx
        · simp
        · exact List.mem_cons_of_mem _ (i5 x hx hlt)

/-- the three possible outcomes of `growStarts` on a well-formed layout -/
theorem growStarts_cases (cap : Int) (l : List Slot) (h : WF cap l)
    (id : Nat) (s : Slot) (hs : find id l = some s) (amount : Int) :
    growStarts cap l id amount = .error .negative ∨
    growStarts cap l id amount = .error .noSpaceLeft ∨
    (0 ≤ amount ∧ ∃ tail, growStarts cap l id amount = .ok (upto id l ++ tail) ∧
      WFfrom (s.start + s.size + amount) cap tail ∧
      tail.map (fun x => (x.id, x.size)) = (followers id l).map (fun x => (x.id, x.size)) ∧
      List.Forall₂ (fun a b : Slot => a.start ≤ b.start) (followers id l) tail) := by
  have hfw : WFfrom (s.start + s.size) cap (followers id l) := followers_wf h hs
  unfold growStarts
  by_cases h0 : amount = 0
  · rw [if_pos h0]
    right; right
    refine ⟨by omega, followers id l, by rw [upto_append_followers], ?_, rfl, forall₂_le_refl _⟩
    exact WFfrom_mono hfw (by omega)
  · rw [if_neg h0, verifyGrow_eq cap l id s hs amount]
    by_cases h1 : amount < 0
    · rw [if_pos h1]; left; rfl
    · rw [if_neg h1]
      by_cases h2 : amount > freeBehind cap l id
      · rw [if_pos h2]; right; left; rfl
      · rw [if_neg h2]
        right; right
        refine ⟨by omega, ?_⟩
        rw [freeBehind_eq hs] at h2
        simp only
        rcases growSpaces_false id s l 0 [] 0 0 hs with ⟨e1, e2⟩ | ⟨n, k, pe', e1, e2, e3, e4⟩
        · rw [e2]
          simp only
          refine ⟨[], by rw [← e1, upto_append_followers], ?_, by rw [e1], by rw [e1]; exact List.Forall₂.nil⟩
          rw [e1, sizeSum_nil] at h2
          rw [WFfrom_nil]; omega
        · rw [e1]
          simp only
          have hk : n = k := by omega
          subst hk
          rw [e3, e4, List.nil_append]
          obtain ⟨fs', p1, p2, p3, p4⟩ :=
            growPush_spec cap (followers id l) (s.start + s.size) amount [cap - pe'] hfw (by omega)
          rw [p1]
          exact ⟨fs', rfl, p2, p3, p4⟩

theorem grow_wf (cap : Int) (l : List Slot) (h : WF cap l) (hn : IdsNodup l)
    (id : Nat) (s : Slot) (hs : find id l = some s) (amount : Int) (l' : List Slot)
    (hok : growStarts cap l id amount = .ok l') :
    WF cap (setSize l' id (s.size + amount)) ∧
    l'.map (fun x => (x.id, x.size)) = l.map (fun x => (x.id, x.size)) ∧
    List.Forall₂ (fun a b => a.start ≤ b.start) l l' ∧
    find id l' = some s ∧
    (∀ x ∈ l, x.start < s.start → x ∈ l') := by
  rcases growStarts_cases cap l h id s hs amount with e | e | ⟨ha, tail, e, t1, t2, t3⟩
  · rw [e] at hok; cases hok
  · rw [e] at hok; cases hok
  · rw [e] at hok
    injection hok with hok
    subst hok
    exact grow_core cap id s amount ha l 0 h hn hs tail t1 t2 t3

theorem grow_nopanic (cap : Int) (l : List Slot) (h : WF cap l) (_hn : IdsNodup l)
    (id : Nat) (hid : (find id l).isSome) (amount : Int) :
    growStarts cap l id amount ≠ .error .panic := by
  obtain ⟨s, hs⟩ := Option.isSome_iff_exists.1 hid
  rcases growStarts_cases cap l h id s hs amount with e | e | ⟨_, tail, e, _⟩ <;>
    rw [e] <;> intro hh <;> cases hh

end Acme.Layout
