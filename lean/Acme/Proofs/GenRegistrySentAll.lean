/-
Translator stage 13, node_iterface.go: the generated `RemoveAllSentMessages` against
`Acme.Graph.stepIfaceRemoveAllSent`.
-/
import Acme.Proofs.GenRegistryClosed
import Acme.Proofs.GenRegistryBus

namespace Acme.GenR
open Acme Acme.Graph Acme.RegSem Acme.Gen

/-- clearing a sender does not change any static CAN-ID -/
theorem staticOf_clear (g : G) (M : AMap MsgE) (m : Nat) (e : MsgE) (hm : M.get m = some e) (l : List Nat) :
    staticOf { g with msgs := M.set m { e with sender := none } } l = staticOf { g with msgs := M } l := by
  induction l with
  | nil => rfl
  | cons x l ih =>
    rw [staticOf_cons, staticOf_cons, ih]
    congr 1
    by_cases hx : x = m
    · subst hx; simp [hm]
    · simp [hx]

theorem removeAllSent_loop (g : G) (ni : Nat) (ifcR : IfaceR) (l : List Nat) :
    ∀ (h : H) (M : AMap MsgE), h.msgs = amap vMsg M → h.ifaces.get ni = some ifcR →
      (∀ m ∈ l, M.get m ≠ none) → (∀ pb, ifcR.parentBus = some pb → h.buses.get pb ≠ none) →
    ∃ h', R.NodeInterface_RemoveAllSentMessages_loop1 h ni l = R.NodeInterface_RemoveAllSentMessages_after1 h' ni ∧
      h'.nets = h.nets ∧ h'.nodes = h.nodes ∧ h'.ifaces = h.ifaces ∧ h'.msgs = amap vMsg (clearSenders M l) ∧
      ∀ k, h'.buses.get k = match ifcR.parentBus with
        | none => h.buses.get k
        | some pb => if k = pb then (h.buses.get pb).map
            (fun bus => busRm bus ((staticOf { g with msgs := M } l).map (·.1))) else h.buses.get k := by
  induction l with
  | nil =>
    intro h M hm hi _ hpb
    refine ⟨h, rfl, rfl, rfl, rfl, by simp [clearSenders, hm], ?_⟩
    intro k
    cases hp : ifcR.parentBus with
    | none => rfl
    | some pb =>
      by_cases hk : k = pb
      · subst hk
        obtain ⟨bus, hb⟩ := Option.ne_none_iff_exists'.1 (hpb k hp)
        simp [staticOf, busRm, removeKeys, hb]
      · simp [hk]
  | cons m l ih =>
    intro h M hm hi hex hpb
    obtain ⟨msg, hmsg⟩ := Option.ne_none_iff_exists'.1 (hex m List.mem_cons_self)
    have hget : h.msgs.get m = some (vMsg msg) := by rw [hm, amap_get, hmsg]; rfl
    let M' := M.set m { msg with sender := none }
    have hex' : ∀ m' ∈ l, M'.get m' ≠ none := by
      intro m' hm'
      by_cases hk : m' = m
      · simp [M', hk]
      · simpa [M', hk] using hex m' (List.mem_cons_of_mem _ hm')
    have hcs : clearSenders M (m :: l) = clearSenders M' l := by simp [clearSenders, hmsg, M']
    have hst : staticOf { g with msgs := M' } l = staticOf { g with msgs := M } l := staticOf_clear g M m msg hmsg l
    have hm' : h.msgs.set m { vMsg msg with senderNodeInt := none } = amap vMsg M' := by
      rw [hm]; simp only [M']; rw [amap_set]; rfl
    simp only [R.NodeInterface_RemoveAllSentMessages_loop1, hget, hi]
    cases hp : ifcR.parentBus with
    | none =>
      simp only
      obtain ⟨h', e1, e2, e3, e4, e5, e6⟩ := ih { h with msgs := h.msgs.set m { vMsg msg with senderNodeInt := none } } M'
        hm' hi hex' (by intro pb hpb'; simp [hp] at hpb')
      refine ⟨h', e1, e2, e3, e4, by rw [e5, hcs], ?_⟩
      intro k; rw [e6]; simp [hp]
    | some pb =>
      obtain ⟨bus, hb⟩ := Option.ne_none_iff_exists'.1 (hpb pb hp)
      cases hs : msg.static with
      | none =>
        simp only [vMsg, hs, Option.isSome_none, Bool.false_eq_true, ↓reduceIte]
        obtain ⟨h', e1, e2, e3, e4, e5, e6⟩ := ih { h with msgs := h.msgs.set m { vMsg msg with senderNodeInt := none } } M'
          hm' hi hex' hpb
        simp only [vMsg, hs] at e1
        refine ⟨h', e1, e2, e3, e4, by rw [e5, hcs], ?_⟩
        intro k; rw [e6]
        simp only [hp, hst, staticOf_cons, hmsg, hs, List.nil_append]
      | some c =>
        simp only [vMsg, hs, Option.isSome_some, ↓reduceIte, hb, Option.getD_some, set_remove_eq]
        obtain ⟨h', e1, e2, e3, e4, e5, e6⟩ := ih
          { h with msgs := h.msgs.set m { vMsg msg with senderNodeInt := none },
                   buses := h.buses.set pb { bus with messageStaticCANIDs := Reg.remove bus.messageStaticCANIDs c } } M'
          hm' hi hex' (by
            intro pb' hpb'
            by_cases hk : pb' = pb
            · simp [hk]
            · simpa [hk] using hpb pb' hpb')
        simp only [vMsg, hs] at e1
        refine ⟨h', e1, e2, e3, e4, by rw [e5, hcs], ?_⟩
        intro k; rw [e6]
        simp only [hp, hst, staticOf_cons, hmsg, hs, List.cons_append, List.nil_append, List.map_cons]
        by_cases hk : k = pb
        · subst hk; simp [hb, busRm, removeKeys]
        · simp [hk]

theorem RemoveAllSent_main (g : G) (i : Nat) (hc : Closed g) :
    ObsEq (obsV (R.NodeInterface_RemoveAllSentMessages (view g) i)) (obsG (stepIfaceRemoveAllSent g i)) := by
  unfold R.NodeInterface_RemoveAllSentMessages stepIfaceRemoveAllSent
  simp only [view_ifaces]
  cases hi : g.ifaces.get i with
  | none => simp [obsV, obsG, ObsEq]
  | some ifc =>
    have hg : ({ g with msgs := g.msgs } : G) = g := rfl
    obtain ⟨h', e1, e2, e3, e4, e5, e6⟩ := removeAllSent_loop g i (vIface ifc) ifc.sent.vals (view g) g.msgs rfl
      (by simp [hi]) (hc.sent i ifc hi) (by
        intro pb hp
        have := hc.pbus i ifc pb hi (by simpa [vIface] using hp)
        simp only [view_buses]
        cases hb : g.buses.get pb with
        | none => exact absurd hb this
        | some bus => simp)
    rw [hg] at e6
    simp only [Option.map_some]
    rw [show GoMap.values (vIface ifc).sentMessages = ifc.sent.vals from rfl, e1]
    simp only [R.NodeInterface_RemoveAllSentMessages_after1, e4, view_ifaces, hi, Option.map_some, set_clear_eq,
      obsV, obsG, ObsEq, and_true]
    refine ⟨?_, ?_, ?_, ?_, ?_⟩ <;> intro k
    · simp [e2]
    · simp only [e6, view_buses, vIface, updStatic]
      cases hp : ifc.parentBus with
      | none => simp
      | some pb =>
        obtain ⟨bus, hb⟩ := Option.ne_none_iff_exists'.1 (hc.pbus i ifc pb hi hp)
        by_cases hk : k = pb
        · subst hk; simp [hb, busRm, vBus]
        · simp [hk, hb]
    · simp [e3]
    · by_cases hk : k = i <;> simp [hk, e4, vIface]
    · simp [e5, amap_get]

/-- under `Inv` no two sent messages of an interface share a static CAN-ID -/
theorem mem_staticOf_inv {g : G} (inv : Inv g) (i : Nat) (ifc : IfaceE) (hi : g.ifaces.get i = some ifc) (c m : Nat)
    (h : (c, m) ∈ staticOf g ifc.sent.vals) : (ifaceSentStatic g.ifaces i).get c = some m := by
  unfold staticOf at h
  obtain ⟨x, hx, hf⟩ := List.mem_filterMap.1 h
  have hs : ifaceSent g.ifaces i = ifc.sent := by simp [ifaceSent, hi]
  have hnd : ifc.sent.keys.Nodup := hs ▸ inv.sent.sent_nodup i
  obtain ⟨k, hk⟩ := (Reg.mem_vals hnd x).1 hx
  have h1 := (inv.sent.sent_get i k x).1 (by rw [hs]; exact hk)
  obtain ⟨rfl, _⟩ := h1
  cases hm : g.msgs.get x with
  | none => simp [hm] at hf
  | some e =>
    cases hst : e.static with
    | none => simp [hm, hst] at hf
    | some c' =>
      simp only [hm, hst, Option.some.injEq, Prod.mk.injEq] at hf
      obtain ⟨rfl, rfl⟩ := hf
      exact (inv.sent.static_get i c' x).2 ⟨by rw [hs]; exact hk, by simp [msgStatic, hm, hst]⟩

theorem statics_fun_of_inv {g : G} (inv : Inv g) (i : Nat) (ifc : IfaceE) (hi : g.ifaces.get i = some ifc) :
    ∀ c m m', (c, m) ∈ staticOf g ifc.sent.vals → (c, m') ∈ staticOf g ifc.sent.vals → m = m' := by
  intro c m m' h1 h2
  have a := mem_staticOf_inv inv i ifc hi c m h1
  have b := mem_staticOf_inv inv i ifc hi c m' h2
  rw [a] at b
  exact Option.some.inj b

end Acme.GenR
