/-
C11 at message level, part 5: `importMsg (exportMsg t) = .ok (norm t)` for expressible trees.
-/
import Acme.Spec.ExportImport
import Acme.Proofs.ExportImport

namespace Acme.Import
open Acme.Layout Acme.Conv Acme.Arith
open Acme.Mux (sortInts compactAdj)

/-! ### small list facts -/

theorem pairwise_mem_ne {α : Type} {R : α → α → Prop} (hsym : ∀ a b, R a b → R b a) :
    ∀ (l : List α), l.Pairwise R → ∀ a ∈ l, ∀ b ∈ l, a ≠ b → R a b
  | [], _, a, ha, _, _, _ => by cases ha
  | x :: r, h, a, ha, b, hb, hne => by
    obtain ⟨h1, h2⟩ := List.pairwise_cons.1 h
    rcases List.mem_cons.1 ha with ha1 | ha1
    · rcases List.mem_cons.1 hb with hb1 | hb1
      · exact absurd (ha1.trans hb1.symm) hne
      · rw [ha1]; exact h1 b hb1
    · rcases List.mem_cons.1 hb with hb1 | hb1
      · rw [hb1]; exact hsym _ _ (h1 a ha1)
      · exact pairwise_mem_ne hsym r h2 a ha1 b hb1 hne

theorem Compatible.left {cap : Int} {A B : List Item} (h : Compatible cap (A ++ B)) : Compatible cap A := by
  refine ⟨(List.pairwise_append.1 h.disj).1, fun x hx => h.bounds x (List.mem_append.2 (Or.inl hx)), ?_⟩
  have := h.names
  rw [regNames_append, List.nodup_append] at this
  exact this.1

theorem headBE_eq (be0 : Bool) : ∀ l : List DSig, (∀ s ∈ l, s.bigEndian = be0) → (l = [] → be0 = false) →
    headBE l = be0
  | [], _, h => (h rfl).symm
  | s :: _, h, _ => h s (List.mem_cons_self ..)

theorem muxesOf_nil_map (be : Bool) : ∀ top : List Item, muxesOf top = [] → top.map (normItem be) = top
  | [], _ => rfl
  | .sig l :: r, h => by
    simp only [muxesOf] at h
    simp only [List.map_cons, normItem, muxesOf_nil_map be r h]
  | .mux n :: r, h => by simp [muxesOf] at h

theorem muxesOf_nil_top : ∀ top : List Item, muxesOf top = [] → top = (leavesOf top).map Item.sig
  | [], _ => rfl
  | .sig l :: r, h => by
    simp only [muxesOf] at h
    simp only [leavesOf, List.map_cons]
    rw [← muxesOf_nil_top r h]
  | .mux n :: r, h => by simp [muxesOf] at h

theorem normItem_start (be : Bool) (x : Item) : (normItem be x).start = x.start := by
  cases x <;> rfl

theorem normItem_size (be : Bool) (x : Item) : (normItem be x).size = x.size := by
  cases x <;> rfl

theorem flatMap_itemExts : ∀ top : List Item, top.flatMap itemExts = (muxesOf top).flatMap extsOf
  | [] => rfl
  | .sig l :: r => by
    simp only [List.flatMap_cons, itemExts, muxesOf, List.nil_append, flatMap_itemExts r]
  | .mux n :: r => by
    simp only [List.flatMap_cons, itemExts, muxesOf, flatMap_itemExts r]

theorem leafOf_leafSig (be : Bool) (l : Leaf) (h0 : 0 ≤ l.start) (hs : 0 < l.size) :
    leafOf (leafSig be l) = Item.sig l := by
  unfold leafOf
  rw [leafSig_pos be l h0]
  have : (((leafSig be l).size : Nat) : Int) = l.size := by
    show ((l.size.toNat : Nat) : Int) = l.size
    exact Int.toNat_of_nonneg (by omega)
  rw [this]
  rfl

/-! ### the context of an expressible tree -/

structure Ctx (t : ITree) : Prop where
  size0 : 0 ≤ t.sizeByte
  size8 : t.sizeByte ≤ 8
  comp : Compatible (8 * t.sizeByte) t.top
  wf : TopWF (8 * t.sizeByte) t.top
  muxOK : ∀ n, Item.mux n ∈ t.top → MuxOK n
  one : (muxesOf t.top).length ≤ 1
  nonempty : t.top = [] → t.bigEndian = false
  flat : t.nested = []

theorem itemNames_sub_nodup (top : List Item) (x : Item) (hx : x ∈ top) (h : (regNames top).Nodup) :
    (itemNames x).Nodup := by
  have hp := List.perm_cons_erase hx
  have := ((regNames_perm hp).nodup_iff).1 h
  rw [regNames_cons, List.nodup_append] at this
  exact this.1

theorem ctx_of (t : ITree) (h : Expressible t) : Ctx t := by
  obtain ⟨h1, h2, h3, h4, h5, h6, h7, h8⟩ := h
  refine ⟨h1, h2, compatible_of_wf _ _ h3 h4, h3, ?_, h5, h7, h8⟩
  intro n hn
  have hnd := itemNames_sub_nodup t.top (.mux n) hn h4
  simp only [itemNames, List.nodup_cons] at hnd
  exact muxOK_of n (h6 n ((mem_muxesOf _ _).2 hn)) hnd.2

/-- what is known about every exported signal -/
structure SigOK (be : Bool) (cap : Int) (s : DSig) : Prop where
  be : s.bigEndian = be
  pos0 : 0 ≤ sigPos s
  bound : sigPos s + (s.size : Int) ≤ cap
  check : checkSig s = .ok ()

theorem checkSig_of (s : DSig) (h1 : 0 < s.size) (h2 : s.size ≤ 64) : checkSig s = .ok () := by
  unfold checkSig
  rw [if_neg (by omega), if_neg (by omega)]

theorem mem_itemSigs_top (be : Bool) (top : List Item) (s : DSig) :
    s ∈ top.flatMap (itemSigs be) ↔ ∃ x ∈ top, s ∈ itemSigs be x := List.mem_flatMap

theorem sigs_ok (t : ITree) (c : Ctx t) : ∀ s ∈ t.top.flatMap (itemSigs t.bigEndian),
    SigOK t.bigEndian (8 * t.sizeByte) s := by
  intro s hs
  obtain ⟨x, hx, hsx⟩ := (mem_itemSigs_top _ _ _).1 hs
  obtain ⟨b0, b1, b2⟩ := c.comp.bounds x hx
  have hcap : 8 * t.sizeByte ≤ 64 := by have := c.size8; omega
  cases x with
  | sig l =>
    simp only [itemSigs, List.mem_singleton] at hsx
    subst hsx
    have hp := leafSig_pos t.bigEndian l b0
    have hz : (((leafSig t.bigEndian l).size : Nat) : Int) = l.size := by
      show ((l.size.toNat : Nat) : Int) = l.size
      exact Int.toNat_of_nonneg (by have : l.size = (Item.sig l).size := rfl; omega)
    have e1 : (Item.sig l).start = l.start := rfl
    have e2 : (Item.sig l).size = l.size := rfl
    refine ⟨rfl, by rw [hp]; omega, by rw [hp, hz]; omega, checkSig_of _ (by omega) (by omega)⟩
  | mux n =>
    have hok := c.muxOK n hx
    have e1 : (Item.mux n).start = n.start := rfl
    have e2 : (Item.mux n).size = n.groupSize + n.selW := rfl
    simp only [itemSigs, List.mem_cons] at hsx
    rcases hsx with rfl | hsx
    · have hp := muxSig_pos t.bigEndian n (by omega)
      have hz : (((muxSigOf t.bigEndian n).size : Nat) : Int) = n.selW := by
        show ((n.selW.toNat : Nat) : Int) = n.selW
        exact Int.toNat_of_nonneg (by have := hok.w1; omega)
      have := hok.w1; have := hok.w62; have := hok.gsPos
      refine ⟨rfl, by rw [hp]; omega, by rw [hp, hz]; omega, checkSig_of _ (by omega) (by omega)⟩
    · obtain ⟨p, hp, rfl⟩ := List.mem_map.1 hsx
      have hc : p.1 ∈ n.children := (seen_inv n hok).sub p hp
      obtain ⟨r0, r1⟩ := child_bounds n hok p.1 hc
      have hsz := (hok.ids p.1 hc).2.2.2
      have hpp := kidSig_pos t.bigEndian n p (by have := hok.w1; omega)
      have hz : (((kidSig t.bigEndian n p).size : Nat) : Int) = p.1.size := by
        show ((p.1.size.toNat : Nat) : Int) = p.1.size
        exact Int.toNat_of_nonneg (by omega)
      have := hok.w1
      refine ⟨rfl, by rw [hpp]; omega, by rw [hpp, hz]; omega, checkSig_of _ (by omega) (by omega)⟩

theorem itemSigs_names (be : Bool) (x : Item) (h : ∀ n, x = .mux n → MuxOK n) :
    ((itemSigs be x).map (·.name)).Perm (itemNames x) := by
  cases x with
  | sig l => exact List.Perm.refl _
  | mux n =>
    simp only [itemSigs, itemNames, List.map_cons, List.map_map]
    refine List.Perm.cons _ ?_
    have := (seen_perm n (h n rfl)).map (·.name)
    rw [List.map_map] at this
    exact this

theorem sigs_names (be : Bool) : ∀ top : List Item, (∀ n, Item.mux n ∈ top → MuxOK n) →
    ((top.flatMap (itemSigs be)).map (·.name)).Perm (regNames top)
  | [], _ => List.Perm.refl _
  | x :: r, h => by
    rw [List.flatMap_cons, List.map_append, regNames_cons]
    exact (itemSigs_names be x (fun n hn => h n (hn ▸ List.mem_cons_self ..))).append
      (sigs_names be r (fun n hn => h n (List.mem_cons_of_mem _ hn)))

/-! ### no multiplexer -/

theorem round_plain (t : ITree) (c : Ctx t) (hm : muxesOf t.top = []) :
    importMsg (exportMsg t) = .ok (norm t) := by
  have hsigs : (exportMsg t).sigs = t.top.flatMap (itemSigs t.bigEndian) := by
    simp only [exportMsg, exportItems_eq]
  have hsize : (exportMsg t).size = t.sizeByte.toNat := rfl
  have hcap : (8 * (((exportMsg t).size : Nat) : Int)) = 8 * t.sizeByte := by
    rw [hsize, Int.toNat_of_nonneg c.size0]
  have hok := sigs_ok t c
  have hsort := sortSigs_perm (exportMsg t).sigs
  have hokS : ∀ s ∈ sortSigs (exportMsg t).sigs, SigOK t.bigEndian (8 * t.sizeByte) s := by
    intro s hs
    exact hok s (by rw [← hsigs]; exact hsort.mem_iff.1 hs)
  have hfilter : (sortSigs (exportMsg t).sigs).filter (·.isMultiplexor) = [] := by
    unfold sortSigs
    rw [filter_sortBy, hsigs, sigs_filter_mux, hm]
    rfl
  have hbe : headBE (sortSigs (exportMsg t).sigs) = t.bigEndian := by
    apply headBE_eq
    · intro s hs; exact (hokS s hs).be
    · intro he
      apply c.nonempty
      have : (exportMsg t).sigs = [] := by
        have := hsort.length_eq
        rw [he] at this
        exact List.length_eq_zero_iff.1 this.symm
      rw [hsigs] at this
      cases htop : t.top with
      | nil => rfl
      | cons x r =>
        rw [htop, List.flatMap_cons] at this
        cases x <;> simp [itemSigs] at this
  have hnames : ((sortSigs (exportMsg t).sigs).map (·.name)).Nodup := by
    have h0 : ((exportMsg t).sigs.map (·.name)).Perm (regNames t.top) := by
      rw [hsigs]; exact sigs_names t.bigEndian t.top c.muxOK
    exact (((hsort.map (·.name)).trans h0).nodup_iff).2 c.comp.names
  -- the top-level items
  have htop := muxesOf_nil_top t.top hm
  have hleaf : (sortSigs (exportMsg t).sigs).map leafOf |>.Perm t.top := by
    refine (hsort.map leafOf).trans ?_
    rw [hsigs]
    have : ∀ l : List Item, (∀ x ∈ l, 0 ≤ x.start ∧ 0 < x.size) → muxesOf l = [] →
        (l.flatMap (itemSigs t.bigEndian)).map leafOf = l := by
      intro l
      induction l with
      | nil => intro _ _; rfl
      | cons x r ih =>
        intro hb hmx
        cases x with
        | sig lf =>
          simp only [muxesOf] at hmx
          have := hb (.sig lf) (List.mem_cons_self ..)
          simp only [List.flatMap_cons, itemSigs, List.singleton_append, List.map_cons]
          rw [leafOf_leafSig _ lf this.1 this.2, ih (fun y hy => hb y (List.mem_cons_of_mem _ hy)) hmx]
        | mux n => simp [muxesOf] at hmx
    rw [this t.top (fun x hx => ⟨(c.comp.bounds x hx).1, (c.comp.bounds x hx).2.2⟩) hm]
  have hplain : importPlain (8 * t.sizeByte) [] (sortSigs (exportMsg t).sigs) = .ok t.top := by
    rw [importPlain_eq _ _ _ (fun s hs => (hokS s hs).check)]
    obtain ⟨top', h1, h2, h3⟩ := insertAll_ok (8 * t.sizeByte) ((sortSigs (exportMsg t).sigs).map leafOf) []
      (by rw [List.append_nil]; exact c.comp.perm hleaf.symm) (topWF_nil _ (by have := c.size0; omega))
    rw [h1]
    congr 1
    rw [List.append_nil] at h2
    exact perm_sorted_eq Item.start _ _ (h2.trans hleaf) (wf_sorted_top _ _ h3) (wf_sorted_top _ _ c.wf)
  have := importMsg_eval_plain (exportMsg t) t.top
    (by
      rw [hcap, hbe]
      exact firstLoop_ok _ _ _ [] (fun s hs => ⟨(hokS s hs).bound, (hokS s hs).be⟩) hnames (fun s _ hm => by cases hm))
    (by rw [hsize]; have := c.size8; omega) hfilter (by rw [hcap]; exact hplain)
  rw [this]
  congr 1
  unfold norm
  rw [muxesOf_nil_map _ _ hm, hbe]
  have : (((exportMsg t).size : Nat) : Int) = t.sizeByte := by
    rw [hsize, Int.toNat_of_nonneg c.size0]
  rw [this]
  show (⟨t.id, t.sizeByte, t.bigEndian, t.top, []⟩ : ITree) = ⟨t.id, t.sizeByte, t.bigEndian, t.top, t.nested⟩
  rw [c.flat]

end Acme.Import
