/-
Payload world, part B: a rejected operation leaves the world unchanged (purely syntactic).
-/
import Acme.Core.Payload

namespace Acme.Payload
open Acme.Layout Acme.Bits Acme.Arith

theorem outOfLErr_cases (e : LErr) : outOfLErr e = .panic ∨ ∃ c, outOfLErr e = .err c := by
  cases e <;> simp [outOfLErr]

theorem step_err_unchanged (w : W) (op : Op) (c : Cause) (h : (step w op).2 = .err c) :
    (step w op).1 = w := by
  revert h
  cases op <;> simp only [step] <;>
    repeat' (first | split | (intro h; first | rfl | (dsimp only at h; cases h; done)))

end Acme.Payload
