/-
Translator stage 13: `Bus.UpdateName`, `Bus.RemoveAllNodeInterfaces`, `Node.UpdateID`,
`Node.UpdateName` of the GENERATED `Acme.Gen.R` against `Acme.Graph`.
-/
import Acme.Proofs.GenRegistryClosed
import Acme.Proofs.GenRegistryBus

namespace Acme.GenR
open Acme Acme.Graph Acme.RegSem Acme.Gen

theorem BusUpdateName_main (g : G) (b : Nat) (name : String) :
    ObsEq (obs (R.Bus_UpdateName (view g) b name)) (obsG (stepBusRename g b name)) := by
  unfold R.Bus_UpdateName stepBusRename
  simp only [view_buses]
  cases hb : g.buses.get b with
  | none => simp [obs, obsG, ObsEq]
  | some bus =>
    by_cases hn : bus.name = name
    · simp [hn, vBus, obs, obsG, ObsEq, outOf, Heq.rfl']
    · cases hp : bus.parent with
      | none =>
        simp [hn, hp, vBus, obs, obsG, ObsEq, outOf]
        heq_fin
      | some n =>
        cases hnet : g.nets.get n with
        | none => simp [hn, hp, hnet, vBus, obs, obsG, ObsEq]
        | some net =>
          cases hh : Reg.has net.busNames name <;>
            simp [hn, hp, hnet, hh, vBus, vNet, set_verifyKeyUnique_eq, set_modifyKey_eq, obs, obsG, ObsEq, outOf, ofCause, Heq.rfl']
          all_goals heq_fin

/-! ### Node.UpdateID -/

def idClashB (g : G) (nid : Nat) (b : Nat) : Bool :=
  match g.buses.get b with | some e => e.nodeIDs.has nid | none => false

/-- `stepNodeSetId` restated with the named predicate (definitionally the same function) -/
def setIdM (g : G) (n : Nat) (nid : Nat) : G × Out :=
  match g.nodes.get n with
  | none => (g, .unsupported)
  | some nd =>
    if nd.nid = nid then (g, .ok)
    else
      let bs := attachedBuses g nd.ifaces
      if bs.any (idClashB g nid) then (g, .err .duplicated)
      else
        ({ g with buses := renumberNodeInBuses g.buses nd.nid nid n bs,
                  nodes := g.nodes.set n { nd with nid := nid } }, .ok)

theorem stepNodeSetId_eq (g : G) (n nid : Nat) : stepNodeSetId g n nid = setIdM g n nid := rfl

theorem attachedBuses_cons (g : G) (i : Nat) (l : List Nat) :
    attachedBuses g (i :: l) = (match g.ifaces.get i with
      | some e => (match e.parentBus with | some b => [b] | none => [])
      | none => []) ++ attachedBuses g l := by
  unfold attachedBuses
  rw [List.filterMap_cons]
  cases g.ifaces.get i with
  | none => rfl
  | some e => cases hp : e.parentBus <;> simp [hp]

theorem updID_loop1 (g : G) (n nid : Nat) (hc : Closed g) (l : List Nat) (hex : ∀ i ∈ l, g.ifaces.get i ≠ none) :
    ∀ acc : List (Option Nat),
    R.Node_UpdateID_loop1 (view g) n nid acc (l.map some) =
      if (attachedBuses g l).any (idClashB g nid) then .val (view g, some dupErr)
      else R.Node_UpdateID_loop2 (view g) n nid (acc ++ (attachedBuses g l).map some)
        (acc ++ (attachedBuses g l).map some) := by
  induction l with
  | nil => intro acc; simp [R.Node_UpdateID_loop1, R.Node_UpdateID_after1, attachedBuses]
  | cons i l ih =>
    intro acc
    have ih := ih (fun i' hi' => hex i' (List.mem_cons_of_mem _ hi'))
    obtain ⟨ifc, hi⟩ := Option.ne_none_iff_exists'.1 (hex i List.mem_cons_self)
    simp only [List.map_cons, R.Node_UpdateID_loop1, view_ifaces, hi, Option.map_some, vIface, attachedBuses_cons]
    cases hpb : ifc.parentBus with
    | none => simp only [List.nil_append]; exact ih acc
    | some pb =>
      obtain ⟨bus, hbus⟩ := Option.ne_none_iff_exists'.1 (hc.pbus i ifc pb hi hpb)
      simp only [Bus_verifyNodeID_eq, hbus, List.cons_append, List.nil_append, List.any_cons, idClashB]
      cases hh : Reg.has bus.nodeIDs nid
      · simp only [Bool.false_eq_true, ↓reduceIte, Bool.false_or]
        rw [ih]
        simp [idClashB, List.append_assoc]
      · simp [dupErr]

theorem updID_loop2 (h : H) (n nid : Nat) (ndR : NodeR) (acc : List (Option Nat)) (hn : h.nodes.get n = some ndR)
    (l : List Nat) :
    ∀ B : AMap BusE, (∀ b ∈ l, B.get b ≠ none) →
    R.Node_UpdateID_loop2 { h with buses := amap vBus B } n nid acc (l.map some) =
      R.Node_UpdateID_after2 { h with buses := amap vBus (renumberNodeInBuses B ndR.id nid n l) } n nid acc := by
  induction l with
  | nil => intro B _; simp [R.Node_UpdateID_loop2, renumberNodeInBuses]
  | cons b l ih =>
    intro B hex
    obtain ⟨bus, hbus⟩ := Option.ne_none_iff_exists'.1 (hex b List.mem_cons_self)
    simp only [List.map_cons, R.Node_UpdateID_loop2, hn, amap_get, hbus, Option.map_some, renumberNodeInBuses,
      set_modifyKey_eq]
    have := ih (B.set b { bus with nodeIDs := (bus.nodeIDs.remove ndR.id).add nid n }) (by
      intro b' hb'
      by_cases hk : b' = b
      · simp [hk]
      · simpa [hk] using hex b' (List.mem_cons_of_mem _ hb'))
    rw [amap_set] at this
    simpa [vBus] using this

theorem NodeUpdateID_main (g : G) (n nid : Nat) (hc : Closed g) :
    ObsEq (obs (R.Node_UpdateID (view g) n nid)) (obsG (stepNodeSetId g n nid)) := by
  rw [stepNodeSetId_eq]
  unfold R.Node_UpdateID setIdM
  simp only [view_nodes]
  cases hn : g.nodes.get n with
  | none => simp [obs, obsG, ObsEq]
  | some nd =>
    by_cases he : nd.nid = nid
    · simp [he, vNode, obs, obsG, ObsEq, outOf, Heq.rfl']
    · have he' : ¬ nid = nd.nid := fun e => he e.symm
      simp only [Option.map_some, vNode, he, he', ↓reduceIte]
      rw [updID_loop1 g n nid hc nd.ifaces (hc.nifs n nd hn)]
      cases hany : (attachedBuses g nd.ifaces).any (idClashB g nid)
      · simp only [Bool.false_eq_true, ↓reduceIte, List.nil_append]
        have hex : ∀ b ∈ attachedBuses g nd.ifaces, g.buses.get b ≠ none := by
          intro b hb
          unfold attachedBuses at hb
          obtain ⟨i, _, hib⟩ := List.mem_filterMap.1 hb
          cases hi : g.ifaces.get i with
          | none => simp [hi] at hib
          | some ifc => simp only [hi] at hib; exact hc.pbus i ifc b hi hib
        have hv : view g = { view g with buses := amap vBus g.buses } := rfl
        rw [hv, updID_loop2 (view g) n nid (vNode nd) _ (by simp [hn]) _ g.buses hex]
        simp only [R.Node_UpdateID_after2, view_nodes, hn, Option.map_some, obs, obsG, ObsEq, outOf, and_true]
        refine ⟨?_, ?_, ?_, ?_, ?_⟩ <;> intro k
        · simp
        · simp [amap_get, vNode]
        · by_cases hk : k = n <;> simp [hk, vNode]
        · simp
        · simp
      · simp [obs, obsG, ObsEq, outOf, ofCause, dupErr, Heq.rfl']

/-! ### Node.UpdateName -/

def nameClashB (g : G) (nid : String) (b : Nat) : Bool :=
  match g.buses.get b with | some e => e.nodeNames.has nid | none => false

/-- `stepNodeRename` restated with the named predicate (definitionally the same function) -/
def setNameM (g : G) (n : Nat) (nid : String) : G × Out :=
  match g.nodes.get n with
  | none => (g, .unsupported)
  | some nd =>
    if nd.name = nid then (g, .ok)
    else
      let bs := attachedBuses g nd.ifaces
      if bs.any (nameClashB g nid) then (g, .err .duplicated)
      else
        ({ g with buses := renameNodeInBuses g.buses nd.name nid n bs,
                  nodes := g.nodes.set n { nd with name := nid } }, .ok)

theorem stepNodeRename_eq (g : G) (n : Nat) (nid : String) : stepNodeRename g n nid = setNameM g n nid := rfl

theorem updName_loop1 (g : G) (n : Nat) (nid : String) (hc : Closed g) (l : List Nat) (hex : ∀ i ∈ l, g.ifaces.get i ≠ none) :
    ∀ acc : List (Option Nat),
    R.Node_UpdateName_loop1 (view g) n nid acc (l.map some) =
      if (attachedBuses g l).any (nameClashB g nid) then .val (view g, some dupErr)
      else R.Node_UpdateName_loop2 (view g) n nid (acc ++ (attachedBuses g l).map some)
        (acc ++ (attachedBuses g l).map some) := by
  induction l with
  | nil => intro acc; simp [R.Node_UpdateName_loop1, R.Node_UpdateName_after1, attachedBuses]
  | cons i l ih =>
    intro acc
    have ih := ih (fun i' hi' => hex i' (List.mem_cons_of_mem _ hi'))
    obtain ⟨ifc, hi⟩ := Option.ne_none_iff_exists'.1 (hex i List.mem_cons_self)
    simp only [List.map_cons, R.Node_UpdateName_loop1, view_ifaces, hi, Option.map_some, vIface, attachedBuses_cons]
    cases hpb : ifc.parentBus with
    | none => simp only [List.nil_append]; exact ih acc
    | some pb =>
      obtain ⟨bus, hbus⟩ := Option.ne_none_iff_exists'.1 (hc.pbus i ifc pb hi hpb)
      simp only [Bus_verifyNodeName_eq, hbus, List.cons_append, List.nil_append, List.any_cons, nameClashB]
      cases hh : Reg.has bus.nodeNames nid
      · simp only [Bool.false_eq_true, ↓reduceIte, Bool.false_or]
        rw [ih]
        simp [nameClashB, List.append_assoc]
      · simp [dupErr]

theorem updName_loop2 (h : H) (n : Nat) (nid : String) (ndR : NodeR) (acc : List (Option Nat)) (hn : h.nodes.get n = some ndR)
    (l : List Nat) :
    ∀ B : AMap BusE, (∀ b ∈ l, B.get b ≠ none) →
    R.Node_UpdateName_loop2 { h with buses := amap vBus B } n nid acc (l.map some) =
      R.Node_UpdateName_after2 { h with buses := amap vBus (renameNodeInBuses B ndR.name nid n l) } n nid acc := by
  induction l with
  | nil => intro B _; simp [R.Node_UpdateName_loop2, renameNodeInBuses]
  | cons b l ih =>
    intro B hex
    obtain ⟨bus, hbus⟩ := Option.ne_none_iff_exists'.1 (hex b List.mem_cons_self)
    simp only [List.map_cons, R.Node_UpdateName_loop2, hn, amap_get, hbus, Option.map_some, renameNodeInBuses,
      set_modifyKey_eq]
    have := ih (B.set b { bus with nodeNames := (bus.nodeNames.remove ndR.name).add nid n }) (by
      intro b' hb'
      by_cases hk : b' = b
      · simp [hk]
      · simpa [hk] using hex b' (List.mem_cons_of_mem _ hb'))
    rw [amap_set] at this
    simpa [vBus] using this

theorem NodeUpdateName_main (g : G) (n : Nat) (nid : String) (hc : Closed g) :
    ObsEq (obs (R.Node_UpdateName (view g) n nid)) (obsG (stepNodeRename g n nid)) := by
  rw [stepNodeRename_eq]
  unfold R.Node_UpdateName setNameM
  simp only [view_nodes]
  cases hn : g.nodes.get n with
  | none => simp [obs, obsG, ObsEq]
  | some nd =>
    by_cases he : nd.name = nid
    · simp [he, vNode, obs, obsG, ObsEq, outOf, Heq.rfl']
    · have he' : ¬ nid = nd.name := fun e => he e.symm
      simp only [Option.map_some, vNode, he, he', ↓reduceIte]
      rw [updName_loop1 g n nid hc nd.ifaces (hc.nifs n nd hn)]
      cases hany : (attachedBuses g nd.ifaces).any (nameClashB g nid)
      · simp only [Bool.false_eq_true, ↓reduceIte, List.nil_append]
        have hex : ∀ b ∈ attachedBuses g nd.ifaces, g.buses.get b ≠ none := by
          intro b hb
          unfold attachedBuses at hb
          obtain ⟨i, _, hib⟩ := List.mem_filterMap.1 hb
          cases hi : g.ifaces.get i with
          | none => simp [hi] at hib
          | some ifc => simp only [hi] at hib; exact hc.pbus i ifc b hi hib
        have hv : view g = { view g with buses := amap vBus g.buses } := rfl
        rw [hv, updName_loop2 (view g) n nid (vNode nd) _ (by simp [hn]) _ g.buses hex]
        simp only [R.Node_UpdateName_after2, view_nodes, hn, Option.map_some, obs, obsG, ObsEq, outOf, and_true]
        refine ⟨?_, ?_, ?_, ?_, ?_⟩ <;> intro k
        · simp
        · simp [amap_get, vNode]
        · by_cases hk : k = n <;> simp [hk, vNode]
        · simp
        · simp
      · simp [obs, obsG, ObsEq, outOf, ofCause, dupErr, Heq.rfl']

/-! ### Bus.RemoveAllNodeInterfaces -/

theorem removeAllNI_loop (h : H) (b : Nat) (l : List Nat) :
    ∀ I : AMap IfaceE, (∀ i ∈ l, I.get i ≠ none) →
    R.Bus_RemoveAllNodeInterfaces_loop1 { h with ifaces := amap vIface I } b l =
      R.Bus_RemoveAllNodeInterfaces_after1 { h with ifaces := amap vIface (clearIfaceBus I l) } b := by
  induction l with
  | nil => intro I _; simp [R.Bus_RemoveAllNodeInterfaces_loop1, clearIfaceBus]
  | cons i l ih =>
    intro I hex
    obtain ⟨ifc, hi⟩ := Option.ne_none_iff_exists'.1 (hex i List.mem_cons_self)
    simp only [R.Bus_RemoveAllNodeInterfaces_loop1, amap_get, hi, Option.map_some, clearIfaceBus]
    have := ih (I.set i { ifc with parentBus := none }) (by
      intro i' hi'
      by_cases hk : i' = i
      · simp [hk]
      · simpa [hk] using hex i' (List.mem_cons_of_mem _ hi'))
    rw [amap_set] at this
    simpa [vIface] using this

theorem RemoveAllNI_main (g : G) (b : Nat) (hc : Closed g) :
    ObsEq (obsV (R.Bus_RemoveAllNodeInterfaces (view g) b)) (obsG (stepBusRemoveAllIfaces g b)) := by
  unfold R.Bus_RemoveAllNodeInterfaces stepBusRemoveAllIfaces
  simp only [view_buses]
  cases hb : g.buses.get b with
  | none => simp [obsV, obsG, ObsEq]
  | some bus =>
    have key := removeAllNI_loop (view g) b bus.nodeInts.vals g.ifaces (hc.ints b bus hb)
    have hv : ({ view g with ifaces := amap vIface g.ifaces } : H) = view g := rfl
    rw [hv] at key
    simp only [Option.map_some, vBus]
    rw [show GoMap.values bus.nodeInts = bus.nodeInts.vals from rfl, key]
    simp only [R.Bus_RemoveAllNodeInterfaces_after1, view_buses, hb, Option.map_some, set_clear_eq, obsV, obsG, ObsEq,
      and_true]
    refine ⟨?_, ?_, ?_, ?_, ?_⟩ <;> intro k
    · simp
    · by_cases hk : k = b <;> simp [hk, vBus]
    · simp
    · simp [amap_get]
    · simp

end Acme.GenR
