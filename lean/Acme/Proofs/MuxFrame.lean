/-
Multiplexer world, part C: the local invariant entity by entity (`MuxOK`, `MsgOK`, `LinkOK`)
and the frame lemmas: an entity whose record and whose members' relevant fields are not
touched by an operation keeps its part of the invariant.
-/
import Acme.Proofs.MuxTree

namespace Acme.Mux
open Acme.Layout Acme.Arith

structure MuxOK (w : MW) (x : Nat) (xe : SigE) (gc gs : Int) : Prop where
  shape : xe.mx.groups.length = gc.toNat ∧ 0 < gc ∧ 0 < gs
  wf : ∀ g ∈ xe.mx.groups, WF gs (slotsOf w g)
  nodup : ∀ g ∈ xe.mx.groups, g.Nodup
  fixedEv : ∀ s ∈ xe.mx.fixed, ∀ g ∈ xe.mx.groups, s ∈ g
  listed : ∀ s gids, xe.mx.groupIds.get s = some gids →
      gids ≠ [] ∧ gids.Pairwise (· < ·) ∧ (∀ k ∈ gids, 0 ≤ k ∧ k < gc) ∧
      ∀ k : Nat, k < gc.toNat → (s ∈ xe.mx.groups.getD k [] ↔ (k : Int) ∈ gids)
  neither : ∀ s, s ∉ xe.mx.fixed → xe.mx.groupIds.get s = none → ∀ g ∈ xe.mx.groups, s ∉ g
  split : ∀ s, s ∈ xe.mx.signals ↔ (s ∈ xe.mx.fixed ∨ (xe.mx.groupIds.get s).isSome)
  disj : ∀ s, s ∈ xe.mx.fixed → xe.mx.groupIds.get s = none
  child : ∀ s, s ∈ xe.mx.signals ↔ ∃ e, w.sigs.get s = some e ∧ e.parentMux = some x
  namesNodup : KeysNodup xe.mx.signalNames
  names : ∀ n i, (n, i) ∈ xe.mx.signalNames ↔ i ∈ xe.mx.signals ∧ nameOf w i = n
  sigsNodup : xe.mx.signals.Nodup

structure MsgOK (w : MW) (m : Nat) (msg : MsgE) : Prop where
  cap : msg.cap = msg.sizeByte * 8 ∧ 0 ≤ msg.sizeByte
  wf : WF msg.cap (slotsOf w msg.layout)
  nodup : msg.layout.Nodup
  top : ∀ s, s ∈ msg.layout ↔ ∃ e, w.sigs.get s = some e ∧ e.parentMux = none ∧ e.parentMsg = some m
  reg : ∀ s, s ∈ msg.signals ↔ ∃ e, w.sigs.get s = some e ∧ e.parentMsg = some m
  namesNodup : KeysNodup msg.signalNames
  names : ∀ n i, (n, i) ∈ msg.signalNames ↔ i ∈ msg.signals ∧ nameOf w i = n

structure LinkOK (w : MW) (s : Nat) (e : SigE) : Prop where
  size : ∀ z, e.kind = .leaf z → 0 < z
  parent : ∀ x, e.parentMux = some x →
      ∃ xe gc gs, w.sigs.get x = some xe ∧ xe.kind = .mux gc gs ∧ xe.parentMsg = e.parentMsg
  msg : ∀ m, e.parentMsg = some m → (w.msgs.get m).isSome

def Acyclic (w : MW) : Prop :=
  ∃ depth : Nat → Nat, ∀ s e x, w.sigs.get s = some e → e.parentMux = some x → depth x < depth s

theorem InvCore.muxOK {w : MW} (h : InvCore w) {x : Nat} {xe : SigE} {gc gs : Int}
    (hx : w.sigs.get x = some xe) (hk : xe.kind = .mux gc gs) : MuxOK w x xe gc gs := by
  obtain ⟨a1, a2, a3, a4⟩ := h.groupsWF x xe gc gs hx hk
  obtain ⟨b1, b2⟩ := h.listedExactly x xe gc gs hx hk
  obtain ⟨c1, c2, c3, c4, c5, c6⟩ := h.childrenExact x xe gc gs hx hk
  exact ⟨⟨a1, a2, a3⟩, fun g hg => (a4 g hg).1, fun g hg => (a4 g hg).2,
    h.fixedEverywhere x xe gc gs hx hk, b1, b2, c1, c2, c3, c4, c5, c6⟩

theorem InvCore.msgOK {w : MW} (h : InvCore w) {m : Nat} {msg : MsgE}
    (hm : w.msgs.get m = some msg) : MsgOK w m msg := by
  obtain ⟨a1, a2, a3, a4, a5⟩ := h.msgLayoutWF m msg hm
  obtain ⟨b1, b2, b3⟩ := h.msgRegistry m msg hm
  exact ⟨⟨a1, a2⟩, a3, a4, a5, b1, b2, b3⟩

theorem InvCore.linkOK {w : MW} (h : InvCore w) {s : Nat} {e : SigE}
    (hs : w.sigs.get s = some e) : LinkOK w s e :=
  ⟨fun z hz => h.sizesPos s e z hs hz, fun x hx => h.parentIsMux s e x hs hx,
   fun m hm => h.parentMsgExists s e m hs hm⟩

theorem InvCore.of_parts {w : MW}
    (hmux : ∀ x xe gc gs, w.sigs.get x = some xe → xe.kind = .mux gc gs → MuxOK w x xe gc gs)
    (hmsg : ∀ m msg, w.msgs.get m = some msg → MsgOK w m msg)
    (hlink : ∀ s e, w.sigs.get s = some e → LinkOK w s e)
    (hacy : Acyclic w) : InvCore w where
  sizesPos := fun s e z hs hz => (hlink s e hs).size z hz
  groupsWF := fun x xe gc gs hx hk =>
    let h := hmux x xe gc gs hx hk
    ⟨h.shape.1, h.shape.2.1, h.shape.2.2, fun g hg => ⟨h.wf g hg, h.nodup g hg⟩⟩
  fixedEverywhere := fun x xe gc gs hx hk => (hmux x xe gc gs hx hk).fixedEv
  listedExactly := fun x xe gc gs hx hk => ⟨(hmux x xe gc gs hx hk).listed, (hmux x xe gc gs hx hk).neither⟩
  childrenExact := fun x xe gc gs hx hk =>
    let h := hmux x xe gc gs hx hk
    ⟨h.split, h.disj, h.child, h.namesNodup, h.names, h.sigsNodup⟩
  parentIsMux := fun s e x hs hp => (hlink s e hs).parent x hp
  parentMsgExists := fun s e m hs hm => (hlink s e hs).msg m hm
  msgLayoutWF := fun m msg hm =>
    let h := hmsg m msg hm
    ⟨h.cap.1, h.cap.2, h.wf, h.nodup, h.top⟩
  msgRegistry := fun m msg hm =>
    let h := hmsg m msg hm
    ⟨h.reg, h.namesNodup, h.names⟩
  acyclic := hacy

/-! ### consequences inside one multiplexer -/

theorem MuxOK.mem_child {w : MW} {x : Nat} {xe : SigE} {gc gs : Int} (h : MuxOK w x xe gc gs)
    {g : List Nat} (hg : g ∈ xe.mx.groups) {s : Nat} (hs : s ∈ g) : s ∈ xe.mx.signals := by
  rw [h.split]
  by_cases hf : s ∈ xe.mx.fixed
  · exact Or.inl hf
  · cases hl : xe.mx.groupIds.get s with
    | none => exact absurd hs (h.neither s hf hl g hg)
    | some gids => exact Or.inr rfl

theorem MuxOK.mem_stored {w : MW} {x : Nat} {xe : SigE} {gc gs : Int} (h : MuxOK w x xe gc gs)
    {g : List Nat} (hg : g ∈ xe.mx.groups) {s : Nat} (hs : s ∈ g) :
    ∃ e, w.sigs.get s = some e ∧ e.parentMux = some x :=
  (h.child s).mp (h.mem_child hg hs)

theorem MuxOK.slots_ids {w : MW} {x : Nat} {xe : SigE} {gc gs : Int} (h : MuxOK w x xe gc gs)
    {g : List Nat} (hg : g ∈ xe.mx.groups) : (slotsOf w g).map (·.id) = g := by
  apply slotsOf_map_id
  intro i hi
  obtain ⟨e, he, _⟩ := h.mem_stored hg hi
  simp [he]

theorem MsgOK.slots_ids {w : MW} {m : Nat} {msg : MsgE} (h : MsgOK w m msg) :
    (slotsOf w msg.layout).map (·.id) = msg.layout := by
  apply slotsOf_map_id
  intro i hi
  obtain ⟨e, he, _⟩ := (h.top i).mp hi
  simp [he]

theorem MsgOK.layout_sub {w : MW} {m : Nat} {msg : MsgE} (h : MsgOK w m msg) {s : Nat}
    (hs : s ∈ msg.layout) : s ∈ msg.signals := by
  obtain ⟨e, he, _, hp⟩ := (h.top s).mp hs
  exact (h.reg s).mpr ⟨e, he, hp⟩

/-! ### frame lemmas -/

/-- what the invariant of a container reads of a member -/
structure SameView (e e' : SigE) : Prop where
  name : e'.name = e.name
  pmux : e'.parentMux = e.parentMux
  pmsg : e'.parentMsg = e.parentMsg

theorem nameOf_eq {w w' : MW} {s : Nat} {e e' : SigE} (h1 : w.sigs.get s = some e)
    (h2 : w'.sigs.get s = some e') (hn : e'.name = e.name) : nameOf w' s = nameOf w s := by
  simp [nameOf, h1, h2, hn]

/-- A multiplexer whose body is unchanged, whose children keep name and parent, and which
    gets no new child keeps its invariant, provided its groups are well-formed in the new
    world. -/
theorem MuxOK.frame_geo {w w' : MW} {x : Nat} {xe xe' : SigE} {gc gs : Int} (h : MuxOK w x xe gc gs)
    (hmx : xe'.mx = xe.mx)
    (hch : ∀ s ∈ xe.mx.signals, ∃ e e', w.sigs.get s = some e ∧ w'.sigs.get s = some e' ∧
        e'.name = e.name ∧ e'.parentMux = e.parentMux)
    (hnew : ∀ s e', w'.sigs.get s = some e' → e'.parentMux = some x → s ∈ xe.mx.signals)
    (hwf : ∀ g ∈ xe.mx.groups, WF gs (slotsOf w' g)) :
    MuxOK w' x xe' gc gs := by
  refine ⟨?_, ?_, ?_, ?_, ?_, ?_, ?_, ?_, ?_, ?_, ?_, by rw [hmx]; exact h.sigsNodup⟩ <;> (try rw [hmx])
  · exact h.shape
  · exact hwf
  · exact h.nodup
  · exact h.fixedEv
  · exact h.listed
  · exact h.neither
  · exact h.split
  · exact h.disj
  · intro s
    constructor
    · intro hs
      obtain ⟨e, e', h1, h2, _, hp⟩ := hch s hs
      obtain ⟨e0, he0, hp0⟩ := (h.child s).mp hs
      rw [h1] at he0; cases he0
      exact ⟨e', h2, by rw [hp, hp0]⟩
    · rintro ⟨e', he', hp⟩
      exact hnew s e' he' hp
  · exact h.namesNodup
  · intro n i
    rw [h.names]
    constructor
    · rintro ⟨hi, hn⟩
      obtain ⟨e, e', h1, h2, hnm, _⟩ := hch i hi
      exact ⟨hi, by rw [nameOf_eq h1 h2 hnm, hn]⟩
    · rintro ⟨hi, hn⟩
      obtain ⟨e, e', h1, h2, hnm, _⟩ := hch i hi
      exact ⟨hi, by rw [← nameOf_eq h1 h2 hnm, hn]⟩

theorem MuxOK.frame {w w' : MW} {x : Nat} {xe xe' : SigE} {gc gs : Int} (h : MuxOK w x xe gc gs)
    (hmx : xe'.mx = xe.mx)
    (hch : ∀ s ∈ xe.mx.signals, ∃ e e', w.sigs.get s = some e ∧ w'.sigs.get s = some e' ∧
        e'.name = e.name ∧ e'.parentMux = e.parentMux ∧ geo e' = geo e)
    (hnew : ∀ s e', w'.sigs.get s = some e' → e'.parentMux = some x → s ∈ xe.mx.signals) :
    MuxOK w' x xe' gc gs := by
  apply h.frame_geo hmx _ hnew
  · intro g hg
    rw [slotsOf_congr w w' g]
    · exact h.wf g hg
    · intro i hi
      obtain ⟨e, e', h1, h2, _, _, hgeo⟩ := hch i (h.mem_child hg hi)
      simp [h1, h2, hgeo]
  · intro s hs
    obtain ⟨e, e', h1, h2, h3, h4, _⟩ := hch s hs
    exact ⟨e, e', h1, h2, h3, h4⟩

/-- A message whose record is unchanged, whose registered signals keep name and parents, and
    which gets no new signal keeps its invariant, provided its layout is well-formed in the
    new world. -/
theorem MsgOK.frame_geo {w w' : MW} {m : Nat} {msg : MsgE} (h : MsgOK w m msg)
    (hch : ∀ s ∈ msg.signals, ∃ e e', w.sigs.get s = some e ∧ w'.sigs.get s = some e' ∧ SameView e e')
    (hnew : ∀ s e', w'.sigs.get s = some e' → e'.parentMsg = some m → s ∈ msg.signals)
    (hwf : WF msg.cap (slotsOf w' msg.layout)) :
    MsgOK w' m msg := by
  refine ⟨h.cap, hwf, h.nodup, ?_, ?_, h.namesNodup, ?_⟩
  · intro s
    constructor
    · intro hs
      obtain ⟨e, e', h1, h2, hv⟩ := hch s (h.layout_sub hs)
      obtain ⟨e0, he0, hp0, hm0⟩ := (h.top s).mp hs
      rw [h1] at he0; cases he0
      exact ⟨e', h2, by rw [hv.pmux, hp0], by rw [hv.pmsg, hm0]⟩
    · rintro ⟨e', he', hp, hm⟩
      have hs := hnew s e' he' hm
      obtain ⟨e, e'', h1, h2, hv⟩ := hch s hs
      rw [he'] at h2; cases h2
      exact (h.top s).mpr ⟨e, h1, by rw [← hv.pmux, hp], by rw [← hv.pmsg, hm]⟩
  · intro s
    constructor
    · intro hs
      obtain ⟨e, e', h1, h2, hv⟩ := hch s hs
      obtain ⟨e0, he0, hm0⟩ := (h.reg s).mp hs
      rw [h1] at he0; cases he0
      exact ⟨e', h2, by rw [hv.pmsg, hm0]⟩
    · rintro ⟨e', he', hm⟩
      exact hnew s e' he' hm
  · intro n i
    rw [h.names]
    constructor
    · rintro ⟨hi, hn⟩
      obtain ⟨e, e', h1, h2, hv⟩ := hch i hi
      exact ⟨hi, by rw [nameOf_eq h1 h2 hv.name, hn]⟩
    · rintro ⟨hi, hn⟩
      obtain ⟨e, e', h1, h2, hv⟩ := hch i hi
      exact ⟨hi, by rw [← nameOf_eq h1 h2 hv.name, hn]⟩

theorem MsgOK.frame {w w' : MW} {m : Nat} {msg : MsgE} (h : MsgOK w m msg)
    (hch : ∀ s ∈ msg.signals, ∃ e e', w.sigs.get s = some e ∧ w'.sigs.get s = some e' ∧ SameView e e' ∧ geo e' = geo e)
    (hnew : ∀ s e', w'.sigs.get s = some e' → e'.parentMsg = some m → s ∈ msg.signals) :
    MsgOK w' m msg := by
  apply h.frame_geo _ hnew
  · rw [slotsOf_congr w w' msg.layout]
    · exact h.wf
    · intro i hi
      obtain ⟨e, e', h1, h2, _, hgeo⟩ := hch i (h.layout_sub hi)
      simp [h1, h2, hgeo]
  · intro s hs
    obtain ⟨e, e', h1, h2, h3, _⟩ := hch s hs
    exact ⟨e, e', h1, h2, h3⟩

/-- the general form: the membership part of the body is unchanged, the name registry is
    given separately -/
theorem MuxOK.frame_gen {w w' : MW} {x : Nat} {xe xe' : SigE} {gc gs : Int} (h : MuxOK w x xe gc gs)
    (hg : xe'.mx.groups = xe.mx.groups) (hf : xe'.mx.fixed = xe.mx.fixed)
    (hi : xe'.mx.groupIds = xe.mx.groupIds) (hsg : xe'.mx.signals = xe.mx.signals)
    (hch : ∀ s ∈ xe.mx.signals, ∃ e e', w.sigs.get s = some e ∧ w'.sigs.get s = some e' ∧
        e'.parentMux = e.parentMux)
    (hnew : ∀ s e', w'.sigs.get s = some e' → e'.parentMux = some x → s ∈ xe.mx.signals)
    (hwf : ∀ g ∈ xe.mx.groups, WF gs (slotsOf w' g))
    (hnn : KeysNodup xe'.mx.signalNames)
    (hnames : ∀ n i, (n, i) ∈ xe'.mx.signalNames ↔ i ∈ xe.mx.signals ∧ nameOf w' i = n) :
    MuxOK w' x xe' gc gs := by
  refine ⟨?_, ?_, ?_, ?_, ?_, ?_, ?_, ?_, ?_, hnn, ?_, by rw [hsg]; exact h.sigsNodup⟩ <;> (try rw [hg]) <;> (try rw [hf]) <;>
    (try rw [hi]) <;> (try rw [hsg])
  · exact h.shape
  · exact hwf
  · exact h.nodup
  · exact h.fixedEv
  · exact h.listed
  · exact h.neither
  · exact h.split
  · exact h.disj
  · intro s
    constructor
    · intro hs
      obtain ⟨e, e', h1, h2, hp⟩ := hch s hs
      obtain ⟨e0, he0, hp0⟩ := (h.child s).mp hs
      rw [h1] at he0; cases he0
      exact ⟨e', h2, by rw [hp, hp0]⟩
    · rintro ⟨e', he', hp⟩
      exact hnew s e' he' hp
  · exact hnames

theorem MsgOK.frame_gen {w w' : MW} {m : Nat} {msg msg' : MsgE} (h : MsgOK w m msg)
    (hcap : msg'.cap = msg.cap) (hsb : msg'.sizeByte = msg.sizeByte)
    (hl : msg'.layout = msg.layout) (hsg : msg'.signals = msg.signals)
    (hch : ∀ s ∈ msg.signals, ∃ e e', w.sigs.get s = some e ∧ w'.sigs.get s = some e' ∧
        e'.parentMux = e.parentMux ∧ e'.parentMsg = e.parentMsg)
    (hnew : ∀ s e', w'.sigs.get s = some e' → e'.parentMsg = some m → s ∈ msg.signals)
    (hwf : WF msg.cap (slotsOf w' msg.layout))
    (hnn : KeysNodup msg'.signalNames)
    (hnames : ∀ n i, (n, i) ∈ msg'.signalNames ↔ i ∈ msg.signals ∧ nameOf w' i = n) :
    MsgOK w' m msg' := by
  refine ⟨by rw [hcap, hsb]; exact h.cap, by rw [hcap, hl]; exact hwf, by rw [hl]; exact h.nodup,
    ?_, ?_, hnn, by rw [hsg]; exact hnames⟩
  · intro s
    rw [hl]
    constructor
    · intro hs
      obtain ⟨e, e', h1, h2, hv1, hv2⟩ := hch s (h.layout_sub hs)
      obtain ⟨e0, he0, hp0, hm0⟩ := (h.top s).mp hs
      rw [h1] at he0; cases he0
      exact ⟨e', h2, by rw [hv1, hp0], by rw [hv2, hm0]⟩
    · rintro ⟨e', he', hp, hm⟩
      have hs := hnew s e' he' hm
      obtain ⟨e, e'', h1, h2, hv1, hv2⟩ := hch s hs
      rw [he'] at h2; cases h2
      exact (h.top s).mpr ⟨e, h1, by rw [← hv1, hp], by rw [← hv2, hm]⟩
  · intro s
    rw [hsg]
    constructor
    · intro hs
      obtain ⟨e, e', h1, h2, _, hv2⟩ := hch s hs
      obtain ⟨e0, he0, hm0⟩ := (h.reg s).mp hs
      rw [h1] at he0; cases he0
      exact ⟨e', h2, by rw [hv2, hm0]⟩
    · rintro ⟨e', he', hm⟩
      exact hnew s e' he' hm

end Acme.Mux
