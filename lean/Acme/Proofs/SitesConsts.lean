/-
Tie B: an inventory regenerated from /repo's source on every run (Acme.Gen, written by
/verif/tools/extract) is exactly the hand-classified expectation table (Acme.Expect).
This is a proof obligation: when the source changes the inventory, `decide` fails here and
every property theorem that imports this file stops building.
-/
import Acme.Gen.Consts
import Acme.Core.BusLoad
import Acme.Core.Arith

namespace Acme.Sites

/-- the numeric constants of the source are the ones the kernel models use -/
theorem consts_expected :
    Acme.Gen.maxSize = Acme.Arith.maxSize ∧ Acme.Gen.headerBits = Acme.BusLoad.headerBits ∧
    Acme.Gen.trailerBits = Acme.BusLoad.trailerBits ∧
    Acme.Gen.headerStuffingBits = Acme.BusLoad.headerStuffingBits := by decide

end Acme.Sites
