/-
Bus level of the generated exporter, part 5: the value tables are the hand model's (`tables_eq`),
the whole `exportBus` (`X_exportBus_view`).
-/
import Acme.Proofs.GenExporterBus4
import Acme.Proofs.ExportBusFile
namespace Acme.GenX
open Acme.ImportBus Acme.ExportBus Acme.XSem Acme.Gen

/-- the values of an enum the walk meets are below 2^32 -/
theorem usedEnum_lt32 {b : MBus} (h : BusOK b) {e : Nat} (he : e ∈ usedEnums b) :
    ∀ v ∈ (b.enums.getD e default).values, lt32 v.1 := by
  unfold usedEnums at he
  obtain ⟨m, hm, hs⟩ := List.mem_flatMap.mp (mem_dedupNat he)
  obtain ⟨s, hs, hk⟩ := List.mem_filterMap.mp hs
  have := ((h.1 m (mem_exportOrder.mp hm).1).2 s hs).2
  unfold enumIdx at hk
  split at hk
  · rename_i e' hk'
    cases hk
    rw [hk'] at this
    exact this.2.2
  · cases hk

theorem table_view {b : MBus} (h : BusOK b) {e : Nat} (he : e ∈ usedEnums b) :
    dtableOf (tableOfEnum (viewEnum b e)) = tableOf b e := by
  unfold dtableOf tableOfEnum tableOf
  have := dvals_view _ (usedEnum_lt32 h he)
  simp only [viewEnum]
  rw [this]

theorem tables_eq (b : MBus) (h : BusOK b) (sortEnums : List SigEnum → List SigEnum) (hs : SortSpec sortEnums) :
    ((sortEnums ((usedEnums b).map (viewEnum b))).map tableOfEnum).map dtableOf = tables b := by
  have hmap : ((usedEnums b).map (viewEnum b)).map (fun e => dtableOf (tableOfEnum e)) = (usedEnums b).map (tableOf b) := by
    rw [List.map_map]
    exact List.map_congr_left (fun e he => table_view h he)
  rw [List.map_map]
  refine sorted_perm_unique (·.name) (l := (usedEnums b).map (tableOf b)) ?_ ?_ (sortStr_perm _ _) ?_ (sortStr_sorted _ _)
  · rw [List.map_map]; exact h.2
  · exact hmap ▸ (hs _).1.map _
  · exact (hs _).2.map _ (fun a c hac => hac)

/-- the generated `exportBus` on the Go objects of a model bus -/
theorem X_exportBus_view (b : MBus) (h : BusOK b) (sortEnums : List SigEnum → List SigEnum) (hs : SortSpec sortEnums) :
    ∃ st : XSem.St, X.exportBus id sortEnums (viewBus b) {} = .val st ∧
      dfileOf st = Acme.ExportBus.exportBus b ∧
      st.extendedMuxes = [] ∧ (∀ m ∈ st.messages, ∀ s ∈ m.signals, PlainSig s) := by
  have a0 := Adv_cmt b b.desc { kind := .general, text := b.desc } {}
  obtain ⟨st1, h1, a1⟩ := X_nodes_loop b h.1 (sortedNodes b) {} (cmtStB b.desc { kind := .general, text := b.desc } {})
  have a := a0.trans a1
  have h1' : X.exportNodeInterfaces_loop1 id (viewBus b).nodeInterfaces {}
      (cmtStB (viewBus b).desc { kind := .general, text := (viewBus b).desc } {}) =
      .val ({ names := [] ++ (sortedNodes b).map (·.name) }, st1) := h1
  unfold cmtStB at h1'
  unfold X.exportBus X.exportNodeInterfaces
  simp only [h1', bind_val, X_tables_loop]
  refine ⟨_, rfl, ?_, a.ext, fun m hm => a.plain (fun m hm => by cases hm) m hm⟩
  have hen : st1.sigEnums = (usedEnums b).map (fun e => (e, viewEnum b e)) := by
    rw [a.enums, List.nil_append]; exact regEnums_nil b _
  have hvals : mapValues st1.sigEnums = (usedEnums b).map (viewEnum b) := by
    rw [hen, mapValues, List.map_map]; rfl
  unfold dfileOf Acme.ExportBus.exportBus
  simp only [hvals, a.tables, a.comments, a.encs, a.msgs, List.map_append, tables_eq b h sortEnums hs]
  simp [exportOrder, comments]
  rfl
end Acme.GenX
