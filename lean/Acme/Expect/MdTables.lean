/-
Hand-validated expectation for the regenerated inventory of md_exporter.go (property C16,
tools/extract/mdtables.go → Acme.Gen.mdTables / mdRowPaths / mdParamAppends / mdSections /
mdDynamic).  Read against the source when this table was written (2026-10-01):

* four tables — the signal table of a message (8 columns), the appendix tables of signal types
  (9), signal units (4) and the values of one signal enum (3); each is filled by exactly one
  `Rows = append(Rows, escapeTableRow(row))`, and `escapeTableRow` keeps the width of its
  argument (`make([]string, len(row))`, element stores only: width `(0, [0])`);
* `exportSignal` starts every row with 3 cells (name, start bit, size); the standard and the enum
  branch append the 5 cells of `exportStandardSignal` / `exportEnumSignal` (one path each: their
  `if`s only choose between a text and "-"), the multiplexer branch hands the 3-cell row to
  `exportMultiplexerSignal`, which appends 5 cells to it (`(5, [1])` = 5 + len of parameter 1)
  and adds, per group, one literal row of 8 cells and the rows of `exportSignal` (recursion:
  least fixed point {8}); the `switch` covers all three `SignalKind` constants, so there is no
  path on which a signal yields no row;
* `exportMultiplexerSignal` appends to a slice that aliases its row parameter (5 appends);
* the section calls: H1 network, per bus H2, per node interface rule + H3, per message rule + H4,
  the table only after the early return for a message without signals; appendix H2 ×3, per enum
  rule + H4; the table of contents before the buses.

`Acme.Sites.mdTables_expected` proves the regenerated lists equal to these.  A change of the
source that alters a header, a cell count, the path structure or the order / level / nesting of
a section call shows up as a difference and has to be justified here (and in `Acme.Core.Md`).
-/
namespace Acme.Expect

/-- every `md.TableSet{Header: …}` literal of md_exporter.go in source order: (function, header cells, for every expression appended to its `Rows` — locals written as ‹type› —: the widths of the rows it can denote).  A width `(c, ps)` is c cells plus the lengths of the row parameters `ps` (0-based indexes) of the function. -/
def mdTables : List (String × List String × List (String × List (Nat × List Nat))) := [
  ("mdExporter.exportMessage", ["Name", "Start Bit", "Size", "Type", "Min", "Max", "Unit", "Description"],
    [("escapeTableRow(‹[]string›)", [(8, [])])]),
  ("mdExporter.exportSignalTypes", ["Name", "Size", "Kind", "Signed", "Min", "Max", "Scale", "Offset", "Description"],
    [("escapeTableRow(‹[]string›)", [(9, [])])]),
  ("mdExporter.exportSignalUnits", ["Name", "Kind", "Symbol", "Description"],
    [("escapeTableRow(‹[]string›)", [(4, [])])]),
  ("mdExporter.exportSignalEnum", ["Name", "Index", "Description"],
    [("escapeTableRow(‹[]string›)", [(3, [])])])
]

/-- per function that returns a row (`[]string`), returns rows (`[][]string`) or fills a table, per control-flow path (the forking `if` / `switch` statements of the function numbered in source order; a `switch` over all constants of its type has no `no case` path): (function, path, `returns row` | `returns rows` | `table rows` | `local row k` = the k-th local `[]string` variable of the function alive at the end of the path, the widths) -/
def mdRowPaths : List (String × String × String × List (Nat × List Nat)) := [
  ("escapeTableRow", "-", "returns row", [(0, [0])]),
  ("escapeTableRow", "-", "local row 1", [(0, [0])]),
  ("mdExporter.exportMessage", "if#1=else", "table rows", [(8, [])]),
  ("mdExporter.exportSignal", "switch#1=case SignalKindStandard", "returns rows", [(8, [])]),
  ("mdExporter.exportSignal", "switch#1=case SignalKindStandard", "local row 1", [(8, [])]),
  ("mdExporter.exportSignal", "switch#1=case SignalKindEnum", "returns rows", [(8, [])]),
  ("mdExporter.exportSignal", "switch#1=case SignalKindEnum", "local row 1", [(8, [])]),
  ("mdExporter.exportSignal", "switch#1=case SignalKindMultiplexer", "returns rows", [(8, [])]),
  ("mdExporter.exportSignal", "switch#1=case SignalKindMultiplexer", "local row 1", [(3, [])]),
  ("mdExporter.exportStandardSignal", "-", "returns row", [(5, [])]),
  ("mdExporter.exportEnumSignal", "-", "returns row", [(5, [])]),
  ("mdExporter.exportMultiplexerSignal", "-", "returns rows", [(5, [1]), (8, [])]),
  ("mdExporter.exportMultiplexerSignal", "-", "local row 1", [(5, [1])]),
  ("mdExporter.exportSignalTypes", "-", "table rows", [(9, [])]),
  ("mdExporter.exportSignalUnits", "-", "table rows", [(4, [])]),
  ("mdExporter.exportSignalEnum", "-", "table rows", [(3, [])])
]

/-- every append whose base slice may share the backing array of a row PARAMETER: (function, parameter index, expression) -/
def mdParamAppends : List (String × Nat × String) := [
  ("mdExporter.exportMultiplexerSignal", 1, "append(‹[]string›, md.Code(\"multiplexer\"))"),
  ("mdExporter.exportMultiplexerSignal", 1, "append(‹[]string›, \"0\")"),
  ("mdExporter.exportMultiplexerSignal", 1, "append(‹[]string›, fmt.Sprintf(\"%d\", ‹*MultiplexerSignal›.groupCount))"),
  ("mdExporter.exportMultiplexerSignal", 1, "append(‹[]string›, \"-\")"),
  ("mdExporter.exportMultiplexerSignal", 1, "append(‹[]string›, ‹string›)")
]

/-- every call on the Markdown writer (except LF) and every call of an exporter method without results, per function in source order: (function, nesting, call, arguments) -/
def mdSections : List (String × String × String × String) := [
  ("ExportToMarkdown", "", "exportNetwork", "‹*Network›"),
  ("ExportToMarkdown", "", "Build", ""),
  ("mdExporter.exportNetwork", "", "Importantf", "\"This markdown document is generated by %s\", md.Link(\"acmelib\", \"https://github.com/squadracorsepolito/acmelib\")"),
  ("mdExporter.exportNetwork", "", "H1", "‹*Network›.name"),
  ("mdExporter.exportNetwork", "if len(‹*Network›.desc) > 0", "PlainText", "‹*Network›.desc"),
  ("mdExporter.exportNetwork", "if len(‹*Network›.desc) > 0", "HorizontalRule", ""),
  ("mdExporter.exportNetwork", "", "exportTOC", "‹*Network›"),
  ("mdExporter.exportNetwork", "range ‹*Network›.Buses()", "exportBus", "‹*Bus›"),
  ("mdExporter.exportNetwork", "", "exportSignalTypes", "‹[]*SignalType›"),
  ("mdExporter.exportNetwork", "", "exportSignalUnits", "‹[]*SignalUnit›"),
  ("mdExporter.exportNetwork", "", "H2", "\"Signal Enums\""),
  ("mdExporter.exportNetwork", "", "PlainText", "\"The list of all the signal enums used in the network.\""),
  ("mdExporter.exportNetwork", "range ‹[]*SignalEnum›", "exportSignalEnum", "‹*SignalEnum›"),
  ("mdExporter.exportTOC", "range ‹*Network›.Buses()", "BulletList", "‹*mdExporter›.getHeaderLink(‹*Bus›.name)"),
  ("mdExporter.exportTOC", "range ‹*Network›.Buses() / range ‹*Bus›.NodeInterfaces()", "PlainTextf", "\"\\t- %s\", ‹*mdExporter›.getHeaderLink(‹*NodeInterface›.node.name)"),
  ("mdExporter.exportTOC", "range ‹*Network›.Buses() / range ‹*Bus›.NodeInterfaces() / range ‹*NodeInterface›.SentMessages()", "PlainTextf", "\"\\t\\t- %s\", ‹*mdExporter›.getHeaderLink(‹*Message›.name)"),
  ("mdExporter.exportTOC", "", "BulletList", "‹*mdExporter›.getHeaderLink(\"Signal Types\")"),
  ("mdExporter.exportTOC", "", "BulletList", "‹*mdExporter›.getHeaderLink(\"Signal Units\")"),
  ("mdExporter.exportTOC", "", "BulletList", "‹*mdExporter›.getHeaderLink(\"Signal Enums\")"),
  ("mdExporter.exportBus", "", "H2", "‹*Bus›.name"),
  ("mdExporter.exportBus", "if len(‹*Bus›.desc) > 0", "PlainText", "‹*Bus›.desc"),
  ("mdExporter.exportBus", "if len(‹*Bus›.desc) > 0", "HorizontalRule", ""),
  ("mdExporter.exportBus", "", "PlainTextf", "\"Baudrate: %s bps\", ‹string›"),
  ("mdExporter.exportBus", "range ‹*Bus›.NodeInterfaces()", "exportNode", "‹*NodeInterface›"),
  ("mdExporter.exportNode", "", "HorizontalRule", ""),
  ("mdExporter.exportNode", "", "H3", "‹*NodeInterface›.node.name"),
  ("mdExporter.exportNode", "if len(‹*NodeInterface›.node.desc) > 0", "PlainText", "‹*NodeInterface›.node.desc"),
  ("mdExporter.exportNode", "if len(‹*NodeInterface›.node.desc) > 0", "HorizontalRule", ""),
  ("mdExporter.exportNode", "", "PlainTextf", "\"Node ID: %s (dec), %s (hex)\", md.Bold(fmt.Sprintf(\"%d\", ‹*NodeInterface›.node.id)), md.Bold(‹string›)"),
  ("mdExporter.exportNode", "range ‹*NodeInterface›.SentMessages()", "exportMessage", "‹*Message›"),
  ("mdExporter.exportMessage", "", "HorizontalRule", ""),
  ("mdExporter.exportMessage", "", "H4", "‹*Message›.name"),
  ("mdExporter.exportMessage", "if len(‹*Message›.desc) > 0", "PlainText", "‹*Message›.desc"),
  ("mdExporter.exportMessage", "if len(‹*Message›.desc) > 0", "HorizontalRule", ""),
  ("mdExporter.exportMessage", "", "PlainTextf", "\"CAN-ID %s: %s (dec), %s (hex)\", ‹string›, md.Bold(‹string›), md.Bold(‹string›)"),
  ("mdExporter.exportMessage", "if !‹*Message›.hasStaticCANID", "PlainTextf", "\"Message ID: %s (dec), %s (hex)\", md.Bold(fmt.Sprintf(\"%d\", ‹*Message›.id)), md.Bold(‹string›)"),
  ("mdExporter.exportMessage", "", "PlainTextf", "\"Size: %s bytes\", md.Bold(fmt.Sprintf(\"%d\", ‹*Message›.sizeByte))"),
  ("mdExporter.exportMessage", "", "PlainTextf", "\"Byte Order: %s\", md.Bold(‹*Message›.byteOrder.String())"),
  ("mdExporter.exportMessage", "", "PlainTextf", "\"Cycle Time: %s\", ‹string›"),
  ("mdExporter.exportMessage", "", "PlainText", "‹string›"),
  ("mdExporter.exportMessage", "", "CustomTable", "‹markdown.TableSet›, md.TableOptions{AutoWrapText: false, AutoFormatHeaders: false}"),
  ("mdExporter.exportSignalTypes", "", "H2", "\"Signal Types\""),
  ("mdExporter.exportSignalTypes", "", "PlainText", "\"The list of all the signal types used in the network.\""),
  ("mdExporter.exportSignalTypes", "", "CustomTable", "‹markdown.TableSet›, md.TableOptions{AutoWrapText: false, AutoFormatHeaders: false}"),
  ("mdExporter.exportSignalUnits", "", "H2", "\"Signal Units\""),
  ("mdExporter.exportSignalUnits", "", "PlainText", "\"The list of all the signal units used in the network.\""),
  ("mdExporter.exportSignalUnits", "", "CustomTable", "‹markdown.TableSet›, md.TableOptions{AutoWrapText: false, AutoFormatHeaders: false}"),
  ("mdExporter.exportSignalEnum", "", "HorizontalRule", ""),
  ("mdExporter.exportSignalEnum", "", "H4", "‹*SignalEnum›.name"),
  ("mdExporter.exportSignalEnum", "if len(‹*SignalEnum›.desc) > 0", "PlainText", "‹*SignalEnum›.desc"),
  ("mdExporter.exportSignalEnum", "if len(‹*SignalEnum›.desc) > 0", "HorizontalRule", ""),
  ("mdExporter.exportSignalEnum", "", "CustomTable", "‹markdown.TableSet›, md.TableOptions{AutoWrapText: false, AutoFormatHeaders: false}")
]

/-- every width above that is NOT determined statically (left out of the lists above): (function, path, what, expression / reason) -/
def mdDynamic : List (String × String × String × String) := [
]

end Acme.Expect
