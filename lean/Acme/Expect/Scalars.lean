/-
Hand-validated table of the SCALAR transfers of saver.go / loader.go (property C12), in the form
`Acme.SaveScalar.Field.summary` produces from the regenerated inventory
(`Acme.Gen.savedScalars / loadedScalars`, tools/extract/scalars.go):

  (schema message, field, wire type, (conversion, argument),
   (saver function, the Go expression that is saved, condition),
   every use the loader makes of the field: (function, conversion, kind of use, use, condition))

Conversions: `u32` = int → uint32(x) → int(w) · `u32z d` = the same, assigned by the loader only
`if w != 0` (a saved 0 leaves the constructor's value d) · `i32` = int → int32(x) → int(w) · `u32id T` = a
uint32-based named type T · `f64`, `str`, `bool` copied · `id` = EntityID ↔ string · `enum d` =
two constant tables, d the constant written for a model constant the saver's table does not list ·
`time` = timestamppb.New / AsTime · `notLoaded` = written, never read.
Uses: `arg f#i` = argument i of the call of f · `lit T.k` = key k of a literal of T · `field` =
assignment target · `local` · `key` / `storekey` / `mapval` = look-up key / stored key / stored
value of a map · `range` = loop over a repeated field · `table` = constant table · `cond` =
condition only.

Each line was read against the source when this table was written (2026-10-01): the saver
expression names the model field the value comes from, the loader use names the constructor
argument / setter / key it goes to — `CycleTime` comes from `msg.cycleTime` and goes to
`msg.SetCycleTime`; `IntegerAttribute.DefValue / Min / Max` are arguments 1 / 2 / 3 of
`newIntegerAttributeFromBase(base, defValue, min, max)`; `SignalType.Size / Signed / Min / Max /
Scale / Offset` are arguments 2 … 7 of `newSignalTypeFromEntity(ent, kind, size, signed, min,
max, scale, offset)`; `Message.MessageId / SizeByte` are arguments 1 / 2 of
`newMessageFromEntity(ent, id, sizeByte)`; `Node.NodeId / InterfaceCount` arguments 1 / 2 of
`newNodeFromEntity(ent, id, intCount)`; `GroupCount / GroupSize` arguments 1 / 2 of
`newMultiplexerSignalFromBase(base, groupCount, groupSize)`; `From / Len` arguments 1 / 2 of
`newCANIDBuilderOp(kind, from, len)`.
`C12_scalar_inventory` proves the regenerated table equal to this one: a dropped transfer, two
swapped fields, a changed conversion or a new condition in the source breaks it.
-/
namespace Acme.Expect

def scalarFields : List (String × String × String × (String × String) × (String × String × String) ×
    List (String × String × String × String × String)) := [
  ("Attribute", "Type", "enum", ("enum", ""), ("saver.saveAttribute", "att.Type()", ""),
    [("loader.loadAttribute", "none", "table", "loader.loadAttribute: switch pAtt.Type", "")]),
  ("AttributeAssignment", "AttributeEntityId", "string", ("id", ""), ("saver.saveAttributeAssignments", "tmpAtt.EntityID()", ""),
    [("loader.loadAttributeAssignment", "none", "key", "l.refAttributes", ""), ("loader.loadAttributeAssignment", "EntityID", "lit", "EntityIDError.EntityID", "!ok")]),
  ("AttributeAssignment", "EntityId", "string", ("notLoaded", ""), ("saver.saveAttributeAssignments", "tmpAttAss.EntityID()", ""),
    []),
  ("AttributeAssignment_ValueDouble", "ValueDouble", "float64", ("f64", ""), ("saver.saveAttributeAssignments", "tmpAttAss.value.(float64)", "case AttributeTypeFloat of switch tmpAtt.Type()"),
    [("loader.loadAttributeAssignment", "none", "arg", "attEnt.AssignAttribute#1", "case *acmelibv1.AttributeAssignment_ValueDouble of switch tmpVal := pAttAss.Value.(type)")]),
  ("AttributeAssignment_ValueInt", "ValueInt", "int32", ("i32", ""), ("saver.saveAttributeAssignments", "tmpAttAss.value.(int)", "case AttributeTypeInteger of switch tmpAtt.Type()"),
    [("loader.loadAttributeAssignment", "int", "arg", "attEnt.AssignAttribute#1", "case *acmelibv1.AttributeAssignment_ValueInt of switch tmpVal := pAttAss.Value.(type)")]),
  ("AttributeAssignment_ValueString", "ValueString", "string", ("str", ""), ("saver.saveAttributeAssignments", "tmpAttAss.value.(string)", "case AttributeTypeString, AttributeTypeEnum of switch tmpAtt.Type()"),
    [("loader.loadAttributeAssignment", "none", "arg", "attEnt.AssignAttribute#1", "case *acmelibv1.AttributeAssignment_ValueString of switch tmpVal := pAttAss.Value.(type)")]),
  ("Bus", "Baudrate", "uint32", ("u32", ""), ("saver.saveBus", "bus.baudrate", ""),
    [("loader.loadBus", "int", "arg", "bus.SetBaudrate#0", "")]),
  ("Bus", "CanidBuilderEntityId", "string", ("id", ""), ("saver.saveBus", "entID", ""),
    [("loader.loadBus", "none", "local", "builderEntID", "")]),
  ("Bus", "Type", "enum", ("enum", "acmelibv1.BusType_BUS_TYPE_UNSPECIFIED"), ("saver.saveBus", "bus.typ", ""),
    [("loader.loadBus", "none", "table", "loader.loadBus: switch pBus.Type", "")]),
  ("CANIDBuilderOp", "From", "uint32", ("u32", ""), ("saver.saveCANIDBuilderOp", "builderOp.from", ""),
    [("loader.loadCANIDBuilderOp", "int", "arg", "newCANIDBuilderOp#1", "")]),
  ("CANIDBuilderOp", "Kind", "enum", ("enum", "acmelibv1.CANIDBuilderOpKind_CANID_BUILDER_OP_KIND_UNSPECIFIED"), ("saver.saveCANIDBuilderOp", "builderOp.kind", ""),
    [("loader.loadCANIDBuilderOp", "none", "table", "loader.loadCANIDBuilderOp: switch pBuilderOp.Kind", "")]),
  ("CANIDBuilderOp", "Len", "uint32", ("u32", ""), ("saver.saveCANIDBuilderOp", "builderOp.len", ""),
    [("loader.loadCANIDBuilderOp", "int", "arg", "newCANIDBuilderOp#2", "")]),
  ("Entity", "CreateTime", "timestamp", ("time", ""), ("saver.saveEntity", "e.createTime", ""),
    [("loader.loadEntity", "IsValid", "cond", "pEnt.GetCreateTime().IsValid()", ""), ("loader.loadEntity", "AsTime", "local", "cTime", "pEnt.GetCreateTime().IsValid()")]),
  ("Entity", "Desc", "string", ("str", ""), ("saver.saveEntity", "e.desc", ""),
    [("loader.loadEntity", "none", "lit", "entity.desc", "")]),
  ("Entity", "EntityId", "string", ("id", ""), ("saver.saveEntity", "e.entityID", ""),
    [("loader.loadEntity", "EntityID", "lit", "entity.entityID", ""), ("loader.loadMessage", "none", "key", "sigMap", ""), ("loader.loadMessage", "EntityID", "lit", "EntityIDError.EntityID", "!ok"), ("loader.loadMultiplexerSignal", "none", "storekey", "muxedSignals", ""), ("loader.loadNetwork", "none", "storekey", "l.refAttributes", ""), ("loader.loadNetwork", "none", "storekey", "l.refCANIDBuilders", ""), ("loader.loadNetwork", "none", "storekey", "l.refNodes", ""), ("loader.loadNetwork", "none", "storekey", "l.refSigEnums", ""), ("loader.loadNetwork", "none", "storekey", "l.refSigTypes", ""), ("loader.loadNetwork", "none", "storekey", "l.refSigUnits", "")]),
  ("Entity", "EntityKind", "enum", ("notLoaded", ""), ("saver.saveEntity", "e.entityKind", ""),
    []),
  ("Entity", "Name", "string", ("str", ""), ("saver.saveEntity", "e.name", ""),
    [("loader.loadEntity", "none", "lit", "entity.name", "")]),
  ("EnumAttribute", "DefValue", "string", ("str", ""), ("saver.saveEnumAttribute", "enumAtt.defValue", ""),
    [("loader.loadEnumAttribute", "none", "local", "defValue", "")]),
  ("EnumAttribute", "Values", "string", ("str", ""), ("saver.saveEnumAttribute", "val", ""),
    [("loader.loadEnumAttribute", "len", "arg", "make#2", ""), ("loader.loadEnumAttribute", "none", "arg", "slices.Contains#0", ""), ("loader.loadEnumAttribute", "none", "range", "val", "")]),
  ("EnumSignal", "EnumEntityId", "string", ("id", ""), ("saver.saveEnumSignal", "entID", ""),
    [("loader.loadEnumSignal", "none", "key", "l.refSigEnums", ""), ("loader.loadEnumSignal", "EntityID", "lit", "EntityIDError.EntityID", "!ok")]),
  ("FloatAttribute", "DefValue", "float64", ("f64", ""), ("saver.saveFloatAttribute", "floatAtt.defValue", ""),
    [("loader.loadFloatAttribute", "none", "arg", "newFloatAttributeFromBase#1", "")]),
  ("FloatAttribute", "Max", "float64", ("f64", ""), ("saver.saveFloatAttribute", "floatAtt.max", ""),
    [("loader.loadFloatAttribute", "none", "arg", "newFloatAttributeFromBase#3", "")]),
  ("FloatAttribute", "Min", "float64", ("f64", ""), ("saver.saveFloatAttribute", "floatAtt.min", ""),
    [("loader.loadFloatAttribute", "none", "arg", "newFloatAttributeFromBase#2", "")]),
  ("IntegerAttribute", "DefValue", "int32", ("i32", ""), ("saver.saveIntegerAttribute", "intAtt.defValue", ""),
    [("loader.loadIntegerAttribute", "int", "arg", "newIntegerAttributeFromBase#1", "")]),
  ("IntegerAttribute", "IsHexFormat", "bool", ("bool", ""), ("saver.saveIntegerAttribute", "intAtt.isHexFormat", ""),
    [("loader.loadIntegerAttribute", "none", "cond", "pIntAtt.GetIsHexFormat()", "")]),
  ("IntegerAttribute", "Max", "int32", ("i32", ""), ("saver.saveIntegerAttribute", "intAtt.max", ""),
    [("loader.loadIntegerAttribute", "int", "arg", "newIntegerAttributeFromBase#3", "")]),
  ("IntegerAttribute", "Min", "int32", ("i32", ""), ("saver.saveIntegerAttribute", "intAtt.min", ""),
    [("loader.loadIntegerAttribute", "int", "arg", "newIntegerAttributeFromBase#2", "")]),
  ("Message", "ByteOrder", "enum", ("enum", "acmelibv1.MessageByteOrder_MESSAGE_BYTE_ORDER_UNSPECIFIED"), ("saver.saveMessage", "msg.byteOrder", ""),
    [("loader.loadMessage", "none", "table", "loader.loadMessage: switch pMsg.ByteOrder", "")]),
  ("Message", "CycleTime", "uint32", ("u32z", "0"), ("saver.saveMessage", "msg.cycleTime", ""),
    [("loader.loadMessage", "int", "arg", "msg.SetCycleTime#0", "pMsg.CycleTime != 0"), ("loader.loadMessage", "none", "cond", "pMsg.CycleTime != 0", "")]),
  ("Message", "DelayTime", "uint32", ("u32z", "0"), ("saver.saveMessage", "msg.delayTime", ""),
    [("loader.loadMessage", "int", "arg", "msg.SetDelayTime#0", "pMsg.DelayTime != 0"), ("loader.loadMessage", "none", "cond", "pMsg.DelayTime != 0", "")]),
  ("Message", "HasStaticCanId", "bool", ("bool", ""), ("saver.saveMessage", "msg.hasStaticCANID", ""),
    [("loader.loadMessage", "none", "cond", "pMsg.HasStaticCanId", "")]),
  ("Message", "MessageId", "uint32", ("u32id", "MessageID"), ("saver.saveMessage", "msg.id", ""),
    [("loader.loadMessage", "MessageID", "arg", "newMessageFromEntity#1", "")]),
  ("Message", "Priority", "enum", ("enum", "acmelibv1.MessagePriority_MESSAGE_PRIORITY_UNSPECIFIED"), ("saver.saveMessage", "msg.priority", ""),
    [("loader.loadMessage", "none", "table", "loader.loadMessage: switch pMsg.Priority", "")]),
  ("Message", "SendType", "enum", ("enum", "acmelibv1.MessageSendType_MESSAGE_SEND_TYPE_UNSPECIFIED"), ("saver.saveMessage", "msg.sendType", ""),
    [("loader.loadMessage", "none", "table", "loader.loadMessage: switch pMsg.SendType", "")]),
  ("Message", "SizeByte", "uint32", ("u32", ""), ("saver.saveMessage", "msg.sizeByte", ""),
    [("loader.loadMessage", "int", "arg", "newMessageFromEntity#2", "")]),
  ("Message", "StartDelayTime", "uint32", ("u32z", "0"), ("saver.saveMessage", "msg.startDelayTime", ""),
    [("loader.loadMessage", "int", "arg", "msg.SetStartDelayTime#0", "pMsg.StartDelayTime != 0"), ("loader.loadMessage", "none", "cond", "pMsg.StartDelayTime != 0", "")]),
  ("Message", "StaticCanId", "uint32", ("u32id", "CANID"), ("saver.saveMessage", "msg.staticCANID", ""),
    [("loader.loadMessage", "CANID", "arg", "msg.SetStaticCANID#0", "pMsg.HasStaticCanId")]),
  ("MessageReceiver", "NodeEntityId", "string", ("id", ""), ("saver.saveMessage", "rec.node.entityID", ""),
    [("loader.loadMessage", "none", "key", "l.refNodes", ""), ("loader.loadMessage", "EntityID", "lit", "EntityIDError.EntityID", "!ok")]),
  ("MessageReceiver", "NodeInterfaceNumber", "uint32", ("u32", ""), ("saver.saveMessage", "rec.number", ""),
    [("loader.loadMessage", "int", "arg", "recNode.GetInterface#0", "")]),
  ("MultiplexerSignal", "FixedSignalEntityIds", "string", ("id", ""), ("saver.saveMultiplexerSignal", "entID", "muxSig.fixedSignals.hasKey(entID)"),
    [("loader.loadMultiplexerSignal", "none", "range", "fixEntID", "")]),
  ("MultiplexerSignal", "GroupCount", "uint32", ("u32", ""), ("saver.saveMultiplexerSignal", "muxSig.groupCount", ""),
    [("loader.loadMultiplexerSignal", "int", "arg", "newMultiplexerSignalFromBase#1", "")]),
  ("MultiplexerSignal", "GroupSize", "uint32", ("u32", ""), ("saver.saveMultiplexerSignal", "muxSig.groupSize", ""),
    [("loader.loadMultiplexerSignal", "int", "arg", "newMultiplexerSignalFromBase#2", "")]),
  ("Node", "InterfaceCount", "uint32", ("u32", ""), ("saver.saveNode", "node.interfaceCount", ""),
    [("loader.loadNode", "int", "arg", "newNodeFromEntity#2", "")]),
  ("Node", "NodeId", "uint32", ("u32id", "NodeID"), ("saver.saveNode", "node.id", ""),
    [("loader.loadNode", "NodeID", "arg", "newNodeFromEntity#1", "")]),
  ("NodeInterface", "NodeEntityId", "string", ("id", ""), ("saver.saveNodeInterface", "nodeEntID", ""),
    [("loader.loadNodeInterface", "none", "key", "l.refNodes", ""), ("loader.loadNodeInterface", "EntityID", "lit", "EntityIDError.EntityID", "!ok"), ("loader.loadNodeInterface", "EntityID", "lit", "EntityIDError.EntityID", "nodeInt.hasParentBus()")]),
  ("NodeInterface", "Number", "int32", ("i32", ""), ("saver.saveNodeInterface", "nodeInt.number", ""),
    [("loader.loadNodeInterface", "int", "arg", "node.GetInterface#0", "")]),
  ("Signal", "Kind", "enum", ("enum", "acmelibv1.SignalKind_SIGNAL_KIND_UNSPECIFIED"), ("saver.saveSignal", "sig.Kind()", ""),
    [("loader.loadSignal", "none", "table", "loader.loadSignal: switch pSig.Kind", "")]),
  ("Signal", "SendType", "enum", ("enum", "acmelibv1.SignalSendType_SIGNAL_SEND_TYPE_UNSPECIFIED"), ("saver.saveSignal", "sig.SendType()", ""),
    [("loader.loadSignal", "none", "table", "loader.loadSignal: switch pSig.SendType", "")]),
  ("Signal", "StartValue", "float64", ("f64", ""), ("saver.saveSignal", "sig.StartValue()", ""),
    [("loader.loadSignal", "none", "arg", "sig.SetStartValue#0", "")]),
  ("SignalEnum", "MinSize", "uint32", ("u32z", "1"), ("saver.saveSignalEnum", "sigEnum.minSize", "sigEnum.minSize != 0"),
    [("loader.loadSignalEnum", "none", "cond", "pSigEnum.MinSize != 0", ""), ("loader.loadSignalEnum", "int", "field", "sigEnum.minSize", "pSigEnum.MinSize != 0")]),
  ("SignalEnumValue", "Index", "uint32", ("u32", ""), ("saver.saveSignalENumValue", "val.index", ""),
    [("loader.loadSignalEnumValue", "int", "arg", "newSignalEnumValueFromEntity#1", "")]),
  ("SignalPayloadRef", "RelStartBit", "uint32", ("u32", ""), ("saver.saveSignalLayout", "sig.GetRelativeStartPos()", ""),
    [("loader.loadSignalPayload", "int", "mapval", "sigMap", "")]),
  ("SignalPayloadRef", "SignalEntityId", "string", ("id", ""), ("saver.saveSignalLayout", "sig.EntityID()", ""),
    [("loader.loadSignalPayload", "none", "storekey", "sigMap", "")]),
  ("SignalType", "Kind", "enum", ("enum", "acmelibv1.SignalTypeKind_SIGNAL_TYPE_KIND_UNSPECIFIED"), ("saver.saveSignalType", "sigType.kind", ""),
    [("loader.loadSignalType", "none", "table", "loader.loadSignalType: switch pSigType.Kind", "")]),
  ("SignalType", "Max", "float64", ("f64", ""), ("saver.saveSignalType", "sigType.max", ""),
    [("loader.loadSignalType", "none", "arg", "newSignalTypeFromEntity#5", "")]),
  ("SignalType", "Min", "float64", ("f64", ""), ("saver.saveSignalType", "sigType.min", ""),
    [("loader.loadSignalType", "none", "arg", "newSignalTypeFromEntity#4", "")]),
  ("SignalType", "Offset", "float64", ("f64", ""), ("saver.saveSignalType", "sigType.offset", ""),
    [("loader.loadSignalType", "none", "arg", "newSignalTypeFromEntity#7", "")]),
  ("SignalType", "Scale", "float64", ("f64", ""), ("saver.saveSignalType", "sigType.scale", ""),
    [("loader.loadSignalType", "none", "arg", "newSignalTypeFromEntity#6", "")]),
  ("SignalType", "Signed", "bool", ("bool", ""), ("saver.saveSignalType", "sigType.signed", ""),
    [("loader.loadSignalType", "none", "arg", "newSignalTypeFromEntity#3", "")]),
  ("SignalType", "Size", "uint32", ("u32", ""), ("saver.saveSignalType", "sigType.size", ""),
    [("loader.loadSignalType", "int", "arg", "newSignalTypeFromEntity#2", "")]),
  ("SignalUnit", "Kind", "enum", ("enum", "acmelibv1.SignalUnitKind_SIGNAL_UNIT_KIND_UNSPECIFIED"), ("saver.saveSignalUnit", "sigUnit.kind", ""),
    [("loader.loadSignalUnit", "none", "table", "loader.loadSignalUnit: switch pSigUnit.Kind", "")]),
  ("SignalUnit", "Symbol", "string", ("str", ""), ("saver.saveSignalUnit", "sigUnit.symbol", ""),
    [("loader.loadSignalUnit", "none", "arg", "newSignalUnitFromEntity#2", "")]),
  ("StandardSignal", "TypeEntityId", "string", ("id", ""), ("saver.saveStandardSignal", "typeEntID", ""),
    [("loader.loadStandardSignal", "none", "key", "l.refSigTypes", ""), ("loader.loadStandardSignal", "EntityID", "lit", "EntityIDError.EntityID", "!ok")]),
  ("StandardSignal", "UnitEntityId", "string", ("id", ""), ("saver.saveStandardSignal", "unitEntID", ""),
    [("loader.loadStandardSignal", "len", "cond", "len(pStdSig.GetUnitEntityId()) > 0", ""), ("loader.loadStandardSignal", "none", "key", "l.refSigUnits", "len(pStdSig.GetUnitEntityId()) > 0"), ("loader.loadStandardSignal", "EntityID", "lit", "EntityIDError.EntityID", "len(pStdSig.GetUnitEntityId()) > 0 && !ok")]),
  ("StringAttribute", "DefValue", "string", ("str", ""), ("saver.saveStringAttribute", "strAtt.defValue", ""),
    [("loader.loadStringAttribute", "none", "arg", "newStringAttributeFromBase#1", "")])
]

end Acme.Expect
