/-
Hand-written expectation tables for the inventories that /verif/tools/extract regenerates from
/repo on every run (tie B).  Each entry is the site and the reason why it is harmless for the
property that depends on it.  The theorems in Acme.Props.C09 / C13 / C15 / C18 require the
generated list to be exactly the list of sites below (`decide`): a new index expression, a new
map iteration, a changed comparator or a new store in read-only code breaks the build.
-/
namespace Acme.Expect

abbrev Site := String × String × String × String

def panicSites : List (Site × String) := [
  (("importer.go", "importer.importAttributes", "index", "fileValues[dbcAttVal.ValueInt]"), "guarded: 0 <= ValueInt < len(fileValues) in the enclosing if"),
  (("importer.go", "importer.importAttributes", "panic", "panic(err)"), "unreachable: ToEnum after Type() == AttributeTypeEnum"),
  (("importer.go", "importer.importFile", "panic", "panic(err)"), "unreachable: the placeholder node is always added by importNodes before, and it is attached when removed"),
  (("importer.go", "importer.importFile", "panic", "panic(err)"), "unreachable: the placeholder node is always added by importNodes before, and it is attached when removed"),
  (("importer.go", "importer.importMessage", "index", "muxSignals[0]"), "guarded: muxSigCount == 1"),
  (("importer.go", "importer.importMessage", "index", "muxSignals[j]"), "guarded: 0 <= j < muxSigCount = len"),
  (("importer.go", "importer.importMessage", "index", "muxedSigGroups[j]"), "guarded: 0 <= j < muxSigCount = len"),
  (("importer.go", "importer.importMessage", "index", "muxedSigGroups[muxIdx]"), "guarded: muxIdx is a value of muxSigNames, an index into muxSignals"),
  (("importer.go", "importer.importMessage", "index", "muxedSigGroups[muxIdx]"), "guarded: muxIdx is a value of muxSigNames, an index into muxSignals"),
  (("importer.go", "importer.importMessage", "index", "muxedSigGroups[muxIdx]"), "guarded: muxIdx is a value of muxSigNames, an index into muxSignals"),
  (("importer.go", "importer.importMessage", "index", "muxedSigGroups[muxIdx]"), "guarded: muxIdx is a value of muxSigNames, an index into muxSignals"),
  (("importer.go", "importer.importMessage", "make", "make([][]*importerSignal, muxSigCount)"), "bounded: muxSigCount <= number of signals of the message"),
  (("importer.go", "importer.importNodes", "index", "NewNode(dbc.DummyNode, 1024, 1).Interfaces()[0]"), "guarded: NewNode(_, _, 1) has exactly one interface"),
  (("importer.go", "importer.importNodes", "index", "tmpNode.Interfaces()[0]"), "guarded: NewNode(_, _, 1) has exactly one interface"),
  (("importer.go", "importer.importValueEncoding", "index", "values[idx]"), "guarded: len(values) == tmpSigEnum.values.size() checked before the loop"),
  (("importer.go", "importer.importValueEncoding", "index", "values[idx]"), "guarded: len(values) == tmpSigEnum.values.size() checked before the loop"),
  (("parser.go", "parser.parseExtendedMuxRange", "index", "tmpRange[0]"), "guarded: a number_range token always contains one '-' between two digit runs (scanner.scanNumber)"),
  (("parser.go", "parser.parseExtendedMuxRange", "index", "tmpRange[1]"), "guarded: a number_range token always contains one '-' between two digit runs (scanner.scanNumber)"),
  (("parser.go", "parser.parseHexInt", "slice", "val[2:]"), "guarded: HasPrefix 0x / 0X checked before"),
  (("parser.go", "parser.parseSignal", "index", "t.value[0]"), "guarded: a mux_indicator token has at least one character (scanner.scanText)"),
  (("parser.go", "parser.parseSignal", "index", "t.value[len(t.value)-1]"), "guarded: a mux_indicator token has at least one character (scanner.scanText)"),
  (("parser.go", "parser.parseSignal", "slice", "t.value[1 : len(t.value)-1]"), "guarded: a mux_indicator token has at least one character (scanner.scanText)"),
  (("parser.go", "parser.parseSignal", "slice", "t.value[1:]"), "guarded: a mux_indicator token has at least one character (scanner.scanText)"),
  (("punct.go", "getPunctKind", "index", "str[0]"), "guarded: only reached through token.isPunct after kind == tokenPunct; a punct token is one character"),
  (("scanner.go", "scanner.emitErrorToken", "slice", "s.value[:maxErrorValueLength]"), "guarded: len(s.value) > maxErrorValueLength"),
  (("scanner.go", "scanner.emitToken", "slice", "s.value[1 : len(s.value)-1]"), "guarded: a string token starts and ends with a quote (scanner.scanString)"),
  (("scanner.go", "scanner.peek", "slice", "b[s.peekBytesOffset:]"), "guarded: Peek(peekBytes + offset) succeeded, so len(b) > offset"),
  (("special_attributes.go", "messageSendTypeFromDBC", "index", "dbc.MsgSendTypeValues[1]"), "constant index into a fixed table (5 / 8 entries)"),
  (("special_attributes.go", "messageSendTypeFromDBC", "index", "dbc.MsgSendTypeValues[2]"), "constant index into a fixed table (5 / 8 entries)"),
  (("special_attributes.go", "messageSendTypeFromDBC", "index", "dbc.MsgSendTypeValues[3]"), "constant index into a fixed table (5 / 8 entries)"),
  (("special_attributes.go", "messageSendTypeFromDBC", "index", "dbc.MsgSendTypeValues[4]"), "constant index into a fixed table (5 / 8 entries)"),
  (("special_attributes.go", "messageSendTypeToDBC", "index", "dbc.MsgSendTypeValues[0]"), "constant index into a fixed table (5 / 8 entries)"),
  (("special_attributes.go", "messageSendTypeToDBC", "index", "dbc.MsgSendTypeValues[1]"), "constant index into a fixed table (5 / 8 entries)"),
  (("special_attributes.go", "messageSendTypeToDBC", "index", "dbc.MsgSendTypeValues[2]"), "constant index into a fixed table (5 / 8 entries)"),
  (("special_attributes.go", "messageSendTypeToDBC", "index", "dbc.MsgSendTypeValues[3]"), "constant index into a fixed table (5 / 8 entries)"),
  (("special_attributes.go", "messageSendTypeToDBC", "index", "dbc.MsgSendTypeValues[4]"), "constant index into a fixed table (5 / 8 entries)"),
  (("special_attributes.go", "signalSendTypeFromDBC", "index", "dbc.SigSendTypeValues[1]"), "constant index into a fixed table (5 / 8 entries)"),
  (("special_attributes.go", "signalSendTypeFromDBC", "index", "dbc.SigSendTypeValues[2]"), "constant index into a fixed table (5 / 8 entries)"),
  (("special_attributes.go", "signalSendTypeFromDBC", "index", "dbc.SigSendTypeValues[3]"), "constant index into a fixed table (5 / 8 entries)"),
  (("special_attributes.go", "signalSendTypeFromDBC", "index", "dbc.SigSendTypeValues[4]"), "constant index into a fixed table (5 / 8 entries)"),
  (("special_attributes.go", "signalSendTypeFromDBC", "index", "dbc.SigSendTypeValues[5]"), "constant index into a fixed table (5 / 8 entries)"),
  (("special_attributes.go", "signalSendTypeFromDBC", "index", "dbc.SigSendTypeValues[6]"), "constant index into a fixed table (5 / 8 entries)"),
  (("special_attributes.go", "signalSendTypeFromDBC", "index", "dbc.SigSendTypeValues[7]"), "constant index into a fixed table (5 / 8 entries)"),
  (("special_attributes.go", "signalSendTypeToDBC", "index", "dbc.SigSendTypeValues[0]"), "constant index into a fixed table (5 / 8 entries)"),
  (("special_attributes.go", "signalSendTypeToDBC", "index", "dbc.SigSendTypeValues[1]"), "constant index into a fixed table (5 / 8 entries)"),
  (("special_attributes.go", "signalSendTypeToDBC", "index", "dbc.SigSendTypeValues[2]"), "constant index into a fixed table (5 / 8 entries)"),
  (("special_attributes.go", "signalSendTypeToDBC", "index", "dbc.SigSendTypeValues[3]"), "constant index into a fixed table (5 / 8 entries)"),
  (("special_attributes.go", "signalSendTypeToDBC", "index", "dbc.SigSendTypeValues[4]"), "constant index into a fixed table (5 / 8 entries)"),
  (("special_attributes.go", "signalSendTypeToDBC", "index", "dbc.SigSendTypeValues[5]"), "constant index into a fixed table (5 / 8 entries)"),
  (("special_attributes.go", "signalSendTypeToDBC", "index", "dbc.SigSendTypeValues[6]"), "constant index into a fixed table (5 / 8 entries)"),
  (("special_attributes.go", "signalSendTypeToDBC", "index", "dbc.SigSendTypeValues[7]"), "constant index into a fixed table (5 / 8 entries)")
]

def iterSites : List (Site × String) := [
  (("attribute.go", "EnumAttribute.Values", "range ea.values.entries()", "unsorted"), "deterministic: every entry is written to its own position"),
  (("bus.go", "Bus.AddNodeInterface", "nodeInterface.sentMessages.getValues()", "unsorted"), "not on an export path: mutator, importer or loader"),
  (("bus.go", "Bus.AddNodeInterface", "range msgStaticCANIDs", "unsorted"), "not on an export path: mutator, importer or loader"),
  (("bus.go", "Bus.NodeInterfaces", "b.nodeInts.getValues()", "sorted: { return int(a.node.id) - int(b.node.id) }"), "deterministic: sorted by node id, unique within a bus (C04)"),
  (("bus.go", "Bus.RemoveAllNodeInterfaces", "range b.nodeInts.entries()", "unsorted"), "not on an export path: mutator, importer or loader"),
  (("bus.go", "Bus.RemoveNodeInterface", "nodeInt.sentMessages.getValues()", "unsorted (used directly)"), "not on an export path: mutator, importer or loader"),
  (("entity.go", "withAttributes.AttributeAssignments", "wa.attAssignments.getValues()", "sorted: { return orCompare(strings.Compare(a.attribute.Name(), b.attribute.Name()), func() int { return compareEntityIDs(a.attribute.EntityID(), b.attribute.EntityID()) }) }"), "deterministic: sorted by a comparator that ends in the entity id (total)"),
  (("entity.go", "withAttributes.RemoveAllAttributeAssignments", "range wa.attAssignments.entries()", "unsorted"), "not on an export path: mutator, importer or loader"),
  (("entity.go", "withRefs.References", "t.refs.getValues()", "unsorted (used directly)"), "not on an export path (C15 covers DBC, Markdown and save exports)"),
  (("exporter.go", "exporter.exportBus", "range e.sigEnums", "collected into sigEnums, sorted: { if res := strings.Compare(a.name, b.name); res != 0 { return res } return strings.Compare(string(a.entityID), string(b.entityID)) }"), "deterministic: sorted by a comparator that ends in the entity id (total)"),
  (("helpers.go", "set.clear", "range s.m", "unsorted"), "primitive: the order is decided by the caller's site"),
  (("helpers.go", "set.getKeys", "range s.m", "unsorted"), "primitive: the order is decided by the caller's site"),
  (("helpers.go", "set.getValues", "range s.m", "unsorted"), "primitive: the order is decided by the caller's site"),
  (("importer.go", "importer.importMessage", "range receivers", "unsorted"), "not on an export path: mutator, importer or loader"),
  (("loader.go", "loader.loadMultiplexerSignal", "range muxedSignals", "unsorted"), "not on an export path: mutator, importer or loader (which unplaced signal an error names)"),
  (("loader.go", "loader.loadMultiplexerSignal", "range sigMap", "unsorted"), "not on an export path: mutator, importer or loader"),
  (("md_exporter.go", "mdExporter.exportNetwork", "maps.Values(e.sigEnums)", "sorted: { return orCompare(strings.Compare(a.name, b.name), func() int { return compareEntityIDs(a.entityID, b.entityID) }) }"), "deterministic: sorted by a comparator that ends in the entity id (total)"),
  (("md_exporter.go", "mdExporter.exportNetwork", "maps.Values(e.sigTypes)", "sorted: { return orCompare(a.size-b.size, func() int { return orCompare(strings.Compare(a.name, b.name), func() int { return compareEntityIDs(a.entityID, b.entityID) }) }) }"), "deterministic: sorted by a comparator that ends in the entity id (total)"),
  (("md_exporter.go", "mdExporter.exportNetwork", "maps.Values(e.sigUnits)", "sorted: { return orCompare(strings.Compare(a.name, b.name), func() int { return compareEntityIDs(a.entityID, b.entityID) }) }"), "deterministic: sorted by a comparator that ends in the entity id (total)"),
  (("message.go", "Message.Receivers", "m.receivers.getValues()", "sorted: { return orCompare(strings.Compare(a.node.name, b.node.name), func() int { return compareEntityIDs(a.node.entityID, b.node.entityID) }) }"), "deterministic: sorted by a comparator that ends in the entity id (total)"),
  (("message.go", "Message.RemoveAllSignals", "range m.signals.entries()", "unsorted"), "not on an export path: mutator, importer or loader"),
  (("message.go", "Message.SetByteOrder", "m.signals.getValues()", "unsorted (used directly)"), "not on an export path: mutator, importer or loader"),
  (("message.go", "Message.SignalNames", "m.signalNames.getKeys()", "unsorted (used directly)"), "not on an export path (C15 covers DBC, Markdown and save exports)"),
  (("message.go", "Message.addSignal", "range muxSig.signalNames.entries()", "unsorted"), "not on an export path: mutator, importer or loader"),
  (("message.go", "Message.addSignal", "range muxSig.signals.entries()", "unsorted"), "not on an export path: mutator, importer or loader"),
  (("message.go", "Message.removeSignal", "muxSig.signalNames.getKeys()", "unsorted (used directly)"), "not on an export path: mutator, importer or loader"),
  (("message.go", "Message.removeSignal", "range muxSig.signals.entries()", "unsorted"), "not on an export path: mutator, importer or loader"),
  (("message.go", "Message.verifyNestedSignalNames", "range muxSig.signals.entries()", "unsorted"), "not on an export path: mutator, importer or loader"),
  (("mux_signal.go", "MultiplexerSignal.ClearAllSignalGroups", "ms.signals.getValues()", "unsorted (used directly)"), "not on an export path: mutator, importer or loader"),
  (("network.go", "Network.Buses", "n.buses.getValues()", "sorted: { return orCompare(strings.Compare(a.name, b.name), func() int { return compareEntityIDs(a.entityID, b.entityID) }) }"), "deterministic: sorted by a comparator that ends in the entity id (total)"),
  (("network.go", "Network.RemoveAllBuses", "range n.buses.entries()", "unsorted"), "not on an export path: mutator, importer or loader"),
  (("node_iterface.go", "NodeInterface.ReceivedMessages", "ni.receivedMessages.getValues()", "sorted: { return orCompare(int(a.id)-int(b.id), func() int { return compareEntityIDs(a.entityID, b.entityID) }) }"), "deterministic: sorted by a comparator that ends in the entity id (total)"),
  (("node_iterface.go", "NodeInterface.RemoveAllReceivedMessages", "range ni.receivedMessages.entries()", "unsorted"), "not on an export path: mutator, importer or loader"),
  (("node_iterface.go", "NodeInterface.RemoveAllSentMessages", "range ni.sentMessages.entries()", "unsorted"), "not on an export path: mutator, importer or loader"),
  (("node_iterface.go", "NodeInterface.SentMessages", "ni.sentMessages.getValues()", "sorted: { return orCompare(int(a.id)-int(b.id), func() int { return compareEntityIDs(a.entityID, b.entityID) }) }"), "deterministic: sorted by a comparator that ends in the entity id (total)"),
  (("saver.go", "saver.saveNetwork", "maps.Values(s.refAttributes)", "sorted: { return orCompare(strings.Compare(a.Name(), b.Name()), func() int { return compareEntityIDs(a.EntityID(), b.EntityID()) }) }"), "deterministic: sorted by a comparator that ends in the entity id (total)"),
  (("saver.go", "saver.saveNetwork", "maps.Values(s.refCANIDBuilders)", "sorted: { return orCompare(strings.Compare(a.name, b.name), func() int { return compareEntityIDs(a.entityID, b.entityID) }) }"), "deterministic: sorted by a comparator that ends in the entity id (total)"),
  (("saver.go", "saver.saveNetwork", "maps.Values(s.refNodes)", "sorted: { return orCompare(cmp.Compare(a.id, b.id), func() int { return compareEntityIDs(a.entityID, b.entityID) }) }"), "deterministic: sorted by a comparator that ends in the entity id (total)"),
  (("saver.go", "saver.saveNetwork", "maps.Values(s.refSigEnums)", "sorted: { return orCompare(strings.Compare(a.name, b.name), func() int { return compareEntityIDs(a.entityID, b.entityID) }) }"), "deterministic: sorted by a comparator that ends in the entity id (total)"),
  (("saver.go", "saver.saveNetwork", "maps.Values(s.refSigTypes)", "sorted: { return orCompare(strings.Compare(a.name, b.name), func() int { return compareEntityIDs(a.entityID, b.entityID) }) }"), "deterministic: sorted by a comparator that ends in the entity id (total)"),
  (("saver.go", "saver.saveNetwork", "maps.Values(s.refSigUnits)", "sorted: { return orCompare(strings.Compare(a.name, b.name), func() int { return compareEntityIDs(a.entityID, b.entityID) }) }"), "deterministic: sorted by a comparator that ends in the entity id (total)"),
  (("signal_enum.go", "SignalEnum.Clone", "se.values.getValues()", "unsorted (used directly)"), "not on an export path (C15 covers DBC, Markdown and save exports)"),
  (("signal_enum.go", "SignalEnum.RemoveAllValues", "range se.values.entries()", "unsorted"), "not on an export path: mutator, importer or loader"),
  (("signal_enum.go", "SignalEnum.Values", "se.values.getValues()", "sorted: { return a.index - b.index }"), "deterministic: sorted by index, unique within an enum (C04)"),
  (("signal_enum.go", "SignalEnum.errorf", "se.refs.getValues()", "unsorted (used directly)"), "not on an export path (C15 covers DBC, Markdown and save exports)"),
  (("signal_enum.go", "SignalEnum.getMaxIndexWith", "range se.values.entries()", "unsorted"), "not on an export path: mutator, importer or loader"),
  (("signal_enum.go", "SignalEnum.modifySize", "range se.refs.entries()", "unsorted"), "not on an export path: mutator, importer or loader"),
  (("signal_enum.go", "SignalEnum.regenerateFilters", "range se.refs.entries()", "unsorted"), "not on an export path: mutator, importer or loader"),
  (("signal_enum.go", "SignalEnum.setMaxIndex", "range se.values.entries()", "unsorted"), "not on an export path: mutator, importer or loader"),
  (("signal_enum.go", "SignalEnum.verifySize", "range se.refs.entries()", "unsorted"), "not on an export path: mutator, importer or loader"),
  (("signal_layout.go", "SignalLayout.decodeEnumSignal", "range sigEnum.values.entries()", "unsorted"), "deterministic: at most one entry matches (indexes unique, C04)"),
  (("utils.go", "CalculateBusLoad", "bus.nodeInts.getValues()", "unsorted (used directly)"), "not on an export path (C15 covers DBC, Markdown and save exports)"),
  (("utils.go", "CalculateBusLoad", "tmpInt.sentMessages.getValues()", "unsorted (used directly)"), "not on an export path (C15 covers DBC, Markdown and save exports)")
]

def storeSites : List (Site × String) := [
  (("canid_builder.go", "CANIDBuilder.Operations", "hands-out-slice", "CANIDBuilder.operations | unconditional"), "handed out for reading: no function reachable from the read-only API appends to, sorts in place or stores through the result of this getter (such a write would be listed here as append-to-listing / in-place-sort-of-listing / store-through-listing); the mutators that change the field are outside the read-only API"),
  (("message.go", "Message.Signals", "hands-out-slice", "SignalLayout.signals | unconditional"), "handed out for reading: no function reachable from the read-only API appends to, sorts in place or stores through the result of this getter (such a write would be listed here as append-to-listing / in-place-sort-of-listing / store-through-listing); the mutators that change the field are outside the read-only API"),
  (("mux_signal.go", "MultiplexerSignal.GetSignalGroup", "hands-out-slice", "SignalLayout.signals | unconditional"), "handed out for reading: no function reachable from the read-only API appends to, sorts in place or stores through the result of this getter (such a write would be listed here as append-to-listing / in-place-sort-of-listing / store-through-listing); the mutators that change the field are outside the read-only API"),
  (("node.go", "Node.Interfaces", "hands-out-slice", "Node.interfaces | unconditional"), "handed out for reading: no function reachable from the read-only API appends to, sorts in place or stores through the result of this getter (such a write would be listed here as append-to-listing / in-place-sort-of-listing / store-through-listing); the mutators that change the field are outside the read-only API"),
  (("node.go", "Node.errorf", "store", "Node.intErrNum | if len(n.interfaces) > 0 && n.intErrNum >= 0"), "guarded: executed only when intErrNum >= 0, which holds only between the assignment and this reset inside Node.UpdateName (a mutator)"),
  (("signal_enum.go", "SignalEnum.errorf", "store", "SignalEnum.parErrID | if se.refs.size() > 0 && se.parErrID != \"\""), "guarded: executed only when parErrID != \"\", which holds only between a failed verifySize and this reset inside a mutator"),
  (("signal_layout.go", "SignalLayout.Filters", "hands-out-slice", "SignalLayout.filters | unconditional"), "handed out for reading: no function reachable from the read-only API appends to, sorts in place or stores through the result of this getter (such a write would be listed here as append-to-listing / in-place-sort-of-listing / store-through-listing); the mutators that change the field are outside the read-only API")
]

/-- functions of the model files in which an error return is reachable after a mutation of model
    memory (the error of the mutating call itself excluded; the two error side channels excluded) -/
def atomicSites : List (Site × String) := [
  (("mux_signal.go", "MultiplexerSignal.modifySignalSize", "error-after-mutation", "call SignalLayout.modifyStartBitsOnGrow -> return modifyStartBitsOnShrink(..)"), "KNOWN FINDING D73: the groups are modified one by one, a later group can fail after earlier ones were changed; verified up-front by verifySignalSizeAmount for every group of the RESIZED signal, so the error is reachable only from states already corrupted by D35 / D73 (C07_err_unchanged holds on admissible reachable states)"),
  (("node.go", "Node.RemoveInterface", "error-after-mutation", "store NodeInterface.number -> return RemoveNodeInterface(..)"), "unreachable: interface numbers are distinct and renumbering starts only AFTER the one match (found), so the detaching call - the only error - always precedes every `number--`; the model's nodeRemoveIface detaches first (C06g_cause_iff_nodeRemoveIface)")
]

end Acme.Expect
