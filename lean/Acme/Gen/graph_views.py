# generator of the view definitions (Spec) and their lemmas (Proofs)
VIEWS = [
 # name, AMap elem type, proj, result type, shape (some|opt|dflt), default
 ("netBuses","NetE","buses","Reg Nat","dflt","[]"),
 ("netBusNames","NetE","busNames","Reg String","dflt","[]"),
 ("busName","BusE","name","Option String","some",None),
 ("busParent","BusE","parent","Option Nat","opt",None),
 ("busBuilder","BusE","builder","Option Nat","opt",None),
 ("busNodeInts","BusE","nodeInts","Reg Nat","dflt","[]"),
 ("busNodeNames","BusE","nodeNames","Reg String","dflt","[]"),
 ("busNodeIDs","BusE","nodeIDs","Reg Nat","dflt","[]"),
 ("busStaticIDs","BusE","staticIDs","Reg Nat","dflt","[]"),
 ("busAttrs","BusE","attrs","Reg Nat","dflt","[]"),
 ("nodeNameC","NodeE","name","String","dflt",'""'),
 ("nodeNidC","NodeE","nid","Nat","dflt","0"),
 ("nodeIfaces","NodeE","ifaces","List Nat","dflt","[]"),
 ("nodeIfaceCount","NodeE","ifaceCount","Int","dflt","0"),
 ("nodeAttrs","NodeE","attrs","Reg Nat","dflt","[]"),
 ("ifaceNode","IfaceE","node","Option Nat","some",None),
 ("ifaceNumber","IfaceE","number","Int","dflt","0"),
 ("ifaceBus","IfaceE","parentBus","Option Nat","opt",None),
 ("ifaceSent","IfaceE","sent","Reg Nat","dflt","[]"),
 ("ifaceSentNames","IfaceE","sentNames","Reg String","dflt","[]"),
 ("ifaceSentIDs","IfaceE","sentIDs","Reg Nat","dflt","[]"),
 ("ifaceSentStatic","IfaceE","sentStatic","Reg Nat","dflt","[]"),
 ("ifaceRecv","IfaceE","received","Reg Nat","dflt","[]"),
 ("msgName","MsgE","name","Option String","some",None),
 ("msgMid","MsgE","mid","Option Nat","some",None),
 ("msgStatic","MsgE","static","Option Nat","opt",None),
 ("msgSender","MsgE","sender","Option Nat","opt",None),
 ("msgReceivers","MsgE","receivers","Reg Nat","dflt","[]"),
 ("msgAttrs","MsgE","attrs","Reg Nat","dflt","[]"),
 ("builderRefs","BuilderE","refs","List Nat","dflt","[]"),
 ("attrRefs","AttrE","refs","List Nat","dflt","[]"),
 ("defRefs","DefE","refs","List Nat","dflt","[]"),
 ("sigTyp","SigE","typ","Option Nat","some",None),
 ("sigUnit","SigE","unit","Option Nat","opt",None),
 ("sigAttrs","SigE","attrs","Reg Nat","dflt","[]"),
]
def shape(sh,proj,e,d):
    if sh=="some": return f"some {e}.{proj}"
    return f"{e}.{proj}"
def defs():
    out=[]
    for (v,T,p,R,sh,d) in VIEWS:
        none = "none" if sh in("some","opt") else d
        out.append(f"def {v} (m : AMap {T}) (k : Nat) : {R} :=\n  match m.get k with | some e => {shape(sh,p,'e',d)} | none => {none}\n")
    return "\n".join(out)
def lemmas():
    out=[]
    for (v,T,p,R,sh,d) in VIEWS:
        none = "none" if sh in("some","opt") else d
        out.append(f"""@[simp, grind =] theorem {v}_set (m : AMap {T}) (x : Nat) (e : {T}) (k : Nat) :
    {v} (m.set x e) k = if k = x then {shape(sh,p,'e',d)} else {v} m k := by
  unfold {v}; rw [AMap.get_set]; by_cases hk : k = x <;> simp [hk]
@[grind →] theorem {v}_of_get {{m : AMap {T}}} {{k : Nat}} {{e : {T}}} (h : m.get k = some e) :
    {v} m k = {shape(sh,p,'e',d)} := by unfold {v}; rw [h]
@[grind →] theorem {v}_of_none {{m : AMap {T}}} {{k : Nat}} (h : m.get k = none) :
    {v} m k = {none} := by unfold {v}; rw [h]
theorem {v}_set_same {{m : AMap {T}}} {{x : Nat}} {{e e' : {T}}} (h : m.get x = some e) (hp : e'.{p} = e.{p}) :
    {v} (m.set x e') = {v} m := by
  funext k; rw [{v}_set]; by_cases hk : k = x
  · subst hk; simp [{v}_of_get h, hp]
  · simp [hk]
""")
        out.append(f"""theorem {v}_set_keep {{m : AMap {T}}} {{x : Nat}} {{e' : {T}}}
    (h : match m.get x with | some e => e'.{p} = e.{p} | none => False) : {v} (m.set x e') = {v} m := by
  cases hm : m.get x with
  | none => rw [hm] at h; exact absurd h id
  | some e => rw [hm] at h; exact {v}_set_same hm h
""")
        if sh in ("some",):
            out.append(f"""@[grind →] theorem {v}_some_get {{m : AMap {T}}} {{k : Nat}} {{v}} (h : {v} m k = some v) : m.get k ≠ none := by
  unfold {v} at h; intro hn; rw [hn] at h; cases h
@[grind =] theorem {v}_eq_none {{m : AMap {T}}} {{k : Nat}} : ({v} m k = none) = (m.get k = none) := by
  unfold {v}; cases m.get k <;> simp
""")
        if sh in ("opt",):
            out.append(f"""@[grind →] theorem {v}_some_get {{m : AMap {T}}} {{k : Nat}} {{v}} (h : {v} m k = some v) : m.get k ≠ none := by
  unfold {v} at h; intro hn; rw [hn] at h; cases h
""")
    return "\n".join(out)

def maplemmas():
    out=[]
    for (v,T,p,R,sh,d) in VIEWS:
        none = "none" if sh in("some","opt") else d
        out.append(f"""theorem {v}_map {{m m' : AMap {T}}} {{f : Nat → {T} → {T}}} (h : ∀ k, m'.get k = (m.get k).map (f k)) (k : Nat) :
    {v} m' k = match m.get k with | some e => {shape(sh,p,'(f k e)',d)} | none => {none} := by
  unfold {v}; rw [h]; cases m.get k <;> rfl
theorem {v}_map_same {{m m' : AMap {T}}} {{f : Nat → {T} → {T}}} (h : ∀ k, m'.get k = (m.get k).map (f k))
    (hp : ∀ k e, (f k e).{p} = e.{p}) : {v} m' = {v} m := by
  funext k; unfold {v}; rw [h]; cases m.get k <;> simp [hp]
""")
    return "\n".join(out)
if __name__=="__main__":
    import sys
    print({"defs":defs,"lemmas":lemmas,"maps":maplemmas}[sys.argv[1]]())
