import sys
sys.path.insert(0,'/verif/lean/Acme/Gen')
from graph_views import VIEWS, shape
# helper: (name, elemType, binders, call, getlemma, side hyps (binder text), side args, f-expr (fun k e => ...), changed: {proj: new-expr in terms of e (record) and k})
HELPERS = [
 ("clearBusParents","BusE","(B : AMap BusE) (l : List Nat)","clearBusParents B l","clearBusParents_get B l","", "B",
    "fun k e => if k ∈ l then { e with parent := none } else e", {"parent":"if k ∈ l then none else {old}"}),
 ("clearIfaceBus","IfaceE","(I : AMap IfaceE) (l : List Nat)","clearIfaceBus I l","clearIfaceBus_get I l","", "I",
    "fun k e => if k ∈ l then { e with parentBus := none } else e", {"parentBus":"if k ∈ l then none else {old}"}),
 ("clearSenders","MsgE","(M : AMap MsgE) (l : List Nat)","clearSenders M l","clearSenders_get M l","", "M",
    "fun k e => if k ∈ l then { e with sender := none } else e", {"sender":"if k ∈ l then none else {old}"}),
 ("dropReceiver","MsgE","(M : AMap MsgE) (nd : Nat) (l : List Nat)","dropReceiver M nd l","dropReceiver_get M nd l","", "M",
    "fun k e => if k ∈ l then { e with receivers := e.receivers.remove nd } else e", {"receivers":"if k ∈ l then ({old}).remove nd else {old}"}),
 ("dropAttrRefs","AttrE","(A : AMap AttrE) (x : Nat) (l : List Nat)","dropAttrRefs A x l","dropAttrRefs_get A x l","", "A",
    "fun k e => if k ∈ l then { e with refs := eraseRef e.refs x } else e", {"refs":"if k ∈ l then eraseRef ({old}) x else {old}"}),
 ("renameNodeInBuses","BusE","(B : AMap BusE) (old new : String) (n : Nat) (l : List Nat) (hl : l.Nodup)","renameNodeInBuses B old new n l","renameNodeInBuses_get B old new n l hl","", "B",
    "fun k e => if k ∈ l then { e with nodeNames := (e.nodeNames.remove old).add new n } else e", {"nodeNames":"if k ∈ l ∧ B.get k ≠ none then (({old}).remove old).add new n else {old}"}),
 ("renumberNodeInBuses","BusE","(B : AMap BusE) (old new : Nat) (n : Nat) (l : List Nat) (hl : l.Nodup)","renumberNodeInBuses B old new n l","renumberNodeInBuses_get B old new n l hl","", "B",
    "fun k e => if k ∈ l then { e with nodeIDs := (e.nodeIDs.remove old).add new n } else e", {"nodeIDs":"if k ∈ l ∧ B.get k ≠ none then (({old}).remove old).add new n else {old}"}),
 ("updStatic","BusE","(B : AMap BusE) (pb : Option Nat) (f : Reg Nat → Reg Nat)","updStatic B pb f","updStatic_get B pb f","", "B",
    "fun k e => if pb = some k then { e with staticIDs := f e.staticIDs } else e", {"staticIDs":"if pb = some k ∧ B.get k ≠ none then f ({old}) else {old}"}),
 ("dropBuilderRef","BuilderE","(C : AMap BuilderE) (o : Option Nat) (x : Nat)","dropBuilderRef C o x","dropBuilderRef_get C o x","", "C",
    "fun k e => if o = some k then { e with refs := eraseRef e.refs x } else e", {"refs":"if o = some k then eraseRef ({old}) x else {old}"}),
 ("dropDefRef","DefE","(T : AMap DefE) (o : Option Nat) (x : Nat)","dropDefRef T o x","dropDefRef_get T o x","", "T",
    "fun k e => if o = some k then { e with refs := eraseRef e.refs x } else e", {"refs":"if o = some k then eraseRef ({old}) x else {old}"}),
 ("renumber","IfaceE","(I : AMap IfaceE) (c : Int) (l : List Nat) (hl : l.Nodup)","renumber I c l","renumber_get I c l hl","", "I",
    "fun k e => if k ∈ l ∧ e.number > c then { e with number := e.number - 1 } else e", {"number":"if k ∈ l ∧ I.get k ≠ none ∧ {old} > c then {old} - 1 else {old}"}),
]
def gen():
    out=[]
    for (h,T,binders,call,getl,_,m,f,changed) in HELPERS:
        out.append(f"/-! views of `{h}` -/\n")
        out.append(f"""theorem {h}_get_none {binders} (k : Nat) : ({call}).get k = none ↔ {m}.get k = none := by
  rw [{getl}]; cases {m}.get k <;> simp
""")
        for (v,VT,p,R,sh,d) in VIEWS:
            if VT!=T: continue
            if p in changed:
                old=f"{v} {m} k"
                new=changed[p].replace("{old}",old)
                out.append(f"""@[simp, grind =] theorem {h}_{v} {binders} (k : Nat) :
    {v} ({call}) k = {new} := by
  unfold {v}; rw [{getl}]
  cases {m}.get k with
  | none => simp <;> (intros; rfl)
  | some e => simp only [Option.map_some]; split <;> simp_all <;> grind
""")
            else:
                out.append(f"""@[simp, grind =] theorem {h}_{v} {binders} (k : Nat) :
    {v} ({call}) k = {v} {m} k := by
  unfold {v}; rw [{getl}]
  cases {m}.get k with
  | none => rfl
  | some e => simp only [Option.map_some]; split <;> rfl
""")
    return "\n".join(out)
if __name__=="__main__":
    print(gen())
