/-
Attributes in the DBC exporter and importer (properties C10 / C11):

  exporter.go : exportAttributeAssignment, exportAttribute, and the attribute parts of exportBus,
                exportNodeInterfaces, exportMessage, exportSignal (the four name sets that decide
                when a definition is emitted, the well-known attributes appended to the sorted
                assignments of a message / signal)
  importer.go : importAttributes, getDefaultInt, getDefaultFloat, floatToInt
  special_attributes.go : the six well-known attributes and the send-type tables (Acme.Conv)
  attribute.go / entity.go : NewIntegerAttribute / NewFloatAttribute / NewEnumAttribute
                validation, withAttributes.addAttributeAssignment (value validation),
                AttributeAssignments (sorted by attribute name)

BOTH sides are compared at the level of the DBC document (`dbc.File`, hooks VerifExportAST /
VerifImportAST); the text level is the job of the DBC token model.

Numbers.  Go `int` values are `Int` (the harness stays inside int64; `uint32(x)` conversions of
the exporter are `u32`).  A `float64` is the EXACT RATIONAL it denotes (`Rat`, never `Float`);
NaN and the infinities are outside the model.  `float64(int)` is `roundF64` (round to nearest,
ties to even, 53 bits).

Names are the names after `clearSpaces` (the generator of stream `attr` never writes a blank;
names and strings outside the DBC grammar are a known exclusion, D79 / D80).

Entities.  The attribute code does not care how nodes, messages and signals hang together: it
only needs to know which of them exist.  `Key` names an entity the way the importer looks it
up (node name, message id, message id + signal name); a model attribute set lists its entities
in the order in which the exporter walks them (node, its messages, each followed by its
signals, next node …).
-/
import Acme.Core.Conv

namespace Acme.Attr
open Acme.Conv

/-! ## the model side (what the public API holds) -/

/-- the four attribute types of attribute.go with their default value (and bounds / hex flag /
    value list).  For an enum the values are the de-duplicated list of `NewEnumAttribute`. -/
inductive AttrType where
  | str (dflt : String)
  | int (dflt min max : Int) (hex : Bool)
  | float (dflt min max : Rat)
  | enum (values : List String) (dflt : String)
  deriving Repr, DecidableEq, Inhabited

structure AttrDef where
  name : String
  ty : AttrType
  deriving Repr, DecidableEq, Inhabited

/-- the `any` value of an assignment: Go `string` (string and enum attributes), `int`, `float64` -/
inductive Val where
  | str (s : String)
  | int (i : Int)
  | float (q : Rat)
  deriving Repr, DecidableEq, Inhabited

/-- `AttributeAssignment` seen from its entity: the attribute and the value -/
structure Asg where
  att : AttrDef
  val : Val
  deriving Repr, DecidableEq, Inhabited

/-- dedicated fields of a message -/
structure MsgF where
  cycle : Int := 0
  delay : Int := 0
  startDelay : Int := 0
  send : MsgSend := .unset
  deriving Repr, DecidableEq, Inhabited

/-- dedicated fields of a signal -/
structure SigF where
  start : Rat := 0
  send : SigSend := .unset
  deriving Repr, DecidableEq, Inhabited

/-- how the importer finds an entity (`bus`: the bus itself, always there) -/
inductive Key where
  | bus
  | node (name : String)
  | msg (id : Nat)
  | sig (id : Nat) (name : String)
  deriving Repr, DecidableEq, Inhabited

inductive Ent where
  | node (name : String) (asgs : List Asg)
  | msg (id : Nat) (f : MsgF) (asgs : List Asg)
  | sig (id : Nat) (name : String) (f : SigF) (asgs : List Asg)
  deriving Repr, DecidableEq, Inhabited

def Ent.key : Ent → Key
  | .node n _ => .node n
  | .msg id _ _ => .msg id
  | .sig id n _ _ => .sig id n

def Ent.asgs : Ent → List Asg
  | .node _ a => a
  | .msg _ _ a => a
  | .sig _ _ _ a => a

/-- the attribute assignments of the bus and of the entities (in the exporter's walking order) -/
structure ModelAttrs where
  bus : List Asg
  ents : List Ent
  deriving Repr, DecidableEq, Inhabited

/-! ## the file side (dbc.Attribute / AttributeDefault / AttributeValue) -/

/-- `dbc.AttributeKind` -/
inductive Kind where
  | general | node | message | signal | envVar
  deriving Repr, DecidableEq, Inhabited

/-- `dbc.AttributeType` with the fields that belong to it -/
inductive DType where
  | int (min max : Int)
  | hex (min max : Nat)
  | float (min max : Rat)
  | string
  | enum (values : List String)
  deriving Repr, DecidableEq, Inhabited

/-- `BA_DEF_` -/
structure DAttr where
  kind : Kind
  name : String
  ty : DType
  deriving Repr, DecidableEq, Inhabited

/-- the way a default / a value is written: `dbc.AttributeDefaultType` / `AttributeValueType`
    with the one field that is set -/
inductive DVal where
  | int (i : Int)
  | hex (h : Nat)
  | float (q : Rat)
  | str (s : String)
  deriving Repr, DecidableEq, Inhabited

/-- `BA_DEF_DEF_` -/
structure DDefault where
  name : String
  val : DVal
  deriving Repr, DecidableEq, Inhabited

/-- object part of a `BA_` line: `AttributeKind` with NodeName / MessageID / SignalName / EnvVarName -/
inductive Target where
  | general
  | node (name : String)
  | msg (id : Nat)
  | sig (id : Nat) (name : String)
  | envVar (name : String)
  deriving Repr, DecidableEq, Inhabited

/-- `BA_` -/
structure DValue where
  name : String
  target : Target
  val : DVal
  deriving Repr, DecidableEq, Inhabited

/-- attribute sections of a `dbc.File` plus the entities the rest of the file declares -/
structure DbcAttrs where
  keys : List Key
  defs : List DAttr
  defaults : List DDefault
  values : List DValue
  deriving Repr, DecidableEq, Inhabited

/-! ## shared pieces -/

/-- insertion of an assignment into a list sorted by attribute name (`strings.Compare`) -/
def insAsg (x : Asg) : List Asg → List Asg
  | [] => [x]
  | y :: r => if x.att.name ≤ y.att.name then x :: y :: r else y :: insAsg x r

/-- `AttributeAssignments()`: sorted by attribute name (equal names: by entity id, which the
    model does not have — `AttrWF` and the generator keep the names of one entity distinct) -/
def sortAsgs : List Asg → List Asg
  | [] => []
  | x :: r => insAsg x (sortAsgs r)

def msgSendValues : List String :=
  ["NoMsgSendType", "Cyclic", "CyclicIfActive", "CyclicAndTriggered", "CyclicIfActiveAndTriggered"]

def sigSendValues : List String :=
  ["NoSigSendType", "Cyclic", "OnWrite", "OnWriteWithRepetition", "OnChange",
   "OnChangeWithRepetition", "IfActive", "IfActiveWithRepetition"]

/-- special_attributes.go: the attribute objects the exporter uses for the dedicated fields -/
def msgCycleTimeAtt : AttrDef := ⟨"GenMsgCycleTime", .int 0 0 3600000 false⟩
def msgDelayTimeAtt : AttrDef := ⟨"GenMsgDelayTime", .int 0 0 1000 false⟩
def msgStartDelayTimeAtt : AttrDef := ⟨"GenMsgStartDelayTime", .int 0 0 100000 false⟩
def msgSendTypeAtt : AttrDef := ⟨"GenMsgSendType", .enum msgSendValues "NoMsgSendType"⟩
def sigStartValueAtt : AttrDef := ⟨"GenSigStartValue", .float 0 0 10000⟩
def sigSendTypeAtt : AttrDef := ⟨"GenSigSendType", .enum sigSendValues "NoSigSendType"⟩

/-- `specialAttributeTypes` -/
inductive Special where
  | msgCycleTime | msgDelayTime | msgStartDelayTime | msgSendType | sigStartValue | sigSendType
  deriving Repr, DecidableEq, Inhabited

def special? (name : String) : Option Special :=
  if name = "GenMsgCycleTime" then some .msgCycleTime
  else if name = "GenMsgDelayTime" then some .msgDelayTime
  else if name = "GenMsgStartDelayTime" then some .msgStartDelayTime
  else if name = "GenMsgSendType" then some .msgSendType
  else if name = "GenSigStartValue" then some .sigStartValue
  else if name = "GenSigSendType" then some .sigSendType
  else none

/-! ## exporter -/

/-- Go `uint32(x)` of an `int` -/
def u32 (i : Int) : Nat := (i % 4294967296).toNat

/-- `exportsAsHex`: an integer attribute is written with the HEX type when it has the hex format
    AND its range fits unsigned 32 bit; otherwise it is written as a plain INT attribute (the hex
    format flag is then the only thing the file does not carry) -/
def exportsAsHex (hex : Bool) (mn mx : Int) : Bool := hex && decide (0 ≤ mn) && decide (mx ≤ 4294967295)

/-- `exportAttribute`: the definition and its default -/
def exportDef (k : Kind) (a : AttrDef) : DAttr × DDefault :=
  match a.ty with
  | .str d => (⟨k, a.name, .string⟩, ⟨a.name, .str d⟩)
  | .int d mn mx hex =>
    if exportsAsHex hex mn mx then (⟨k, a.name, .hex (u32 mn) (u32 mx)⟩, ⟨a.name, .hex (u32 d)⟩)
    else (⟨k, a.name, .int mn mx⟩, ⟨a.name, .int d⟩)
  | .float d mn mx => (⟨k, a.name, .float mn mx⟩, ⟨a.name, .float d⟩)
  | .enum vs d => (⟨k, a.name, .enum vs⟩, ⟨a.name, .str d⟩)

/-- `exportAttributeAssignment`, the value: by the TYPE of the attribute.  The last row is not
    reachable through the public API (`AssignAttribute` validates; the Go code would fail a type
    assertion). -/
def exportVal : AttrType → Val → DVal
  | .str _, .str s => .str s
  | .int _ mn mx hex, .int i => if exportsAsHex hex mn mx then .hex (u32 i) else .int i
  | .float _ _ _, .float q => .float q
  | .enum vs _, .str s => .int (enumIndex vs s)
  | _, _ => .str ""

def msgSpecials (f : MsgF) : List Asg :=
  (if f.cycle ≠ 0 then [⟨msgCycleTimeAtt, .int f.cycle⟩] else []) ++
  (if f.delay ≠ 0 then [⟨msgDelayTimeAtt, .int f.delay⟩] else []) ++
  (if f.startDelay ≠ 0 then [⟨msgStartDelayTimeAtt, .int f.startDelay⟩] else []) ++
  (if f.send ≠ .unset then [⟨msgSendTypeAtt, .str (msgSendToDBC f.send)⟩] else [])

def sigSpecials (f : SigF) : List Asg :=
  (if f.start ≠ 0 then [⟨sigStartValueAtt, .float f.start⟩] else []) ++
  (if f.send ≠ .unset then [⟨sigSendTypeAtt, .str (sigSendToDBC f.send)⟩] else [])

/-- one exported assignment: the kind of its entity, the object part of the `BA_` line -/
structure Item where
  kind : Kind
  target : Target
  asg : Asg
  deriving Repr, DecidableEq, Inhabited

/-- the assignments the exporter writes for an entity, in its order: the sorted assignments,
    then the dedicated fields that are set -/
def entItems : Ent → List Item
  | .node n asgs => (sortAsgs asgs).map (⟨.node, .node n, ·⟩)
  | .msg id f asgs => (sortAsgs asgs ++ msgSpecials f).map (⟨.message, .msg id, ·⟩)
  | .sig id n f asgs => (sortAsgs asgs ++ sigSpecials f).map (⟨.signal, .sig id n, ·⟩)

def busItems (asgs : List Asg) : List Item := (sortAsgs asgs).map (⟨.general, .general, ·⟩)

def items (A : ModelAttrs) : List Item := busItems A.bus ++ A.ents.flatMap entItems

/-- a definition (with its default) is written when the attribute NAME is met for the first time
    under an object kind (`attNames`, `nodeAttNames`, `msgAttNames`, `sigAttNames`) -/
def emitDefs (seen : List (Kind × String)) : List Item → List (DAttr × DDefault)
  | [] => []
  | it :: r =>
    if seen.contains (it.kind, it.asg.att.name) then emitDefs seen r
    else exportDef it.kind it.asg.att :: emitDefs ((it.kind, it.asg.att.name) :: seen) r

def exportItem (it : Item) : DValue := ⟨it.asg.att.name, it.target, exportVal it.asg.att.ty it.asg.val⟩

def exportAttrs (A : ModelAttrs) : DbcAttrs :=
  let its := items A
  let ds := emitDefs [] its
  { keys := A.ents.map Ent.key, defs := ds.map (·.1), defaults := ds.map (·.2),
    values := its.map exportItem }

/-! ## importer -/

/-- error causes as far as `errors.Is` / `errors.As` tell them apart -/
inductive ImpErr where
  | defaultRequired     -- ErrIsRequired "attribute default"
  | invalidType         -- AttributeValueError / ErrInvalidType
  | minGreaterThanMax   -- ArgumentError "min" / ErrGreaterThen
  | defGreaterThanMax   -- ArgumentError "defValue" / ErrGreaterThen
  | defLowerThanMin     -- ArgumentError "defValue" / ErrLowerThen
  | valuesNil           -- ArgumentError "values" / ErrIsNil
  | indexNegative       -- ValueIndexError / ErrIsNegative
  | indexOutOfBounds    -- ValueIndexError / ErrOutOfBounds
  | outOfBounds         -- AttributeValueError / ErrOutOfBounds
  | notFound            -- AttributeValueError / ErrNotFound
  deriving Repr, DecidableEq, Inhabited

/-- `floatToInt`: integral and inside the int range -/
def floatToInt (q : Rat) : Option Int :=
  if q.den = 1 ∧ -9223372036854775808 ≤ q.num ∧ q.num < 9223372036854775808 then some q.num else none

/-- round a natural number to 53 significant bits, ties to even -/
def roundNat53 (n : Nat) : Nat :=
  let bits := if n = 0 then 0 else Nat.log2 n + 1
  if bits ≤ 53 then n
  else
    let e := bits - 53
    let q := n / 2 ^ e
    let r := n % 2 ^ e
    let half := 2 ^ (e - 1)
    let q' := if r > half ∨ (r = half ∧ q % 2 = 1) then q + 1 else q
    q' * 2 ^ e

/-- `float64(i)` of an int64 -/
def roundF64 (i : Int) : Rat :=
  if i < 0 then -((roundNat53 i.natAbs : Nat) : Rat) else ((roundNat53 i.natAbs : Nat) : Rat)

/-- `getDefaultInt` (a default written as a string leaves `ValueInt` zero) -/
def defaultInt : DVal → Option Int
  | .hex h => some h
  | .float q => floatToInt q
  | .int i => some i
  | .str _ => some 0

/-- `getDefaultFloat` -/
def defaultFloat : DVal → Rat
  | .int i => roundF64 i
  | .hex h => (h : Rat)
  | .float q => q
  | .str _ => 0

/-- `ValueString` of a default -/
def defaultString : DVal → String
  | .str s => s
  | _ => ""

/-- `newIntegerAttributeFromBase` -/
def newInt (name : String) (d mn mx : Int) (hex : Bool) : Except ImpErr AttrDef :=
  if mn > mx then .error .minGreaterThanMax
  else if d > mx then .error .defGreaterThanMax
  else if d < mn then .error .defLowerThanMin
  else .ok ⟨name, .int d mn mx hex⟩

/-- `newFloatAttributeFromBase` -/
def newFloat (name : String) (d mn mx : Rat) : Except ImpErr AttrDef :=
  if mn > mx then .error .minGreaterThanMax
  else if d > mx then .error .defGreaterThanMax
  else if d < mn then .error .defLowerThanMin
  else .ok ⟨name, .float d mn mx⟩

/-- the value set of `newEnumAttributeFromBase`: first occurrences, in order -/
def dedupAux (seen : List String) : List String → List String
  | [] => []
  | a :: r => if seen.contains a then dedupAux seen r else a :: dedupAux (a :: seen) r

def dedup (l : List String) : List String := dedupAux [] l

/-- `newEnumAttributeFromBase`: the default is the first value -/
def newEnum (name : String) (values : List String) : Except ImpErr AttrDef :=
  match values with
  | [] => .error .valuesNil
  | v :: _ => .ok ⟨name, .enum (dedup values) v⟩

/-- an imported attribute with the value list as the FILE states it (enum only; an index of a
    `BA_` line refers to this list, in which a value can be repeated) -/
structure Entry where
  att : AttrDef
  fileValues : List String
  deriving Repr, DecidableEq, Inhabited

/-- `dbcAttDefMap[name]`: the LAST default with the name -/
def lookupDefault (defaults : List DDefault) (name : String) : Option DDefault :=
  defaults.reverse.find? (·.name = name)

/-- first loop of `importAttributes` for one definition (its `Kind` is never read) -/
def importDef (defaults : List DDefault) (a : DAttr) : Except ImpErr Entry :=
  match lookupDefault defaults a.name with
  | none => .error .defaultRequired
  | some dd =>
    match a.ty with
    | .string => .ok ⟨⟨a.name, .str (defaultString dd.val)⟩, []⟩
    | .int mn mx =>
      match defaultInt dd.val with
      | none => .error .invalidType
      | some d => (newInt a.name d mn mx false).map (⟨·, []⟩)
    | .hex mn mx =>
      match defaultInt dd.val with
      | none => .error .invalidType
      | some d => (newInt a.name d mn mx true).map (⟨·, []⟩)
    | .float mn mx => (newFloat a.name (defaultFloat dd.val) mn mx).map (⟨·, []⟩)
    | .enum vs => (newEnum a.name vs).map (⟨·, vs⟩)

/-- `attributes[name]`: the LAST definition with the name -/
def lookupEntry (table : List Entry) (name : String) : Option Entry :=
  table.reverse.find? (·.att.name = name)

/-- the typing table value form × attribute type → the Go value handed to `AssignAttribute`
    (or to the dedicated field) -/
def resolveVal (e : Entry) : DVal → Except ImpErr Val
  | .str s => .ok (.str s)
  | .int i =>
    match e.att.ty with
    | .enum _ _ =>
      match enumValueAt e.fileValues i with
      | some s => .ok (.str s)
      | none => if i < 0 then .error .indexNegative else .error .indexOutOfBounds
    | .float _ _ _ => .ok (.float (roundF64 i))
    | _ => .ok (.int i)
  | .hex h =>
    match e.att.ty with
    | .float _ _ _ => .ok (.float (h : Rat))
    | _ => .ok (.int h)
  | .float q =>
    match e.att.ty with
    | .int _ _ _ _ =>
      match floatToInt q with
      | some i => .ok (.int i)
      | none => .error .invalidType
    | _ => .ok (.float q)

/-- `withAttributes.addAttributeAssignment`: the validation -/
def checkAssign : AttrType → Val → Except ImpErr Unit
  | .int _ mn mx _, .int i => if i < mn ∨ i > mx then .error .outOfBounds else .ok ()
  | _, .int _ => .error .invalidType
  | .float _ mn mx, .float q => if q < mn ∨ q > mx then .error .outOfBounds else .ok ()
  | _, .float _ => .error .invalidType
  | .str _, .str _ => .ok ()
  | .enum vs _, .str s => if vs.contains s then .ok () else .error .notFound
  | _, .str _ => .error .invalidType

/-- what one accepted `BA_` line does to its entity -/
inductive Action where
  | assign (a : Asg)
  | cycle (i : Int)
  | delay (i : Int)
  | startDelay (i : Int)
  | msgSend (s : MsgSend)
  | sigStart (q : Rat)
  | sigSend (s : SigSend)
  deriving Repr, DecidableEq, Inhabited

def assignAct (k : Key) (e : Entry) (v : Val) : Except ImpErr (Option (Key × Action)) :=
  match checkAssign e.att.ty v with
  | .error err => .error err
  | .ok () => .ok (some (k, .assign ⟨e.att, v⟩))

/-- second loop of `importAttributes` for one `BA_` line: unknown attribute → skipped; the value
    is typed BEFORE the entity is looked up; entity not found → skipped; a well-known name on a
    message / signal goes to the dedicated field (a message-level name on a signal and vice
    versa: skipped without a word) -/
def resolve (keys : List Key) (table : List Entry) (dv : DValue) :
    Except ImpErr (Option (Key × Action)) :=
  match lookupEntry table dv.name with
  | none => .ok none
  | some e =>
    match resolveVal e dv.val with
    | .error err => .error err
    | .ok v =>
      match dv.target with
      | .general => assignAct .bus e v
      | .node n => if keys.contains (.node n) then assignAct (.node n) e v else .ok none
      | .msg id =>
        if keys.contains (.msg id) then
          match special? dv.name with
          | some .msgCycleTime =>
            match v with | .int i => .ok (some (.msg id, .cycle i)) | _ => .error .invalidType
          | some .msgDelayTime =>
            match v with | .int i => .ok (some (.msg id, .delay i)) | _ => .error .invalidType
          | some .msgStartDelayTime =>
            match v with | .int i => .ok (some (.msg id, .startDelay i)) | _ => .error .invalidType
          | some .msgSendType =>
            match v with
            | .str s => .ok (some (.msg id, .msgSend (msgSendFromDBC s)))
            | _ => .error .invalidType
          | some _ => .ok none
          | none => assignAct (.msg id) e v
        else .ok none
      | .sig id n =>
        if keys.contains (.sig id n) then
          match special? dv.name with
          | some .sigStartValue =>
            match v with
            | .float q => .ok (some (.sig id n, .sigStart q))
            | .int i => .ok (some (.sig id n, .sigStart (roundF64 i)))
            | .str _ => .error .invalidType
          | some .sigSendType =>
            match v with
            | .str s => .ok (some (.sig id n, .sigSend (sigSendFromDBC s)))
            | _ => .error .invalidType
          | some _ => .ok none
          | none => assignAct (.sig id n) e v
        else .ok none
      | .envVar _ => .ok none

/-- `attAssignments.add(attribute.EntityID(), …)`: a second value for the same attribute replaces
    the first -/
def upsert (a : Asg) : List Asg → List Asg
  | [] => [a]
  | b :: r => if b.att.name = a.att.name then a :: r else b :: upsert a r

def stepAsgs (l : List Asg) : Action → List Asg
  | .assign a => upsert a l
  | _ => l

def stepMsgF (f : MsgF) : Action → MsgF
  | .cycle i => { f with cycle := i }
  | .delay i => { f with delay := i }
  | .startDelay i => { f with startDelay := i }
  | .msgSend s => { f with send := s }
  | _ => f

def stepSigF (f : SigF) : Action → SigF
  | .sigStart q => { f with start := q }
  | .sigSend s => { f with send := s }
  | _ => f

/-- the actions that concern one entity, in file order -/
def actsOf (acts : List (Key × Action)) (k : Key) : List Action :=
  (acts.filter (·.1 = k)).map (·.2)

def asgsOf (acts : List (Key × Action)) (k : Key) : List Asg :=
  sortAsgs ((actsOf acts k).foldl stepAsgs [])

/-- the entity after the import, read through its getters -/
def entOf (acts : List (Key × Action)) : Key → Option Ent
  | .bus => none
  | .node n => some (.node n (asgsOf acts (.node n)))
  | .msg id => some (.msg id ((actsOf acts (.msg id)).foldl stepMsgF {}) (asgsOf acts (.msg id)))
  | .sig id n => some (.sig id n ((actsOf acts (.sig id n)).foldl stepSigF {}) (asgsOf acts (.sig id n)))

/-- a loop that stops at the first refusal -/
def mapE {α β ε : Type} (f : α → Except ε β) : List α → Except ε (List β)
  | [] => .ok []
  | a :: r =>
    match f a with
    | .error e => .error e
    | .ok b =>
      match mapE f r with
      | .error e => .error e
      | .ok bs => .ok (b :: bs)

def optList {α : Type} : List (Option α) → List α
  | [] => []
  | none :: r => optList r
  | some a :: r => a :: optList r

/-- `importAttributes`: the definitions in file order (first refusal wins), then the `BA_` lines in
    file order (first refusal wins); the accepted lines are then read entity by entity (a
    refusal does not depend on the lines before it) -/
def importAttrs (D : DbcAttrs) : Except ImpErr ModelAttrs :=
  match mapE (importDef D.defaults) D.defs with
  | .error e => .error e
  | .ok table =>
    match mapE (resolve D.keys table) D.values with
    | .error e => .error e
    | .ok racts =>
      let acts := optList racts
      .ok { bus := asgsOf acts .bus, ents := optList (D.keys.map (entOf acts)) }

end Acme.Attr
