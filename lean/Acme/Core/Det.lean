/-
Model of the ordering logic of the exports (exporter.go, md_exporter.go, saver.go and the
sorted getters they use): entities are collected from a Go map — i.e. in an arbitrary
order — and then sorted with `slices.SortFunc` and a comparator of the form
`orCompare(primary(a, b), func() int { return compareEntityIDs(a.entityID, b.entityID) })`.

An entity is seen as (primary key, entity id, payload); the primary key is an integer
(message id, node id, size, index) or a string (name).  Go's `slices.SortFunc` is an
unspecified correct sort; the model uses `List.mergeSort` — theorem
`C15_any_sort` shows that every sorted permutation of the input is the same list, which
is why the choice of algorithm does not matter.
-/
namespace Acme.Det

structure Ent (κ : Type) where
  key : κ
  id : String
  payload : Nat
  deriving Repr, DecidableEq

/-- `orCompare(cmp(a.key, b.key), compareEntityIDs(a.id, b.id)) ≤ 0` for integer keys -/
def leInt (a b : Ent Int) : Bool :=
  if a.key < b.key then true else if b.key < a.key then false else decide (a.id ≤ b.id)

/-- the same for string keys (`strings.Compare`) -/
def leStr (a b : Ent String) : Bool :=
  if a.key < b.key then true else if b.key < a.key then false else decide (a.id ≤ b.id)

/-- an export: what is written is a function `render` of the sorted entity list -/
def exportInt (render : List (Ent Int) → α) (collected : List (Ent Int)) : α :=
  render (collected.mergeSort leInt)

def exportStr (render : List (Ent String) → α) (collected : List (Ent String)) : α :=
  render (collected.mergeSort leStr)

end Acme.Det
