/-
Model of the value arithmetic of acmelib:
  * signal_layout.go: signExtend, decodeStandardSignal, decodeEnumSignal
  * signal_type.go:  calcTypeRange (NewIntegerSignalType / NewDecimalSignalType)
  * helpers.go:      calcSizeFromValue, calcValueFromSize
  * signal_enum.go:  SignalEnum.GetSize;  mux_signal.go: GetGroupCountSize

Go `uint64`/`int64` arithmetic is modelled on `BitVec 64` (wrap-around included).
`float64` results of the decimal/custom kinds are modelled over exact rationals; the
float rounding is outside the model (trusted base).
-/
namespace Acme.Arith

def maxSize : Int := 64

/-- `signExtend(rawValue, size)` -/
def signExtend (raw : BitVec 64) (size : Int) : BitVec 64 :=
  if size ≤ 0 ∨ size ≥ 64 then raw
  else if raw &&& (1#64 <<< (size - 1).toNat) ≠ 0#64 then raw ||| (BitVec.allOnes 64 <<< size.toNat)
  else raw

inductive Kind where
  | custom | flag | integer | decimal
  deriving Repr, DecidableEq, Inhabited

inductive Value where
  | flag (b : Bool)
  | int (v : Int)        -- SignalValueTypeInt, an int64
  | uint (v : Nat)       -- SignalValueTypeUint, a uint64
  | float (v : Rat)      -- SignalValueTypeFloat (exact value of the float expression)
  deriving Repr, Inhabited, DecidableEq

/-- `decodeStandardSignal` value computation.  For the integer kind `scale`/`offset` are
    the `int64(...)` / `uint64(...)` conversions of the type's float fields (integral by
    the property's quantifier), for the other kinds they are the float fields themselves. -/
def decodeStd (kind : Kind) (size : Int) (signed : Bool) (scaleI offI : Int) (scaleQ offQ : Rat)
    (raw : BitVec 64) : Value :=
  match kind with
  | .flag => .flag (raw ≠ 0#64)
  | .integer =>
    if signed then
      .int ((signExtend raw size) * BitVec.ofInt 64 scaleI + BitVec.ofInt 64 offI).toInt
    else
      .uint (raw * BitVec.ofInt 64 scaleI + BitVec.ofInt 64 offI).toNat
  | .decimal | .custom =>
    if signed then .float (((signExtend raw size).toInt : Rat) * scaleQ + offQ)
    else .float ((raw.toNat : Rat) * scaleQ + offQ)

/-- `decodeEnumSignal`: name of the value whose index equals `int(rawValue)`, else "". -/
def decodeEnum (values : List (String × Int)) (raw : BitVec 64) : String :=
  match values.find? (fun v => v.2 = raw.toInt) with
  | some v => v.1
  | none => ""

/-- `calcTypeRange(size, signed)` as exact integers (before the float64 conversion). -/
def typeRange (size : Int) (signed : Bool) : Int × Int :=
  if size ≤ 0 then (0, 0)
  else
    let size := if size > maxSize then maxSize else size
    if signed then
      let tmpMin : BitVec 64 := BitVec.allOnes 64 <<< (size - 1).toNat   -- int64(-1) << (size-1)
      let tmpMax : BitVec 64 := -(tmpMin + 1#64)
      (tmpMin.toInt, tmpMax.toInt)
    else
      let tmpMax : BitVec 64 := BitVec.allOnes 64 >>> (maxSize - size).toNat
      (0, tmpMax.toNat)

/-- `bits.Len64` -/
def len64 (v : Nat) : Nat := if v = 0 then 0 else Nat.log2 v + 1

/-- `calcSizeFromValue` -/
def calcSize (v : Int) : Int :=
  if v = 0 then 1
  else if v < 0 then maxSize
  else (len64 v.toNat : Int)

/-- `calcValueFromSize` (Go: `1 << size`, wraps to 0 from size 64 on) -/
def calcValue (size : Int) : Int :=
  if size ≤ 0 then 1 else (1#64 <<< size.toNat).toInt

/-- `SignalEnum.GetSize` -/
def enumSize (minSize maxIndex : Int) : Int :=
  let s := calcSize maxIndex
  if minSize > s then minSize else s

/-- `MultiplexerSignal.GetGroupCountSize` -/
def muxSelWidth (groupCount : Int) : Int := calcSize (groupCount - 1)

end Acme.Arith
