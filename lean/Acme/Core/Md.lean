/-
Model of the STRUCTURE of the Markdown export (`md_exporter.go`): which headings and which
tables `ExportToMarkdown` emits, in which order, and which cells every table row has.

* Signals form a tree (`Sig`): standard and enum signals are leaves, a multiplexer signal holds
  its groups (`GetSignalGroups()`: one list of signals per group id, a signal that lives in
  several groups occurs once per group).  The tree is a mutual inductive type
  (`Sig` / `Sigs` / `Groups`) so that every function below is structurally recursive.
* A table row is a tagged value (`Row`): a signal row carries name, start bit and size — its
  first three cells — and the cells appended by the per-kind row builder
  (`stdCells` / `enumCells` / `muxCells`, mirroring `exportStandardSignal` / `exportEnumSignal` /
  the head of `exportMultiplexerSignal`); a group separator row is `- g -` eight times.
  Texts that are the result of float formatting (`%g`) are supplied with the tree as strings.
* `exportSignal` / `exportSigs` / `exportGroups` mirror `exportSignal` /
  `exportMultiplexerSignal`: they return the rows AND thread the exporter state (`Coll`: the three
  Go maps `sigTypes` / `sigUnits` / `sigEnums`, keyed by entity id) exactly as the Go code fills
  the maps while it produces the rows.
* `exportNetwork` is the document skeleton: H1, per bus H2, per node interface H3, per message
  H4 and (iff the message has signals) its table; then the three appendices, listed from the
  collected maps after sorting: types by (size, name, id), units and enums by (name, id).
* `exportToMarkdown` adds the only failure mode of the Markdown library: `CustomTable` records
  an error when a row has another width than the header; `Build` returns it.

Paragraph text, the table of contents and the rendering of the tables are not modelled.
-/
namespace Acme.Md

/-! ## Input: the network as the exporter sees it -/

structure TypeRef where
  id : String
  size : Int
  name : String
  kind : String := "integer"
  signed : String := "false"
  min : String := "0"
  max : String := "0"
  scale : String := "1"
  offset : String := "0"
  desc : String := ""
  deriving Repr, DecidableEq

structure UnitRef where
  id : String
  name : String
  kind : String := "custom"
  symbol : String := ""
  desc : String := ""
  deriving Repr, DecidableEq

structure EnumVal where
  name : String
  index : Int
  desc : String := ""
  deriving Repr, DecidableEq

structure EnumRef where
  id : String
  name : String
  maxIndex : Int := 0
  values : List EnumVal := []
  deriving Repr, DecidableEq

mutual
  inductive Sig where
    | std (name : String) (start size : Int) (desc : String) (ty : TypeRef) (unit : Option UnitRef)
    | enm (name : String) (start size : Int) (desc : String) (en : EnumRef)
    | mux (name : String) (start size : Int) (desc : String) (groups : Groups)
  inductive Sigs where
    | nil
    | cons (s : Sig) (rest : Sigs)
  inductive Groups where
    | nil
    | cons (g : Sigs) (rest : Groups)
end

def Sigs.ofList : List Sig → Sigs
  | [] => .nil
  | s :: r => .cons s (Sigs.ofList r)

def Groups.ofList : List Sigs → Groups
  | [] => .nil
  | g :: r => .cons g (Groups.ofList r)

def Sigs.isEmpty : Sigs → Bool
  | .nil => true
  | .cons _ _ => false

/-- `muxSig.groupCount` (= the number of groups `GetSignalGroups()` returns) -/
def Groups.count : Groups → Nat
  | .nil => 0
  | .cons _ r => r.count + 1

structure Msg where
  name : String
  sigs : Sigs

structure Iface where
  /-- the name of the node of the interface -/
  node : String
  msgs : List Msg

structure Bus where
  name : String
  ifaces : List Iface

structure Net where
  name : String
  buses : List Bus

/-! ## Cell texts -/

/-- `md.Code` -/
def code (s : String) : String := "`" ++ s ++ "`"
/-- `md.Link` -/
def link (text url : String) : String := "[" ++ text ++ "](" ++ url ++ ")"
/-- `getHeaderLink` (ASCII lower-casing) -/
def headerLink (name : String) : String :=
  link name ((("#" ++ (name.toLower.replace " " "-"))).replace "`" "")
/-- `if len(desc) == 0 { desc = "-" }` -/
def dash (s : String) : String := if s.isEmpty then "-" else s

/-- `exportStandardSignal`: the five cells after name / start bit / size -/
def stdCells (ty : TypeRef) (unit : Option UnitRef) (desc : String) : List String :=
  let r : List String := []
  let r := r ++ [link (code ty.name) "#signal-types"]
  let r := r ++ [ty.min]
  let r := r ++ [ty.max]
  let unitSymbol := match unit with
    | none => "-"
    | some u => link (code u.symbol) "#signal-units"
  let r := r ++ [unitSymbol]
  r ++ [dash desc]

/-- `exportEnumSignal` -/
def enumCells (en : EnumRef) (desc : String) : List String :=
  let r : List String := []
  let r := r ++ [headerLink en.name]
  let r := r ++ ["0"]
  let r := r ++ [toString en.maxIndex]
  let r := r ++ ["-"]
  r ++ [dash desc]

/-- the cells `exportMultiplexerSignal` appends to the row started by `exportSignal` -/
def muxCells (groupCount : Nat) (desc : String) : List String :=
  let r : List String := []
  let r := r ++ [code "multiplexer"]
  let r := r ++ ["0"]
  let r := r ++ [toString groupCount]
  let r := r ++ ["-"]
  r ++ [dash desc]

/-! ## Rows -/

inductive Row where
  /-- the row of a signal: `exportSignal` starts it with name, start bit, size; `rest` is what
      the builder of the signal's kind appends -/
  | sig (name : String) (start size : Int) (rest : List String)
  /-- `[]string{tmpCol ×8}` with `tmpCol = "- g -"` -/
  | sep (group : Nat)
  deriving Repr, DecidableEq

def sepCell (g : Nat) : String := s!"- {g} -"

def Row.cells : Row → List String
  | .sig n s z rest => [n, toString s, toString z] ++ rest
  | .sep g => [sepCell g, sepCell g, sepCell g, sepCell g, sepCell g, sepCell g, sepCell g, sepCell g]

def Row.isSep : Row → Bool
  | .sep _ => true
  | .sig .. => false

/-- name, start bit, size of a signal row -/
def Row.info : Row → Option (String × Int × Int)
  | .sig n s z _ => some (n, s, z)
  | .sep _ => none

/-! ## The exporter state: three maps keyed by entity id -/

/-- `m[k] = v` on an association list with one entry per key -/
def put {α : Type} (k : String) (v : α) : List (String × α) → List (String × α)
  | [] => [(k, v)]
  | (k', v') :: r => if k' = k then (k, v) :: r else (k', v') :: put k v r

structure Coll where
  types : List (String × TypeRef) := []
  units : List (String × UnitRef) := []
  enums : List (String × EnumRef) := []
  deriving Repr

def Coll.addType (c : Coll) (t : TypeRef) : Coll := { c with types := put t.id t c.types }
def Coll.addUnit (c : Coll) (u : UnitRef) : Coll := { c with units := put u.id u c.units }
def Coll.addEnum (c : Coll) (e : EnumRef) : Coll := { c with enums := put e.id e c.enums }

def Coll.addUnit? (c : Coll) : Option UnitRef → Coll
  | none => c
  | some u => c.addUnit u

/-! ## exportSignal / exportMultiplexerSignal -/

mutual
  /-- `exportSignal`: the rows of one signal (a multiplexer: its own row, then per group the
      separator row and the rows of the group's signals, recursively) -/
  def exportSignal : Sig → Coll → List Row × Coll
    | .std n s z d ty u, c => ([.sig n s z (stdCells ty u d)], (c.addType ty).addUnit? u)
    | .enm n s z d e, c => ([.sig n s z (enumCells e d)], c.addEnum e)
    | .mux n s z d gs, c =>
      let r := exportGroups 0 gs c
      (.sig n s z (muxCells gs.count d) :: r.1, r.2)
  /-- the loop `for _, sig := range signals { rows = append(rows, exportSignal(sig)...) }` -/
  def exportSigs : Sigs → Coll → List Row × Coll
    | .nil, c => ([], c)
    | .cons s rest, c =>
      let a := exportSignal s c
      let b := exportSigs rest a.2
      (a.1 ++ b.1, b.2)
  /-- the loop over `GetSignalGroups()` from group id `g` on -/
  def exportGroups : Nat → Groups → Coll → List Row × Coll
    | _, .nil, c => ([], c)
    | g, .cons grp rest, c =>
      let a := exportSigs grp c
      let b := exportGroups (g + 1) rest a.2
      (.sep g :: a.1 ++ b.1, b.2)
end

/-! ## The document -/

inductive Item where
  | h (level : Nat) (text : String)
  | table (header : List String) (rows : List (List String))
  deriving Repr, DecidableEq

def sigHeader : List String := ["Name", "Start Bit", "Size", "Type", "Min", "Max", "Unit", "Description"]
def typeHeader : List String := ["Name", "Size", "Kind", "Signed", "Min", "Max", "Scale", "Offset", "Description"]
def unitHeader : List String := ["Name", "Kind", "Symbol", "Description"]
def valueHeader : List String := ["Name", "Index", "Description"]

/-- `exportMessage`: the heading and, unless the message has no signal, the signal table -/
def exportMessage (m : Msg) (c : Coll) : List Item × Coll :=
  if m.sigs.isEmpty then ([.h 4 m.name], c)
  else
    let r := exportSigs m.sigs c
    ([.h 4 m.name, .table sigHeader (r.1.map Row.cells)], r.2)

def exportMessages : List Msg → Coll → List Item × Coll
  | [], c => ([], c)
  | m :: rest, c =>
    let a := exportMessage m c
    let b := exportMessages rest a.2
    (a.1 ++ b.1, b.2)

/-- `exportNode` -/
def exportIface (i : Iface) (c : Coll) : List Item × Coll :=
  let r := exportMessages i.msgs c
  (.h 3 i.node :: r.1, r.2)

def exportIfaces : List Iface → Coll → List Item × Coll
  | [], c => ([], c)
  | i :: rest, c =>
    let a := exportIface i c
    let b := exportIfaces rest a.2
    (a.1 ++ b.1, b.2)

def exportBus (b : Bus) (c : Coll) : List Item × Coll :=
  let r := exportIfaces b.ifaces c
  (.h 2 b.name :: r.1, r.2)

def exportBuses : List Bus → Coll → List Item × Coll
  | [], c => ([], c)
  | b :: rest, c =>
    let a := exportBus b c
    let r := exportBuses rest a.2
    (a.1 ++ r.1, r.2)

/-! ### Sorting the collected definitions

`slices.SortFunc` is an unspecified correct sort; the comparators end in the entity id, so the
order is total on distinct ids and every correct sort gives the same list (Acme.Props.C15).
The model uses insertion sort (structurally recursive). -/

def insertBy {α : Type} (le : α → α → Bool) (x : α) : List α → List α
  | [] => [x]
  | y :: r => if le x y then x :: y :: r else y :: insertBy le x r

def sortBy {α : Type} (le : α → α → Bool) : List α → List α
  | [] => []
  | x :: r => insertBy le x (sortBy le r)

/-- `orCompare(a.size-b.size, orCompare(strings.Compare(a.name,b.name), compareEntityIDs)) ≤ 0` -/
def typeLe (a b : TypeRef) : Bool :=
  if a.size < b.size then true else if b.size < a.size then false
  else if a.name < b.name then true else if b.name < a.name then false
  else decide (a.id ≤ b.id)

def unitLe (a b : UnitRef) : Bool :=
  if a.name < b.name then true else if b.name < a.name then false else decide (a.id ≤ b.id)

def enumLe (a b : EnumRef) : Bool :=
  if a.name < b.name then true else if b.name < a.name then false else decide (a.id ≤ b.id)

/-- `maps.Values(e.sigTypes)` sorted -/
def Coll.typeList (c : Coll) : List TypeRef := sortBy typeLe (c.types.map (·.2))
def Coll.unitList (c : Coll) : List UnitRef := sortBy unitLe (c.units.map (·.2))
def Coll.enumList (c : Coll) : List EnumRef := sortBy enumLe (c.enums.map (·.2))

/-- a row of `exportSignalTypes` -/
def typeRow (t : TypeRef) : List String :=
  [t.name, toString t.size, code t.kind, code t.signed, t.min, t.max, t.scale, t.offset, dash t.desc]
/-- a row of `exportSignalUnits` -/
def unitRow (u : UnitRef) : List String := [u.name, u.kind, u.symbol, dash u.desc]
/-- a row of `exportSignalEnum` -/
def valueRow (v : EnumVal) : List String := [v.name, toString v.index, dash v.desc]

/-- `exportSignalEnum` -/
def exportEnum (e : EnumRef) : List Item := [.h 4 e.name, .table valueHeader (e.values.map valueRow)]

def appendix (c : Coll) : List Item :=
  [.h 2 "Signal Types", .table typeHeader (c.typeList.map typeRow),
   .h 2 "Signal Units", .table unitHeader (c.unitList.map unitRow),
   .h 2 "Signal Enums"] ++ c.enumList.flatMap exportEnum

/-- the exporter state after the buses have been written -/
def collected (n : Net) : Coll := (exportBuses n.buses {}).2

/-- `exportNetwork` -/
def exportNetwork (n : Net) : List Item :=
  .h 1 n.name :: (exportBuses n.buses {}).1 ++ appendix (collected n)

/-! ## The Markdown library: `CustomTable` + `Build` -/

/-- `TableSet.ValidateColumns` -/
def validTable : Item → Bool
  | .h .. => true
  | .table hdr rows => rows.all (fun r => r.length == hdr.length)

/-- `Build`: the document, or the error recorded by a `CustomTable` call -/
def build (items : List Item) : Except String (List Item) :=
  if items.all validTable then .ok items
  else .error "failed to validate columns: number of columns in the record doesn't match the header"

def exportToMarkdown (n : Net) : Except String (List Item) := build (exportNetwork n)

end Acme.Md
