/-
Kernels of the DBC exporter (exporter.go) and importer (importer.go, special_attributes.go)
whose composition decides what survives export → import (C11) and what an import means (C10):

  exporter.getStartBit / importer.getSignalStartBit   (big-endian start-bit conversion)
  exporter.exportMultiplexerSignal  ranges loop        (group ids → SG_MUL_VAL_ ranges)
  importer.importMuxSignal          ranges loop        (ranges → group ids, bounded by the group count)
  messageSendTypeToDBC / FromDBC, signalSendTypeToDBC / FromDBC
  importer: groupCount = calcValueFromSize(selector size); exporter: selector size =
            calcSizeFromValue(groupCount - 1)
  exporter enum-attribute value → index, importer index → value (GetValueAtIndex)
-/
import Acme.Core.Arith

namespace Acme.Conv

/-- `startBit + 7 - 2*(startBit%8)` (both directions; start bits are non-negative) -/
def convStart (s : Int) : Int := s + 7 - 2 * (Int.tmod s 8)

/-- the range-compression loop of `exportMultiplexerSignal` over the (sorted) group ids of one
    multiplexed signal; `none` for an empty list (the Go code indexes `groupIDs[0]`) -/
def compressFrom (from_ : Int) : List Int → List (Int × Int)
  | [] => []                       -- unreachable: handled by `compress`
  | [last] => [(from_, last)]
  | curr :: next :: rest =>
    if next = curr + 1 then compressFrom from_ (next :: rest)
    else (from_, curr) :: compressFrom next (next :: rest)

def compress : List Int → Option (List (Int × Int))
  | [] => none
  | g :: rest => some (compressFrom g (g :: rest))

/-- the expansion loop of `importMuxSignal`: `for j := from; j <= to; j++`, refused when a
    range is descending or goes beyond the group count -/
def expandRange (from_ to : Int) : List Int :=
  (List.range (to - from_ + 1).toNat).map (fun (k : Nat) => from_ + (k : Int))

def expand (groupCount : Int) : List (Int × Int) → Option (List Int)
  | [] => some []
  | (f, t) :: rest =>
    if f > t ∨ t ≥ groupCount then none
    else match expand groupCount rest with
      | none => none
      | some xs => some (expandRange f t ++ xs)

inductive MsgSend where
  | unset | cyclic | cyclicIfActive | cyclicAndTriggered | cyclicIfActiveAndTriggered
  deriving Repr, DecidableEq, Inhabited

def msgSendToDBC : MsgSend → String
  | .cyclic => "Cyclic" | .cyclicIfActive => "CyclicIfActive"
  | .cyclicAndTriggered => "CyclicAndTriggered"
  | .cyclicIfActiveAndTriggered => "CyclicIfActiveAndTriggered"
  | .unset => "NoMsgSendType"

def msgSendFromDBC (s : String) : MsgSend :=
  if s = "Cyclic" then .cyclic else if s = "CyclicIfActive" then .cyclicIfActive
  else if s = "CyclicAndTriggered" then .cyclicAndTriggered
  else if s = "CyclicIfActiveAndTriggered" then .cyclicIfActiveAndTriggered else .unset

inductive SigSend where
  | unset | cyclic | onWrite | onWriteRep | onChange | onChangeRep | ifActive | ifActiveRep
  deriving Repr, DecidableEq, Inhabited

def sigSendToDBC : SigSend → String
  | .cyclic => "Cyclic" | .onWrite => "OnWrite" | .onWriteRep => "OnWriteWithRepetition"
  | .onChange => "OnChange" | .onChangeRep => "OnChangeWithRepetition"
  | .ifActive => "IfActive" | .ifActiveRep => "IfActiveWithRepetition" | .unset => "NoSigSendType"

def sigSendFromDBC (s : String) : SigSend :=
  if s = "Cyclic" then .cyclic else if s = "OnWrite" then .onWrite
  else if s = "OnWriteWithRepetition" then .onWriteRep else if s = "OnChange" then .onChange
  else if s = "OnChangeWithRepetition" then .onChangeRep else if s = "IfActive" then .ifActive
  else if s = "IfActiveWithRepetition" then .ifActiveRep else .unset

/-- exporter: index of the value of an enum attribute (first match, 0 when absent) -/
def enumIndex (values : List String) (v : String) : Nat :=
  match values.findIdx? (· = v) with
  | some i => i
  | none => 0

/-- importer: `GetValueAtIndex` -/
def enumValueAt (values : List String) (i : Int) : Option String :=
  if i < 0 then none else values[i.toNat]?

/-- selector width written by the exporter for a multiplexer with `gc` groups, and the group
    count the importer derives from a selector of `w` bits -/
def exportSelWidth (gc : Int) : Int := Acme.Arith.calcSize (gc - 1)
def importGroupCount (w : Int) : Int := Acme.Arith.calcValue w

end Acme.Conv
