/-
Model of /repo/utils.go `CalculateBusLoad`, over exact rationals.

Go computes with float64; the rounding of IEEE arithmetic is outside the model
(trusted base): the model computes the same expression tree over `Rat`.
A message is (id, sizeByte, cycleTime); `msgs` is the list of all messages sent by the
node interfaces of the bus in the order the two nested map iterations yield them.
Sorting: Go uses `slices.SortFunc` (pdqsort, unstable) with the comparator
`cmp.Compare(b.bps, a.bps)`; the model uses `List.mergeSort` with the same order –
any correct sort yields the same sequence of rates (ties may be permuted).
-/
namespace Acme.BusLoad

structure Msg where
  id : Nat
  size : Int
  cycle : Int
  deriving Repr, DecidableEq, Inhabited

structure Entry where
  msg : Msg
  bps : Rat
  pct : Rat
  deriving Repr, Inhabited

inductive Err where
  | negative | zero
  deriving Repr, DecidableEq

def headerBits : Int := 19
def trailerBits : Int := 25
def headerStuffingBits : Int := 34

/-- `stuffingBits := (headerStuffingBits + sizeByte*8 - 1) / 4` (Go `/` truncates toward zero)
    `msgBits := sizeByte*8 + headerBits + trailerBits + stuffingBits` -/
def frameBits (size : Int) : Int :=
  size * 8 + headerBits + trailerBits + Int.tdiv (headerStuffingBits + size * 8 - 1) 4

/-- effective cycle time -/
def cycleOf (m : Msg) (defCycle : Int) : Int := if m.cycle = 0 then defCycle else m.cycle

/-- `float64(msgBits) / float64(cycleTime) * 1000` -/
def bpsOf (m : Msg) (defCycle : Int) : Rat :=
  (frameBits m.size : Rat) / (cycleOf m defCycle : Rat) * 1000

/-- `totConsumedBitsPerSec`, accumulated left to right as in the loop -/
def total (msgs : List Msg) (defCycle : Int) : Rat :=
  msgs.foldl (fun acc m => acc + bpsOf m defCycle) 0

/-- the comparator of the sort: a before b when a.bps ≥ b.bps -/
def entryLe (a b : Entry) : Bool := decide (b.bps ≤ a.bps)

/-- `CalculateBusLoad(bus, defCycleTime)` with `baud = bus.baudrate`. -/
def busLoad (baud : Int) (msgs : List Msg) (defCycle : Int) : Except Err (Rat × List Entry) :=
  if defCycle < 0 then .error .negative
  else if defCycle = 0 then .error .zero
  else if baud = 0 then .ok (0, [])
  else
    let tot := total msgs defCycle
    let entries := msgs.map (fun m =>
      let b := bpsOf m defCycle
      ({ msg := m, bps := b, pct := b / tot * 100 } : Entry))
    .ok (tot / (baud : Rat) * 100, entries.mergeSort entryLe)

end Acme.BusLoad
