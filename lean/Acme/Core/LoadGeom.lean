/-
Geometry of the loader (property C13): what the re-run of the public mutators does with the
POSITIONS of a saved tree.

`Acme.Save.load` (Core/Save) is the structural half of `loader.go`: references, owners, groups.
The real loader places every signal it has loaded with the public mutators

    msg.InsertSignal(sig, relStartBit)                       loadMessage, saved list order
    muxSig.InsertSignal(sig, relStartBit)                    fixed child: checked against EVERY group
    muxSig.InsertSignal(sig, relStartBit, groupID)           one call per group the child is listed in

and these run `SignalLayout.verifyBeforeInsert` (bounds against the size of the layout, then the
intersection scan) before `insert`.  This file folds the layout kernel `Acme.Layout`
(`verifyAndInsert`, regenerated from signal_layout.go and proved equal: Props/GenKernels) over a
structurally loaded network:

* per message: the top-level signals in saved order against `sizeByte * 8`;
* per multiplexer (at every depth, children first, as the loader does): `groupCount` layouts of
  `groupSize` bits; a fixed child is verified against every group and then inserted into every
  group; a listed child is verified and inserted group by group at its ONE position (the
  structural loader has already refused a child with two positions);
* sizes: a standard signal has the size of its type, an enum signal `max (min size) (bits of the
  highest index)` (`Acme.Arith.enumSize`), a multiplexer `groupSize + bits (groupCount - 1)`
  (`Acme.Arith.muxSelWidth`).

The scalars the geometry needs sit inside the opaque payload strings of Core/Save; the model does
not parse them: it is parametric in a reader `Sizes` of the payload of an entity (size of a type,
minimum size and highest index of an enum, size of a message, group size of a multiplexer), so the
value belongs to the ENTITY (two entries with one id and different payloads have their own sizes)
and the shared definitions are resolved through the loaded tables (`findEnt`).

Order.  The real loader interleaves: `loadSignal` (with the placement inside nested multiplexers),
then the placement of the signal itself, signal by signal, message by message; `loadGeom` walks in
the same order.  Inside ONE group the real loader iterates a Go map, so with several faults in one
multiplexer the cause it reports is any of them; the model places the fixed children first and
then group by group in the order of the child list.  Acceptance does not depend on the order
(Props/C13Geom: the accepted layouts are well-formed, so pairwise disjoint and inside).

`loadFull = load >=> loadGeom`: a structural refusal wins over a geometric one wherever it sits in
the tree (the real loader reports whichever it meets first).
-/
import Acme.Core.Save
import Acme.Core.Layout
import Acme.Core.Arith

namespace Acme.LoadGeom
open Acme.Save Acme.Layout

/-- the scalars of the saved tree the geometry depends on: a READER of the opaque payload of an
    entity (`Ent.pl`).  The model is parametric in it; the driver instantiates it with the decimal
    fields of the payload strings, the examples with tables.  Values are `uint32` schema fields. -/
structure Sizes where
  /-- `SignalType.size` -/
  typeSize : Ent → Nat
  /-- `SignalEnum.min_size` (0 = absent: the constructor's 1 stays) -/
  enumMin : Ent → Nat
  /-- the highest `SignalEnumValue.index` of the enum (0 without values) -/
  enumMax : Ent → Nat
  /-- `Message.size_byte` -/
  msgSize : Ent → Nat
  /-- `MultiplexerSignal.group_size` -/
  groupSize : Ent → Nat

/-- the size of the type a standard signal refers to (`refSigTypes[id]`, the table after the later
    entry of an id has replaced the earlier one); 0 for an id the table does not have (the structural
    loader has refused it) -/
def Sizes.typeSizeOf (z : Sizes) (t : Tbl) (id : Id) : Int :=
  match findEnt t.types id with
  | some e => (z.typeSize e : Nat)
  | none => 0

/-- `SignalEnum.GetSize` after `loadSignalEnum` -/
def Sizes.enumSizeOf (z : Sizes) (t : Tbl) (id : Id) : Int :=
  match findEnt t.enums id with
  | some e => Acme.Arith.enumSize (if z.enumMin e = 0 then 1 else (z.enumMin e : Nat)) (z.enumMax e : Nat)
  | none => 1

/-- the size of a message layout in bits -/
def Sizes.msgCap (z : Sizes) (e : Ent) : Int := (z.msgSize e : Nat) * 8

def Sizes.gsOf (z : Sizes) (e : Ent) : Int := (z.groupSize e : Nat)

/-- the container whose layout refused a signal -/
inductive Where where
  | msg (id : Id)
  | mux (id : Id)
  deriving DecidableEq, Repr, Inhabited

inductive GeomErr where
  /-- `InsertSignalError` wrapping the refusal of `verifyBeforeInsert`:
      `SignalSizeError{ErrOutOfBounds}` (wider than the layout), `SignalSizeError{ErrNoSpaceLeft}`
      (ends behind the layout), `StartBitError{ErrIntersect}` -/
  | layout (c : LErr) (w : Where) (sig : Id)
  /-- `ArgumentError{size, ErrIsZero}` of `newSignalTypeFromEntity` -/
  | typeSize (id : Id)
  /-- `ArgumentError{groupSize, ErrIsZero}` of `newMultiplexerSignalFromBase` -/
  | groupSize (id : Id)
  deriving DecidableEq, Repr, Inhabited

abbrev GE := Except GeomErr

/-! ## the groups of one multiplexer -/

/-- a child as the placement sees it -/
structure KG where
  id : Id
  pos : Nat
  size : Int
  /-- `none` = fixed -/
  grp : Option (List Nat)
  deriving DecidableEq, Repr, Inhabited

/-- one call of `muxSig.InsertSignal`: `idx` = index of the child in the child list (the `Slot.id`),
    `target = none` = without group ids (every group) -/
structure Step where
  idx : Nat
  id : Id
  size : Int
  pos : Int
  target : Option Nat
  deriving DecidableEq, Repr, Inhabited

def number {α : Type} : Nat → List α → List (Nat × α)
  | _, [] => []
  | i, x :: r => (i, x) :: number (i + 1) r

def KG.inGroup (k : KG) (g : Nat) : Bool :=
  match k.grp with | none => false | some gs => gs.contains g

/-- the calls in the order of the model: the fixed children, then group by group -/
def stepsOf (gc : Nat) (ks : List KG) : List Step :=
  ((number 0 ks).filter (fun p => p.2.grp.isNone)).map (fun p => ⟨p.1, p.2.id, p.2.size, p.2.pos, none⟩) ++
  (List.range gc).flatMap fun g =>
    ((number 0 ks).filter (fun p => p.2.inGroup g)).map (fun p => ⟨p.1, p.2.id, p.2.size, p.2.pos, some g⟩)

/-- the first loop of `InsertSignal` without group ids: `verifyBeforeInsert` in every group -/
def verifyGroups (cap sz st : Int) : List (List Slot) → Except LErr Unit
  | [] => .ok ()
  | l :: r =>
    match verifyInsert cap l sz st with
    | .error e => .error e
    | .ok () => verifyGroups cap sz st r

/-- `InsertSignal(sig, startBit, g)`: verify and insert in group `g` -/
def placeIn (cap : Int) (idx : Nat) (sz st : Int) : Nat → List (List Slot) → Except LErr (List (List Slot))
  | _, [] => .ok []
  | 0, l :: r =>
    match verifyAndInsert cap l idx sz st with
    | .error e => .error e
    | .ok l' => .ok (l' :: r)
  | g + 1, l :: r =>
    match placeIn cap idx sz st g r with
    | .error e => .error e
    | .ok r' => .ok (l :: r')

def step (cap : Int) (s : Step) (gs : List (List Slot)) : Except LErr (List (List Slot)) :=
  match s.target with
  | none =>
    match verifyGroups cap s.size s.pos gs with
    | .error e => .error e
    | .ok () => .ok (gs.map (fun l => insert l s.idx s.size s.pos))
  | some g => placeIn cap s.idx s.size s.pos g gs

def runSteps (mux : Id) (cap : Int) : List Step → List (List Slot) → GE (List (List Slot))
  | [], gs => .ok gs
  | s :: r, gs =>
    match step cap s gs with
    | .error e => .error (.layout e (.mux mux) s.id)
    | .ok gs' => runSteps mux cap r gs'

/-- the group layouts of a loaded multiplexer; `Slot.id` = index into `kids` -/
structure GMux where
  id : Id
  gc : Nat
  gs : Int
  kids : List Id
  groups : List (List Slot)
  deriving DecidableEq, Repr, Inhabited

def placeKids (mux : Id) (gc : Nat) (gs : Int) (ks : List KG) : GE GMux :=
  match runSteps mux gs (stepsOf gc ks) (List.replicate gc []) with
  | .error e => .error e
  | .ok groups => .ok ⟨mux, gc, gs, ks.map (·.id), groups⟩

/-! ## signal trees -/

mutual
  /-- `loadSignal`: the size of the signal and the multiplexers inside it (itself first) -/
  def sigGeom (z : Sizes) (t : Tbl) : Sig → GE (Int × List GMux)
    | .mk e _ body => bodyGeom z t e body
  /-- `self`: the entity of the signal the body belongs to -/
  def bodyGeom (z : Sizes) (t : Tbl) (self : Ent) : Body → GE (Int × List GMux)
    | .std ty _ => if z.typeSizeOf t ty ≤ 0 then .error (.typeSize ty) else .ok (z.typeSizeOf t ty, [])
    | .enm en => .ok (z.enumSizeOf t en, [])
    | .mux gc kids =>
      if z.gsOf self ≤ 0 then .error (.groupSize self.id)
      else
        match kidsGeom z t kids with
        | .error e => .error e
        | .ok (ks, inner) =>
          match placeKids self.id gc (z.gsOf self) ks with
          | .error e => .error e
          | .ok x => .ok (z.gsOf self + Acme.Arith.muxSelWidth gc, x :: inner)
  def kidsGeom (z : Sizes) (t : Tbl) : List Kid → GE (List KG × List GMux)
    | [] => .ok ([], [])
    | .mk s pos grp :: r =>
      match sigGeom z t s with
      | .error e => .error e
      | .ok (sz, mx) =>
        match kidsGeom z t r with
        | .error e => .error e
        | .ok (ks, mxs) => .ok (⟨s.id, pos, sz, grp⟩ :: ks, mx ++ mxs)
end

/-- `sig.GetSize()` of a loaded signal, without the placement of what is inside it -/
def sigSize (z : Sizes) (t : Tbl) (s : Sig) : Int :=
  match s.body with
  | .std ty _ => z.typeSizeOf t ty
  | .enm en => z.enumSizeOf t en
  | .mux gc _ => z.gsOf s.e + Acme.Arith.muxSelWidth gc

mutual
  /-- the ids of the multiplexers of a signal tree, parents before children -/
  def sigMuxIds : Sig → List Id
    | .mk e _ body => bodyMuxIds e.id body
  def bodyMuxIds (self : Id) : Body → List Id
    | .std _ _ => []
    | .enm _ => []
    | .mux _ kids => self :: kidsMuxIds kids
  def kidsMuxIds : List Kid → List Id
    | [] => []
    | .mk s _ _ :: r => sigMuxIds s ++ kidsMuxIds r
end

/-! ## messages -/

/-- the loop over `pMsg.Signals`: `loadSignal`, then `msg.InsertSignal(sig, pos)`;
    `i` = index of the signal in the list (the `Slot.id`) -/
def msgSteps (z : Sizes) (t : Tbl) (mid : Id) (cap : Int) : List (Sig × Nat) → Nat → List Slot → GE (List Slot × List GMux)
  | [], _, l => .ok (l, [])
  | (s, pos) :: r, i, l =>
    match sigGeom z t s with
    | .error e => .error e
    | .ok (sz, mx) =>
      match verifyAndInsert cap l i sz pos with
      | .error e => .error (.layout e (.msg mid) s.id)
      | .ok l' =>
        match msgSteps z t mid cap r (i + 1) l' with
        | .error e => .error e
        | .ok (lf, mxs) => .ok (lf, mx ++ mxs)

/-- the layout of a loaded message and the group layouts of every multiplexer in it, at every
    depth; `Slot.id` = index into `sigs` -/
structure GMsg where
  id : Id
  cap : Int
  sigs : List Id
  slots : List Slot
  muxes : List GMux
  deriving DecidableEq, Repr, Inhabited

def msgGeom (z : Sizes) (t : Tbl) (m : Msg) : GE GMsg :=
  match msgSteps z t m.e.id (z.msgCap m.e) m.sigs 0 [] with
  | .error e => .error e
  | .ok (l, mx) => .ok ⟨m.e.id, z.msgCap m.e, m.sigs.map (·.1.id), l, mx⟩

def msgsGeom (z : Sizes) (t : Tbl) : List Msg → GE (List GMsg)
  | [] => .ok []
  | m :: r =>
    match msgGeom z t m with
    | .error e => .error e
    | .ok g =>
      match msgsGeom z t r with
      | .error e => .error e
      | .ok gs => .ok (g :: gs)

/-- the messages in the order the loader meets them -/
def allMsgs (n : Net) : List Msg := n.buses.flatMap fun b => b.ifaces.flatMap fun i => i.msgs

/-- `loadSignalType` for every entry of the table -/
def typesOk (z : Sizes) : List Ent → GE Unit
  | [] => .ok ()
  | e :: r => if z.typeSize e = 0 then .error (.typeSize e.id) else typesOk z r

structure GNet where
  net : Net
  msgs : List GMsg

def loadGeom (z : Sizes) (n : Net) : GE GNet :=
  match typesOk z n.t.types with
  | .error e => .error e
  | .ok () =>
    match msgsGeom z n.t (allMsgs n) with
    | .error e => .error e
    | .ok ms => .ok ⟨n, ms⟩

inductive FullErr where
  | struct (e : LoadErr)
  | geom (e : GeomErr)
  deriving DecidableEq, Repr

/-- the loader: structure, then geometry -/
def loadFull (z : Sizes) (p : PNet) : Except FullErr GNet :=
  match load p with
  | .error e => .error (.struct e)
  | .ok n =>
    match loadGeom z n with
    | .error e => .error (.geom e)
    | .ok g => .ok g

/-! ## tie helper: the causes a multiplexer with several faults may report

Inside one group the real loader meets the entries in the order of a Go map.  Whatever the order,
the entry it refuses is refused for its own bounds or for an overlap with another entry of a
group they share; `muxCauses` lists these causes for every child as if it were placed last. -/

def KG.bounds (cap : Int) (k : KG) : Option LErr :=
  match verifyInsert cap [] k.size k.pos with
  | .error e => some e
  | .ok () => none

def KG.shares (gc : Nat) (a b : KG) : Bool :=
  match a.grp, b.grp with
  | none, _ => true
  | _, none => true
  | some ga, some gb => ga.any (fun g => g < gc && gb.contains g)

def KG.overlaps (a b : KG) : Bool :=
  decide ((a.pos : Int) < b.pos + b.size) && decide ((b.pos : Int) < a.pos + a.size)

def muxCauses (gc : Nat) (cap : Int) (ks : List KG) : List LErr :=
  (number 0 ks).filterMap fun p =>
    match p.2.bounds cap with
    | some e => some e
    | none =>
      if (number 0 ks).any (fun q => q.1 != p.1 && p.2.shares gc q.2 && p.2.overlaps q.2)
      then some .intersect else none

end Acme.LoadGeom
