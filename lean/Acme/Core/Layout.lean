/-
Model of the position algebra of /repo/signal_layout.go (SignalLayout without filters):
verifyBeforeAppend/append, verifyBeforeInsert/insert, remove, compact,
verifyBeforeShrink/modifyStartBitsOnShrink, verifyBeforeGrow/modifyStartBitsOnGrow,
verifyBeforeResize/resize, shiftLeft, shiftRight.

A layout is its size `cap` (bits) and the list of its signals in slice order; a signal
is seen as a `Slot` (id, relative start position, size *at the time of the call*).
Go `int` ↦ `Int` (the Go code was made overflow-safe at the two places where extreme
arguments could wrap).  An index-out-of-range in the Go code is the error `panic`.
-/
namespace Acme.Layout

structure Slot where
  id : Nat
  start : Int
  size : Int
  deriving Repr, DecidableEq, Inhabited

inductive LErr where
  | negative | zero | outOfBounds | noSpaceLeft | intersect | tooSmall | panic
  deriving Repr, DecidableEq, Inhabited

/-- end bit of the last signal, 0 for an empty layout -/
def lastEnd (l : List Slot) : Int :=
  match l.getLast? with
  | none => 0
  | some s => s.start + s.size

/-- `verifyBeforeAppend` -/
def verifyAppend (cap : Int) (l : List Slot) (sz : Int) : Except LErr Unit :=
  match l.getLast? with
  | none => if sz > cap then .error .outOfBounds else .ok ()
  | some s => if sz > cap - (s.start + s.size) then .error .noSpaceLeft else .ok ()

/-- `append` (verification included) -/
def append (cap : Int) (l : List Slot) (id : Nat) (sz : Int) : Except LErr (List Slot) :=
  match verifyAppend cap l sz with
  | .error e => .error e
  | .ok () => .ok (l ++ [⟨id, lastEnd l, sz⟩])

/-- the overlap loop of `verifyBeforeInsert` -/
def scanInsert (st en : Int) : List Slot → Except LErr Unit
  | [] => .ok ()
  | s :: rest =>
    if en ≤ s.start then .ok ()
    else if st ≥ s.start + s.size then scanInsert st en rest
    else if st ≥ s.start ∨ en > s.start then .error .intersect
    else scanInsert st en rest

/-- `verifyBeforeInsert` -/
def verifyInsert (cap : Int) (l : List Slot) (sz st : Int) : Except LErr Unit :=
  if st < 0 then .error .negative
  else if sz > cap then .error .outOfBounds
  else if st > cap - sz then .error .noSpaceLeft
  else scanInsert st (st + sz) l

/-- the placement loop of `insert`: before the first signal that starts after `st` -/
def insertAt (x : Slot) : List Slot → List Slot
  | [] => [x]
  | s :: rest => if s.start > x.start then x :: s :: rest else s :: insertAt x rest

/-- `insert` (no verification) -/
def insert (l : List Slot) (id : Nat) (sz st : Int) : List Slot := insertAt ⟨id, st, sz⟩ l

/-- `verifyAndInsert` -/
def verifyAndInsert (cap : Int) (l : List Slot) (id : Nat) (sz st : Int) : Except LErr (List Slot) :=
  match verifyInsert cap l sz st with
  | .error e => .error e
  | .ok () => .ok (insert l id sz st)

/-- `remove` -/
def remove (l : List Slot) (id : Nat) : List Slot := l.filter (fun s => s.id ≠ id)

/-- `compact` loop with `lastStartBit` -/
def compactFrom (last : Int) : List Slot → List Slot
  | [] => []
  | s :: rest =>
    if s.start = last then s :: compactFrom (last + s.size) rest
    else if last < s.start then { s with start := last } :: compactFrom (last + s.size) rest
    else s :: compactFrom last rest

def compact (l : List Slot) : List Slot := compactFrom 0 l

/-- `verifyBeforeShrink(sig, amount)` with `sz = sig.GetSize()` -/
def verifyShrink (sz amount : Int) : Except LErr Unit :=
  if amount < 0 then .error .negative
  else if sz - amount < 0 then .error .negative
  else if sz - amount = 0 then .error .zero
  else .ok ()

/-- followers of the first slot with the given id are moved left by `amount` -/
def shrinkLoop (id : Nat) (amount : Int) (found : Bool) : List Slot → List Slot
  | [] => []
  | s :: rest =>
    if found then { s with start := s.start - amount } :: shrinkLoop id amount true rest
    else s :: shrinkLoop id amount (decide (s.id = id)) rest

/-- `modifyStartBitsOnShrink(sig, amount)`; `sz` = current size of `sig` -/
def shrinkStarts (l : List Slot) (id : Nat) (sz amount : Int) : Except LErr (List Slot) :=
  if amount = 0 then .ok l
  else match verifyShrink sz amount with
    | .error e => .error e
    | .ok () => .ok (shrinkLoop id amount false l)

/-- loop of `verifyBeforeGrow`: returns (availableSpace, prevEndBit) -/
def growScan (id : Nat) : List Slot → (avail prevEnd : Int) → (found : Bool) → Int × Int
  | [], avail, prevEnd, _ => (avail, prevEnd)
  | s :: rest, avail, prevEnd, found =>
    if found then growScan id rest (avail + (s.start - prevEnd)) (s.start + s.size) true
    else growScan id rest avail (s.start + s.size) (decide (s.id = id))

/-- `verifyBeforeGrow` -/
def verifyGrow (cap : Int) (l : List Slot) (id : Nat) (amount : Int) : Except LErr Unit :=
  if amount < 0 then .error .negative
  else
    let (avail, prevEnd) := growScan id l 0 0 false
    if amount > avail + (cap - prevEnd) then .error .noSpaceLeft else .ok ()

/-- first loop of `modifyStartBitsOnGrow`: the gaps after the signal.
    Result: `none` = the signal is the last one (early `return nil`);
    `some (spaces, nextIdx, prevEnd)` otherwise (`nextIdx = 0` when the id is absent). -/
def growSpaces (id : Nat) : List Slot → (idx : Nat) → (spaces : List Int) → (nextIdx : Nat) →
    (prevEnd : Int) → (found : Bool) → Option (List Int × Nat × Int)
  | [], _, spaces, nextIdx, prevEnd, _ => some (spaces, nextIdx, prevEnd)
  | s :: rest, idx, spaces, nextIdx, prevEnd, found =>
    if found then
      growSpaces id rest (idx + 1) (spaces ++ [s.start - prevEnd]) nextIdx (s.start + s.size) true
    else if s.id = id then
      if rest.isEmpty then none
      else growSpaces id rest (idx + 1) spaces (idx + 1) (s.start + s.size) true
    else growSpaces id rest (idx + 1) spaces nextIdx (s.start + s.size) false

/-- second loop of `modifyStartBitsOnGrow` over the signals from `nextIdx` on.
    `spaces` is consumed from its head (`spaceIdx`); running out of it is the Go panic. -/
def growPush : List Slot → List Int → (acc : Int) → Except LErr (List Slot)
  | [], _, _ => .ok []
  | s :: rest, spaces, acc =>
    match spaces with
    | [] => .error .panic
    | sp :: spaces' =>
      if sp ≥ acc then .ok (s :: rest)
      else
        let acc' := acc - sp
        match growPush rest spaces' acc' with
        | .error e => .error e
        | .ok rest' => .ok ({ s with start := s.start + acc' } :: rest')

/-- `modifyStartBitsOnGrow(sig, amount)` -/
def growStarts (cap : Int) (l : List Slot) (id : Nat) (amount : Int) : Except LErr (List Slot) :=
  if amount = 0 then .ok l
  else match verifyGrow cap l id amount with
    | .error e => .error e
    | .ok () =>
      match growSpaces id l 0 [] 0 0 false with
      | none => .ok l
      | some (spaces, nextIdx, prevEnd) =>
        match growPush (l.drop nextIdx) (spaces ++ [cap - prevEnd]) amount with
        | .error e => .error e
        | .ok tail => .ok (l.take nextIdx ++ tail)

/-- `verifyBeforeResize` -/
def verifyResize (cap : Int) (l : List Slot) (newCap : Int) : Except LErr Unit :=
  if newCap > cap then .ok ()
  else match l.getLast? with
    | none => .ok ()
    | some s => if s.start + s.size > newCap then .error .tooSmall else .ok ()

/-- `shiftLeft(sigID, amount)`: new layout and the distance moved -/
def shiftLeftLoop (id : Nat) (amount : Int) : (prev : Option Slot) → List Slot → List Slot × Int
  | _, [] => ([], 0)
  | prev, s :: rest =>
    if s.id = id then
      let t0 := s.start - amount
      let t1 := if t0 < 0 then 0 else t0
      let t2 := match prev with
        | none => t1
        | some p => if t1 < p.start + p.size then p.start + p.size else t1
      ({ s with start := t2 } :: rest, s.start - t2)
    else
      let (rest', d) := shiftLeftLoop id amount (some s) rest
      (s :: rest', d)

def shiftLeft (l : List Slot) (id : Nat) (amount : Int) : List Slot × Int :=
  if amount ≤ 0 then (l, 0) else shiftLeftLoop id amount none l

/-- `shiftRight(sigID, amount)` (after the clamp `amount ≤ cap`) -/
def shiftRightLoop (cap : Int) (id : Nat) (amount : Int) : List Slot → List Slot × Int
  | [] => ([], 0)
  | s :: rest =>
    if s.id = id then
      let t0 := s.start + amount
      let tEnd := t0 + s.size
      let t1 := if tEnd > cap then cap - s.size else t0
      let t2 := match rest with
        | [] => t1
        | n :: _ => if tEnd > n.start then n.start - s.size else t1
      ({ s with start := t2 } :: rest, t2 - s.start)
    else
      let (rest', d) := shiftRightLoop cap id amount rest
      (s :: rest', d)

def shiftRight (cap : Int) (l : List Slot) (id : Nat) (amount : Int) : List Slot × Int :=
  if amount ≤ 0 then (l, 0)
  else shiftRightLoop cap id (if amount > cap then cap else amount) l

end Acme.Layout
