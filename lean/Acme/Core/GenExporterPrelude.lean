/-
Hand-written prelude of the generated file Acme/Gen/Exporter.lean ("translator, twelfth stage":
tools/extract/kernels_exporter.go translates exporter.go).  Nothing here is derived from the Go
source; the translator refers to these names through its projection tables and FAILS LOUDLY on a
Go field / method / constant that is not in the tables.

THE GO OBJECTS THE EXPORTER READS (records of the fields it reads; a field the source starts to
read and that is not listed in the translator's table stops the extractor):

  Signal (interface)      ↦ `Sig`      = standard (StdSig) | enum (EnumSig) | mux (MuxSig) (groups)
                                          `sig.Kind()` / `ToStandard()` / `ToEnum()` / `ToMultiplexer()` ↦ `match`
  what every signal answers ↦ `SigBase`: Name(), Desc(), GetStartBit() (absolute),
                                          ParentMultiplexerSignal() != nil
  *StandardSignal         ↦ `StdSig`   : GetSize(), typ (*SignalType: signed min max offset scale), unit (nilable)
  *EnumSignal             ↦ `EnumSig`  : GetSize(), enum (*SignalEnum: entityID, name, maxIndex, Values())
  *MultiplexerSignal      ↦ `MuxSig`   : groupCount, GetGroupCountSize(); GetSignalGroups() is the second
                                          argument of the constructor (`[][]Signal`: per group id the
                                          signals of the group in layout order; a signal of several groups
                                          is the same object in each of them)
  sig.ParentMessage() / x.parentMsg ↦ `ParentMsg`, a parameter `pm` of every generated function that
                                          reads it: byteOrder, Receivers() (↦ the node names
                                          `rec.node.name` in the order of the getter: sorted by name)
  *Message                ↦ `Msg`      : name, desc, GetCANID(), sizeByte, senderNodeInt.node.name, Signals()
  *NodeInterface (of the bus) ↦ `NodeInt` : node.name, node.desc, SentMessages() (sorted by message id)
  *Bus                    ↦ `Bus`      : desc, NodeInterfaces() (sorted by node id)
  EntityID                ↦ `Nat`       (an opaque identity: only its equality is observed; the comparison
                                          of two entity ids inside a comparator is part of the abstract sort)
  `x := make(.., 0, len(m)); for _, v := range m { x = append(x, v) }; slices.SortFunc(x, cmp)` (the values of
  a map, sorted)          ↦ `sortEnums (mapValues m)` with `sortEnums` a PARAMETER of the generated function
                                          (spec in the theorems: a permutation of its argument, sorted by name;
                                          the comparator is Acme.Gen.Cmp.exporter_exporter_exportBus_1 of C15)

Getters that sort a map's values (`Receivers()`, `SignalEnum.Values()`) are abstract SORTED LIST fields
of these records (their comparators are translated and proved total in Acme.Gen.Cmp / C15).

NUMBERS.  Go `int` ↦ `Int`; `uint32(x)` ↦ `u32 x` (the residue mod 2^32 as a `Nat`); `float64` ↦ `Rat`,
the exact value (convention of Acme.ImportBus; `float64(i)` of an `int` ↦ `(i : Rat)`, exact below 2^53).

THE OUTPUT.  `e.dbcFile.X = append(e.dbcFile.X, v)` ↦ `{ st with x := st.x ++ [v] }` on the threaded
state `St`; `e.currDBCMsg.Signals` ↦ `st.curSignals`.  dbc.Signal / dbc.Message carry floats, so they
have records of their own (`DbcSignal`, `DbcMessage`: every Go field, zero values as defaults); the other
AST nodes are the structures of Acme.Core.Dbc.

`clearSpaces` is not translated: the generated functions take it as the parameter `clr`
(the theorems instantiate the identity: names that `clearSpaces` leaves alone, the convention of every
hand model of the exporter).
-/
import Acme.Core.GenPrelude
import Acme.Core.Dbc

namespace Acme.XSem
open Acme.GoSem (Res index?)

/-- `uint32(x)` of a Go `int` -/
def u32 (x : Int) : Nat := (BitVec.ofInt 32 x).toNat

theorem u32_of_range (x : Int) (h0 : 0 ≤ x) (h1 : x < 2 ^ 32) : u32 x = x.toNat := by
  unfold u32
  rw [BitVec.toNat_ofInt]
  have : x % (2 ^ 32 : Nat) = x := Int.emod_eq_of_lt h0 (by simpa using h1)
  rw [this]

/-! ## results that may panic (an index out of range) -/

def bind {α β : Type} (r : Res α) (f : α → Res β) : Res β :=
  match r with
  | .panic => .panic
  | .val a => f a

@[simp] theorem bind_val {α β : Type} (a : α) (f : α → Res β) : bind (.val a) f = f a := rfl
@[simp] theorem bind_panic {α β : Type} (f : α → Res β) : bind (.panic : Res α) f = .panic := rfl

/-- `s[i]` -/
def idx {α : Type} (l : List α) (i : Int) : Res α :=
  match index? l i with
  | none => .panic
  | some a => .val a

/-- `s[i].F = v` on a slice of pointers: the element at `i` is modified in place -/
def modifyAt {α : Type} (l : List α) (i : Int) (f : α → α) : Res (List α) :=
  match index? l i with
  | none => .panic
  | some _ => .val (l.modify i.toNat f)

/-! ## Go maps with comparable keys, as association lists (never iterated unsorted) -/

/-- `v, ok := m[k]` (`zero` = the zero value of the value type) -/
def mapGet2 {κ ν : Type} [DecidableEq κ] (m : List (κ × ν)) (k : κ) (zero : ν) : ν × Bool :=
  match m.find? (fun p => p.1 = k) with
  | some p => (p.2, true)
  | none => (zero, false)

/-- `m[k]` -/
def mapGet {κ ν : Type} [DecidableEq κ] (m : List (κ × ν)) (k : κ) (zero : ν) : ν := (mapGet2 m k zero).1

/-- `m[k] = v` -/
def mapSet {κ ν : Type} [DecidableEq κ] : List (κ × ν) → κ → ν → List (κ × ν)
  | [], k, v => [(k, v)]
  | p :: r, k, v => if p.1 = k then (k, v) :: r else p :: mapSet r k v

/-- the values of a map, in SOME order (here: the order of first insertion; the generated code
    hands them to the abstract sort at once, see `exportBus`) -/
def mapValues {κ ν : Type} (m : List (κ × ν)) : List ν := m.map (·.2)

/-! ## the model objects -/

/-- `MessageByteOrder` -/
inductive MsgByteOrder | littleEndian | bigEndian
  deriving Repr, DecidableEq, Inhabited

/-- `SignalKind` -/
inductive SignalKind | standard | enum | multiplexer
  deriving Repr, DecidableEq, Inhabited

structure SigType where
  signed : Bool := false
  min : Rat := 0
  max : Rat := 0
  offset : Rat := 0
  scale : Rat := 1
  deriving Repr, DecidableEq, Inhabited

structure SigUnit where
  symbol : String := ""
  deriving Repr, DecidableEq, Inhabited

structure EnumValue where
  index : Int
  name : String
  deriving Repr, DecidableEq, Inhabited

structure SigEnum where
  /-- the entity id: an opaque identity (a random text in Go), only compared for equality -/
  entityID : Nat := 0
  name : String := ""
  maxIndex : Int := 0
  /-- `Values()`: sorted by index -/
  values : List EnumValue := []
  deriving Repr, DecidableEq, Inhabited

structure ParentMsg where
  byteOrder : MsgByteOrder := .littleEndian
  /-- `Receivers()` ↦ `rec.node.name` of every element, in the order of the getter -/
  receivers : List String := []
  deriving Repr, DecidableEq, Inhabited

structure SigBase where
  name : String
  desc : String := ""
  startBit : Int := 0
  hasParentMux : Bool := false
  deriving Repr, DecidableEq, Inhabited

structure StdSig where
  b : SigBase
  size : Int
  typ : SigType := {}
  unit : Option SigUnit := none
  deriving Repr, DecidableEq, Inhabited

structure EnumSig where
  b : SigBase
  size : Int
  enum : SigEnum := {}
  deriving Repr, DecidableEq, Inhabited

structure MuxSig where
  b : SigBase
  groupCount : Int
  groupCountSize : Int
  deriving Repr, DecidableEq, Inhabited

inductive Sig where
  | standard (s : StdSig)
  | enum (s : EnumSig)
  | mux (s : MuxSig) (groups : List (List Sig))
  deriving Repr, Inhabited

def Sig.base : Sig → SigBase
  | .standard s => s.b
  | .enum s => s.b
  | .mux s _ => s.b

def Sig.kind : Sig → SignalKind
  | .standard _ => .standard
  | .enum _ => .enum
  | .mux _ _ => .multiplexer

structure Msg where
  name : String
  desc : String := ""
  /-- `GetCANID()` (a `uint32`) -/
  canID : Nat := 0
  sizeByte : Int := 0
  /-- `senderNodeInt.node.name` -/
  senderName : String := ""
  parent : ParentMsg := {}
  /-- `Signals()`: layout order -/
  signals : List Sig := []
  deriving Repr, Inhabited

/-- an element of `bus.NodeInterfaces()`: `node.name`, `node.desc`, `SentMessages()` (sorted by
    message id) -/
structure NodeInt where
  nodeName : String
  nodeDesc : String := ""
  sentMessages : List Msg := []
  deriving Repr, Inhabited

/-- `*Bus`: `desc`, `NodeInterfaces()` (sorted by node id) -/
structure Bus where
  desc : String := ""
  nodeInterfaces : List NodeInt := []
  deriving Repr, Inhabited

/-! ## the output -/

/-- `dbc.Signal` -/
structure DbcSignal where
  name : String := ""
  isMultiplexor : Bool := false
  isMultiplexed : Bool := false
  muxSwitchValue : Nat := 0
  size : Nat := 0
  startBit : Nat := 0
  byteOrder : Acme.Dbc.ByteOrder := .littleEndian
  valueType : Acme.Dbc.ValueType := .unsigned
  factor : Rat := 0
  offset : Rat := 0
  min : Rat := 0
  max : Rat := 0
  unit : String := ""
  receivers : List String := []
  deriving Repr, DecidableEq, Inhabited

/-- `dbc.Message` -/
structure DbcMessage where
  id : Nat := 0
  name : String := ""
  size : Nat := 0
  transmitter : String := ""
  signals : List DbcSignal := []
  deriving Repr, DecidableEq, Inhabited

/-! ## attributes -/

/-- `AttributeType` -/
inductive AttrType | string | integer | float | enum
  deriving Repr, DecidableEq, Inhabited

/-- `*StringAttribute`: Name(), defValue -/
structure StrAttr where
  name : String
  defValue : String := ""
  deriving Repr, DecidableEq, Inhabited

/-- `*IntegerAttribute`: Name(), defValue, min, max, isHexFormat -/
structure IntAttr where
  name : String
  defValue : Int := 0
  min : Int := 0
  max : Int := 0
  isHexFormat : Bool := false
  deriving Repr, DecidableEq, Inhabited

/-- `*FloatAttribute` -/
structure FloatAttr where
  name : String
  defValue : Rat := 0
  min : Rat := 0
  max : Rat := 0
  deriving Repr, DecidableEq, Inhabited

/-- `*EnumAttribute`: Name(), defValue, Values() (by index) -/
structure EnumAttr where
  name : String
  defValue : String := ""
  values : List String := []
  deriving Repr, DecidableEq, Inhabited

/-- `Attribute` (interface): `att.Type()` / `ToString()` / `ToInteger()` / `ToFloat()` / `ToEnum()` ↦ `match` -/
inductive Attr where
  | string (a : StrAttr)
  | integer (a : IntAttr)
  | float (a : FloatAttr)
  | enum (a : EnumAttr)
  deriving Repr, DecidableEq, Inhabited

def Attr.name : Attr → String
  | .string a => a.name
  | .integer a => a.name
  | .float a => a.name
  | .enum a => a.name

/-- the `any` value of an assignment; `v.(T)` ↦ `asStr` / `asInt` / `asFloat` (panic on another type) -/
inductive AnyVal where
  | str (s : String)
  | int (i : Int)
  | float (q : Rat)
  deriving Repr, DecidableEq, Inhabited

def asStr : AnyVal → Res String
  | .str s => .val s
  | _ => .panic

def asInt : AnyVal → Res Int
  | .int i => .val i
  | _ => .panic

def asFloat : AnyVal → Res Rat
  | .float q => .val q
  | _ => .panic

/-- `*AttributeAssignment`: attribute, value -/
structure AttrAssignment where
  att : Attr
  value : AnyVal
  deriving Repr, DecidableEq, Inhabited

/-- `dbc.Attribute` -/
structure DbcAttribute where
  kind : Acme.Dbc.AttributeKind := .general
  type : Acme.Dbc.AttributeType := .int
  name : String := ""
  minInt : Int := 0
  maxInt : Int := 0
  minHex : Nat := 0
  maxHex : Nat := 0
  minFloat : Rat := 0
  maxFloat : Rat := 0
  enumValues : List String := []
  deriving Repr, DecidableEq, Inhabited

/-- `dbc.AttributeDefault` -/
structure DbcAttributeDefault where
  type : Acme.Dbc.AttrValType := .int
  attributeName : String := ""
  valueString : String := ""
  valueInt : Int := 0
  valueHex : Nat := 0
  valueFloat : Rat := 0
  deriving Repr, DecidableEq, Inhabited

/-- `dbc.AttributeValue` -/
structure DbcAttributeValue where
  attributeKind : Acme.Dbc.AttributeKind := .general
  type : Acme.Dbc.AttrValType := .int
  attributeName : String := ""
  nodeName : String := ""
  messageID : Nat := 0
  signalName : String := ""
  envVarName : String := ""
  valueString : String := ""
  valueInt : Int := 0
  valueHex : Nat := 0
  valueFloat : Rat := 0
  deriving Repr, DecidableEq, Inhabited

/-- `dbc.Nodes` -/
structure DbcNodes where
  names : List String := []
  deriving Repr, DecidableEq, Inhabited

/-- the exporter: `e.dbcFile` (the sections it appends to), `e.currDBCMsg.Signals`, `e.sigEnums` -/
structure St where
  comments : List Acme.Dbc.Comment := []
  valueEncodings : List Acme.Dbc.ValueEncoding := []
  extendedMuxes : List Acme.Dbc.ExtendedMux := []
  messages : List DbcMessage := []
  curSignals : List DbcSignal := []
  sigEnums : List (Nat × SigEnum) := []
  valueTables : List Acme.Dbc.ValueTable := []
  /-- `e.dbcFile.Nodes` (a pointer, nil until `exportNodeInterfaces` sets it) -/
  nodes : Option DbcNodes := none
  attributes : List DbcAttribute := []
  attributeDefaults : List DbcAttributeDefault := []
  attributeValues : List DbcAttributeValue := []
  /-- `e.attNames` / `nodeAttNames` / `msgAttNames` / `sigAttNames` (maps used as sets) -/
  attNames : List (String × Bool) := []
  nodeAttNames : List (String × Bool) := []
  msgAttNames : List (String × Bool) := []
  sigAttNames : List (String × Bool) := []
  deriving Repr, Inhabited

end Acme.XSem
