/-
Model of `SignalLayout.generateFilters` and of the raw-value loop of `SignalLayout.Decode`
(/repo/signal_layout.go).

A payload is a list of bytes (`Nat < 256`).  Positions/sizes are `Int` as in Layout;
masks are `Nat` after the `uint8(mask)` conversion.  The raw value is a Go `uint64`; the
model accumulates in `Nat` (no wrap-around can occur for sizes ≤ 64, which the theorems
assume and the harness respects).
-/
import Acme.Core.Layout

namespace Acme.Bits
open Acme.Layout

structure Filter where
  id : Nat
  byteIdx : Int
  mask : Nat
  length : Int
  leftOffset : Int
  be : Bool
  deriving Repr, DecidableEq, Inhabited

/-- `uint8(x)` -/
def u8 (x : Nat) : Nat := x % 256

/-- the multi-byte loop of `generateFilters` for byte indexes `i .. lastIdx`
    (`fuel` = number of remaining iterations, `lastIdx - i + 1`) -/
def multiLoop (id : Nat) (be : Bool) (startPos firstIdx lastIdx : Int) :
    (fuel : Nat) → (i : Int) → (remaining : Int) → List Filter
  | 0, _, _ => []
  | fuel + 1, i, remaining =>
    let f : Filter :=
      if i ≠ firstIdx ∧ i ≠ lastIdx then ⟨id, i, 0xff, 8, 0, be⟩
      else if i = firstIdx then
        let tmpOffset := Int.tmod startPos 8
        if be then ⟨id, i, u8 (0xff >>> tmpOffset.toNat), 8 - tmpOffset, 0, be⟩
        else ⟨id, i, u8 (0xff <<< tmpOffset.toNat), 8 - tmpOffset, tmpOffset, be⟩
      else
        let m := 1 <<< remaining.toNat - 1
        if be then ⟨id, i, u8 (m <<< (8 - remaining).toNat), remaining, 8 - remaining, be⟩
        else ⟨id, i, u8 m, remaining, 0, be⟩
    f :: multiLoop id be startPos firstIdx lastIdx fuel (i + 1) (remaining - f.length)

/-- filters of one signal -/
def sigFilters (s : Slot) (be : Bool) : List Filter :=
  let firstIdx := Int.tdiv s.start 8
  let lastIdx := Int.tdiv (s.start + s.size - 1) 8
  if firstIdx = lastIdx then
    let leftOffset := Int.tmod s.start 8
    [⟨s.id, firstIdx, u8 ((1 <<< s.size.toNat - 1) <<< leftOffset.toNat), s.size, leftOffset, be⟩]
  else
    multiLoop s.id be s.start firstIdx lastIdx
      (lastIdx - firstIdx + 1).toNat firstIdx s.size

/-- `generateFilters`: signals in slice order, each with its endianness -/
def genFilters (l : List (Slot × Bool)) : List Filter :=
  l.flatMap (fun (s, be) => sigFilters s be)

/-- `(data[byteIdx] & mask) >> leftOffset`; `none` = index out of range (Go panic) -/
def chunk (data : List Nat) (f : Filter) : Option Nat :=
  if f.byteIdx < 0 then none
  else match data[f.byteIdx.toNat]? with
    | none => none
    | some b => some ((b &&& f.mask) >>> f.leftOffset.toNat)

/-- the loop of `Decode`: state = (current id, raw, consumedBits) -/
def decodeLoop (data : List Nat) :
    List Filter → (cur : Option Nat) → (raw : Nat) → (consumed : Int) → Option (List (Nat × Nat))
  | [], cur, raw, _ =>
    match cur with
    | none => some []
    | some id => some [(id, raw)]
  | f :: rest, cur, raw, consumed =>
    let fresh := cur ≠ some f.id
    let raw0 := if fresh then 0 else raw
    let consumed0 := if fresh then 0 else consumed
    match chunk data f with
    | none => none
    | some tmp =>
      let (raw1, consumed1) :=
        if !f.be then (raw0 ||| (tmp <<< consumed0.toNat), consumed0 + f.length)
        else ((raw0 <<< f.length.toNat) ||| tmp, consumed0)
      match decodeLoop data rest (some f.id) raw1 consumed1 with
      | none => none
      | some out =>
        match cur with
        | some id => if fresh then some ((id, raw) :: out) else some out
        | none => some out

/-- raw values of `Decode` in layout order; `none` = the Go code indexes past the data -/
def decodeRaw (filters : List Filter) (data : List Nat) : Option (List (Nat × Nat)) :=
  decodeLoop data filters none 0 0

end Acme.Bits
