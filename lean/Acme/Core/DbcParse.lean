/-
`parseToks`: token-level model of `parser.go`, one Lean function per parser function.

The input is the list of the scanner's non-space tokens.  Reading past the end of the list
yields `eof` (the real scanner keeps returning eof tokens), so a list may or may not end with an
explicit `eof`.  An `eof` token INSIDE the list models the scanner's eof token for a NUL
character (after which the real scanner keeps scanning): the top-level loop stops there, the
`NS_` loop consumes it.

`p.scan()` / `p.unscan()`: the parser has a one-token push-back which it never uses twice in a
row, so `scan; unscan` is modelled by inspecting the head of the list without consuming it: every
function takes the remaining tokens and returns the remaining tokens.

Errors: only accept/reject is observable by the harness; `PErr.syntax msg` carries the message
of the `errorf` call (without position).  `PErr.fuel` is never returned when the fuel is
`tokens.length + 1` (every loop iteration consumes at least one token).

Unreachable Go panics (inputs that the scanner never produces) are answered with an error:
a mux-indicator token with an empty value and a number-range token without `-`.
-/
import Acme.Core.Dbc

namespace Acme.Dbc

inductive PErr
  | syntax (msg : String)
  | fuel
  deriving DecidableEq, Repr, Inhabited

/-- result of a parser function: value and remaining tokens
(a notation, so that `do` blocks see the `Except PErr` monad) -/
notation:max "PRes " α:max => Except PErr (α × List Token)

def perr {α : Type} (msg : String) : Except PErr α := .error (.syntax msg)

/-- the parser's duplicate-section flags -/
structure PFlags where
  foundVer : Bool := false
  foundNewSym : Bool := false
  foundBitTim : Bool := false
  foundNode : Bool := false
  deriving DecidableEq, Repr, Inhabited

/-! ## primitive expectations -/

/-- `expectPunct` -/
def expectPunct (k : PunctKind) : List Token → Except PErr (List Token)
  | .punct v :: ts => if getPunctKind v = k then .ok ts else perr "expected punct"
  | _ => perr "expected punct"

/-- `t := p.scan(); if !t.isNumber() { error }` -/
def scanNumber (msg : String) : List Token → PRes String
  | .number v :: ts => .ok (v, ts)
  | _ => perr msg

/-- `t := p.scan(); if !t.isIdent() { error }` -/
def scanIdent (msg : String) : List Token → PRes String
  | .ident v :: ts => .ok (v, ts)
  | _ => perr msg

/-- `t := p.scan(); if !t.isString() { error }` -/
def scanString (msg : String) : List Token → PRes String
  | .string v :: ts => .ok (v, ts)
  | _ => perr msg

def uintOf (msg : String) (v : String) : Except PErr Nat :=
  match parseUint v with
  | some n => .ok n
  | none => perr msg

def intOf (msg : String) (v : String) : Except PErr Int :=
  match parseInt v with
  | some n => .ok n
  | none => perr msg

def hexOf (hex : Bool) (msg : String) (v : String) : Except PErr Nat :=
  match parseHexInt hex v with
  | some n => .ok n
  | none => perr msg

def doubleOf (msg : String) (v : String) : Except PErr String :=
  match parseDouble v with
  | some x => .ok x
  | none => perr msg

/-- number token parsed by `parseUint` -/
def scanUint (msgTok msgVal : String) (ts : List Token) : PRes Nat := do
  let (v, ts) ← scanNumber msgTok ts
  let n ← uintOf msgVal v
  pure (n, ts)

/-- number token parsed by `parseDouble` -/
def scanDouble (msgTok msgVal : String) (ts : List Token) : PRes String := do
  let (v, ts) ← scanNumber msgTok ts
  let x ← doubleOf msgVal v
  pure (x, ts)

/-- `parseNodeName` -/
def parseNodeName (ts : List Token) : PRes String := scanIdent "expected node name" ts

/-- `parseSignalName` -/
def parseSignalName (ts : List Token) : PRes String := scanIdent "expected signal name" ts

/-- `parseEnvVarName` -/
def parseEnvVarName (ts : List Token) : PRes String := scanIdent "expected envvar name" ts

/-- `parseMessageID` -/
def parseMessageID (ts : List Token) : PRes Nat :=
  scanUint "expected message id" "cannot parse message id as uint" ts

/-! ## loops over simple tokens -/

/-- `for { t := p.scan(); if !t.isIdent() { p.unscan(); break }; xs = append(xs, t.value) }` -/
def parseIdents : List Token → List String × List Token
  | .ident v :: ts => let r := parseIdents ts; (v :: r.1, r.2)
  | ts => ([], ts)

/-- `for { if !p.scan().isPunct(punctComma) { p.unscan(); break }; <ident or error> }` -/
def parseCommaIdents (msg : String) : List Token → PRes (List String)
  | .punct p :: .ident v :: ts =>
    if getPunctKind p = .comma then
      match parseCommaIdents msg ts with
      | .ok (xs, r) => .ok (v :: xs, r)
      | .error e => .error e
    else .ok ([], .punct p :: .ident v :: ts)
  | .punct p :: ts =>
    if getPunctKind p = .comma then perr msg else .ok ([], .punct p :: ts)
  | ts => .ok ([], ts)

/-- the same loop with string tokens (enum values) -/
def parseCommaStrings (msg : String) : List Token → PRes (List String)
  | .punct p :: .string v :: ts =>
    if getPunctKind p = .comma then
      match parseCommaStrings msg ts with
      | .ok (xs, r) => .ok (v :: xs, r)
      | .error e => .error e
    else .ok ([], .punct p :: .string v :: ts)
  | .punct p :: ts =>
    if getPunctKind p = .comma then perr msg else .ok ([], .punct p :: ts)
  | ts => .ok ([], ts)

/-! ## sections -/

/-- `parseVersion` -/
def parseVersion (fl : PFlags) (ts : List Token) : PRes (String × PFlags) :=
  if fl.foundVer then perr "duplicated version" else
  match ts with
  | .string v :: ts => .ok ((v, { fl with foundVer := true }), ts)
  | _ => perr "expected version"

/-- the symbol loop of `parseNewSymbols` -/
def parseNewSymbolsLoop : List Token → PRes (List String)
  | [] => .ok ([], [])
  | .eof :: ts => .ok ([], ts)
  | .keyword v :: ts =>
    if getKeywordKind v = .bitTiming then .ok ([], .keyword v :: ts)
    else if newSymbolsValues.contains v then
      match parseNewSymbolsLoop ts with
      | .ok (xs, r) => .ok (v :: xs, r)
      | .error e => .error e
    else perr "invalid new symbol"
  | .ident v :: ts =>
    if newSymbolsValues.contains v then
      match parseNewSymbolsLoop ts with
      | .ok (xs, r) => .ok (v :: xs, r)
      | .error e => .error e
    else perr "invalid new symbol"
  | _ :: ts => parseNewSymbolsLoop ts

/-- `parseNewSymbols` -/
def parseNewSymbols (fl : PFlags) (ts : List Token) : PRes (List String × PFlags) :=
  if fl.foundNewSym then perr "duplicated new symbols" else do
  let ts ← expectPunct .colon ts
  let (syms, ts) ← parseNewSymbolsLoop ts
  pure ((syms, { fl with foundNewSym := true }), ts)

/-- `parseBitTiming` (the flag `foundBitTim` is set by the caller, as the first statement of the Go function) -/
def parseBitTiming (fl : PFlags) (ts : List Token) : PRes BitTiming :=
  if fl.foundBitTim then perr "duplicated bit timing" else do
  let ts ← expectPunct .colon ts
  match ts with
  | [] => pure ({}, ts)
  | .eof :: _ => pure ({}, ts)
  | .keyword _ :: _ => pure ({}, ts)
  | .number v :: ts =>
    -- a parseUint error is returned as it is
    let baudrate ← uintOf "parseUint" v
    let ts ← expectPunct .colon ts
    let (v1, ts) ← scanNumber "expected bit timing for register 1" ts
    let btr1 ← uintOf "parseUint" v1
    let ts ← expectPunct .comma ts
    let (v2, ts) ← scanNumber "expected bit timing for register 2" ts
    let btr2 ← uintOf "parseUint" v2
    pure ({ baudrate := baudrate, bitTimingReg1 := btr1, bitTimingReg2 := btr2 }, ts)
  | _ => perr "expected bit timing baudrate"

/-- `parseNodes` -/
def parseNodes (fl : PFlags) (ts : List Token) : PRes (List String × PFlags) :=
  if fl.foundNode then perr "duplicated node definition" else do
  let ts ← expectPunct .colon ts
  let r := parseIdents ts
  pure ((r.1, { fl with foundNode := true }), r.2)

/-- the loop `for { t := p.scan(); p.unscan(); if !t.isNumber() { break }; parseValueDescription }`
(inside the loop `parseValueDescription` always sees a number token) -/
def parseValueDescriptions : List Token → PRes (List ValueDescription)
  | .number v :: .string s :: ts =>
    match parseUint v with
    | none => perr "cannot parse value description id as uint"
    | some id =>
      match parseValueDescriptions ts with
      | .ok (vds, r) => .ok ({ id := id, name := s } :: vds, r)
      | .error e => .error e
  | .number v :: _ =>
    match parseUint v with
    | none => perr "cannot parse value description id as uint"
    | some _ => perr "expected value description name after id"
  | ts => .ok ([], ts)

/-- `parseValueTable` -/
def parseValueTable (ts : List Token) : PRes ValueTable := do
  let (name, ts) ← scanIdent "expected value table name" ts
  let (vds, ts) ← parseValueDescriptions ts
  let ts ← expectPunct .semicolon ts
  pure ({ name := name, values := vds }, ts)

/-- the mux-indicator branch of `parseSignal`: `(isMultiplexor, isMultiplexed, muxSwitchValue)` -/
def parseMuxIndicator (v : String) : Except PErr (Bool × Bool × Nat) :=
  let cs := v.toList
  let isMultiplexor := cs.getLast? == some 'M'
  match cs with
  | [] => perr "empty mux indicator"
  | 'm' :: rest =>
    let numCs := if isMultiplexor then rest.dropLast else rest
    match parseUintCs numCs with
    | some n => .ok (isMultiplexor, true, n)
    | none => perr "cannot parse signal multiplexer switch number as uint"
  | _ => .ok (isMultiplexor, false, 0)

/-- optional mux indicator: `t := p.scan(); if t.isMuxIndicator() {…} else { p.unscan() }` -/
def parseOptMux : List Token → PRes (Bool × Bool × Nat)
  | .muxIndicator v :: ts =>
    match parseMuxIndicator v with
    | .ok m => .ok (m, ts)
    | .error e => .error e
  | ts => .ok ((false, false, 0), ts)

/-- byte order: number token, `parseUint`, 0 = big endian, 1 = little endian -/
def parseByteOrder (ts : List Token) : PRes ByteOrder := do
  let (n, ts) ← scanUint "expected signal byte order" "cannot parse signal byte order as uint" ts
  if n = 0 then pure (.bigEndian, ts)
  else if n = 1 then pure (.littleEndian, ts)
  else perr "signal byte order must be 0 or 1"

/-- value type: punct `+` or `-`; then `t.value == "+"` decides -/
def parseValueType : List Token → PRes ValueType
  | .punct v :: ts =>
    if getPunctKind v = .plus ∨ getPunctKind v = .minus then
      .ok (if v = "+" then .unsigned else .signed, ts)
    else perr "expected \"+\" or \"-\""
  | _ => perr "expected \"+\" or \"-\""

/-- `(factor,offset) [min|max]` -/
def parseScaling (ts : List Token) : PRes (String × String × String × String) := do
  let ts ← expectPunct .leftParen ts
  let (factor, ts) ← scanDouble "expected signal factor" "cannot parse signal factor as double" ts
  let ts ← expectPunct .comma ts
  let (offset, ts) ← scanDouble "expected signal offset" "cannot parse signal offset as double" ts
  let ts ← expectPunct .rightParen ts
  let ts ← expectPunct .leftSquareBrace ts
  let (min, ts) ← scanDouble "expected signal minimum" "cannot parse signal minimum as double" ts
  let ts ← expectPunct .pipe ts
  let (max, ts) ← scanDouble "expected signal maximum" "cannot parse signal maximum as double" ts
  let ts ← expectPunct .rightSquareBrace ts
  pure ((factor, offset, min, max), ts)

/-- `parseSignal` (after the `SG_` keyword) -/
def parseSignal (ts : List Token) : PRes Signal := do
  let (name, ts) ← parseSignalName ts
  let (mux, ts) ← parseOptMux ts
  let ts ← expectPunct .colon ts
  let (startBit, ts) ← scanUint "expected signal start bit" "cannot parse signal start bit as uint" ts
  let ts ← expectPunct .pipe ts
  let (size, ts) ← scanUint "expected signal size" "cannot parse signal size as uint" ts
  let ts ← expectPunct .at ts
  let (byteOrder, ts) ← parseByteOrder ts
  let (valueType, ts) ← parseValueType ts
  let (sc, ts) ← parseScaling ts
  let (unit, ts) ← scanString "expected signal unit" ts
  let (recv0, ts) ← scanIdent "expected signal receiver" ts
  let (recvs, ts) ← parseCommaIdents "expected signal receiver" ts
  pure ({ name := name, isMultiplexor := mux.1, isMultiplexed := mux.2.1, muxSwitchValue := mux.2.2,
          size := size, startBit := startBit, byteOrder := byteOrder, valueType := valueType,
          factor := sc.1, offset := sc.2.1, min := sc.2.2.1, max := sc.2.2.2,
          unit := unit, receivers := recv0 :: recvs }, ts)

/-- `for { if !p.scan().isKeyword(keywordSignal) { p.unscan(); break }; parseSignal }` -/
def parseSignals : Nat → List Token → PRes (List Signal)
  | 0, _ => .error .fuel
  | fuel + 1, .keyword v :: ts =>
    if getKeywordKind v = .signal then
      match parseSignal ts with
      | .error e => .error e
      | .ok (sig, ts') =>
        match parseSignals fuel ts' with
        | .ok (sigs, r) => .ok (sig :: sigs, r)
        | .error e => .error e
    else .ok ([], .keyword v :: ts)
  | _ + 1, ts => .ok ([], ts)

/-- `parseMessage` -/
def parseMessage (ts : List Token) : PRes Message := do
  let (id, ts) ← parseMessageID ts
  let (name, ts) ← scanIdent "expected message name" ts
  let ts ← expectPunct .colon ts
  let (size, ts) ← scanUint "expected message size" "cannot parse message size as uint" ts
  let (tx, ts) ← scanIdent "expected message transmitter" ts
  let (sigs, ts) ← parseSignals (ts.length + 1) ts
  pure ({ id := id, name := name, size := size, transmitter := tx, signals := sigs }, ts)

/-- `parseMessageTransmitter` -/
def parseMessageTransmitter (ts : List Token) : PRes MessageTransmitter := do
  let (id, ts) ← parseMessageID ts
  let ts ← expectPunct .colon ts
  let r := parseIdents ts
  let ts ← expectPunct .semicolon r.2
  pure ({ messageID := id, transmitters := r.1 }, ts)

/-- `parseEnvVar` -/
def parseEnvVar (ts : List Token) : PRes EnvVar := do
  let (name, ts) ← scanIdent "expected envvar name" ts
  let ts ← expectPunct .colon ts
  let (typ, ts) ← scanUint "expected envvar type" "cannot parse envvar type as uint" ts
  let type : EnvVarType ←
    if typ = 0 then pure EnvVarType.int
    else if typ = 1 then pure EnvVarType.float
    else if typ = 2 then pure EnvVarType.string
    else perr "envvar type must be 0, 1 or 2"
  let ts ← expectPunct .leftSquareBrace ts
  let (min, ts) ← scanDouble "expected envvar minimum value" "cannot parse envvar minimum value as double" ts
  let ts ← expectPunct .pipe ts
  let (max, ts) ← scanDouble "expected envvar maximum value" "cannot parse envvar maximum value as double" ts
  let ts ← expectPunct .rightSquareBrace ts
  let (unit, ts) ← scanString "expected envvar unit" ts
  let (init, ts) ← scanDouble "expected envvar initial value" "cannot parse envvar initial value as double" ts
  let (id, ts) ← scanUint "expected envvar id" "cannot parse envvar id as uint" ts
  let (accName, ts) ← scanIdent "expected envvar access type" ts
  let acc ← match accessTypeOfName? accName with
    | some a => pure a
    | none => perr "unknown envvar access type"
  let (node0, ts) ← parseNodeName ts
  let (nodes, ts) ← parseCommaIdents "expected node name" ts
  let ts ← expectPunct .semicolon ts
  pure ({ name := name, type := type, min := min, max := max, unit := unit, initialValue := init,
          id := id, accessType := acc, accessNodes := node0 :: nodes }, ts)

/-- `parseEnvVarData` -/
def parseEnvVarData (ts : List Token) : PRes EnvVarData := do
  let (name, ts) ← parseEnvVarName ts
  let ts ← expectPunct .colon ts
  let (size, ts) ← scanUint "expected envvar data size" "cannot parse envvar data size as uint" ts
  let ts ← expectPunct .semicolon ts
  pure ({ envVarName := name, dataSize := size }, ts)

/-- the `tokenIdent` branch of `parseSignalType` -/
def parseSignalTypeDef (ts : List Token) : PRes SignalType := do
  let (name, ts) ← scanIdent "expected signal type name" ts
  let ts ← expectPunct .colon ts
  let (size, ts) ← scanUint "expected signal size" "cannot parse signal size as uint" ts
  let ts ← expectPunct .at ts
  let (byteOrder, ts) ← parseByteOrder ts
  let (valueType, ts) ← parseValueType ts
  let (sc, ts) ← parseScaling ts
  let (unit, ts) ← scanString "expected signal unit" ts
  let (defVal, ts) ← scanDouble "expected signal default value" "cannot parse signal default value as double" ts
  let ts ← expectPunct .comma ts
  let (vt, ts) ← scanIdent "expected signal value table name" ts
  let ts ← expectPunct .semicolon ts
  pure ({ typeName := name, size := size, byteOrder := byteOrder, valueType := valueType,
          factor := sc.1, offset := sc.2.1, min := sc.2.2.1, max := sc.2.2.2, unit := unit,
          defaultValue := defVal, valueTableName := vt }, ts)

/-- the `tokenNumber` branch of `parseSignalType` -/
def parseSignalTypeRef (ts : List Token) : PRes SignalTypeRef := do
  let (id, ts) ← parseMessageID ts
  let (sig, ts) ← parseSignalName ts
  let ts ← expectPunct .colon ts
  let (name, ts) ← scanIdent "expected signal type name" ts
  let ts ← expectPunct .semicolon ts
  pure ({ typeName := name, messageID := id, signalName := sig }, ts)

/-- `parseSignalType`: `inl` = signal type, `inr` = signal type reference -/
def parseSignalType (ts : List Token) : PRes (SignalType ⊕ SignalTypeRef) :=
  match ts with
  | .ident _ :: _ =>
    match parseSignalTypeDef ts with
    | .ok (st, r) => .ok (.inl st, r)
    | .error e => .error e
  | .number _ :: _ =>
    match parseSignalTypeRef ts with
    | .ok (sr, r) => .ok (.inr sr, r)
    | .error e => .error e
  | _ => perr "expected signal type name or message id"

/-- `parseComment` -/
def parseComment (ts : List Token) : PRes Comment := do
  let (c, ts) ← (match ts with
    | .string _ :: _ => (pure (({ kind := .general } : Comment), ts) : PRes Comment)
    | .keyword k :: ts =>
      match getKeywordKind k with
      | .node => do
        let (n, ts) ← parseNodeName ts
        pure ({ kind := .node, nodeName := n }, ts)
      | .message => do
        let (id, ts) ← parseMessageID ts
        pure ({ kind := .message, messageID := id }, ts)
      | .signal => do
        let (id, ts) ← parseMessageID ts
        let (s, ts) ← parseSignalName ts
        pure ({ kind := .signal, messageID := id, signalName := s }, ts)
      | .envVar => do
        let (n, ts) ← parseEnvVarName ts
        pure ({ kind := .envVar, envVarName := n }, ts)
      | _ => perr "expected node, message, signal or envvar keyword"
    | _ => perr "expected string or keyword")
  let (text, ts) ← scanString "expected comment text string" ts
  let ts ← expectPunct .semicolon ts
  pure ({ c with text := text }, ts)

/-- `parseAttributeName` -/
def parseAttributeName : List Token → PRes String
  | .string v :: ts =>
    if v.toList.any (fun c => c == ' ' || c == '\t' || c == '\n') then
      perr "attribute name cannot contain whitespaces"
    else .ok (v, ts)
  | _ => perr "expected attribute name"

/-- the object-type part of `parseAttribute` -/
def parseAttributeKind : List Token → PRes AttributeKind
  | .string v :: ts => .ok (.general, .string v :: ts)
  | .keyword k :: ts =>
    match getKeywordKind k with
    | .node => .ok (.node, ts)
    | .message => .ok (.message, ts)
    | .signal => .ok (.signal, ts)
    | .envVar => .ok (.envVar, ts)
    | _ => perr "expected node, message, signal or envvar keyword"
  | _ => perr "expected string or keyword"

/-- `parseAttribute` -/
def parseAttribute (hex : Bool) (ts : List Token) : PRes Attribute := do
  let (kind, ts) ← parseAttributeKind ts
  let (name, ts) ← parseAttributeName ts
  let (att, ts) ← (match ts with
    | .keyword k :: ts =>
      match getKeywordKind k with
      | .attributeInt => do
        let (v1, ts) ← scanNumber "expected int attribute min value" ts
        let mn ← intOf "cannot parse int attribute min value as int" v1
        let (v2, ts) ← scanNumber "expected int attribute max value" ts
        let mx ← intOf "cannot parse int attribute max value as int" v2
        pure (({ kind := kind, name := name, type := .int, minInt := mn, maxInt := mx } : Attribute), ts)
      | .attributeHex => do
        let (v1, ts) ← scanNumber "expected hex attribute min value" ts
        let mn ← hexOf hex "cannot parse hex attribute min value as int" v1
        let (v2, ts) ← scanNumber "expected hex attribute max value" ts
        let mx ← hexOf hex "cannot parse hex attribute max value as int" v2
        pure ({ kind := kind, name := name, type := .hex, minHex := mn, maxHex := mx }, ts)
      | .attributeFloat => do
        let (mn, ts) ← scanDouble "expected float attribute min value" "cannot parse float attribute min value as double" ts
        let (mx, ts) ← scanDouble "expected float attribute max value" "cannot parse float attribute max value as double" ts
        pure ({ kind := kind, name := name, type := .float, minFloat := mn, maxFloat := mx }, ts)
      | .attributeString =>
        pure ({ kind := kind, name := name, type := .string }, ts)
      | .attributeEnum =>
        -- the list of values can be empty
        match ts with
        | .string e0 :: ts => do
          let (es, ts) ← parseCommaStrings "expected enum attribute values" ts
          pure ({ kind := kind, name := name, type := .enum, enumValues := e0 :: es }, ts)
        | _ => pure ({ kind := kind, name := name, type := .enum, enumValues := [] }, ts)
      | _ => perr "expected attribute type keyword to be INT, HEX, FLOAT, STRING or ENUM"
    | _ => perr "expected attribute type keyword")
  let ts ← expectPunct .semicolon ts
  pure (att, ts)

/-- a parsed attribute value (the `t.isString() / t.isNumber()` cascade shared by
`parseAttributeDefault` and `parseAttributeValue`) -/
structure AttrVal where
  type : AttrValType := .int
  valueString : String := ""
  valueInt : Int := 0
  valueHex : Nat := 0
  valueFloat : String := "0"
  deriving DecidableEq, Repr, Inhabited

def parseAttrVal (hex : Bool) (what : String) : List Token → PRes AttrVal
  | .string v :: ts => .ok ({ type := .string, valueString := v }, ts)
  | .number v :: ts =>
    if hasHexPrefix v then
      match parseHexInt hex v with
      | some n => .ok ({ type := .hex, valueHex := n }, ts)
      | none => perr ("cannot parse hex " ++ what ++ " as int")
    else if containsDot v then
      match parseDouble v with
      | some x => .ok ({ type := .float, valueFloat := x }, ts)
      | none => perr ("cannot parse float " ++ what ++ " as double")
    else
      match parseInt v with
      | some i => .ok ({ type := .int, valueInt := i }, ts)
      | none =>
        -- the number does not fit an int (or has an exponent): it is a double
        match parseDouble v with
        | some x => .ok ({ type := .float, valueFloat := x }, ts)
        | none => perr ("cannot parse int " ++ what ++ " as int")
  | _ => perr ("expected " ++ what)

/-- `parseAttributeDefault` -/
def parseAttributeDefault (hex : Bool) (ts : List Token) : PRes AttributeDefault := do
  let (name, ts) ← parseAttributeName ts
  let (v, ts) ← parseAttrVal hex "attribute default value" ts
  let ts ← expectPunct .semicolon ts
  pure ({ type := v.type, attributeName := name, valueString := v.valueString,
          valueInt := v.valueInt, valueHex := v.valueHex, valueFloat := v.valueFloat }, ts)

/-- the object part of `parseAttributeValue` -/
def parseAttributeValueObject : List Token → PRes AttributeValue
  | .string v :: ts => .ok ({ attributeKind := .general }, .string v :: ts)
  | .number v :: ts => .ok ({ attributeKind := .general }, .number v :: ts)
  | .keyword k :: ts =>
    match getKeywordKind k with
    | .node => do
      let (n, ts) ← parseNodeName ts
      pure ({ attributeKind := .node, nodeName := n }, ts)
    | .message => do
      let (id, ts) ← parseMessageID ts
      pure ({ attributeKind := .message, messageID := id }, ts)
    | .signal => do
      let (id, ts) ← parseMessageID ts
      let (s, ts) ← parseSignalName ts
      pure ({ attributeKind := .signal, messageID := id, signalName := s }, ts)
    | .envVar => do
      let (n, ts) ← parseEnvVarName ts
      pure ({ attributeKind := .envVar, envVarName := n }, ts)
    | _ => perr "expected node, message, signal or envvar keyword"
  | _ => perr "expected string, number or keyword"

/-- `parseAttributeValue` (the attribute name is NOT checked for blanks here) -/
def parseAttributeValue (hex : Bool) (ts : List Token) : PRes AttributeValue := do
  let (name, ts) ← scanString "expected attribute value" ts
  let (obj, ts) ← parseAttributeValueObject ts
  let (v, ts) ← parseAttrVal hex "attribute value" ts
  let ts ← expectPunct .semicolon ts
  let av : AttributeValue :=
    { obj with
      attributeName := name
      type := v.type
      valueString := v.valueString
      valueInt := v.valueInt
      valueHex := v.valueHex
      valueFloat := v.valueFloat }
  pure (av, ts)

/-- `parseValueEncoding` -/
def parseValueEncoding (ts : List Token) : PRes ValueEncoding := do
  let (ve, ts) ← (match ts with
    | .ident _ :: _ => do
      let (n, ts) ← parseEnvVarName ts
      pure (({ kind := .envVar, envVarName := n } : ValueEncoding), ts)
    | .number _ :: _ => do
      let (id, ts) ← parseMessageID ts
      let (s, ts) ← parseSignalName ts
      pure ({ kind := .signal, messageID := id, signalName := s }, ts)
    | _ => perr "expected value encoding message id or envvar name")
  let (vds, ts) ← parseValueDescriptions ts
  let ts ← expectPunct .semicolon ts
  pure ({ ve with values := vds }, ts)

/-- `parseSignalGroup` -/
def parseSignalGroup (ts : List Token) : PRes SignalGroup := do
  let (id, ts) ← parseMessageID ts
  let (name, ts) ← scanIdent "expected signal group name" ts
  let (reps, ts) ← scanUint "expected signal group repetitions" "cannot parse signal group repetitions as uint" ts
  let ts ← expectPunct .colon ts
  let r := parseIdents ts
  let ts ← expectPunct .semicolon r.2
  pure ({ messageID := id, groupName := name, repetitions := reps, signalNames := r.1 }, ts)

/-- `parseSignalExtValueType` -/
def parseSignalExtValueType (ts : List Token) : PRes SignalExtValueType := do
  let (id, ts) ← parseMessageID ts
  let (sig, ts) ← parseSignalName ts
  let (vt, ts) ← scanUint "expected signal extended value type" "cannot parse signal extended value type as uint" ts
  let t : ExtValueType ←
    if vt = 0 then pure ExtValueType.integer
    else if vt = 1 then pure ExtValueType.float
    else if vt = 2 then pure ExtValueType.double
    else perr "signal extended value type must be 0, 1 or 2"
  let ts ← expectPunct .semicolon ts
  pure ({ messageID := id, signalName := sig, extValueType := t }, ts)

/-- the value of a number-range token: `strings.Split(v, "-")`, elements 0 and 1 -/
def parseRangeText (v : String) : Except PErr ExtendedMuxRange :=
  let cs := v.toList
  let a := cs.takeWhile (· != '-')
  match cs.dropWhile (· != '-') with
  | [] => perr "number range without '-'"
  | _ :: rest =>
    let b := rest.takeWhile (· != '-')
    match parseUintCs a, parseUintCs b with
    | some f, some t => .ok { from_ := f, to := t }
    | _, _ => perr "cannot parse extended mux range as uint"

/-- `parseExtendedMuxRange` -/
def parseExtendedMuxRange : List Token → PRes ExtendedMuxRange
  | .numberRange v :: ts =>
    match parseRangeText v with
    | .ok r => .ok (r, ts)
    | .error e => .error e
  | _ => perr "expected extended mux range"

/-- `for { t = p.scan(); if !t.isPunct(punctComma) { p.unscan(); break }; parseExtendedMuxRange }` -/
def parseCommaRanges : List Token → PRes (List ExtendedMuxRange)
  | .punct p :: .numberRange v :: ts =>
    if getPunctKind p = .comma then
      match parseRangeText v with
      | .error e => .error e
      | .ok r =>
        match parseCommaRanges ts with
        | .ok (rs, rest) => .ok (r :: rs, rest)
        | .error e => .error e
    else .ok ([], .punct p :: .numberRange v :: ts)
  | .punct p :: ts =>
    if getPunctKind p = .comma then perr "expected extended mux range" else .ok ([], .punct p :: ts)
  | ts => .ok ([], ts)

/-- `parseExtendedMux` -/
def parseExtendedMux (ts : List Token) : PRes ExtendedMux := do
  let (id, ts) ← parseMessageID ts
  let (muxed, ts) ← scanIdent "expected extended mux multiplexed signal name" ts
  let (muxor, ts) ← scanIdent "expected extended mux multiplexor signal name" ts
  let (r0, ts) ← parseExtendedMuxRange ts
  let (rs, ts) ← parseCommaRanges ts
  let ts ← expectPunct .semicolon ts
  pure ({ messageID := id, multiplexorName := muxor, multiplexedName := muxed, ranges := r0 :: rs }, ts)

/-! ## the top-level loop of `parser.parse` -/

/-- one keyword-led section: the body of `case tokenKeyword` -/
def parseSection (hex : Bool) (k : KeywordKind) (fl : PFlags) (ast : File) (ts : List Token) :
    PRes (File × PFlags) :=
  match k with
  | .version => do
    let ((v, fl), ts) ← parseVersion fl ts
    pure (({ ast with version := v }, fl), ts)
  | .newSymbols => do
    let ((ns, fl), ts) ← parseNewSymbols fl ts
    pure (({ ast with newSymbols := some ns }, fl), ts)
  | .bitTiming => do
    let (bt, ts) ← parseBitTiming fl ts
    pure (({ ast with bitTiming := some bt }, { fl with foundBitTim := true }), ts)
  | .node => do
    let ((n, fl), ts) ← parseNodes fl ts
    pure (({ ast with nodes := some n }, fl), ts)
  | .valueTable => do
    let (x, ts) ← parseValueTable ts
    pure (({ ast with valueTables := ast.valueTables ++ [x] }, fl), ts)
  | .message => do
    let (x, ts) ← parseMessage ts
    pure (({ ast with messages := ast.messages ++ [x] }, fl), ts)
  | .messageTransmitter => do
    let (x, ts) ← parseMessageTransmitter ts
    pure (({ ast with messageTransmitters := ast.messageTransmitters ++ [x] }, fl), ts)
  | .envVar => do
    let (x, ts) ← parseEnvVar ts
    pure (({ ast with envVars := ast.envVars ++ [x] }, fl), ts)
  | .envVarData => do
    let (x, ts) ← parseEnvVarData ts
    pure (({ ast with envVarDatas := ast.envVarDatas ++ [x] }, fl), ts)
  | .signalType => do
    let (x, ts) ← parseSignalType ts
    match x with
    | .inl st => pure (({ ast with signalTypes := ast.signalTypes ++ [st] }, fl), ts)
    | .inr sr => pure (({ ast with signalTypeRefs := ast.signalTypeRefs ++ [sr] }, fl), ts)
  | .comment => do
    let (x, ts) ← parseComment ts
    pure (({ ast with comments := ast.comments ++ [x] }, fl), ts)
  | .attribute => do
    let (x, ts) ← parseAttribute hex ts
    pure (({ ast with attributes := ast.attributes ++ [x] }, fl), ts)
  | .attributeDefault => do
    let (x, ts) ← parseAttributeDefault hex ts
    pure (({ ast with attributeDefaults := ast.attributeDefaults ++ [x] }, fl), ts)
  | .attributeValue => do
    let (x, ts) ← parseAttributeValue hex ts
    pure (({ ast with attributeValues := ast.attributeValues ++ [x] }, fl), ts)
  | .valueEncoding => do
    let (x, ts) ← parseValueEncoding ts
    pure (({ ast with valueEncodings := ast.valueEncodings ++ [x] }, fl), ts)
  | .signalGroup => do
    let (x, ts) ← parseSignalGroup ts
    pure (({ ast with signalGroups := ast.signalGroups ++ [x] }, fl), ts)
  | .signalValueType => do
    let (x, ts) ← parseSignalExtValueType ts
    pure (({ ast with signalExtValueTypes := ast.signalExtValueTypes ++ [x] }, fl), ts)
  | .extendedMux => do
    let (x, ts) ← parseExtendedMux ts
    pure (({ ast with extendedMuxes := ast.extendedMuxes ++ [x] }, fl), ts)
  -- the inner `switch keywordKind` has no case for SG_/INT/HEX/FLOAT/STRING/ENUM (and no
  -- default): such a keyword is skipped
  | .signal | .attributeInt | .attributeHex | .attributeFloat | .attributeString | .attributeEnum =>
    pure ((ast, fl), ts)

/-- `for !t.isEOF() { switch t.kind {…}; t = p.scan() }` -/
def parseLoop (hex : Bool) : Nat → PFlags → File → List Token → Except PErr File
  | 0, _, _, _ => .error .fuel
  | _ + 1, _, ast, [] => .ok ast
  | _ + 1, _, ast, .eof :: _ => .ok ast
  | fuel + 1, fl, ast, .keyword v :: ts =>
    match parseSection hex (getKeywordKind v) fl ast ts with
    | .error e => .error e
    | .ok ((ast', fl'), ts') => parseLoop hex fuel fl' ast' ts'
  | _ + 1, _, _, _ :: _ => perr "unexpected token"

/-- `dbc.Parse` on the token list of the input -/
def parseToks (hexNumbersEnabled : Bool) (ts : List Token) : Except PErr File :=
  parseLoop hexNumbersEnabled (ts.length + 1) {} {} ts

end Acme.Dbc
