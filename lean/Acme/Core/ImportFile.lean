/-
The whole-file DBC importer (property C10): `importer.importFile` as the COMPOSITION of the three
import models

  Acme.ImportBus   nodes, senders, receivers, comments, signal types / units / enums   (bus level)
  Acme.Import      positions, byte order, multiplexer groups of one message              (message level)
  Acme.Attr        attribute definitions, defaults and values                            (attributes)

over ONE document type `DDoc`, from which the three models' inputs are PROJECTIONS (`busView`,
`msgView`, `attrView`): a signal's name / start bit / size appear once.

Pass order of `importFile` (first error wins):

  comments → VAL_TABLE_ → VAL_ → SG_MUL_VAL_ (no refusal) → BU_ → BO_ one by one → attributes →
  removal of the unused placeholder node

and inside one `importMessage` (importer.go):

  1. first loop over the signals sorted by start bit: duplicate name, bounds, byte order   (message level)
  2. receivers, transmitter, `AddSentMessage` (receiver is sender, name, size, CAN-ID)     (bus level)
  3. per NON-multiplexor signal in sorted order `importSignal` (size, enum / type / unit: bus
     level) INTERLEAVED with the placement (`InsertSignal`, extended-multiplexing look-ups,
     `importMuxSignal`: message level).  `Acme.Import.importMsg` marks the place of every
     `importSignal` call by its structural check `checkSig`; a bus-level refusal of the k-th call
     therefore surfaces exactly when `importMsg` — on the message in which that signal is
     POISONED (size 0: `checkSig` refuses it, nothing before it changes, the bounds of the first
     loop only get weaker) — is refused AT the poisoned signal (`sizeZero`); a placement refusal
     that comes earlier surfaces instead.

A multiplexor signal never goes through `importSignal`: it has no type, unit or enum; at the bus
level it only contributes its receivers and its comment.

Core Lean only (the model driver links this file).
-/
import Acme.Core.ImportBus
import Acme.Core.Import
import Acme.Core.Attr

namespace Acme.ImportFile
open Acme.ImportBus (DTable DEnc DComment DSignal DMessage DFile St IMessage ISignal IBus INode
  receiversOf placeholder descOf selSig selMsg selGeneral)
open Acme.Import (sortBy)

/-! ## the document -/

/-- `dbc.Signal`: every field the importer reads, once -/
structure DSig where
  name : String
  start : Nat
  size : Nat
  bigEndian : Bool := false
  isMultiplexor : Bool := false
  isMultiplexed : Bool := false
  muxSwitch : Nat := 0
  signed : Bool := false
  factor : Rat := 1
  offset : Rat := 0
  min : Rat := 0
  max : Rat := 0
  unit : String := ""
  receivers : List String := []
  deriving Repr, DecidableEq, Inhabited

/-- `dbc.Message` -/
structure DMsg where
  id : Nat
  name : String
  size : Nat
  transmitter : String
  sigs : List DSig
  deriving Repr, DecidableEq, Inhabited

/-- `dbc.ExtendedMux` (`SG_MUL_VAL_ id multiplexed multiplexor ranges;`), a section of the file -/
structure DExt where
  msgId : Nat
  muxor : String
  muxed : String
  ranges : List (Nat × Nat)
  deriving Repr, DecidableEq, Inhabited

/-- the sections of `dbc.File` the importer reads -/
structure DDoc where
  nodes : List String := []
  tables : List DTable := []
  encs : List DEnc := []
  comments : List DComment := []
  msgs : List DMsg := []
  exts : List DExt := []
  defs : List Attr.DAttr := []
  defaults : List Attr.DDefault := []
  values : List Attr.DValue := []
  deriving Repr, DecidableEq, Inhabited

/-! ## the three views -/

/-- what the bus level reads of a signal -/
def busSig (s : DSig) : DSignal :=
  { name := s.name, start := s.start, size := s.size, signed := s.signed, factor := s.factor,
    offset := s.offset, min := s.min, max := s.max, unit := s.unit, receivers := s.receivers }

/-- what the message level reads of a signal -/
def layoutSig (s : DSig) : Import.DSig :=
  { name := s.name, start := s.start, size := s.size, bigEndian := s.bigEndian,
    isMultiplexor := s.isMultiplexor, isMultiplexed := s.isMultiplexed, muxSwitch := s.muxSwitch }

def busMsg (m : DMsg) : DMessage :=
  { id := m.id, name := m.name, size := m.size, transmitter := m.transmitter, sigs := m.sigs.map busSig }

/-- the document as the bus-level model sees it (every signal, without its layout fields) -/
def busView (d : DDoc) : DFile :=
  { nodes := d.nodes, tables := d.tables, encs := d.encs, comments := d.comments, msgs := d.msgs.map busMsg }

/-- `i.dbcExtMuxes` restricted to the keys of one message id -/
def extsOf (d : DDoc) (id : Nat) : List Import.DExt :=
  (d.exts.filter (fun e => e.msgId = id)).map (fun e => ⟨e.muxor, e.muxed, e.ranges⟩)

/-- message `m` of the document as the message-level model sees it -/
def msgView (d : DDoc) (m : DMsg) : Import.DMsg :=
  { id := m.id, size := m.size, sigs := m.sigs.map layoutSig, exts := extsOf d m.id }

/-- the entities the attribute pass can find: `i.nodeInts` (the nodes of `BU_` without the
    placeholder), `i.messages`, `i.signals` (every signal, multiplexors included) -/
def keysOf (d : DDoc) : List Attr.Key :=
  ((d.nodes.filter (fun n => n ≠ placeholder)).map Attr.Key.node) ++
    d.msgs.flatMap (fun m => Attr.Key.msg m.id :: m.sigs.map (fun s => Attr.Key.sig m.id s.name))

def attrView (d : DDoc) : Attr.DbcAttrs :=
  { keys := keysOf d, defs := d.defs, defaults := d.defaults, values := d.values }

/-! ## the message pass -/

/-- `slices.SortFunc(dbcMsg.Signals, by StartBit)` -/
def sortedSigs (m : DMsg) : List DSig := sortBy (·.start) m.sigs

/-- the signals `importSignal` is called for, in call order: the sorted signals that are no
    multiplexor -/
def plainSigs (m : DMsg) : List DSig := (sortedSigs m).filter (fun s => !s.isMultiplexor)

/-- the multiplexor signals (sorted) -/
def muxorSigs (m : DMsg) : List DSig := (sortedSigs m).filter (·.isMultiplexor)

/-- receivers, transmitter and `AddSentMessage` of `importMessage`: the checks
    `Acme.ImportBus.importMessage` makes between its first loop and its signals
    (`Acme.Proofs.ImportFile.importMessage_eq_header`: the two agree) -/
def header (nn : List String) (done : List IMessage) (m : DMessage) (recv : List String) :
    Option ImportBus.ImpErr :=
  if recv.any (fun r => !nn.contains r) then some .nodeNotFound
  else if m.transmitter ≠ placeholder ∧ !nn.contains m.transmitter then some .nodeNotFound
  else if recv.contains m.transmitter then some .receiverIsSender
  else if done.any (fun d => d.sender = m.transmitter ∧ d.name = m.name) then some .msgNameDuplicated
  else if m.size > 8 then some .msgTooBig
  else if done.any (fun d => d.id = m.id) then some .canIdDuplicated
  else none

/-- the `importSignal` calls of one message, in order (no placement); a refusal carries the name
    of the signal that was refused -/
def busSignals (cs : List DComment) (msgId : Nat) :
    St → List DSignal → Except (String × ImportBus.ImpErr) (St × List ISignal)
  | st, [] => .ok (st, [])
  | st, d :: r =>
    match ImportBus.importSignal cs msgId st d with
    | .error e => .error (d.name, e)
    | .ok (st1, s) =>
      match busSignals cs msgId st1 r with
      | .error e => .error e
      | .ok (st2, ss) => .ok (st2, s :: ss)

/-- the message in which signal `name` cannot be created (see the header of the file) -/
def poison (m : Import.DMsg) (name : String) : Import.DMsg :=
  { m with sigs := m.sigs.map (fun s => if s.name = name then { s with size := 0 } else s) }

/-- the three models' causes -/
inductive Cause where
  | bus (e : ImportBus.ImpErr)
  | layout (e : Import.ImpErr)
  | attr (e : Attr.ImpErr)
  deriving Repr, DecidableEq, Inhabited

/-- the bus-level part of a message that the layout does not know -/
def busMessage (cs : List DComment) (m : DMsg) (recv : List String) (isigs : List ISignal) : IMessage :=
  { id := m.id, name := m.name, size := m.size, sender := m.transmitter, receivers := recv,
    desc := descOf (selMsg m.id) cs, sigs := isigs }

/-- the receivers of a message: of ALL its signals (multiplexors included) -/
def recvOf (m : DMsg) : List String := receiversOf (sortBy (·.start) (busMsg m).sigs)

/-- `importMessage` -/
def msgStep (d : DDoc) (nn : List String) (st : St) (done : List IMessage) (m : DMsg) :
    Except Cause (St × IMessage × Import.ITree) :=
  let mv := msgView d m
  let sorted := Import.sortSigs mv.sigs
  match Import.firstLoop (8 * (m.size : Int)) (Import.headBE sorted) [] sorted with
  | .error e => .error (.layout e)
  | .ok () =>
    match header nn done (busMsg m) (recvOf m) with
    | some e => .error (.bus e)
    | none =>
      match busSignals d.comments m.id st ((plainSigs m).map busSig) with
      | .ok (st', isigs) =>
        match Import.importMsg mv with
        | .error e => .error (.layout e)
        | .ok t => .ok (st', busMessage d.comments m (recvOf m) isigs, t)
      | .error (name, e) =>
        match Import.importMsg (poison mv name) with
        | .error .sizeZero => .error (.bus e)
        | .error e' => .error (.layout e')
        | .ok _ => .error (.bus e)

/-- where a refusal comes from -/
inductive Pass where
  | tables | encs | nodes
  | msg (i : Nat)
  | attrs
  deriving Repr, DecidableEq, Inhabited

structure DocErr where
  pass : Pass
  cause : Cause
  deriving Repr, DecidableEq, Inhabited

/-- the loop over `dbcFile.Messages`; `i` = index of the next message -/
def msgsFold (d : DDoc) (nn : List String) :
    St → List IMessage → List Import.ITree → Nat → List DMsg →
    Except DocErr (St × List IMessage × List Import.ITree)
  | st, done, trees, _, [] => .ok (st, done, trees)
  | st, done, trees, i, m :: r =>
    match msgStep d nn st done m with
    | .error c => .error ⟨.msg i, c⟩
    | .ok (st', im, t) => msgsFold d nn st' (done ++ [im]) (trees ++ [t]) (i + 1) r

/-! ## the result -/

/-- the comment of a multiplexor signal (`importMuxSignal` sets the description) -/
def muxorDescs (d : DDoc) (m : DMsg) : List (String × String) :=
  (muxorSigs m).map (fun s => (s.name, descOf (selSig m.id s.name) d.comments))

structure IDoc where
  /-- nodes, messages (their standard / enum signals in the order of creation), object stores -/
  bus : IBus
  /-- the placement of the signals of every message, in file order -/
  trees : List Import.ITree
  /-- per message the multiplexor signals with their comment -/
  muxors : List (List (String × String))
  attrs : Attr.ModelAttrs
  deriving Repr, DecidableEq, Inhabited

/-- `importFile` -/
def importDoc (d : DDoc) : Except DocErr IDoc :=
  match ImportBus.importTables d.tables with
  | .error e => .error ⟨.tables, .bus e⟩
  | .ok reg =>
    match ImportBus.importEncs reg reg [] d.encs with
    | .error e => .error ⟨.encs, .bus e⟩
    | .ok (enums, se) =>
      match ImportBus.importNodes d.comments d.nodes with
      | .error e => .error ⟨.nodes, .bus e⟩
      | .ok ns =>
        match msgsFold d (ns.map (·.name)) (ImportBus.initSt enums se) [] [] 0 d.msgs with
        | .error e => .error e
        | .ok (st, msgs, trees) =>
          match Attr.importAttrs (attrView d) with
          | .error e => .error ⟨.attrs, .attr e⟩
          | .ok a =>
            .ok { bus := { desc := descOf selGeneral d.comments,
                           nodes := ImportBus.finalNodes ns (msgs.any (fun m => m.sender = placeholder)),
                           msgs := msgs, types := st.types.map (·.2), units := st.units, enums := st.enums },
                  trees := trees, muxors := d.msgs.map (muxorDescs d), attrs := a }

/-! ## the bus level alone, blind to the layout

`Acme.ImportBus.importBus` reads every signal as a little-endian top-level signal and refuses
what would not fit that reading (bounds, overlap); for a document with big-endian or multiplexed
messages that reading is wrong, and the placement is the message level's job.  `busPass` is the
bus-level import of the document WITHOUT these placement checks: the same passes, the same
per-signal function, the same header checks. -/

def busMsgStep (d : DDoc) (nn : List String) (st : St) (done : List IMessage) (m : DMsg) :
    Except ImportBus.ImpErr (St × IMessage) :=
  match header nn done (busMsg m) (recvOf m) with
  | some e => .error e
  | none =>
    match busSignals d.comments m.id st ((plainSigs m).map busSig) with
    | .error (_, e) => .error e
    | .ok (st', isigs) => .ok (st', busMessage d.comments m (recvOf m) isigs)

def busFold (d : DDoc) (nn : List String) :
    St → List IMessage → List DMsg → Except ImportBus.ImpErr (St × List IMessage)
  | st, done, [] => .ok (st, done)
  | st, done, m :: r =>
    match busMsgStep d nn st done m with
    | .error e => .error e
    | .ok (st', im) => busFold d nn st' (done ++ [im]) r

def busPass (d : DDoc) : Except ImportBus.ImpErr IBus :=
  match ImportBus.importTables d.tables with
  | .error e => .error e
  | .ok reg =>
    match ImportBus.importEncs reg reg [] d.encs with
    | .error e => .error e
    | .ok (enums, se) =>
      match ImportBus.importNodes d.comments d.nodes with
      | .error e => .error e
      | .ok ns =>
        match busFold d (ns.map (·.name)) (ImportBus.initSt enums se) [] d.msgs with
        | .error e => .error e
        | .ok (st, msgs) =>
          .ok { desc := descOf selGeneral d.comments,
                nodes := ImportBus.finalNodes ns (msgs.any (fun m => m.sender = placeholder)),
                msgs := msgs, types := st.types.map (·.2), units := st.units, enums := st.enums }

end Acme.ImportFile
