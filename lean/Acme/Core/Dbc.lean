/-
Token-level model of the DBC package (`/repo/dbc`): AST, tokens, keyword/punct tables,
word classification (`scanText`) and the number-text functions of `parser.go`/`writer.go`.

Core Lean only.  Everything is total and first-order; strings are inspected through
`String.toList`, numbers through `Nat.ofDigitChars`/`Nat.toDigits` (for which `Std` has
round-trip lemmas: `Nat.toList_repr`, `Nat.toNat?_repr`, …).

Modelling conventions (see also DbcWrite.lean / DbcParse.lean):
* locations are dropped;
* `uint32` fields are `Nat`, `int` fields are `Int` (Go `int` is 64 bit);
* a `float64` field is the decimal TEXT `strconv.FormatFloat(x,'f',-1,64)`; `formatDouble`
  is the identity and `parseDouble` returns the accepted token text (the ParseFloat/FormatFloat
  round trip is a trusted assumption); what IS modelled is which texts `ParseFloat` accepts
  (syntax and the overflow range error);
* Go enums whose values come only from a fixed set are Lean inductives (the writer's
  `switch` statements print nothing for out-of-range values; such values are out of scope).
-/
namespace Acme.Dbc

/-! ## AST (ast.go without locations) -/

inductive ByteOrder | littleEndian | bigEndian
  deriving DecidableEq, Repr, Inhabited

inductive ValueType | unsigned | signed
  deriving DecidableEq, Repr, Inhabited

inductive ExtValueType | integer | float | double
  deriving DecidableEq, Repr, Inhabited

inductive EnvVarType | int | float | string
  deriving DecidableEq, Repr, Inhabited

inductive AccessType | v0 | v1 | v2 | v3 | v8000 | v8001 | v8002 | v8003
  deriving DecidableEq, Repr, Inhabited

inductive ValueEncodingKind | signal | envVar
  deriving DecidableEq, Repr, Inhabited

inductive CommentKind | general | node | message | signal | envVar
  deriving DecidableEq, Repr, Inhabited

inductive AttributeKind | general | node | message | signal | envVar
  deriving DecidableEq, Repr, Inhabited

inductive AttributeType | int | float | string | enum | hex
  deriving DecidableEq, Repr, Inhabited

/-- `AttributeDefaultType` and `AttributeValueType` (same constants in ast.go). -/
inductive AttrValType | int | string | float | hex
  deriving DecidableEq, Repr, Inhabited

structure BitTiming where
  baudrate : Nat := 0
  bitTimingReg1 : Nat := 0
  bitTimingReg2 : Nat := 0
  deriving DecidableEq, Repr, Inhabited

structure ValueDescription where
  id : Nat := 0
  name : String := ""
  deriving DecidableEq, Repr, Inhabited

structure ValueTable where
  name : String := ""
  values : List ValueDescription := []
  deriving DecidableEq, Repr, Inhabited

structure ValueEncoding where
  kind : ValueEncodingKind := .signal
  messageID : Nat := 0
  signalName : String := ""
  envVarName : String := ""
  values : List ValueDescription := []
  deriving DecidableEq, Repr, Inhabited

structure Signal where
  name : String := ""
  isMultiplexor : Bool := false
  isMultiplexed : Bool := false
  muxSwitchValue : Nat := 0
  size : Nat := 0
  startBit : Nat := 0
  byteOrder : ByteOrder := .littleEndian
  valueType : ValueType := .unsigned
  factor : String := "0"
  offset : String := "0"
  min : String := "0"
  max : String := "0"
  unit : String := ""
  receivers : List String := []
  deriving DecidableEq, Repr, Inhabited

structure Message where
  id : Nat := 0
  name : String := ""
  size : Nat := 0
  transmitter : String := ""
  signals : List Signal := []
  deriving DecidableEq, Repr, Inhabited

structure SignalExtValueType where
  messageID : Nat := 0
  signalName : String := ""
  extValueType : ExtValueType := .integer
  deriving DecidableEq, Repr, Inhabited

structure MessageTransmitter where
  messageID : Nat := 0
  transmitters : List String := []
  deriving DecidableEq, Repr, Inhabited

structure EnvVar where
  name : String := ""
  type : EnvVarType := .int
  min : String := "0"
  max : String := "0"
  unit : String := ""
  initialValue : String := "0"
  id : Nat := 0
  accessType : AccessType := .v0
  accessNodes : List String := []
  deriving DecidableEq, Repr, Inhabited

structure EnvVarData where
  envVarName : String := ""
  dataSize : Nat := 0
  deriving DecidableEq, Repr, Inhabited

structure SignalType where
  typeName : String := ""
  size : Nat := 0
  byteOrder : ByteOrder := .littleEndian
  valueType : ValueType := .unsigned
  factor : String := "0"
  offset : String := "0"
  min : String := "0"
  max : String := "0"
  unit : String := ""
  defaultValue : String := "0"
  valueTableName : String := ""
  deriving DecidableEq, Repr, Inhabited

structure SignalTypeRef where
  typeName : String := ""
  messageID : Nat := 0
  signalName : String := ""
  deriving DecidableEq, Repr, Inhabited

structure SignalGroup where
  messageID : Nat := 0
  groupName : String := ""
  repetitions : Nat := 0
  signalNames : List String := []
  deriving DecidableEq, Repr, Inhabited

structure Comment where
  kind : CommentKind := .general
  text : String := ""
  nodeName : String := ""
  messageID : Nat := 0
  signalName : String := ""
  envVarName : String := ""
  deriving DecidableEq, Repr, Inhabited

structure Attribute where
  kind : AttributeKind := .general
  type : AttributeType := .int
  name : String := ""
  minInt : Int := 0
  maxInt : Int := 0
  minHex : Nat := 0
  maxHex : Nat := 0
  minFloat : String := "0"
  maxFloat : String := "0"
  enumValues : List String := []
  deriving DecidableEq, Repr, Inhabited

structure AttributeDefault where
  type : AttrValType := .int
  attributeName : String := ""
  valueString : String := ""
  valueInt : Int := 0
  valueHex : Nat := 0
  valueFloat : String := "0"
  deriving DecidableEq, Repr, Inhabited

structure AttributeValue where
  attributeKind : AttributeKind := .general
  type : AttrValType := .int
  attributeName : String := ""
  nodeName : String := ""
  messageID : Nat := 0
  signalName : String := ""
  envVarName : String := ""
  valueString : String := ""
  valueInt : Int := 0
  valueHex : Nat := 0
  valueFloat : String := "0"
  deriving DecidableEq, Repr, Inhabited

structure ExtendedMuxRange where
  from_ : Nat := 0
  to : Nat := 0
  deriving DecidableEq, Repr, Inhabited

structure ExtendedMux where
  messageID : Nat := 0
  multiplexorName : String := ""
  multiplexedName : String := ""
  ranges : List ExtendedMuxRange := []
  deriving DecidableEq, Repr, Inhabited

/-- `dbc.File`.  `newSymbols`/`bitTiming`/`nodes` are the pointer fields (`none` = nil);
`NewSymbols`/`Nodes` are represented by their only field (`Symbols`/`Names`). -/
structure File where
  version : String := ""
  newSymbols : Option (List String) := none
  bitTiming : Option BitTiming := none
  nodes : Option (List String) := none
  valueTables : List ValueTable := []
  messages : List Message := []
  messageTransmitters : List MessageTransmitter := []
  envVars : List EnvVar := []
  envVarDatas : List EnvVarData := []
  signalTypes : List SignalType := []
  comments : List Comment := []
  attributes : List Attribute := []
  attributeDefaults : List AttributeDefault := []
  attributeValues : List AttributeValue := []
  valueEncodings : List ValueEncoding := []
  signalTypeRefs : List SignalTypeRef := []
  signalGroups : List SignalGroup := []
  signalExtValueTypes : List SignalExtValueType := []
  extendedMuxes : List ExtendedMux := []
  deriving DecidableEq, Repr, Inhabited

/-! ## Tokens (token.go); spaces are not tokens at this level -/

inductive Token
  | ident (v : String)
  | number (v : String)
  | numberRange (v : String)
  | muxIndicator (v : String)
  | string (v : String)
  | keyword (v : String)
  | punct (v : String)
  | eof
  | error (v : String)
  deriving DecidableEq, Repr, Inhabited

/-! ## keyword.go -/

inductive KeywordKind
  | version | newSymbols | bitTiming | node | message | messageTransmitter
  | signal | signalValueType | valueTable | valueEncoding | envVar | envVarData
  | signalType | signalGroup | comment
  | attribute | attributeDefault | attributeValue
  | attributeInt | attributeHex | attributeFloat | attributeString | attributeEnum
  | extendedMux
  deriving DecidableEq, Repr, Inhabited

/-- the `keywords` map -/
def keywordKind? (s : String) : Option KeywordKind :=
  if s = "VERSION" then some .version
  else if s = "NS_" then some .newSymbols
  else if s = "BS_" then some .bitTiming
  else if s = "BU_" then some .node
  else if s = "BO_" then some .message
  else if s = "BO_TX_BU_" then some .messageTransmitter
  else if s = "SG_" then some .signal
  else if s = "SIG_VALTYPE_" then some .signalValueType
  else if s = "VAL_TABLE_" then some .valueTable
  else if s = "VAL_" then some .valueEncoding
  else if s = "EV_" then some .envVar
  else if s = "ENVVAR_DATA_" then some .envVarData
  else if s = "SGTYPE_" then some .signalType
  else if s = "SIG_GROUP_" then some .signalGroup
  else if s = "CM_" then some .comment
  else if s = "BA_DEF_" then some .attribute
  else if s = "BA_DEF_DEF_" then some .attributeDefault
  else if s = "BA_" then some .attributeValue
  else if s = "INT" then some .attributeInt
  else if s = "HEX" then some .attributeHex
  else if s = "FLOAT" then some .attributeFloat
  else if s = "STRING" then some .attributeString
  else if s = "ENUM" then some .attributeEnum
  else if s = "SG_MUL_VAL_" then some .extendedMux
  else none

def isKeywordStr (s : String) : Bool := (keywordKind? s).isSome

/-- `getKeywordKind`: a missing map key yields the zero value `keywordVersion`. -/
def getKeywordKind (s : String) : KeywordKind := (keywordKind? s).getD .version

/-- `getKeyword` -/
def getKeyword : KeywordKind → String
  | .version => "VERSION" | .newSymbols => "NS_" | .bitTiming => "BS_" | .node => "BU_"
  | .message => "BO_" | .messageTransmitter => "BO_TX_BU_" | .signal => "SG_"
  | .signalValueType => "SIG_VALTYPE_" | .valueTable => "VAL_TABLE_" | .valueEncoding => "VAL_"
  | .envVar => "EV_" | .envVarData => "ENVVAR_DATA_" | .signalType => "SGTYPE_"
  | .signalGroup => "SIG_GROUP_" | .comment => "CM_" | .attribute => "BA_DEF_"
  | .attributeDefault => "BA_DEF_DEF_" | .attributeValue => "BA_" | .attributeInt => "INT"
  | .attributeHex => "HEX" | .attributeFloat => "FLOAT" | .attributeString => "STRING"
  | .attributeEnum => "ENUM" | .extendedMux => "SG_MUL_VAL_"

/-- `newSymbolsValues` -/
def newSymbolsValues : List String :=
  ["NS_DESC_", "CM_", "BA_DEF_", "BA_", "VAL_", "VAL_TABLE_", "CAT_DEF_", "CAT_", "FILTER",
   "BA_DEF_DEF_", "EV_DATA_", "ENVVAR_DATA_", "SIG_GROUP_", "SGTYPE_", "SGTYPE_VAL_",
   "BA_DEF_SGTYPE_", "BA_SGTYPE_", "SIG_TYPE_REF_", "SIG_VALTYPE_", "SIGTYPE_VALTYPE_",
   "BO_TX_BU_", "BA_DEF_REL_", "BA_REL_", "BA_DEF_DEF_REL_", "BU_SG_REL_", "BU_EV_REL_",
   "BU_BO_REL_", "SG_MUL_VAL_"]

/-- `envVarAccessTypes` (name of a value) -/
def accessTypeName : AccessType → String
  | .v0 => "DUMMY_NODE_VECTOR0" | .v1 => "DUMMY_NODE_VECTOR1"
  | .v2 => "DUMMY_NODE_VECTOR2" | .v3 => "DUMMY_NODE_VECTOR3"
  | .v8000 => "DUMMY_NODE_VECTOR8000" | .v8001 => "DUMMY_NODE_VECTOR8001"
  | .v8002 => "DUMMY_NODE_VECTOR8002" | .v8003 => "DUMMY_NODE_VECTOR8003"

/-- `envVarAccessTypes` (lookup) -/
def accessTypeOfName? (s : String) : Option AccessType :=
  if s = "DUMMY_NODE_VECTOR0" then some .v0
  else if s = "DUMMY_NODE_VECTOR1" then some .v1
  else if s = "DUMMY_NODE_VECTOR2" then some .v2
  else if s = "DUMMY_NODE_VECTOR3" then some .v3
  else if s = "DUMMY_NODE_VECTOR8000" then some .v8000
  else if s = "DUMMY_NODE_VECTOR8001" then some .v8001
  else if s = "DUMMY_NODE_VECTOR8002" then some .v8002
  else if s = "DUMMY_NODE_VECTOR8003" then some .v8003
  else none

/-! ## punct.go -/

inductive PunctKind
  | colon | comma | leftParen | rightParen | leftSquareBrace | rightSquareBrace
  | pipe | semicolon | at | plus | minus
  deriving DecidableEq, Repr, Inhabited

/-- `punctKeywords`; a missing key yields the zero value `punctColon`. -/
def punctKindOfChar (c : Char) : PunctKind :=
  if c = ':' then .colon else if c = ',' then .comma
  else if c = '(' then .leftParen else if c = ')' then .rightParen
  else if c = '[' then .leftSquareBrace else if c = ']' then .rightSquareBrace
  else if c = '|' then .pipe else if c = ';' then .semicolon
  else if c = '@' then .at else if c = '+' then .plus else if c = '-' then .minus
  else .colon

/-- `getPunctKind` looks at the first byte only.  (A non-ASCII first character is not in the
map in Go either.  Go panics on the empty string; the scanner never emits an empty punct and
the model answers `colon`.) -/
def getPunctKind (s : String) : PunctKind :=
  match s.toList with
  | c :: _ => punctKindOfChar c
  | [] => .colon

def punctText : PunctKind → String
  | .colon => ":" | .comma => "," | .leftParen => "(" | .rightParen => ")"
  | .leftSquareBrace => "[" | .rightSquareBrace => "]" | .pipe => "|" | .semicolon => ";"
  | .at => "@" | .plus => "+" | .minus => "-"

/-- the punct token the scanner emits for a punctuation character -/
def Token.p (k : PunctKind) : Token := .punct (punctText k)

/-- the keyword token of a keyword kind -/
def Token.kw (k : KeywordKind) : Token := .keyword (getKeyword k)

/-! ## scanner.go: `scanText` on a complete word

`classifyWord w` is the token the scanner emits for the text `w` when `w` is a maximal run
`[A-Za-z][A-Za-z0-9_-]*` (ASCII; the scanner additionally accepts non-ASCII Unicode digits
inside words, which the model does not cover). -/

/-- one iteration of the `scanText` loop on the pair `(isMuxSwitch, foundSwitchNum)` -/
def muxStep (st : Bool × Bool) (ch : Char) : Bool × Bool :=
  if st.1 then
    if ch.isDigit then (true, true)
    else if !st.2 || ch != 'M' then (false, st.2)
    else st
  else st

def classifyWord (w : String) : Token :=
  match w.toList with
  | [] => .ident w
  | first :: rest =>
    let st := rest.foldl muxStep (first == 'm', false)
    if (st.1 && !rest.isEmpty) || (rest.isEmpty && first == 'M') then .muxIndicator w
    else if isKeywordStr w then .keyword w
    else .ident w

/-! ## Number texts -/

/-- `strconv.FormatUint(uint64(v), 10)` -/
def formatUint (n : Nat) : String := Nat.repr n

/-- `strconv.FormatInt(int64(v), 10)` -/
def formatInt : Int → String
  | .ofNat n => Nat.repr n
  | .negSucc n => "-" ++ Nat.repr (n + 1)

/-- `strconv.FormatInt(int64(v), 16)` for a `uint32` -/
def formatHexDigits (n : Nat) : String := String.ofList (Nat.toDigits 16 n)

/-- `writer.formatHexInt` -/
def formatHexInt (hexNumbersEnabled : Bool) (n : Nat) : String :=
  if !hexNumbersEnabled then formatUint n else "0x" ++ formatHexDigits n

/-- `writer.formatDouble` on the float-as-text representation -/
def formatDouble (x : String) : String := x

/-- decimal digits only, non-empty (what `strconv.ParseUint(_, 10, _)` accepts syntactically) -/
def decDigits? (cs : List Char) : Option Nat :=
  if !cs.isEmpty && cs.all Char.isDigit then some (Nat.ofDigitChars 10 cs 0) else none

/-- `parser.parseUint` = `strconv.ParseUint(val, 10, 32)` -/
def parseUintCs (cs : List Char) : Option Nat :=
  match decDigits? cs with
  | some n => if n < 2 ^ 32 then some n else none
  | none => none

def parseUint (s : String) : Option Nat := parseUintCs s.toList

/-- `parser.parseInt` = `strconv.ParseInt(val, 10, 64)` -/
def parseInt (s : String) : Option Int :=
  match s.toList with
  | '-' :: cs =>
    match decDigits? cs with
    | some n => if n ≤ 2 ^ 63 then some (-(n : Int)) else none
    | none => none
  | '+' :: cs =>
    match decDigits? cs with
    | some n => if n < 2 ^ 63 then some (n : Int) else none
    | none => none
  | cs =>
    match decDigits? cs with
    | some n => if n < 2 ^ 63 then some (n : Int) else none
    | none => none

def hexDigitVal? (c : Char) : Option Nat :=
  if c.isDigit then some (c.toNat - '0'.toNat)
  else if 'a' ≤ c ∧ c ≤ 'f' then some (c.toNat - 'a'.toNat + 10)
  else if 'A' ≤ c ∧ c ≤ 'F' then some (c.toNat - 'A'.toNat + 10)
  else none

def hexDigitsAux : List Char → Nat → Option Nat
  | [], acc => some acc
  | c :: cs, acc =>
    match hexDigitVal? c with
    | some d => hexDigitsAux cs (16 * acc + d)
    | none => none

/-- `strconv.ParseUint(_, 16, 32)` -/
def parseHexCs (cs : List Char) : Option Nat :=
  if cs.isEmpty then none else
  match hexDigitsAux cs 0 with
  | some n => if n < 2 ^ 32 then some n else none
  | none => none

def hasHexPrefixCs : List Char → Bool
  | '0' :: 'x' :: _ => true
  | '0' :: 'X' :: _ => true
  | _ => false

/-- `strings.HasPrefix(v, "0x") || strings.HasPrefix(v, "0X")` -/
def hasHexPrefix (s : String) : Bool := hasHexPrefixCs s.toList

/-- `strings.Contains(v, ".")` -/
def containsDot (s : String) : Bool := s.toList.any (· == '.')

/-- `parser.parseHexInt` -/
def parseHexInt (hexNumbersEnabled : Bool) (s : String) : Option Nat :=
  if !hexNumbersEnabled then parseUint s
  else if !hasHexPrefix s then none
  else parseHexCs (s.toList.drop 2)

/-! ### `strconv.ParseFloat(_, 64)` acceptance on number-token texts

Decimal syntax of `readFloat` (no underscores, no hex floats, no inf/nan: none of these is a
number token of the scanner; a hex number token `0x1F` is rejected by ParseFloat because a hex
float needs a `p` exponent, and it is rejected here because `x` is not a digit). -/

/-- exponent accumulation of `readFloat`: `if e < 10000 { e = e*10 + digit }` -/
def expAccum (cs : List Char) : Nat :=
  cs.foldl (fun e c => if e < 10000 then e * 10 + (c.toNat - '0'.toNat) else e) 0

/-- optional exponent part; `none` = syntax error, `some e` = the (capped) exponent -/
def readExp : List Char → Option Int
  | [] => some 0
  | c :: cs =>
    if c = 'e' ∨ c = 'E' then
      match cs with
      | '-' :: ds => if !ds.isEmpty && ds.all Char.isDigit then some (-(expAccum ds : Int)) else none
      | '+' :: ds => if !ds.isEmpty && ds.all Char.isDigit then some (expAccum ds : Int) else none
      | ds => if !ds.isEmpty && ds.all Char.isDigit then some (expAccum ds : Int) else none
    else none

def stripSign : List Char → List Char
  | '-' :: cs => cs
  | '+' :: cs => cs
  | cs => cs

/-- `readFloat`: `(mantissa, exp10)` with value `mantissa * 10^exp10`, or `none` on a syntax
error. -/
def readFloat (cs : List Char) : Option (Nat × Int) :=
  let body := stripSign cs
  let ip := body.takeWhile Char.isDigit
  let r1 := body.dropWhile Char.isDigit
  match r1 with
  | '.' :: r2 =>
    let fp := r2.takeWhile Char.isDigit
    let r3 := r2.dropWhile Char.isDigit
    if ip.isEmpty && fp.isEmpty then none else
    match readExp r3 with
    | some e => some (Nat.ofDigitChars 10 (ip ++ fp) 0, e - (fp.length : Int))
    | none => none
  | _ =>
    if ip.isEmpty then none else
    match readExp r1 with
    | some e => some (Nat.ofDigitChars 10 ip 0, e)
    | none => none

/-- values `≥ 2^1024 - 2^970` round (half-even) to `2^1024`: `ParseFloat` returns a range error -/
def overflowThreshold : Nat := 2 ^ 1024 - 2 ^ 970

def floatOverflows (m : Nat) (e10 : Int) : Bool :=
  if m = 0 then false else
  let nd : Int := ((Nat.toDigits 10 m).length : Int)
  let dp := nd + e10
  if dp > 310 then true
  else if dp ≤ 308 then false
  else if e10 ≥ 0 then decide (m * 10 ^ e10.toNat ≥ overflowThreshold)
  else decide (m ≥ overflowThreshold * 10 ^ (-e10).toNat)

/-- `parser.parseDouble`: the accepted text itself (float-as-text), `none` when
`strconv.ParseFloat` returns an error (syntax or range). -/
def parseDouble (s : String) : Option String :=
  match readFloat s.toList with
  | some (m, e) => if floatOverflows m e then none else some s
  | none => none

end Acme.Dbc
