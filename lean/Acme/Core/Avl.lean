/-
Model of /repo/internal/interval_bst.go (IntervalBST[T]).

Only `GetLow`/`GetHigh` of an item are observable, so an item is the pair (lo, hi).
Go `int` is modelled as unbounded `Int` (the harness keeps coordinates far from
2^63).  A nil-pointer dereference inside a rotation is modelled as `none`
(`rotateRight` on a node without left child): the theorems prove it never happens
on trees that satisfy the invariant.

The size counter is kept separately from the tree, exactly as in the Go code
(`t.size++` on the nil branch of insertNode, `t.size--` / `t.size++` in
deleteNode); `deleteNode` returns the change it made to the counter.
-/
namespace Acme.Avl

inductive Tree where
  | nil
  | node (l : Tree) (lo hi : Int) (mx : Int) (h : Int) (r : Tree)
  deriving Repr, DecidableEq, Inhabited

open Tree

def height : Tree → Int
  | nil => 0
  | node _ _ _ _ h _ => h

/-- `updateHeight` + `updateMax` applied to a node with the given children and item. -/
def mk (l : Tree) (lo hi : Int) (r : Tree) : Tree :=
  let m0 := hi
  let m1 := match l with
    | nil => m0
    | node _ _ _ lm _ _ => if lm > m0 then lm else m0
  let m2 := match r with
    | nil => m1
    | node _ _ _ rm _ _ => if rm > m1 then rm else m1
  node l lo hi m2 (1 + max (height l) (height r)) r

/-- `balanceFactor`. -/
def bf : Tree → Int
  | nil => 0
  | node l _ _ _ _ r => height l - height r

/-- `rotateRight`; `none` = nil dereference (`n.left == nil`). -/
def rotateRight : Tree → Option Tree
  | node (node ll llo lhi _ _ lr) lo hi _ _ r => some (mk ll llo lhi (mk lr lo hi r))
  | _ => none

/-- `rotateLeft`; `none` = nil dereference (`n.right == nil`). -/
def rotateLeft : Tree → Option Tree
  | node l lo hi _ _ (node rl rlo rhi _ _ rr) => some (mk (mk l lo hi rl) rlo rhi rr)
  | _ => none

/-- `node.lessThan(low, high)`: (low, high) strictly before the node's interval. -/
def lessThan (lo hi nlo nhi : Int) : Bool :=
  if lo ≠ nlo then lo < nlo else hi < nhi

/-- The re-balancing tail shared by `insertNode` and `deleteNode`
    (after the fix both choose the rotation by the child's balance factor).
    The argument is the node after `updateHeight`/`updateMax`. -/
def rebalance : Tree → Option Tree
  | nil => some nil
  | node l lo hi mx h r =>
    let root := node l lo hi mx h r
    let b := bf root
    if b > 1 then
      if bf l < 0 then do
        let l' ← rotateLeft l
        rotateRight (node l' lo hi mx h r)
      else rotateRight root
    else if b < -1 then
      if bf r > 0 then do
        let r' ← rotateRight r
        rotateLeft (node l lo hi mx h r')
      else rotateLeft root
    else some root

/-- `insertNode` (the size counter is incremented exactly once, on the nil branch). -/
def insertNode : Tree → Int → Int → Option Tree
  | nil, lo, hi => some (node nil lo hi hi 1 nil)
  | node l nlo nhi _ _ r, lo, hi =>
    if lessThan lo hi nlo nhi then do
      let l' ← insertNode l lo hi
      rebalance (mk l' nlo nhi r)
    else do
      let r' ← insertNode r lo hi
      rebalance (mk l nlo nhi r')

/-- `findMin`: the item of the leftmost node. -/
def findMin : Tree → Option (Int × Int)
  | nil => none
  | node nil lo hi _ _ _ => some (lo, hi)
  | node l _ _ _ _ _ => findMin l

/-- `deleteNode`; returns the new subtree and the change applied to `t.size`. -/
def deleteNode : Tree → Int → Int → Option (Tree × Int)
  | nil, _, _ => some (nil, 0)
  | node l nlo nhi _ _ r, lo, hi =>
    if lessThan lo hi nlo nhi then do
      let (l', d) ← deleteNode l lo hi
      let t ← rebalance (mk l' nlo nhi r)
      pure (t, d)
    else if lo ≠ nlo ∨ hi ≠ nhi then do
      let (r', d) ← deleteNode r lo hi
      let t ← rebalance (mk l nlo nhi r')
      pure (t, d)
    else
      match l, r with
      | nil, _ => some (r, -1)
      | _, nil => some (l, -1)
      | _, _ =>
        match findMin r with
        | none => none
        | some (slo, shi) => do
          let (r', d) ← deleteNode r slo shi
          let t ← rebalance (mk l slo shi r')
          pure (t, -1 + 1 + d)

/-- `intersectsNode`. -/
def intersectsNode : Tree → Int → Int → Bool
  | nil, _, _ => false
  | node l nlo nhi mx _ r, lo, hi =>
    if mx < lo then false
    else if nlo ≤ hi ∧ lo ≤ nhi then true
    else if lo < nlo ∧ intersectsNode l lo hi then true
    else intersectsNode r lo hi

/-- `checkOtherIntervals`. -/
def checkOther : Tree → Int → Int → Int → Int → Bool
  | nil, _, _, _, _ => false
  | node l nlo nhi mx _ r, lo, hi, slo, shi =>
    if mx < lo then false
    else
      let same := nlo = slo ∧ nhi = shi
      if ¬ same ∧ nlo ≤ hi ∧ lo ≤ nhi then true
      else if lo < nlo ∧ checkOther l lo hi slo shi then true
      else checkOther r lo hi slo shi

/-- in-order traversal (`GetAllIntervals`). -/
def inorder : Tree → List (Int × Int)
  | nil => []
  | node l lo hi _ _ r => inorder l ++ (lo, hi) :: inorder r

def isNode : Tree → Bool
  | nil => false
  | _ => true

/-- pre-order shape dump used by the correspondence check:
    (lo, hi, max, height, has-left, has-right). -/
def shape : Tree → List (Int × Int × Int × Int × Bool × Bool)
  | nil => []
  | node l lo hi mx h r => (lo, hi, mx, h, isNode l, isNode r) :: (shape l ++ shape r)

/-- The `IntervalBST` value: root pointer and size counter. -/
structure Bst where
  root : Tree := nil
  size : Int := 0
  deriving Repr, DecidableEq, Inhabited

inductive Op where
  | insert (lo hi : Int)
  | delete (lo hi : Int)
  | clear
  deriving Repr, DecidableEq

/-- One public mutator.  `none` = the Go code would have panicked. -/
def step (t : Bst) : Op → Option Bst
  | .insert lo hi =>
    if lo > hi then some t
    else do
      let r ← insertNode t.root lo hi
      pure { root := r, size := t.size + 1 }
  | .delete lo hi => do
      let (r, d) ← deleteNode t.root lo hi
      pure { root := r, size := t.size + d }
  | .clear => some { root := nil, size := 0 }

def run : Bst → List Op → Option Bst
  | t, [] => some t
  | t, op :: ops => (step t op).bind (fun t' => run t' ops)

/-- `Intersects`. -/
def intersects (t : Bst) (lo hi : Int) : Bool :=
  if t.size = 0 then false else intersectsNode t.root lo hi

/-- `CanUpdateInterval(item, newLow, newHigh)`. -/
def canUpdate (t : Bst) (slo shi lo hi : Int) : Bool :=
  if t.size ≤ 1 then true else !(checkOther t.root lo hi slo shi)

end Acme.Avl
