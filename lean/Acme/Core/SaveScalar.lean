/-
Scalar half of `saver.go` / `loader.go` (property C12): what happens to ONE scalar field of an
entity between the in-memory model and the protobuf tree.

The structural model (`Acme.Save`) carries the scalars of an entity in an opaque payload; this
file gives them a model of their own:

* `Scalar` — a value of a model field: Go `int` (and the `uint32`-based ids), `float64` (as its
  IEEE-754 bit pattern: floats are copied, never computed with), `string`, `bool`, a constant of a
  Go enumeration (by name), a creation time (seconds, nanoseconds);
* `Wire` — a value of a schema field: `uint32` / `int32` as `BitVec 32`, `double`, `string`,
  `bool`, a schema enum constant, a `Timestamp`;
* `Conv` — the conversion pair (saver side, loader side) of a field:
    `u32`  : `uint32(x)` on a 64-bit `int` (the low 32 bits), widened back by `int(w)`;
    `u32z d`: the same, but the loader assigns only `if w != 0` — a saved 0 leaves the
             constructor's value d (0 for the message times, 1 for the enum minimum size);
    `i32`  : `int32(x)` (two's-complement wrap), widened back by `int(w)` (sign extension);
    `u32id`: a `uint32`-based named type (NodeID, MessageID, CANID) — identity on its domain;
    `f64`, `str`, `bool`, `id` (EntityID ↔ string): copied;
    `enum` : two constant tables (saver: model constant → schema constant, with a default for
             the constants it does not list; loader: schema constant → model constant, a constant it
             does not list leaves the model at the value its constructor chose: `none`);
    `time` : `timestamppb.New` / `AsTime` — an invalid Timestamp is replaced by the current time,
             which is not a function of the save: `none`;
    `notLoaded` : written, never read back (classified in C12_fields);
* the FIELD TABLE `fieldTable`, DERIVED from the inventory `Acme.Gen.savedScalars /
  loadedScalars` that tools/extract/scalars.go regenerates from saver.go and loader.go on every
  run: a changed conversion in the source changes the model.  `Acme.Expect.scalarFields` is the
  hand-validated copy; `C12_scalar_inventory` proves them equal (a dropped / swapped / re-routed
  transfer breaks it).

Go `int` is modelled as `Int`; `uint32(x)` is `BitVec.ofInt 32 x`, which for every 64-bit value
is the truncation of its two's-complement representation (`goUint32_is_truncation`).
-/
import Acme.Gen.Scalars

namespace Acme.SaveScalar

/-! ## values -/

inductive Scalar where
  | int (x : Int)
  | float (bits : Nat)
  | str (s : String)
  | bool (b : Bool)
  | tag (c : String)
  | time (sec : Int) (nanos : Nat)
  deriving DecidableEq, Repr, Inhabited

inductive Wire where
  | u32 (b : BitVec 32)
  | i32 (b : BitVec 32)
  | f64 (bits : Nat)
  | str (s : String)
  | bool (b : Bool)
  | enum (c : String)
  | ts (sec : Int) (nanos : Nat)
  deriving DecidableEq, Repr, Inhabited

/-! ## Go's integer conversions -/

/-- `uint32(x)` for a Go `int` x, as a number -/
def goUint32 (x : Int) : Int := x % 4294967296

/-- `int32(x)` for a Go `int` x, as a number (two's-complement wrap) -/
def goInt32 (x : Int) : Int := Int.bmod x 4294967296

/-- `Timestamp.IsValid`: 0001-01-01T00:00:00Z ≤ t ≤ 9999-12-31T23:59:59.999999999Z -/
def validTs (sec : Int) (nanos : Nat) : Bool :=
  decide (-62135596800 ≤ sec) && decide (sec < 253402300800) && decide (nanos < 1000000000)

/-! ## conversions -/

abbrev Table := List (String × String)

def lookup (t : Table) (k : String) : Option String :=
  match t.find? (fun p => p.1 == k) with
  | some p => some p.2
  | none => none

inductive Conv where
  | u32
  /-- `u32` whose loader assigns only `if w != 0`: a saved 0 leaves the value the CONSTRUCTOR chose
      (`dflt`, from `ctorDefault`: the constructors are outside saver.go / loader.go) -/
  | u32z (dflt : Int)
  | i32
  | u32id (ty : String)
  | f64
  | str
  | bool
  | id
  /-- saver table with its default, loader table -/
  | enum (dflt : String) (sv : Table) (ld : Table)
  | time
  | notLoaded
  | unknown (why : String)
  deriving DecidableEq, Repr, Inhabited

/-- the saver's half: `none` = the value is not of the Go type of the field -/
def saveScalar : Conv → Scalar → Option Wire
  | .u32, .int x => some (.u32 (BitVec.ofInt 32 x))
  | .u32z _, .int x => some (.u32 (BitVec.ofInt 32 x))
  | .i32, .int x => some (.i32 (BitVec.ofInt 32 x))
  | .u32id _, .int x => if 0 ≤ x ∧ x < 4294967296 then some (.u32 (BitVec.ofInt 32 x)) else none
  | .f64, .float b => some (.f64 b)
  | .str, .str s => some (.str s)
  | .id, .str s => some (.str s)
  | .bool, .bool b => some (.bool b)
  | .enum d sv _, .tag c => some (.enum ((lookup sv c).getD d))
  | .time, .time s n => some (.ts s n)
  | _, _ => none

/-- the loader's half: `none` = the wire value is not of the schema type of the field, or the model
    field does not become a function of it (constant outside the loader's table, invalid time) -/
def loadScalar : Conv → Wire → Option Scalar
  | .u32, .u32 b => some (.int b.toNat)
  | .u32z d, .u32 b => if b.toNat = 0 then some (.int d) else some (.int b.toNat)
  | .i32, .i32 b => some (.int b.toInt)
  | .u32id _, .u32 b => some (.int b.toNat)
  | .f64, .f64 b => some (.float b)
  | .str, .str s => some (.str s)
  | .id, .str s => some (.str s)
  | .bool, .bool b => some (.bool b)
  | .enum _ _ ld, .enum w => (lookup ld w).map .tag
  | .time, .ts s n => if validTs s n then some (.time s n) else none
  | _, _ => none

/-- save then load of one scalar -/
def roundTrip (c : Conv) (v : Scalar) : Option Scalar := (saveScalar c v).bind (loadScalar c)

/-- the values a conversion carries faithfully (explicit, decidable) -/
def Fits : Conv → Scalar → Prop
  | .u32, .int x => 0 ≤ x ∧ x < 4294967296
  | .u32z d, .int x => if x % 4294967296 = 0 then x = d else (0 ≤ x ∧ x < 4294967296)
  | .i32, .int x => -2147483648 ≤ x ∧ x < 2147483648
  | .u32id _, .int x => 0 ≤ x ∧ x < 4294967296
  | .f64, .float _ => True
  | .str, .str _ => True
  | .id, .str _ => True
  | .bool, .bool _ => True
  | .enum d sv ld, .tag c => lookup ld ((lookup sv c).getD d) = some c
  | .time, .time s n => validTs s n = true
  | _, _ => False

instance : (c : Conv) → (v : Scalar) → Decidable (Fits c v)
  | .u32, .int _ => by unfold Fits; exact inferInstance
  | .u32z _, .int _ => by unfold Fits; exact inferInstance
  | .i32, .int _ => by unfold Fits; exact inferInstance
  | .u32id _, .int _ => by unfold Fits; exact inferInstance
  | .f64, .float _ => .isTrue trivial
  | .str, .str _ => .isTrue trivial
  | .id, .str _ => .isTrue trivial
  | .bool, .bool _ => .isTrue trivial
  | .enum _ _ _, .tag _ => by unfold Fits; exact inferInstance
  | .time, .time _ _ => by unfold Fits; exact inferInstance
  | .u32, .float _ | .u32, .str _ | .u32, .bool _ | .u32, .tag _ | .u32, .time _ _ => .isFalse id
  | .i32, .float _ | .i32, .str _ | .i32, .bool _ | .i32, .tag _ | .i32, .time _ _ => .isFalse id
  | .u32z _, .float _ | .u32z _, .str _ | .u32z _, .bool _ | .u32z _, .tag _ | .u32z _, .time _ _ => .isFalse id
  | .u32id _, .float _ | .u32id _, .str _ | .u32id _, .bool _ | .u32id _, .tag _ | .u32id _, .time _ _ => .isFalse id
  | .f64, .int _ | .f64, .str _ | .f64, .bool _ | .f64, .tag _ | .f64, .time _ _ => .isFalse id
  | .str, .int _ | .str, .float _ | .str, .bool _ | .str, .tag _ | .str, .time _ _ => .isFalse id
  | .id, .int _ | .id, .float _ | .id, .bool _ | .id, .tag _ | .id, .time _ _ => .isFalse id
  | .bool, .int _ | .bool, .float _ | .bool, .str _ | .bool, .tag _ | .bool, .time _ _ => .isFalse id
  | .enum _ _ _, .int _ | .enum _ _ _, .float _ | .enum _ _ _, .str _ | .enum _ _ _, .bool _ | .enum _ _ _, .time _ _ => .isFalse id
  | .time, .int _ | .time, .float _ | .time, .str _ | .time, .bool _ | .time, .tag _ => .isFalse id
  | .notLoaded, _ => .isFalse (by intro h; cases h)
  | .unknown _, _ => .isFalse (by intro h; cases h)

/-! ## the field table, derived from the regenerated inventory -/

/-- one scalar field of the schema with both halves of its transfer -/
structure Field where
  msg : String
  field : String
  /-- wire type, enum type name, repeated -/
  wire : String × String × Bool
  conv : Conv
  /-- saver: function, the Go expression that is saved, the condition under which it is saved -/
  saver : String × String × String
  /-- loader: every use of the field: (function, conversion, kind of use, use, condition) -/
  loader : List (String × String × String × String × String)
  deriving DecidableEq, Repr, Inhabited

def tableOf (ts : List (String × String × List (String × String))) (name : String) :
    Option (String × Table) :=
  match ts.find? (fun t => t.1 == name) with
  | some t => some t.2
  | none => none

def dedup (xs : List String) : List String :=
  xs.foldl (fun acc x => if acc.contains x then acc else acc ++ [x]) []

/-- the conversions the loader applies to the VALUE of a field (conditions, `len` and the validity
    test of a timestamp are not transfers) -/
def valueConvs (ls : List Acme.Gen.ScalarLoad) : List String :=
  dedup ((ls.filter (fun l => l.useKind != "cond" && l.conv != "len" &&
    !(l.conv == "method" && l.convArg == "IsValid"))).map (fun l => if l.conv == "method" then l.convArg else l.conv))

def tableUse (ls : List Acme.Gen.ScalarLoad) : Option String :=
  match ls.find? (fun l => l.useKind == "table") with
  | some l => some l.use
  | none => none

/-- the value a CONSTRUCTOR gives a field the loader assigns only when the saved number is not 0
    (hand table: message.go `newMessageFromEntity` — cycleTime, delayTime, startDelayTime: 0;
    signal_enum.go `newSignalEnumFromEntity` — minSize: 1).  Tied by stream `svs`, which sends 0
    through every such field. -/
def ctorDefault (msg field : String) : Int :=
  if msg == "SignalEnum" && field == "MinSize" then 1 else 0

/-- classification of a transfer from the strings of the inventory (string EQUALITY only, so that
    the kernel can evaluate it); anything unexpected is `unknown` (and `C12_scalar_classified`
    fails) -/
def classify (s : Acme.Gen.ScalarSave) (ls : List Acme.Gen.ScalarLoad) : Conv :=
  let lc := valueConvs ls
  if ls.isEmpty then .notLoaded
  else if s.wire == "uint32" && !s.rep && s.src == "int" && s.srcName == "" && s.conv == "uint32" && lc == ["int"] then
    (if ls.any (fun l => l.useKind == "cond") then .u32z (ctorDefault s.msg s.field) else .u32)
  else if s.wire == "int32" && !s.rep && s.src == "int" && s.srcName == "" && s.conv == "int32" && lc == ["int"] then .i32
  else if s.wire == "uint32" && !s.rep && s.src == "uint32" && s.srcName != "" && s.conv == "uint32" && lc == [s.srcName] then
    .u32id s.srcName
  else if s.wire == "float64" && !s.rep && s.src == "float64" && s.srcName == "" && s.conv == "none" && lc == ["none"] then .f64
  else if s.wire == "string" && s.src == "string" && s.srcName == "" && s.conv == "none" && lc == ["none"] then .str
  else if s.wire == "bool" && !s.rep && s.src == "bool" && s.srcName == "" && s.conv == "none" && (lc == ["none"] || lc == []) then .bool
  else if s.wire == "string" && s.src == "string" && s.srcName == "EntityID" && (s.conv == "EntityID.String" || s.conv == "string")
      && lc.all (fun c => c == "none" || c == "EntityID") then .id
  else if s.wire == "timestamp" && !s.rep && s.conv == "timestamppb.New" && lc == ["AsTime"] then .time
  else if s.wire == "enum" && !s.rep && s.conv == "table" then
    match tableOf Acme.Gen.savedTables s.table, tableUse ls with
    | some (d, sv), some ln =>
      match tableOf Acme.Gen.loadedTables ln with
      | some (_, ld) => if lc == ["none"] then .enum d sv ld else .unknown "enum read through a conversion"
      | none => .unknown "no loader table"
    | _, _ => .unknown "enum without tables"
  else .unknown s.conv

def mkField (s : Acme.Gen.ScalarSave) : Field :=
  let ls := Acme.Gen.loadedScalars.filter (fun l => l.msg == s.msg && l.field == s.field)
  { msg := s.msg, field := s.field, wire := (s.wire, s.wireName, s.rep), conv := classify s ls,
    saver := (s.fn, s.expr, s.guard),
    loader := ls.map (fun l => (l.fn, if l.conv == "method" then l.convArg else l.conv, l.useKind, l.use, l.guard)) }

/-- every scalar field the saver writes, with what the loader does with it -/
def fieldTable : List Field := Acme.Gen.savedScalars.map mkField

/-- reads of scalar schema fields the saver never writes -/
def loadedNotSaved : List (String × String) :=
  (Acme.Gen.loadedScalars.filter (fun l =>
    !(Acme.Gen.savedScalars.any (fun s => s.msg == l.msg && s.field == l.field)))).map (fun l => (l.msg, l.field))

/-- the scalar fields of one schema message (= entity kind) -/
def fields (k : String) : List Field := fieldTable.filter (fun f => f.msg == k)

def convOf (k f : String) : Conv :=
  match (fields k).find? (fun x => x.field == f) with
  | some x => x.conv
  | none => .unknown "no such field"

/-! ## entity records -/

/-- the scalars of one entity: field name ↦ value -/
abbrev Ent := List (String × Scalar)
abbrev WEnt := List (String × Wire)

/-- all-or-nothing map -/
def mapOpt {α β : Type} (f : α → Option β) : List α → Option (List β)
  | [] => some []
  | a :: l =>
    match f a, mapOpt f l with
    | some b, some bs => some (b :: bs)
    | _, _ => none

def saveField (k : String) (p : String × Scalar) : Option (String × Wire) :=
  (saveScalar (convOf k p.1) p.2).map (fun w => (p.1, w))

def loadField (k : String) (p : String × Wire) : Option (String × Scalar) :=
  (loadScalar (convOf k p.1) p.2).map (fun v => (p.1, v))

def saveEnt (k : String) (e : Ent) : Option WEnt := mapOpt (saveField k) e

def loadEnt (k : String) (w : WEnt) : Option Ent := mapOpt (loadField k) w

def roundTripEnt (k : String) (e : Ent) : Option Ent := (saveEnt k e).bind (loadEnt k)

end Acme.SaveScalar

namespace Acme.SaveScalar

/-! ## the summary compared with the hand-validated table `Acme.Expect.scalarFields` -/

/-- name and argument of a conversion (no string is built: the kernel compares these) -/
def Conv.name : Conv → String × String
  | .u32 => ("u32", "") | .u32z d => ("u32z", if d == 0 then "0" else if d == 1 then "1" else "other") | .i32 => ("i32", "") | .u32id t => ("u32id", t) | .f64 => ("f64", "") | .str => ("str", "")
  | .bool => ("bool", "") | .id => ("id", "") | .enum d _ _ => ("enum", d) | .time => ("time", "")
  | .notLoaded => ("notLoaded", "") | .unknown w => ("UNKNOWN", w)

/-- (schema message, field, wire type, conversion, (saver function, saved expression, condition),
     loader uses (function, conversion, kind of use, use, condition)) -/
abbrev Summary := String × String × String × (String × String) × (String × String × String) ×
  List (String × String × String × String × String)

def Field.summary (f : Field) : Summary :=
  (f.msg, f.field, f.wire.1, f.conv.name, f.saver, f.loader)

def summaries : List Summary := fieldTable.map Field.summary

end Acme.SaveScalar
