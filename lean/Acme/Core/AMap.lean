/-
A small finite map keyed by `Nat` (association list, one entry per key), used for the
stores of the object-graph models.  It is plain data (strictly evaluated), unlike a
function-valued store, and satisfies the function-update law `get_set`.
-/
namespace Acme

structure AMap (α : Type) where
  l : List (Nat × α) := []
  deriving Repr, Inhabited

namespace AMap
variable {α : Type}

def get (m : AMap α) (k : Nat) : Option α :=
  match m.l.find? (fun p => p.1 = k) with
  | some p => some p.2
  | none => none

def set (m : AMap α) (k : Nat) (v : α) : AMap α :=
  ⟨(k, v) :: m.l.filter (fun p => p.1 ≠ k)⟩

def erase (m : AMap α) (k : Nat) : AMap α := ⟨m.l.filter (fun p => p.1 ≠ k)⟩

def keys (m : AMap α) : List Nat := m.l.map (·.1)

theorem find_filter_ne (l : List (Nat × α)) (k i : Nat) (h : i ≠ k) :
    (l.filter (fun p => p.1 ≠ k)).find? (fun p => p.1 = i) = l.find? (fun p => p.1 = i) := by
  induction l with
  | nil => rfl
  | cons p rest ih =>
    rw [List.filter_cons]
    by_cases hp : p.1 = k
    · have hpi : ¬ p.1 = i := fun e => h (e ▸ hp)
      simp only [hp, ne_eq, not_true_eq_false, decide_false, Bool.false_eq_true, ↓reduceIte]
      rw [ih, List.find?_cons]
      simp [hpi]
    · simp only [ne_eq, hp, not_false_eq_true, decide_true, ↓reduceIte]
      rw [List.find?_cons, List.find?_cons, ih]

@[simp] theorem get_set (m : AMap α) (k : Nat) (v : α) (i : Nat) :
    (m.set k v).get i = if i = k then some v else m.get i := by
  unfold get set
  by_cases h : i = k
  · subst h; simp [List.find?_cons]
  · have hk : ¬ k = i := fun e => h e.symm
    simp only [List.find?_cons, hk, decide_false, h, ↓reduceIte]
    rw [find_filter_ne m.l k i h]

@[simp] theorem get_empty (i : Nat) : (({} : AMap α)).get i = none := rfl

end AMap
end Acme
