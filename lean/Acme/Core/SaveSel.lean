/-
Model of the encoding selection of `SaveNetwork` (saver.go) and of the enum mapping
tables of saver.go / loader.go (the tables themselves are REGENERATED from the source on
every run: Acme.Gen.saverMaps / loaderMaps).
-/
namespace Acme.SaveSel

inductive Enc where
  | wire | json | text
  deriving Repr, DecidableEq

/-- `SaveNetwork(net, encoding, wWire, wJSON, wText)`: which encodings are written, in order,
    before the call returns; `Except` error = the name of the missing writer (ErrIsNil). -/
def saveSelect (encoding : Nat) (hasWire hasJSON hasText : Bool) : List Enc × Option String :=
  let step (acc : List Enc × Option String) (bit : Nat) (has : Bool) (e : Enc) (name : String) :=
    match acc.2 with
    | some _ => acc
    | none =>
      if encoding / bit % 2 = 1 then
        if has then (acc.1 ++ [e], none) else (acc.1, some name)
      else acc
  let a0 : List Enc × Option String := ([], none)
  let a1 := step a0 1 hasWire .wire "wWire"
  let a2 := step a1 2 hasJSON .json "wJSON"
  step a2 4 hasText .text "wText"

/-- the encodings requested by the bit set -/
def requested (encoding : Nat) : List Enc :=
  (if encoding / 1 % 2 = 1 then [Enc.wire] else []) ++
  (if encoding / 2 % 2 = 1 then [Enc.json] else []) ++
  (if encoding / 4 % 2 = 1 then [Enc.text] else [])

/-! ### enum mapping tables -/

abbrev Table := List (String × String)

def lookup (t : Table) (k : String) : Option String :=
  match t.find? (fun p => p.1 = k) with
  | some p => some p.2
  | none => none

/-- the loader table whose keys include every value the saver table writes -/
def findInverse (s : Table) (loaders : List (String × Table)) : Option (String × Table) :=
  loaders.find? (fun l => s.all (fun p => (lookup l.2 p.2).isSome))

/-- loading what the saver wrote gives the original constant, for every listed constant -/
def inverts (s l : Table) : Bool := s.all (fun p => lookup l p.2 = some p.1)

/-- names of the saver tables that have a loader table inverting them -/
def invertedTables (savers loaders : List (String × Table)) : List String :=
  savers.filterMap (fun s =>
    match findInverse s.2 loaders with
    | some l => if inverts s.2 l.2 then some s.1 else none
    | none => none)

end Acme.SaveSel
