/-
Bus level of the DBC importer (property C10):

  importer.go : importFile (order of the passes, removal of the unused placeholder node),
                importComments, importValueTable, importValueEncoding (sorting of the VAL_ list,
                matching against the global VAL_TABLE_s), importNodes, importMessage (receivers,
                sender), importSignal (value encoding → enum signal incl. the sized-enum logic,
                otherwise standard signal with a type and a unit), importSignalType,
                getSignalTypeKey
  bus.go / node_iterface.go : AddNodeInterface (names, ids), GetNodeInterfaceByNodeName,
                AddSentMessage (receiver is sender, name, size, static CAN-ID)
  signal_type.go / signal_enum.go : the constructors, AddValue, SetMinSize, GetSize, Clone

What is modelled is everything of a document EXCEPT positions / multiplexing (Acme.Import) and
attributes (Acme.Attr): the signals of this model are plain little-endian signals; their start
bit is carried only because the importer processes the signals of a message in start-bit
order (the order decides which enum object is resized and which is cloned) and refuses
overlapping signals.

OBJECTS.  Signal types, units and enums are objects that several signals can share.  The
model keeps three stores (`types`, `units`, `enums`; the index in the store is the identity of
the object) and a signal refers to its type / unit / enum by index.  An enum object is mutable
(`SetMinSize`): the store is updated in place, so the size of an enum signal is the size of
its enum in the FINAL store.

NUMBERS.  factor / offset / minimum / maximum are `float64` in the code; the model holds their
exact rational value.  NaN, the infinities and the negative zero have no counterpart (the
generator of stream `impbus` never writes them); on all other numbers `==`, `math.Mod(x, 1) != 0`
and the `%g` text used as type key agree with the rational reading (`%g` prints the shortest
text that reads back as the same float, hence two floats have the same text iff they are equal).
-/
import Acme.Core.Arith
import Acme.Core.Import

namespace Acme.ImportBus
open Acme.Arith
open Acme.Import (sortBy)

/-- `dbc.DummyNode` -/
def placeholder : String := "Vector__XXX"

/-- the node id `importNodes` gives to the placeholder node -/
def placeholderId : Nat := 1024

/-! ## the file side -/

/-- `dbc.ValueDescription`: (ID, Name) -/
abbrev DVal := Nat × String

/-- `dbc.ValueTable` (`VAL_TABLE_`) -/
structure DTable where
  name : String
  values : List DVal
  deriving Repr, DecidableEq, Inhabited

/-- `dbc.ValueEncoding` of kind signal (`VAL_ id name …;`) -/
structure DEnc where
  msgId : Nat
  sigName : String
  values : List DVal
  deriving Repr, DecidableEq, Inhabited

/-- `dbc.Comment` (the environment-variable kind is ignored by the importer) -/
inductive DComment where
  | general (text : String)
  | node (name text : String)
  | msg (id : Nat) (text : String)
  | sig (id : Nat) (name text : String)
  deriving Repr, DecidableEq, Inhabited

/-- the non-positional fields of `dbc.Signal` (plus the start bit, see the header) -/
structure DSignal where
  name : String
  start : Nat
  size : Nat
  signed : Bool
  factor : Rat
  offset : Rat
  min : Rat
  max : Rat
  unit : String
  receivers : List String
  deriving Repr, DecidableEq, Inhabited

/-- `dbc.Message` -/
structure DMessage where
  id : Nat
  name : String
  size : Nat
  transmitter : String
  sigs : List DSignal
  deriving Repr, DecidableEq, Inhabited

/-- the sections of `dbc.File` the bus level of the importer reads -/
structure DFile where
  nodes : List String := []
  tables : List DTable := []
  encs : List DEnc := []
  comments : List DComment := []
  msgs : List DMessage := []
  deriving Repr, DecidableEq, Inhabited

/-- error causes at the granularity stream `impbus` observes (error type + sentinel) -/
inductive ImpErr where
  | valueIndexDuplicated   -- ValueIndexError / ErrIsDuplicated (AddValue)
  | valueNameDuplicated    -- NameError / ErrIsDuplicated inside an EntityError of a signal enum
  | nodeNameDuplicated     -- NameError / ErrIsDuplicated (AddNodeInterface)
  | nodeIdDuplicated       -- NodeIDError / ErrIsDuplicated (AddNodeInterface)
  | sigNameDuplicated      -- NameError / ErrIsDuplicated (first loop of importMessage)
  | startOutOfBounds       -- StartBitError / ErrOutOfBounds (first loop of importMessage)
  | nodeNotFound           -- GetEntityError / NameError / ErrNotFound (receiver or transmitter)
  | receiverIsSender       -- AddEntityError / ErrReceiverIsSender
  | msgNameDuplicated      -- AddEntityError / NameError / ErrIsDuplicated (AddSentMessage)
  | msgTooBig              -- MessageSizeError / ErrTooBig
  | canIdDuplicated        -- CANIDError / ErrIsDuplicated
  | sizeOutOfBounds        -- SignalSizeError / ErrOutOfBounds (more than 64 bits)
  | sizeTooSmall           -- SignalSizeError / ErrTooSmall (a value does not fit the signal)
  | sizeZero               -- ArgumentError "size" / ErrIsZero (New…SignalType)
  | intersect              -- StartBitError / ErrIntersect (InsertSignal)
  | internal               -- a dangling object index; never an answer (see `Proofs/ImportBus*`)
  deriving Repr, DecidableEq, Inhabited

/-! ## the result side -/

structure INode where
  name : String
  id : Nat
  desc : String
  deriving Repr, DecidableEq, Inhabited

/-- the fields of a `SignalType` object -/
structure SigType where
  kind : Kind
  size : Nat
  signed : Bool
  min : Rat
  max : Rat
  scale : Rat
  offset : Rat
  deriving Repr, DecidableEq, Inhabited

/-- a `SignalEnum` object: `values` is `Values()` (sorted by index), `refs` is `ReferenceCount()` -/
structure IEnum where
  name : String
  values : List DVal
  minSize : Nat
  refs : Nat
  deriving Repr, DecidableEq, Inhabited

/-- `maxIndex` of an enum: the highest index, 0 without values -/
def maxIndex : List DVal → Nat
  | [] => 0
  | v :: r => Nat.max v.1 (maxIndex r)

/-- `SignalEnum.GetSize()` -/
def IEnum.size (e : IEnum) : Int := enumSize (e.minSize : Int) (maxIndex e.values : Int)

inductive IKind where
  /-- `StandardSignal`: index of the type object, index of the unit object (`none` = nil unit) -/
  | standard (typ : Nat) (unit : Option Nat)
  /-- `EnumSignal`: index of the enum object -/
  | enum (e : Nat)
  deriving Repr, DecidableEq, Inhabited

structure ISignal where
  name : String
  start : Nat
  desc : String
  kind : IKind
  deriving Repr, DecidableEq, Inhabited

structure IMessage where
  id : Nat
  name : String
  size : Nat
  /-- node name of `SenderNodeInterface()` -/
  sender : String
  /-- node names of `Receivers()` (a set: first-occurrence order here, sorted by the getter) -/
  receivers : List String
  desc : String
  sigs : List ISignal
  deriving Repr, DecidableEq, Inhabited

structure IBus where
  desc : String
  /-- `NodeInterfaces()` (sorted by node id) -/
  nodes : List INode
  /-- in the order of the file -/
  msgs : List IMessage
  types : List SigType
  units : List String
  enums : List IEnum
  deriving Repr, DecidableEq, Inhabited

/-- `GetSize()` of a signal of the bus -/
def IBus.sigSize (b : IBus) (s : ISignal) : Option Int :=
  match s.kind with
  | .standard t _ => (b.types[t]?).map (fun ty => (ty.size : Int))
  | .enum e => (b.enums[e]?).map IEnum.size

/-! ## comments -/

/-- the last text a selector finds (a Go map: a later comment overwrites an earlier one) -/
def lastText (sel : DComment → Option String) : List DComment → Option String
  | [] => none
  | c :: r =>
    match lastText sel r with
    | some t => some t
    | none => sel c

def selGeneral : DComment → Option String
  | .general t => some t
  | _ => none

def selNode (name : String) : DComment → Option String
  | .node n t => if n = name then some t else none
  | _ => none

def selMsg (id : Nat) : DComment → Option String
  | .msg i t => if i = id then some t else none
  | _ => none

def selSig (id : Nat) (name : String) : DComment → Option String
  | .sig i n t => if i = id ∧ n = name then some t else none
  | _ => none

/-- description of an entity: `SetDesc` is called only when the map has the key -/
def descOf (sel : DComment → Option String) (cs : List DComment) : String :=
  (lastText sel cs).getD ""

/-! ## value tables and value encodings -/

/-- the `AddValue` calls of one enum in the given order: index unique, then name unique -/
def checkValues : List Nat → List String → List DVal → Except ImpErr Unit
  | _, _, [] => .ok ()
  | is, ns, v :: r =>
    if is.contains v.1 then .error .valueIndexDuplicated
    else if ns.contains v.2 then .error .valueNameDuplicated
    else checkValues (v.1 :: is) (v.2 :: ns) r

/-- `slices.SortFunc(values, by ID)` / `Values()` -/
def sortVals (vs : List DVal) : List DVal := sortBy (·.1) vs

/-- `importValueTable` -/
def importTable (t : DTable) : Except ImpErr IEnum :=
  match checkValues [] [] t.values with
  | .error e => .error e
  | .ok () => .ok { name := t.name, values := sortVals t.values, minSize := 1, refs := 0 }

/-- the loop over `dbcFile.ValueTables`: the registry -/
def importTables : List DTable → Except ImpErr (List IEnum)
  | [] => .ok []
  | t :: r =>
    match importTable t with
    | .error e => .error e
    | .ok e =>
      match importTables r with
      | .error e' => .error e'
      | .ok es => .ok (e :: es)

/-- the registry look-up of `importValueEncoding`: the first table with exactly the (sorted)
    values; an empty list matches nothing -/
def matchTable (reg : List IEnum) (sorted : List DVal) : Option Nat :=
  if sorted = [] then none else reg.findIdx? (fun e => e.values = sorted)

/-- `signalEnums`: signal key ↦ enum object; the most recent entry first -/
abbrev SigEnums := List ((Nat × String) × Nat)

/-- `importValueEncoding`; `reg` = the registry, `enums` = all enum objects so far -/
def importEnc (reg : List IEnum) (enums : List IEnum) (se : SigEnums) (c : DEnc) :
    Except ImpErr (List IEnum × SigEnums) :=
  let sorted := sortVals c.values
  match matchTable reg sorted with
  | some i => .ok (enums, ((c.msgId, c.sigName), i) :: se)
  | none =>
    match checkValues [] [] sorted with
    | .error e => .error e
    | .ok () =>
      .ok (enums ++ [{ name := c.sigName ++ "_Enum", values := sorted, minSize := 1, refs := 0 }],
           ((c.msgId, c.sigName), enums.length) :: se)

def importEncs (reg : List IEnum) : List IEnum → SigEnums → List DEnc → Except ImpErr (List IEnum × SigEnums)
  | enums, se, [] => .ok (enums, se)
  | enums, se, c :: r =>
    match importEnc reg enums se c with
    | .error e => .error e
    | .ok (enums', se') => importEncs reg enums' se' r

/-! ## nodes -/

/-- `Bus.AddNodeInterface` -/
def addNode (ns : List INode) (n : INode) : Except ImpErr (List INode) :=
  if ns.any (fun m => m.name = n.name) then .error .nodeNameDuplicated
  else if ns.any (fun m => m.id = n.id) then .error .nodeIdDuplicated
  else .ok (ns ++ [n])

/-- the loop of `importNodes`: the node id is the index in `BU_`; the placeholder name is skipped -/
def addNodes (cs : List DComment) : List INode → List (String × Nat) → Except ImpErr (List INode)
  | ns, [] => .ok ns
  | ns, (name, idx) :: r =>
    if name = placeholder then addNodes cs ns r
    else
      match addNode ns { name := name, id := idx, desc := descOf (selNode name) cs } with
      | .error e => .error e
      | .ok ns' => addNodes cs ns' r

def placeholderNode : INode := { name := placeholder, id := placeholderId, desc := "" }

/-- `importNodes`: the nodes of the file, then the placeholder node (always) -/
def importNodes (cs : List DComment) (names : List String) : Except ImpErr (List INode) :=
  match addNodes cs [] names.zipIdx with
  | .error e => .error e
  | .ok ns =>
    match addNode ns placeholderNode with
    | .error e => .error e
    | .ok _ => .ok ns

/-- `NodeInterfaces()` at the end of `importFile`: sorted by id; the placeholder is removed when
    it sends nothing.  `ns` = the nodes of the file in file order (ids ascending, none is 1024) -/
def finalNodes (ns : List INode) (used : Bool) : List INode :=
  ns.filter (fun n => n.id < placeholderId) ++ (if used then [placeholderNode] else []) ++
    ns.filter (fun n => placeholderId < n.id)

/-! ## signal types, units, enums -/

/-- what `getSignalTypeKey` prints -/
structure TypeKey where
  signed : Bool
  size : Nat
  min : Rat
  max : Rat
  factor : Rat
  offset : Rat
  deriving Repr, DecidableEq, Inhabited

def keyOf (d : DSignal) : TypeKey :=
  { signed := d.signed, size := d.size, min := d.min, max := d.max, factor := d.factor, offset := d.offset }

/-- the importer state that the messages thread through -/
structure St where
  /-- type objects with their key; index 0 is `flagSigType` (no key) -/
  types : List (Option TypeKey × SigType)
  /-- unit objects = their symbols -/
  units : List String
  enums : List IEnum
  sigEnums : SigEnums
  /-- `sizedSignalEnums`: (enum object, size) ↦ enum object -/
  sized : List ((Nat × Nat) × Nat)
  deriving Repr, DecidableEq, Inhabited

/-- `NewFlagSignalType` -/
def flagType : SigType :=
  { kind := .flag, size := 1, signed := false, min := 0, max := 1, scale := 1, offset := 0 }

/-- `isDecimal`: `math.Mod(val, 1.0) != 0` -/
def isDec (q : Rat) : Bool := q.den != 1

/-- the test at the head of `importSignalType` -/
def isFlag (d : DSignal) : Bool :=
  d.size = 1 ∧ d.signed = false ∧ d.factor = 1 ∧ d.offset = 0 ∧ d.min = 0 ∧ d.max = 1

/-- the kind `importSignalType` gives to a new type object: decimal when one of factor, maximum,
    minimum, offset has a fractional part, else integer (all of them are fields of the key) -/
def kindOfKey (k : TypeKey) : Kind :=
  if isDec k.factor || isDec k.max || isDec k.min || isDec k.offset then .decimal else .integer

/-- the type object created for a key: `New{Decimal,Integer}SignalType(key, size, signed)`, then
    `SetMin`, `SetMax`, `SetScale`, `SetOffset` -/
def typeOfKey (k : TypeKey) : SigType :=
  { kind := kindOfKey k, size := k.size, signed := k.signed, min := k.min, max := k.max,
    scale := k.factor, offset := k.offset }

def kindOf (d : DSignal) : Kind := kindOfKey (keyOf d)

/-- the type object a signal without value encoding asks for (after the flag test) -/
def typeOf (d : DSignal) : SigType := typeOfKey (keyOf d)

/-- `importSignalType`: index of the type object -/
def importType (st : St) (d : DSignal) : Except ImpErr (St × Nat) :=
  if isFlag d then .ok (st, 0)
  else
    match st.types.findIdx? (fun t => t.1 = some (keyOf d)) with
    | some i => .ok (st, i)
    | none =>
      if d.size = 0 then .error .sizeZero
      else .ok ({ st with types := st.types ++ [(some (keyOf d), typeOf d)] }, st.types.length)

/-- the unit part of `importSignal` -/
def importUnit (st : St) (sym : String) : St × Option Nat :=
  if sym = "" then (st, none)
  else
    match st.units.findIdx? (fun u => u = sym) with
    | some i => (st, some i)
    | none => ({ st with units := st.units ++ [sym] }, some st.units.length)

/-- one more signal refers to enum object `i` -/
def addRef (st : St) (i : Nat) : St :=
  { st with enums := st.enums.modify i (fun e => { e with refs := e.refs + 1 }) }

/-- the enum part of `importSignal`: `eid` = the object `signalEnums` has for the signal,
    `size` = the size stated by the file; answers the object the signal finally refers to -/
def importEnumRef (st : St) (eid size : Nat) : Except ImpErr (St × Nat) :=
  match st.enums[eid]? with
  | none => .error .internal
  | some e =>
    if e.size = (size : Int) then .ok (addRef st eid, eid)
    else if e.size > (size : Int) ∧ e.minSize ≤ 1 then .error .sizeTooSmall
    else
      match st.sized.lookup (eid, size) with
      | some sid => .ok (addRef st sid, sid)
      | none =>
        if e.refs = 0 then
          -- the enum is used only by this signal: `SetMinSize` on the object itself
          let e' : IEnum := { e with minSize := size, refs := 1 }
          if e'.size ≠ (size : Int) then .error .sizeTooSmall
          else .ok ({ st with enums := st.enums.set eid e', sized := ((eid, size), eid) :: st.sized }, eid)
        else
          -- a copy (`Clone`) with its own minimum size
          let c : IEnum := { name := e.name, values := e.values, minSize := size, refs := 1 }
          if c.size ≠ (size : Int) then .error .sizeTooSmall
          else .ok ({ st with enums := st.enums ++ [c],
                              sized := ((eid, size), st.enums.length) :: st.sized }, st.enums.length)

/-- `importSignal` -/
def importSignal (cs : List DComment) (msgId : Nat) (st : St) (d : DSignal) : Except ImpErr (St × ISignal) :=
  if d.size > 64 then .error .sizeOutOfBounds
  else
    let desc := descOf (selSig msgId d.name) cs
    match st.sigEnums.lookup (msgId, d.name) with
    | some eid =>
      match importEnumRef st eid d.size with
      | .error e => .error e
      | .ok (st', rid) => .ok (st', { name := d.name, start := d.start, desc := desc, kind := .enum rid })
    | none =>
      match importType st d with
      | .error e => .error e
      | .ok (st1, tid) =>
        let r := importUnit st1 d.unit
        .ok (r.1, { name := d.name, start := d.start, desc := desc, kind := .standard tid r.2 })

/-- the loop `importSignal; InsertSignal` over the sorted signals of a message without
    multiplexor; `lastEnd` = end of the signals inserted so far -/
def importSignals (cs : List DComment) (msgId : Nat) : St → Nat → List DSignal → Except ImpErr (St × List ISignal)
  | st, _, [] => .ok (st, [])
  | st, lastEnd, d :: r =>
    match importSignal cs msgId st d with
    | .error e => .error e
    | .ok (st1, s) =>
      if d.start < lastEnd then .error .intersect
      else
        match importSignals cs msgId st1 (d.start + d.size) r with
        | .error e => .error e
        | .ok (st2, ss) => .ok (st2, s :: ss)

/-! ## messages -/

/-- first loop of `importMessage` (one byte order here): duplicate name, then bounds -/
def firstLoop (cap : Nat) : List String → List DSignal → Except ImpErr Unit
  | _, [] => .ok ()
  | seen, s :: r =>
    if seen.contains s.name then .error .sigNameDuplicated
    else if s.start + s.size > cap then .error .startOutOfBounds
    else firstLoop cap (s.name :: seen) r

/-- every name once (the keys of a Go map; the order is immaterial: the getter sorts) -/
def dedup : List String → List String
  | [] => []
  | x :: r => if r.contains x then dedup r else x :: dedup r

/-- the keys of the `receivers` map: every receiver name of every signal, once, without the
    placeholder -/
def receiversOf (sigs : List DSignal) : List String :=
  (dedup (sigs.flatMap (·.receivers))).filter (fun r => r ≠ placeholder)

/-- `importMessage` for a message without multiplexor; `nodeNames` = the nodes of the bus besides
    the placeholder, `done` = the messages imported so far -/
def importMessage (nodeNames : List String) (cs : List DComment) (st : St) (done : List IMessage)
    (m : DMessage) : Except ImpErr (St × IMessage) :=
  let sigs := sortBy (·.start) m.sigs
  match firstLoop (m.size * 8) [] sigs with
  | .error e => .error e
  | .ok () =>
    let recv := receiversOf sigs
    if recv.any (fun r => !nodeNames.contains r) then .error .nodeNotFound
    else if m.transmitter ≠ placeholder ∧ !nodeNames.contains m.transmitter then .error .nodeNotFound
    else if recv.contains m.transmitter then .error .receiverIsSender
    else if done.any (fun d => d.sender = m.transmitter ∧ d.name = m.name) then .error .msgNameDuplicated
    else if m.size > 8 then .error .msgTooBig
    else if done.any (fun d => d.id = m.id) then .error .canIdDuplicated
    else
      match importSignals cs m.id st 0 sigs with
      | .error e => .error e
      | .ok (st', isigs) =>
        .ok (st', { id := m.id, name := m.name, size := m.size, sender := m.transmitter,
                    receivers := recv, desc := descOf (selMsg m.id) cs, sigs := isigs })

def importMessages (nodeNames : List String) (cs : List DComment) :
    St → List IMessage → List DMessage → Except ImpErr (St × List IMessage)
  | st, done, [] => .ok (st, done)
  | st, done, m :: r =>
    match importMessage nodeNames cs st done m with
    | .error e => .error e
    | .ok (st', im) => importMessages nodeNames cs st' (done ++ [im]) r

/-! ## the file -/

def initSt (enums : List IEnum) (se : SigEnums) : St :=
  { types := [(none, flagType)], units := [], enums := enums, sigEnums := se, sized := [] }

/-- `importFile` -/
def importBus (f : DFile) : Except ImpErr IBus :=
  match importTables f.tables with
  | .error e => .error e
  | .ok reg =>
    match importEncs reg reg [] f.encs with
    | .error e => .error e
    | .ok (enums, se) =>
      match importNodes f.comments f.nodes with
      | .error e => .error e
      | .ok ns =>
        match importMessages (ns.map (·.name)) f.comments (initSt enums se) [] f.msgs with
        | .error e => .error e
        | .ok (st, msgs) =>
          .ok { desc := descOf selGeneral f.comments,
                nodes := finalNodes ns (msgs.any (fun m => m.sender = placeholder)),
                msgs := msgs, types := st.types.map (·.2), units := st.units, enums := st.enums }

end Acme.ImportBus
