/-
Library for the GENERATED comparators (Acme/Gen/Comparators.lean, written by
/verif/tools/extract/comparators.go from /repo's current source on every run).

Part 1 (trusted base of the translator): what the Go library comparison functions mean.
  `strings.Compare(a, b)` / `cmp.Compare` on strings: -1 / 0 / +1 by the lexicographic order of
  the strings (Go compares bytes, Lean code points; on valid UTF-8 the two orders coincide — the
  same convention as Acme.Core.Det), `cmp.Compare` on integers: -1 / 0 / +1.  A `float64` key is
  represented by its rank under `cmp.Compare` (a total preorder on float64: NaN < -Inf < … <
  +Inf, -0 = +0, NaN = NaN), an `Int`.

Part 2: the notions the proofs are about.  `TotalCmp c`: the three-way comparator `c` is a total
  preorder — exactly what `slices.SortFunc` requires ("cmp must implement a strict weak
  ordering").  `TiesId k c`: a tie of `c` implies equal `k` (the entity id).  Combinators
  (`byStr`, `byInt`, `bySub`, `swap`, `lex`) with their closure lemmas: a lexicographic chain of
  key comparisons is a `TotalCmp`, and if it ends in the comparison of the key `k` it is `TiesId k`.
-/
namespace Acme.CmpLib

/-! ### Part 1: Go library functions -/

/-- `strings.Compare` -/
def stringsCompare (a b : String) : Int := if a = b then 0 else if a < b then -1 else 1

/-- `cmp.Compare` on strings -/
def cmpCompareStr (a b : String) : Int := if a < b then -1 else if b < a then 1 else 0

/-- `cmp.Compare` on integers (and on the ranks of floats) -/
def cmpCompareInt (a b : Int) : Int := if a < b then -1 else if b < a then 1 else 0

/-! ### Part 2: total comparators -/

/-- `c` is a total preorder given as a three-way comparison. -/
structure TotalCmp {α : Type} (c : α → α → Int) : Prop where
  /-- the sign of `c b a` is the opposite of the sign of `c a b` -/
  antisymm : ∀ a b, c a b < 0 ↔ 0 < c b a
  /-- `≤` is transitive -/
  trans : ∀ a b d, c a b ≤ 0 → c b d ≤ 0 → c a d ≤ 0

/-- a tie implies equal keys `k` -/
def TiesId {α ι : Type} (k : α → ι) (c : α → α → Int) : Prop := ∀ a b, c a b = 0 → k a = k b

/-- a generated comparator with its key record and the entity-id key it ends in (if any) -/
structure AnyCmp where
  name : String
  Keys : Type
  cmp : Keys → Keys → Int
  idKey : Option (Keys → String)

/-- what C15 needs of a comparator: total, and tie-free up to the entity id when it has one -/
def AnyCmp.Good (c : AnyCmp) : Prop :=
  TotalCmp c.cmp ∧ (match c.idKey with | some k => TiesId k c.cmp | none => True)

namespace TotalCmp
variable {α : Type} {c : α → α → Int}

theorem refl (h : TotalCmp c) (a : α) : c a a = 0 := by
  have := h.antisymm a a
  omega

theorem eq_zero_symm (h : TotalCmp c) (a b : α) : c a b = 0 ↔ c b a = 0 := by
  have h1 := h.antisymm a b
  have h2 := h.antisymm b a
  omega

theorem total (h : TotalCmp c) (a b : α) : c a b ≤ 0 ∨ c b a ≤ 0 := by
  have h1 := h.antisymm a b
  omega

/-- the strict part is a strict weak ordering: irreflexive, transitive, and incomparability
    (`c a b = 0`) is transitive -/
theorem lt_trans (h : TotalCmp c) (a b d : α) (h1 : c a b < 0) (h2 : c b d < 0) : c a d < 0 := by
  have t := h.trans a b d (by omega) (by omega)
  by_cases hz : c a d = 0
  · have hda : c d a = 0 := (h.eq_zero_symm a d).mp hz
    have := h.trans d a b (by omega) (by omega)
    have := h.antisymm b d
    omega
  · omega

theorem tie_trans (h : TotalCmp c) (a b d : α) (h1 : c a b = 0) (h2 : c b d = 0) : c a d = 0 := by
  have t1 := h.trans a b d (by omega) (by omega)
  have h1' := (h.eq_zero_symm a b).mp h1
  have h2' := (h.eq_zero_symm b d).mp h2
  have t2 := h.trans d b a (by omega) (by omega)
  have := h.antisymm a d
  omega

/-- if `a ≤ b ≤ d` and `a`, `d` tie, then all three tie -/
theorem squeeze (h : TotalCmp c) (a b d : α) (h1 : c a b ≤ 0) (h2 : c b d ≤ 0) (h3 : c a d = 0) :
    c a b = 0 ∧ c b d = 0 := by
  have hda : c d a = 0 := (h.eq_zero_symm a d).mp h3
  have t1 := h.trans b d a h2 (by omega)
  have t2 := h.trans d a b (by omega) h1
  have a1 := h.antisymm a b
  have a2 := h.antisymm b d
  omega

end TotalCmp

/-! ### combinators -/

/-- comparison of a string key with `strings.Compare` -/
theorem TotalCmp.byStr {α : Type} (f : α → String) :
    TotalCmp (fun a b => stringsCompare (f a) (f b)) where
  antisymm a b := by
    unfold stringsCompare
    by_cases he : f a = f b
    · simp [he]
    · have he' : ¬ f b = f a := fun h => he h.symm
      simp only [he, he', if_false]
      by_cases hl : f a < f b
      · have : ¬ f b < f a := fun h => String.lt_irrefl _ (String.lt_trans hl h)
        simp [hl, this]
      · have : f b < f a := by
          rcases String.le_total (f a) (f b) with h | h
          · exact absurd (String.le_antisymm h (String.not_lt.mp hl)) he
          · exact Std.lt_of_le_of_ne h he'
        simp [hl, this]
  trans a b d := by
    unfold stringsCompare
    intro h1 h2
    have le_of : ∀ x y : String, (if x = y then (0 : Int) else if x < y then -1 else 1) ≤ 0 → x ≤ y := by
      intro x y h
      by_cases he : x = y
      · exact he ▸ String.le_refl _
      · by_cases hl : x < y
        · exact String.not_lt.mp (fun h' => String.lt_irrefl _ (String.lt_trans hl h'))
        · simp [he, hl] at h
    have hab := le_of _ _ h1
    have hbd := le_of _ _ h2
    have had : f a ≤ f d := String.le_trans hab hbd
    by_cases he : f a = f d
    · simp [he]
    · have : f a < f d := Std.lt_of_le_of_ne had he
      simp [he, this]

theorem TiesId.byStr {α : Type} (f : α → String) :
    TiesId f (fun a b => stringsCompare (f a) (f b)) := by
  intro a b h
  unfold stringsCompare at h
  by_cases he : f a = f b
  · exact he
  · by_cases hl : f a < f b <;> simp [he, hl] at h

/-- comparison of a string key with `cmp.Compare` -/
theorem TotalCmp.byCmpStr {α : Type} (f : α → String) :
    TotalCmp (fun a b => cmpCompareStr (f a) (f b)) where
  antisymm a b := by
    unfold cmpCompareStr
    by_cases h1 : f a < f b
    · have : ¬ f b < f a := fun h => String.lt_irrefl _ (String.lt_trans h1 h)
      simp [h1, this]
    · by_cases h2 : f b < f a <;> simp [h1, h2]
  trans a b d := by
    unfold cmpCompareStr
    intro h1 h2
    have nlt_of : ∀ x y : String, (if x < y then (-1 : Int) else if y < x then 1 else 0) ≤ 0 → ¬ y < x := by
      intro x y h hyx
      have : ¬ x < y := fun h' => String.lt_irrefl _ (String.lt_trans h' hyx)
      simp [this, hyx] at h
    have hab := String.not_lt.mp (nlt_of _ _ h1)
    have hbd := String.not_lt.mp (nlt_of _ _ h2)
    have had : ¬ f d < f a := String.not_lt.mpr (String.le_trans hab hbd)
    by_cases hl : f a < f d <;> simp [hl, had]

theorem TiesId.byCmpStr {α : Type} (f : α → String) :
    TiesId f (fun a b => cmpCompareStr (f a) (f b)) := by
  intro a b h
  unfold cmpCompareStr at h
  by_cases h1 : f a < f b
  · simp [h1] at h
  · by_cases h2 : f b < f a
    · simp [h1, h2] at h
    · exact String.le_antisymm (String.not_lt.mp h2) (String.not_lt.mp h1)

/-- comparison of an integer key with `cmp.Compare` -/
theorem TotalCmp.byInt {α : Type} (f : α → Int) :
    TotalCmp (fun a b => cmpCompareInt (f a) (f b)) where
  antisymm a b := by unfold cmpCompareInt; split <;> split <;> (try split) <;> omega
  trans a b d := by
    unfold cmpCompareInt
    intro h1 h2
    split at h1 <;> split at h2 <;> (try split at h1) <;> (try split at h2) <;> split <;> (try split) <;> omega

theorem TiesId.byInt {α : Type} (f : α → Int) :
    TiesId f (fun a b => cmpCompareInt (f a) (f b)) := by
  intro a b h
  unfold cmpCompareInt at h
  dsimp only at h
  split at h
  · omega
  · split at h <;> omega

/-- comparison of an integer key by subtraction (`a.x - b.x`; no overflow: unbounded `Int`) -/
theorem TotalCmp.bySub {α : Type} (f : α → Int) : TotalCmp (fun a b => f a - f b) where
  antisymm a b := by omega
  trans a b d := by omega

theorem TiesId.bySub {α : Type} (f : α → Int) : TiesId f (fun a b => f a - f b) := by
  intro a b h
  dsimp only at h
  omega

/-- the arguments swapped (descending order) -/
theorem TotalCmp.swap {α : Type} {c : α → α → Int} (h : TotalCmp c) : TotalCmp (fun a b => c b a) where
  antisymm a b := h.antisymm b a
  trans a b d h1 h2 := h.trans d b a h2 h1

theorem TiesId.swap {α ι : Type} {k : α → ι} {c : α → α → Int} (h : TiesId k c) :
    TiesId k (fun a b => c b a) := fun a b hz => (h b a hz).symm

/-- lexicographic composition: `c₁`, and `c₂` on its ties (`orCompare`, `if res != 0 { return res }`) -/
theorem TotalCmp.lex {α : Type} {c₁ c₂ : α → α → Int} (h₁ : TotalCmp c₁) (h₂ : TotalCmp c₂) :
    TotalCmp (fun a b => if c₁ a b ≠ 0 then c₁ a b else c₂ a b) where
  antisymm a b := by
    have s := h₁.eq_zero_symm a b
    have a1 := h₁.antisymm a b
    have a1' := h₁.antisymm b a
    have a2 := h₂.antisymm a b
    by_cases hz : c₁ a b = 0
    · have hz' : c₁ b a = 0 := s.mp hz
      simp only [hz, hz', ne_eq, not_true_eq_false, if_false]
      exact a2
    · have hz' : ¬ c₁ b a = 0 := fun h => hz (s.mpr h)
      simp only [ne_eq, hz, hz', not_false_eq_true, if_true]
      omega
  trans a b d := by
    intro h1 h2
    have l1 : c₁ a b ≤ 0 := by
      by_cases hz : c₁ a b = 0
      · omega
      · simp only [ne_eq, hz, not_false_eq_true, if_true] at h1; exact h1
    have l2 : c₁ b d ≤ 0 := by
      by_cases hz : c₁ b d = 0
      · omega
      · simp only [ne_eq, hz, not_false_eq_true, if_true] at h2; exact h2
    have l3 := h₁.trans a b d l1 l2
    by_cases hz : c₁ a d = 0
    · obtain ⟨z1, z2⟩ := h₁.squeeze a b d l1 l2 hz
      simp only [z1, z2, hz, ne_eq, not_true_eq_false, if_false] at h1 h2 ⊢
      exact h₂.trans a b d h1 h2
    · simp only [ne_eq, hz, not_false_eq_true, if_true]
      exact l3

/-- a tie of a lexicographic comparator is a tie of its last component -/
theorem TiesId.lex {α ι : Type} {k : α → ι} {c₁ c₂ : α → α → Int} (h₂ : TiesId k c₂) :
    TiesId k (fun a b => if c₁ a b ≠ 0 then c₁ a b else c₂ a b) := by
  intro a b h
  by_cases hz : c₁ a b = 0
  · simp only [hz, ne_eq, not_true_eq_false, if_false] at h
    exact h₂ a b h
  · simp only [ne_eq, hz, not_false_eq_true, if_true] at h

/-- … and of its first component -/
theorem TiesId.lex_left {α ι : Type} {k : α → ι} {c₁ c₂ : α → α → Int} (h₁ : TiesId k c₁) :
    TiesId k (fun a b => if c₁ a b ≠ 0 then c₁ a b else c₂ a b) := by
  intro a b h
  by_cases hz : c₁ a b = 0
  · exact h₁ a b hz
  · simp only [ne_eq, hz, not_false_eq_true, if_true] at h

/-! ### tactics: recognise a lexicographic chain of key comparisons -/

/-- one key comparison (possibly with swapped arguments) -/
macro "cmp_key" : tactic => `(tactic| first
  | apply TotalCmp.byStr | apply TotalCmp.byCmpStr | apply TotalCmp.byInt | apply TotalCmp.bySub
  | (apply TotalCmp.swap; first
      | apply TotalCmp.byStr | apply TotalCmp.byCmpStr | apply TotalCmp.byInt | apply TotalCmp.bySub))

/-- a chain `lex k₁ (lex k₂ (… kₙ))` of key comparisons is a total preorder -/
macro "cmp_total" : tactic => `(tactic| repeat (first | cmp_key | apply TotalCmp.lex))

/-- … whose ties are ties of its last key -/
macro "cmp_ties" : tactic => `(tactic| (repeat apply TiesId.lex) <;> first
  | apply TiesId.byStr | apply TiesId.byCmpStr | apply TiesId.byInt | apply TiesId.bySub
  | (apply TiesId.swap; first
      | apply TiesId.byStr | apply TiesId.byCmpStr | apply TiesId.byInt | apply TiesId.bySub))

end Acme.CmpLib
