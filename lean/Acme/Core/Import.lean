/-
Message level of the DBC importer and exporter (properties C10 / C11):

  importer.go : importMessage (all three cases), importMuxSignal, importSignal (the size checks),
                getSignalStartBit, importExtMuxes (the look-up key)
  exporter.go : exportMessage, exportSignal, exportMultiplexerSignal, getStartBit
  message.go / mux_signal.go / signal_layout.go : Message.InsertSignal (names, nested names,
                verifyBeforeInsert, insert), MultiplexerSignal.InsertSignal (names, group ids,
                verifyBeforeInsert per group, insert), NewMultiplexerSignal

What is modelled is the STRUCTURE: names, start bits, sizes, byte order, multiplexor /
multiplexed flags, switch values and the extended-multiplexing entries of ONE message
(`DMsg`), and on the other side the placement of the signals in the message (`ITree`).
Scale / offset / min / max / unit / receivers / value tables are payload outside this model
(the generator of stream `imp` never writes a `VAL_` for a signal, uses known receivers and an
8-byte CAN 2.0 bus, as an import always creates).

The position algebra is `Acme.Layout` (`verifyInsert`, `insertAt`) applied to the `Slot` view
of the top-level layout and of every group of a multiplexer; a group is not stored, it is the
result of the insertions made so far (`groupOf`: the registered children that are members of
group `k`, inserted in registration order — this is exactly the state of `groups[k].signals`).

Several multiplexors in one message: a multiplexor that has an extended entry of its own is
NESTED into the multiplexor the entry names.  The tree stays first order: a nested multiplexer
is a `Child` with `isMux = true` in its parent and a `MuxNode` of the same name in
`ITree.nested` (names are unique within an accepted message).
-/
import Acme.Core.Layout
import Acme.Core.Conv
import Acme.Core.Arith
import Acme.Core.Mux

namespace Acme.Import
open Acme.Layout Acme.Conv Acme.Arith
open Acme.Mux (sortInts compactAdj)

/-! ## the file side -/

/-- the fields of `dbc.Signal` the importer reads for the structure -/
structure DSig where
  name : String
  start : Nat
  size : Nat
  bigEndian : Bool
  isMultiplexor : Bool := false
  isMultiplexed : Bool := false
  muxSwitch : Nat := 0
  deriving Repr, DecidableEq, Inhabited

/-- `dbc.ExtendedMux` of the message (`SG_MUL_VAL_ id muxed muxor from-to, …;`) -/
structure DExt where
  muxor : String
  muxed : String
  ranges : List (Nat × Nat)
  deriving Repr, DecidableEq, Inhabited

/-- `dbc.Message` plus the extended-multiplexing entries that carry its id -/
structure DMsg where
  id : Nat
  size : Nat
  sigs : List DSig
  exts : List DExt := []
  deriving Repr, DecidableEq, Inhabited

/-- error causes at the granularity stream `imp` observes (error type + sentinel) -/
inductive ImpErr where
  | byteOrder            -- "byte_order: should be the same for all the signals within the message"
  | startOutOfBounds     -- StartBitError / ErrOutOfBounds (first loop of importMessage)
  | msgTooBig            -- MessageSizeError / ErrTooBig (AddSentMessage on a CAN 2.0 bus)
  | sizeOutOfBounds      -- SignalSizeError / ErrOutOfBounds
  | sizeZero             -- ArgumentError "size" / ErrIsZero; SignalSizeError / ErrIsZero (0-bit multiplexor)
  | nameDuplicated       -- NameError / ErrIsDuplicated (first loop of importMessage, InsertSignal)
  | startNegative        -- StartBitError / ErrIsNegative
  | noSpaceLeft          -- SignalSizeError / ErrNoSpaceLeft
  | intersect            -- StartBitError / ErrIntersect
  | groupCountZero       -- ArgumentError "groupCount" / ErrIsZero
  | groupCountNegative   -- ArgumentError "groupCount" / ErrIsNegative
  | groupSizeZero        -- ArgumentError "groupSize" / ErrIsZero   (D76)
  | groupSizeNegative    -- ArgumentError "groupSize" / ErrIsNegative
  | groupIdOutOfBounds   -- GroupIDError / ErrOutOfBounds
  | groupIdNegative      -- GroupIDError / ErrIsNegative
  | extMuxRequired       -- ErrIsRequired "extended multiplexing"
  | nameNotFound         -- NameError / ErrNotFound
  | precede              -- "multiplexor …: should precede the multiplexor … it multiplexes"
  | unsupported          -- outside the model (nested multiplexors); never an answer of the code
  deriving Repr, DecidableEq, Inhabited

/-! ## the model side -/

/-- a top-level standard / enum signal -/
structure Leaf where
  name : String
  start : Int
  size : Int
  deriving Repr, DecidableEq, Inhabited

/-- a signal inside a multiplexer: relative start, size, and the group ids it was inserted
    with (`[]` = inserted without ids = FIXED: member of every group) -/
structure Child where
  name : String
  rel : Int
  size : Int
  gids : List Int
  /-- the child is itself a multiplexer (its body is the node of that name in `ITree.nested`);
      `size` is then its total size (selector + one group) -/
  isMux : Bool := false
  deriving Repr, DecidableEq, Inhabited

structure MuxNode where
  name : String
  /-- ABSOLUTE start bit (`GetStartBit()`); for a nested multiplexer the relative start is in
      the `Child` entry of its parent -/
  start : Int
  /-- `GetGroupCountSize()` -/
  selW : Int
  groupCount : Int
  groupSize : Int
  /-- registered children in insertion order -/
  children : List Child
  deriving Repr, DecidableEq, Inhabited

inductive Item where
  | sig (l : Leaf)
  | mux (n : MuxNode)
  deriving Repr, DecidableEq, Inhabited

/-- the imported structure of one message; `top` is `signalLayout.signals` (layout order) -/
structure ITree where
  id : Nat
  sizeByte : Int
  bigEndian : Bool
  top : List Item
  /-- the multiplexers that are children of other multiplexers (any depth), in the order in
      which the importer builds them; a parent refers to them by name (`Child.isMux`) -/
  nested : List MuxNode := []
  deriving Repr, DecidableEq, Inhabited

def Item.name : Item → String
  | .sig l => l.name
  | .mux n => n.name

def Item.start : Item → Int
  | .sig l => l.start
  | .mux n => n.start

/-- `GetSize()`: a multiplexer is its selector plus one group -/
def Item.size : Item → Int
  | .sig l => l.size
  | .mux n => n.groupSize + n.selW

def Item.slot (x : Item) : Slot := ⟨0, x.start, x.size⟩
def Child.slot (c : Child) : Slot := ⟨0, c.rel, c.size⟩

def topSlots (l : List Item) : List Slot := l.map Item.slot
def childSlots (l : List Child) : List Slot := l.map Child.slot

/-- membership of a child in group `k` -/
def Child.inGroup (c : Child) (k : Int) : Bool := c.gids.isEmpty || c.gids.contains k

/-- `SignalLayout.insert` on children (before the first one that starts later) -/
def insertChild (x : Child) : List Child → List Child
  | [] => [x]
  | s :: rest => if s.rel > x.rel then x :: s :: rest else s :: insertChild x rest

/-- `SignalLayout.insert` on top-level items -/
def insertItem (x : Item) : List Item → List Item
  | [] => [x]
  | s :: rest => if s.start > x.start then x :: s :: rest else s :: insertItem x rest

/-- `groups[k].signals` after the children `cs` were registered in this order -/
def groupOf (cs : List Child) (k : Int) : List Child :=
  (cs.filter (fun c => c.inGroup k)).foldl (fun l c => insertChild c l) []

/-- names registered in the message (`signalNames`): top-level items and everything nested -/
def regNames : List Item → List String
  | [] => []
  | .sig l :: rest => l.name :: regNames rest
  | .mux n :: rest => n.name :: (n.children.map (·.name) ++ regNames rest)

def ofLErr : LErr → ImpErr
  | .negative => .startNegative
  | .outOfBounds => .sizeOutOfBounds
  | .noSpaceLeft => .noSpaceLeft
  | .intersect => .intersect
  | _ => .unsupported

/-- `verifyNestedSignalNames`: a child's name is used in the message, or equals the
    multiplexer's own name, or two children share a name -/
def nestedClash (top : List Item) : Item → Bool
  | .sig _ => false
  | .mux n =>
    n.children.any (fun c => (regNames top).contains c.name || c.name == n.name) ||
    !Acme.Mux.nodupStr (n.children.map (·.name))

/-- `Message.InsertSignal` on a message of `cap` bits -/
def insertTop (cap : Int) (top : List Item) (x : Item) : Except ImpErr (List Item) :=
  if (regNames top).contains x.name then .error .nameDuplicated
  else if nestedClash top x then .error .nameDuplicated
  else match verifyInsert cap (topSlots top) x.size x.start with
    | .error e => .error (ofLErr e)
    | .ok () => .ok (insertItem x top)

/-- the loop `for i < groupCount: groups[i].verifyBeforeInsert` of a fixed insertion -/
def verifyGroups (gs : Int) (cs : List Child) (sz rel : Int) : List Nat → Except ImpErr Unit
  | [] => .ok ()
  | k :: rest =>
    match verifyInsert gs (childSlots (groupOf cs (k : Int))) sz rel with
    | .error e => .error (ofLErr e)
    | .ok () => verifyGroups gs cs sz rel rest

/-- the verification loop over the given (sorted, compacted) group ids; a freshly created
    signal has no previous ids -/
def verifyIds (gc gs : Int) (cs : List Child) (sz rel : Int) : List Int → Except ImpErr Unit
  | [] => .ok ()
  | k :: rest =>
    if k < 0 then .error .groupIdNegative
    else if k ≥ gc then .error .groupIdOutOfBounds
    else match verifyInsert gs (childSlots (groupOf cs k)) sz rel with
      | .error e => .error (ofLErr e)
      | .ok () => verifyIds gc gs cs sz rel rest

/-- `MultiplexerSignal.InsertSignal(signal, rel, gids...)` on a multiplexer that is not yet
    part of a message; `cs` = the children registered so far -/
def muxInsert (gc gs : Int) (cs : List Child) (c : Child) : Except ImpErr (List Child) :=
  if cs.any (fun d => d.name == c.name) then .error .nameDuplicated
  else if c.gids.isEmpty then
    match verifyGroups gs cs c.size c.rel (List.range gc.toNat) with
    | .error e => .error e
    | .ok () => .ok (cs ++ [c])
  else
    let ids := compactAdj (sortInts c.gids)
    match verifyIds gc gs cs c.size c.rel ids with
    | .error e => .error e
    | .ok () => .ok (cs ++ [{ c with gids := ids }])

/-- `NewMultiplexerSignal(name, groupCount, groupSize)` -/
def newMux (gc gs : Int) : Except ImpErr Unit :=
  if gc = 0 then .error .groupCountZero
  else if gc < 0 then .error .groupCountNegative
  else if gs = 0 then .error .groupSizeZero
  else if gs < 0 then .error .groupSizeNegative
  else .ok ()

/-! ## importer -/

/-- `importer.getSignalStartBit` (= `Acme.Props.C10.importPos`) -/
def sigPos (s : DSig) : Int := if s.bigEndian then convStart s.start else s.start

/-- stable insertion sort by a natural key (`x` goes before the first element whose key is not
    smaller; elements are taken from the right, so equal keys keep their order) -/
def insBy {α : Type} (key : α → Nat) (x : α) : List α → List α
  | [] => [x]
  | y :: r => if key x ≤ key y then x :: y :: r else y :: insBy key x r

def sortBy {α : Type} (key : α → Nat) : List α → List α
  | [] => []
  | x :: r => insBy key x (sortBy key r)

/-- `slices.SortFunc(dbcMsg.Signals, by StartBit)`: stable (the Go sort is an insertion sort
    up to 12 elements; the generator of stream `imp` stays below) -/
def sortSigs (l : List DSig) : List DSig := sortBy (·.start) l

/-- first loop of `importMessage`: per signal (in sorted order) duplicate name, then bounds, then
    byte order against the first signal; `seen` = the names met so far -/
def firstLoop (cap : Int) (be0 : Bool) : List String → List DSig → Except ImpErr Unit
  | _, [] => .ok ()
  | seen, s :: r =>
    if seen.contains s.name then .error .nameDuplicated
    else if sigPos s + (s.size : Int) > cap then .error .startOutOfBounds
    else if s.bigEndian != be0 then .error .byteOrder
    else firstLoop cap be0 (s.name :: seen) r

def headBE : List DSig → Bool
  | [] => false
  | s :: _ => s.bigEndian

/-- the structural part of `importSignal`: at most 64 bits, `New…SignalType` refuses size 0 -/
def checkSig (s : DSig) : Except ImpErr Unit :=
  if s.size > 64 then .error .sizeOutOfBounds
  else if s.size = 0 then .error .sizeZero
  else .ok ()

/-- `i.dbcExtMuxes[key(msgID, name)]`: the LAST entry with that multiplexed name -/
def findExt (exts : List DExt) (name : String) : Option DExt :=
  (exts.filter (fun e => e.muxed == name)).getLast?

def natRanges (rs : List (Nat × Nat)) : List (Int × Int) := rs.map (fun r => ((r.1 : Int), (r.2 : Int)))

/-- group ids of an extended entry: expansion, sort, compact; every group = fixed -/
def extIds (gc : Int) (rs : List (Nat × Nat)) : Except ImpErr (List Int) :=
  match expand gc (natRanges rs) with
  | none => .error .groupIdOutOfBounds
  | some xs =>
    let ids := compactAdj (sortInts xs)
    .ok (if (ids.length : Int) = gc then [] else ids)

/-- group ids with which `importMuxSignal` inserts the signal `k` -/
def kidIds (exts : List DExt) (gc : Int) (k : DSig) : Except ImpErr (List Int) :=
  match findExt exts k.name with
  | some e => extIds gc e.ranges
  | none => .ok (if k.isMultiplexed then [(k.muxSwitch : Int)] else [])

/-- second loop of `importMuxSignal` -/
def addKids (exts : List DExt) (gc gs base : Int) : List Child → List DSig → Except ImpErr (List Child)
  | cs, [] => .ok cs
  | cs, k :: r =>
    match kidIds exts gc k with
    | .error e => .error e
    | .ok ids =>
      match muxInsert gc gs cs ⟨k.name, sigPos k - base, k.size, ids, k.isMultiplexor⟩ with
      | .error e => .error e
      | .ok cs' => addKids exts gc gs base cs' r

/-- first loop of `importMuxSignal`: the highest end bit of the multiplexed signals -/
def maxEnd : List DSig → Int → Int
  | [], acc => acc
  | k :: r, acc => maxEnd r (if (k.size : Int) + sigPos k > acc then (k.size : Int) + sigPos k else acc)

/-- `importMuxSignal` -/
def importMux (exts : List DExt) (mx : DSig) (kids : List DSig) : Except ImpErr MuxNode :=
  let muxStart := sigPos mx
  let w : Int := mx.size
  let e := maxEnd kids 0
  let gs := if e > 0 then e - muxStart - w else 0
  let gc := calcValue w
  -- a multiplexor without bits is refused (SignalSizeError / ErrIsZero)
  if mx.size = 0 then .error .sizeZero
  else match newMux gc gs with
  | .error err => .error err
  | .ok () =>
    match addKids exts gc gs (muxStart + w) [] kids with
    | .error err => .error err
    | .ok cs => .ok ⟨mx.name, muxStart, calcSize (gc - 1), gc, gs, cs⟩

def leafOf (s : DSig) : Item := .sig ⟨s.name, sigPos s, s.size⟩

/-- case "no multiplexor": `importSignal` + `InsertSignal` per signal -/
def importPlain (cap : Int) : List Item → List DSig → Except ImpErr (List Item)
  | top, [] => .ok top
  | top, s :: r =>
    match checkSig s with
    | .error e => .error e
    | .ok () =>
      match insertTop cap top (leafOf s) with
      | .error e => .error e
      | .ok top' => importPlain cap top' r

/-- case "one multiplexor", first loop: the signals with the multiplexor's name are skipped,
    the others are created and split into multiplexed / standard; `last` = highest start of a
    multiplexed signal (-1 when there is none) -/
def splitOne (muxName : String) : List DSig → (muxed std : List DSig) → (last : Int) →
    Except ImpErr (List DSig × List DSig × Int)
  | [], muxed, std, last => .ok (muxed, std, last)
  | s :: r, muxed, std, last =>
    if s.name == muxName then splitOne muxName r muxed std last
    else match checkSig s with
      | .error e => .error e
      | .ok () =>
        if s.isMultiplexed then
          splitOne muxName r (muxed ++ [s]) std (if sigPos s > last then sigPos s else last)
        else splitOne muxName r muxed (std ++ [s]) last

/-- case "one multiplexor", second loop: a standard signal strictly between the multiplexor
    and the last multiplexed signal joins the multiplexed ones (D75), the others are inserted -/
def placeStd (cap muxorStart last : Int) : List Item → List DSig → List DSig →
    Except ImpErr (List Item × List DSig)
  | top, muxed, [] => .ok (top, muxed)
  | top, muxed, s :: r =>
    if sigPos s > muxorStart ∧ sigPos s < last then placeStd cap muxorStart last top (muxed ++ [s]) r
    else match insertTop cap top (leafOf s) with
      | .error e => .error e
      | .ok top' => placeStd cap muxorStart last top' muxed r

def importOne (cap : Int) (exts : List DExt) (mx : DSig) (sorted : List DSig) : Except ImpErr (List Item) :=
  match splitOne mx.name sorted [] [] (-1) with
  | .error e => .error e
  | .ok (muxed, std, last) =>
    match placeStd cap (sigPos mx) last [] muxed std with
    | .error e => .error e
    | .ok (top, muxed') =>
      match importMux exts mx muxed' with
      | .error e => .error e
      | .ok n => insertTop cap top (.mux n)

/-! ### several multiplexors (flat) -/

/-- `muxSigNames[name]`: index of the LAST multiplexor with that name -/
def muxIdx (muxes : List DSig) (name : String) : Option Nat :=
  let idxs := (List.range muxes.length).filter (fun i => (muxes[i]?.map (·.name)) == some name)
  idxs.getLast?

def appendAt (groups : List (List DSig)) (i : Nat) (s : DSig) : List (List DSig) :=
  groups.modify i (fun g => g ++ [s])

/-- first loop of the case "several multiplexors" -/
def splitMany (cap : Int) (exts : List DExt) (muxes : List DSig) :
    List DSig → List Item → List (List DSig) → Except ImpErr (List Item × List (List DSig))
  | [], top, groups => .ok (top, groups)
  | s :: r, top, groups =>
    if muxes.any (fun x => x.name == s.name) then splitMany cap exts muxes r top groups
    else match checkSig s with
      | .error e => .error e
      | .ok () =>
        if s.isMultiplexed then
          match findExt exts s.name with
          | none => .error .extMuxRequired
          | some e =>
            match muxIdx muxes e.muxor with
            | none => .error .nameNotFound
            | some i => splitMany cap exts muxes r top (appendAt groups i s)
        else match insertTop cap top (leafOf s) with
          | .error e => .error e
          | .ok top' => splitMany cap exts muxes r top' groups

/-- the built multiplexers waiting to be handed to their parent: `muxedSigGroups[i] =
    append(muxedSigGroups[i], …)` is kept as a list of (parent index, signal) pairs -/
def pendingFor (extra : List (Nat × DSig)) (j : Nat) : List DSig :=
  (extra.filter (fun p => p.1 == j)).map (·.2)

/-- a built multiplexer as it is handed to `importMuxSignal` of its parent: the multiplexor
    signal of the file with the TOTAL size of the multiplexer (`sig.GetSize()`) -/
def nestedKid (mx : DSig) (n : MuxNode) : DSig := { mx with size := (n.groupSize + n.selW).toNat }

/-- second loop: the multiplexors from the last to the first; the work list holds every
    multiplexor with the signals collected for it and its index `j`.  A multiplexor with an
    extended entry is NESTED into the multiplexor the entry names (which must precede it): it is
    built first, recorded in `nested`, and handed to its parent as one more multiplexed signal. -/
def placeMuxes (cap : Int) (exts : List DExt) (muxes : List DSig) :
    List ((DSig × List DSig) × Nat) → List Item → List MuxNode → List (Nat × DSig) →
    Except ImpErr (List Item × List MuxNode)
  | [], top, nested, _ => .ok (top, nested)
  | ((mx, kids), j) :: rest, top, nested, extra =>
    match importMux exts mx (kids ++ pendingFor extra j) with
    | .error e => .error e
    | .ok n =>
      match findExt exts mx.name with
      | none =>
        match insertTop cap top (.mux n) with
        | .error e => .error e
        | .ok top' => placeMuxes cap exts muxes rest top' nested extra
      | some e =>
        match muxIdx muxes e.muxor with
        | none => .error .nameNotFound
        | some i =>
          if i ≥ j then .error .precede
          else placeMuxes cap exts muxes rest top (nested ++ [n]) (extra ++ [(i, nestedKid mx n)])

def importMany (cap : Int) (exts : List DExt) (muxes sorted : List DSig) :
    Except ImpErr (List Item × List MuxNode) :=
  match splitMany cap exts muxes sorted [] (List.replicate muxes.length []) with
  | .error e => .error e
  | .ok (top, groups) => placeMuxes cap exts muxes ((muxes.zip groups).zipIdx.reverse) top [] []

/-- `importMessage` -/
def importMsg (m : DMsg) : Except ImpErr ITree :=
  let sorted := sortSigs m.sigs
  let cap : Int := 8 * (m.size : Int)
  match firstLoop cap (headBE sorted) [] sorted with
  | .error e => .error e
  | .ok () =>
    if m.size > 8 then .error .msgTooBig
    else
      let muxes := sorted.filter (·.isMultiplexor)
      let res : Except ImpErr (List Item × List MuxNode) :=
        match muxes with
        | [] => (importPlain cap [] sorted).map (fun top => (top, []))
        | [mx] => (importOne cap m.exts mx sorted).map (fun top => (top, []))
        | _ => importMany cap m.exts muxes sorted
      match res with
      | .error e => .error e
      | .ok (top, nested) => .ok ⟨m.id, m.size, headBE sorted, top, nested⟩

/-! ## building a message through the API (used by `imp export`) -/

/-- one `InsertSignal` per child, in list order (a signal type of size ≤ 0 cannot be created) -/
def addChildren (gc gs : Int) : List Child → List Child → Except ImpErr (List Child)
  | cs, [] => .ok cs
  | cs, c :: r =>
    if c.size ≤ 0 then .error .sizeZero
    else match muxInsert gc gs cs c with
      | .error e => .error e
      | .ok cs' => addChildren gc gs cs' r

/-- what the harness hands to the API: a multiplexer with its children in call order -/
def buildMux (n : MuxNode) : Except ImpErr MuxNode :=
  match newMux n.groupCount n.groupSize with
  | .error e => .error e
  | .ok () =>
    match addChildren n.groupCount n.groupSize [] n.children with
    | .error e => .error e
    | .ok cs => .ok { n with selW := calcSize (n.groupCount - 1), children := cs }

def buildTop (cap : Int) : List Item → List Item → Except ImpErr (List Item)
  | top, [] => .ok top
  | top, .sig l :: r =>
    if l.size ≤ 0 then .error .sizeZero
    else match insertTop cap top (.sig l) with
      | .error e => .error e
      | .ok top' => buildTop cap top' r
  | top, .mux n :: r =>
    match buildMux n with
    | .error e => .error e
    | .ok n' =>
      match insertTop cap top (.mux n') with
      | .error e => .error e
      | .ok top' => buildTop cap top' r

/-- `NewMessage`, `SetByteOrder`, then one `InsertSignal` per item of `t.top` in list order
    (multiplexers are filled before they are inserted) -/
def build (t : ITree) : Except ImpErr ITree :=
  if t.sizeByte > 8 then .error .msgTooBig
  else match buildTop (8 * t.sizeByte) [] t.top with
  | .error e => .error e
  | .ok top => .ok { t with top := top }

/-! ## exporter -/

/-- `exporter.getStartBit` followed by `uint32(…)` (start bits of a built message are ≥ 0) -/
def fileStart (be : Bool) (pos : Int) : Nat := (if be then convStart pos else pos).toNat

/-- inner loop of `exportMultiplexerSignal` over one group: the signals not yet seen, with the
    id of the group they are seen in first -/
def walkGroup (id : Int) : List Child → List (Child × Int) → List (Child × Int)
  | [], seen => seen
  | c :: r, seen =>
    if seen.any (fun p => p.1.name == c.name) then walkGroup id r seen
    else walkGroup id r (seen ++ [(c, id)])

def walkGroups (cs : List Child) : List Nat → List (Child × Int) → List (Child × Int)
  | [], seen => seen
  | k :: r, seen => walkGroups cs r (walkGroup (k : Int) (groupOf cs (k : Int)) seen)

/-- `sigGroupIDs[name]`: the ids of the groups in which a signal of that name occurs -/
def idsOfName (cs : List Child) (gc : Int) (name : String) : List Int :=
  ((List.range gc.toNat).filter (fun (k : Nat) => (groupOf cs (k : Int)).any (fun c => c.name == name))).map
    (fun (k : Nat) => (k : Int))

def toNatRanges (rs : List (Int × Int)) : List (Nat × Nat) := rs.map (fun r => (r.1.toNat, r.2.toNat))

/-- `exportMultiplexerSignal` for a top-level multiplexer without nested multiplexers -/
def exportMux (be : Bool) (n : MuxNode) : List DSig × List DExt :=
  let seen := walkGroups n.children (List.range n.groupCount.toNat) []
  let muxSig : DSig :=
    { name := n.name, start := fileStart be n.start, size := n.selW.toNat, bigEndian := be,
      isMultiplexor := true }
  let kids : List DSig := seen.map (fun p =>
    { name := p.1.name, start := fileStart be (n.start + n.selW + p.1.rel), size := p.1.size.toNat,
      bigEndian := be, isMultiplexed := true, muxSwitch := p.2.toNat })
  let isExtended := seen.any (fun p => decide ((idsOfName n.children n.groupCount p.1.name).length ≥ 2))
  let exts : List DExt :=
    if !isExtended then []
    else seen.filterMap (fun p =>
      let ids := idsOfName n.children n.groupCount p.1.name
      if ids.length = 1 then none
      else some ⟨n.name, p.1.name, toNatRanges ((compress ids).getD [])⟩)
  (muxSig :: kids, exts)

def exportItem (be : Bool) : Item → List DSig × List DExt
  | .sig l => ([{ name := l.name, start := fileStart be l.start, size := l.size.toNat, bigEndian := be }], [])
  | .mux n => exportMux be n

def exportItems (be : Bool) : List Item → List DSig × List DExt
  | [] => ([], [])
  | x :: r =>
    let a := exportItem be x
    let b := exportItems be r
    (a.1 ++ b.1, a.2 ++ b.2)

/-- `exportMessage` (structure only) -/
def exportMsg (t : ITree) : DMsg :=
  let p := exportItems t.bigEndian t.top
  { id := t.id, size := t.sizeByte.toNat, sigs := p.1, exts := p.2 }

end Acme.Import
