/-
Hand-written Go-semantics prelude of translator stage 13 (`tools/extract/kernels_registry*.go`,
output `Acme/Gen/Registry.lean`, namespace `Acme.Gen.R`).

* `GoMap κ ν` — a Go `map[K]V` as an association list with the built-ins the generic `set[K,V]`
  of helpers.go is written with: `m[k]` (comma-ok form) = `lookup`, `m[k] = v` = `insert`
  (overwrites), `delete(m, k)` = `delete` (absent key: no-op), `len`, and the two snapshots a
  `range` takes (`keys`, `values`; the ORDER of the list is the model's stand-in for the
  unspecified iteration order — loops whose body does not commute iterate over a list PARAMETER
  instead, see the generated file).
* `Res α` — the outcome of translated code: a value, a Go panic (nil dereference), or `dangling`
  (an address that is not in the heap: no Go counterpart, the heap record is ill-formed).
* the heap `H`: the objects the bus / node-interface / node layer touches, keyed by entity id;
  a Go pointer is the id of its target (`Option Nat` where it may be nil), `x.entityID` IS the
  key of `x`, registry values that are pointers are non-nil addresses.  Only the fields the
  translated methods read or write are present; the translator checks every field against
  go/types and fails on a field it does not know.

Core Lean only.
-/
import Acme.Core.AMap

namespace Acme.RegSem

abbrev GoMap (κ ν : Type) := List (κ × ν)

namespace GoMap
variable {κ ν : Type} [DecidableEq κ]
/-- `v, ok := m[k]` -/
def lookup (m : GoMap κ ν) (k : κ) : Option ν := (m.find? (fun p => p.1 = k)).map (·.2)
/-- `delete(m, k)` -/
def delete (m : GoMap κ ν) (k : κ) : GoMap κ ν := m.filter (fun p => p.1 ≠ k)
/-- `m[k] = v` -/
def insert (m : GoMap κ ν) (k : κ) (v : ν) : GoMap κ ν := (k, v) :: delete m k
/-- `len(m)` -/
def len (m : GoMap κ ν) : Int := (m.length : Int)
def keys (m : GoMap κ ν) : List κ := m.map (·.1)
def values (m : GoMap κ ν) : List ν := m.map (·.2)
end GoMap

inductive Res (α : Type) where
  | val (a : α)
  | panic
  | dangling
  deriving Repr, DecidableEq

/-- network: only the bus-name index is touched (by `Bus.UpdateName`) -/
structure NetR where
  busNames : GoMap String Nat := []
  deriving Repr, DecidableEq, Inhabited

structure BusR where
  name : String
  parentNetwork : Option Nat := none
  nodeInts : GoMap Nat Nat := []              -- node entity id ↦ interface
  nodeNames : GoMap String Nat := []          -- node name ↦ node entity id
  nodeIDs : GoMap Nat Nat := []               -- node id ↦ node entity id
  messageStaticCANIDs : GoMap Nat Nat := []   -- static CAN-ID ↦ message entity id
  typ : Int := 0
  deriving Repr, DecidableEq, Inhabited

structure NodeR where
  name : String
  id : Nat
  interfaces : List (Option Nat) := []        -- `[]*NodeInterface`
  deriving Repr, DecidableEq, Inhabited

structure IfaceR where
  parentBus : Option Nat := none
  sentMessages : GoMap Nat Nat := []
  sentMessageNames : GoMap String Nat := []
  sentMessageIDs : GoMap Nat Nat := []
  sentMessageStaticCANIDs : GoMap Nat Nat := []
  receivedMessages : GoMap Nat Nat := []
  number : Int := 0
  node : Option Nat := none
  deriving Repr, DecidableEq, Inhabited

structure MsgR where
  name : String
  id : Nat
  hasStaticCANID : Bool := false
  staticCANID : Nat := 0
  sizeByte : Int := 0
  senderNodeInt : Option Nat := none
  receivers : GoMap Nat Nat := []             -- node entity id ↦ interface
  deriving Repr, DecidableEq, Inhabited

structure H where
  nets : AMap NetR := {}
  buses : AMap BusR := {}
  nodes : AMap NodeR := {}
  ifaces : AMap IfaceR := {}
  msgs : AMap MsgR := {}
  deriving Inhabited

end Acme.RegSem
