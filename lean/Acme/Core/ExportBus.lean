/-
Bus level of the DBC exporter (property C11), the counterpart of Acme.Core.ImportBus:

  exporter.go : exportBus (general comment, node interfaces, value tables), exportNodeInterfaces
                (BU_, node comments, the messages of every node), exportMessage (comment, id,
                name, size, transmitter), exportSignal (comment, receivers), exportStandardSignal
                / exportEnumSignal (the non-positional numbers, VAL_), exportSignalEnum (VAL_TABLE_)
  bus.go / node_iterface.go / message.go : the orders of the getters NodeInterfaces (node id),
                SentMessages (message id), Receivers (node name), Signals (layout)

THE BUS.  `MBus` is `ImportBus.IBus`: the bus with its object stores (`types`, `units`, `enums`;
a signal refers to its type / unit / enum by index, which is the identity of the object), exactly
what `importBus` produces — so the two models compose.  What this level sees of a bus built
through the public API: nodes (name, id, description) in any order, messages with their CAN-ID
(the static CAN-ID: the messages of stream `impbus` all have one), name, size, sender node name,
receiver node names, description, and their top-level standard / enum signals in layout order
(little endian, no multiplexer: positions and multiplexing are Acme.Import / C11Msg; attributes
are Acme.Attr / C11Attr).

NAMES.  Every name goes through `clearSpaces` in the real exporter.  The model assumes names that
`clearSpaces` leaves alone (no blank inside, none at the ends), as the other models do; the
generator of stream `impbus` writes only such names.

NUMBERS: exact rationals, as in Acme.ImportBus.
-/
import Acme.Core.ImportBus

namespace Acme.ExportBus
open Acme.ImportBus Acme.Arith
open Acme.Import (sortBy)

abbrev MBus := IBus

/-! ## sorting by a name -/

def insStr {α : Type} (key : α → String) (x : α) : List α → List α
  | [] => [x]
  | y :: r => if key x ≤ key y then x :: y :: r else y :: insStr key x r

/-- stable insertion sort by a string key (`strings.Compare`: bytewise, which is the order of
    `String` on the ASCII names of the model) -/
def sortStr {α : Type} (key : α → String) : List α → List α
  | [] => []
  | x :: r => insStr key x (sortStr key r)

/-! ## the walk of the exporter -/

/-- `Bus.NodeInterfaces()`: sorted by node id -/
def sortedNodes (b : MBus) : List INode := sortBy (·.id) b.nodes

/-- `NodeInterface.SentMessages()`: the messages of the node, sorted by message id -/
def msgsOf (b : MBus) (n : INode) : List IMessage :=
  sortBy (·.id) (b.msgs.filter (fun m => m.sender = n.name))

/-- the messages in the order `exportNodeInterfaces` visits them -/
def exportOrder (b : MBus) : List IMessage := (sortedNodes b).flatMap (msgsOf b)

/-! ## signals -/

/-- the receivers every signal of the message gets: `Receivers()` (sorted by node name), or the
    placeholder when there is none -/
def recvOf (m : IMessage) : List String :=
  if m.receivers = [] then [placeholder] else sortStr id m.receivers

def unitSym (b : MBus) : Option Nat → String
  | none => ""
  | some i => b.units.getD i ""

/-- `exportStandardSignal` / `exportEnumSignal` without the position conversion -/
def exportSig (b : MBus) (rx : List String) (s : ISignal) : DSignal :=
  match s.kind with
  | .standard t u =>
    let ty := b.types.getD t default
    { name := s.name, start := s.start, size := ty.size, signed := ty.signed, factor := ty.scale,
      offset := ty.offset, min := ty.min, max := ty.max, unit := unitSym b u, receivers := rx }
  | .enum e =>
    let en := b.enums.getD e default
    { name := s.name, start := s.start, size := en.size.toNat, signed := false, factor := 1, offset := 0,
      min := 0, max := ((maxIndex en.values : Nat) : Rat), unit := "", receivers := rx }

/-- `exportMessage` -/
def exportMsg (b : MBus) (m : IMessage) : DMessage :=
  { id := m.id, name := m.name, size := m.size, transmitter := m.sender,
    sigs := m.sigs.map (exportSig b (recvOf m)) }

/-! ## comments -/

/-- a comment is written only for a non-empty description -/
def cmIf (d : String) (c : DComment) : List DComment := if d = "" then [] else [c]

def sigComments (id : Nat) (s : ISignal) : List DComment := cmIf s.desc (.sig id s.name s.desc)

def msgComments (m : IMessage) : List DComment :=
  cmIf m.desc (.msg m.id m.desc) ++ m.sigs.flatMap (sigComments m.id)

def nodeComments (b : MBus) (n : INode) : List DComment :=
  cmIf n.desc (.node n.name n.desc) ++ (msgsOf b n).flatMap msgComments

def comments (b : MBus) : List DComment :=
  cmIf b.desc (.general b.desc) ++ (sortedNodes b).flatMap (nodeComments b)

/-! ## value encodings and value tables -/

def enumIdx (s : ISignal) : Option Nat :=
  match s.kind with
  | .enum e => some e
  | .standard _ _ => none

/-- the `VAL_` of the enum signals of a message, in layout order -/
def encsOfMsg (b : MBus) (m : IMessage) : List DEnc :=
  m.sigs.filterMap (fun s => (enumIdx s).map (fun e =>
    { msgId := m.id, sigName := s.name, values := (b.enums.getD e default).values }))

/-- every number once (first occurrence kept) -/
def dedupNat : List Nat → List Nat
  | [] => []
  | x :: r => x :: (dedupNat r).filter (fun y => y ≠ x)

/-- the enum objects the walk met (`sigEnums`, a map keyed by the entity id) -/
def usedEnums (b : MBus) : List Nat :=
  dedupNat ((exportOrder b).flatMap (fun m => m.sigs.filterMap enumIdx))

def tableOf (b : MBus) (e : Nat) : DTable :=
  { name := (b.enums.getD e default).name, values := (b.enums.getD e default).values }

/-- `VAL_TABLE_`: one per enum object, sorted by name.  Objects of one name are ordered by their
    entity id in the code (a random text); here by first use — stream `impbus` compares the tables
    of one name as a set -/
def tables (b : MBus) : List DTable := sortStr (·.name) ((usedEnums b).map (tableOf b))

/-! ## the file -/

/-- `exporter.exportBus` -/
def exportBus (b : MBus) : DFile :=
  { nodes := (sortedNodes b).map (·.name),
    tables := tables b,
    encs := (exportOrder b).flatMap (encsOfMsg b),
    comments := comments b,
    msgs := (exportOrder b).map (exportMsg b) }

end Acme.ExportBus
