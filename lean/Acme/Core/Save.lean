/-
Structural model of `saver.go` / `loader.go` (property C12, the STRUCTURE-building code).

What is modelled is the part of save / load that is LOGIC rather than field copying:

* reference tables — the saver stores the shared definitions (CAN-ID builders, nodes, signal
  types, units, enums, attributes) once, in network-level lists sorted by a comparator, and refers
  to them by entity id; the loader rebuilds the id → entity maps (a later entry with the same id
  replaces an earlier one) and resolves the references, refusing dangling ids and the duplicated
  ids it checks (buses, messages of the network, signals listed by two different parents, an
  interface attached twice);
* signal trees — relative positions (`SignalPayload` refs), the three signal kinds, and the
  multiplexer: children, the list of fixed children, one position list per group, THE GROUP ID
  BEING THE LIST INDEX; the loader re-inserts group by group, checks that a child has one position
  in all its groups and that every child is placed;
* enum attributes — the loader puts the default value first, then the other values in order;
* node interfaces (node id + number), receivers (node id + number), sender containment,
  static CAN-ID flag + value, the operations of a CAN-ID builder in order.

Every scalar that is copied verbatim lives in ONE opaque payload string per entity (`Ent.pl`):
  network: description · bus: description, baudrate, bus type · builder / node: description ·
  signal type: description, kind, size, signed, min, max, scale, offset · unit: description, kind,
  symbol · signal enum: description, min size, the enum values (name, index, description) ·
  attribute: description and, except for enum attributes, default / min / max / hex flag ·
  message: description, size, priority, byte order, cycle time, send type, delay times ·
  signal: description, send type, start value and (multiplexer) the group size.
The text of an attribute assignment value is opaque too (`Asg.val`).  Creation times are not part
of the model (the public API cannot set them).

uint32 / int32 narrowing of the fields the model looks into is modelled by `u32` / `i32`
(the round trip needs `InRange`, Spec): builder op `from` / `len`, node id, interface count,
interface number (int32), message id, static CAN-ID, receiver interface number, relative start
positions, group count.  The scalars inside the payloads narrow too (D57/D58); the model cannot
see them.

NOT modelled (the loader delegates these to the public mutators it calls; the correspondence
stream counts such refusals as `api`): uniqueness of NAMES (bus / node / message / signal) and of
node ids, message ids and static CAN-IDs, the geometry of a layout (size, overlap), the validity
of scalars (type / integer attribute / float attribute constructors, enum values, group size),
value ranges of integer and float attribute assignments.
-/
namespace Acme.Save

abbrev Id := String

/-! ## ordering helpers (insertion sort: evaluates in the kernel, stable) -/

def insertBy {α : Type} (le : α → α → Bool) (x : α) : List α → List α
  | [] => [x]
  | y :: ys => if le x y then x :: y :: ys else y :: insertBy le x ys

def sortBy {α : Type} (le : α → α → Bool) : List α → List α
  | [] => []
  | x :: xs => insertBy le x (sortBy le xs)

/-- `orCompare(strings.Compare(a.1, b.1), compareEntityIDs(a.2, b.2)) ≤ 0` -/
def strLe2 (a b : String × String) : Bool :=
  decide (a.1 < b.1) || (a.1 == b.1 && decide (a.2 ≤ b.2))

/-- `orCompare(cmp.Compare(a.1, b.1), compareEntityIDs(a.2, b.2)) ≤ 0` -/
def natStrLe (a b : Nat × String) : Bool :=
  decide (a.1 < b.1) || (a.1 == b.1 && decide (a.2 ≤ b.2))

def u32 (n : Nat) : Nat := n % 4294967296

def i32 (n : Nat) : Int :=
  if n % 4294967296 < 2147483648 then ((n % 4294967296 : Nat) : Int)
  else ((n % 4294967296 : Nat) : Int) - 4294967296

/-- a later entry replaces an earlier one with the same key (Go map assignment in a loop) -/
def dedupLast {α : Type} (key : α → Id) : List α → List α
  | [] => []
  | x :: xs => if xs.any (fun y => key y == key x) then dedupLast key xs else x :: dedupLast key xs

/-- `m[k] = v` on an association list: replaces in place or appends -/
def upsert {α : Type} (key : α → Id) (x : α) : List α → List α
  | [] => [x]
  | y :: ys => if key y == key x then x :: ys else y :: upsert key x ys

/-! ## the network (in memory) -/

/-- entity header: id, name (a sort key of the saver) and the opaque payload -/
structure Ent where
  id : Id
  name : String
  pl : String
  deriving DecidableEq, Repr, Inhabited

/-- attribute assignment: the attribute and the (opaque) text of the value -/
structure Asg where
  attr : Id
  val : String
  deriving DecidableEq, Repr, Inhabited

inductive AttrKind where
  | str | int | flt
  | enm (values : List String) (dflt : String)
  deriving DecidableEq, Repr, Inhabited

structure Attr where
  e : Ent
  kind : AttrKind
  deriving DecidableEq, Repr, Inhabited

/-- kind: 0 message priority, 1 message id, 2 node id, 3 bit mask (`CANIDBuilderOpKind`) -/
structure Op where
  kind : Nat
  «from» : Nat
  len : Nat
  deriving DecidableEq, Repr, Inhabited

structure Builder where
  e : Ent
  ops : List Op
  deriving DecidableEq, Repr, Inhabited

structure Node where
  e : Ent
  nid : Nat
  ifc : Nat
  asg : List Asg
  deriving DecidableEq, Repr, Inhabited

mutual
  inductive Sig where
    | mk (e : Ent) (asg : List Asg) (body : Body)
  inductive Body where
    | std (type : Id) (unit : Option Id)
    | enm (enum : Id)
    | mux (gc : Nat) (kids : List Kid)
  /-- a child of a multiplexer: ONE relative position (Go: one `relStartPos` per signal object) and
      either fixed (`grp = none`: present in every group) or listed in the groups `grp` -/
  inductive Kid where
    | mk (sig : Sig) (pos : Nat) (grp : Option (List Nat))
end

instance : Inhabited Sig := ⟨.mk default [] (.enm "")⟩
instance : Inhabited Kid := ⟨.mk default 0 none⟩

def Sig.e : Sig → Ent | .mk e _ _ => e
def Sig.asg : Sig → List Asg | .mk _ a _ => a
def Sig.body : Sig → Body | .mk _ _ b => b
def Sig.id (s : Sig) : Id := s.e.id
def Kid.sig : Kid → Sig | .mk s _ _ => s
def Kid.pos : Kid → Nat | .mk _ p _ => p
def Kid.grp : Kid → Option (List Nat) | .mk _ _ g => g

structure Recv where
  node : Id
  num : Nat
  deriving DecidableEq, Repr, Inhabited

structure Msg where
  e : Ent
  asg : List Asg
  /-- the message id; `SetStaticCANID` overwrites it with the static CAN-ID -/
  mid : Nat
  static : Option Nat
  /-- top-level signals with their relative start position -/
  sigs : List (Sig × Nat)
  recvs : List Recv

structure Iface where
  node : Id
  num : Nat
  msgs : List Msg

structure Bus where
  e : Ent
  /-- `none` = the default CAN-ID builder (`isDefCANIDBuilder`) -/
  builder : Option Id
  ifaces : List Iface
  asg : List Asg

/-- the shared definitions -/
structure Tbl where
  builders : List Builder := []
  nodes : List Node := []
  types : List Ent := []
  units : List Ent := []
  enums : List Ent := []
  attrs : List Attr := []

structure Net where
  e : Ent
  buses : List Bus
  t : Tbl

/-! ## the saved tree (`acmelibv1.Network`) -/

/-- value oneof: tag 0 string, 1 int32, 2 double, 3 not set -/
structure PAsg where
  owner : Id
  attr : Id
  tag : Nat
  val : String
  deriving DecidableEq, Repr, Inhabited

inductive PAttrBody where
  | none | str | int | flt
  | enm (values : List String) (dflt : String)
  deriving DecidableEq, Repr, Inhabited

/-- `tag`: the `AttributeType` constant (0 unspecified, 1 string, 2 integer, 3 float, 4 enum) -/
structure PAttr where
  e : Ent
  tag : Nat
  body : PAttrBody
  deriving DecidableEq, Repr, Inhabited

/-- `kind`: the `CANIDBuilderOpKind` constant (0 unspecified, 1 … 4) -/
structure POp where
  kind : Nat
  «from» : Nat
  len : Nat
  deriving DecidableEq, Repr, Inhabited

structure PBuilder where
  e : Ent
  ops : List POp
  deriving DecidableEq, Repr, Inhabited

structure PNode where
  e : Ent
  nid : Nat
  ifc : Nat
  asg : List PAsg
  deriving DecidableEq, Repr, Inhabited

mutual
  /-- `kind`: the `SignalKind` constant (0 unspecified, 1 standard, 2 enum, 3 multiplexer) -/
  inductive PSig where
    | mk (e : Ent) (asg : List PAsg) (kind : Nat) (body : PBody)
  inductive PBody where
    | none
    | std (type : Id) (unit : Id)
    | enm (enum : Id)
    | mux (gc : Nat) (sigs : List PSig) (fixed : List Id) (groups : List (List (Id × Nat)))
end

instance : Inhabited PSig := ⟨.mk default [] 0 .none⟩

def PSig.e : PSig → Ent | .mk e _ _ _ => e
def PSig.asg : PSig → List PAsg | .mk _ a _ _ => a
def PSig.kind : PSig → Nat | .mk _ _ k _ => k
def PSig.body : PSig → PBody | .mk _ _ _ b => b
def PSig.id (s : PSig) : Id := s.e.id

structure PMsg where
  e : Ent
  asg : List PAsg
  mid : Nat
  staticVal : Nat
  hasStatic : Bool
  sigs : List PSig
  refs : List (Id × Nat)
  recvs : List (Id × Nat)

structure PIface where
  node : Id
  num : Int
  msgs : List PMsg

structure PBus where
  e : Ent
  /-- `""` = no builder id: the bus keeps its default builder -/
  builder : Id
  ifaces : List PIface
  asg : List PAsg

structure PNet where
  e : Ent
  buses : List PBus
  builders : List PBuilder
  nodes : List PNode
  types : List Ent
  units : List Ent
  enums : List Ent
  attrs : List PAttr

/-! ## look-ups -/

def findEnt (xs : List Ent) (id : Id) : Option Ent := xs.find? (fun e => e.id == id)
def Tbl.attr (t : Tbl) (id : Id) : Option Attr := t.attrs.find? (fun a => a.e.id == id)
def Tbl.node (t : Tbl) (id : Id) : Option Node := t.nodes.find? (fun a => a.e.id == id)
def Tbl.builder (t : Tbl) (id : Id) : Option Builder := t.builders.find? (fun a => a.e.id == id)

def Tbl.attrName (t : Tbl) (id : Id) : String :=
  match t.attr id with | some a => a.e.name | none => ""
def Tbl.nodeName (t : Tbl) (id : Id) : String :=
  match t.node id with | some a => a.e.name | none => ""
def Tbl.nodeNid (t : Tbl) (id : Id) : Nat :=
  match t.node id with | some a => a.nid | none => 0

/-! ## sort keys (the comparators of the getters the saver iterates) -/

/-- `Network.Buses`, and the comparator of the definition tables: name, then entity id -/
def entLe (a b : Ent) : Bool := strLe2 (a.name, a.id) (b.name, b.id)
def busLe (a b : Bus) : Bool := entLe a.e b.e
def builderLe (a b : Builder) : Bool := entLe a.e b.e
def attrLe (a b : Attr) : Bool := entLe a.e b.e
/-- nodes: node id, then entity id -/
def nodeLe (a b : Node) : Bool := natStrLe (a.nid, a.e.id) (b.nid, b.e.id)
/-- `Bus.NodeInterfaces`: node id (the entity id only breaks ties the API excludes) -/
def ifaceLe (t : Tbl) (a b : Iface) : Bool := natStrLe (t.nodeNid a.node, a.node) (t.nodeNid b.node, b.node)
/-- `NodeInterface.SentMessages`: message id, then entity id -/
def msgLe (a b : Msg) : Bool := natStrLe (a.mid, a.e.id) (b.mid, b.e.id)
/-- `Message.Receivers`: node name, then node entity id -/
def recvLe (t : Tbl) (a b : Recv) : Bool := strLe2 (t.nodeName a.node, a.node) (t.nodeName b.node, b.node)
/-- `AttributeAssignments`: attribute name, then attribute entity id -/
def asgLe (t : Tbl) (a b : Asg) : Bool := strLe2 (t.attrName a.attr, a.attr) (t.attrName b.attr, b.attr)
/-- a layout lists its signals by start position (the entity id only breaks ties the API excludes) -/
def topLe (a b : Sig × Nat) : Bool := natStrLe (a.2, a.1.id) (b.2, b.1.id)

/-! ## save -/

def tagOfKind : AttrKind → Nat
  | .str => 0 | .int => 1 | .flt => 2 | .enm _ _ => 0

def Tbl.asgTag (t : Tbl) (id : Id) : Nat :=
  match t.attr id with | some a => tagOfKind a.kind | none => 3

def saveAsgs (t : Tbl) (owner : Id) (asg : List Asg) : List PAsg :=
  (sortBy (asgLe t) asg).map fun a => { owner := owner, attr := a.attr, tag := t.asgTag a.attr, val := a.val }

def Body.kindTag : Body → Nat
  | .std _ _ => 1 | .enm _ => 2 | .mux _ _ => 3

/-- the header of a multiplexer child -/
structure KH where
  id : Id
  pos : Nat
  grp : Option (List Nat)
  deriving DecidableEq, Repr, Inhabited

def Kid.h (k : Kid) : KH := ⟨k.sig.id, k.pos, k.grp⟩

def KH.fixed (h : KH) : Bool := h.grp.isNone

def KH.inGrp (h : KH) (k : Nat) : Bool :=
  match h.grp with | none => true | some gs => gs.contains k

def khLe (a b : KH) : Bool := natStrLe (a.pos, a.id) (b.pos, b.id)

/-- `muxSig.groups[k].signals`: the children of group `k` by start position -/
def groupOf {α : Type} (ps : List (KH × α)) (k : Nat) : List (KH × α) :=
  sortBy (fun a b => khLe a.1 b.1) (ps.filter (fun p => p.1.inGrp k))

/-- `pMuxSig.Signals`: group by group; a fixed child once (it is met in group 0), a listed child
    once per group it is in -/
def muxSignals {α : Type} (gc : Nat) (ps : List (KH × α)) : List α :=
  (List.range gc).flatMap fun k =>
    ((groupOf ps k).filter (fun p => k == 0 || !p.1.fixed)).map (·.2)

def muxFixed {α : Type} (ps : List (KH × α)) : List Id :=
  ((groupOf ps 0).filter (fun p => p.1.fixed)).map (·.1.id)

/-- `pMuxSig.Groups`: index = group id, empty groups included -/
def muxGroups {α : Type} (gc : Nat) (ps : List (KH × α)) : List (List (Id × Nat)) :=
  (List.range gc).map fun k => (groupOf ps k).map (fun p => (p.1.id, u32 p.1.pos))

mutual
  def saveSig (t : Tbl) : Sig → PSig
    | .mk e asg body => .mk e (saveAsgs t e.id asg) body.kindTag (saveBody t body)
  def saveBody (t : Tbl) : Body → PBody
    | .std ty un => .std ty (un.getD "")
    | .enm en => .enm en
    | .mux gc kids =>
      .mux (u32 gc) (muxSignals gc (saveKids t kids)) (muxFixed (saveKids t kids))
        (muxGroups gc (saveKids t kids))
  def saveKids (t : Tbl) : List Kid → List (KH × PSig)
    | [] => []
    | .mk s pos grp :: r => (⟨s.id, pos, grp⟩, saveSig t s) :: saveKids t r
end

def saveMsg (t : Tbl) (m : Msg) : PMsg :=
  { e := m.e
    asg := saveAsgs t m.e.id m.asg
    mid := u32 m.mid
    staticVal := u32 (m.static.getD 0)
    hasStatic := m.static.isSome
    sigs := (sortBy topLe m.sigs).map (fun p => saveSig t p.1)
    refs := (sortBy topLe m.sigs).map (fun p => (p.1.id, u32 p.2))
    recvs := (sortBy (recvLe t) m.recvs).map (fun r => (r.node, u32 r.num)) }

def saveIface (t : Tbl) (i : Iface) : PIface :=
  { node := i.node, num := i32 i.num, msgs := (sortBy msgLe i.msgs).map (saveMsg t) }

def saveBus (t : Tbl) (b : Bus) : PBus :=
  { e := b.e
    builder := b.builder.getD ""
    ifaces := (sortBy (ifaceLe t) b.ifaces).map (saveIface t)
    asg := saveAsgs t b.e.id b.asg }

def saveOp (o : Op) : POp :=
  { kind := if o.kind ≤ 3 then o.kind + 1 else 0, «from» := u32 o.from, len := u32 o.len }

def saveBuilder (b : Builder) : PBuilder := { e := b.e, ops := b.ops.map saveOp }

def saveNode (t : Tbl) (n : Node) : PNode :=
  { e := n.e, nid := u32 n.nid, ifc := u32 n.ifc, asg := saveAsgs t n.e.id n.asg }

def saveAttr (a : Attr) : PAttr :=
  match a.kind with
  | .str => { e := a.e, tag := 1, body := .str }
  | .int => { e := a.e, tag := 2, body := .int }
  | .flt => { e := a.e, tag := 3, body := .flt }
  | .enm vs d => { e := a.e, tag := 4, body := .enm vs d }

/-! ### which definitions the saver meets (`s.ref…[id] = …` while it walks the buses) -/

inductive RefK where
  | builder | node | type | unit | enum | attr
  deriving DecidableEq, Repr

abbrev Ref := RefK × Id

def asgRefs (asg : List Asg) : List Ref := asg.map (fun a => (RefK.attr, a.attr))

mutual
  def sigRefs : Sig → List Ref
    | .mk _ asg body => asgRefs asg ++ bodyRefs body
  def bodyRefs : Body → List Ref
    | .std ty un => (RefK.type, ty) :: (match un with | some u => [(RefK.unit, u)] | none => [])
    | .enm en => [(RefK.enum, en)]
    | .mux _ kids => kidsRefs kids
  def kidsRefs : List Kid → List Ref
    | [] => []
    | .mk s _ _ :: r => sigRefs s ++ kidsRefs r
end

def msgRefs (m : Msg) : List Ref :=
  asgRefs m.asg ++ m.sigs.flatMap (fun p => sigRefs p.1) ++ m.recvs.map (fun r => (RefK.node, r.node))

def ifaceRefs (i : Iface) : List Ref := (RefK.node, i.node) :: i.msgs.flatMap msgRefs

def busRefs (b : Bus) : List Ref :=
  (match b.builder with | some id => [(RefK.builder, id)] | none => []) ++
  asgRefs b.asg ++ b.ifaces.flatMap ifaceRefs

/-- references met while the buses are walked -/
def walkRefs (n : Net) : List Ref := n.buses.flatMap busRefs

/-- the nodes that are saved -/
def usedNodes (n : Net) : List Node := n.t.nodes.filter (fun x => (walkRefs n).contains (RefK.node, x.e.id))

/-- every reference the saver meets: the walk plus the assignments of the saved nodes -/
def usedRefs (n : Net) : List Ref := walkRefs n ++ (usedNodes n).flatMap (fun x => asgRefs x.asg)

def save (n : Net) : PNet :=
  let used := usedRefs n
  { e := n.e
    buses := (sortBy busLe n.buses).map (saveBus n.t)
    builders := (sortBy builderLe (n.t.builders.filter (fun x => used.contains (RefK.builder, x.e.id)))).map saveBuilder
    nodes := (sortBy nodeLe (usedNodes n)).map (saveNode n.t)
    types := sortBy entLe (n.t.types.filter (fun x => used.contains (RefK.type, x.id)))
    units := sortBy entLe (n.t.units.filter (fun x => used.contains (RefK.unit, x.id)))
    enums := sortBy entLe (n.t.enums.filter (fun x => used.contains (RefK.enum, x.id)))
    attrs := (sortBy attrLe (n.t.attrs.filter (fun x => used.contains (RefK.attr, x.e.id)))).map saveAttr }

/-! ## load -/

/-- what a missing id was looked up for -/
inductive What where
  | builder | node | type | unit | enum | attr
  | /-- a top-level signal without an entry in the message payload -/ position
  | /-- an entry of a group layout that names no child of the multiplexer -/ child
  deriving DecidableEq, Repr

inductive LoadErr where
  /-- `EntityIDError{ErrNotFound}` -/
  | notFound (w : What) (id : Id)
  /-- `EntityIDError{ErrNotFound}` naming one of `ids`: the children of a multiplexer that are in no
      group layout (which one is named depends on Go's map iteration order) -/
  | unplaced (ids : List Id)
  /-- `EntityIDError{ErrIsDuplicated}`: bus id, message id (anywhere in the network), signal id listed
      by two different parents, interface (node id) attached twice -/
  | duplicated (id : Id)
  /-- `StartBitError{ErrOutOfBounds}`: a multiplexer child with two positions -/
  | twoPositions (pos : Nat)
  /-- `ErrInvalidOneof`: kind / type field and oneof disagree (argument: the constant of the oneof; 1 … 3 signal kinds, 11 … 14 attribute types) -/
  | invalidOneof (k : Nat)
  /-- `ErrMissingOneofField` -/
  | missingOneof
  /-- `ArgumentError{interfaceNumber}` -/
  | ifaceNegative
  | ifaceOutOfBounds
  /-- `ArgumentError{groupCount, ErrIsZero}` -/
  | groupCountZero
  /-- `GroupIDError{ErrOutOfBounds}`: a populated group list beyond the group count -/
  | groupId (k : Nat)
  /-- `ArgumentError{values, ErrIsNil}`: enum attribute without values -/
  | enumValuesEmpty
  /-- `AttributeValueError`: the value does not fit the kind of the attribute / is no value of the enum -/
  | attrValue
  /-- `ErrReceiverIsSender` -/
  | receiverIsSender
  deriving DecidableEq, Repr

abbrev LE := Except LoadErr

/-! ### attributes -/

/-- `newEnumAttributeFromBase`: duplicates are dropped, first occurrence kept -/
def dedupFirst : List String → List String
  | [] => []
  | x :: xs => x :: (dedupFirst xs).filter (fun y => y != x)

/-- `loadEnumAttribute`: default first (if it is a value), then the others in order -/
def enumOrder (values : List String) (dflt : String) : List String :=
  (if values.contains dflt then [dflt] else []) ++ values.filter (fun v => v != dflt)

def loadAttr (p : PAttr) : LE Attr :=
  let typ : Nat := if p.tag == 2 then 2 else if p.tag == 3 then 3 else if p.tag == 4 then 4 else 1
  match p.body with
  | .none => .error .missingOneof
  | .str => if typ == 1 then .ok ⟨p.e, .str⟩ else .error (.invalidOneof 11)
  | .int => if typ == 2 then .ok ⟨p.e, .int⟩ else .error (.invalidOneof 12)
  | .flt => if typ == 3 then .ok ⟨p.e, .flt⟩ else .error (.invalidOneof 13)
  | .enm vs d =>
    if typ == 4 then
      match dedupFirst (enumOrder vs d) with
      | [] => .error .enumValuesEmpty
      | v :: r => .ok ⟨p.e, .enm (v :: r) v⟩
    else .error (.invalidOneof 14)

def loadAttrs : List PAttr → LE (List Attr)
  | [] => .ok []
  | p :: r =>
    match loadAttr p with
    | .error e => .error e
    | .ok a =>
      match loadAttrs r with
      | .error e => .error e
      | .ok as => .ok (a :: as)

/-- `addAttributeAssignment`: the dynamic type of the value against the kind of the attribute -/
def asgFits (k : AttrKind) (tag : Nat) (val : String) : Bool :=
  match k with
  | .str => tag == 0
  | .int => tag == 1
  | .flt => tag == 2
  | .enm vs _ => tag == 0 && vs.contains val

/-- `loadAttributeAssignment` for every entry, in order; the assignments of an entity are a map
    keyed by the attribute id -/
def loadAsgs (t : Tbl) : List PAsg → LE (List Asg)
  | [] => .ok []
  | p :: r =>
    match t.attr p.attr with
    | none => .error (.notFound .attr p.attr)
    | some a =>
      if p.tag ≥ 3 then loadAsgs t r
      else if asgFits a.kind p.tag p.val then
        match loadAsgs t r with
        | .error e => .error e
        | .ok as => .ok (if as.any (fun x => x.attr == p.attr) then as else ⟨p.attr, p.val⟩ :: as)
      else .error .attrValue

/-! ### multiplexer -/

/-- `loadSignalPayload`: a Go map, the last entry of an id wins -/
def lookupLast : List (Id × Nat) → Id → Option Nat
  | [], _ => none
  | (i, p) :: r, id =>
    match lookupLast r id with
    | some q => some q
    | none => if i == id then some p else none

/-- the entries of the group layouts as (group id, child id, position), group by group -/
def triplesFrom (k : Nat) : List (List (Id × Nat)) → List (Nat × Id × Nat)
  | [] => []
  | g :: gs => (dedupLast (·.1) g).map (fun p => (k, p.1, p.2)) ++ triplesFrom (k + 1) gs

def firstPos (ts : List (Nat × Id × Nat)) (id : Id) : Option Nat :=
  match ts.find? (fun t => t.2.1 == id) with
  | some t => some t.2.2
  | none => none

def groupsOf (ts : List (Nat × Id × Nat)) (id : Id) : List Nat :=
  (ts.filter (fun t => t.2.1 == id)).map (·.1)

/-- the loop over the group layouts of `loadMultiplexerSignal`: the first entry that is refused -/
def checkTriples (gc : Nat) (kidIds fixed : List Id) (all : List (Nat × Id × Nat)) :
    List (Nat × Id × Nat) → LE Unit
  | [] => .ok ()
  | (k, id, pos) :: r =>
    if !kidIds.contains id then .error (.notFound .child id)
    else if firstPos all id != some pos then .error (.twoPositions pos)
    else if !fixed.contains id && k ≥ gc then .error (.groupId k)
    else checkTriples gc kidIds fixed all r

/-- the final loop over the map `muxedSignals`: Go meets the children in map order, so it names
    ANY child that is in no group layout; the model names all of them -/
def checkPlaced (ts : List (Nat × Id × Nat)) (ids : List Id) : LE Unit :=
  match ids.filter (fun id => (firstPos ts id).isNone) with
  | [] => .ok ()
  | id :: r => .error (.unplaced (id :: r))

/-- `loadMultiplexerSignal` after the children are loaded (`kids`: the map `muxedSignals`) -/
def assembleMux (gc : Nat) (kids : List Sig) (fixed : List Id) (groups : List (List (Id × Nat))) :
    LE (List Kid) :=
  let ts := triplesFrom 0 groups
  let ids := kids.map Sig.id
  match checkTriples gc ids fixed ts ts with
  | .error e => .error e
  | .ok _ =>
    match checkPlaced ts ids with
    | .error e => .error e
    | .ok _ =>
      .ok (kids.map fun s =>
        Kid.mk s ((firstPos ts s.id).getD 0) (if fixed.contains s.id then none else some (groupsOf ts s.id)))

/-- `switch pSig.Kind`: an unknown constant leaves the zero value (standard) -/
def sigKindOf (tag : Nat) : Nat := if tag == 2 then 2 else if tag == 3 then 3 else 1

/-- `loaderSignalOwner`: the message or the multiplexer signal that lists a signal -/
inductive Owner where
  | msg (id : Id)
  | sig (id : Id)
  deriving DecidableEq, Repr, Inhabited

/-- `loader.sigEntIDs`: the signal ids loaded so far, each with its owner (the newest entry of an
    id comes first and is the one that counts) -/
abbrev Seen := List (Id × Owner)

def Seen.owner (sn : Seen) (id : Id) : Option Owner :=
  match sn.find? (fun p => p.1 == id) with
  | some p => some p.2
  | none => none

/-- the check at the head of `loadSignal`: an id that was loaded under a DIFFERENT owner is
    refused; the same owner may list it again (a multi-group child is written once per group);
    the entry is (re)written -/
def seeSig (sn : Seen) (id : Id) (o : Owner) : LE Seen :=
  match sn.owner id with
  | some o' => if o' = o then .ok ((id, o) :: sn) else .error (.duplicated id)
  | none => .ok ((id, o) :: sn)

mutual
  /-- `loadSignal`: the entity, the owner check, the oneof (with the children of a multiplexer),
      then the attribute assignments -/
  def loadSig (t : Tbl) (o : Owner) (sn : Seen) : PSig → LE (Sig × Seen)
    | .mk e asg kind body =>
      match seeSig sn e.id o with
      | .error err => .error err
      | .ok sn1 =>
        match loadBody t (sigKindOf kind) e.id sn1 body with
        | .error err => .error err
        | .ok (b, sn2) =>
          match loadAsgs t asg with
          | .error err => .error err
          | .ok a => .ok (.mk e a b, sn2)
  /-- `self`: the entity id of the signal the body belongs to (the owner of its children) -/
  def loadBody (t : Tbl) (kind : Nat) (self : Id) (sn : Seen) : PBody → LE (Body × Seen)
    | .none => .error .missingOneof
    | .std ty un =>
      if kind != 1 then .error (.invalidOneof 1)
      else if (findEnt t.types ty).isNone then .error (.notFound .type ty)
      else if un != "" && (findEnt t.units un).isNone then .error (.notFound .unit un)
      else .ok (.std ty (if un == "" then none else some un), sn)
    | .enm en =>
      if kind != 2 then .error (.invalidOneof 2)
      else if (findEnt t.enums en).isNone then .error (.notFound .enum en)
      else .ok (.enm en, sn)
    | .mux gc sigs fixed groups =>
      if kind != 3 then .error (.invalidOneof 3)
      else if gc == 0 then .error .groupCountZero
      else
        match loadSigs t (.sig self) sn sigs with
        | .error err => .error err
        | .ok (ks, sn1) =>
          match assembleMux gc (dedupLast Sig.id ks) fixed groups with
          | .error err => .error err
          | .ok kids => .ok (.mux gc kids, sn1)
  def loadSigs (t : Tbl) (o : Owner) (sn : Seen) : List PSig → LE (List Sig × Seen)
    | [] => .ok ([], sn)
    | p :: r =>
      match loadSig t o sn p with
      | .error err => .error err
      | .ok (s, sn1) =>
        match loadSigs t o sn1 r with
        | .error err => .error err
        | .ok (ss, sn2) => .ok (s :: ss, sn2)
end

/-! ### messages, interfaces, buses -/

/-- what the interfaces of the nodes remember while the network is loaded -/
structure St where
  /-- interfaces attached to a bus (`hasParentBus`) -/
  attached : List (Id × Nat) := []
  /-- `sentMessages` of the interfaces: (interface, message id) -/
  sent : List ((Id × Nat) × Id) := []
  /-- `receivedMessages` of the interfaces: (interface, message id) -/
  received : List ((Id × Nat) × Id) := []
  /-- `loader.msgEntIDs`: the entity ids of the messages loaded so far -/
  msgs : List Id := []
  /-- `loader.sigEntIDs` -/
  sigs : Seen := []

/-- the loop over `pMsg.Signals`: load the signal, then look its position up -/
def loadTop (t : Tbl) (refs : List (Id × Nat)) (o : Owner) (sn : Seen) : List PSig → LE (List (Sig × Nat) × Seen)
  | [] => .ok ([], sn)
  | p :: r =>
    match loadSig t o sn p with
    | .error err => .error err
    | .ok (s, sn1) =>
      match lookupLast refs p.id with
      | none => .error (.notFound .position p.id)
      | some pos =>
        match loadTop t refs o sn1 r with
        | .error err => .error err
        | .ok (ss, sn2) => .ok ((s, pos) :: ss, sn2)

/-- the loop over `pMsg.Receivers`: `msg.AddReceiver` silently does nothing when the interface
    already sends a message with this id; `msg.receivers` is a map keyed by the node id -/
def loadRecvs (t : Tbl) (mid : Id) (st : St) (acc : List Recv) : List (Id × Nat) → LE (List Recv × St)
  | [] => .ok (acc, st)
  | (node, num) :: r =>
    match t.node node with
    | none => .error (.notFound .node node)
    | some nd =>
      if num ≥ nd.ifc then .error .ifaceOutOfBounds
      else if st.sent.contains ((node, num), mid) then loadRecvs t mid st acc r
      else
        loadRecvs t mid { st with received := ((node, num), mid) :: st.received }
          (upsert Recv.node ⟨node, num⟩ acc) r

/-- `loadMessage`: the entity id must be new in the network (checked before anything else), then
    the signals, the receivers, the attribute assignments -/
def loadMsg (t : Tbl) (st : St) (p : PMsg) : LE (Msg × St) :=
  if st.msgs.contains p.e.id then .error (.duplicated p.e.id)
  else
    match loadTop t p.refs (.msg p.e.id) st.sigs p.sigs with
    | .error err => .error err
    | .ok (sigs, sn) =>
      match loadRecvs t p.e.id { st with msgs := p.e.id :: st.msgs, sigs := sn } [] p.recvs with
      | .error err => .error err
      | .ok (recvs, st') =>
        match loadAsgs t p.asg with
        | .error err => .error err
        | .ok asg =>
          .ok ({ e := p.e, asg := asg
                 mid := if p.hasStatic then p.staticVal else p.mid
                 static := if p.hasStatic then some p.staticVal else none
                 sigs := sigs, recvs := recvs }, st')

/-- the loop over the messages of an interface -/
def loadMsgs (t : Tbl) (key : Id × Nat) (st : St) : List PMsg → LE (List Msg × St)
  | [] => .ok ([], st)
  | p :: r =>
    match loadMsg t st p with
    | .error err => .error err
    | .ok (m, st1) =>
      if st1.sent.contains (key, m.e.id) then .error (.duplicated m.e.id)
      else if st1.received.contains (key, m.e.id) then .error .receiverIsSender
      else
        match loadMsgs t key { st1 with sent := (key, m.e.id) :: st1.sent } r with
        | .error err => .error err
        | .ok (ms, st2) => .ok (m :: ms, st2)

def loadIface (t : Tbl) (st : St) (p : PIface) : LE (Iface × St) :=
  match t.node p.node with
  | none => .error (.notFound .node p.node)
  | some nd =>
    if p.num < 0 then .error .ifaceNegative
    else if p.num.toNat ≥ nd.ifc then .error .ifaceOutOfBounds
    else if st.attached.contains (p.node, p.num.toNat) then .error (.duplicated p.node)
    else
      match loadMsgs t (p.node, p.num.toNat) st p.msgs with
      | .error err => .error err
      | .ok (ms, st1) =>
        .ok ({ node := p.node, num := p.num.toNat, msgs := ms },
             { st1 with attached := (p.node, p.num.toNat) :: st1.attached })

def loadIfaces (t : Tbl) (st : St) : List PIface → LE (List Iface × St)
  | [] => .ok ([], st)
  | p :: r =>
    match loadIface t st p with
    | .error err => .error err
    | .ok (i, st1) =>
      match loadIfaces t st1 r with
      | .error err => .error err
      | .ok (is, st2) => .ok (i :: is, st2)

def loadBus (t : Tbl) (st : St) (p : PBus) : LE (Bus × St) :=
  if p.builder != "" && (t.builder p.builder).isNone then .error (.notFound .builder p.builder)
  else
    match loadIfaces t st p.ifaces with
    | .error err => .error err
    | .ok (is, st1) =>
      match loadAsgs t p.asg with
      | .error err => .error err
      | .ok asg =>
        .ok ({ e := p.e, builder := if p.builder == "" then none else some p.builder
               ifaces := is, asg := asg }, st1)

/-- the loop over `pNet.Buses`; `seen`: the ids of the buses already added -/
def loadBuses (t : Tbl) (st : St) (seen : List Id) : List PBus → LE (List Bus)
  | [] => .ok []
  | p :: r =>
    match loadBus t st p with
    | .error err => .error err
    | .ok (b, st1) =>
      if seen.contains b.e.id then .error (.duplicated b.e.id)
      else
        match loadBuses t st1 (b.e.id :: seen) r with
        | .error err => .error err
        | .ok bs => .ok (b :: bs)

def loadOp (o : POp) : Op :=
  { kind := if 1 ≤ o.kind ∧ o.kind ≤ 4 then o.kind - 1 else 0, «from» := o.from, len := o.len }

def loadBuilder (b : PBuilder) : Builder := { e := b.e, ops := b.ops.map loadOp }

def loadNodes (t : Tbl) : List PNode → LE (List Node)
  | [] => .ok []
  | p :: r =>
    match loadAsgs t p.asg with
    | .error err => .error err
    | .ok asg =>
      match loadNodes t r with
      | .error err => .error err
      | .ok ns => .ok ({ e := p.e, nid := p.nid, ifc := p.ifc, asg := asg } :: ns)

/-- `loadNetwork`: builders, attributes, nodes, types, units, enums, then the buses -/
def load (p : PNet) : LE Net :=
  match loadAttrs p.attrs with
  | .error err => .error err
  | .ok attrs =>
    let t0 : Tbl := { builders := dedupLast (·.e.id) (p.builders.map loadBuilder)
                      attrs := dedupLast (·.e.id) attrs }
    match loadNodes t0 p.nodes with
    | .error err => .error err
    | .ok nodes =>
      let t : Tbl := { t0 with nodes := dedupLast (·.e.id) nodes
                               types := dedupLast (·.id) p.types
                               units := dedupLast (·.id) p.units
                               enums := dedupLast (·.id) p.enums }
      match loadBuses t {} [] p.buses with
      | .error err => .error err
      | .ok buses => .ok { e := p.e, buses := buses, t := t }

end Acme.Save
