/-
Go semantics used by the GENERATED bus-load definition (Acme/Gen/BusLoadK.lean, written by
/verif/tools/extract/kernels_busload.go from /repo/utils.go on every run).  Hand-written; part of
the trusted base of the translator, next to Acme/Core/GenPrelude.lean.

  Go `float64`, WITH arithmetic  ↦ `Rat`   the EXACT-RATIONAL convention: a float64 is the rational
                                           it denotes, `float64(i)` of an `int` is that integer,
                                           `+ - * /` and `+=` are the operations of ℚ.  What IEEE-754
                                           does differently — rounding of every operation, `x / 0`
                                           (±Inf / NaN in Go, 0 in `Rat`), overflow — is OUTSIDE the
                                           model and named in the trusted base of C17 (the stream
                                           `busload` compares the real function with the model at
                                           1e-9 relative tolerance).
  `cmp.Compare(x, y)`            ↦ `cmpCompareRat` / `cmpCompareInt`: -1, 0, +1 (no NaN in the model)
  `slices.SortFunc(s, cmp)`      ↦ a PARAMETER `sortFunc` of the generated function; what the
                                           library routine guarantees for a comparator that is a
                                           strict weak order is `SortFuncSpec`.
-/
namespace Acme.GoSem

/-- `cmp.Compare` on two float64 (as exact rationals; NaN is outside the model). -/
def cmpCompareRat (x y : Rat) : Int := if x < y then -1 else if y < x then 1 else 0

/-- `cmp.Compare` on two ints. -/
def cmpCompareInt (x y : Int) : Int := if x < y then -1 else if y < x then 1 else 0

/-- What `slices.SortFunc(s, cmp)` guarantees (Go documentation: "sorts the slice in ascending order
    as determined by the cmp function; the sort is not guaranteed to be stable"): the result is a
    rearrangement of `s` in which no later element is strictly before an earlier one. -/
def SortFuncSpec {α : Type} (sortFunc : (α → α → Int) → List α → List α) (cmp : α → α → Int) : Prop :=
  ∀ l, (sortFunc cmp l).Perm l ∧ (sortFunc cmp l).Pairwise (fun a b => cmp a b ≤ 0)

/-- One function with that guarantee (for comparators that are total preorders): merge sort. -/
def mergeSortFunc {α : Type} (cmp : α → α → Int) (l : List α) : List α :=
  l.mergeSort (fun a b => decide (cmp a b ≤ 0))

end Acme.GoSem
