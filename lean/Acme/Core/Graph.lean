/-
Executable model of the container / registry / reference graph of acmelib:

  network.go  (AddBus, RemoveBus, RemoveAllBuses)
  bus.go      (UpdateName, AddNodeInterface, RemoveNodeInterface, RemoveAllNodeInterfaces,
               SetCANIDBuilder)
  node.go     (NewNode, UpdateName, UpdateID, AddInterface, RemoveInterface)
  node_iterface.go (AddSentMessage, RemoveSentMessage, RemoveAllSentMessages,
               AddReceivedMessage, RemoveReceivedMessage, RemoveAllReceivedMessages)
  message.go  (UpdateName, UpdateID, SetStaticCANID, UpdateSizeByte (bus limit),
               AddReceiver, RemoveReceiver)
  entity.go   (withRefs, withAttributes: AssignAttribute, RemoveAttributeAssignment,
               RemoveAllAttributeAssignments), attribute.go (constructors' validation),
  signal.go   (NewStandardSignal, SetType, SetUnit: reference bookkeeping only).

Every Go `set[K,V]` index is an explicit `Reg` (association list with map semantics:
`add` replaces, `remove` deletes), kept *separately* from the contents exactly as in the
code, so that "index agrees with contents" is a theorem and not a definition.
Entities are named by natural numbers chosen by the harness.  Re-attaching an entity
that already has a parent is outside the model (`Out.unsupported`, D25).
-/
import Acme.Core.AMap

namespace Acme.Graph

/-- association list with Go-map semantics -/
abbrev Reg (κ : Type) := List (κ × Nat)

namespace Reg
variable {κ : Type} [DecidableEq κ]
def has (r : Reg κ) (k : κ) : Bool := r.any (fun p => p.1 = k)
def get (r : Reg κ) (k : κ) : Option Nat := (r.find? (fun p => p.1 = k)).map (·.2)
def remove (r : Reg κ) (k : κ) : Reg κ := r.filter (fun p => p.1 ≠ k)
def add (r : Reg κ) (k : κ) (v : Nat) : Reg κ := (k, v) :: remove r k
def keys (r : Reg κ) : List κ := r.map (·.1)
def vals (r : Reg κ) : List Nat := r.map (·.2)
end Reg

inductive Cause where
  | duplicated | notFound | outOfBounds | negative | zero | nil | tooBig | tooSmall
  | receiverIsSender | invalidType
  | greaterThan | lowerThan      -- `*ErrGreaterThen` / `*ErrLowerThen` of the attribute constructors
  deriving Repr, DecidableEq, Inhabited

inductive Out where
  | ok
  | err (c : Cause)
  | unsupported
  | panic
  deriving Repr, DecidableEq, Inhabited

structure NetE where
  name : String
  buses : Reg Nat := []          -- bus id ↦ bus id
  busNames : Reg String := []
  deriving Repr, DecidableEq, Inhabited

structure BusE where
  name : String
  parent : Option Nat := none
  builder : Option Nat := none   -- none = the bus's own default builder
  nodeInts : Reg Nat := []       -- node id ↦ interface id
  nodeNames : Reg String := []   -- node name ↦ node id
  nodeIDs : Reg Nat := []        -- node number ↦ node id
  staticIDs : Reg Nat := []      -- static CAN-ID ↦ message id
  attrs : Reg Nat := []          -- attribute id ↦ 0
  deriving Repr, DecidableEq, Inhabited

structure NodeE where
  name : String
  nid : Nat
  ifaces : List Nat := []
  ifaceCount : Int := 0
  attrs : Reg Nat := []
  deriving Repr, DecidableEq, Inhabited

structure IfaceE where
  node : Nat
  number : Int
  parentBus : Option Nat := none
  sent : Reg Nat := []           -- message id ↦ message id
  sentNames : Reg String := []
  sentIDs : Reg Nat := []        -- message number ↦ message id
  sentStatic : Reg Nat := []     -- static CAN-ID ↦ message id
  received : Reg Nat := []       -- message id ↦ message id
  deriving Repr, DecidableEq, Inhabited

structure MsgE where
  name : String
  mid : Nat
  static : Option Nat := none
  sizeByte : Int
  sender : Option Nat := none    -- interface id
  receivers : Reg Nat := []      -- node id ↦ interface id
  attrs : Reg Nat := []
  deriving Repr, DecidableEq, Inhabited

structure BuilderE where
  refs : List Nat := []          -- bus ids
  deriving Repr, DecidableEq, Inhabited

inductive AttrKind where
  | str | int (min max : Int) | enm (values : List String)
  deriving Repr, DecidableEq, Inhabited

structure AttrE where
  kind : AttrKind
  refs : List Nat := []          -- entity ids (any kind) the attribute is assigned to
  deriving Repr, DecidableEq, Inhabited

inductive AVal where
  | int (v : Int) | str (s : String) | flt
  deriving Repr, DecidableEq, Inhabited

structure DefE where              -- signal type / signal unit: only the references matter
  refs : List Nat := []
  deriving Repr, DecidableEq, Inhabited

structure SigE where
  typ : Nat
  unit : Option Nat := none
  attrs : Reg Nat := []
  deriving Repr, DecidableEq, Inhabited

structure G where
  nets : AMap NetE := {}
  buses : AMap BusE := {}
  nodes : AMap NodeE := {}
  ifaces : AMap IfaceE := {}
  msgs : AMap MsgE := {}
  builders : AMap BuilderE := {}
  attrs : AMap AttrE := {}
  types : AMap DefE := {}
  units : AMap DefE := {}
  sigs : AMap SigE := {}
  deriving Inhabited

inductive EKind where
  | bus | node | msg | sig
  deriving Repr, DecidableEq, Inhabited

inductive Op where
  | netNew (n : Nat) (name : String)
  | netAddBus (n b : Nat)
  | netRemoveBus (n b : Nat)
  | netRemoveAllBuses (n : Nat)
  | busNew (b : Nat) (name : String)
  | busRename (b : Nat) (name : String)
  | busAddIface (b i : Nat)
  | busRemoveIface (b nodeId : Nat)
  | busRemoveAllIfaces (b : Nat)
  | busSetBuilder (b : Nat) (c : Option Nat)
  | builderNew (c : Nat)
  | nodeNew (n : Nat) (name : String) (nid : Nat) (count : Int) (ifaces : List Nat)
  | nodeRename (n : Nat) (name : String)
  | nodeSetId (n : Nat) (nid : Nat)
  | nodeAddIface (n i : Nat)
  | nodeRemoveIface (n : Nat) (k : Int)
  | msgNew (m : Nat) (name : String) (mid : Nat) (size : Int)
  | msgRename (m : Nat) (name : String)
  | msgSetId (m : Nat) (mid : Nat)
  | msgSetStatic (m : Nat) (c : Nat)
  | msgResize (m : Nat) (k : Int)
  | ifaceAddSent (i m : Nat)
  | ifaceRemoveSent (i m : Nat)
  | ifaceRemoveAllSent (i : Nat)
  | ifaceAddRecv (i m : Nat)
  | ifaceRemoveRecv (i m : Nat)
  | ifaceRemoveAllRecv (i : Nat)
  | msgAddReceiver (m i : Nat)
  | msgRemoveReceiver (m nodeId : Nat)
  | attrNewStr (a : Nat)
  | attrNewInt (a : Nat) (dflt min max : Int)
  | attrNewEnum (a : Nat) (values : List String)
  | assign (k : EKind) (x a : Nat) (v : AVal)
  | unassign (k : EKind) (x a : Nat)
  | unassignAll (k : EKind) (x : Nat)
  | typeNew (t : Nat)
  | unitNew (u : Nat)
  | sigNew (s t : Nat)
  | sigSetType (s t : Nat)
  | sigSetUnit (s : Nat) (u : Option Nat)
  deriving Repr, DecidableEq, Inhabited

def eraseRef (l : List Nat) (x : Nat) : List Nat := l.filter (· ≠ x)
def addRef (l : List Nat) (x : Nat) : List Nat := x :: eraseRef l x

/-- `Bus.verifyMessageSize` (CAN 2.0A) -/
def busSizeOK (size : Int) : Bool := size ≤ 8

def nodeName (g : G) (n : Nat) : String := match g.nodes.get n with | some x => x.name | none => ""
def nodeNid (g : G) (n : Nat) : Nat := match g.nodes.get n with | some x => x.nid | none => 0

/-- the attribute store of an attributable entity -/
def getAttrs (g : G) : EKind → Nat → Option (Reg Nat)
  | .bus, x => (g.buses.get x).map (·.attrs)
  | .node, x => (g.nodes.get x).map (·.attrs)
  | .msg, x => (g.msgs.get x).map (·.attrs)
  | .sig, x => (g.sigs.get x).map (·.attrs)

def setAttrs (g : G) : EKind → Nat → Reg Nat → G
  | .bus, x, r => match g.buses.get x with | some e => { g with buses := g.buses.set x { e with attrs := r } } | none => g
  | .node, x, r => match g.nodes.get x with | some e => { g with nodes := g.nodes.set x { e with attrs := r } } | none => g
  | .msg, x, r => match g.msgs.get x with | some e => { g with msgs := g.msgs.set x { e with attrs := r } } | none => g
  | .sig, x, r => match g.sigs.get x with | some e => { g with sigs := g.sigs.set x { e with attrs := r } } | none => g

/-- remove the reference of entity `x` from every attribute in the list -/
def dropAttrRefs (attrs : AMap AttrE) (x : Nat) : List Nat → AMap AttrE
  | [] => attrs
  | a :: rest =>
    match attrs.get a with
    | some att => dropAttrRefs (attrs.set a { att with refs := eraseRef att.refs x }) x rest
    | none => dropAttrRefs attrs x rest

/-- clear `parentBus` of the listed interfaces -/
def clearIfaceBus (ifaces : AMap IfaceE) : List Nat → AMap IfaceE
  | [] => ifaces
  | i :: rest =>
    match ifaces.get i with
    | some e => clearIfaceBus (ifaces.set i { e with parentBus := none }) rest
    | none => clearIfaceBus ifaces rest

def clearBusParents (buses : AMap BusE) : List Nat → AMap BusE
  | [] => buses
  | b :: rest =>
    match buses.get b with
    | some e => clearBusParents (buses.set b { e with parent := none }) rest
    | none => clearBusParents buses rest

def clearSenders (msgs : AMap MsgE) : List Nat → AMap MsgE
  | [] => msgs
  | m :: rest =>
    match msgs.get m with
    | some e => clearSenders (msgs.set m { e with sender := none }) rest
    | none => clearSenders msgs rest

/-- remove receiver key `nodeId` from the listed messages -/
def dropReceiver (msgs : AMap MsgE) (nodeId : Nat) : List Nat → AMap MsgE
  | [] => msgs
  | m :: rest =>
    match msgs.get m with
    | some e => dropReceiver (msgs.set m { e with receivers := e.receivers.remove nodeId }) nodeId rest
    | none => dropReceiver msgs nodeId rest

/-- static CAN-IDs of the listed messages -/
def staticOf (g : G) (ms : List Nat) : List (Nat × Nat) :=
  ms.filterMap (fun m => match g.msgs.get m with
    | some e => match e.static with | some c => some (c, m) | none => none
    | none => none)

def removeKeys (r : Reg Nat) : List Nat → Reg Nat
  | [] => r
  | k :: rest => removeKeys (r.remove k) rest

def addAll (r : Reg Nat) : List (Nat × Nat) → Reg Nat
  | [] => r
  | (k, v) :: rest => addAll (r.add k v) rest

/-- renumber the interfaces after the removed one (`tmpInt.number--`) -/
def renumber (ifaces : AMap IfaceE) (k : Int) : List Nat → AMap IfaceE
  | [] => ifaces
  | i :: rest =>
    match ifaces.get i with
    | some e =>
      if e.number > k then renumber (ifaces.set i { e with number := e.number - 1 }) k rest
      else renumber ifaces k rest
    | none => renumber ifaces k rest

/-- the `messageStaticCANIDs` index of bus `pb` (if there is one) updated by `f` -/
def updStatic (B : AMap BusE) (pb : Option Nat) (f : Reg Nat → Reg Nat) : AMap BusE :=
  match pb with
  | none => B
  | some b => match B.get b with
    | some bus => B.set b { bus with staticIDs := f bus.staticIDs }
    | none => B

/-- `Bus.verifyStaticCANID` on bus `pb` (if there is one) refuses `c` -/
def busStaticClash (B : AMap BusE) (pb : Option Nat) (c : Nat) : Bool :=
  match pb with
  | none => false
  | some b => match B.get b with | some bus => bus.staticIDs.has c | none => false

/-- `removeRef(x)` on the builder `old` (if there is one) -/
def dropBuilderRef (C : AMap BuilderE) (old : Option Nat) (x : Nat) : AMap BuilderE :=
  match old with
  | none => C
  | some o => match C.get o with
    | some e => C.set o { e with refs := eraseRef e.refs x }
    | none => C

/-- `removeRef(x)` on the signal type / unit `old` (if there is one) -/
def dropDefRef (T : AMap DefE) (old : Option Nat) (x : Nat) : AMap DefE :=
  match old with
  | none => T
  | some o => match T.get o with
    | some e => T.set o { e with refs := eraseRef e.refs x }
    | none => T

/-- the interfaces created by `NewNode`: numbered `start, start+1, …` in list order -/
def newIfaces (ifaces : AMap IfaceE) (n : Nat) (start : Nat) : List Nat → AMap IfaceE
  | [] => ifaces
  | i :: rest => newIfaces (ifaces.set i { node := n, number := (start : Int) }) n (start + 1) rest

/-- `Bus.RemoveNodeInterface(nodeEntityID)` as a state transformer (shared by two ops) -/
def busRemoveIfaceCore (g : G) (b nodeId : Nat) : G × Out :=
  match g.buses.get b with
  | none => (g, .unsupported)
  | some bus =>
    match bus.nodeInts.get nodeId with
    | none => (g, .err .notFound)
    | some i =>
      match g.ifaces.get i with
      | none => (g, .unsupported)
      | some ifc =>
        let statics := (staticOf g ifc.sent.vals).map (·.1)
        let bus' := { bus with nodeInts := bus.nodeInts.remove nodeId,
                               nodeNames := bus.nodeNames.remove (nodeName g ifc.node),
                               nodeIDs := bus.nodeIDs.remove (nodeNid g ifc.node),
                               staticIDs := removeKeys bus.staticIDs statics }
        ({ g with buses := g.buses.set b bus',
                  ifaces := g.ifaces.set i { ifc with parentBus := none } }, .ok)

/-- first bus (in interface order) attached to node `n` that fails `check`; also the list of buses -/
def attachedBuses (g : G) (ifs : List Nat) : List Nat :=
  ifs.filterMap (fun i => match g.ifaces.get i with | some e => e.parentBus | none => none)

def renameNodeInBuses (buses : AMap BusE) (old new : String) (n : Nat) : List Nat → AMap BusE
  | [] => buses
  | b :: rest =>
    match buses.get b with
    | some e => renameNodeInBuses (buses.set b { e with nodeNames := (e.nodeNames.remove old).add new n }) old new n rest
    | none => renameNodeInBuses buses old new n rest

def renumberNodeInBuses (buses : AMap BusE) (old new : Nat) (n : Nat) : List Nat → AMap BusE
  | [] => buses
  | b :: rest =>
    match buses.get b with
    | some e => renumberNodeInBuses (buses.set b { e with nodeIDs := (e.nodeIDs.remove old).add new n }) old new n rest
    | none => renumberNodeInBuses buses old new n rest

/-- `NodeInterface.addReceivedMessage(msg)` (shared by `AddReceivedMessage` / `AddReceiver`) -/
def addRecvCore (g : G) (i : Nat) (ifc : IfaceE) (m : Nat) (msg : MsgE) : G × Out :=
  if ifc.sent.has m then (g, .err .receiverIsSender)
  else
    ({ g with ifaces := g.ifaces.set i { ifc with received := ifc.received.add m m },
              msgs := g.msgs.set m { msg with receivers := msg.receivers.add ifc.node i } }, .ok)

/-! One function per operation (the arms of `step`), so that each can be unfolded alone. -/

def stepNetNew (g : G) (n : Nat) (name : String) : G × Out :=
  if (g.nets.get n).isSome then (g, .unsupported)
  else ({ g with nets := g.nets.set n { name := name } }, .ok)

def stepNetAddBus (g : G) (n : Nat) (b : Nat) : G × Out :=
  match g.nets.get n with
  | none => (g, .unsupported)
  | some net =>
    match g.buses.get b with
    | none => (g, .err .nil)
    | some bus =>
      if bus.parent.isSome then (g, .unsupported)
      else if net.busNames.has bus.name then (g, .err .duplicated)
      else
        ({ g with nets := g.nets.set n { net with buses := net.buses.add b b, busNames := net.busNames.add bus.name b },
                  buses := g.buses.set b { bus with parent := some n } }, .ok)

def stepNetRemoveBus (g : G) (n : Nat) (b : Nat) : G × Out :=
  match g.nets.get n with
  | none => (g, .unsupported)
  | some net =>
    if ¬ net.buses.has b then (g, .err .notFound)
    else match g.buses.get b with
      | none => (g, .unsupported)
      | some bus =>
        ({ g with nets := g.nets.set n { net with buses := net.buses.remove b, busNames := net.busNames.remove bus.name },
                  buses := g.buses.set b { bus with parent := none } }, .ok)

def stepNetRemoveAllBuses (g : G) (n : Nat) : G × Out :=
  match g.nets.get n with
  | none => (g, .unsupported)
  | some net =>
    ({ g with buses := clearBusParents g.buses net.buses.vals,
              nets := g.nets.set n { net with buses := [], busNames := [] } }, .ok)

def stepBusNew (g : G) (b : Nat) (name : String) : G × Out :=
  if (g.buses.get b).isSome then (g, .unsupported)
  else ({ g with buses := g.buses.set b { name := name } }, .ok)

def stepBusRename (g : G) (b : Nat) (name : String) : G × Out :=
  match g.buses.get b with
  | none => (g, .unsupported)
  | some bus =>
    if bus.name = name then (g, .ok)
    else match bus.parent with
      | none => ({ g with buses := g.buses.set b { bus with name := name } }, .ok)
      | some n =>
        match g.nets.get n with
        | none => (g, .unsupported)
        | some net =>
          if net.busNames.has name then (g, .err .duplicated)
          else
            ({ g with nets := g.nets.set n { net with busNames := (net.busNames.remove bus.name).add name b },
                      buses := g.buses.set b { bus with name := name } }, .ok)

def stepBusAddIface (g : G) (b : Nat) (i : Nat) : G × Out :=
  match g.buses.get b with
  | none => (g, .unsupported)
  | some bus =>
    match g.ifaces.get i with
    | none => (g, .err .nil)
    | some ifc =>
      if ifc.parentBus.isSome then (g, .unsupported)
      else
        let n := ifc.node
        if bus.nodeNames.has (nodeName g n) then (g, .err .duplicated)
        else if bus.nodeIDs.has (nodeNid g n) then (g, .err .duplicated)
        else
          let msgs := ifc.sent.vals
          -- the loop verifies size and static CAN-ID message by message (map order);
          -- the cause of the first failing message is reported: sizes first is only
          -- observable when both kinds of failure occur, see the harness canonicalisation
          let tooBig : Bool := msgs.any (fun m => match g.msgs.get m with | some e => !busSizeOK e.sizeByte | none => false)
          let statics := staticOf g msgs
          let clash : Bool := statics.any (fun p => bus.staticIDs.has p.1)
          if tooBig ∧ clash then (g, .err .tooBig)  -- order-dependent in Go; both are rejections
          else if tooBig then (g, .err .tooBig)
          else if clash then (g, .err .duplicated)
          else
            let bus' := { bus with staticIDs := addAll bus.staticIDs statics,
                                   nodeInts := bus.nodeInts.add n i,
                                   nodeNames := bus.nodeNames.add (nodeName g n) n,
                                   nodeIDs := bus.nodeIDs.add (nodeNid g n) n }
            ({ g with buses := g.buses.set b bus',
                      ifaces := g.ifaces.set i { ifc with parentBus := some b } }, .ok)

def stepBusRemoveIface (g : G) (b : Nat) (nodeId : Nat) : G × Out :=
  busRemoveIfaceCore g b nodeId

def stepBusRemoveAllIfaces (g : G) (b : Nat) : G × Out :=
  match g.buses.get b with
  | none => (g, .unsupported)
  | some bus =>
    ({ g with ifaces := clearIfaceBus g.ifaces bus.nodeInts.vals,
              buses := g.buses.set b { bus with nodeInts := [], nodeNames := [], nodeIDs := [], staticIDs := [] } }, .ok)

def stepBusSetBuilder (g : G) (b : Nat) (c : Option Nat) : G × Out :=
  match g.buses.get b with
  | none => (g, .unsupported)
  | some bus =>
    -- removeRef on the old builder
    let builders1 := dropBuilderRef g.builders bus.builder b
    match c with
    | none => ({ g with builders := builders1, buses := g.buses.set b { bus with builder := none } }, .ok)
    | some cid =>
      match builders1.get cid with
      | none => ({ g with builders := builders1, buses := g.buses.set b { bus with builder := none } }, .ok)
      | some e =>
        ({ g with builders := builders1.set cid { e with refs := addRef e.refs b },
                  buses := g.buses.set b { bus with builder := some cid } }, .ok)

def stepBuilderNew (g : G) (c : Nat) : G × Out :=
  if (g.builders.get c).isSome then (g, .unsupported)
  else ({ g with builders := g.builders.set c {} }, .ok)

def stepNodeNew (g : G) (n : Nat) (name : String) (nid : Nat) (count : Int) (ifs : List Nat) : G × Out :=
  -- `NewNode(name, id, interfaceCount)`: a negative count is treated as zero; `ifs` are
  -- the harness ids of the new interfaces
  if (if count < 0 then 0 else count) ≠ (ifs.length : Int) then (g, .unsupported)
  else if (g.nodes.get n).isSome ∨ ifs.any (fun i => (g.ifaces.get i).isSome) ∨ ¬ ifs.Nodup then (g, .unsupported)
  else
    let ifaces := newIfaces g.ifaces n 0 ifs
    ({ g with nodes := g.nodes.set n { name := name, nid := nid, ifaces := ifs, ifaceCount := ifs.length },
              ifaces := ifaces }, .ok)

def stepNodeRename (g : G) (n : Nat) (name : String) : G × Out :=
  match g.nodes.get n with
  | none => (g, .unsupported)
  | some nd =>
    if nd.name = name then (g, .ok)
    else
      let bs := attachedBuses g nd.ifaces
      if bs.any (fun b => match g.buses.get b with | some e => e.nodeNames.has name | none => false) then
        (g, .err .duplicated)
      else
        ({ g with buses := renameNodeInBuses g.buses nd.name name n bs,
                  nodes := g.nodes.set n { nd with name := name } }, .ok)

def stepNodeSetId (g : G) (n : Nat) (nid : Nat) : G × Out :=
  match g.nodes.get n with
  | none => (g, .unsupported)
  | some nd =>
    if nd.nid = nid then (g, .ok)
    else
      let bs := attachedBuses g nd.ifaces
      if bs.any (fun b => match g.buses.get b with | some e => e.nodeIDs.has nid | none => false) then
        (g, .err .duplicated)
      else
        ({ g with buses := renumberNodeInBuses g.buses nd.nid nid n bs,
                  nodes := g.nodes.set n { nd with nid := nid } }, .ok)

def stepNodeAddIface (g : G) (n : Nat) (i : Nat) : G × Out :=
  match g.nodes.get n with
  | none => (g, .unsupported)
  | some nd =>
    if (g.ifaces.get i).isSome then (g, .unsupported)
    else
      ({ g with ifaces := g.ifaces.set i { node := n, number := nd.ifaceCount },
                nodes := g.nodes.set n { nd with ifaces := nd.ifaces ++ [i], ifaceCount := nd.ifaceCount + 1 } }, .ok)

def stepNodeRemoveIface (g : G) (n : Nat) (k : Int) : G × Out :=
  match g.nodes.get n with
  | none => (g, .unsupported)
  | some nd =>
    if k < 0 then (g, .err .negative)
    else if k ≥ nd.ifaceCount then (g, .err .outOfBounds)
    else
      match nd.ifaces.find? (fun i => match g.ifaces.get i with | some e => e.number = k | none => false) with
      | none => (g, .unsupported)
      | some i =>
        match g.ifaces.get i with
        | none => (g, .unsupported)
        | some ifc =>
          let g1 : Option G := match ifc.parentBus with
            | none => some g
            | some b => match busRemoveIfaceCore g b n with
              | (g', .ok) => some g'
              | _ => none
          match g1 with
          | none => (g, .err .notFound)
          | some g1 =>
            let rest := nd.ifaces.filter (· ≠ i)
            ({ g1 with ifaces := renumber g1.ifaces k rest,
                       nodes := g1.nodes.set n { nd with ifaces := rest, ifaceCount := nd.ifaceCount - 1 } }, .ok)

def stepMsgNew (g : G) (m : Nat) (name : String) (mid : Nat) (size : Int) : G × Out :=
  if (g.msgs.get m).isSome then (g, .unsupported)
  else ({ g with msgs := g.msgs.set m { name := name, mid := mid, sizeByte := size } }, .ok)

def stepMsgRename (g : G) (m : Nat) (name : String) : G × Out :=
  match g.msgs.get m with
  | none => (g, .unsupported)
  | some msg =>
    if msg.name = name then (g, .ok)
    else match msg.sender with
      | none => ({ g with msgs := g.msgs.set m { msg with name := name } }, .ok)
      | some i =>
        match g.ifaces.get i with
        | none => (g, .unsupported)
        | some ifc =>
          if ifc.sentNames.has name then (g, .err .duplicated)
          else
            ({ g with ifaces := g.ifaces.set i { ifc with sentNames := (ifc.sentNames.remove msg.name).add name m },
                      msgs := g.msgs.set m { msg with name := name } }, .ok)

def stepMsgSetId (g : G) (m : Nat) (mid : Nat) : G × Out :=
  match g.msgs.get m with
  | none => (g, .unsupported)
  | some msg =>
    if msg.mid = mid ∧ msg.static.isNone then (g, .ok)
    else match msg.sender with
      | none => ({ g with msgs := g.msgs.set m { msg with mid := mid, static := none } }, .ok)
      | some i =>
        match g.ifaces.get i with
        | none => (g, .unsupported)
        | some ifc =>
          if ifc.sentIDs.has mid then (g, .err .duplicated)
          else match msg.static with
            | some c =>
              ({ g with buses := updStatic g.buses ifc.parentBus (fun r => r.remove c),
                        ifaces := g.ifaces.set i { ifc with sentStatic := ifc.sentStatic.remove c, sentIDs := ifc.sentIDs.add mid m },
                        msgs := g.msgs.set m { msg with mid := mid, static := none } }, .ok)
            | none =>
              ({ g with ifaces := g.ifaces.set i { ifc with sentIDs := (ifc.sentIDs.remove msg.mid).add mid m },
                        msgs := g.msgs.set m { msg with mid := mid, static := none } }, .ok)

def stepMsgSetStatic (g : G) (m : Nat) (c : Nat) : G × Out :=
  match g.msgs.get m with
  | none => (g, .unsupported)
  | some msg =>
    match msg.sender with
    | none => ({ g with msgs := g.msgs.set m { msg with mid := c, static := some c } }, .ok)
    | some i =>
      match g.ifaces.get i with
      | none => (g, .unsupported)
      | some ifc =>
        if ifc.sentStatic.has c then (g, .err .duplicated)
        else if busStaticClash g.buses ifc.parentBus c then (g, .err .duplicated)
        else
          let msgs' := g.msgs.set m { msg with mid := c, static := some c }
          match msg.static with
          | some old =>
            ({ g with buses := updStatic g.buses ifc.parentBus (fun r => (r.remove old).add c m),
                      ifaces := g.ifaces.set i { ifc with sentStatic := (ifc.sentStatic.remove old).add c m },
                      msgs := msgs' }, .ok)
          | none =>
            ({ g with buses := updStatic g.buses ifc.parentBus (fun r => r.add c m),
                      ifaces := g.ifaces.set i { ifc with sentIDs := ifc.sentIDs.remove msg.mid, sentStatic := ifc.sentStatic.add c m },
                      msgs := msgs' }, .ok)

def stepMsgResize (g : G) (m : Nat) (k : Int) : G × Out :=
  match g.msgs.get m with
  | none => (g, .unsupported)
  | some msg =>
    if k < 0 then (g, .err .negative)
    else if msg.sizeByte = k then (g, .ok)
    else
      let onBus : Bool := match msg.sender with
        | none => false
        | some i => match g.ifaces.get i with | some ifc => ifc.parentBus.isSome | none => false
      if onBus ∧ ¬ busSizeOK k then (g, .err .tooBig)
      else ({ g with msgs := g.msgs.set m { msg with sizeByte := k } }, .ok)

def stepIfaceAddSent (g : G) (i : Nat) (m : Nat) : G × Out :=
  match g.ifaces.get i with
  | none => (g, .unsupported)
  | some ifc =>
    match g.msgs.get m with
    | none => (g, .err .nil)
    | some msg =>
      if msg.sender.isSome then (g, .unsupported)
      else if ifc.received.has m then (g, .err .receiverIsSender)
      else if ifc.sentNames.has msg.name then (g, .err .duplicated)
      else
        let bus := match ifc.parentBus with | some b => g.buses.get b | none => none
        if bus.isSome ∧ ¬ busSizeOK msg.sizeByte then (g, .err .tooBig)
        else match msg.static with
          | some c =>
            if ifc.sentStatic.has c ∨ busStaticClash g.buses ifc.parentBus c then (g, .err .duplicated)
            else
              ({ g with buses := updStatic g.buses ifc.parentBus (fun r => r.add c m),
                        ifaces := g.ifaces.set i { ifc with sentStatic := ifc.sentStatic.add c m, sent := ifc.sent.add m m,
                                                             sentNames := ifc.sentNames.add msg.name m },
                        msgs := g.msgs.set m { msg with sender := some i } }, .ok)
          | none =>
            if ifc.sentIDs.has msg.mid then (g, .err .duplicated)
            else
              ({ g with ifaces := g.ifaces.set i { ifc with sentIDs := ifc.sentIDs.add msg.mid m, sent := ifc.sent.add m m,
                                                             sentNames := ifc.sentNames.add msg.name m },
                        msgs := g.msgs.set m { msg with sender := some i } }, .ok)

def stepIfaceRemoveSent (g : G) (i : Nat) (m : Nat) : G × Out :=
  match g.ifaces.get i with
  | none => (g, .unsupported)
  | some ifc =>
    if ¬ ifc.sent.has m then (g, .err .notFound)
    else match g.msgs.get m with
      | none => (g, .unsupported)
      | some msg =>
        match msg.static with
        | some c =>
          ({ g with buses := updStatic g.buses ifc.parentBus (fun r => r.remove c),
                    ifaces := g.ifaces.set i { ifc with sent := ifc.sent.remove m, sentNames := ifc.sentNames.remove msg.name,
                                                         sentStatic := ifc.sentStatic.remove c },
                    msgs := g.msgs.set m { msg with sender := none } }, .ok)
        | none =>
          ({ g with ifaces := g.ifaces.set i { ifc with sent := ifc.sent.remove m, sentNames := ifc.sentNames.remove msg.name,
                                                         sentIDs := ifc.sentIDs.remove msg.mid },
                    msgs := g.msgs.set m { msg with sender := none } }, .ok)

def stepIfaceRemoveAllSent (g : G) (i : Nat) : G × Out :=
  match g.ifaces.get i with
  | none => (g, .unsupported)
  | some ifc =>
    let ms := ifc.sent.vals
    ({ g with buses := updStatic g.buses ifc.parentBus (fun r => removeKeys r ((staticOf g ms).map (·.1))), msgs := clearSenders g.msgs ms,
              ifaces := g.ifaces.set i { ifc with sent := [], sentNames := [], sentIDs := [], sentStatic := [] } }, .ok)

def stepIfaceAddRecv (g : G) (i : Nat) (m : Nat) : G × Out :=
  -- `NodeInterface.AddReceivedMessage(message)`: the callee is the interface
  match g.ifaces.get i with
  | none => (g, .unsupported)
  | some ifc =>
    match g.msgs.get m with
    | none => (g, .err .nil)
    | some msg => addRecvCore g i ifc m msg

def stepMsgAddReceiver (g : G) (m : Nat) (i : Nat) : G × Out :=
  -- `Message.AddReceiver(receiver)`: the callee is the message
  match g.msgs.get m with
  | none => (g, .unsupported)
  | some msg =>
    match g.ifaces.get i with
    | none => (g, .err .nil)
    | some ifc => addRecvCore g i ifc m msg

def stepIfaceRemoveRecv (g : G) (i : Nat) (m : Nat) : G × Out :=
  match g.ifaces.get i with
  | none => (g, .unsupported)
  | some ifc =>
    if ¬ ifc.received.has m then (g, .err .notFound)
    else match g.msgs.get m with
      | none => (g, .unsupported)
      | some msg =>
        ({ g with ifaces := g.ifaces.set i { ifc with received := ifc.received.remove m },
                  msgs := g.msgs.set m { msg with receivers := msg.receivers.remove ifc.node } }, .ok)

def stepIfaceRemoveAllRecv (g : G) (i : Nat) : G × Out :=
  match g.ifaces.get i with
  | none => (g, .unsupported)
  | some ifc =>
    ({ g with msgs := dropReceiver g.msgs ifc.node ifc.received.vals,
              ifaces := g.ifaces.set i { ifc with received := [] } }, .ok)

def stepMsgRemoveReceiver (g : G) (m : Nat) (nodeId : Nat) : G × Out :=
  match g.msgs.get m with
  | none => (g, .unsupported)
  | some msg =>
    match msg.receivers.get nodeId with
    | none => (g, .err .notFound)
    | some i =>
      match g.ifaces.get i with
      | none => (g, .unsupported)
      | some ifc =>
        ({ g with ifaces := g.ifaces.set i { ifc with received := ifc.received.remove m },
                  msgs := g.msgs.set m { msg with receivers := msg.receivers.remove ifc.node } }, .ok)

def stepAttrNewStr (g : G) (a : Nat) : G × Out :=
  if (g.attrs.get a).isSome then (g, .unsupported)
  else ({ g with attrs := g.attrs.set a { kind := .str } }, .ok)

def stepAttrNewInt (g : G) (a : Nat) (dflt : Int) (mn : Int) (mx : Int) : G × Out :=
  if (g.attrs.get a).isSome then (g, .unsupported)
  else if mn > mx then (g, .err .greaterThan)
  else if dflt > mx then (g, .err .greaterThan)
  else if dflt < mn then (g, .err .lowerThan)
  else ({ g with attrs := g.attrs.set a { kind := .int mn mx } }, .ok)

def stepAttrNewEnum (g : G) (a : Nat) (values : List String) : G × Out :=
  if (g.attrs.get a).isSome then (g, .unsupported)
  else if values.isEmpty then (g, .err .nil)
  else ({ g with attrs := g.attrs.set a { kind := .enm values } }, .ok)

def stepAssign (g : G) (k : EKind) (x : Nat) (a : Nat) (v : AVal) : G × Out :=
  match getAttrs g k x with
  | none => (g, .unsupported)
  | some r =>
    match g.attrs.get a with
    | none => (g, .err .nil)
    | some att =>
      let bad : Option Cause := match v, att.kind with
        | .int i, .int mn mx => if i < mn ∨ i > mx then some .outOfBounds else none
        | .int _, _ => some .invalidType
        | .flt, _ => some .invalidType
        | .str _, .str => none
        | .str s, .enm vs => if vs.contains s then none else some .notFound
        | .str _, .int _ _ => some .invalidType
      match bad with
      | some c => (g, .err c)
      | none =>
        let g1 := setAttrs g k x (r.add a 0)
        ({ g1 with attrs := g1.attrs.set a { att with refs := addRef att.refs x } }, .ok)

def stepUnassign (g : G) (k : EKind) (x : Nat) (a : Nat) : G × Out :=
  match getAttrs g k x with
  | none => (g, .unsupported)
  | some r =>
    if ¬ r.has a then (g, .err .notFound)
    else
      let g1 := setAttrs g k x (r.remove a)
      ({ g1 with attrs := dropAttrRefs g1.attrs x [a] }, .ok)

def stepUnassignAll (g : G) (k : EKind) (x : Nat) : G × Out :=
  match getAttrs g k x with
  | none => (g, .unsupported)
  | some r =>
    let g1 := setAttrs g k x []
    ({ g1 with attrs := dropAttrRefs g1.attrs x r.keys }, .ok)

def stepTypeNew (g : G) (t : Nat) : G × Out :=
  if (g.types.get t).isSome then (g, .unsupported) else ({ g with types := g.types.set t {} }, .ok)

def stepUnitNew (g : G) (u : Nat) : G × Out :=
  if (g.units.get u).isSome then (g, .unsupported) else ({ g with units := g.units.set u {} }, .ok)

def stepSigNew (g : G) (s : Nat) (t : Nat) : G × Out :=
  if (g.sigs.get s).isSome then (g, .unsupported)
  else match g.types.get t with
    | none => (g, .err .nil)
    | some ty =>
      ({ g with sigs := g.sigs.set s { typ := t }, types := g.types.set t { ty with refs := addRef ty.refs s } }, .ok)

def stepSigSetType (g : G) (s : Nat) (t : Nat) : G × Out :=
  match g.sigs.get s with
  | none => (g, .unsupported)
  | some sg =>
    match g.types.get t with
    | none => (g, .err .nil)
    | some _ =>
      let types1 := dropDefRef g.types (some sg.typ) s
      match types1.get t with
      | none => (g, .unsupported)
      | some ty =>
        ({ g with types := types1.set t { ty with refs := addRef ty.refs s },
                  sigs := g.sigs.set s { sg with typ := t } }, .ok)

def stepSigSetUnit (g : G) (s : Nat) (u : Option Nat) : G × Out :=
  match g.sigs.get s with
  | none => (g, .unsupported)
  | some sg =>
    let units1 := dropDefRef g.units sg.unit s
    match u with
    | none => ({ g with units := units1, sigs := g.sigs.set s { sg with unit := none } }, .ok)
    | some uid =>
      match units1.get uid with
      | none => ({ g with units := units1, sigs := g.sigs.set s { sg with unit := none } }, .ok)
      | some e =>
        ({ g with units := units1.set uid { e with refs := addRef e.refs s },
                  sigs := g.sigs.set s { sg with unit := some uid } }, .ok)

def step (g : G) : Op → G × Out
  | .netNew n name => stepNetNew g n name
  | .netAddBus n b => stepNetAddBus g n b
  | .netRemoveBus n b => stepNetRemoveBus g n b
  | .netRemoveAllBuses n => stepNetRemoveAllBuses g n
  | .busNew b name => stepBusNew g b name
  | .busRename b name => stepBusRename g b name
  | .busAddIface b i => stepBusAddIface g b i
  | .busRemoveIface b nodeId => stepBusRemoveIface g b nodeId
  | .busRemoveAllIfaces b => stepBusRemoveAllIfaces g b
  | .busSetBuilder b c => stepBusSetBuilder g b c
  | .builderNew c => stepBuilderNew g c
  | .nodeNew n name nid count ifs => stepNodeNew g n name nid count ifs
  | .nodeRename n name => stepNodeRename g n name
  | .nodeSetId n nid => stepNodeSetId g n nid
  | .nodeAddIface n i => stepNodeAddIface g n i
  | .nodeRemoveIface n k => stepNodeRemoveIface g n k
  | .msgNew m name mid size => stepMsgNew g m name mid size
  | .msgRename m name => stepMsgRename g m name
  | .msgSetId m mid => stepMsgSetId g m mid
  | .msgSetStatic m c => stepMsgSetStatic g m c
  | .msgResize m k => stepMsgResize g m k
  | .ifaceAddSent i m => stepIfaceAddSent g i m
  | .ifaceRemoveSent i m => stepIfaceRemoveSent g i m
  | .ifaceRemoveAllSent i => stepIfaceRemoveAllSent g i
  | .ifaceAddRecv i m => stepIfaceAddRecv g i m
  | .msgAddReceiver m i => stepMsgAddReceiver g m i
  | .ifaceRemoveRecv i m => stepIfaceRemoveRecv g i m
  | .ifaceRemoveAllRecv i => stepIfaceRemoveAllRecv g i
  | .msgRemoveReceiver m nodeId => stepMsgRemoveReceiver g m nodeId
  | .attrNewStr a => stepAttrNewStr g a
  | .attrNewInt a dflt mn mx => stepAttrNewInt g a dflt mn mx
  | .attrNewEnum a values => stepAttrNewEnum g a values
  | .assign k x a v => stepAssign g k x a v
  | .unassign k x a => stepUnassign g k x a
  | .unassignAll k x => stepUnassignAll g k x
  | .typeNew t => stepTypeNew g t
  | .unitNew u => stepUnitNew g u
  | .sigNew s t => stepSigNew g s t
  | .sigSetType s t => stepSigSetType g s t
  | .sigSetUnit s u => stepSigSetUnit g s u

def run (g : G) (ops : List Op) : G := ops.foldl (fun g o => (step g o).1) g

end Acme.Graph
