/-
Executable model of multiplexer signals (/repo/mux_signal.go) together with the parts of
message.go / signal.go / signal_layout.go they interact with — property C07.

  mux_signal.go : NewMultiplexerSignal, addSignal, removeSignal, verifySignalName,
                  verifySignalSizeAmount, modifySignalSize, verifyGroupID, InsertSignal,
                  RemoveSignal, ClearSignalGroup, ClearAllSignalGroups, ShiftSignalLeft/Right,
                  GetSize, GetGroupCountSize
  signal.go     : verifySizeAmount, modifySize, setParentMsg/setParentMuxSig, GetStartBit,
                  UpdateName, StandardSignal.SetType (as a size change `leaf.size`)
  message.go    : verifySignalName, verifyNestedSignalNames, addSignal/removeSignal (stack walk),
                  AppendSignal, InsertSignal, RemoveSignal, RemoveAllSignals,
                  ShiftSignalLeft/Right, verifySignalSizeAmount, modifySignalSize

The position algebra is `Acme.Layout` applied to the `Slot` view of one layout (a group of a
multiplexer or the top-level layout of a message).  A signal has ONE relative start position
`rel`, shared by every group it is a member of (this is how the Go code works: the groups are
slices of pointers to the same signal object).  Consequences that the model reproduces:

  * start bits are written back as *deltas*, signal by signal, in slice order
    (`applyDeltas`): a signal that occurs twice in one slice is moved twice, a signal that
    lives in several groups is moved once per group that is processed;
  * every group is re-read from the world (`slotsOf`) at the moment the Go code reads it.

Go maps (`set[K,V]`) are modelled by lists without duplicates (`sAdd`/`sDel`, `Names`); their
iteration order is never observable as long as the names registered in one message are
distinct (which `verifyNestedSignalNames` establishes) — see the notes at `msgAddSignal`.

`Out.unsupported` (never executed on the Go side): attaching a signal that already belongs to
another container (re-attachment, D25), inserting a multiplexer into itself or one of its
descendants, unknown container ids.  Inserting a signal again into the SAME multiplexer (for
further groups) is supported, as in the code.

Tree recursions take a fuel argument; `fuelOf w` = number of signals in the world.
-/
import Acme.Core.Layout
import Acme.Core.Arith
import Acme.Core.AMap

namespace Acme.Mux
open Acme.Layout Acme.Arith

inductive Cause where
  | duplicated | notFound | outOfBounds | noSpaceLeft | intersect | negative | zero | nil
  deriving Repr, DecidableEq, Inhabited

inductive Out where
  | ok (vals : List Int)
  | err (c : Cause)
  | unsupported
  | panic
  deriving Repr, DecidableEq, Inhabited

/-- `set[string, EntityID]` -/
abbrev Names := List (String × Nat)

inductive SKind where
  | leaf (size : Int)
  | mux (groupCount groupSize : Int)
  deriving Repr, DecidableEq, Inhabited

/-- the body of a multiplexer signal (all empty for a leaf) -/
structure MuxD where
  /-- `groups[i].signals`: ids in slice order -/
  groups : List (List Nat) := []
  /-- keys of `fixedSignals` -/
  fixed : List Nat := []
  /-- `signalGroupIDs` -/
  groupIds : AMap (List Int) := {}
  /-- keys of `signals` -/
  signals : List Nat := []
  /-- `signalNames` -/
  signalNames : Names := []
  deriving Repr, Inhabited

structure SigE where
  name : String
  kind : SKind
  mx : MuxD := {}
  rel : Int := 0
  parentMux : Option Nat := none
  parentMsg : Option Nat := none
  deriving Repr, Inhabited

structure MsgE where
  sizeByte : Int
  cap : Int
  /-- `signalLayout.signals`: top-level ids in slice order -/
  layout : List Nat := []
  /-- keys of `signals` (all depths) -/
  signals : List Nat := []
  signalNames : Names := []
  deriving Repr, Inhabited

structure MW where
  sigs : AMap SigE := {}
  msgs : AMap MsgE := {}
  deriving Repr, Inhabited

inductive Op where
  | sigLeaf (s : Nat) (name : String) (size : Int)
  | sigMux (s : Nat) (name : String) (gc gs : Int)
  | msgNew (m : Nat) (sizeByte : Int)
  | msgApp (m s : Nat)
  | msgIns (m s : Nat) (st : Int)
  | msgRm (m s : Nat)
  | msgClear (m : Nat)
  | msgShl (m s : Nat) (a : Int)
  | msgShr (m s : Nat) (a : Int)
  | muxIns (x s : Nat) (st : Int) (gids : List Int)
  | muxRm (x s : Nat)
  | muxClear (x : Nat) (g : Int)
  | muxClearAll (x : Nat)
  | muxShl (x s : Nat) (a : Int)
  | muxShr (x s : Nat) (a : Int)
  | leafSize (s : Nat) (n : Int)
  | sigName (s : Nat) (name : String)
  deriving Repr, DecidableEq, Inhabited

/-! ### small containers -/

def nmGet (nm : Names) (k : String) : Option Nat :=
  match nm.find? (fun p => p.1 = k) with
  | some p => some p.2
  | none => none

def nmHas (nm : Names) (k : String) : Bool := nm.any (fun p => p.1 = k)
def nmDel (nm : Names) (k : String) : Names := nm.filter (fun p => p.1 ≠ k)
def nmSet (nm : Names) (k : String) (v : Nat) : Names := (k, v) :: nmDel nm k

def nmSetAll (nm : Names) : Names → Names
  | [] => nm
  | p :: rest => nmSetAll (nmSet nm p.1 p.2) rest

def nmDelAll (nm : Names) : List String → Names
  | [] => nm
  | k :: rest => nmDelAll (nmDel nm k) rest

def sAdd (l : List Nat) (x : Nat) : List Nat := if l.contains x then l else x :: l
def sDel (l : List Nat) (x : Nat) : List Nat := l.filter (fun y => y ≠ x)

def sAddAll (l : List Nat) : List Nat → List Nat
  | [] => l
  | x :: rest => sAddAll (sAdd l x) rest

def sDelAll (l : List Nat) : List Nat → List Nat
  | [] => l
  | x :: rest => sDelAll (sDel l x) rest

/-- insertion into an ascending list -/
def insInt (a : Int) : List Int → List Int
  | [] => [a]
  | b :: rest => if a ≤ b then a :: b :: rest else b :: insInt a rest

/-- `slices.Sort` on ints (ascending; insertion sort, so that it evaluates by reduction) -/
def sortInts : List Int → List Int
  | [] => []
  | a :: rest => insInt a (sortInts rest)

/-- `slices.Compact`: adjacent duplicates are dropped -/
def compactAdj : List Int → List Int
  | [] => []
  | [a] => [a]
  | a :: b :: rest => if a = b then compactAdj (b :: rest) else a :: compactAdj (b :: rest)

def nodupStr : List String → Bool
  | [] => true
  | a :: rest => !rest.contains a && nodupStr rest

/-! ### views -/

def fuelOf (w : MW) : Nat := w.sigs.l.length

/-- `Signal.GetSize()` -/
def sigSize (e : SigE) : Int :=
  match e.kind with
  | .leaf z => z
  | .mux gc gs => gs + muxSelWidth gc

def selWidthOf (e : SigE) : Int :=
  match e.kind with
  | .leaf _ => 0
  | .mux gc _ => muxSelWidth gc

/-- the `Slot` view of a slice of signals (missing ids are skipped: never on reachable worlds) -/
def slotsOf (w : MW) : List Nat → List Slot
  | [] => []
  | i :: rest =>
    match w.sigs.get i with
    | some e => ⟨i, e.rel, sigSize e⟩ :: slotsOf w rest
    | none => slotsOf w rest

def nameOf (w : MW) (i : Nat) : String :=
  match w.sigs.get i with | some e => e.name | none => ""

/-- keys of `muxSig.signals` (empty for a leaf) -/
def childrenOf (w : MW) (i : Nat) : List Nat :=
  match w.sigs.get i with
  | some e => match e.kind with | .mux _ _ => e.mx.signals | .leaf _ => []
  | none => []

/-- `muxSig.signalNames` (empty for a leaf) -/
def childNamesOf (w : MW) (i : Nat) : Names :=
  match w.sigs.get i with
  | some e => match e.kind with | .mux _ _ => e.mx.signalNames | .leaf _ => []
  | none => []

/-- the signals nested in `i` at any depth (the stack walk of `Message.addSignal`) -/
def descendants (w : MW) : Nat → Nat → List Nat
  | 0, _ => []
  | fuel + 1, i => (childrenOf w i).flatMap (fun c => c :: descendants w fuel c)

/-- is `a` equal to `x` or one of its ancestors (through `parentMuxSig`)?  Running out of
    fuel (a cycle) counts as yes. -/
def selfOrAncestor (w : MW) (a : Nat) : Nat → Nat → Bool
  | 0, _ => true
  | fuel + 1, x =>
    if x = a then true
    else match w.sigs.get x with
      | some e => match e.parentMux with
        | some p => selfOrAncestor w a fuel p
        | none => false
      | none => false

/-- `Signal.GetStartBit()` -/
def absStart (w : MW) : Nat → Nat → Int
  | 0, _ => 0
  | fuel + 1, i =>
    match w.sigs.get i with
    | none => 0
    | some e =>
      match e.parentMux with
      | none => e.rel
      | some p =>
        match w.sigs.get p with
        | none => e.rel
        | some pe => absStart w fuel p + selWidthOf pe + e.rel

/-! ### writing positions back -/

/-- `sig.setRelativeStartPos(v)` -/
def setRel (sigs : AMap SigE) (i : Nat) (v : Int) : AMap SigE :=
  match sigs.get i with
  | some e => sigs.set i { e with rel := v }
  | none => sigs

/-- The loops of signal_layout.go update `tmpSig.relStartPos` signal by signal, reading the
    live value.  `old`/`new` are the slot views of one slice before/after a `Layout`
    function; the difference is applied to the signals in slice order. -/
def applyDeltas (sigs : AMap SigE) : List Slot → List Slot → AMap SigE
  | o :: os, n :: ns =>
    match sigs.get o.id with
    | some e => applyDeltas (sigs.set o.id { e with rel := e.rel + (n.start - o.start) }) os ns
    | none => applyDeltas sigs os ns
  | _, _ => sigs

/-- `generateFilters` shifts a mask by `startPos % 8` (Go remainder: negative for a negative,
    unaligned start) and by the bits left for the last byte: a negative shift count is a
    run-time panic.  Start positions are never negative in a well-formed layout; they become
    negative when a follower that lives in several groups is pulled once per group (D73).
    The condition does not depend on the byte order. -/
def slotPanics (s : Slot) : Bool :=
  let off := s.start.tmod 8
  let f := s.start.tdiv 8
  let l := (s.start + s.size - 1).tdiv 8
  if off < 0 then true
  else if f = l then false
  else s.size - (8 - off) - 8 * (l - f - 1) < 0

/-- does `generateFilters` panic on the slice `ids`? -/
def genPanics (w : MW) (ids : List Nat) : Bool := (slotsOf w ids).any slotPanics

def setParentMsgs (sigs : AMap SigE) (p : Option Nat) : List Nat → AMap SigE
  | [] => sigs
  | i :: rest =>
    match sigs.get i with
    | some e => setParentMsgs (sigs.set i { e with parentMsg := p }) p rest
    | none => setParentMsgs sigs p rest

def lerrCause : LErr → Cause
  | .negative => .negative | .zero => .zero | .outOfBounds => .outOfBounds
  | .noSpaceLeft => .noSpaceLeft | .intersect => .intersect
  | .tooSmall => .nil | .panic => .nil   -- never produced here

def outOfLErr : LErr → Out
  | .panic => .panic
  | e => .err (lerrCause e)

/-! ### the message registry (`Message.addSignal` / `removeSignal`) -/

/-- `Message.verifyNestedSignalNames(sig)`: the names of the signals nested in `s` are not
    registered in the message and are distinct from each other and from the name of `s`.
    (Every failure has the cause "duplicated": the map order only selects the reported name.) -/
def nestedNamesOk (w : MW) (msg : MsgE) (s : Nat) : Bool :=
  let ns := (descendants w (fuelOf w) s).map (nameOf w)
  ns.all (fun n => !nmHas msg.signalNames n) && nodupStr (nameOf w s :: ns)

/-- `Message.addSignal(sig)`: registers `s` and everything nested in it.  The order in which
    the Go maps are walked is not observable when the registered names are distinct. -/
def msgAddSignal (w : MW) (m s : Nat) : MW :=
  match w.msgs.get m with
  | none => w
  | some msg =>
    let all := s :: descendants w (fuelOf w) s
    let names := all.flatMap (childNamesOf w)
    let msg' := { msg with signals := sAddAll msg.signals all,
                           signalNames := nmSetAll (nmSet msg.signalNames (nameOf w s) s) names }
    { sigs := setParentMsgs w.sigs (some m) all, msgs := w.msgs.set m msg' }

/-- `Message.removeSignal(sig)` -/
def msgRemoveSignal (w : MW) (m s : Nat) : MW :=
  match w.msgs.get m with
  | none => w
  | some msg =>
    let all := s :: descendants w (fuelOf w) s
    let names := (all.flatMap (childNamesOf w)).map (·.1)
    let msg' := { msg with signals := sDelAll msg.signals all,
                           signalNames := nmDelAll (nmDel msg.signalNames (nameOf w s)) names }
    { sigs := setParentMsgs w.sigs none all, msgs := w.msgs.set m msg' }

/-! ### the multiplexer registry (`MultiplexerSignal.addSignal` / `removeSignal`) -/

def updMux (w : MW) (x : Nat) (f : MuxD → MuxD) : MW :=
  match w.sigs.get x with
  | some xe => { w with sigs := w.sigs.set x { xe with mx := f xe.mx } }
  | none => w

def setParentMux (w : MW) (s : Nat) (p : Option Nat) : MW :=
  match w.sigs.get s with
  | some e => { w with sigs := w.sigs.set s { e with parentMux := p } }
  | none => w

def parentMsgOf (w : MW) (x : Nat) : Option Nat :=
  match w.sigs.get x with | some e => e.parentMsg | none => none

/-- `ms.addSignal(sig)` -/
def muxAddSignal (w : MW) (x s : Nat) : MW :=
  let nm := nameOf w s
  let w1 := updMux w x (fun d => { d with signals := sAdd d.signals s, signalNames := nmSet d.signalNames nm s })
  let w2 := setParentMux w1 s (some x)
  match parentMsgOf w2 x with
  | some m => msgAddSignal w2 m s
  | none => w2

/-- `ms.removeSignal(sig)` -/
def muxRemoveSignal (w : MW) (x s : Nat) : MW :=
  let nm := nameOf w s
  let w1 := updMux w x (fun d => { d with signals := sDel d.signals s, signalNames := nmDel d.signalNames nm })
  let w2 := setParentMux w1 s none
  match parentMsgOf w2 x with
  | some m => msgRemoveSignal w2 m s
  | none => w2

/-- `ms.verifySignalName(sigID, name)` (every failure: "duplicated") -/
def verifyMuxName (w : MW) (xe : SigE) (sid : Nat) (name : String) : Bool :=
  match nmGet xe.mx.signalNames name with
  | some id => id = sid
  | none =>
    match xe.parentMsg with
    | none => true
    | some m =>
      match w.msgs.get m with
      | some msg => !nmHas msg.signalNames name
      | none => true

/-! ### groups -/

def groupOf (w : MW) (x : Nat) (g : Nat) : List Nat :=
  match w.sigs.get x with
  | some xe => xe.mx.groups.getD g []
  | none => []

/-- `ms.groups[g].insert(sig, st)` (no verification): placement before the first signal that
    starts after `st`, then `sig.setRelativeStartPos(st)` -/
def groupInsert (w : MW) (x g s : Nat) (st : Int) : MW :=
  match w.sigs.get s with
  | none => w
  | some se =>
    let grp' := (Layout.insert (slotsOf w (groupOf w x g)) s (sigSize se) st).map (·.id)
    let w1 := updMux w x (fun d => { d with groups := d.groups.set g grp' })
    { w1 with sigs := setRel w1.sigs s st }

/-- a loop of `ms.groups[g].insert(sig, st)`; every insert ends with `generateFilters`
    (`true` = it panicked: the groups so far hold the signal, nothing else is updated) -/
def insertMany (w : MW) (x s : Nat) (st : Int) : List Nat → MW × Bool
  | [] => (w, false)
  | g :: rest =>
    let w1 := groupInsert w x g s st
    if genPanics w1 (groupOf w1 x g) then (w1, true) else insertMany w1 x s st rest

/-- `ms.groups[g].remove(sigID)` -/
def groupRemove (w : MW) (x g s : Nat) : MW :=
  updMux w x (fun d => { d with groups := d.groups.set g (sDel (d.groups.getD g []) s) })

/-- a loop of `ms.groups[g].remove(sigID)`, each followed by `generateFilters` -/
def removeMany (w : MW) (x s : Nat) : List Nat → MW × Bool
  | [] => (w, false)
  | g :: rest =>
    let w1 := groupRemove w x g s
    if genPanics w1 (groupOf w1 x g) then (w1, true) else removeMany w1 x s rest

/-- first loop of `InsertSignal` without group ids -/
def verifyFixed (w : MW) (gs : Int) (groups : List (List Nat)) (sz st : Int) : List Nat → Except Out Unit
  | [] => .ok ()
  | g :: rest =>
    match verifyInsert gs (slotsOf w (groups.getD g [])) sz st with
    | .error e => .error (outOfLErr e)
    | .ok () => verifyFixed w gs groups sz st rest

/-- first loop of `InsertSignal` with group ids: `verifyGroupID`, `slices.Contains(prevGroupIDs, gid)`,
    `verifyBeforeInsert`, group id by group id -/
def verifyIds (w : MW) (gc gs : Int) (groups : List (List Nat)) (prev : List Int) (sz st : Int) :
    List Int → Except Out Unit
  | [] => .ok ()
  | g :: rest =>
    if g < 0 then .error (.err .negative)
    else if g ≥ gc then .error (.err .outOfBounds)
    else if prev.contains g then .error (.err .duplicated)
    else match verifyInsert gs (slotsOf w (groups.getD g.toNat [])) sz st with
      | .error e => .error (outOfLErr e)
      | .ok () => verifyIds w gc gs groups prev sz st rest

def allGroups (gc : Int) : List Nat := List.range gc.toNat

/-- the signal already belongs to a container other than multiplexer `x` (re-attachment, D25) -/
def insForeign (x : Nat) (se : SigE) : Bool :=
  match se.parentMux with
  | some p => p ≠ x
  | none => se.parentMsg.isSome

/-- `ms.parentMsg.verifyNestedSignalNames(signal)`, only for a signal that is new to an
    attached multiplexer -/
def insNestedOk (w : MW) (xe : SigE) (s : Nat) : Bool :=
  match xe.parentMsg with
  | none => true
  | some m =>
    if xe.mx.signals.contains s then true
    else match w.msgs.get m with
      | some msg => nestedNamesOk w msg s
      | none => true

/-- `signalGroupIDs[sig]` before the insertion (`prevGroupIDs`) -/
def prevIds (xe : SigE) (s : Nat) : List Int :=
  match xe.mx.groupIds.get s with | some l => l | none => []

/-- the verification loops of `InsertSignal`: the indexes of the target groups, or the refusal -/
def insVerify (w : MW) (xe : SigE) (gc gs : Int) (s : Nat) (sz st : Int) (gids : List Int) : Except Out (List Nat) :=
  if gids.isEmpty then
    match verifyFixed w gs xe.mx.groups sz st (allGroups gc) with
    | .error o => .error o
    | .ok () => .ok (allGroups gc)
  else
    match verifyIds w gc gs xe.mx.groups (prevIds xe s) sz st (compactAdj (sortInts gids)) with
    | .error o => .error o
    | .ok () => .ok ((compactAdj (sortInts gids)).map Int.toNat)

/-- the bookkeeping of `InsertSignal`: `fixedSignals.add` / `signalGroupIDs.add(sorted prev ++ ids)` -/
def insBook (xe : SigE) (s : Nat) (gids : List Int) (d : MuxD) : MuxD :=
  if gids.isEmpty then { d with fixed := sAdd d.fixed s }
  else { d with groupIds := d.groupIds.set s (sortInts (prevIds xe s ++ compactAdj (sortInts gids))) }

/-- `MultiplexerSignal.InsertSignal(signal, startBit, groupIDs...)` -/
def doMuxIns (w : MW) (x s : Nat) (st : Int) (gids : List Int) : MW × Out :=
  match w.sigs.get x with
  | none => (w, .unsupported)
  | some xe =>
    match xe.kind with
    | .leaf _ => (w, .unsupported)
    | .mux gc gs =>
      match w.sigs.get s with
      | none => (w, .err .nil)
      | some se =>
        if insForeign x se || selfOrAncestor w s (fuelOf w + 1) x then (w, .unsupported)
        else if !verifyMuxName w xe s se.name then (w, .err .duplicated)
        else if !insNestedOk w xe s then (w, .err .duplicated)
        else
          match insVerify w xe gc gs s (sigSize se) st gids with
          | .error o => (w, o)
          | .ok ks =>
            match insertMany w x s st ks with
            | (w1, true) => (w1, .panic)
            | (w1, false) => (muxAddSignal (updMux w1 x (insBook xe s gids)) x s, .ok [])

/-- `MultiplexerSignal.RemoveSignal(id)`; `none` = the `panic(err)` branch -/
def muxRemove (w : MW) (x s : Nat) : Option (MW × Out) :=
  match w.sigs.get x with
  | none => some (w, .unsupported)
  | some xe =>
    match xe.kind with
    | .leaf _ => some (w, .unsupported)
    | .mux gc _ =>
      if !xe.mx.signals.contains s then some (w, .err .notFound)
      else if xe.mx.fixed.contains s then
        match removeMany w x s (allGroups gc) with
        | (w1, true) => some (w1, .panic)
        | (w1, false) =>
          let w2 := muxRemoveSignal w1 x s
          some (updMux w2 x (fun d => { d with fixed := sDel d.fixed s }), .ok [])
      else
        match xe.mx.groupIds.get s with
        | none => none
        | some ids =>
          match removeMany w x s (ids.map Int.toNat) with
          | (w1, true) => some (w1, .panic)
          | (w1, false) =>
            let w2 := muxRemoveSignal w1 x s
            some (updMux w2 x (fun d => { d with groupIds := d.groupIds.erase s }), .ok [])

def doMuxRm (w : MW) (x s : Nat) : MW × Out :=
  match muxRemove w x s with
  | some r => r
  | none => (w, .panic)

/-- the loop of `ClearSignalGroup` over the cloned slice; `true` = `panic(err)` -/
def clearLoop (w : MW) (x : Nat) (g : Int) : List Nat → MW × Bool
  | [] => (w, false)
  | s :: rest =>
    match w.sigs.get x with
    | none => (w, false)
    | some xe =>
      if xe.mx.fixed.contains s then clearLoop w x g rest
      else
        let w1 := groupRemove w x g.toNat s
        if genPanics w1 (groupOf w1 x g.toNat) then (w1, true)
        else match xe.mx.groupIds.get s with
        | none => (w1, true)
        | some ids =>
          if ids.length = 1 then
            let w2 := muxRemoveSignal w1 x s
            clearLoop (updMux w2 x (fun d => { d with groupIds := d.groupIds.erase s })) x g rest
          else
            clearLoop (updMux w1 x (fun d => { d with groupIds := d.groupIds.set s (ids.filter (fun i => i ≠ g)) })) x g rest

/-- `MultiplexerSignal.ClearSignalGroup(groupID)` -/
def doMuxClear (w : MW) (x : Nat) (g : Int) : MW × Out :=
  match w.sigs.get x with
  | none => (w, .unsupported)
  | some xe =>
    match xe.kind with
    | .leaf _ => (w, .unsupported)
    | .mux gc _ =>
      if g < 0 then (w, .err .negative)
      else if g ≥ gc then (w, .err .outOfBounds)
      else
        match clearLoop w x g (xe.mx.groups.getD g.toNat []) with
        | (w', true) => (w', .panic)
        | (w', false) => (w', .ok [])

def removeChildren (w : MW) (x : Nat) : List Nat → MW
  | [] => w
  | s :: rest => removeChildren (muxRemoveSignal w x s) x rest

/-- `MultiplexerSignal.ClearAllSignalGroups()` -/
def doMuxClearAll (w : MW) (x : Nat) : MW × Out :=
  match w.sigs.get x with
  | none => (w, .unsupported)
  | some xe =>
    match xe.kind with
    | .leaf _ => (w, .unsupported)
    | .mux _ _ =>
      let w1 := removeChildren w x xe.mx.signals
      (updMux w1 x (fun d => { d with groups := d.groups.map (fun _ => []), groupIds := {}, fixed := [] }), .ok [])

/-- `sl.shiftLeft/shiftRight(id, amount)` on the slice `ids` of a layout of size `cap`;
    `generateFilters` runs whenever `amount > 0` -/
def shiftLayout (w : MW) (left : Bool) (cap : Int) (ids : List Nat) (s : Nat) (a : Int) : MW × Out :=
  if a ≤ 0 then (w, .ok [0])
  else
    let slots := slotsOf w ids
    let (slots', d) := if left then shiftLeft slots s a else shiftRight cap slots s a
    let w1 : MW := { w with sigs := applyDeltas w.sigs slots slots' }
    if genPanics w1 ids then (w1, .panic) else (w1, .ok [d])

/-- `MultiplexerSignal.ShiftSignalLeft/Right(id, amount)` -/
def doMuxShift (w : MW) (left : Bool) (x s : Nat) (a : Int) : MW × Out :=
  match w.sigs.get x with
  | none => (w, .unsupported)
  | some xe =>
    match xe.kind with
    | .leaf _ => (w, .unsupported)
    | .mux _ gs =>
      match xe.mx.groupIds.get s with
      | none => (w, .ok [0])
      | some ids =>
        if ids.length > 1 then (w, .ok [0])
        else match ids with
          | [] => (w, .panic)
          | g :: _ => shiftLayout w left gs (xe.mx.groups.getD g.toNat []) s a

/-! ### size changes (`signal.verifySizeAmount`, `signal.modifySize`) -/

/-- the groups a size change of child `s` is fanned out to; `none` = `panic(err)` -/
def targetGroups (xe : SigE) (gc : Int) (s : Nat) : Option (List Nat) :=
  if xe.mx.fixed.contains s then some (allGroups gc)
  else match xe.mx.groupIds.get s with
    | some ids => some (ids.map Int.toNat)
    | none => none

def verifySizeLoop (w : MW) (gs : Int) (groups : List (List Nat)) (s : Nat) (sz amount : Int) :
    List Nat → Except LErr Unit
  | [] => .ok ()
  | g :: rest =>
    let r := if amount > 0 then verifyGrow gs (slotsOf w (groups.getD g [])) s amount
             else verifyShrink sz (-amount)
    match r with
    | .error e => .error e
    | .ok () => verifySizeLoop w gs groups s sz amount rest

/-- `ms.verifySignalSizeAmount(sigID, amount)` -/
def muxVerifySize (w : MW) (x s : Nat) (sz amount : Int) : Except Out Unit :=
  if amount = 0 then .ok ()
  else match w.sigs.get x with
    | none => .ok ()
    | some xe =>
      match xe.kind with
      | .leaf _ => .ok ()
      | .mux gc gs =>
        if !xe.mx.signals.contains s then .error (.err .notFound)
        else match targetGroups xe gc s with
          | none => .error .panic
          | some gl =>
            match verifySizeLoop w gs xe.mx.groups s sz amount gl with
            | .error e => .error (outOfLErr e)
            | .ok () => .ok ()

/-- `sl.modifyStartBitsOnGrow/OnShrink(sig, amount)` (`amount ≠ 0`, signed) on the slice `ids`
    of a layout of size `cap`.  `generateFilters` runs at the end, except on the early
    `return nil` of the grow case (the signal is the last one of the slice). -/
def modifyLayout (w : MW) (cap : Int) (ids : List Nat) (s : Nat) (sz amount : Int) : MW × Option LErr :=
  let slots := slotsOf w ids
  if amount > 0 then
    match growStarts cap slots s amount with
    | .error e => (w, some e)
    | .ok slots' =>
      let w1 : MW := { w with sigs := applyDeltas w.sigs slots slots' }
      match growSpaces s slots 0 [] 0 0 false with
      | none => (w1, none)
      | some _ => if genPanics w1 ids then (w1, some .panic) else (w1, none)
  else
    match shrinkStarts slots s sz (-amount) with
    | .error e => (w, some e)
    | .ok slots' =>
      let w1 : MW := { w with sigs := applyDeltas w.sigs slots slots' }
      if genPanics w1 ids then (w1, some .panic) else (w1, none)

/-- the loop of `ms.modifySignalSize`: group after group, each one re-read from the world.
    A failure leaves the earlier groups modified. -/
def modifySizeLoop (w : MW) (x : Nat) (gs : Int) (s : Nat) (sz amount : Int) : List Nat → MW × Option LErr
  | [] => (w, none)
  | g :: rest =>
    match modifyLayout w gs (groupOf w x g) s sz amount with
    | (w1, some e) => (w1, some e)
    | (w1, none) => modifySizeLoop w1 x gs s sz amount rest

/-- `ms.modifySignalSize(sigID, amount)` -/
def muxModifySize (w : MW) (x s : Nat) (sz amount : Int) : MW × Option Out :=
  if amount = 0 then (w, none)
  else match w.sigs.get x with
    | none => (w, none)
    | some xe =>
      match xe.kind with
      | .leaf _ => (w, none)
      | .mux gc gs =>
        if !xe.mx.signals.contains s then (w, some .panic)
        else match targetGroups xe gc s with
          | none => (w, some .panic)
          | some gl =>
            match modifySizeLoop w x gs s sz amount gl with
            | (w', some e) => (w', some (outOfLErr e))
            | (w', none) => (w', none)

/-- `m.verifySignalSizeAmount(sigID, amount)` -/
def msgVerifySize (w : MW) (m s : Nat) (sz amount : Int) : Except Out Unit :=
  if amount = 0 then .ok ()
  else match w.msgs.get m with
    | none => .ok ()
    | some msg =>
      if !msg.signals.contains s then .error (.err .notFound)
      else
        let r := if amount > 0 then verifyGrow msg.cap (slotsOf w msg.layout) s amount
                 else verifyShrink sz (-amount)
        match r with
        | .error e => .error (outOfLErr e)
        | .ok () => .ok ()

/-- `m.modifySignalSize(sigID, amount)` -/
def msgModifySize (w : MW) (m s : Nat) (sz amount : Int) : MW × Option Out :=
  if amount = 0 then (w, none)
  else match w.msgs.get m with
    | none => (w, none)
    | some msg =>
      if !msg.signals.contains s then (w, some (.err .notFound))
      else
        match modifyLayout w msg.cap msg.layout s sz amount with
        | (w1, some e) => (w1, some (outOfLErr e))
        | (w1, none) => (w1, none)

/-- `signal.verifySizeAmount(amount)`: in the multiplexer, else in the message, else nothing -/
def sizeVerify (w : MW) (se : SigE) (s : Nat) (z amount : Int) : Except Out Unit :=
  match se.parentMux with
  | some x => muxVerifySize w x s z amount
  | none => match se.parentMsg with
    | some m => msgVerifySize w m s z amount
    | none => .ok ()

/-- the dispatch of `signal.modifySize(amount)` after the verification -/
def sizeModify (w : MW) (se : SigE) (s : Nat) (z amount : Int) : MW × Option Out :=
  match se.parentMux with
  | some x => muxModifySize w x s z amount
  | none => match se.parentMsg with
    | some m => msgModifySize w m s z amount
    | none => (w, none)

/-- `ss.typ = typ` -/
def setLeaf (w : MW) (s : Nat) (n : Int) : MW :=
  match w.sigs.get s with
  | some se => { w with sigs := w.sigs.set s { se with kind := .leaf n } }
  | none => w

/-- `ss.regenerateFilters()`: the top-level layout of the owning message -/
def regenPanics (w : MW) (pm : Option Nat) : Bool :=
  match pm with
  | none => false
  | some m => match w.msgs.get m with
    | none => false
    | some msg => genPanics w msg.layout

/-- `StandardSignal.SetType(typ)` with `typ.size = n` (the type constructor refuses `n ≤ 0`) -/
def doLeafSize (w : MW) (s : Nat) (n : Int) : MW × Out :=
  match w.sigs.get s with
  | none => (w, .unsupported)
  | some se =>
    match se.kind with
    | .mux _ _ => (w, .unsupported)
    | .leaf z =>
      if n < 0 then (w, .err .negative)
      else if n = 0 then (w, .err .zero)
      else
        match sizeVerify w se s z (n - z) with
        | .error o => (w, o)
        | .ok () =>
          match sizeModify w se s z (n - z) with
          | (w1, some o) => (w1, o)
          | (w1, none) =>
            let w2 := setLeaf w1 s n
            if regenPanics w2 (parentMsgOf w1 s) then (w2, .panic) else (w2, .ok [])

/-! ### names -/

/-- `s.parentMuxSig.verifySignalName(sigID, newName)` when the signal has a parent multiplexer -/
def nameMuxOk (w : MW) (se : SigE) (s : Nat) (name : String) : Bool :=
  match se.parentMux with
  | some x => match w.sigs.get x with
    | some xe => verifyMuxName w xe s name
    | none => true
  | none => true

/-- `s.parentMsg.verifySignalName(newName)` when the signal has a parent message -/
def nameMsgOk (w : MW) (se : SigE) (name : String) : Bool :=
  match se.parentMsg with
  | some m => match w.msgs.get m with
    | some msg => !nmHas msg.signalNames name
    | none => true
  | none => true

/-- the updates of an accepted `UpdateName`: message registry, multiplexer registry, name -/
def renamed (w : MW) (s : Nat) (se : SigE) (name : String) : MW :=
  let rn := fun (nm : Names) => nmSet (nmDel nm se.name) name s
  let msgs1 := match se.parentMsg with
    | some m => match w.msgs.get m with
      | some msg => w.msgs.set m { msg with signalNames := rn msg.signalNames }
      | none => w.msgs
    | none => w.msgs
  let w1 : MW := { w with msgs := msgs1 }
  let w2 := match se.parentMux with
    | some x => updMux w1 x (fun d => { d with signalNames := rn d.signalNames })
    | none => w1
  match w2.sigs.get s with
  | some se2 => { w2 with sigs := w2.sigs.set s { se2 with name := name } }
  | none => w2

/-- `signal.UpdateName(newName)` -/
def doSigName (w : MW) (s : Nat) (name : String) : MW × Out :=
  match w.sigs.get s with
  | none => (w, .unsupported)
  | some se =>
    if se.name = name then (w, .ok [])
    else if !nameMuxOk w se s name then (w, .err .duplicated)
    else if !nameMsgOk w se name then (w, .err .duplicated)
    else (renamed w s se name, .ok [])

/-! ### messages -/

/-- placement in the top-level layout (`st = none`: append): the start bit and the new slice,
    or the refusal of `verifyBeforeAppend` / `verifyBeforeInsert` -/
def msgPlace (w : MW) (msg : MsgE) (s : Nat) (sz : Int) : Option Int → Except LErr (Int × List Nat)
  | none =>
    match verifyAppend msg.cap (slotsOf w msg.layout) sz with
    | .error e => .error e
    | .ok () => .ok (lastEnd (slotsOf w msg.layout), msg.layout ++ [s])
  | some st =>
    match verifyInsert msg.cap (slotsOf w msg.layout) sz st with
    | .error e => .error e
    | .ok () => .ok (st, (Layout.insert (slotsOf w msg.layout) s sz st).map (·.id))

/-- `Message.AppendSignal` / `Message.InsertSignal` (`st = none`: append) -/
def doMsgAttach (w : MW) (m s : Nat) (st : Option Int) : MW × Out :=
  match w.msgs.get m with
  | none => (w, .unsupported)
  | some msg =>
    match w.sigs.get s with
    | none => (w, .err .nil)
    | some se =>
      if se.parentMsg.isSome || se.parentMux.isSome then (w, .unsupported)
      else if nmHas msg.signalNames se.name then (w, .err .duplicated)
      else if !nestedNamesOk w msg s then (w, .err .duplicated)
      else
        match msgPlace w msg s (sigSize se) st with
        | .error e => (w, outOfLErr e)
        | .ok (r, lay) =>
          let w1 : MW := { sigs := setRel w.sigs s r, msgs := w.msgs.set m { msg with layout := lay } }
          if genPanics w1 lay then (w1, .panic) else (msgAddSignal w1 m s, .ok [])

/-- the updates of `Message.RemoveSignal` for a top-level signal: `m.removeSignal(sig)`, then
    the slice of `m.signalLayout.remove(id)` -/
def msgDetachTop (w : MW) (m s : Nat) : MW :=
  let w1 := msgRemoveSignal w m s
  match w1.msgs.get m with
  | some msg1 => { w1 with msgs := w1.msgs.set m { msg1 with layout := sDel msg1.layout s } }
  | none => w1

def layoutOf (w : MW) (m : Nat) : List Nat :=
  match w.msgs.get m with
  | some msg => msg.layout
  | none => []

/-- `Message.RemoveSignal(id)`: a nested signal is removed through its multiplexer -/
def doMsgRm (w : MW) (m s : Nat) : MW × Out :=
  match w.msgs.get m with
  | none => (w, .unsupported)
  | some msg =>
    if !msg.signals.contains s then (w, .err .notFound)
    else match w.sigs.get s with
      | none => (w, .err .notFound)
      | some se =>
        match se.parentMux with
        | some x => doMuxRm w x s
        | none =>
          let w2 := msgDetachTop w m s
          if genPanics w2 (layoutOf w2 m) then (w2, .panic) else (w2, .ok [])

/-- `Message.RemoveAllSignals()` -/
def doMsgClear (w : MW) (m : Nat) : MW × Out :=
  match w.msgs.get m with
  | none => (w, .unsupported)
  | some msg =>
    ({ sigs := setParentMsgs w.sigs none msg.signals,
       msgs := w.msgs.set m { msg with layout := [], signals := [], signalNames := [] } }, .ok [])

/-- `Message.ShiftSignalLeft/Right(id, amount)` -/
def doMsgShift (w : MW) (left : Bool) (m s : Nat) (a : Int) : MW × Out :=
  match w.msgs.get m with
  | none => (w, .unsupported)
  | some msg =>
    if !msg.signals.contains s then (w, .ok [0])
    else shiftLayout w left msg.cap msg.layout s a

/-! ### the step function -/

def step (w : MW) : Op → MW × Out
  | .sigLeaf s name size =>
    if (w.sigs.get s).isSome then (w, .unsupported)
    else if size < 0 then (w, .err .negative)
    else if size = 0 then (w, .err .zero)
    else ({ w with sigs := w.sigs.set s { name := name, kind := .leaf size } }, .ok [])
  | .sigMux s name gc gs =>
    if (w.sigs.get s).isSome then (w, .unsupported)
    else if gc = 0 then (w, .err .zero)
    else if gc < 0 then (w, .err .negative)
    else if gs = 0 then (w, .err .zero)
    else if gs < 0 then (w, .err .negative)
    else ({ w with sigs := w.sigs.set s { name := name, kind := .mux gc gs,
                                          mx := { groups := List.replicate gc.toNat [] } } }, .ok [])
  | .msgNew m sizeByte =>
    if (w.msgs.get m).isSome then (w, .unsupported)
    else ({ w with msgs := w.msgs.set m { sizeByte := sizeByte, cap := sizeByte * 8 } }, .ok [])
  | .msgApp m s => doMsgAttach w m s none
  | .msgIns m s st => doMsgAttach w m s (some st)
  | .msgRm m s => doMsgRm w m s
  | .msgClear m => doMsgClear w m
  | .msgShl m s a => doMsgShift w true m s a
  | .msgShr m s a => doMsgShift w false m s a
  | .muxIns x s st gids => doMuxIns w x s st gids
  | .muxRm x s => doMuxRm w x s
  | .muxClear x g => doMuxClear w x g
  | .muxClearAll x => doMuxClearAll w x
  | .muxShl x s a => doMuxShift w true x s a
  | .muxShr x s a => doMuxShift w false x s a
  | .leafSize s n => doLeafSize w s n
  | .sigName s name => doSigName w s name

def run (w : MW) (ops : List Op) : MW := ops.foldl (fun w o => (step w o).1) w

end Acme.Mux
