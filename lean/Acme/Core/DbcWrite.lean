/-
`writeToks`: the token sequence that the real scanner (`scanner.go`) produces from the text
that `dbc.Write` (`writer.go`) emits, one Lean function per writer function.

Scope: names are words `[A-Za-z][A-Za-z0-9_-]*` (classified by `classifyWord`: ident, keyword or
mux indicator, exactly as `scanText` does), strings do not contain `"` or NUL.  Within that
scope the harness stream `dbc` checks `writeToks` against `VerifScan(Write(f))` token by token.

How the writer's glued texts tokenise (scanner.go):
* `0|8@1+`   → number `0`, `|`, number `8`, `@`, number `1`, punct `+`
  (a sign that is not followed by a digit is a punct);
* `-5`       → ONE number token; `(1,-5)` → `(`, `1`, `,`, `-5`, `)`;
* `3-7`      → one numberRange token;
* `m5`, `m5M`, `M` → mux indicator tokens;
* `NaN`, `+Inf`, `-Inf` (non-finite floats) → ident `NaN`, punct `+`/`-` followed by ident `Inf`.
-/
import Acme.Core.Dbc

namespace Acme.Dbc

open Token

/-- tokens of a `formatDouble` text -/
def doubleToks (x : String) : List Token :=
  if x = "NaN" then [classifyWord "NaN"]
  else if x = "+Inf" then [Token.p .plus, classifyWord "Inf"]
  else if x = "-Inf" then [Token.p .minus, classifyWord "Inf"]
  else [.number (formatDouble x)]

def uintTok (n : Nat) : Token := .number (formatUint n)

def intTok (i : Int) : Token := .number (formatInt i)

def hexTok (hex : Bool) (n : Nat) : Token := .number (formatHexInt hex n)

/-- `for idx, x := range xs { if idx > 0 { print(",") }; print(x) }` after the first element -/
def commaTail {α : Type} (f : α → List Token) : List α → List Token
  | [] => []
  | x :: xs => Token.p .comma :: (f x ++ commaTail f xs)

def commaList {α : Type} (f : α → List Token) : List α → List Token
  | [] => []
  | x :: xs => f x ++ commaTail f xs

def wordToks (w : String) : List Token := [classifyWord w]

def writeByteOrder : ByteOrder → Token
  | .bigEndian => .number "0"
  | .littleEndian => .number "1"

def writeValueType : ValueType → Token
  | .unsigned => Token.p .plus
  | .signed => Token.p .minus

/-- `writeVersion` -/
def writeVersion (ver : String) : List Token :=
  [Token.kw .version, .string ver]

/-- `writeNewSymbols` -/
def writeNewSymbols (symbols : List String) : List Token :=
  [Token.kw .newSymbols, Token.p .colon] ++ symbols.map classifyWord

/-- `writeBitTiming` -/
def writeBitTiming (bt : BitTiming) : List Token :=
  [Token.kw .bitTiming, Token.p .colon] ++
    (if bt.baudrate = 0 ∧ bt.bitTimingReg1 = 0 ∧ bt.bitTimingReg2 = 0 then []
     else [uintTok bt.baudrate, Token.p .colon, uintTok bt.bitTimingReg1, Token.p .comma,
           uintTok bt.bitTimingReg2])

/-- `writeNodes` -/
def writeNodes (names : List String) : List Token :=
  [Token.kw .node, Token.p .colon] ++ names.map classifyWord

/-- `writeValueDescription` -/
def writeValueDescription (vd : ValueDescription) : List Token :=
  [uintTok vd.id, .string vd.name]

def writeValueDescriptions : List ValueDescription → List Token
  | [] => []
  | vd :: vds => writeValueDescription vd ++ writeValueDescriptions vds

/-- `writeValueTable` -/
def writeValueTable (vt : ValueTable) : List Token :=
  [Token.kw .valueTable, classifyWord vt.name] ++ writeValueDescriptions vt.values ++
    [Token.p .semicolon]

/-- the multiplexer indicator of `writeSignal` -/
def writeMuxIndicator (sig : Signal) : List Token :=
  if sig.isMultiplexed && sig.isMultiplexor then
    [.muxIndicator ("m" ++ formatUint sig.muxSwitchValue ++ "M")]
  else if sig.isMultiplexed then [.muxIndicator ("m" ++ formatUint sig.muxSwitchValue)]
  else if sig.isMultiplexor then [.muxIndicator "M"]
  else []

/-- `writeSignal` -/
def writeSignal (sig : Signal) : List Token :=
  [Token.kw .signal, classifyWord sig.name] ++ writeMuxIndicator sig ++
  [Token.p .colon, uintTok sig.startBit, Token.p .pipe, uintTok sig.size, Token.p .at,
   writeByteOrder sig.byteOrder, writeValueType sig.valueType, Token.p .leftParen] ++
  doubleToks sig.factor ++ [Token.p .comma] ++ doubleToks sig.offset ++
  [Token.p .rightParen, Token.p .leftSquareBrace] ++
  doubleToks sig.min ++ [Token.p .pipe] ++ doubleToks sig.max ++
  [Token.p .rightSquareBrace, .string sig.unit] ++
  commaList wordToks sig.receivers

def writeSignals : List Signal → List Token
  | [] => []
  | s :: ss => writeSignal s ++ writeSignals ss

/-- `writeMessage` -/
def writeMessage (msg : Message) : List Token :=
  [Token.kw .message, uintTok msg.id, classifyWord msg.name, Token.p .colon, uintTok msg.size,
   classifyWord msg.transmitter] ++ writeSignals msg.signals

/-- `writeMessageTransmitter` -/
def writeMessageTransmitter (mt : MessageTransmitter) : List Token :=
  [Token.kw .messageTransmitter, uintTok mt.messageID, Token.p .colon] ++
    mt.transmitters.map classifyWord ++ [Token.p .semicolon]

def writeEnvVarType : EnvVarType → Token
  | .int => .number "0"
  | .float => .number "1"
  | .string => .number "2"

/-- `writeEnvVar` -/
def writeEnvVar (ev : EnvVar) : List Token :=
  [Token.kw .envVar, classifyWord ev.name, Token.p .colon, writeEnvVarType ev.type,
   Token.p .leftSquareBrace] ++
  doubleToks ev.min ++ [Token.p .pipe] ++ doubleToks ev.max ++
  [Token.p .rightSquareBrace, .string ev.unit] ++ doubleToks ev.initialValue ++
  [uintTok ev.id, .ident (accessTypeName ev.accessType)] ++
  commaList wordToks ev.accessNodes ++ [Token.p .semicolon]

/-- `writeEnvVarData` -/
def writeEnvVarData (d : EnvVarData) : List Token :=
  [Token.kw .envVarData, classifyWord d.envVarName, Token.p .colon, uintTok d.dataSize,
   Token.p .semicolon]

/-- `writeSignalType` -/
def writeSignalType (st : SignalType) : List Token :=
  [Token.kw .signalType, classifyWord st.typeName, Token.p .colon, uintTok st.size, Token.p .at,
   writeByteOrder st.byteOrder, writeValueType st.valueType, Token.p .leftParen] ++
  doubleToks st.factor ++ [Token.p .comma] ++ doubleToks st.offset ++
  [Token.p .rightParen, Token.p .leftSquareBrace] ++
  doubleToks st.min ++ [Token.p .pipe] ++ doubleToks st.max ++
  [Token.p .rightSquareBrace, .string st.unit] ++ doubleToks st.defaultValue ++
  [Token.p .comma, classifyWord st.valueTableName, Token.p .semicolon]

/-- `writeComment` -/
def writeComment (c : Comment) : List Token :=
  [Token.kw .comment] ++
  (match c.kind with
   | .general => []
   | .node => [Token.kw .node, classifyWord c.nodeName]
   | .message => [Token.kw .message, uintTok c.messageID]
   | .signal => [Token.kw .signal, uintTok c.messageID, classifyWord c.signalName]
   | .envVar => [Token.kw .envVar, classifyWord c.envVarName]) ++
  [.string c.text, Token.p .semicolon]

def writeAttributeKind : AttributeKind → List Token
  | .general => []
  | .node => [Token.kw .node]
  | .message => [Token.kw .message]
  | .signal => [Token.kw .signal]
  | .envVar => [Token.kw .envVar]

def stringToks (s : String) : List Token := [.string s]

/-- `writeAttribute` -/
def writeAttribute (hex : Bool) (a : Attribute) : List Token :=
  [Token.kw .attribute] ++ writeAttributeKind a.kind ++ [.string a.name] ++
  (match a.type with
   | .int => [Token.kw .attributeInt, intTok a.minInt, intTok a.maxInt]
   | .hex => [Token.kw .attributeHex, hexTok hex a.minHex, hexTok hex a.maxHex]
   | .string => [Token.kw .attributeString]
   | .float => [Token.kw .attributeFloat] ++ doubleToks a.minFloat ++ doubleToks a.maxFloat
   | .enum => [Token.kw .attributeEnum] ++ commaList stringToks a.enumValues) ++
  [Token.p .semicolon]

/-- the value part of `writeAttributeDefault` / `writeAttributeValue` -/
def writeAttrValue (hex : Bool) (t : AttrValType) (vInt : Int) (vHex : Nat) (vFloat vString : String) :
    List Token :=
  match t with
  | .int => [intTok vInt]
  | .hex => [hexTok hex vHex]
  | .float => doubleToks vFloat
  | .string => [.string vString]

/-- `writeAttributeDefault` -/
def writeAttributeDefault (hex : Bool) (d : AttributeDefault) : List Token :=
  [Token.kw .attributeDefault, .string d.attributeName] ++
  writeAttrValue hex d.type d.valueInt d.valueHex d.valueFloat d.valueString ++
  [Token.p .semicolon]

/-- `writeAttributeValue` -/
def writeAttributeValue (hex : Bool) (v : AttributeValue) : List Token :=
  [Token.kw .attributeValue, .string v.attributeName] ++
  (match v.attributeKind with
   | .general => []
   | .node => [Token.kw .node, classifyWord v.nodeName]
   | .message => [Token.kw .message, uintTok v.messageID]
   | .signal => [Token.kw .signal, uintTok v.messageID, classifyWord v.signalName]
   | .envVar => [Token.kw .envVar, classifyWord v.envVarName]) ++
  writeAttrValue hex v.type v.valueInt v.valueHex v.valueFloat v.valueString ++
  [Token.p .semicolon]

/-- `writeValueEncoding` -/
def writeValueEncoding (ve : ValueEncoding) : List Token :=
  [Token.kw .valueEncoding] ++
  (match ve.kind with
   | .signal => [uintTok ve.messageID, classifyWord ve.signalName]
   | .envVar => [classifyWord ve.envVarName]) ++
  writeValueDescriptions ve.values ++ [Token.p .semicolon]

/-- `writeSignalTypeRef` -/
def writeSignalTypeRef (r : SignalTypeRef) : List Token :=
  [Token.kw .signalType, uintTok r.messageID, classifyWord r.signalName, Token.p .colon,
   classifyWord r.typeName, Token.p .semicolon]

/-- `writeSignalGroup` -/
def writeSignalGroup (g : SignalGroup) : List Token :=
  [Token.kw .signalGroup, uintTok g.messageID, classifyWord g.groupName, uintTok g.repetitions,
   Token.p .colon] ++ g.signalNames.map classifyWord ++ [Token.p .semicolon]

def writeExtValueType : ExtValueType → Token
  | .integer => .number "0"
  | .float => .number "1"
  | .double => .number "2"

/-- `writeSignalExtValueType` -/
def writeSignalExtValueType (t : SignalExtValueType) : List Token :=
  [Token.kw .signalValueType, uintTok t.messageID, classifyWord t.signalName,
   writeExtValueType t.extValueType, Token.p .semicolon]

def writeExtendedMuxRange (r : ExtendedMuxRange) : List Token :=
  [.numberRange (formatUint r.from_ ++ "-" ++ formatUint r.to)]

/-- `writeExtendedMux` -/
def writeExtendedMux (m : ExtendedMux) : List Token :=
  [Token.kw .extendedMux, uintTok m.messageID, classifyWord m.multiplexedName,
   classifyWord m.multiplexorName] ++ commaList writeExtendedMuxRange m.ranges ++
  [Token.p .semicolon]

/-- `writeSlice` (new lines are not tokens) -/
def writeSlice {α : Type} (f : α → List Token) : List α → List Token
  | [] => []
  | x :: xs => f x ++ writeSlice f xs

/-- `writeFile` (without the final eof) -/
def writeFile (hex : Bool) (ast : File) : List Token :=
  writeVersion (if ast.version ≠ "" then ast.version else "_") ++
  writeNewSymbols (match ast.newSymbols with | some s => s | none => newSymbolsValues) ++
  writeBitTiming (match ast.bitTiming with | some b => b | none => {}) ++
  (match ast.nodes with | some n => writeNodes n | none => []) ++
  writeSlice writeValueTable ast.valueTables ++
  writeSlice writeMessage ast.messages ++
  writeSlice writeMessageTransmitter ast.messageTransmitters ++
  writeSlice writeEnvVar ast.envVars ++
  writeSlice writeEnvVarData ast.envVarDatas ++
  writeSlice writeSignalType ast.signalTypes ++
  writeSlice writeComment ast.comments ++
  writeSlice (writeAttribute hex) ast.attributes ++
  writeSlice (writeAttributeDefault hex) ast.attributeDefaults ++
  writeSlice (writeAttributeValue hex) ast.attributeValues ++
  writeSlice writeValueEncoding ast.valueEncodings ++
  writeSlice writeSignalTypeRef ast.signalTypeRefs ++
  writeSlice writeSignalGroup ast.signalGroups ++
  writeSlice writeSignalExtValueType ast.signalExtValueTypes ++
  writeSlice writeExtendedMux ast.extendedMuxes

/-- tokens of `dbc.Write(w, ast, hexNumbersEnabled)` as scanned by `scanner.go`; the last token
is the scanner's `eof`. -/
def writeToks (hexNumbersEnabled : Bool) (ast : File) : List Token :=
  writeFile hexNumbersEnabled ast ++ [.eof]

end Acme.Dbc
