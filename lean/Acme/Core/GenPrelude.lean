/-
Go operator semantics used by the GENERATED kernel definitions (Acme/Gen/Kernels.lean, written
by /verif/tools/extract/kernels.go from /repo's current source on every run).

This file is hand-written and is part of the trusted base of the translator: it says what a Go
operator means for the representation the translator chose.

  Go `int`                       ↦ `Int`      (+ - * unbounded: no overflow is assumed;
                                               shifts and bitwise operators go through the
                                               64-bit two's complement representation below)
  Go `uintN` / `intN` / `uint`   ↦ `BitVec N` (wrap-around arithmetic, signedness kept by the
                                               translator for comparisons, `/`, `%`, `>>`,
                                               conversions)
  Go `bool`                      ↦ `Bool`     (conditions are emitted as decidable `Prop`s)
  Go slice (parameterised)       ↦ `List`     (`len` ↦ `List.length`, `s[i]` ↦ `index?`,
                                               `for .. range s` ↦ structural recursion)
  Go `error`                     ↦ `Option Cause` (`Cause`: the generated inductive of sentinels)
  Go `string` (constants, ==)    ↦ `String`
  Go `float64`, ORDER ONLY       ↦ `Rat`      (kernels marked floatOrder: the exact value; only
                                               parameters, constants, copies and comparisons —
                                               arithmetic is rejected; NaN / ±Inf outside the model)
  Go `any` holding a bool / int64 / uint64 / string / float64 ↦ `Any` (tagged by the dynamic
                                               type; a float64 only as a MARKER, without value)

A Go shift by a count ≥ the width yields 0 (or the sign for a signed `>>`), which is what the
`BitVec` shifts by a `Nat` do.  A negative shift count and a division by zero panic in Go; the
translation of such an execution is unspecified (`Int.toNat` of a negative count is 0).
-/
namespace Acme.GoSem

/-- `bits.Len64(x)`: the minimum number of bits required to represent `x`; 0 for `x == 0`. -/
def len64 (x : BitVec 64) : Int :=
  ((if x.toNat = 0 then 0 else Nat.log2 x.toNat + 1 : Nat) : Int)

/-- `a << n` for a Go `int` a (64-bit two's complement: bits shifted out are lost). -/
def intShl (a : Int) (n : Nat) : Int := (BitVec.ofInt 64 a <<< n).toInt

/-- `a >> n` for a Go `int` a (arithmetic shift). -/
def intShr (a : Int) (n : Nat) : Int := ((BitVec.ofInt 64 a).sshiftRight n).toInt

/-- `a & b`, `a | b`, `a ^ b`, `a &^ b`, `^a` for Go `int`s. -/
def intAnd (a b : Int) : Int := (BitVec.ofInt 64 a &&& BitVec.ofInt 64 b).toInt
def intOr (a b : Int) : Int := (BitVec.ofInt 64 a ||| BitVec.ofInt 64 b).toInt
def intXor (a b : Int) : Int := (BitVec.ofInt 64 a ^^^ BitVec.ofInt 64 b).toInt
def intAndNot (a b : Int) : Int := (BitVec.ofInt 64 a &&& ~~~ BitVec.ofInt 64 b).toInt
def intNot (a : Int) : Int := (~~~ BitVec.ofInt 64 a).toInt

/-- Result of a kernel that contains an index expression `s[i]`: `panic` when an index is out
    of range (the Go run-time panic), otherwise the value. -/
inductive Res (α : Type) where
  | panic
  | val (a : α)
  deriving Repr, DecidableEq

/-- `s[i]` for a slice `s` (↦ `List`) and a Go `int` index: `none` when out of range. -/
def index? {α : Type} (l : List α) (i : Int) : Option α :=
  if i < 0 then none else l[i.toNat]?

/-- Element type for a parameterised collection whose elements are observed through an entity
    id and an integer index only (the values of a `SignalEnum`). -/
structure IdIndex where
  id : Nat
  index : Int
  deriving Repr, DecidableEq, Inhabited

/-- An operation of a `CANIDBuilder` as the Go code stores it: the kind as the VALUE of the
    `CANIDBuilderOpKind` constant, `from`, `len`. -/
structure KOp where
  kind : Int
  from_ : Int
  len : Int
  deriving Repr, DecidableEq, Inhabited

/-- `slices.Insert(s, i, v)`: panics unless `0 ≤ i ≤ len(s)`. -/
def sliceInsert {α : Type} (l : List α) (i : Int) (v : α) : Res (List α) :=
  if i < 0 ∨ (l.length : Int) < i then .panic else .val (l.insertIdx i.toNat v)

/-- `slices.Delete(s, i, j)`: removes `s[i:j]`; panics unless `0 ≤ i ≤ j ≤ len(s)`. -/
def sliceDelete {α : Type} (l : List α) (i j : Int) : Res (List α) :=
  if i < 0 ∨ j < i ∨ (l.length : Int) < j then .panic else .val (l.take i.toNat ++ l.drop j.toNat)

/-- The translated fields of a `SignalType` (signal_type.go).  The `float64` fields are the exact
    rationals they denote (the order-only convention: they are only copied and compared). -/
structure KSigType where
  kind : Int
  size : Int
  signed : Bool
  min : Rat
  max : Rat
  scale : Rat
  offset : Rat
  deriving Repr, DecidableEq

/-- The translated fields of an `IntegerAttribute` / `FloatAttribute` (attribute.go). -/
structure KIntAttr where
  defValue : Int
  min : Int
  max : Int
  isHexFormat : Bool
  deriving Repr, DecidableEq

structure KFloatAttr where
  defValue : Rat
  min : Rat
  max : Rat
  deriving Repr, DecidableEq

/-- A Go `any` (`interface{}`) value, tagged with its dynamic type, for the dynamic types the
    translator supports.  `float64`: only the FACT that a float64 is stored — its value is the
    result of genuine float arithmetic, which the translator does not translate. -/
inductive Any where
  | nil
  | bool (b : Bool)
  | int64 (v : BitVec 64)
  | uint64 (v : BitVec 64)
  | float64
  | str (s : String)
  deriving Repr, DecidableEq

/-- The translated fields of a `SignalDecoding` (signal_layout.go): `RawValue`, `ValueType` (the
    string value of the `SignalValueType` constant) and `Value`.  `Signal` and `Unit` are not
    translated. -/
structure Decoded where
  rawValue : BitVec 64
  valueType : String
  value : Any
  deriving Repr, DecidableEq

end Acme.GoSem
