/-
Message level of the DBC exporter for trees WITH nested multiplexers (a `Child` with `isMux`
refers to the `MuxNode` of its name in `ITree.nested`), and the API calls that build such a
tree.  The flat functions of Acme.Core.Import (`build`, `exportMsg`) are untouched — the
theorems of C11Msg are about them —; `buildAny` / `exportAny` dispatch on `hasNested`.

  exporter.go : exportMultiplexerSignal called recursively through exportSignal for a child that
                is a multiplexer: the child is written `m<k>M`, its own children follow it, its
                SG_MUL_VAL_ entries are appended BEFORE those of its parent, and — as soon as a
                multiplexer is nested or holds a nested one — an entry is written for EVERY child.
                The statement `e.currDBCMsg.Signals[len-1].MuxSwitchValue = uint32(id)` after the
                recursive call patches the LAST signal written so far: for a nested multiplexer
                that is its last descendant, not the multiplexer itself (whose switch value stays 0).
  mux_signal.go / message.go : InsertSignal of a multiplexer into a multiplexer (no parent
                message yet: only the names of the direct children are compared); the names at all
                depths are compared when the top-level multiplexer is inserted into the message.

Recursion over the tree is by name look-up with a fuel (`nested.length + 1` suffices).
-/
import Acme.Core.Import

namespace Acme.Import
open Acme.Layout Acme.Conv Acme.Arith

def findNode (N : List MuxNode) (name : String) : Option MuxNode := N.find? (fun x => x.name == name)

def hasNested (t : ITree) : Bool :=
  !t.nested.isEmpty || t.top.any (fun x => match x with
    | .sig _ => false
    | .mux n => n.children.any (·.isMux))

/-! ## building through the API -/

/-- the loop over the children of one multiplexer; `rec` builds a nested multiplexer at the
    given absolute start and returns it with everything built below it -/
def buildKidsN (N : List MuxNode) (rec : Int → MuxNode → Except ImpErr (MuxNode × List MuxNode))
    (gc gs base : Int) : List Child → List MuxNode → List Child → Except ImpErr (List Child × List MuxNode)
  | cs, acc, [] => .ok (cs, acc)
  | cs, acc, c :: r =>
    if c.isMux then
      match findNode N c.name with
      | none => .error .unsupported
      | some sub =>
        match rec (base + c.rel) sub with
        | .error e => .error e
        | .ok (sub', below) =>
          match muxInsert gc gs cs { c with size := sub'.groupSize + sub'.selW } with
          | .error e => .error e
          | .ok cs' => buildKidsN N rec gc gs base cs' (acc ++ [sub'] ++ below) r
    else if c.size ≤ 0 then .error .sizeZero
    else match muxInsert gc gs cs c with
      | .error e => .error e
      | .ok cs' => buildKidsN N rec gc gs base cs' acc r

/-- `NewMultiplexerSignal`, then the children in call order (a child multiplexer is completed
    before it is inserted); the result carries absolute starts and selector widths -/
def buildMuxN (N : List MuxNode) : Nat → Int → MuxNode → Except ImpErr (MuxNode × List MuxNode)
  | 0, _, _ => .error .unsupported
  | fuel + 1, abs, n =>
    match newMux n.groupCount n.groupSize with
    | .error e => .error e
    | .ok () =>
      let selW := calcSize (n.groupCount - 1)
      match buildKidsN N (buildMuxN N fuel) n.groupCount n.groupSize (abs + selW) [] [] n.children with
      | .error e => .error e
      | .ok (cs, below) => .ok ({ n with start := abs, selW := selW, children := cs }, below)

/-- the names a multiplexer brings into the message: its children at every depth -/
def deepNames (N : List MuxNode) : Nat → MuxNode → List String
  | 0, _ => []
  | fuel + 1, n =>
    n.children.flatMap (fun c =>
      if c.isMux then
        match findNode N c.name with
        | some sub => c.name :: deepNames N fuel sub
        | none => [c.name]
      else [c.name])

def regNamesN (N : List MuxNode) : List Item → List String
  | [] => []
  | .sig l :: rest => l.name :: regNamesN N rest
  | .mux n :: rest => n.name :: (deepNames N (N.length + 1) n ++ regNamesN N rest)

/-- `Message.InsertSignal` with the names of all depths -/
def insertTopN (cap : Int) (N : List MuxNode) (top : List Item) (x : Item) : Except ImpErr (List Item) :=
  if (regNamesN N top).contains x.name then .error .nameDuplicated
  else
    let clash := match x with
      | .sig _ => false
      | .mux n =>
        let names := deepNames N (N.length + 1) n
        names.any (fun a => (regNamesN N top).contains a || a == n.name) || !Acme.Mux.nodupStr names
    if clash then .error .nameDuplicated
    else match verifyInsert cap (topSlots top) x.size x.start with
      | .error e => .error (ofLErr e)
      | .ok () => .ok (insertItem x top)

def buildTopN (cap : Int) (N : List MuxNode) : List Item → List MuxNode → List Item →
    Except ImpErr (List Item × List MuxNode)
  | top, acc, [] => .ok (top, acc)
  | top, acc, .sig l :: r =>
    if l.size ≤ 0 then .error .sizeZero
    else match insertTopN cap (acc) top (.sig l) with
      | .error e => .error e
      | .ok top' => buildTopN cap N top' acc r
  | top, acc, .mux n :: r =>
    match buildMuxN N (N.length + 1) n.start n with
    | .error e => .error e
    | .ok (n', below) =>
      match insertTopN cap (acc ++ below) top (.mux n') with
      | .error e => .error e
      | .ok top' => buildTopN cap N top' (acc ++ below) r

def buildN (t : ITree) : Except ImpErr ITree :=
  if t.sizeByte > 8 then .error .msgTooBig
  else match buildTopN (8 * t.sizeByte) t.nested [] [] t.top with
    | .error e => .error e
    | .ok (top, nested) => .ok { t with top := top, nested := nested }

def buildAny (t : ITree) : Except ImpErr ITree := if hasNested t then buildN t else build t

/-! ## exporter -/

/-- `Signals[len-1].MuxSwitchValue = id` -/
def patchLast (id : Nat) : List DSig → List DSig
  | [] => []
  | [s] => [{ s with muxSwitch := id }]
  | s :: r => s :: patchLast id r

/-- the loop over the signals seen first; `rec` exports a nested multiplexer (`isMultiplexed`) -/
def exportKidsN (be : Bool) (N : List MuxNode) (rec : MuxNode → List DSig × List DExt) (n : MuxNode) :
    List (Child × Int) → List DSig → List DExt → List DSig × List DExt
  | [], sigs, exts => (sigs, exts)
  | (c, id) :: r, sigs, exts =>
    if c.isMux then
      match findNode N c.name with
      | none => exportKidsN be N rec n r sigs exts
      | some sub =>
        let p := rec sub
        exportKidsN be N rec n r (patchLast id.toNat (sigs ++ p.1)) (exts ++ p.2)
    else
      let s : DSig :=
        { name := c.name, start := fileStart be (n.start + n.selW + c.rel), size := c.size.toNat,
          bigEndian := be, isMultiplexed := true, muxSwitch := id.toNat }
      exportKidsN be N rec n r (sigs ++ [s]) exts

/-- `exportMultiplexerSignal`; `muxed` = the multiplexer is itself a child of a multiplexer.
    Returns the signals written (own signal first) and the extended entries (nested ones first). -/
def exportMuxN (be : Bool) (N : List MuxNode) : Nat → Bool → MuxNode → List DSig × List DExt
  | 0, _, _ => ([], [])
  | fuel + 1, muxed, n =>
    let seen := walkGroups n.children (List.range n.groupCount.toNat) []
    let head : DSig :=
      { name := n.name, start := fileStart be n.start, size := n.selW.toNat, bigEndian := be,
        isMultiplexor := true, isMultiplexed := muxed }
    let p := exportKidsN be N (exportMuxN be N fuel true) n seen [head] []
    let nestedMux := muxed || seen.any (fun q => q.1.isMux)
    let isExtended := seen.any (fun q => decide ((idsOfName n.children n.groupCount q.1.name).length ≥ 2))
    let own : List DExt :=
      if !isExtended && !nestedMux then []
      else seen.filterMap (fun q =>
        let ids := idsOfName n.children n.groupCount q.1.name
        if !nestedMux && ids.length = 1 then none
        else some ⟨n.name, q.1.name, toNatRanges ((compress ids).getD [])⟩)
    (p.1, p.2 ++ own)

def exportItemsN (be : Bool) (N : List MuxNode) : List Item → List DSig × List DExt
  | [] => ([], [])
  | .sig l :: r =>
    let b := exportItemsN be N r
    ({ name := l.name, start := fileStart be l.start, size := l.size.toNat, bigEndian := be } :: b.1, b.2)
  | .mux n :: r =>
    let a := exportMuxN be N (N.length + 1) false n
    let b := exportItemsN be N r
    (a.1 ++ b.1, a.2 ++ b.2)

def exportMsgN (t : ITree) : DMsg :=
  let p := exportItemsN t.bigEndian t.nested t.top
  { id := t.id, size := t.sizeByte.toNat, sigs := p.1, exts := p.2 }

def exportAny (t : ITree) : DMsg := if hasNested t then exportMsgN t else exportMsg t

end Acme.Import
