/-
Byte-level model of the DBC scanner (`/repo/dbc/scanner.go`): bytes → tokens with positions.

Core Lean only.  DOMAIN: every byte string (no restriction).  The model has two layers.

1. `decode : List UInt8 → List Item` — what the scanner's two views of the `bufio.Reader` see at
   each rune boundary:
   * `Item.rd` is the rune `ReadRune` returns there: the decoded rune of a valid UTF-8 sequence
     (1–4 bytes, no overlong form, no surrogate, ≤ U+10FFFF: the validity notion of Go's
     `utf8.DecodeRune`, which is the one of Lean's `ByteArray.utf8DecodeChar?`), or U+FFFD for ONE
     byte that does not start a valid sequence (`ReadRune` then consumes a single byte);
   * `Item.ok` tells whether `scanner.peek` can see that rune: `peek` tries `Peek(1..3 + offset)`
     and `utf8.DecodeRune`, and skips every attempt that yields `utf8.RuneError`; hence a rune is
     visible to `peek` iff its encoding is valid, at most 3 bytes long and it is not U+FFFD itself.
     In every other case (invalid byte, 4-byte rune, the rune U+FFFD, end of input) `peek` returns
     `eof` (= rune 0) and does not advance `peekBytesOffset`.
   `s.value += string(ch)` re-encodes the rune READ, so the value of a token is the UTF-8 encoding
   of its `rd` runes (an invalid input byte shows up as the three bytes EF BF BD).

2. The scanner proper on `List Item`, mirroring scanner.go function by function:
   * `s.read()`  = take the head item `it` off the input, append `it.rd` to the value, and move the
     position by `Pos.adv` (`currCol++`, `+4` more for a tab, a new line resets the column to 0 and
     increments the line);  `s.read()` at the end of the input changes nothing and returns `eof`;
   * `s.peek()` (k-th call since the last `read`) = `Item.pk` of the k-th item of the remaining
     input (`peek0`, `peek1`, `peek2`); `peek` after a failed `peek` looks at the same place again
     (`peek1`/`peek2` model that, although no control path of scanner.go does it);
   * a `for { peek; if cond { read } else break }` loop = `List.takeWhile`/`dropWhile` on the
     remaining input (`scanText`, `scanSpace`, the digit loops of `scanExpNumber`, the bounded
     loop of `scanHexNumber`); the loop of `scanNumber` is a genuine state machine
     (`numLoop`, structural recursion on the input); `scanString` reads (not peeks) up to the
     closing quote / NUL / end of input;
   * the runes read between two `emit`s are the token's raw value `Lex.raw`; they are exactly the
     `rd`s of the items consumed (`Acme.Proofs.DbcScan`: `scanTok_consumes`).
   * positions: `startLine/startCol` are `currLine/currCol` right AFTER the first `read` of a
     token (`beginToken`); when that first `read` hits the end of the input (the final `eof` token,
     which has no rune) they are `currLine` and `currCol + 1`: the position just behind the last
     rune — `(1,1)` for an empty input, `(line+1, 1)` behind a trailing new line.  `PTok.off`
     (index of the token's first rune in the item list) and `PTok.len` are ghost fields used by
     the theorems only.

`scanAll` = `dbc.VerifScan`: all tokens but the spaces, up to and including the first `eof` or
`error` token.  (The real scanner can be asked for more tokens after an error token; `scanTok`
models a single `s.scan()` call on any remaining input, `VerifScan` just never makes that call.)

`isNumber` is `unicode.IsDigit` (general category Nd, Unicode 15.0.0 = Go 1.24's tables).
-/
import Acme.Core.Dbc

namespace Acme.Dbc.Scan

/-! ## character classes (scanner.go, punct.go) -/

def eofCh : Char := Char.ofNat 0
def runeError : Char := Char.ofNat 0xFFFD

def maxErrorValueLength : Nat := 20

def isEOF (c : Char) : Bool := c == eofCh

def isSpace (c : Char) : Bool := c == ' ' || c == '\t' || c == '\n' || c == '\r'

def isLetter (c : Char) : Bool :=
  (decide ('a' ≤ c) && decide (c ≤ 'z')) || (decide ('A' ≤ c) && decide (c ≤ 'Z'))

/-- the non-ASCII ranges of `unicode.Nd` (Unicode 15.0.0), `(lo, hi)` inclusive -/
def ndRanges : List (Nat × Nat) :=
  [(0x660, 0x669), (0x6F0, 0x6F9), (0x7C0, 0x7C9), (0x966, 0x96F), (0x9E6, 0x9EF),
   (0xA66, 0xA6F), (0xAE6, 0xAEF), (0xB66, 0xB6F), (0xBE6, 0xBEF), (0xC66, 0xC6F),
   (0xCE6, 0xCEF), (0xD66, 0xD6F), (0xDE6, 0xDEF), (0xE50, 0xE59), (0xED0, 0xED9),
   (0xF20, 0xF29), (0x1040, 0x1049), (0x1090, 0x1099), (0x17E0, 0x17E9), (0x1810, 0x1819),
   (0x1946, 0x194F), (0x19D0, 0x19D9), (0x1A80, 0x1A89), (0x1A90, 0x1A99), (0x1B50, 0x1B59),
   (0x1BB0, 0x1BB9), (0x1C40, 0x1C49), (0x1C50, 0x1C59), (0xA620, 0xA629), (0xA8D0, 0xA8D9),
   (0xA900, 0xA909), (0xA9D0, 0xA9D9), (0xA9F0, 0xA9F9), (0xAA50, 0xAA59), (0xABF0, 0xABF9),
   (0xFF10, 0xFF19), (0x104A0, 0x104A9), (0x10D30, 0x10D39), (0x11066, 0x1106F),
   (0x110F0, 0x110F9), (0x11136, 0x1113F), (0x111D0, 0x111D9), (0x112F0, 0x112F9),
   (0x11450, 0x11459), (0x114D0, 0x114D9), (0x11650, 0x11659), (0x116C0, 0x116C9),
   (0x11730, 0x11739), (0x118E0, 0x118E9), (0x11950, 0x11959), (0x11C50, 0x11C59),
   (0x11D50, 0x11D59), (0x11DA0, 0x11DA9), (0x11F50, 0x11F59), (0x16A60, 0x16A69),
   (0x16AC0, 0x16AC9), (0x16B50, 0x16B59), (0x1D7CE, 0x1D7FF), (0x1E140, 0x1E149),
   (0x1E2F0, 0x1E2F9), (0x1E4F0, 0x1E4F9), (0x1E950, 0x1E959), (0x1FBF0, 0x1FBF9)]

/-- `unicode.IsDigit` -/
def isNumber (c : Char) : Bool :=
  if c.toNat < 0x80 then c.isDigit
  else ndRanges.any (fun r => decide (r.1 ≤ c.toNat) && decide (c.toNat ≤ r.2))

def isHexNumber (c : Char) : Bool :=
  isNumber c || (decide ('a' ≤ c) && decide (c ≤ 'f')) || (decide ('A' ≤ c) && decide (c ≤ 'F'))

def isAlphaNumeric (c : Char) : Bool := isLetter c || isNumber c || c == '_' || c == '-'

/-- `isPunctKeyword` -/
def isPunct (c : Char) : Bool :=
  c == ':' || c == ',' || c == '(' || c == ')' || c == '[' || c == ']' || c == '|' || c == ';' ||
  c == '@' || c == '+' || c == '-'

/-! ## layer 1: bytes → items -/

structure Item where
  /-- the rune `ReadRune` returns -/
  rd : Char
  /-- `peek` can see the rune -/
  ok : Bool
  deriving DecidableEq, Repr, Inhabited

/-- what `peek` returns when this item is the next one it looks at -/
def Item.pk (it : Item) : Char := if it.ok then it.rd else eofCh

/-- `utf8.DecodeRune` restricted to success: the rune whose valid encoding starts the bytes -/
def decodeRune? (bs : List UInt8) : Option Char :=
  (bs.take 4).toByteArray.utf8DecodeChar? 0

/-- the item a rune read from a VALID encoding gives -/
def itemOfChar (c : Char) : Item := ⟨c, decide (c.utf8Size ≤ 3) && c != runeError⟩

/-- `skip` = number of continuation bytes of the current rune still to pass over -/
def decodeAux : Nat → List UInt8 → List Item
  | _, [] => []
  | k + 1, _ :: bs => decodeAux k bs
  | 0, b :: bs =>
    match decodeRune? (b :: bs) with
    | some c => itemOfChar c :: decodeAux (c.utf8Size - 1) bs
    | none => ⟨runeError, false⟩ :: decodeAux 0 bs

def decode (bs : List UInt8) : List Item := decodeAux 0 bs

/-! ## layer 2: the scanner on items -/

inductive Kind
  | error | eof | space | ident | number | numberRange | muxIndicator | string | keyword | punct
  deriving DecidableEq, Repr, Inhabited

/-- `tokenNames` -/
def Kind.name : Kind → String
  | .error => "error" | .eof => "eof" | .space => "space" | .ident => "ident"
  | .number => "number" | .numberRange => "number_range" | .muxIndicator => "mux_indicator"
  | .string => "string" | .keyword => "keyword" | .punct => "punct"

/-- the outcome of one `s.scan()`: kind, error message (`""` unless `kind = error`), the runes
read (`s.value` at the time of the emit) and the input that is left -/
structure Lex where
  kind : Kind
  msg : String := ""
  raw : List Char
  rest : List Item
  deriving Repr, Inhabited

def peek0 : List Item → Char
  | [] => eofCh
  | a :: _ => a.pk

/-- second `peek` without a `read` in between -/
def peek1 : List Item → Char
  | [] => eofCh
  | a :: rest => if a.ok then peek0 rest else eofCh

/-- third `peek` without a `read` in between -/
def peek2 : List Item → Char
  | [] => eofCh
  | a :: rest => if a.ok then peek1 rest else eofCh

def rds (l : List Item) : List Char := l.map Item.rd

/-- one iteration of the `scanText` loop on `(isMuxSwitch, foundSwitchNum)` -/
def muxStepU (st : Bool × Bool) (ch : Char) : Bool × Bool :=
  if st.1 then
    if isNumber ch then (true, true)
    else if !st.2 || ch != 'M' then (false, st.2)
    else st
  else st

/-- `scanText`; `first` is the letter already read, `inp` the input behind it -/
def scanText (first : Char) (inp : List Item) : Lex :=
  let body := inp.takeWhile (fun it => isAlphaNumeric it.pk)
  let rest := inp.dropWhile (fun it => isAlphaNumeric it.pk)
  let st := (rds body).foldl muxStepU (first == 'm', false)
  let buf := first :: rds body
  let kind :=
    if (st.1 && decide (buf.length > 1)) || (decide (buf.length = 1) && first == 'M') then
      Kind.muxIndicator
    else if isKeywordStr (String.ofList buf) then Kind.keyword
    else Kind.ident
  { kind := kind, raw := buf, rest := rest }

/-- `scanSpace` -/
def scanSpace (first : Char) (inp : List Item) : Lex :=
  { kind := .space
    raw := first :: rds (inp.takeWhile (fun it => isSpace it.pk))
    rest := inp.dropWhile (fun it => isSpace it.pk) }

/-- `scanHexNumber`: entered after `peek` returned the `x`; `pre` = the runes read so far,
`inp` starts with the item of the `x` -/
def scanHexNumber (pre : List Char) (inp : List Item) : Lex :=
  if !isHexNumber (peek1 inp) then
    { kind := .error, msg := "invalid hex number", raw := pre, rest := inp }
  else
    match inp with
    | x :: d :: rest =>
      let more := (rest.take 8).takeWhile (fun it => isHexNumber it.pk)
      { kind := .number, raw := pre ++ x.rd :: d.rd :: rds more, rest := rest.drop more.length }
    | _ => { kind := .error, msg := "invalid hex number", raw := pre, rest := inp } -- unreachable

/-- `scanExpNumber`: entered after `peek` returned the `e`; `inp` starts with the item of the `e` -/
def scanExpNumber (pre : List Char) (inp : List Item) : Lex :=
  let ch := peek1 inp
  if ch != '-' && ch != '+' && !isNumber ch then
    match inp with
    | e :: rest =>
      { kind := .error, msg := "invalid exponential number", raw := pre ++ [e.rd], rest := rest }
    | [] => { kind := .error, msg := "invalid exponential number", raw := pre, rest := [] } -- unreachable
  else if ch == '-' || ch == '+' then
    match inp with
    | e :: sg :: rest =>
      if !isNumber (peek2 inp) then
        { kind := .error, msg := "invalid exponential number", raw := pre ++ [e.rd, sg.rd],
          rest := rest }
      else
        { kind := .number
          raw := pre ++ e.rd :: sg.rd :: rds (rest.takeWhile (fun it => isNumber it.pk))
          rest := rest.dropWhile (fun it => isNumber it.pk) }
    | _ => { kind := .error, msg := "invalid exponential number", raw := pre, rest := inp } -- unreachable
  else
    match inp with
    | e :: rest =>
      { kind := .number
        raw := pre ++ e.rd :: rds (rest.takeWhile (fun it => isNumber it.pk))
        rest := rest.dropWhile (fun it => isNumber it.pk) }
    | [] => { kind := .error, msg := "invalid exponential number", raw := pre, rest := [] } -- unreachable

/-- the end of `scanNumber` (behind the loop) -/
def numFinish (firstCh : Char) (hasMore isRange : Bool) (pre : List Char) (inp : List Item) : Lex :=
  if !hasMore && (firstCh == '-' || firstCh == '+') then { kind := .punct, raw := pre, rest := inp }
  else if isRange then { kind := .numberRange, raw := pre, rest := inp }
  else { kind := .number, raw := pre, rest := inp }

/-- the loop of `scanNumber`.  `pre` = the runes read so far (in order). -/
def numLoop (firstCh : Char) : (prevCh : Char) → (hasMore isRange : Bool) → (pre : List Char) →
    List Item → Lex
  | _, hasMore, isRange, pre, [] => numFinish firstCh hasMore isRange pre []
  | prevCh, hasMore, isRange, pre, a :: rest =>
    let ch := a.pk
    if isEOF ch then numFinish firstCh hasMore isRange pre (a :: rest)
    else if firstCh == '0' && (ch == 'x' || ch == 'X') then scanHexNumber pre (a :: rest)
    else if !isNumber ch && ch != '.' then
      if (ch == 'e' || ch == 'E') && (prevCh != '-' && prevCh != '+' && prevCh != '.') then
        scanExpNumber pre (a :: rest)
      else if ch == '-' && isNumber firstCh && !isRange then
        match rest with
        | b :: rest' =>
          if isNumber b.pk then numLoop firstCh prevCh hasMore true (pre ++ [a.rd, b.rd]) rest'
          else numFinish firstCh hasMore isRange pre (a :: rest)
        | [] => numFinish firstCh hasMore isRange pre (a :: rest)
      else numFinish firstCh hasMore isRange pre (a :: rest)
    else if ch == '.' && (prevCh == '-' || prevCh == '+') then
      numFinish firstCh hasMore isRange pre (a :: rest)
    else numLoop firstCh ch true isRange (pre ++ [a.rd]) rest

/-- `scanNumber` -/
def scanNumber (first : Char) (inp : List Item) : Lex := numLoop first first false false [first] inp

/-- `scanString`: `read`s (not `peek`s) up to the closing quote, a NUL or the end of the input -/
def scanString (first : Char) (inp : List Item) : Lex :=
  let body := inp.takeWhile (fun it => !isEOF it.rd && it.rd != '"')
  match inp.dropWhile (fun it => !isEOF it.rd && it.rd != '"') with
  | [] => { kind := .error, msg := "unclosed string, missing closing \"", raw := first :: rds body,
            rest := [] }
  | q :: rest =>
    if q.rd == '"' then { kind := .string, raw := first :: (rds body ++ [q.rd]), rest := rest }
    else { kind := .error, msg := "unclosed string, missing closing \"",
           raw := first :: (rds body ++ [q.rd]), rest := rest }

/-- `scanner.scan`: one token (spaces included) -/
def scanTok : List Item → Lex
  | [] => { kind := .eof, raw := [], rest := [] }
  | it :: rest =>
    let ch := it.rd
    if isEOF ch then { kind := .eof, raw := [ch], rest := rest }
    else if isSpace ch then scanSpace ch rest
    else if isLetter ch then scanText ch rest
    else if isNumber ch || ch == '-' || ch == '+' then scanNumber ch rest
    else if ch == '"' then scanString ch rest
    else if isPunct ch then { kind := .punct, raw := [ch], rest := rest }
    else { kind := .error, msg := "unrecognized symbol", raw := [ch], rest := rest }

/-! ## positions -/

structure Pos where
  line : Nat
  col : Nat
  deriving DecidableEq, Repr, Inhabited

/-- the bookkeeping of `scanner.read` for one rune -/
def Pos.adv (p : Pos) (c : Char) : Pos :=
  if c = '\n' then ⟨p.line + 1, 0⟩
  else if c = '\t' then ⟨p.line, p.col + 5⟩
  else ⟨p.line, p.col + 1⟩

/-- a token with its start position; `off`/`len` are ghost: index of the first rune in the item
list and number of runes read -/
structure PTok where
  kind : Kind
  msg : String
  raw : List Char
  pos : Pos
  off : Nat
  len : Nat
  deriving Repr, Inhabited

/-- the state between two `s.scan()` calls: current position, number of runes read so far,
remaining input -/
structure St where
  cur : Pos := ⟨1, 0⟩
  off : Nat := 0
  inp : List Item

/-- one `s.scan()` with the position bookkeeping -/
def step (s : St) : PTok × St :=
  let lx := scanTok s.inp
  let start := match lx.raw with
    | [] => ⟨s.cur.line, s.cur.col + 1⟩  -- `read` at the end of the input: just behind the last rune
    | c :: _ => s.cur.adv c
  let cur := lx.raw.foldl Pos.adv s.cur
  (⟨lx.kind, lx.msg, lx.raw, start, s.off, lx.raw.length⟩,
   { cur := cur, off := s.off + lx.raw.length, inp := lx.rest })

/-- `VerifScan`'s loop (with the space tokens kept); `none` = out of fuel -/
def scanFuel : Nat → St → Option (List PTok)
  | 0, _ => none
  | fuel + 1, s =>
    let (t, s') := step s
    if t.kind = .eof || t.kind = .error then some [t]
    else (scanFuel fuel s').map (t :: ·)

/-- all tokens, spaces included, up to the first `eof`/`error` -/
def scanItemsAll (items : List Item) : List PTok :=
  (scanFuel (items.length + 1) { inp := items }).getD []

/-- `VerifScan` on items -/
def scanItems (items : List Item) : List PTok :=
  (scanItemsAll items).filter (fun t => t.kind != .space)

/-- `VerifScan`: all tokens but the spaces; the last one is an `eof` or an `error` token -/
def scanAll (bs : List UInt8) : List PTok := scanItems (decode bs)

/-! ## token values -/

def encodeRunes (cs : List Char) : List UInt8 := cs.flatMap String.utf8EncodeChar

/-- `token.value` as bytes: the inside of a string, `msg : value[:20]` for an error, `s.value`
otherwise -/
def PTok.valueBytes (t : PTok) : List UInt8 :=
  match t.kind with
  | .string => encodeRunes ((t.raw.drop 1).dropLast)
  | .error => t.msg.toUTF8.toList ++ " : ".toUTF8.toList ++ (encodeRunes t.raw).take maxErrorValueLength
  | _ => encodeRunes t.raw

/-- the longest prefix of runes whose encoding fits in `n` bytes -/
def takeBytes : Nat → List Char → List Char
  | _, [] => []
  | n, c :: cs => if c.utf8Size ≤ n then c :: takeBytes (n - c.utf8Size) cs else []

/-- the token of the token-level model (`Acme.Dbc.Token`).  An error value is cut at byte 20 by
Go, possibly inside a rune; the `String` here keeps the whole runes that fit (the byte-exact value
is `valueBytes`). -/
def PTok.tok (t : PTok) : Token :=
  match t.kind with
  | .error => .error (t.msg ++ " : " ++ String.ofList (takeBytes maxErrorValueLength t.raw))
  | .eof => .eof
  | .space => .error "space"
  | .ident => .ident (String.ofList t.raw)
  | .number => .number (String.ofList t.raw)
  | .numberRange => .numberRange (String.ofList t.raw)
  | .muxIndicator => .muxIndicator (String.ofList t.raw)
  | .string => .string (String.ofList ((t.raw.drop 1).dropLast))
  | .keyword => .keyword (String.ofList t.raw)
  | .punct => .punct (String.ofList t.raw)

/-- the token list of a text, without positions -/
def scanToks (bs : List UInt8) : List Token := (scanAll bs).map PTok.tok

end Acme.Dbc.Scan
