/-
Abstract model of concurrent read-only use of one shared acmelib model (C18).

Shared memory is a set of locations (`Nat`); a thread is a list of accesses; the only
ordering between different threads is fork (before everything) and join (after
everything), as in `ExportNetwork`'s WaitGroup and in N goroutines started over a
finished model.  Two accesses race when they belong to different threads, touch the
same location and at least one of them is a write.
-/
namespace Acme.Conc

inductive Kind where
  | read | write
  deriving Repr, DecidableEq

structure Access where
  thread : Nat
  loc : Nat
  kind : Kind
  deriving Repr, DecidableEq

/-- an execution: any interleaving of the threads' accesses, as one list -/
abbrev Trace := List Access

def conflicting (a b : Access) : Prop :=
  a.thread ≠ b.thread ∧ a.loc = b.loc ∧ (a.kind = .write ∨ b.kind = .write)

/-- a data race: two conflicting accesses (threads are unordered with each other) -/
def Race (σ : Trace) : Prop := ∃ a ∈ σ, ∃ b ∈ σ, conflicting a b

/-- memory as a function; a write of thread `t` stores the value `t + 1` (any value) -/
def apply (m : Nat → Nat) (a : Access) : Nat → Nat :=
  match a.kind with
  | .read => m
  | .write => fun l => if l = a.loc then a.thread + 1 else m l

def runTrace (m : Nat → Nat) (σ : Trace) : Nat → Nat := σ.foldl apply m

/-- the values a trace reads, in order, per access: (thread, loc, value read) -/
def reads (m : Nat → Nat) : Trace → List (Nat × Nat × Nat)
  | [] => []
  | a :: rest =>
    match a.kind with
    | .read => (a.thread, a.loc, m a.loc) :: reads (apply m a) rest
    | .write => reads (apply m a) rest

end Acme.Conc
