/-
Model of /repo/canid_builder.go (calculateOp, Calculate, CalculatePartials,
InsertOperation, RemoveOperation, the default builder) and of Message.GetCANID
(/repo/message.go).

CANID, MessageID, NodeID, MessagePriority are Go `uint32`  ↦ `BitVec 32`.
`from`, `len`, indexes are Go `int` ↦ `Int`; `uint32(i)` of an int is the value
modulo 2^32; a Go shift by ≥ 32 yields 0, which is what `BitVec` shifts by a `Nat` do.
-/
namespace Acme.CanId

inductive Kind where
  | prio | msgId | nodeId | mask
  deriving Repr, DecidableEq, Inhabited

structure BOp where
  kind : Kind
  from_ : Int
  len : Int
  deriving Repr, DecidableEq, Inhabited

/-- Go `uint32(x)` for an `int` x, as a shift amount. -/
def u32 (i : Int) : Nat := (i % 4294967296).toNat

/-- `uint32(0xFFFFFFFF) >> uint32(32-len)` -/
def lenMask (len : Int) : BitVec 32 := (0xFFFFFFFF#32) >>> u32 (32 - len)

/-- `calculateOp` -/
def calcOp (op : BOp) (prev prio mid nid : BitVec 32) : BitVec 32 :=
  match op.kind with
  | .mask => prev &&& (lenMask op.len <<< u32 op.from_)
  | k =>
    let src := match k with
      | .prio => prio
      | .msgId => mid
      | .nodeId => nid
      | .mask => 0#32
    prev ||| ((src &&& lenMask op.len) <<< u32 op.from_)

/-- Executable variant used by the driver: identical to `calcOp` (theorem
    `calcOpFast_eq` in Acme.Proofs.CanIdFast) but never materialises a shift by ≥ 32,
    which Lean's `BitVec` shifts would compute on an astronomically large `Nat`. -/
def shl32 (x : BitVec 32) (n : Nat) : BitVec 32 := if n ≥ 32 then 0#32 else x <<< n
def shr32 (x : BitVec 32) (n : Nat) : BitVec 32 := if n ≥ 32 then 0#32 else x >>> n
def lenMaskFast (len : Int) : BitVec 32 := shr32 (0xFFFFFFFF#32) (u32 (32 - len))
def calcOpFast (op : BOp) (prev prio mid nid : BitVec 32) : BitVec 32 :=
  match op.kind with
  | .mask => prev &&& shl32 (lenMaskFast op.len) (u32 op.from_)
  | k =>
    let src := match k with
      | .prio => prio
      | .msgId => mid
      | .nodeId => nid
      | .mask => 0#32
    prev ||| shl32 (src &&& lenMaskFast op.len) (u32 op.from_)

def calculateFast (ops : List BOp) (prio mid nid : BitVec 32) : BitVec 32 :=
  ops.foldl (fun acc op => calcOpFast op acc prio mid nid) 0#32

def partialsFromFast (acc : BitVec 32) (prio mid nid : BitVec 32) : List BOp → List (BitVec 32)
  | [] => []
  | op :: ops =>
    let v := calcOpFast op acc prio mid nid
    v :: partialsFromFast v prio mid nid ops

/-- `Calculate` -/
def calculate (ops : List BOp) (prio mid nid : BitVec 32) : BitVec 32 :=
  ops.foldl (fun acc op => calcOp op acc prio mid nid) 0#32

/-- `CalculatePartials` (loop with accumulator) -/
def partialsFrom (acc : BitVec 32) (prio mid nid : BitVec 32) : List BOp → List (BitVec 32)
  | [] => []
  | op :: ops =>
    let v := calcOp op acc prio mid nid
    v :: partialsFrom v prio mid nid ops

def partials (ops : List BOp) (prio mid nid : BitVec 32) : List (BitVec 32) :=
  partialsFrom 0#32 prio mid nid ops

/-- `newDefaultCANIDBuilder`: UseNodeID(0,4).UseMessageID(4,7).UseCAN2A() -/
def defaultOps : List BOp :=
  [⟨.nodeId, 0, 4⟩, ⟨.msgId, 4, 7⟩, ⟨.mask, 0, 11⟩]

inductive Err where
  | outOfBounds (arg : String)
  deriving Repr, DecidableEq

/-- `InsertOperation` -/
def insertOp (ops : List BOp) (kind : Kind) (from_ len idx : Int) : Except Err (List BOp) :=
  if from_ < 0 ∨ from_ > 31 then .error (.outOfBounds "from")
  else if len < 0 ∨ len > 32 - from_ then .error (.outOfBounds "length")
  else if idx < 0 ∨ idx > ops.length then .error (.outOfBounds "opIndex")
  else .ok (ops.insertIdx idx.toNat ⟨kind, from_, len⟩)

/-- `RemoveOperation` -/
def removeOp (ops : List BOp) (idx : Int) : Except Err (List BOp) :=
  if idx < 0 ∨ idx ≥ ops.length then .error (.outOfBounds "opIndex")
  else .ok (ops.eraseIdx idx.toNat)

/-- `Message.GetCANID`: `static` = the static CAN-ID when set; `attached` = the builder
    operations of the bus and the node id when the message is sent by a node interface
    that is attached to a bus. -/
def getCANID (static : Option (BitVec 32)) (attached : Option (List BOp × BitVec 32))
    (prio mid : BitVec 32) : BitVec 32 :=
  match static with
  | some c => c
  | none =>
    match attached with
    | none => mid
    | some (ops, nid) => calculate ops prio mid nid

end Acme.CanId
