/-
C05 — containment and reference links are symmetric and exclusive (graph part).

  At every point a child reports a parent exactly when that parent lists the child —
  message and sender interface, message and receiver interfaces, interface and bus, bus
  and network — and no entity is listed by two containers of the same kind.  Every shared
  definition (signal type, unit, attribute, CAN-ID builder) reports as its references
  exactly the entities that currently use it; a node's interfaces are exactly those not
  removed, numbered 0..n-1 in order.

Model: Acme.Core.Graph.  Spec: Acme.Spec.Graph (`Inv`, `OpOK`, `Reach`).
Proofs: Acme.Proofs.Graph (`Inv_step`, `Inv_reach`).

Hypotheses on the histories (`OpOK`): no re-attachment of an entity that already has a
parent (D25, `unsupported`); the receivers of a message belong to different nodes (D26);
an interface removed from its node is not attached to a bus afterwards; harness ids are
unique across the attributable kinds.
-/
import Acme.Spec.Graph
import Acme.Proofs.Graph

namespace Acme.Props.C05
open Acme.Graph

/-- the C05 statements about a world -/
structure C05 (g : G) : Prop where
  /-- bus ↔ network: the network lists the bus (under its own id) iff the bus reports it -/
  bus_net : ∀ n b, (netBuses g.nets n).get b = some b ↔ busParent g.buses b = some n
  /-- interface ↔ bus: the bus lists the interface (under its node) iff the interface reports it -/
  iface_bus : ∀ b nd i, (busNodeInts g.buses b).get nd = some i ↔
    ifaceNode g.ifaces i = some nd ∧ ifaceBus g.ifaces i = some b
  /-- message ↔ sender interface -/
  msg_sender : ∀ i m, (ifaceSent g.ifaces i).get m = some m ↔ msgSender g.msgs m = some i
  /-- message ↔ receiver interfaces -/
  msg_receiver : ∀ i nd m, ifaceNode g.ifaces i = some nd →
    ((ifaceRecv g.ifaces i).get m = some m ↔ (msgReceivers g.msgs m).get nd = some i)
  /-- the receivers listed by a message are interfaces of the node they are listed under -/
  receiver_node : ∀ m nd i, (msgReceivers g.msgs m).get nd = some i → ifaceNode g.ifaces i = some nd
  /-- the registries list every child under its own id / once -/
  net_vals : ∀ n b v, (netBuses g.nets n).get b = some v → v = b
  sent_vals : ∀ i m v, (ifaceSent g.ifaces i).get m = some v → v = m
  recv_vals : ∀ i m v, (ifaceRecv g.ifaces i).get m = some v → v = m
  /-- node ↔ interfaces: listed once, belong to the node, numbered 0..n-1 in order, counted;
  an interface removed from its node is on no bus -/
  node : NodeI g.nodes g.ifaces
  /-- references = exactly the current users -/
  builder : BuilderI g.builders g.buses
  attr : AttrI g.attrs g.buses g.nodes g.msgs g.sigs
  typ : TypeI g.types g.sigs
  unit : UnitI g.units g.sigs

theorem C05_of_inv {g : G} (h : Inv g) : C05 g where
  bus_net := fun n b => ⟨fun e => (h.net.b1 e).2, fun e => h.net.b2 e⟩
  iface_bus := h.bus.ints_get
  msg_sender := fun i m => ⟨fun e => (h.sent.s1 e).2, fun e => h.sent.s2 e⟩
  msg_receiver := h.recv.recv_get
  receiver_node := h.recv.receivers_node
  net_vals := fun _ _ _ e => (h.net.b1 e).1
  sent_vals := fun _ _ _ e => (h.sent.s1 e).1
  recv_vals := h.recv.recv_val
  node := h.node
  builder := h.builder
  attr := h.attr
  typ := h.typ
  unit := h.unit

/-- one admissible operation preserves the invariant, hence C05 -/
theorem C05_step {g : G} (h : Inv g) {op : Op} (ok : OpOK g op) : C05 (step g op).1 :=
  C05_of_inv (Inv_step h ok)

/-- C05 holds in every world reachable by admissible operations -/
theorem C05_reach {g : G} (h : Reach g) : C05 g := C05_of_inv (Inv_reach h)

/-! ### exclusivity: no entity is listed by two containers of the same kind -/

theorem C05_bus_in_one_network {g : G} (h : Reach g) {n n' b v v' : Nat}
    (h1 : (netBuses g.nets n).get b = some v) (h2 : (netBuses g.nets n').get b = some v') : n = n' := by
  have i := Inv_reach h
  have a := (i.net.b1 h1).2
  have b' := (i.net.b1 h2).2
  rw [a] at b'; exact Option.some.inj b'

theorem C05_iface_on_one_bus {g : G} (h : Reach g) {b b' nd nd' i : Nat}
    (h1 : (busNodeInts g.buses b).get nd = some i) (h2 : (busNodeInts g.buses b').get nd' = some i) :
    b = b' ∧ nd = nd' := by
  have iv := Inv_reach h
  have a := iv.bus.i1 h1
  have c := iv.bus.i1 h2
  constructor
  · have := a.2; rw [c.2] at this; exact (Option.some.inj this).symm
  · have := a.1; rw [c.1] at this; exact (Option.some.inj this).symm

theorem C05_msg_one_sender {g : G} (h : Reach g) {i i' m v v' : Nat}
    (h1 : (ifaceSent g.ifaces i).get m = some v) (h2 : (ifaceSent g.ifaces i').get m = some v') : i = i' := by
  have iv := Inv_reach h
  have a := (iv.sent.s1 h1).2
  have c := (iv.sent.s1 h2).2
  rw [a] at c; exact Option.some.inj c

/-- an interface belongs to one node only (the lists of two nodes are disjoint) -/
theorem C05_iface_of_one_node {g : G} (h : Reach g) {n n' i : Nat}
    (h1 : i ∈ nodeIfaces g.nodes n) (h2 : i ∈ nodeIfaces g.nodes n') : n = n' := by
  have iv := Inv_reach h
  have a := iv.node.nd h1
  have c := iv.node.nd h2
  rw [a] at c; exact Option.some.inj c

end Acme.Props.C05
